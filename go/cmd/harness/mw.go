package main

// Engine `mw` — C19: middleware chains run in order and are re-entrant.
//
// A middleware (stage) is a small program (see lean/Driver/Middleware.lean for the grammar shared with
// the model); messages and contexts carry integer tokens so that what every stage RECEIVES is
// observable; the innermost handler is a script. For each case the engine
//   - installs the stage programs as REAL middlewares of a real kmipclient.Client (WithMiddlewares),
//     of a real kmipserver.BatchExecutor message chain (Use) or batch item chain (BatchItemUse),
//     runs Client.Roundtrip / BatchExecutor.HandleRequest and records the trace;
//   - predicts result and trace with a reference interpreter of plain nested composition
//     (stage0(stage1(... core))) and checks the real trace against it and against the grammar of
//     well-nested traces (oracle C19, independent of the Lean model);
//   - registers the line `mw.run <kind> <chain> <core> <m0>,<c0>` to be answered by the Lean `runImpl`;
//   - re-runs all the requests of a chain concurrently from several goroutines sharing the chain.

import (
	"context"
	"encoding/binary"
	"errors"
	"fmt"
	"io"
	"log/slog"
	"net"
	"runtime"
	"strconv"
	"strings"
	"sync"
	"sync/atomic"
	"time"

	kmip "github.com/ovh/kmip-go"
	"github.com/ovh/kmip-go/kmipclient"
	"github.com/ovh/kmip-go/kmipserver"
	"github.com/ovh/kmip-go/payloads"
	"github.com/ovh/kmip-go/ttlv"

	"verifharness/internal/report"
	"verifharness/internal/rng"
)

// ---------------------------------------------------------------------------------------------
// token level: programs, scripts, events (fixtures shared by the real adapters and the reference)

const (
	mwNil      = -1 // nil resp / nil err
	mwFailBase = 1000
	mwLibErr   = 999
)

// mwR is (resp, err) as tokens.
type mwR struct{ resp, err int }

func (r mwR) isFail() bool { return r.err != mwNil || r.resp >= mwFailBase }

func mwOpt(v int) string {
	if v == mwNil {
		return "n"
	}
	return strconv.Itoa(v)
}
func (r mwR) String() string { return mwOpt(r.resp) + "/" + mwOpt(r.err) }

type mwTr struct {
	konst bool
	v     int
}

func (t mwTr) app(x int) int {
	if t.konst {
		return t.v
	}
	return x*10 + t.v
}

type mwRet struct {
	mode  byte // 'l' last, 'e' (nil, err), 's' (resp, nil), 'F' fixed
	fixed mwR
}

func (rt mwRet) eval(last mwR) mwR {
	switch rt.mode {
	case 'e':
		return mwR{mwNil, last.err}
	case 's':
		return mwR{last.resp, mwNil}
	case 'F':
		return rt.fixed
	}
	return last
}

type mwAct struct {
	op  string // c f m x r rf ro
	tr  mwTr
	ret mwRet
}

type mwStage struct {
	id   int
	body []mwAct
}

type mwOut struct {
	ok bool
	v  int
}

func (o mwOut) String() string {
	if o.ok {
		return "o" + strconv.Itoa(o.v)
	}
	return "e" + strconv.Itoa(o.v)
}

type mwCore struct {
	outs []mwOut
	dflt mwOut
	rej  []int
}

type mwCase struct {
	kind     string
	chain    []mwStage
	chainSrc string
	core     mwCore
	coreSrc  string
	m0, c0   int
}

func (cs *mwCase) line() string {
	return fmt.Sprintf("mw.run %s %s %s %d,%d", cs.kind, cs.chainSrc, cs.coreSrc, cs.m0, cs.c0)
}

type mwEvent struct {
	k       byte // E C B X K
	id      int  // stage id, or invocation number for K
	m, c, h int
	r       mwR
	out     mwOut
}

func (e mwEvent) String() string {
	switch e.k {
	case 'E', 'C':
		return fmt.Sprintf("%c%d:%d:%d", e.k, e.id, e.m, e.c)
	case 'B', 'X':
		return fmt.Sprintf("%c%d:%s", e.k, e.id, e.r)
	}
	return fmt.Sprintf("K%d:%d:%d:%d:%s", e.id, e.m, e.c, e.h, e.out)
}

// mwRec is the per-request recorder and the per-request state of the scripted handler.
type mwRec struct {
	cs     *mwCase
	events []mwEvent
	calls  int
	notes  []string // observations of the adapters that do not fit the trace (marker mismatches…)
	yield  bool     // concurrent mode: yield the processor around every continuation call
	budget int      // reference interpreter only: abort when the trace grows beyond this
	over   bool
	netCtx int // real-transport variant: the context token seen at the transport boundary
	netID  uint64
	depth  int // nesting depth of the real adapters (runaway recursion guard)
}

// enter / leave guard the real adapters against a chain that recurses without end (a stack overflow
// cannot be recovered; a panic can).
func (rec *mwRec) enter() {
	rec.depth++
	if rec.depth > 4000 {
		panic("harness: runaway middleware recursion")
	}
}
func (rec *mwRec) leave() { rec.depth-- }

func (rec *mwRec) log(e mwEvent) {
	rec.events = append(rec.events, e)
	if rec.budget > 0 && len(rec.events) > rec.budget {
		rec.over = true
	}
	if rec.budget == 0 && len(rec.events) > 1<<20 {
		panic("harness: runaway middleware trace")
	}
}

func (rec *mwRec) note(s string) {
	if len(rec.notes) < 4 {
		rec.notes = append(rec.notes, s)
	}
}

// coreRun plays the handler script: the outcome depends on the invocation count and on the message.
func (rec *mwRec) coreRun(m, c, h int) mwOut {
	n := rec.calls
	rec.calls++
	out := rec.cs.core.dflt
	if n < len(rec.cs.core.outs) {
		out = rec.cs.core.outs[n]
	}
	for _, x := range rec.cs.core.rej {
		if x == m {
			out = mwOut{false, 9}
		}
	}
	rec.log(mwEvent{k: 'K', id: n, m: m, c: c, h: h, out: out})
	return out
}

// mwCoreResult: how an outcome of the scripted handler reaches the last stage, per kind.
func mwCoreResult(kind string, o mwOut) mwR {
	if o.ok {
		return mwR{o.v, mwNil}
	}
	switch kind {
	case "client":
		return mwR{mwNil, o.v}
	case "srvmsg":
		return mwR{mwFailBase + o.v, mwNil}
	}
	return mwR{0, o.v} // srvitem: executeItem returns the (empty) item together with the error
}

// mwFinish: what the entry point makes of the pair returned by the outermost stage.
func mwFinish(kind string, r mwR) mwR {
	switch kind {
	case "srvmsg":
		if r.err != mwNil {
			return mwR{mwFailBase + r.err, mwNil}
		}
		return mwR{r.resp, mwNil}
	case "srvitem":
		switch {
		case r.err != mwNil:
			return mwR{mwFailBase + r.err, mwNil}
		case r.resp == mwNil:
			return mwR{mwFailBase + mwLibErr, mwNil}
		}
		return mwR{r.resp, mwNil}
	}
	return r
}

func mwHdr(kind string, m0 int) int {
	if kind == "client" {
		return 0
	}
	return m0
}

// mwInterp runs a stage program against `call` (its continuation at token level) and tells how the
// stage returns: the return mode and the result of the latest call.
func mwInterp(st *mwStage, m, c int, rec *mwRec, call func(m, c int) mwR) (mwRet, mwR) {
	last := mwR{mwNil, mwNil}
	do := func() {
		rec.log(mwEvent{k: 'C', id: st.id, m: m, c: c})
		last = call(m, c)
		rec.log(mwEvent{k: 'B', id: st.id, r: last})
	}
	for _, a := range st.body {
		if rec.over {
			break
		}
		switch a.op {
		case "m":
			m = a.tr.app(m)
		case "x":
			c = a.tr.app(c)
		case "c":
			do()
		case "f":
			if last.isFail() {
				do()
			}
		case "r":
			return a.ret, last
		case "rf":
			if last.isFail() {
				return a.ret, last
			}
		case "ro":
			if !last.isFail() {
				return a.ret, last
			}
		}
	}
	return mwRet{mode: 'l'}, last
}

// ---------------------------------------------------------------------------------------------
// reference: plain nested composition, built from the inside out

type mwTokNext func(m, c int) mwR

func mwReference(cs *mwCase, budget int) (mwR, []mwEvent, bool) {
	rec := &mwRec{cs: cs, budget: budget}
	h := mwHdr(cs.kind, cs.m0)
	var next mwTokNext = func(m, c int) mwR { return mwCoreResult(cs.kind, rec.coreRun(m, c, h)) }
	for i := len(cs.chain) - 1; i >= 0; i-- {
		st, inner := &cs.chain[i], next
		next = func(m, c int) mwR {
			rec.log(mwEvent{k: 'E', id: st.id, m: m, c: c})
			rt, last := mwInterp(st, m, c, rec, inner)
			r := rt.eval(last)
			rec.log(mwEvent{k: 'X', id: st.id, r: r})
			return r
		}
	}
	r := next(cs.m0, cs.c0)
	return mwFinish(cs.kind, r), rec.events, rec.over
}

func mwRender(r mwR, evs []mwEvent) string {
	var sb strings.Builder
	sb.WriteString("ok ")
	sb.WriteString(r.String())
	sb.WriteByte(' ')
	if len(evs) == 0 {
		sb.WriteByte('-')
	}
	for i, e := range evs {
		if i > 0 {
			sb.WriteByte(',')
		}
		sb.WriteString(e.String())
	}
	return sb.String()
}

// mwCheckNested parses a trace against the grammar of well-nested executions of `n` stages; it does
// not know the stage programs. Returns "" or (oracle, description).
func mwCheckNested(cs *mwCase, final mwR, evs []mwEvent) (string, string) {
	pos := 0
	n := len(cs.chain)
	var oracle, msg string
	fail := func(o, format string, a ...any) {
		if oracle == "" {
			oracle, msg = o, fmt.Sprintf("event %d: ", pos)+fmt.Sprintf(format, a...)
		}
	}
	var run func(level, m, c int) mwR
	run = func(level, m, c int) mwR {
		if oracle != "" {
			return mwR{}
		}
		if pos >= len(evs) {
			fail("order", "trace ends where stage/handler %d should start", level+1)
			return mwR{}
		}
		e := evs[pos]
		if level == n {
			if e.k != 'K' {
				fail("order", "expected the handler, got %s", e)
				return mwR{}
			}
			if e.m != m || e.c != c {
				fail("substitution", "handler received %d:%d, its predecessor passed %d:%d", e.m, e.c, m, c)
			}
			pos++
			return mwCoreResult(cs.kind, e.out)
		}
		id := cs.chain[level].id
		if e.k != 'E' || e.id != id {
			fail("order", "expected stage %d to be entered, got %s", id, e)
			return mwR{}
		}
		if e.m != m || e.c != c {
			fail("substitution", "stage %d received %d:%d, its predecessor passed %d:%d", id, e.m, e.c, m, c)
		}
		pos++
		for oracle == "" {
			if pos >= len(evs) {
				fail("order", "trace ends inside stage %d", id)
				return mwR{}
			}
			e := evs[pos]
			switch {
			case e.k == 'C' && e.id == id:
				pos++
				r := run(level+1, e.m, e.c)
				if oracle != "" {
					return mwR{}
				}
				if pos >= len(evs) || evs[pos].k != 'B' || evs[pos].id != id {
					fail("order", "call of stage %d is not followed by exactly one execution of the remainder", id)
					return mwR{}
				}
				if evs[pos].r != r {
					fail("result-propagation", "stage %d got back %s, its successor returned %s", id, evs[pos].r, r)
				}
				pos++
			case e.k == 'X' && e.id == id:
				pos++
				return e.r
			default:
				fail("order", "unexpected %s inside stage %d", e, id)
			}
		}
		return mwR{}
	}
	r := run(0, cs.m0, cs.c0)
	if oracle == "" && pos != len(evs) {
		fail("order", "%d events after the end of the outermost stage", len(evs)-pos)
	}
	if oracle == "" && mwFinish(cs.kind, r) != final {
		fail("entry-point", "outermost stage returned %s but the entry point returned %s", r, final)
	}
	return oracle, msg
}

// mwStraightProduct: for chains of unconditional programs, the product of the numbers of calls.
func mwStraightProduct(cs *mwCase) (int, bool) {
	p := 1
	for _, st := range cs.chain {
		k := 0
	body:
		for _, a := range st.body {
			switch a.op {
			case "f", "rf", "ro":
				return 0, false
			case "c":
				k++
			case "r":
				break body
			}
		}
		p *= k
	}
	return p, true
}

// ---------------------------------------------------------------------------------------------
// real objects carrying the tokens

type mwCtxKey struct{}
type mwRecKey struct{}

type mwErr struct{ code int }

func (e mwErr) Error() string { return "E" + strconv.Itoa(e.code) }

func mwErrTok(err error) int {
	if err == nil {
		return mwNil
	}
	var e mwErr
	if errors.As(err, &e) {
		return e.code
	}
	return mwLibErr
}

func mwMkErr(tok int) error {
	if tok == mwNil {
		return nil
	}
	return mwErr{tok}
}

func mwMsgCode(s string) int {
	if strings.HasPrefix(s, "E") {
		if v, err := strconv.Atoi(s[1:]); err == nil {
			return v
		}
	}
	return mwLibErr
}

func mwCtxTok(ctx context.Context) int {
	if v, ok := ctx.Value(mwCtxKey{}).(int); ok {
		return v
	}
	return -7
}

func mwRecOf(ctx context.Context) *mwRec {
	rec, _ := ctx.Value(mwRecKey{}).(*mwRec)
	if rec == nil {
		panic("harness: context without recorder")
	}
	return rec
}

func mwAtoi(s string) int {
	v, err := strconv.Atoi(s)
	if err != nil {
		return -9
	}
	return v
}

// mwMkReq builds a brand-new request message carrying token m (in the header and in the item).
func mwMkReq(m int) *kmip.RequestMessage {
	s := strconv.Itoa(m)
	return &kmip.RequestMessage{
		Header: kmip.RequestHeader{ProtocolVersion: kmip.V1_4, BatchCount: 1, ClientCorrelationValue: s},
		BatchItem: []kmip.RequestBatchItem{{
			Operation:      kmip.OperationActivate,
			RequestPayload: &payloads.ActivateRequestPayload{UniqueIdentifier: s},
		}},
	}
}

func mwMkItemReq(m int) *kmip.RequestBatchItem {
	return &kmip.RequestBatchItem{
		Operation:      kmip.OperationActivate,
		RequestPayload: &payloads.ActivateRequestPayload{UniqueIdentifier: strconv.Itoa(m)},
	}
}

func mwItemReqTok(bi *kmip.RequestBatchItem) int {
	if bi == nil {
		return -8
	}
	pl, ok := bi.RequestPayload.(*payloads.ActivateRequestPayload)
	if !ok || pl == nil {
		return -8
	}
	return mwAtoi(pl.UniqueIdentifier)
}

func mwReqTok(msg *kmip.RequestMessage, rec *mwRec) int {
	if msg == nil || len(msg.BatchItem) != 1 {
		return -8
	}
	m := mwItemReqTok(&msg.BatchItem[0])
	if h := mwAtoi(msg.Header.ClientCorrelationValue); h != m {
		rec.note(fmt.Sprintf("message with header marker %d and item marker %d", h, m))
	}
	return m
}

// mwMkItemResp builds a response item for a token: 0 = no payload, >= failBase = failed item.
func mwMkItemResp(tok int) *kmip.ResponseBatchItem {
	if tok == mwNil {
		return nil
	}
	bi := &kmip.ResponseBatchItem{Operation: kmip.OperationActivate}
	switch {
	case tok >= mwFailBase:
		bi.ResultStatus = kmip.ResultStatusOperationFailed
		bi.ResultReason = kmip.ResultReasonGeneralFailure
		bi.ResultMessage = "E" + strconv.Itoa(tok-mwFailBase)
	case tok > 0:
		bi.ResponsePayload = &payloads.ActivateResponsePayload{UniqueIdentifier: strconv.Itoa(tok)}
	}
	return bi
}

func mwItemRespTok(bi *kmip.ResponseBatchItem) int {
	if bi == nil {
		return mwNil
	}
	if bi.ResultStatus == kmip.ResultStatusOperationFailed {
		return mwFailBase + mwMsgCode(bi.ResultMessage)
	}
	pl, ok := bi.ResponsePayload.(*payloads.ActivateResponsePayload)
	if !ok || pl == nil {
		return 0
	}
	return mwAtoi(pl.UniqueIdentifier)
}

func mwMkResp(tok int) *kmip.ResponseMessage {
	if tok == mwNil {
		return nil
	}
	return &kmip.ResponseMessage{
		Header:    kmip.ResponseHeader{ProtocolVersion: kmip.V1_4, BatchCount: 1},
		BatchItem: []kmip.ResponseBatchItem{*mwMkItemResp(tok)},
	}
}

func mwRespTok(resp *kmip.ResponseMessage) int {
	if resp == nil {
		return mwNil
	}
	if len(resp.BatchItem) != 1 {
		return -8
	}
	return mwItemRespTok(&resp.BatchItem[0])
}

// ---------------------------------------------------------------------------------------------
// real adapters: a stage program as a real middleware

type mwMsgNext = func(context.Context, *kmip.RequestMessage) (*kmip.ResponseMessage, error)

// mwMsgStage is the body shared by the client and the server message middlewares (same signature up
// to the named continuation type).
func mwMsgStage(st *mwStage, next mwMsgNext, ctx context.Context, msg *kmip.RequestMessage) (*kmip.ResponseMessage, error) {
	rec := mwRecOf(ctx)
	rec.enter()
	defer rec.leave()
	m, c := mwReqTok(msg, rec), mwCtxTok(ctx)
	rec.log(mwEvent{k: 'E', id: st.id, m: m, c: c})
	var lastResp *kmip.ResponseMessage
	var lastErr error
	rt, _ := mwInterp(st, m, c, rec, func(m2, c2 int) mwR {
		msg2, ctx2 := msg, ctx
		if m2 != m {
			msg2 = mwMkReq(m2) // never mutate the received message: build a new one
		}
		if c2 != c {
			ctx2 = context.WithValue(ctx, mwCtxKey{}, c2)
		}
		if rec.yield {
			runtime.Gosched()
		}
		lastResp, lastErr = next(ctx2, msg2)
		if rec.yield {
			runtime.Gosched()
		}
		return mwR{mwRespTok(lastResp), mwErrTok(lastErr)}
	})
	var resp *kmip.ResponseMessage
	var err error
	switch rt.mode {
	case 'l':
		resp, err = lastResp, lastErr
	case 'e':
		err = lastErr
	case 's':
		resp = lastResp
	case 'F':
		resp, err = mwMkResp(rt.fixed.resp), mwMkErr(rt.fixed.err)
	}
	rec.log(mwEvent{k: 'X', id: st.id, r: mwR{mwRespTok(resp), mwErrTok(err)}})
	return resp, err
}

func mwItemStage(st *mwStage, next kmipserver.BatchItemNext, ctx context.Context, bi *kmip.RequestBatchItem) (*kmip.ResponseBatchItem, error) {
	rec := mwRecOf(ctx)
	rec.enter()
	defer rec.leave()
	m, c := mwItemReqTok(bi), mwCtxTok(ctx)
	rec.log(mwEvent{k: 'E', id: st.id, m: m, c: c})
	var lastResp *kmip.ResponseBatchItem
	var lastErr error
	rt, _ := mwInterp(st, m, c, rec, func(m2, c2 int) mwR {
		bi2, ctx2 := bi, ctx
		if m2 != m {
			bi2 = mwMkItemReq(m2)
		}
		if c2 != c {
			ctx2 = context.WithValue(ctx, mwCtxKey{}, c2)
		}
		if rec.yield {
			runtime.Gosched()
		}
		lastResp, lastErr = next(ctx2, bi2)
		if rec.yield {
			runtime.Gosched()
		}
		return mwR{mwItemRespTok(lastResp), mwErrTok(lastErr)}
	})
	var resp *kmip.ResponseBatchItem
	var err error
	switch rt.mode {
	case 'l':
		resp, err = lastResp, lastErr
	case 'e':
		err = lastErr
	case 's':
		resp = lastResp
	case 'F':
		resp, err = mwMkItemResp(rt.fixed.resp), mwMkErr(rt.fixed.err)
	}
	rec.log(mwEvent{k: 'X', id: st.id, r: mwR{mwItemRespTok(resp), mwErrTok(err)}})
	return resp, err
}

// mwHandler is the routed operation handler playing the handler script on the server.
type mwHandler struct{}

func (mwHandler) HandleOperation(ctx context.Context, req kmip.OperationPayload) (kmip.OperationPayload, error) {
	rec := mwRecOf(ctx)
	m := -8
	if pl, ok := req.(*payloads.ActivateRequestPayload); ok && pl != nil {
		m = mwAtoi(pl.UniqueIdentifier)
	}
	// the request header the handler's context reports
	h := mwAtoi(kmipserver.GetRequestHeader(ctx).ClientCorrelationValue)
	out := rec.coreRun(m, mwCtxTok(ctx), h)
	if out.ok {
		return &payloads.ActivateResponsePayload{UniqueIdentifier: strconv.Itoa(out.v)}, nil
	}
	return nil, mwErr{out.v}
}

// mwChain is one real chain shared by all the requests of a group.
type mwChain struct {
	kind   string
	client *kmipclient.Client // client chain ending in the scripted transport (a last middleware)
	net    *mwNet             // client chain ending in the REAL transport, served by a scripted responder
	exec   *kmipserver.BatchExecutor
}

// mwNet: a client whose chain ends in Client.doRountrip over a net.Pipe. The other end of the pipe
// is served by a responder that plays the handler script of the request named in the message.
// An adapter installed as last middleware names the request (UniqueBatchItemID), notes the context
// token at the transport boundary, and maps a failed response to (nil, err) so that the observable
// behaviour is the one of the scripted transport.
type mwNet struct {
	client *kmipclient.Client
	recs   sync.Map // request id -> *mwRec
	nextID atomic.Uint64
}

func (n *mwNet) serve(conn net.Conn) {
	st := ttlv.NewStream(conn, -1)
	defer st.Close()
	for {
		var req kmip.RequestMessage
		if err := st.Recv(&req); err != nil {
			return
		}
		tok := mwFailBase + 998 // a message that names no request
		var id []byte
		if len(req.BatchItem) == 1 && len(req.BatchItem[0].UniqueBatchItemID) == 8 {
			id = req.BatchItem[0].UniqueBatchItemID
			if v, ok := n.recs.Load(binary.BigEndian.Uint64(id)); ok {
				rec := v.(*mwRec)
				out := rec.coreRun(mwReqTok(&req, rec), rec.netCtx, 0)
				tok = mwCoreResult("srvmsg", out).resp // a handler error travels as a failed item
			}
		}
		resp := mwMkResp(tok)
		resp.Header.TimeStamp = time.Now()
		resp.BatchItem[0].UniqueBatchItemID = id
		if err := st.Send(resp); err != nil {
			return
		}
	}
}

func (n *mwNet) adapter(next kmipclient.Next, ctx context.Context, msg *kmip.RequestMessage) (*kmip.ResponseMessage, error) {
	rec := mwRecOf(ctx)
	rec.netCtx = mwCtxTok(ctx)
	out := msg
	if msg != nil && len(msg.BatchItem) == 1 {
		cp := *msg
		cp.BatchItem = []kmip.RequestBatchItem{msg.BatchItem[0]}
		cp.BatchItem[0].UniqueBatchItemID = binary.BigEndian.AppendUint64(nil, rec.netID)
		out = &cp
	}
	resp, err := next(ctx, out)
	if err != nil {
		return nil, err // transport failure: not a token error, shows as code 999
	}
	if tok := mwRespTok(resp); tok >= mwFailBase {
		return nil, mwErr{tok - mwFailBase}
	}
	return resp, nil
}

func mwBuild(kind string, chain []mwStage) (*mwChain, error) {
	ch := &mwChain{kind: kind}
	switch kind {
	case "client":
		var mws []kmipclient.Middleware
		for i := range chain {
			st := &chain[i]
			mws = append(mws, func(next kmipclient.Next, ctx context.Context, msg *kmip.RequestMessage) (*kmip.ResponseMessage, error) {
				return mwMsgStage(st, next, ctx, msg)
			})
		}
		// the scripted transport: a last middleware that never calls the real one
		mws = append(mws, func(_ kmipclient.Next, ctx context.Context, msg *kmip.RequestMessage) (*kmip.ResponseMessage, error) {
			rec := mwRecOf(ctx)
			out := rec.coreRun(mwReqTok(msg, rec), mwCtxTok(ctx), 0)
			if out.ok {
				return mwMkResp(out.v), nil
			}
			return nil, mwErr{out.v}
		})
		// a *Client needs a connection: one end of a pipe whose other end is closed at once, so that a
		// chain that (wrongly) reaches the real transport fails instead of blocking.
		dialer := func(context.Context) (net.Conn, error) {
			a, b := net.Pipe()
			_ = b.Close()
			return a, nil
		}
		cl, err := kmipclient.DialContext(context.Background(), "pipe",
			kmipclient.WithMiddlewares(mws...), kmipclient.EnforceVersion(kmip.V1_4), kmipclient.WithDialerUnsafe(dialer))
		if err != nil {
			return nil, err
		}
		ch.client = cl
		// the same stages in front of the real transport
		n := &mwNet{}
		netMws := append(append([]kmipclient.Middleware{}, mws[:len(mws)-1]...), n.adapter)
		netDialer := func(context.Context) (net.Conn, error) {
			a, b := net.Pipe()
			go n.serve(b)
			return a, nil
		}
		if n.client, err = kmipclient.DialContext(context.Background(), "pipe",
			kmipclient.WithMiddlewares(netMws...), kmipclient.EnforceVersion(kmip.V1_4), kmipclient.WithDialerUnsafe(netDialer)); err != nil {
			_ = cl.Close()
			return nil, err
		}
		ch.net = n
	case "srvmsg":
		ch.exec = kmipserver.NewBatchExecutor()
		for i := range chain {
			st := &chain[i]
			ch.exec.Use(func(next kmipserver.Next, ctx context.Context, msg *kmip.RequestMessage) (*kmip.ResponseMessage, error) {
				return mwMsgStage(st, next, ctx, msg)
			})
		}
		ch.exec.Route(kmip.OperationActivate, mwHandler{})
	case "srvitem":
		ch.exec = kmipserver.NewBatchExecutor()
		for i := range chain {
			st := &chain[i]
			ch.exec.BatchItemUse(func(next kmipserver.BatchItemNext, ctx context.Context, bi *kmip.RequestBatchItem) (*kmip.ResponseBatchItem, error) {
				return mwItemStage(st, next, ctx, bi)
			})
		}
		ch.exec.Route(kmip.OperationActivate, mwHandler{})
	default:
		return nil, fmt.Errorf("unknown kind %q", kind)
	}
	return ch, nil
}

func (ch *mwChain) close() {
	if ch.client != nil {
		_ = ch.client.Close()
	}
	if ch.net != nil {
		_ = ch.net.client.Close()
	}
}

// run executes one request on the real chain and renders the canonical answer.
func (ch *mwChain) run(cs *mwCase, yield, realTransport bool) (answer string, rec *mwRec, final mwR, panicked string) {
	rec = &mwRec{cs: cs, yield: yield}
	ctx := context.WithValue(context.WithValue(context.Background(), mwRecKey{}, rec), mwCtxKey{}, cs.c0)
	final, panicked = guard("mw", func() mwR {
		if realTransport {
			rec.netID = ch.net.nextID.Add(1)
			ch.net.recs.Store(rec.netID, rec)
			defer ch.net.recs.Delete(rec.netID)
			resp, err := ch.net.client.Roundtrip(ctx, mwMkReq(cs.m0))
			return mwR{mwRespTok(resp), mwErrTok(err)}
		}
		if ch.client != nil {
			resp, err := ch.client.Roundtrip(ctx, mwMkReq(cs.m0))
			return mwR{mwRespTok(resp), mwErrTok(err)}
		}
		return mwR{mwRespTok(ch.exec.HandleRequest(ctx, mwMkReq(cs.m0))), mwNil}
	})
	if panicked != "" {
		return "panic " + panicKey(panicked), rec, final, panicked
	}
	return mwRender(final, rec.events), rec, final, ""
}

// ---------------------------------------------------------------------------------------------
// parsing (the grammar of lean/Driver/Middleware.lean)

func mwParseTr(s string) (mwTr, error) {
	if len(s) < 2 || (s[0] != 't' && s[0] != 'k') {
		return mwTr{}, fmt.Errorf("bad transform %q", s)
	}
	v, err := strconv.Atoi(s[1:])
	if err != nil || v < 0 {
		return mwTr{}, fmt.Errorf("bad transform %q", s)
	}
	return mwTr{konst: s[0] == 'k', v: v}, nil
}

func mwParseOpt(s string) (int, error) {
	if s == "n" {
		return mwNil, nil
	}
	v, err := strconv.Atoi(s)
	if err != nil || v < 0 {
		return 0, fmt.Errorf("bad value %q", s)
	}
	return v, nil
}

func mwParseRet(s string) (mwRet, error) {
	switch {
	case s == "l", s == "e", s == "s":
		return mwRet{mode: s[0]}, nil
	case strings.HasPrefix(s, "F"):
		a, b, ok := strings.Cut(s[1:], ",")
		if ok {
			ra, e1 := mwParseOpt(a)
			rb, e2 := mwParseOpt(b)
			if e1 == nil && e2 == nil {
				return mwRet{mode: 'F', fixed: mwR{ra, rb}}, nil
			}
		}
	}
	return mwRet{}, fmt.Errorf("bad return %q", s)
}

func mwParseAct(s string) (mwAct, error) {
	switch {
	case s == "c", s == "f":
		return mwAct{op: s}, nil
	case strings.HasPrefix(s, "m"), strings.HasPrefix(s, "x"):
		tr, err := mwParseTr(s[1:])
		return mwAct{op: s[:1], tr: tr}, err
	case strings.HasPrefix(s, "rf"), strings.HasPrefix(s, "ro"):
		rt, err := mwParseRet(s[2:])
		return mwAct{op: s[:2], ret: rt}, err
	case strings.HasPrefix(s, "r"):
		rt, err := mwParseRet(s[1:])
		return mwAct{op: "r", ret: rt}, err
	}
	return mwAct{}, fmt.Errorf("bad action %q", s)
}

func mwParseChain(s string) ([]mwStage, error) {
	if s == "-" {
		return nil, nil
	}
	var chain []mwStage
	for i, src := range strings.Split(s, "/") {
		st := mwStage{id: i + 1}
		if src != "_" {
			for _, a := range strings.Split(src, ".") {
				act, err := mwParseAct(a)
				if err != nil {
					return nil, err
				}
				st.body = append(st.body, act)
			}
		}
		chain = append(chain, st)
	}
	return chain, nil
}

func mwParseOut(s string) (mwOut, error) {
	if len(s) >= 2 && (s[0] == 'o' || s[0] == 'e') {
		if v, err := strconv.Atoi(s[1:]); err == nil && v >= 0 {
			return mwOut{ok: s[0] == 'o', v: v}, nil
		}
	}
	return mwOut{}, fmt.Errorf("bad outcome %q", s)
}

func mwParseCore(s string) (mwCore, error) {
	f := strings.Split(s, ":")
	if len(f) != 3 {
		return mwCore{}, fmt.Errorf("bad core %q", s)
	}
	var core mwCore
	var err error
	if f[0] != "-" {
		for _, o := range strings.Split(f[0], ",") {
			out, err := mwParseOut(o)
			if err != nil {
				return core, err
			}
			core.outs = append(core.outs, out)
		}
	}
	if core.dflt, err = mwParseOut(f[1]); err != nil {
		return core, err
	}
	if f[2] != "-" {
		for _, x := range strings.Split(f[2], ",") {
			v, err := strconv.Atoi(x)
			if err != nil || v < 0 {
				return core, fmt.Errorf("bad core %q", s)
			}
			core.rej = append(core.rej, v)
		}
	}
	return core, nil
}

func mwNewCase(kind, chainSrc, coreSrc string, m0, c0 int) (*mwCase, error) {
	chain, err := mwParseChain(chainSrc)
	if err != nil {
		return nil, err
	}
	core, err := mwParseCore(coreSrc)
	if err != nil {
		return nil, err
	}
	if kind != "client" && kind != "srvmsg" && kind != "srvitem" {
		return nil, fmt.Errorf("unknown kind %q", kind)
	}
	return &mwCase{kind: kind, chain: chain, chainSrc: chainSrc, core: core, coreSrc: coreSrc, m0: m0, c0: c0}, nil
}

func mwParseLine(l string) (*mwCase, error) {
	f := strings.Fields(l)
	if len(f) < 4 || f[0] != "mw.run" {
		return nil, fmt.Errorf("not an mw.run line")
	}
	m0, c0 := 1, 1
	if len(f) >= 5 {
		a, b, ok := strings.Cut(f[4], ",")
		var e1, e2 error
		m0, e1 = strconv.Atoi(a)
		c0, e2 = strconv.Atoi(b)
		if !ok || e1 != nil || e2 != nil {
			return nil, fmt.Errorf("bad initial tokens %q", f[4])
		}
	}
	return mwNewCase(f[1], f[2], f[3], m0, c0)
}

// ---------------------------------------------------------------------------------------------
// the engine

func init() {
	register(&Engine{
		Name: "mw",
		Rule: "middleware chains as data: ALL chains of length 0..3 (quick) / 0..4 (thorough) over an alphabet of stage programs (pass-through, tag message and context, call twice / three times, retry while failed, short-circuit with a response / an error / (nil,nil), ignore or rewrite the inner result, return (nil,err), swallow the error, turn success into error, constant message / context) x handler scripts (always ok, fail n times then ok, always fail, refuse the unmodified message, alternate) x {client chain, server message chain, server batch item chain}, plus random chains of length 4..8 of random programs; every group of requests is run sequentially and then concurrently from 8 goroutines sharing the chain; distinct = distinct line; nontrivial = chain with at least two stages or a stage calling next other than once",
		Run:  runMw,
	})
}

// mwAlphabet: stage programs for position i (1-based): the position is the tag digit.
func mwAlphabet(i int, thorough bool) []string {
	d := strconv.Itoa(i)
	a := []string{
		"c",                           // pass-through
		"mt" + d + ".xt" + d + ".c",   // tag message and context, pass on
		"c.c",                         // call twice, return the second result
		"c.f.f",                       // retry while failed, up to 3 calls (README retry middleware)
		"rF7" + d + ",n",              // short-circuit with a response
		"rFn," + d,                    // short-circuit with (nil, err) (README rate limiter)
		"c.rF8" + d + ",n",            // ignore the inner result, return another
		"c.rfe",                       // (nil, err) on failure (kmipserver.DebugMiddleware)
		"c.mt" + d + ".xt" + d + ".c", // two calls with different messages / contexts
		"c.roFn,6",                    // turn a success into an error
	}
	if thorough {
		a = append(a,
			"c.rs",                  // swallow the error
			"_",                     // (nil, nil) without calling
			"mk9"+d+".c",            // brand-new message
			"xk9"+d+".c",            // brand-new context value
			"c.c.c",                 // three unconditional calls
			"c.rF9"+d+",4",          // both a response and an error
			"mt"+d+".c.f.mt"+d+".f", // retry with a modified message
		)
	}
	return a
}

// mwCores: handler scripts; "@" stands for the initial message of the request (a handler refusing
// the message unless a stage replaced it).
func mwCores(thorough bool) []string {
	c := []string{"-:o5:-", "e1,e2:o5:-", "-:e4:-", "-:o5:@"}
	if thorough {
		c = append(c, "e1:o5:-", "o5,e2:o6:-", "e1,e2,e3:o5:-")
	}
	return c
}

func mwRandomStage(r *rng.R, i int, allowMulti bool) string {
	d := strconv.Itoa(i)
	tr := func() string {
		if r.Chance(1, 4) {
			return "k" + strconv.Itoa(20+r.Intn(70))
		}
		return "t" + d
	}
	ret := func() string {
		switch r.Intn(5) {
		case 0:
			return "l"
		case 1:
			return "e"
		case 2:
			return "s"
		case 3:
			return "F" + strconv.Itoa(30+r.Intn(60)) + ",n"
		}
		opts := []string{"Fn," + strconv.Itoa(1+r.Intn(8)), "Fn,n", "F" + strconv.Itoa(mwFailBase+r.Intn(9)) + ",n", "F0,n", "F4" + d + "," + d}
		return rng.Pick(r, opts)
	}
	n := 1 + r.Intn(5)
	calls, ms, xs := 0, 0, 0
	var acts []string
	for k := 0; k < n; k++ {
		switch r.Intn(9) {
		case 0:
			if ms == 0 { // at most one per stage: tokens stay far below 2^63
				acts = append(acts, "m"+tr())
				ms++
			}
		case 1:
			if xs == 0 {
				acts = append(acts, "x"+tr())
				xs++
			}
		case 2, 3, 4:
			if calls == 0 || allowMulti {
				acts = append(acts, "c")
				calls++
			}
		case 5:
			if allowMulti {
				acts = append(acts, "f")
			}
		case 6:
			acts = append(acts, "rf"+ret())
		case 7:
			acts = append(acts, "ro"+ret())
		case 8:
			if k == n-1 {
				acts = append(acts, "r"+ret())
			}
		}
	}
	if len(acts) == 0 {
		return "_"
	}
	return strings.Join(acts, ".")
}

type mwGroup struct {
	kind     string
	chainSrc string
	cases    []*mwCase
}

// mwRunGroup runs the requests of one chain on ONE real chain object: sequentially (these answers
// are the correspondence cases), then all of them again concurrently.
func mwRunGroup(ctx *Ctx, g *mwGroup) {
	if len(g.cases) == 0 {
		return
	}
	ch, err := mwBuild(g.kind, g.cases[0].chain)
	if err != nil {
		ctx.Res.Fail("mw: cannot build chain " + g.chainSrc + ": " + err.Error())
		return
	}
	defer ch.close()
	seq := make([]string, len(g.cases))
	for i, cs := range g.cases {
		line := cs.line()
		ctx.current = line
		answer, rec, final, p := ch.run(cs, false, false)
		seq[i] = answer
		mwOracle(ctx, cs, line, answer, rec, final, p)
		nontrivial := len(cs.chain) >= 2
		for _, st := range cs.chain {
			k := 0
			for _, a := range st.body {
				if a.op == "c" || a.op == "f" {
					k++
				}
			}
			if k != 1 {
				nontrivial = true
			}
		}
		ctx.Add(line, answer, nontrivial, "C19")
		ctx.Res.Count("mw.kind=" + cs.kind)
		ctx.Res.Count(fmt.Sprintf("mw.len=%d", min(len(cs.chain), 9)))
		ctx.Res.Count(fmt.Sprintf("mw.handler-runs=%s", mwBucket(rec.calls)))
	}
	// client: the same chain in front of the REAL transport (Client.doRountrip over a pipe)
	if ch.net != nil {
		for i, cs := range g.cases {
			ctx.current = cs.line() + " (real transport)"
			if got, _, _, _ := ch.run(cs, false, true); got != seq[i] {
				ctx.Res.Violate(report.Violation{Property: "C19", Oracle: "real-transport", Key: "mw:client:real-transport-differs",
					Detail: "chain ending in the real transport: " + mwClip(got) + " ; scripted transport: " + mwClip(seq[i]), Line: cs.line()})
			}
			ctx.Res.Count("mw.real-transport-requests")
		}
	}
	// concurrent: 8 goroutines share the chain; every request has its own recorder
	const workers = 8
	concurrently := func(realTransport bool) {
		// every worker runs every request of the group (starting at a different one), so that
		// workers x len(cases) runs overlap on the one chain
		conc := make([][]string, workers)
		var wg sync.WaitGroup
		for w := 0; w < workers; w++ {
			wg.Add(1)
			conc[w] = make([]string, len(g.cases))
			go func(w int) {
				defer wg.Done()
				for k := range g.cases {
					i := (k + w) % len(g.cases)
					conc[w][i], _, _, _ = ch.run(g.cases[i], true, realTransport)
				}
			}(w)
		}
		wg.Wait()
		for i, cs := range g.cases {
			for w := 0; w < workers; w++ {
				if conc[w][i] != seq[i] {
					ctx.Res.Violate(report.Violation{Property: "C19", Oracle: "concurrent-shared-chain", Key: "mw:" + cs.kind + ":concurrent-run-differs",
						Detail: "request run concurrently with others on the same chain: " + mwClip(conc[w][i]) + " ; alone: " + mwClip(seq[i]), Line: cs.line()})
					break
				}
			}
			ctx.Res.Count("mw.concurrent-requests")
		}
	}
	ctx.current = g.cases[0].line() + " (concurrent)"
	concurrently(false)
	if ch.net != nil {
		concurrently(true)
	}
}

func mwBucket(n int) string {
	switch {
	case n <= 3:
		return strconv.Itoa(n)
	case n <= 9:
		return "4-9"
	case n <= 27:
		return "10-27"
	}
	return "28+"
}

func mwClip(s string) string {
	if len(s) > 600 {
		return s[:600] + "…"
	}
	return s
}

// mwOracle: the C19 oracles on one real run.
func mwOracle(ctx *Ctx, cs *mwCase, line, answer string, rec *mwRec, final mwR, panicked string) {
	viol := func(oracle, key, detail string) {
		ctx.Res.Violate(report.Violation{Property: "C19", Oracle: oracle, Key: "mw:" + cs.kind + ":" + key, Detail: detail, Line: line})
	}
	if panicked != "" {
		viol("no-panic", "panic "+panicKey(panicked), "the chain panicked: "+panicked)
		return
	}
	for _, n := range rec.notes {
		viol("message-integrity", "inconsistent-message", n)
	}
	// 1. nested composition predicts result and trace
	wantR, wantEv, _ := mwReference(cs, 0)
	if want := mwRender(wantR, wantEv); want != answer {
		key := "trace-differs"
		if wantR != final {
			key = "result-differs"
		}
		viol("nested-composition", key, "nested composition gives "+mwClip(want)+" ; the library "+mwClip(answer))
	}
	// 2. the trace is one well-nested execution in registration order (no knowledge of the programs)
	if o, msg := mwCheckNested(cs, final, rec.events); o != "" {
		viol("well-nested:"+o, o, msg)
	}
	// 3. call counts of unconditional chains
	if p, ok := mwStraightProduct(cs); ok && p != rec.calls {
		viol("call-count", "handler-runs", fmt.Sprintf("the handler ran %d times, the per-stage multiplicities give %d", rec.calls, p))
	}
}

func quietMwLogs() { slog.SetDefault(slog.New(slog.NewTextHandler(io.Discard, nil))) }

func runMw(ctx *Ctx) {
	quietMwLogs()
	if len(ctx.Replay) > 0 {
		for _, l := range ctx.Replay {
			if !strings.HasPrefix(l, "mw.run ") {
				continue
			}
			cs, err := mwParseLine(l)
			if err != nil {
				ctx.Res.Fail("replay: " + err.Error() + ": " + l)
				continue
			}
			mwRunGroup(ctx, &mwGroup{kind: cs.kind, chainSrc: cs.chainSrc, cases: []*mwCase{cs}})
		}
		return
	}
	kinds := []string{"client", "srvmsg", "srvitem"}
	idx := 0
	// one group = one chain, one request per handler script, with varying initial tokens
	group := func(kind, chainSrc string, cores []string) {
		g := &mwGroup{kind: kind, chainSrc: chainSrc}
		for k, tmpl := range cores {
			m0, c0 := 1+(idx+k)%7, 1+(idx+2*k)%5
			c, err := mwNewCase(kind, chainSrc, strings.ReplaceAll(tmpl, "@", strconv.Itoa(m0)), m0, c0)
			if err != nil {
				ctx.Res.Fail("mw: " + err.Error())
				return
			}
			g.cases = append(g.cases, c)
		}
		idx++
		mwRunGroup(ctx, g)
	}
	// exhaustive part: every word of length maxLen over the alphabet
	var enum func(prefix []string, maxLen int, thorAlpha bool, cores []string)
	enum = func(prefix []string, maxLen int, thorAlpha bool, cores []string) {
		if len(prefix) == maxLen {
			src := "-"
			if len(prefix) > 0 {
				src = strings.Join(prefix, "/")
			}
			for _, kind := range kinds {
				group(kind, src, cores)
			}
			return
		}
		for _, p := range mwAlphabet(len(prefix)+1, thorAlpha) {
			enum(append(append([]string{}, prefix...), p), maxLen, thorAlpha, cores)
		}
	}
	for l := 0; l <= 3; l++ {
		enum(nil, l, ctx.Thor, mwCores(ctx.Thor))
	}
	if ctx.Thor {
		enum(nil, 4, false, mwCores(false))
	}
	// random longer chains of random programs
	r := ctx.R
	n := ctx.N(400, 6000)
	for i := 0; i < n; i++ {
		l := 4 + r.Intn(5)
		multi := 0
		var stages []string
		for k := 1; k <= l; k++ {
			allow := multi < 3 && r.Chance(1, 2)
			s := mwRandomStage(r, k, allow)
			if strings.Count(s, "c")+strings.Count(s, "f") > 1 {
				multi++
			}
			stages = append(stages, s)
		}
		src := strings.Join(stages, "/")
		// keep the trace size reasonable
		probe, err := mwNewCase("client", src, "-:e4:-", 1, 1)
		if err != nil {
			ctx.Res.Fail("mw: generator produced " + src + ": " + err.Error())
			continue
		}
		if _, _, over := mwReference(probe, 3000); over {
			ctx.Res.Count("mw.random-skipped-too-long")
			continue
		}
		kind := kinds[i%3]
		nOuts := r.Intn(4)
		var outs []string
		for k := 0; k < nOuts; k++ {
			outs = append(outs, rng.Pick(r, []string{"e1", "e2", "o5", "o6", "e3"}))
		}
		script := "-"
		if len(outs) > 0 {
			script = strings.Join(outs, ",")
		}
		group(kind, src, []string{script + ":" + rng.Pick(r, []string{"o5", "e4"}) + ":-", "-:o5:@", "e1,e2:o5:-"})
		ctx.Res.Count("mw.random-chains")
	}
}
