package main

// In-memory fault-injecting transport, scripted echo server and yield-point director for the
// `lts.cli` engine (cli.go). Everything here is harness code; the code under test is kmipclient.

import (
	"context"
	"errors"
	"fmt"
	"io"
	"net"
	"runtime"
	"strings"
	"sync"
	"sync/atomic"
	"syscall"
	"time"

	"github.com/ovh/kmip-go"
	"github.com/ovh/kmip-go/payloads"
	"github.com/ovh/kmip-go/ttlv"
)

// ---------------------------------------------------------------------------------------------
// faults

// lcFault fails one I/O operation: the k-th Read ('r') or Write ('w') of the conn-th connection, or the
// k-th dial attempt ('d'). rep > 0: the same fault also applies to the next rep connections / dials.
type lcFault struct {
	dir    byte   // 'd' | 'r' | 'w'
	conn   int    // connection index (for 'd': dial attempt index)
	k      int    // operation index on that connection
	kind   string // eof | closed | reset | partial (read) ; closed | reset | short | eof (write) ; car (write: server closes after replying)
	timing string // read faults: "call" (fail when the Read is invoked) | "data" (fail when the data arrives)
	rep    int
	fired  []int // phases in which it fired
}

func (f *lcFault) String() string {
	s := fmt.Sprintf("%c%d.%d:%s", f.dir, f.conn, f.k, f.kind)
	if f.dir == 'r' {
		s += ":" + f.timing
	}
	if f.rep > 0 {
		s += fmt.Sprintf("*%d", f.rep)
	}
	return s
}

// letter of the fault in the model's scenario language.
func (f *lcFault) letter() byte {
	switch f.dir {
	case 'd':
		return 'd'
	case 'r':
		if f.kind == "reset" {
			return 'r'
		}
		return 'e' // io.EOF, closed pipe, partial message followed by EOF: all retryable for doRountrip
	default:
		switch f.kind {
		case "closed", "eof":
			return 'w'
		case "car":
			return 'e' // the client sees EOF on a later read
		}
		return 'f'
	}
}

var errLcReset = &net.OpError{Op: "read", Net: "pipe", Err: syscall.ECONNRESET}

func lcErrFor(kind string, write bool) error {
	switch kind {
	case "eof", "partial":
		return io.EOF
	case "closed":
		return &net.OpError{Op: "io", Net: "pipe", Err: net.ErrClosed}
	case "reset":
		if write {
			return &net.OpError{Op: "write", Net: "pipe", Err: syscall.ECONNRESET}
		}
		return errLcReset
	case "short":
		return io.ErrShortWrite
	}
	return errors.New("injected failure")
}

// ---------------------------------------------------------------------------------------------
// transport

type lcNet struct {
	mu     sync.Mutex
	dials  int // dial attempts
	conns  []*lcConn
	faults []*lcFault
	phase  atomic.Int32
	srv    *lcServer
	writes atomic.Int64 // completed or attempted client writes (one per transmitted request)
}

func (n *lcNet) match(dir byte, conn, k int) *lcFault {
	n.mu.Lock()
	defer n.mu.Unlock()
	for _, f := range n.faults {
		if f.dir == dir && f.k == k && conn >= f.conn && conn <= f.conn+f.rep {
			return f
		}
	}
	return nil
}

func (n *lcNet) fire(f *lcFault) {
	n.mu.Lock()
	f.fired = append(f.fired, int(n.phase.Load()))
	n.mu.Unlock()
}

func (n *lcNet) dial(ctx context.Context) (net.Conn, error) {
	n.mu.Lock()
	idx := n.dials
	n.dials++
	n.mu.Unlock()
	for _, f := range n.faults {
		if f.dir == 'd' && idx >= f.conn && idx <= f.conn+f.rep {
			n.fire(f)
			return nil, &net.OpError{Op: "dial", Net: "pipe", Err: syscall.ECONNREFUSED}
		}
	}
	c1, c2 := net.Pipe()
	n.mu.Lock()
	c := &lcConn{Conn: c1, peer: c2, net: n, idx: len(n.conns), dialIdx: idx}
	n.conns = append(n.conns, c)
	n.mu.Unlock()
	n.srv.wg.Add(1)
	go n.srv.serve(c, c2)
	return c, nil
}

func (n *lcNet) dialCount() int {
	n.mu.Lock()
	defer n.mu.Unlock()
	return n.dials
}

func (n *lcNet) connCount() int {
	n.mu.Lock()
	defer n.mu.Unlock()
	return len(n.conns)
}

// opCounts returns per connection the number of Reads and Writes invoked so far.
func (n *lcNet) opCounts() (reads, writes []int) {
	n.mu.Lock()
	defer n.mu.Unlock()
	for _, c := range n.conns {
		reads = append(reads, int(c.reads.Load()))
		writes = append(writes, int(c.wr.Load()))
	}
	return
}

// shutdown closes every server-side end (which ends any client goroutine still reading).
func (n *lcNet) shutdown() {
	n.mu.Lock()
	conns := append([]*lcConn(nil), n.conns...)
	n.mu.Unlock()
	for _, c := range conns {
		_ = c.peer.Close()
	}
	n.srv.openAll()
	done := make(chan struct{})
	go func() { n.srv.wg.Wait(); close(done) }()
	select {
	case <-done:
	case <-time.After(3 * time.Second):
	}
}

type lcConn struct {
	net.Conn
	peer    net.Conn
	net     *lcNet
	idx     int
	dialIdx int
	reads   atomic.Int32
	wr      atomic.Int32
	dead    atomic.Pointer[error]
	eofNext atomic.Bool
	car     atomic.Bool // the server must close after its next reply
}

func (c *lcConn) kill(err error) error {
	c.dead.CompareAndSwap(nil, &err)
	_ = c.peer.Close()
	return *c.dead.Load()
}

func (c *lcConn) Read(p []byte) (int, error) {
	k := int(c.reads.Add(1)) - 1
	if e := c.dead.Load(); e != nil {
		return 0, *e
	}
	if c.eofNext.Load() {
		return 0, c.kill(io.EOF)
	}
	f := c.net.match('r', c.idx, k)
	if f != nil && f.timing == "call" {
		c.net.fire(f)
		return 0, c.kill(lcErrFor(f.kind, false))
	}
	n, err := c.Conn.Read(p)
	if e := c.dead.Load(); e != nil {
		return 0, *e
	}
	if f == nil {
		// a fault armed while this Read was blocked applies when its data arrives
		if f = c.net.match('r', c.idx, k); f != nil && f.timing != "data" {
			f = nil
		}
	}
	if f != nil && err == nil {
		c.net.fire(f)
		if f.kind == "partial" && n > 1 {
			// half of what arrived, the rest of the stream is lost
			c.eofNext.Store(true)
			return n / 2, nil
		}
		return 0, c.kill(lcErrFor(f.kind, false))
	}
	return n, err
}

func (c *lcConn) Write(p []byte) (int, error) {
	k := int(c.wr.Add(1)) - 1
	c.net.writes.Add(1)
	if e := c.dead.Load(); e != nil {
		return 0, *e
	}
	f := c.net.match('w', c.idx, k)
	if f != nil {
		c.net.fire(f)
		switch f.kind {
		case "car":
			c.car.Store(true)
		case "short":
			n, _ := c.Conn.Write(p[:len(p)/2])
			c.kill(io.ErrShortWrite)
			return n, io.ErrShortWrite
		default:
			return 0, c.kill(lcErrFor(f.kind, true))
		}
	}
	return c.Conn.Write(p)
}

// ---------------------------------------------------------------------------------------------
// scripted echo server

type lcSeen struct {
	conn int
	id   string
}

// lcServer answers Activate(id) with the same id; DiscoverVersions with 1.4..1.0.
type lcServer struct {
	mu     sync.Mutex
	wg     sync.WaitGroup
	seen   []lcSeen
	gates  map[string]chan struct{} // id -> the reply waits until the channel is closed
	silent map[string]bool          // id -> never reply
	onRecv func(id string, conn int) // called (outside the lock) when a request has been read
	allOpen bool
}

func newLcServer() *lcServer {
	return &lcServer{gates: map[string]chan struct{}{}, silent: map[string]bool{}}
}

func (s *lcServer) gate(id string) {
	s.mu.Lock()
	s.gates[id] = make(chan struct{})
	s.mu.Unlock()
}

func (s *lcServer) open(id string) {
	s.mu.Lock()
	if g, ok := s.gates[id]; ok {
		close(g)
		delete(s.gates, id)
	}
	s.mu.Unlock()
}

func (s *lcServer) openAll() {
	s.mu.Lock()
	s.allOpen = true
	for id, g := range s.gates {
		close(g)
		delete(s.gates, id)
	}
	s.mu.Unlock()
}

func (s *lcServer) seenOn(conn int) []string {
	s.mu.Lock()
	defer s.mu.Unlock()
	var out []string
	for _, e := range s.seen {
		if e.conn == conn {
			out = append(out, e.id)
		}
	}
	return out
}

func (s *lcServer) seenCount(id string) int {
	s.mu.Lock()
	defer s.mu.Unlock()
	n := 0
	for _, e := range s.seen {
		if e.id == id {
			n++
		}
	}
	return n
}

func (s *lcServer) connOf(id string) int {
	s.mu.Lock()
	defer s.mu.Unlock()
	c := -1
	for _, e := range s.seen {
		if e.id == id {
			c = e.conn
		}
	}
	return c
}

func (s *lcServer) serve(lc *lcConn, c net.Conn) {
	defer s.wg.Done()
	defer c.Close()
	st := ttlv.NewStream(c, -1)
	for {
		req := new(kmip.RequestMessage)
		if err := st.Recv(req); err != nil {
			return
		}
		resp := &kmip.ResponseMessage{Header: kmip.ResponseHeader{ProtocolVersion: req.Header.ProtocolVersion, TimeStamp: time.Unix(1700000000, 0), BatchCount: int32(len(req.BatchItem))}}
		id := ""
		for _, bi := range req.BatchItem {
			item := kmip.ResponseBatchItem{Operation: bi.Operation, UniqueBatchItemID: bi.UniqueBatchItemID, ResultStatus: kmip.ResultStatusSuccess}
			switch pl := bi.RequestPayload.(type) {
			case *payloads.ActivateRequestPayload:
				id = pl.UniqueIdentifier
				item.ResponsePayload = &payloads.ActivateResponsePayload{UniqueIdentifier: pl.UniqueIdentifier}
			case *payloads.DiscoverVersionsRequestPayload:
				id = "discover"
				item.ResponsePayload = &payloads.DiscoverVersionsResponsePayload{ProtocolVersion: []kmip.ProtocolVersion{kmip.V1_4, kmip.V1_3, kmip.V1_2, kmip.V1_1, kmip.V1_0}}
			default:
				item.ResultStatus = kmip.ResultStatusOperationFailed
				item.ResultReason = kmip.ResultReasonOperationNotSupported
			}
			resp.BatchItem = append(resp.BatchItem, item)
		}
		s.mu.Lock()
		s.seen = append(s.seen, lcSeen{lc.idx, id})
		g := s.gates[id]
		silent := s.silent[id]
		cb := s.onRecv
		s.mu.Unlock()
		if cb != nil {
			cb(id, lc.idx)
		}
		if silent {
			continue
		}
		if g != nil {
			<-g
		}
		if err := st.Send(resp); err != nil {
			return
		}
		if lc.car.Load() {
			return
		}
	}
}

// ---------------------------------------------------------------------------------------------
// director: actions at the verif yield points

type lcRule struct {
	point string
	hit   int // 0-based occurrence of the point at which the action runs
	fn    func()
}

type lcDirector struct {
	mu    sync.Mutex
	hits  map[string]int
	rules []*lcRule
	log   []string
}

var lcCur atomic.Pointer[lcDirector]

func lcYield(point string, obj any) {
	d := lcCur.Load()
	if d == nil {
		return
	}
	d.mu.Lock()
	n := d.hits[point]
	d.hits[point] = n + 1
	if len(d.log) < 200 {
		d.log = append(d.log, point)
	}
	var fn func()
	for _, r := range d.rules {
		if r.point == point && r.hit == n {
			fn = r.fn
		}
	}
	d.mu.Unlock()
	if fn != nil {
		fn()
	}
}

func newLcDirector() *lcDirector { return &lcDirector{hits: map[string]int{}} }

func (d *lcDirector) on(point string, hit int, fn func()) {
	d.mu.Lock()
	d.rules = append(d.rules, &lcRule{point, hit, fn})
	d.mu.Unlock()
}

func (d *lcDirector) hitCount(point string) int {
	d.mu.Lock()
	defer d.mu.Unlock()
	return d.hits[point]
}

// ---------------------------------------------------------------------------------------------
// goroutines of the client

// lcClientGoroutines counts the goroutines that have a kmipclient frame on their stack.
func lcClientGoroutines() int {
	buf := make([]byte, 1<<20)
	for {
		n := runtime.Stack(buf, true)
		if n < len(buf) {
			buf = buf[:n]
			break
		}
		buf = make([]byte, 2*len(buf))
	}
	cnt := 0
	for _, g := range strings.Split(string(buf), "\n\n") {
		if strings.Contains(g, "kmipclient.(*conn).readloop") || strings.Contains(g, "kmipclient.(*conn).writeloop") {
			cnt++
		}
	}
	return cnt
}

// lcSettle waits until the number of client goroutines is at most base (or the timeout expires).
func lcSettle(base int, timeout time.Duration) int {
	deadline := time.Now().Add(timeout)
	n := lcClientGoroutines()
	for n > base && time.Now().Before(deadline) {
		time.Sleep(200 * time.Microsecond)
		n = lcClientGoroutines()
	}
	return n
}
