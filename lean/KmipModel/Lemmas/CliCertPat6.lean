/-
  Certificate obligations, parts 48..55 of 64 of the `patched` client system (kernel evaluation; 8 modules
  so that lake checks them in parallel; small parts keep the kernel's memory small).
  Assembled in `Lemmas/CliCert.lean`.
-/
import KmipModel.Model.CliConn
import KmipModel.Gen.CertCliConn
namespace Kmip.CliCert
open Kmip.CliLts Kmip.CliConn Kmip.Gen.CertCliConn

theorem paClosed48 : partClosed (sys patched) codec certPatched paP48 = true := by decide +kernel
theorem paSafe48 : partSafe codec (badFull patched) paP48 = true := by decide +kernel
theorem paClosed49 : partClosed (sys patched) codec certPatched paP49 = true := by decide +kernel
theorem paSafe49 : partSafe codec (badFull patched) paP49 = true := by decide +kernel
theorem paClosed50 : partClosed (sys patched) codec certPatched paP50 = true := by decide +kernel
theorem paSafe50 : partSafe codec (badFull patched) paP50 = true := by decide +kernel
theorem paClosed51 : partClosed (sys patched) codec certPatched paP51 = true := by decide +kernel
theorem paSafe51 : partSafe codec (badFull patched) paP51 = true := by decide +kernel
theorem paClosed52 : partClosed (sys patched) codec certPatched paP52 = true := by decide +kernel
theorem paSafe52 : partSafe codec (badFull patched) paP52 = true := by decide +kernel
theorem paClosed53 : partClosed (sys patched) codec certPatched paP53 = true := by decide +kernel
theorem paSafe53 : partSafe codec (badFull patched) paP53 = true := by decide +kernel
theorem paClosed54 : partClosed (sys patched) codec certPatched paP54 = true := by decide +kernel
theorem paSafe54 : partSafe codec (badFull patched) paP54 = true := by decide +kernel
theorem paClosed55 : partClosed (sys patched) codec certPatched paP55 = true := by decide +kernel
theorem paSafe55 : partSafe codec (badFull patched) paP55 = true := by decide +kernel

end Kmip.CliCert
