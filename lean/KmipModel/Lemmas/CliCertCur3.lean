/-
  Certificate obligations, parts 6..7 of 16 of the `current` client system (kernel evaluation; 8 modules
  so that lake checks them in parallel). Assembled in `Lemmas/CliCert.lean`.
-/
import KmipModel.Model.CliConn
import KmipModel.Gen.CertCliConn
namespace Kmip.CliCert
open Kmip.CliLts Kmip.CliConn Kmip.Gen.CertCliConn

theorem cuClosed6 : partClosed (sys current) codec certCurrent cuP6 = true := by decide +kernel
theorem cuSafe6 : partSafe codec (bad current) cuP6 = true := by decide +kernel
theorem cuClosed7 : partClosed (sys current) codec certCurrent cuP7 = true := by decide +kernel
theorem cuSafe7 : partSafe codec (bad current) cuP7 = true := by decide +kernel

end Kmip.CliCert
