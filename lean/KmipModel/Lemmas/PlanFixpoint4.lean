/-
  C18 (typed layer) — stage 3: the struct clause of `decK` (reflective part), `decDyn`, and the assembly
  of `FK (fd + 1)`.
-/
import KmipModel.Lemmas.PlanFixpoint3
namespace Kmip

/-! ## Reflectively decoded structs -/

theorem refl_of_decodable {S : Schema} (hU : S.unambiguous = true) {id : Nat}
    (hdec : S.decodable (.struct id) = true) (hdc : (S.structDef id).decCustom = false) :
    (S.structDef id).encCustom = false ∧ ∀ f ∈ (S.structDef id).fields, S.fieldOK f = true := by
  have hso := unamb_structOK hU id
  simp only [Schema.decodable, Kind.base, Bool.not_eq_true'] at hdec
  have henc : (S.structDef id).encCustom = false := by
    cases he : (S.structDef id).encCustom with
    | false => rfl
    | true => simp [Schema.ctxOnly, StructDef.encOnly, he, hdc] at hdec
  refine ⟨henc, ?_⟩
  simp only [Schema.structOK, hdc, henc, hdec, Bool.false_eq_true, if_false, Schema.reflOK,
    Bool.and_eq_true, List.all_eq_true] at hso
  exact hso.1

theorem fk_struct_refl (S : Schema) (N : Nat) (hU : S.unambiguous = true) (hX : FixOK S N) (fd : Nat)
    (hF : FFields S N fd) (id tag : Nat) (c : Cur) (ver : Option Ver) (v : Val) (c' : Cur)
    (ver' : Option Ver) (hdec : S.decodable (.struct id) = true)
    (hdc : (S.structDef id).decCustom = false)
    (h : decK S (fd + 2) (.struct id) tag c ver = .ok (v, c', ver')) (hfd : v.edepth ≤ fd + 2)
    (hg : goodU S (.struct id) v = true) (n : Nat) (hn : v.edepth ≤ n) :
    ∃ w w' items, normK S n (.struct id) tag w ver = some (w', ver')
      ∧ encK S n (.struct id) tag v ver = .ok (items, ver') ∧ encK S n (.struct id) tag w ver = .ok (items, ver')
      ∧ Rel S (.struct id) v w w' := by
  obtain ⟨henc, hfo⟩ := refl_of_decodable hU hdec hdc
  rw [decK_struct] at h
  simp only [hdc, Bool.false_eq_true, if_false] at h
  rw [decStruct_succ] at h
  obtain ⟨it, _, h⟩ := Res.bind_eq_ok h
  obtain ⟨inner, _, h⟩ := Res.bind_eq_ok h
  obtain ⟨⟨vs, c1, ver1⟩, h3, h⟩ := Res.bind_eq_ok h
  obtain ⟨c2, _, h⟩ := Res.bind_eq_ok h
  simp only [Res.pure_eq, Res.ok.injEq, Prod.mk.injEq] at h
  obtain ⟨rfl, rfl, rfl⟩ := h
  obtain ⟨m, rfl⟩ : ∃ m, n = m + 1 := ⟨n - 1, by have := Val.edepth_pos (.struct vs); omega⟩
  rw [Val.edepth] at hn hfd
  have hgl : goodL S ((S.structDef id).fields.map (·.kind)) vs = true := by
    simpa [goodU, henc] using hg
  obtain ⟨ws, ws', b, hb1, hb2, hb3⟩ :=
    hF _ inner ver vs c1 ver1 (fun f hf => ⟨hfo f hf, hX.fields id f hf⟩) h3 (by omega) hgl m (by omega)
  refine ⟨.struct ws, .struct ws', [.struct tag b], ?_, ?_, ?_, ⟨fun hz => ?_, rfl, ?_⟩⟩
  · rw [normK_struct]
    simp only [henc, hdc, Bool.false_eq_true, if_false, hb1, Bool.not_false, Bool.true_or, if_true]
  · rw [encK_struct]; simp only [henc, Bool.false_eq_true, if_false, hb2, Res.ok_bind, Res.pure_eq]
  · rw [encK_struct]; simp only [henc, Bool.false_eq_true, if_false, hb3, Res.ok_bind, Res.pure_eq]
  · simp [Kind.zeroFaithful] at hz
  · unfold obsRel
    intro ha
    rw [ha.1] at hdc; contradiction

/-! ## `decDyn` -/

theorem decDyn_ptr (S : Schema) (fd d tag : Nat) (c : Cur) (ver : Option Ver) (k' : Kind)
    (hk : (S.dyn d).kind = .ptr k') :
    decDyn S (fd + 1) d tag c ver = (do
      let (x, st) ← decK S fd k' (if tag = 0 then (S.dyn d).defTag else tag) c ver
      pure (.iface (some (d, .ptr (some x))), st)) := by
  rw [decDyn]; simp only [hk]

theorem decDyn_nonptr (S : Schema) (fd d tag : Nat) (c : Cur) (ver : Option Ver)
    (hk : ∀ k', (S.dyn d).kind ≠ .ptr k') :
    decDyn S (fd + 1) d tag c ver = (do
      let (x, st) ← decK S fd (S.dyn d).kind (if tag = 0 then (S.dyn d).defTag else tag) c ver
      pure (.iface (some (d, x)), st)) := by
  rw [decDyn]
  cases hkk : (S.dyn d).kind <;> first | (exact absurd hkk (hk _)) | rfl

theorem dynOK_of_decDyn {S : Schema} (hU : S.unambiguous = true) {fd d tag : Nat} {c : Cur}
    {ver : Option Ver} {r : Val × DecSt} (h : decDyn S fd d tag c ver = .ok r) :
    S.dynOK (S.dyn d) = true := by
  simp only [Schema.unambiguous, Bool.and_eq_true, List.all_eq_true] at hU
  rcases getD_mem_or_default S.dyns d { defTag := 0, kind := .unsupported } with hm | hm
  · exact hU.1.1.2 _ hm
  · exfalso
    cases fd with
    | zero => rw [decDyn] at h; cases h
    | succ fd =>
      have hk : (S.dyn d).kind = .unsupported := by unfold Schema.dyn; rw [hm]
      rw [decDyn_nonptr S fd d tag c ver (by rw [hk]; intro k' hh; cases hh), hk] at h
      obtain ⟨⟨x, st⟩, h1, _⟩ := Res.bind_eq_ok h
      cases fd with
      | zero => rw [decK_zero] at h1; cases h1
      | succ fd => simp only [decK] at h1; cases h1

theorem fdyn_zero (S : Schema) : FDyn S 0 := by
  intro d tag c ver v c' ver' _ h
  rw [decDyn] at h; cases h

/-- `decDyn` under any dynamic type whose kind is fine under the resolved tag (also used for the top
    level: `unmarshalWith` is `decDyn` without the interface wrapper). -/
theorem fdyn_core (S : Schema) (N : Nat) (hU : S.unambiguous = true) (hX : FixOK S N) (fd : Nat)
    (hK : FK S fd) (d tag : Nat) (c : Cur) (ver : Option Ver) (v : Val) (c' : Cur) (ver' : Option Ver)
    (htg0 : S.kindTagOK (S.dyn d).kind (if tag = 0 then (S.dyn d).defTag else tag) = true)
    (h : decDyn S (fd + 1) d tag c ver = .ok (v, c', ver')) (hfd : v.edepth ≤ fd + 1)
    (hg : goodU S .iface v = true) :
    ∃ x, v = .iface (some (d, x)) ∧ dynValOk (S.dyn d).kind x = true ∧
      ∀ n, x.edepth ≤ n → ∃ wx wx' items,
        normK S n (S.dyn d).kind (if tag = 0 then (S.dyn d).defTag else tag) wx ver = some (wx', ver')
        ∧ encK S n (S.dyn d).kind (if tag = 0 then (S.dyn d).defTag else tag) x ver = .ok (items, ver')
        ∧ encK S n (S.dyn d).kind (if tag = 0 then (S.dyn d).defTag else tag) wx ver = .ok (items, ver')
        ∧ dynValOk (S.dyn d).kind wx = true ∧ intView x = intView wx' := by
  have hdyn := dynOK_of_decDyn hU h
  simp only [Schema.dynOK, Bool.and_eq_true] at hdyn
  obtain ⟨hshape, hdecd⟩ := hdyn
  have hnn := hX.dyn d
  generalize htt : (if tag = 0 then (S.dyn d).defTag else tag) = tag' at *
  by_cases hp : ∃ k', (S.dyn d).kind = .ptr k'
  · obtain ⟨k', hk⟩ := hp
    rw [decDyn_ptr S fd d tag c ver k' hk, htt] at h
    obtain ⟨⟨x, c1, ver1⟩, h1, h2⟩ := Res.bind_eq_ok h
    simp only [Res.pure_eq, Res.ok.injEq, Prod.mk.injEq] at h2
    obtain ⟨rfl, rfl, rfl⟩ := h2
    rw [hk] at hshape hdecd hnn htg0 ⊢
    simp only at hshape
    refine ⟨.ptr (some x), rfl, rfl, fun n hn => ?_⟩
    obtain ⟨m, rfl⟩ : ∃ m, n = m + 1 := ⟨n - 1, by have := Val.edepth_pos (.ptr (some x)); omega⟩
    simp only [Val.edepth] at hn hfd
    have hgx : goodU S k' x = true := by simpa [goodU, hk] using hg
    have htg : S.kindTagOK k' tag' = true := by
      unfold Schema.kindTagOK at htg0 ⊢
      rw [definite_base hshape]; exact htg0
    obtain ⟨wx, wx', items, hnm, he, hew, hrel⟩ :=
      hK k' tag' c ver x c1 ver1 (decodable_of_ptr hshape hdecd) (definite_shapeOK hshape)
        (by simpa [Kind.noNarrow] using hnn) htg h1 (by omega) hgx m (by omega)
    refine ⟨.ptr (some wx), .ptr (some wx'), items, ?_, ?_, ?_, rfl, rfl⟩
    · rw [normK_ptr]; simp only [hshape, if_true, hnm]
    · rw [encK_ptr_some]; exact he
    · rw [encK_ptr_some]; exact hew
  · have hnp : ∀ k', (S.dyn d).kind ≠ .ptr k' := fun k' hk => hp ⟨k', hk⟩
    rw [decDyn_nonptr S fd d tag c ver hnp, htt] at h
    obtain ⟨⟨x, c1, ver1⟩, h1, h2⟩ := Res.bind_eq_ok h
    simp only [Res.pure_eq, Res.ok.injEq, Prod.mk.injEq] at h2
    obtain ⟨rfl, rfl, rfl⟩ := h2
    have hdef : (S.dyn d).kind.definite = true := by
      cases hkk : (S.dyn d).kind <;> first | (exact absurd hkk (hnp _)) | (rw [hkk] at hshape; exact hshape)
    have hdv : ∀ y, dynValOk (S.dyn d).kind y = true := by
      intro y
      cases hkk : (S.dyn d).kind <;>
        first | (exact absurd hkk (hnp _)) | (rw [hkk] at hdef; simpa [dynValOk] using hdef)
    refine ⟨x, rfl, hdv x, fun n hn => ?_⟩
    simp only [Val.edepth] at hfd
    have hgx : goodU S (S.dyn d).kind x = true := by simpa [goodU] using hg
    obtain ⟨wx, wx', items, hnm, he, hew, hrel⟩ :=
      hK (S.dyn d).kind tag' c ver x c1 ver1 hdecd (definite_shapeOK hdef) hnn
        htg0 h1 (by omega) hgx n hn
    exact ⟨wx, wx', items, hnm, he, hew, hdv wx, hrel.int⟩

theorem fdyn_succ (S : Schema) (N : Nat) (hU : S.unambiguous = true) (hX : FixOK S N) (fd : Nat)
    (hK : FK S fd) : FDyn S (fd + 1) := by
  intro d tag c ver v c' ver' hmem h hfd hg
  exact fdyn_core S N hU hX fd hK d tag c ver v c' ver' (kindTagOK_of_zero (hX.ctxTag d hmem) _) h hfd hg

/-! ## Assembly of `FK (fd + 1)` -/

theorem encK_struct_val {S : Schema} {n id tag : Nat} {v : Val} {ver : Option Ver} {r : EncSt}
    (h : encK S n (.struct id) tag v ver = .ok r) : ∃ fs, v = .struct fs := by
  cases n with
  | zero => rw [encK] at h; cases h
  | succ n =>
    cases v <;> first | exact ⟨_, rfl⟩ | (rw [encK.eq_def] at h; simp at h)

theorem fk_zero (S : Schema) : FK S 0 := by
  intro k tag c ver v c' ver' _ _ _ _ h
  rw [decK_zero] at h; contradiction

theorem fk_succ (S : Schema) (N : Nat) (hU : S.unambiguous = true) (hX : FixOK S N) (fd : Nat)
    (hK : FK S fd) (hL : FList S fd) (hF : ∀ m, m < fd → FFields S N m) (hC : FCust S fd) :
    FK S (fd + 1) := by
  intro k tag c ver v c' ver' hdec hsh hnn htg h hfd hg n hn
  cases k with
  | ptr k' =>
    have hdef : k'.definite = true := by simpa [Kind.shapeOK] using hsh
    have htg' : S.kindTagOK k' tag = true := by
      unfold Schema.kindTagOK at htg ⊢
      rw [definite_base hdef]; exact htg
    exact fk_ptr S fd hK k' hdef (decodable_of_ptr hdef hdec) (by simpa [Kind.noNarrow] using hnn)
      tag htg' c ver v c' ver' h hfd hg n hn
  | slice k' =>
    have hdef : k'.definite = true := by simpa [Kind.shapeOK] using hsh
    have htg' : S.kindTagOK k' tag = true := by
      unfold Schema.kindTagOK at htg ⊢
      rw [definite_base hdef]; exact htg
    exact fk_slice S fd hL k' hdef (decodable_of_slice hdef hdec) (by simpa [Kind.noNarrow] using hnn)
      tag htg' c ver v c' ver' h hfd hg n hn
  | any => exact fk_any S _ tag c ver v c' ver' h n hn
  | anyStruct => exact fk_anyStruct S _ tag c ver v c' ver' h n hn
  | struct id =>
    by_cases hdc : (S.structDef id).decCustom = true
    · rw [decK_struct] at h
      simp only [hdc, if_true] at h
      have hshape : S.customShapeOK (S.structDef id) = true := by
        have := unamb_structOK hU id
        simpa [Schema.structOK, hdc] using this
      obtain ⟨w, w', items, h1, h2, h3, h4, h5⟩ :=
        hC id tag c ver v c' ver' hdc hshape (hX.imp id) htg h hfd hg n hn
      refine ⟨w, w', items, h1, h2, h3, ⟨fun hz => by simp [Kind.zeroFaithful] at hz, ?_, h5⟩⟩
      -- the decoded value is a struct as well (the encoder accepted it under a struct kind)
      obtain ⟨fs, rfl⟩ := encK_struct_val h2
      rw [h4]; rfl
    · have hdc' : (S.structDef id).decCustom = false := by simpa using hdc
      cases fd with
      | zero =>
        rw [decK_struct] at h
        simp only [hdc', Bool.false_eq_true, if_false, decStruct_zero] at h
        contradiction
      | succ fd' =>
        exact fk_struct_refl S N hU hX fd' (hF fd' (Nat.lt_succ_self _)) id tag c ver v c' ver' hdec hdc'
          h hfd hg n hn
  | iface => simp [Kind.shapeOK] at hsh
  | _ =>
    first
      | exact fk_of_scalar S _ _ rfl hnn tag c ver v c' ver' h n hn
      | simp [Kind.shapeOK, Kind.definite, Kind.scalar] at hsh
      | simp [Kind.noNarrow] at hnn

end Kmip
