package main

import (
	"bytes"
	"fmt"
	"reflect"

	kmip "github.com/ovh/kmip-go"
	"github.com/ovh/kmip-go/payloads"
	"github.com/ovh/kmip-go/ttlv"

	"verifharness/internal/tree"
)

// C06, opaque content at every nesting depth and at every generic position of the typed envelope.
//
// "Operations and attributes unknown to the library are preserved as opaque TTLV that re-encodes byte-identically":
// what is preserved must not depend on WHERE in a message the opaque value stands nor on how deep the opaque
// content itself nests. The generic positions of the typed envelope are: the payload of an unregistered operation
// (UnknownPayload.Fields), MessageExtension.VendorExtension of a batch item, the value of a custom / unknown
// attribute wherever an attribute may stand (the deepest one being an attribute of a Key Value inside the object of
// a Register / Import request or a Get / Export response: seven typed structures above it), and Query's Server
// Information. A message is built with a MARKER (a text value) at such a position, written by the library, read back
// by the independent tree reader, and the marker is replaced IN THE TREE by generic structures nested 1..64 deep
// (binary by the independent writer, XML / JSON by the generic value writer). Oracle: the message with the plain
// marker decodes => the message with the nested structures decodes too (three encodings), passes the
// registered-type walk, and re-encodes to exactly the bytes of the tree.

const graftMarker = "verif-graft-marker"

// nestedChain: generic structures nested d deep (d >= 1) under `tag`, with a leaf and some siblings on the way.
func nestedChain(tag, d int) *tree.Item {
	it := &tree.Item{Tag: 0x540002, Kind: tree.KText, Data: []byte("leaf")}
	for i := d; i >= 1; i-- {
		kids := []*tree.Item{it}
		switch i % 4 {
		case 1:
			kids = []*tree.Item{{Tag: 0x540003, Kind: tree.KInt, Int: int64(i)}, it}
		case 3:
			kids = []*tree.Item{it, {Tag: 0x540004, Kind: tree.KBytes, Data: []byte{byte(i)}}}
		}
		t := 0x540001
		if i == 1 {
			t = tag
		}
		it = &tree.Item{Tag: t, Kind: tree.KStruct, Children: kids}
	}
	return it
}

// graftTree copies t, replacing every marker item by generic structures nested d deep under the marker's tag.
func graftTree(t *tree.Item, d int, n *int) *tree.Item {
	if t.Kind == tree.KText && string(t.Data) == graftMarker {
		*n++
		return nestedChain(t.Tag, d)
	}
	c := *t
	if t.Kind == tree.KStruct {
		c.Children = make([]*tree.Item, len(t.Children))
		for i, k := range t.Children {
			c.Children[i] = graftTree(k, d, n)
		}
	}
	return &c
}

// markerEnvelope: the number of structures enclosing the (first) marker.
func markerEnvelope(t *tree.Item, depth int) int {
	if t.Kind == tree.KText && string(t.Data) == graftMarker {
		return depth
	}
	for _, k := range t.Children {
		if d := markerEnvelope(k, depth+1); d >= 0 {
			return d
		}
	}
	return -1
}

func markValue(tag int) ttlv.Value { return ttlv.Value{Tag: tag, Value: graftMarker} }

func markAttr(name string) kmip.Attribute {
	return kmip.Attribute{AttributeName: kmip.AttributeName(name), AttributeValue: markValue(kmip.TagAttributeValue)}
}

// plantMarkers puts a marker at every generic position reachable from v: a marker value appended to every
// ttlv.Struct, a custom attribute holding a marker appended to every []Attribute, the value of every custom /
// unknown attribute and every generic ttlv.Value replaced by a marker. Returns the position classes planted.
func plantMarkers(v reflect.Value, path string, out *[]string, depth int) {
	if depth > 40 {
		return
	}
	switch v.Kind() {
	case reflect.Pointer, reflect.Interface:
		if !v.IsNil() {
			plantMarkers(v.Elem(), path+"("+v.Elem().Type().String()+")", out, depth+1)
		}
	case reflect.Slice:
		switch {
		case v.Type() == tTStruct:
			if v.CanSet() {
				v.Set(reflect.Append(v, reflect.ValueOf(markValue(0x540001))))
				*out = append(*out, path+"[generic structure]")
			}
		case v.Type().Elem() == tAttr:
			for i := 0; i < v.Len(); i++ {
				plantMarkers(v.Index(i), path, out, depth+1)
			}
			if v.CanSet() {
				v.Set(reflect.Append(v, reflect.ValueOf(markAttr("x-verif-depth"))))
				*out = append(*out, path+"[appended custom attribute]")
			}
		case v.Type().Elem().Kind() != reflect.Uint8:
			for i := 0; i < v.Len(); i++ {
				plantMarkers(v.Index(i), path, out, depth+1)
			}
		}
	case reflect.Struct:
		switch v.Type() {
		case tTime, tBigInt:
			return
		case tValue:
			if v.CanSet() {
				if val := v.Interface().(ttlv.Value); val.Tag != 0 {
					v.Set(reflect.ValueOf(markValue(val.Tag)))
					*out = append(*out, path+"[generic value]")
				}
			}
			return
		case tAttr:
			if v.CanSet() {
				a := v.Addr().Interface().(*kmip.Attribute)
				if _, std := registeredAttrType(a.AttributeName); !std {
					a.AttributeValue = markValue(kmip.TagAttributeValue)
					*out = append(*out, path+"[custom attribute]")
				}
			}
			return
		}
		for i := 0; i < v.NumField(); i++ {
			if f := v.Type().Field(i); f.IsExported() {
				plantMarkers(v.Field(i), path+"."+f.Name, out, depth+1)
			}
		}
	}
}

// depthBaseline: does the message with the plain markers decode (and re-encode identically) in this encoding?
func depthBaseline(tg planTarget, enc encoded, bin []byte) bool {
	ptr := reflect.New(tg.ty.Elem())
	derr, pn := decodeInto(enc.codec, enc.doc, ptr.Interface())
	if derr != nil || pn != "" {
		return false
	}
	back, pn := guard("MarshalTTLV", func() []byte { return ttlv.MarshalTTLV(ptr.Interface()) })
	return pn == "" && bytes.Equal(back, bin)
}

// runDepth: msg holds markers. depths: the nesting depths to graft. mustDecode: a directed message, whose baseline
// itself must be accepted.
func (e *dispatchEnv) runDepth(msg any, response bool, position string, depths []int, mustDecode bool) {
	slug := "populated message"
	if mustDecode {
		slug = position
	}
	tg := e.reqT
	if response {
		tg = e.resT
	}
	b, pn := guard("MarshalTTLV", func() []byte { return ttlv.MarshalTTLV(msg) })
	if pn != "" {
		if mustDecode {
			e.ctx.Res.Fail("dispatch depth: the library cannot write the directed message for " + position + ": " + pn)
		}
		return
	}
	base, err := tree.Decode(b)
	if err != nil {
		e.ctx.Res.Fail("dispatch depth: the independent reader rejects the library's encoding for " + position + ": " + err.Error())
		return
	}
	env := markerEnvelope(base, 0)
	if env < 0 {
		e.ctx.Res.Count("dispatch.depth.marker-not-written") // e.g. a version-gated field left out by the writer
		return
	}
	// the baseline, per encoding
	okCodec := map[string]bool{}
	bin := base.Encode()
	for _, enc := range encodeTree(base) {
		if depthBaseline(tg, enc, bin) {
			okCodec[enc.codec] = true
			e.ctx.Res.Count("dispatch.depth.baseline-ok." + enc.codec)
		} else {
			e.ctx.Res.Count("dispatch.depth.baseline-not-ok." + enc.codec)
			if mustDecode {
				line := dispatchLine(enc.codec, tg.dyn, enc.doc)
				c06Violate(e.ctx, line, "opaque-depth:directed-baseline-rejected:"+position, fmt.Sprintf("(%s) a message with a custom text value at %s is not decoded / not re-encoded identically", enc.codec, position))
			}
		}
	}
	if len(okCodec) == 0 {
		return
	}
	if env > e.maxEnvelope {
		e.maxEnvelope = env
	}
	e.ctx.Res.Count(fmt.Sprintf("dispatch.depth.envelope=%d", env))
	for _, d := range depths {
		n := 0
		g := graftTree(base, d, &n)
		e.where = fmt.Sprintf(" [generic structures nested %d deep at %s, below %d typed structures; the same message with a text value there is accepted]", d, position, env)
		e.only, e.keyExtra = okCodec, ":"+slug
		e.runTree(g, response, "ok", true, "opaque-depth")
		e.where, e.only, e.keyExtra = "", nil, ""
	}
}

func allDepths() []int {
	ds := make([]int, 64)
	for i := range ds {
		ds[i] = i + 1
	}
	return ds
}

func (e *dispatchEnv) runOpaqueDepth() {
	ctx, r, s := e.ctx, e.ctx.R, e.s
	key := []byte("0123456789abcdef")
	mkReq := func(items ...kmip.RequestBatchItem) *kmip.RequestMessage {
		return &kmip.RequestMessage{Header: kmip.RequestHeader{ProtocolVersion: kmip.V1_4, BatchCount: int32(len(items))}, BatchItem: items}
	}
	mkResp := func(items ...kmip.ResponseBatchItem) *kmip.ResponseMessage {
		return &kmip.ResponseMessage{Header: kmip.ResponseHeader{ProtocolVersion: kmip.V1_4, BatchCount: int32(len(items))}, BatchItem: items}
	}
	rq := func(pl kmip.OperationPayload) *kmip.RequestMessage {
		return mkReq(kmip.RequestBatchItem{Operation: pl.Operation(), RequestPayload: pl})
	}
	rs := func(pl kmip.OperationPayload) *kmip.ResponseMessage {
		return mkResp(kmip.ResponseBatchItem{Operation: pl.Operation(), ResponsePayload: pl})
	}
	keyBlock := func(attrs ...kmip.Attribute) kmip.KeyBlock {
		return kmip.KeyBlock{KeyFormatType: kmip.KeyFormatTypeRaw, CryptographicAlgorithm: kmip.CryptographicAlgorithmAES, CryptographicLength: 128,
			KeyValue: &kmip.KeyValue{Plain: &kmip.PlainKeyValue{KeyMaterial: kmip.KeyMaterial{Bytes: &key}, Attribute: attrs}}}
	}
	symKey := func(name string) *kmip.SymmetricKey { return &kmip.SymmetricKey{KeyBlock: keyBlock(markAttr(name))} }
	otAttr := kmip.Attribute{AttributeName: kmip.AttributeNameObjectType, AttributeValue: kmip.ObjectTypeSymmetricKey}
	ext := func() *kmip.MessageExtension {
		return &kmip.MessageExtension{VendorIdentification: "acme", VendorExtension: ttlv.Struct{markValue(0x540001)}}
	}
	directed := []struct {
		name     string
		response bool
		msg      any
	}{
		{"the payload of an unregistered operation (request)", false, rq(kmip.NewUnknownPayload(kmip.OperationValidate, markValue(0x540001)))},
		{"the payload of an unregistered operation (response)", true, rs(kmip.NewUnknownPayload(kmip.Operation(0x30), markValue(0x540001)))},
		{"the payload of an unregistered vendor operation (request)", false, rq(kmip.NewUnknownPayload(kmip.Operation(0x80000041), markValue(0x540001)))},
		{"the vendor extension of a request batch item", false, mkReq(kmip.RequestBatchItem{Operation: kmip.OperationActivate, RequestPayload: &payloads.ActivateRequestPayload{UniqueIdentifier: "id"}, MessageExtension: ext()})},
		{"the vendor extension of a response batch item", true, mkResp(kmip.ResponseBatchItem{Operation: kmip.OperationActivate, ResponsePayload: &payloads.ActivateResponsePayload{UniqueIdentifier: "id"}, MessageExtension: ext()})},
		{"the attribute of an Add Attribute request", false, rq(&payloads.AddAttributeRequestPayload{UniqueIdentifier: "id", Attribute: markAttr("x-origin")})},
		{"an attribute with a name unknown to the library in an Add Attribute request", false, rq(&payloads.AddAttributeRequestPayload{UniqueIdentifier: "id", Attribute: markAttr("Vendor Attribute")})},
		{"the template attribute of a Register request", false, rq(&payloads.RegisterRequestPayload{ObjectType: kmip.ObjectTypeSymmetricKey,
			TemplateAttribute: kmip.TemplateAttribute{Attribute: []kmip.Attribute{markAttr("x-origin")}}, Object: &kmip.SymmetricKey{KeyBlock: keyBlock()}})},
		{"a key value attribute of the symmetric key of a Register request", false, rq(&payloads.RegisterRequestPayload{ObjectType: kmip.ObjectTypeSymmetricKey, Object: symKey("x-origin")})},
		{"a key value attribute (unknown name) of the symmetric key of a Register request", false, rq(&payloads.RegisterRequestPayload{ObjectType: kmip.ObjectTypeSymmetricKey, Object: symKey("Vendor Attribute")})},
		{"a key value attribute of the secret data of a Register request", false, rq(&payloads.RegisterRequestPayload{ObjectType: kmip.ObjectTypeSecretData,
			Object: &kmip.SecretData{SecretDataType: kmip.SecretDataTypePassword, KeyBlock: kmip.KeyBlock{KeyFormatType: kmip.KeyFormatTypeOpaque,
				KeyValue: &kmip.KeyValue{Plain: &kmip.PlainKeyValue{KeyMaterial: kmip.KeyMaterial{Bytes: &key}, Attribute: []kmip.Attribute{markAttr("y-note")}}}}}})},
		{"a key value attribute of the split key of a Register request", false, rq(&payloads.RegisterRequestPayload{ObjectType: kmip.ObjectTypeSplitKey,
			Object: &kmip.SplitKey{SplitKeyParts: 3, KeyPartIdentifier: 1, SplitKeyThreshold: 2, SplitKeyMethod: kmip.SplitKeyMethodXOR, KeyBlock: keyBlock(markAttr("x-origin"))}})},
		{"an attribute of the template object of a Register request", false, rq(&payloads.RegisterRequestPayload{ObjectType: kmip.ObjectTypeTemplate,
			Object: &kmip.Template{Attribute: []kmip.Attribute{markAttr("x-origin")}}})},
		{"a key value attribute of the symmetric key of a Get response", true, rs(&payloads.GetResponsePayload{ObjectType: kmip.ObjectTypeSymmetricKey, UniqueIdentifier: "id", Object: symKey("x-origin")})},
		{"an attribute of an Import request", false, rq(&payloads.ImportRequestPayload{UniqueIdentifier: "id", Attribute: []kmip.Attribute{otAttr, markAttr("x-origin")}, Object: &kmip.SymmetricKey{KeyBlock: keyBlock()}})},
		{"a key value attribute of the symmetric key of an Import request", false, rq(&payloads.ImportRequestPayload{UniqueIdentifier: "id", Attribute: []kmip.Attribute{otAttr}, Object: symKey("x-origin")})},
		{"an attribute of an Export response", true, rs(&payloads.ExportResponsePayload{ObjectType: kmip.ObjectTypeSymmetricKey, UniqueIdentifier: "id", Attribute: []kmip.Attribute{markAttr("x-origin")}, Object: &kmip.SymmetricKey{KeyBlock: keyBlock()}})},
		{"a key value attribute of the symmetric key of an Export response", true, rs(&payloads.ExportResponsePayload{ObjectType: kmip.ObjectTypeSymmetricKey, UniqueIdentifier: "id", Object: symKey("x-origin")})},
		{"the server information of a Query response", true, rs(&payloads.QueryResponsePayload{VendorIdentification: "acme", ServerInformation: &ttlv.Value{Tag: kmip.TagServerInformation, Value: graftMarker}})},
		{"the second item of a batch, after a typed one", false, mkReq(
			kmip.RequestBatchItem{Operation: kmip.OperationRegister, UniqueBatchItemID: []byte{1}, RequestPayload: &payloads.RegisterRequestPayload{ObjectType: kmip.ObjectTypeSymmetricKey, Object: &kmip.SymmetricKey{KeyBlock: keyBlock()}}},
			kmip.RequestBatchItem{Operation: kmip.OperationRegister, UniqueBatchItemID: []byte{2}, RequestPayload: &payloads.RegisterRequestPayload{ObjectType: kmip.ObjectTypeSymmetricKey, Object: symKey("x-origin")}})},
	}
	for _, dc := range directed {
		e.runDepth(dc.msg, dc.response, dc.name, allDepths(), true)
		ctx.Res.Count("dispatch.depth.directed")
	}

	// every generic position of populated messages (whatever the populator reaches: every registered operation in
	// turn, both directions): all the positions of a message at once, at a depth taken in turn from 1..64
	n := ctx.N(2*len(s.Ops)+20, 1500)
	seq := 0
	classes := map[string]bool{}
	for i := 0; i < n; i++ {
		response := i%2 == 1
		tg := e.reqT
		if response {
			tg = e.resT
		}
		seq = i / 2
		pp := &popCfg{r: r, s: s, fill: 1 + i%2, respectGating: true, textMode: 2, extTags: true, opSeq: &seq}
		x := reflect.New(tg.ty.Elem())
		pp.populate(x.Elem())
		var planted []string
		plantMarkers(x, tg.ty.Elem().Name(), &planted, 0)
		if len(planted) == 0 {
			continue
		}
		for _, c := range planted {
			if !classes[c] {
				classes[c] = true
			}
		}
		d1 := 1 + (i*11)%64
		e.runDepth(x.Interface(), response, fmt.Sprintf("every generic position of a populated message (%d positions, first: %s)", len(planted), planted[0]), []int{d1, 1 + (d1+31)%64}, false)
		ctx.Res.Count("dispatch.depth.populated")
	}
	ctx.Res.Count(fmt.Sprintf("dispatch.depth.position-classes=%d", len(classes)))
	ctx.Res.Count(fmt.Sprintf("dispatch.depth.max-envelope=%d", e.maxEnvelope))
	// the deepest typed position (an attribute of a key value: message, batch item, payload, object, key block,
	// key value, attribute) must have been reached
	if e.maxEnvelope < 7 {
		ctx.Res.Fail(fmt.Sprintf("dispatch depth: the deepest generic position reached is below %d typed structures, expected 7 (key value attribute)", e.maxEnvelope))
	}
}
