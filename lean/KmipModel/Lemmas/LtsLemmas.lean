/-
  Helper lemmas for the transition-system properties (C08, C16): the components of `bad = false`,
  and isolation of the connection slots of the server model.
-/
import KmipModel.Model.SrvConn
import KmipModel.Model.Server
namespace Kmip

namespace Lts

/-- NO component of a product can be blocked by the others: whatever states the other components
    are in (stuck for ever included), every step of component `i` is a step of the product. -/
theorem setAt_mem_prodStep {σ : Type} (S : Sys σ) :
    ∀ (xs : List σ) (i : Nat) (s t : σ), xs[i]? = some s → t ∈ S.step s →
      setAt xs i t ∈ prodStep S xs := by
  intro xs
  induction xs with
  | nil => intro i s t h; simp at h
  | cons x rest ih =>
    intro i s t hi ht
    cases i with
    | zero =>
      simp only [List.getElem?_cons_zero, Option.some.injEq] at hi
      subst hi
      simp only [setAt, prodStep, List.mem_append, List.mem_map]
      exact Or.inl ⟨t, ht, rfl⟩
    | succ j =>
      simp only [List.getElem?_cons_succ] at hi
      simp only [setAt, prodStep, List.mem_append, List.mem_map]
      exact Or.inr ⟨setAt rest j t, ih j s t hi ht, rfl⟩

/-- a run: each state is a `next`-successor of the one before. -/
inductive Run {σ : Type} (next : σ → List σ) : σ → List σ → Prop
  | nil (s : σ) : Run next s []
  | cons {s t : σ} {rest : List σ} : t ∈ next s → Run next t rest → Run next s (t :: rest)

/-- if every `next`-step from a state satisfying the (preserved) invariant `P` strictly decreases
    `rank`, a run from such a state has at most `rank` steps: no infinite run. -/
theorem run_length_le {σ : Type} (next : σ → List σ) (rank : σ → Nat) (P : σ → Prop)
    (hP : ∀ s t, P s → t ∈ next s → P t)
    (hdec : ∀ s t, P s → t ∈ next s → rank t < rank s) :
    ∀ (run : List σ) (s : σ), P s → Run next s run → run.length ≤ rank s := by
  intro run
  induction run with
  | nil => intro s _ _; exact Nat.zero_le _
  | cons t rest ih =>
    intro s hs hr
    cases hr with
    | cons ht hrest =>
      have h1 := ih t (hP s t hs ht) hrest
      have h2 := hdec s t hs ht
      simp only [List.length_cons]
      omega

end Lts

theorem SrvConn.bad_parts {p : SrvConn.Params} {s : SrvConn.State} (h : SrvConn.bad p s = false) :
    SrvConn.crashed s = false ∧ (SrvConn.stuck p s && !SrvConn.waitsOnPipelined s) = false ∧
    SrvConn.misordered s = false ∧ SrvConn.invalidBad s = false ∧ SrvConn.hookBad s = false ∧
    SrvConn.rankOk p s = true ∧ SrvConn.unansweredBad p s = false ∧
    SrvConn.invalidUnansweredBad p s = false := by
  simpa [SrvConn.bad, Bool.or_eq_false_iff, and_assoc] using h

namespace Server

theorem bad_parts {p : Params} {x : State} (h : bad p x = false) :
    x.fault.is .none = true ∧ afterShutdownBad x = false ∧ goroutinesBad p x = false ∧
    x.c0.hooksBad = false ∧ x.c1.hooksBad = false ∧ Nat.beq x.wg.toNat (wgExpected x) = true ∧
    graceBad x = false ∧ rwLateBad p x = false := by
  simpa [bad, Bool.or_eq_false_iff, and_assoc] using h

/-- the connection `o` occupies one of the two slots. -/
def Keeps (o : Conn) (y : State) : Prop := y.c0 = o ∨ y.c1 = o

theorem keeps_setConns (x : State) (a o : Conn) : Keeps o (x.setConns a o) := by
  unfold Keeps State.setConns
  cases Nat.ble a.code o.code <;> simp

theorem keeps_setFault {x : State} {o : Conn} (f : Fault) (h : Keeps o x) : Keeps o (x.setFault f) := h

@[simp] theorem setConns_fault (x : State) (a b : Conn) : (x.setConns a b).fault = x.fault := by
  unfold State.setConns; cases Nat.ble a.code b.code <;> rfl

@[simp] theorem setConns_wg (x : State) (a b : Conn) : (x.setConns a b).wg = x.wg := by
  unfold State.setConns; cases Nat.ble a.code b.code <;> rfl

/-- what a step of a connection does to the shared state and which event it is. -/
def shared (e : Ev × State) : Ev × Fault × Wg := (e.1, e.2.fault, e.2.wg)

/-- the steps of a connection, as far as the shared state and the events go, do not depend on the
    OTHER connection at all. -/
theorem conn_shared_indep (p : Params) (x : State) (c o o' : Conn) :
    (conn p x c o).map shared = (conn p x c o').map shared := by
  cases hpc : c.pc <;> simp only [conn, hpc, List.map_nil]
  case started => simp [cStarted, shared]
  case idle => cases hb : (x.recvCtx || x.srvCtx) <;> simp [cIdle, shared, hb]
  case busy => simp [cBusy, shared]
  case busySlow =>
    cases hb : x.srvCtx <;> cases hf : x.tm.is .fired <;> simp [cBusySlow, shared, hb, hf, State.setFault]
  case sending =>
    cases hb : x.srvCtx <;> cases hf : x.tm.is .fired <;> simp [cSending, shared, hb, hf, State.setFault]
  case leaving =>
    cases hk : c.hookOk <;> cases ht : c.termRan <;> simp [cLeave, shared, hk, ht, State.setFault]
  case closing =>
    cases p.closeWaits <;> simp [shared, cClose]
  case winding => simp [shared]
  case finishing => simp [shared, cFinish]

theorem keeps_wgDone {x : State} {o : Conn} (h : Keeps o x) : Keeps o x.wgDone := by
  unfold State.wgDone
  cases Nat.beq x.wg.toNat 0 <;> exact h

theorem keeps_wgDone_setConns (x : State) (a o : Conn) : Keeps o ((x.wgDone).setConns a o) :=
  keeps_setConns _ _ _

/-- isolation in the server model: a step of the connection `c` leaves the OTHER connection `o`
    exactly as it was (it stays in one of the two — sorted — slots, unchanged). Together with the
    per-connection model (`Kmip.C08.isolation`) this is why the per-connection obligations do not
    depend on how many connections there are: connections interact only through `wg` (`Add` by the
    accept loop, `Done` once by each owner) and the shared monotone contexts. -/
theorem conn_isolated (p : Params) (x : State) (c o : Conn) (h : Keeps o x) :
    ∀ e ∈ conn p x c o, Keeps o e.2 := by
  intro e he
  unfold conn at he
  cases hpc : c.pc <;> simp only [hpc] at he
  case free => cases he
  case held => cases he
  case refused => cases he
  case ended => cases he
  case started =>
    simp only [cStarted, List.mem_cons, List.mem_nil_iff, or_false] at he
    rcases he with rfl | rfl <;> exact keeps_setConns _ _ _
  case idle =>
    simp only [cIdle, List.mem_append, List.mem_cons, List.mem_nil_iff, or_false] at he
    rcases he with (rfl | rfl) | he
    · exact keeps_setConns _ _ _
    · exact keeps_setConns _ _ _
    · cases hb : (x.recvCtx || x.srvCtx) <;> simp [hb] at he
      rw [he]; exact keeps_setConns _ _ _
  case busy =>
    simp only [cBusy, List.mem_cons, List.mem_nil_iff, or_false] at he
    rcases he with rfl | rfl <;> exact keeps_setConns _ _ _
  case sending =>
    simp only [cSending, List.mem_append, List.mem_cons, List.mem_nil_iff, or_false] at he
    rcases he with (rfl | rfl) | he
    · exact keeps_setConns _ _ _
    · exact keeps_setConns _ _ _
    · cases hb : x.srvCtx <;> simp [hb] at he
      rw [he]
      cases x.tm.is .fired
      · exact keeps_setFault _ h
      · exact keeps_setConns _ _ _
  case finishing =>
    simp only [List.mem_cons, List.mem_nil_iff, or_false] at he
    rw [he]
    exact keeps_setConns _ _ _
  case busySlow =>
    simp only [cBusySlow, List.mem_append, List.mem_cons, List.mem_nil_iff, or_false] at he
    rcases he with he | rfl
    · cases hb : x.srvCtx <;> simp [hb] at he
      rw [he]
      cases x.tm.is .fired
      · exact keeps_setFault _ h
      · exact keeps_setConns _ _ _
    · exact keeps_setConns _ _ _
  case leaving =>
    simp only [List.mem_cons, List.mem_nil_iff, or_false] at he
    rw [he]
    simp only [cLeave]
    cases (!c.hookOk)
    · cases c.termRan
      · exact keeps_setConns _ _ _
      · exact keeps_setFault _ h
    · exact keeps_setConns _ _ _
  case closing =>
    cases hcw : p.closeWaits <;> simp only [hcw, cond_true, cond_false, List.mem_cons,
      List.mem_nil_iff, or_false] at he <;> rw [he] <;> exact keeps_setConns _ _ _
  case winding =>
    simp only [List.mem_cons, List.mem_nil_iff, or_false] at he
    rw [he]
    exact keeps_setConns _ _ _

end Server
end Kmip
