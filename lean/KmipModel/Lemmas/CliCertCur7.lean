/-
  Certificate obligations, parts 56..63 of 64 of the `current` client system (kernel evaluation; 8 modules
  so that lake checks them in parallel; small parts keep the kernel's memory small).
  Assembled in `Lemmas/CliCert.lean`.
-/
import KmipModel.Model.CliConn
import KmipModel.Gen.CertCliConn
namespace Kmip.CliCert
open Kmip.CliLts Kmip.CliConn Kmip.Gen.CertCliConn

theorem cuClosed56 : partClosed (sys current) codec certCurrent cuP56 = true := by decide +kernel
theorem cuSafe56 : partSafe codec (badPartial current) cuP56 = true := by decide +kernel
theorem cuClosed57 : partClosed (sys current) codec certCurrent cuP57 = true := by decide +kernel
theorem cuSafe57 : partSafe codec (badPartial current) cuP57 = true := by decide +kernel
theorem cuClosed58 : partClosed (sys current) codec certCurrent cuP58 = true := by decide +kernel
theorem cuSafe58 : partSafe codec (badPartial current) cuP58 = true := by decide +kernel
theorem cuClosed59 : partClosed (sys current) codec certCurrent cuP59 = true := by decide +kernel
theorem cuSafe59 : partSafe codec (badPartial current) cuP59 = true := by decide +kernel
theorem cuClosed60 : partClosed (sys current) codec certCurrent cuP60 = true := by decide +kernel
theorem cuSafe60 : partSafe codec (badPartial current) cuP60 = true := by decide +kernel
theorem cuClosed61 : partClosed (sys current) codec certCurrent cuP61 = true := by decide +kernel
theorem cuSafe61 : partSafe codec (badPartial current) cuP61 = true := by decide +kernel
theorem cuClosed62 : partClosed (sys current) codec certCurrent cuP62 = true := by decide +kernel
theorem cuSafe62 : partSafe codec (badPartial current) cuP62 = true := by decide +kernel
theorem cuClosed63 : partClosed (sys current) codec certCurrent cuP63 = true := by decide +kernel
theorem cuSafe63 : partSafe codec (badPartial current) cuP63 = true := by decide +kernel

end Kmip.CliCert
