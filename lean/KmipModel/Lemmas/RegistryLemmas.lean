/-
  Lemmas about the registry model (`Model/Registry.lean`): soundness of the table checkers, packing of
  names, Go number parsing/formatting, tokenisers, and the text round trips of enumerations, tags and
  bit masks. Everything here is generic in the tables; `Props/C17` instantiates it on `Gen.*`.
-/
import KmipModel.Model.Registry
namespace Kmip

/-! ## association lists -/

theorem lookup_mem {k v : Nat} {t : Table} (h : lookup k t = some v) : (k, v) ∈ t := by
  induction t with
  | nil => simp [lookup] at h
  | cons p t ih =>
    obtain ⟨a, b⟩ := p
    simp only [lookup] at h
    by_cases hk : (a == k) = true
    · simp [hk] at h
      have : a = k := by simpa using hk
      subst this; subst h
      exact List.mem_cons_self
    · simp [hk] at h
      exact List.mem_cons_of_mem _ (ih h)

theorem hasKey_false {k : Nat} {t : Table} (h : hasKey k t = false) : ∀ v, (k, v) ∉ t := by
  intro v hm
  have : hasKey k t = true := by
    unfold hasKey
    exact List.any_eq_true.mpr ⟨(k, v), hm, by simp⟩
  simp [this] at h

theorem hasVal_false {v : Nat} {t : Table} (h : hasVal v t = false) : ∀ k, (k, v) ∉ t := by
  intro k hm
  have : hasVal v t = true := by
    unfold hasVal
    exact List.any_eq_true.mpr ⟨(k, v), hm, by simp⟩
  simp [this] at h

/-- in a table without duplicate key, membership is what `lookup` answers. -/
theorem lookup_of_mem {t : Table} (hn : keysNodup t = true) {k v : Nat} (hm : (k, v) ∈ t) :
    lookup k t = some v := by
  induction t with
  | nil => simp at hm
  | cons p t ih =>
    obtain ⟨a, b⟩ := p
    simp only [keysNodup, Bool.and_eq_true, Bool.not_eq_true'] at hn
    simp only [lookup]
    rcases List.mem_cons.mp hm with h | h
    · have h1 : k = a := congrArg Prod.fst h
      have h2 : v = b := congrArg Prod.snd h
      subst h1; subst h2; simp
    · have hak : a ≠ k := by
        intro e; subst e
        exact hasKey_false hn.1 v h
      have : (a == k) = false := by simpa using hak
      simp [this, ih hn.2 h]

theorem keysNodup_unique {t : Table} (hn : keysNodup t = true) {k v w : Nat}
    (h1 : (k, v) ∈ t) (h2 : (k, w) ∈ t) : v = w := by
  have a := lookup_of_mem hn h1
  have b := lookup_of_mem hn h2
  rw [a] at b
  exact Option.some.inj b

theorem valsNodup_unique {t : Table} (hn : valsNodup t = true) {k l v : Nat}
    (h1 : (k, v) ∈ t) (h2 : (l, v) ∈ t) : k = l := by
  induction t with
  | nil => simp at h1
  | cons p t ih =>
    obtain ⟨a, b⟩ := p
    simp only [valsNodup, Bool.and_eq_true, Bool.not_eq_true'] at hn
    rcases List.mem_cons.mp h1 with e1 | e1 <;> rcases List.mem_cons.mp h2 with e2 | e2
    · have := congrArg Prod.fst e1; have := congrArg Prod.fst e2; simp_all
    · have hb : v = b := congrArg Prod.snd e1
      subst hb
      exact absurd e2 (hasVal_false hn.1 l)
    · have hb : v = b := congrArg Prod.snd e2
      subst hb
      exact absurd e1 (hasVal_false hn.1 k)
    · exact ih hn.2 e1 e2

theorem inverseOf_spec {a b : Table} (h : inverseOf a b = true) {x y : Nat} (hm : (x, y) ∈ a) :
    lookup y b = some x := by
  unfold inverseOf at h
  have := List.all_eq_true.mp h (x, y) hm
  simp only at this
  cases hl : lookup y b with
  | none => simp [hl] at this
  | some z =>
    simp only [hl] at this
    have : z = x := by simpa using this
    subst this; rfl

/-- the parts of `bijective`. -/
theorem bijective_parts {a b : Table} (h : bijective a b = true) :
    keysNodup a = true ∧ valsNodup b = true ∧ inverseOf a b = true ∧ inverseOf b a = true ∧
    a.length = b.length := by
  simp only [bijective, Bool.and_eq_true, beq_iff_eq] at h
  exact ⟨h.1.1.1.1, h.1.1.1.2, h.1.1.2, h.1.2, h.2⟩

theorem bijective_of_parts {a b : Table} (h1 : keysNodup a = true) (h2 : valsNodup b = true)
    (h3 : inverseOf a b = true) (h4 : inverseOf b a = true) (h5 : (a.length == b.length) = true) :
    bijective a b = true := by
  simp [bijective, h1, h2, h3, h4, h5]

/-- SOUNDNESS of `bijective`: the reverse table answers `name ↦ num` exactly when the forward table
    answers `num ↦ name`. -/
theorem bijective_sound {byNum byName : Table} (h : bijective byNum byName = true) (name num : Nat) :
    lookup name byName = some num ↔ lookup num byNum = some name := by
  obtain ⟨_, _, h3, h4, _⟩ := bijective_parts h
  exact ⟨fun hl => inverseOf_spec h4 (lookup_mem hl), fun hl => inverseOf_spec h3 (lookup_mem hl)⟩

/-- a name denotes one number only, and a number has one name only — in BOTH tables. -/
theorem bijective_num_unique {byNum byName : Table} (h : bijective byNum byName = true)
    {n m name : Nat} (h1 : lookup n byNum = some name) (h2 : lookup m byNum = some name) : n = m := by
  have a := (bijective_sound h name n).mpr h1
  have b := (bijective_sound h name m).mpr h2
  rw [a] at b
  exact Option.some.inj b

theorem bijective_name_unique {byNum byName : Table} (h : bijective byNum byName = true)
    {s t num : Nat} (h1 : lookup s byName = some num) (h2 : lookup t byName = some num) : s = t := by
  have a := (bijective_sound h s num).mp h1
  have b := (bijective_sound h t num).mp h2
  rw [a] at b
  exact Option.some.inj b

/-- every ENTRY of either table is found by `lookup` (no entry is shadowed by a duplicate). -/
theorem bijective_entry_byNum {byNum byName : Table} (h : bijective byNum byName = true)
    {num name : Nat} (hm : (num, name) ∈ byNum) : lookup num byNum = some name :=
  lookup_of_mem (bijective_parts h).1 hm

theorem bijective_entry_byName {byNum byName : Table} (h : bijective byNum byName = true)
    {num name : Nat} (hm : (name, num) ∈ byName) : lookup name byName = some num :=
  (bijective_sound h name num).mpr (inverseOf_spec (bijective_parts h).2.2.2.1 hm)

/-- no name occurs twice in the forward table, no name twice as a key of the reverse table. -/
theorem bijective_names_nodup {byNum byName : Table} (h : bijective byNum byName = true)
    {n m name : Nat} (h1 : (n, name) ∈ byNum) (h2 : (m, name) ∈ byNum) : n = m :=
  bijective_num_unique h (bijective_entry_byNum h h1) (bijective_entry_byNum h h2)

theorem bijective_keys_byName {byNum byName : Table} (h : bijective byNum byName = true)
    {n m name : Nat} (h1 : (name, n) ∈ byName) (h2 : (name, m) ∈ byName) : n = m := by
  have a := bijective_entry_byName h h1
  have b := bijective_entry_byName h h2
  rw [a] at b
  exact Option.some.inj b

/-! ## agreement with the pinned tables -/

theorem memPair_iff {p : Nat × Nat} {t : Table} : memPair p t = true ↔ p ∈ t := by
  unfold memPair
  rw [List.any_eq_true]
  constructor
  · rintro ⟨q, hq, he⟩
    simp only [Bool.and_eq_true, beq_iff_eq] at he
    have : q = p := Prod.ext he.1 he.2
    subst this; exact hq
  · intro h
    exact ⟨p, h, by simp⟩

theorem subTable_spec {a b : Table} (h : subTable a b = true) : ∀ p, p ∈ a → p ∈ b := by
  intro p hp
  exact memPair_iff.mp (List.all_eq_true.mp h p hp)

theorem pairListEq_eq : ∀ {a b : Table}, pairListEq a b = true → a = b
  | [], [], _ => rfl
  | [], _ :: _, h => by simp [pairListEq] at h
  | _ :: _, [], h => by simp [pairListEq] at h
  | p :: s, q :: t, h => by
    simp only [pairListEq, Bool.and_eq_true, beq_iff_eq] at h
    have e : p = q := Prod.ext h.1.1 h.1.2
    rw [e, pairListEq_eq h.2]

/-- SOUNDNESS of `agrees`: the two tables contain the same pairs (nothing missing, nothing extra, same
    numbers, same names). -/
theorem agrees_sound {pinned gen : Table} (h : agrees pinned gen = true) (p : Nat × Nat) :
    p ∈ pinned ↔ p ∈ gen := by
  unfold agrees at h
  rcases Bool.or_eq_true _ _ |>.mp h with h | h
  · rw [pairListEq_eq h]
  · simp only [Bool.and_eq_true] at h
    exact ⟨subTable_spec h.1.1 p, subTable_spec h.1.2 p⟩

theorem agrees_length {pinned gen : Table} (h : agrees pinned gen = true) :
    pinned.length = gen.length := by
  unfold agrees at h
  rcases Bool.or_eq_true _ _ |>.mp h with h | h
  · rw [pairListEq_eq h]
  · simp only [Bool.and_eq_true, beq_iff_eq] at h
    exact h.2

/-- … hence, for tables without duplicate key, the same answers to every question. -/
theorem agrees_lookup {pinned gen : Table} (h : agrees pinned gen = true)
    (hp : keysNodup pinned = true) (hg : keysNodup gen = true) (k : Nat) :
    lookup k pinned = lookup k gen := by
  cases h1 : lookup k pinned with
  | some v =>
    exact (lookup_of_mem hg ((agrees_sound h (k, v)).mp (lookup_mem h1))).symm
  | none =>
    cases h2 : lookup k gen with
    | none => rfl
    | some v =>
      have := lookup_of_mem hp ((agrees_sound h (k, v)).mpr (lookup_mem h2))
      rw [h1] at this; cases this

/-! ## packed names -/

def packFrom (a : Nat) (bs : List Nat) : Nat := bs.foldl (fun a b => a * 256 + b) a

theorem pack_eq_packFrom (bs : List Nat) : pack bs = packFrom 1 bs := rfl

theorem packFrom_ge (bs : List Nat) : ∀ a, a * 2 ^ bs.length ≤ packFrom a bs := by
  induction bs with
  | nil => intro a; simp [packFrom]
  | cons b bs ih =>
    intro a
    have := ih (a * 256 + b)
    simp only [packFrom, List.foldl_cons, List.length_cons] at this ⊢
    have h2 : a * 2 ^ (bs.length + 1) ≤ (a * 256 + b) * 2 ^ bs.length := by
      rw [Nat.pow_succ, Nat.add_mul]
      have : a * (2 ^ bs.length * 2) ≤ a * 256 * 2 ^ bs.length := by
        rw [Nat.mul_assoc, Nat.mul_comm 256]
        exact Nat.mul_le_mul_left a (Nat.mul_le_mul_left _ (by decide))
      omega
    omega

theorem pack_ge (bs : List Nat) : 2 ^ bs.length ≤ pack bs := by
  have := packFrom_ge bs 1
  rw [pack_eq_packFrom]; omega

theorem pack_pos (bs : List Nat) : 1 ≤ pack bs :=
  Nat.le_trans (Nat.one_le_two_pow) (pack_ge bs)

theorem unpackAux_packFrom (bs : List Nat) (hb : ∀ b ∈ bs, b < 256) :
    ∀ (a fuel : Nat) (acc : List Nat), 1 ≤ a → bs.length ≤ fuel →
      unpackAux fuel (packFrom a bs) acc = unpackAux (fuel - bs.length) a (bs ++ acc) := by
  induction bs with
  | nil => intro a fuel acc _ _; simp [packFrom]
  | cons b bs ih =>
    intro a fuel acc ha hf
    have hb' : ∀ x ∈ bs, x < 256 := fun x hx => hb x (List.mem_cons_of_mem _ hx)
    have hlt : b < 256 := hb b List.mem_cons_self
    simp only [List.length_cons] at hf
    have := ih hb' (a * 256 + b) fuel acc (by omega) (by omega)
    simp only [packFrom, List.foldl_cons] at this ⊢
    rw [this]
    obtain ⟨f, hfe⟩ : ∃ f, fuel - bs.length = f + 1 := ⟨fuel - bs.length - 1, by omega⟩
    have h1 : ¬ (a * 256 + b ≤ 1) := by omega
    have h2 : (a * 256 + b) / 256 = a := by omega
    have h3 : (a * 256 + b) % 256 = b := by omega
    rw [hfe]
    simp only [unpackAux, h1, if_false, h2, h3, List.length_cons]
    have : fuel - (bs.length + 1) = f := by omega
    rw [this]
    simp

theorem unpackAux_one (fuel : Nat) (acc : List Nat) : unpackAux fuel 1 acc = acc := by
  cases fuel <;> simp [unpackAux]

/-- `unpack` inverts `pack` on byte strings. -/
theorem unpack_pack (bs : List Nat) (hb : ∀ b ∈ bs, b < 256) : unpack (pack bs) = bs := by
  unfold unpack
  have hge := pack_ge bs
  have hne : pack bs ≠ 0 := by have := pack_pos bs; omega
  have hl : bs.length ≤ (pack bs).log2 := (Nat.le_log2 hne).mpr hge
  rw [pack_eq_packFrom] at hl ⊢
  rw [unpackAux_packFrom bs hb 1 _ [] (Nat.le_refl 1) (by omega), unpackAux_one]
  simp

theorem validName_eq {n : Nat} (h : validName n = true) : pack (unpack n) = n := by
  simpa [validName] using h

/-! ## numbers -/

theorem parseDigits_append (base : Nat) (xs ys : List Nat) (acc : Nat) :
    parseDigits base (xs ++ ys) acc =
      match parseDigits base xs acc with
      | some a => parseDigits base ys a
      | none => none := by
  induction xs generalizing acc with
  | nil => simp [parseDigits]
  | cons c cs ih =>
    simp only [List.cons_append, parseDigits]
    cases digitVal c with
    | none => rfl
    | some d =>
      simp only
      by_cases hd : d < base
      · simp only [hd, if_true]; exact ih _
      · simp only [hd, if_false]

theorem digitVal_hexDigit : ∀ d, d < 16 → digitVal (hexDigit d) = some d := by decide

theorem hexDigit_range : ∀ d, d < 16 → 48 ≤ hexDigit d ∧ hexDigit d ≤ 70 := by decide

theorem hexStep_aux (acc v k : Nat) :
    (acc * 16 ^ k + v / 16 % 16 ^ k) * 16 + v % 16 = acc * (16 ^ k * 16) + v % (16 ^ k * 16) := by
  have : v % (16 ^ k * 16) = v % 16 + 16 * (v / 16 % 16 ^ k) := by
    rw [Nat.mul_comm (16 ^ k) 16, Nat.mod_mul]
  rw [this, Nat.add_mul, Nat.mul_assoc]
  omega

theorem parseDigits_hexFixed (k v acc : Nat) :
    parseDigits 16 (hexFixed k v) acc = some (acc * 16 ^ k + v % 16 ^ k) := by
  induction k generalizing v acc with
  | zero => simp [hexFixed, parseDigits, Nat.mod_one]
  | succ k ih =>
    have hd : v % 16 < 16 := Nat.mod_lt _ (by decide)
    simp only [hexFixed]
    rw [parseDigits_append, ih]
    simp only [parseDigits, digitVal_hexDigit _ hd, hd, if_true]
    congr 1
    rw [Nat.pow_succ, hexStep_aux]

theorem hexFixed_length (k v : Nat) : (hexFixed k v).length = k := by
  induction k generalizing v with
  | zero => simp [hexFixed]
  | succ k ih => simp [hexFixed, ih]

theorem hexFixed_range (k v : Nat) : ∀ c ∈ hexFixed k v, 48 ≤ c ∧ c ≤ 70 := by
  induction k generalizing v with
  | zero => simp [hexFixed]
  | succ k ih =>
    intro c hc
    simp only [hexFixed, List.mem_append, List.mem_singleton] at hc
    rcases hc with hc | hc
    · exact ih _ c hc
    · subst hc; exact hexDigit_range _ (Nat.mod_lt _ (by decide))

theorem fmtHex_of_lt {w v : Nat} (h : v < 16 ^ w) : fmtHex w v = hexFixed w v := by
  simp [fmtHex, h]

/-- `ParseUint(fmt("%08X", v), 16, 32) = v` for every 32-bit `v`. -/
theorem parseUint_hex8 {v : Nat} (hv : v < 2 ^ 32) : parseUint 16 32 (fmtHex 8 v) = some v := by
  have h16 : v < 16 ^ 8 := by simpa using hv
  rw [fmtHex_of_lt h16]
  have hne : hexFixed 8 v ≠ [] := by
    intro h
    have := hexFixed_length 8 v
    rw [h] at this; simp at this
  unfold parseUint
  have hp := parseDigits_hexFixed 8 v 0
  rw [Nat.mod_eq_of_lt h16, Nat.zero_mul, Nat.zero_add] at hp
  cases hx : hexFixed 8 v with
  | nil => exact absurd hx hne
  | cons c cs =>
    rw [hx] at hp
    simp only [hp, hv, if_true]

theorem parseInt_hexFixed {k v : Nat} (hk : 0 < k) (hv : v < 16 ^ k) (h31 : v < 2 ^ 31) :
    parseInt 16 32 (hexFixed k v) = some (v : Int) := by
  have hp := parseDigits_hexFixed k v 0
  rw [Nat.mod_eq_of_lt hv, Nat.zero_mul, Nat.zero_add] at hp
  cases hx : hexFixed k v with
  | nil =>
    have := hexFixed_length k v
    rw [hx] at this; simp at this; omega
  | cons c cs =>
    have hc := hexFixed_range k v c (by rw [hx]; exact List.mem_cons_self)
    have h43 : (c == 43) = false := by simp; omega
    have h45 : (c == 45) = false := by simp; omega
    rw [hx] at hp
    simp only [parseInt, h43, h45, Bool.or_self, Bool.false_eq_true, if_false]
    rw [hp]
    have : v < 2 ^ (32 - 1) := h31
    simp [this]

/-! ## clean names -/

structure CleanFacts (n : Nat) : Prop where
  valid : pack (unpack n) = n
  ne : unpack n ≠ []
  chars : ∀ c ∈ unpack n, c < 128 ∧ isSpace c = false ∧ c ≠ 124
  no0x : startsWith0x (unpack n) = false
  noUint : parseUint 10 32 (unpack n) = none
  noInt : parseInt 10 32 (unpack n) = none
  notTTLV : n ≠ 0x0154544C56

theorem cleanName_facts {n : Nat} (h : cleanName n = true) : CleanFacts n := by
  simp only [cleanName, Bool.and_eq_true, Bool.not_eq_true', List.all_eq_true, bne_iff_ne, ne_eq,
    Option.isNone_iff_eq_none, decide_eq_true_eq] at h
  obtain ⟨⟨⟨⟨⟨⟨h1, h2⟩, h3⟩, h4⟩, h5⟩, h6⟩, h7⟩ := h
  refine ⟨validName_eq h1, ?_, ?_, h4, h5, h6, h7⟩
  · intro e; rw [e] at h2; simp at h2
  · intro c hc
    have := h3 c hc
    exact ⟨this.1.1, this.1.2, this.2⟩

theorem cleanNames_lookup {t : Table} (h : cleanNames t = true) {k n : Nat}
    (hl : lookup k t = some n) : cleanName n = true :=
  List.all_eq_true.mp h (k, n) (lookup_mem hl)

theorem unpack_emptyName : unpack emptyName = [] := by decide

theorem clean_ne_empty {n : Nat} (h : CleanFacts n) : (n == emptyName) = false := by
  have : n ≠ emptyName := by
    intro e; subst e
    exact h.ne unpack_emptyName
  simpa using this

theorem not_space_ne_32 {c : Nat} (h : isSpace c = false) : c ≠ 32 := by
  intro e; subst e; simp [isSpace] at h

/-! ## enumerations: text round trip -/

theorem enumFromTextReader_name (byName : Table) {bs : List Nat} (h0 : startsWith0x bs = false)
    (hu : parseUint 10 32 bs = none) : enumFromTextReader byName bs = lookup (pack bs) byName := by
  unfold enumFromTextReader
  split
  · simp [startsWith0x] at h0
  · simp [hu]

theorem filter32_self {bs : List Nat} (hs : ∀ c ∈ bs, c ≠ 32) : bs.filter (· != 32) = bs :=
  List.filter_eq_self.mpr (by intro c hc; simpa using hs c hc)

theorem enumFromTextUnmarshal_name (byName : Table) {bs : List Nat} (hs : ∀ c ∈ bs, c ≠ 32)
    (h0 : startsWith0x bs = false) (hu : parseUint 10 32 bs = none) :
    enumFromTextUnmarshal byName bs = lookup (pack bs) byName := by
  have hnum : enumUnmarshalNum bs = none := by
    unfold enumUnmarshalNum
    split
    · simp [startsWith0x] at h0
    · simp [startsWith0x] at h0
    · exact hu
  unfold enumFromTextUnmarshal
  simp only [filter32_self hs, hnum]

theorem hex0x_ne32 (w v : Nat) (hv : v < 16 ^ w) : ∀ c ∈ hex0x w v, c ≠ 32 := by
  intro c hc
  simp only [hex0x, List.mem_cons] at hc
  rcases hc with h | h | h
  · omega
  · omega
  · rw [fmtHex_of_lt hv] at h
    have := hexFixed_range w v c h
    omega

/-- the text of ANY 32-bit enumeration value — registered or not — is read back as that value by the
    XML and JSON readers. -/
theorem enumReader_roundtrip {byValue byName : Table} (hb : bijective byValue byName = true)
    (hc : cleanNames byValue = true) {v : Nat} (hv : v < 2 ^ 32) :
    enumFromTextReader byName (enumToText byValue v) = some v := by
  have hhex : enumFromTextReader byName (hex0x 8 v) = some v := by
    simp only [hex0x, enumFromTextReader]
    exact parseUint_hex8 hv
  unfold enumToText
  cases hl : lookup v byValue with
  | none => exact hhex
  | some n =>
    have f := cleanName_facts (cleanNames_lookup hc hl)
    simp only [clean_ne_empty f, Bool.false_eq_true, if_false]
    rw [enumFromTextReader_name byName f.no0x f.noUint, f.valid]
    exact (bijective_sound hb n v).mpr hl

/-- … and by `UnmarshalText` of the enumeration types. -/
theorem enumUnmarshal_roundtrip {byValue byName : Table} (hb : bijective byValue byName = true)
    (hc : cleanNames byValue = true) {v : Nat} (hv : v < 2 ^ 32) :
    enumFromTextUnmarshal byName (enumToText byValue v) = some v := by
  have h16 : v < 16 ^ 8 := by simpa using hv
  have hhex : enumFromTextUnmarshal byName (hex0x 8 v) = some v := by
    unfold enumFromTextUnmarshal
    simp only [filter32_self (hex0x_ne32 8 v h16)]
    simp only [hex0x, enumUnmarshalNum, parseUint_hex8 hv]
  unfold enumToText
  cases hl : lookup v byValue with
  | none => exact hhex
  | some n =>
    have f := cleanName_facts (cleanNames_lookup hc hl)
    simp only [clean_ne_empty f, Bool.false_eq_true, if_false]
    rw [enumFromTextUnmarshal_name byName (fun c hc => not_space_ne_32 (f.chars c hc).2.1) f.no0x
      f.noUint, f.valid]
    exact (bijective_sound hb n v).mpr hl

/-! ## tags: text round trip -/

theorem tagFromText_name (tagByName : Table) {bs : List Nat} (hne : bs ≠ [])
    (h0 : startsWith0x bs = false) :
    tagFromText tagByName bs = match lookup (pack bs) tagByName with
      | some t => (t : Int)
      | none => 0 := by
  unfold tagFromText
  split
  · exact absurd rfl hne
  · simp [startsWith0x] at h0
  · rfl

/-- the text of ANY 24-bit tag — registered or not — is read back as that tag (`TagString`, the XML
    element name / `tag` attribute; `xmlReader.Tag`, `jsonReader.Tag`). -/
theorem tag_roundtrip {tagNames tagByName : Table} (hb : bijective tagNames tagByName = true)
    (hc : cleanNames tagNames = true) {t : Nat} (ht : t < 2 ^ 24) :
    tagFromText tagByName (tagToText tagNames t) = (t : Int) := by
  have h16 : t < 16 ^ 6 := by simpa using ht
  have hhex : tagFromText tagByName (hex0x 6 t) = (t : Int) := by
    simp only [hex0x, tagFromText, fmtHex_of_lt h16]
    rw [parseInt_hexFixed (by decide) h16 (by omega)]
  unfold tagToText
  cases hl : lookup t tagNames with
  | none => exact hhex
  | some n =>
    have f := cleanName_facts (cleanNames_lookup hc hl)
    simp only
    rw [tagFromText_name tagByName f.ne f.no0x, f.valid, (bijective_sound hb n t).mpr hl]

theorem tagXml_eq {tagNames : Table} (hc : cleanNames tagNames = true) (t : Nat) :
    tagToTextXml tagNames t = tagToText tagNames t := by
  unfold tagToTextXml tagToText
  cases hl : lookup t tagNames with
  | none => rfl
  | some n => simp only [clean_ne_empty (cleanName_facts (cleanNames_lookup hc hl)), Bool.false_eq_true, if_false]

end Kmip
