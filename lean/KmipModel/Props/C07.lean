/-
  C07 — stream framing is independent of how the transport chunks bytes.

  `recvC c0 max` (model of `ttlv.Stream.Recv`; `c0` = capacity of the buffer a call starts with, any
  value; `max` = the configured limit, `0` = none) runs against an adversarial transport that decides
  what every `Read` returns.

  * liveness (1, 2): under every schedule whose reads deliver at least one byte (`Progressive`) and
    in which only a read that completes a frame may carry an error, every frame of a sequence is
    returned, in order, and exactly `rest` stays on the wire;
  * safety (6): under EVERY schedule — zero-length reads `(0, nil)`, errors anywhere — a returned
    message is exactly the first frame, exactly `rest` is left, and in every outcome not one byte of
    `rest` has been consumed;
  * (3) a stream ending inside a frame yields an error (`.ioErr`/`.eof`/`.tooBig`), for every
    schedule; `.fuel` (the model's "loop did not finish") is never returned at all (3b);
  * (4) an announcement above the limit is never a message, consumes at most the 8 header bytes and
    leaves the buffer at its initial capacity, for every schedule; (5) with a limit the requested
    capacity never exceeds `max c0 limit`.

  Zero-length reads: `Recv` treats a `(0, nil)` read as the end of the stream (io.go `n == 0`
  branch) although io.Reader allows it as "nothing happened"; the liveness theorems therefore
  exclude them (`Progressive`), theorem 7 states what happens instead, theorem 6 shows it is safe.
-/
import KmipModel.Lemmas.StreamLemmas
import KmipModel.Lemmas.StreamWireLemmas
import KmipModel.Lemmas.FixpointLemmas
namespace Kmip.C07
open Kmip

/-- 1a. Every progressive, error-free schedule (any chunk sizes ≥ 1) — the receiver returns exactly
    the first frame `m`, leaves exactly `rest` on the wire (never a byte of the next message), and
    the unread part of the schedule is still progressive and error-free. -/
theorem recvC_exact (c0 max : Nat) (m rest : Bytes) (sched : List ReadEv)
    (hm : Framed m) (hmax : max = 0 ∨ m.length ≤ max) (hp : Progressive sched)
    (he : ∀ ev ∈ sched, ev.withErr = false) :
    ∃ sched', (recvC c0 max { wire := m ++ rest, sched := sched }).res = .msg m ∧
      (recvC c0 max { wire := m ++ rest, sched := sched }).t = { wire := rest, sched := sched' } ∧
      Progressive sched' ∧ (∀ ev ∈ sched', ev.withErr = false) := by
  obtain ⟨pre, s', c', hs, hr⟩ := recv_exact_gen c0 max m rest sched hm hmax hp
    (ErrOnlyAtEnd_of_errFree _ _ _ he)
  exact ⟨s', by rw [hr], by rw [hr], Progressive_of_suffix hs hp, ErrFree_of_suffix hs he⟩

/-- 1b. The same when reads may be flagged with an error (data and `io.EOF` returned by the same
    `Read`), provided every flagged read is one that completes the frame (`ErrOnlyAtEnd`, the byte
    accounting of the schedule against a frame of `m.length` bytes): data is accounted for before
    the error, the result is still `.msg m`. -/
theorem recvC_exact_data_with_err (c0 max : Nat) (m rest : Bytes) (sched : List ReadEv)
    (hm : Framed m) (hmax : max = 0 ∨ m.length ≤ max) (hp : Progressive sched)
    (he : ErrOnlyAtEnd m.length 0 sched) :
    ∃ sched', (recvC c0 max { wire := m ++ rest, sched := sched }).res = .msg m ∧
      (recvC c0 max { wire := m ++ rest, sched := sched }).t = { wire := rest, sched := sched' } ∧
      Progressive sched' := by
  obtain ⟨pre, s', c', hs, hr⟩ := recv_exact_gen c0 max m rest sched hm hmax hp he
  exact ⟨s', by rw [hr], by rw [hr], Progressive_of_suffix hs hp⟩

/-- 1c. The typical instance of 1b: the header arrives in one read, the whole body in a second read
    that is flagged with an error (`e` arbitrary). -/
theorem recvC_exact_body_with_eof (c0 max : Nat) (m rest : Bytes) (k1 k2 : Nat) (e : Bool)
    (post : List ReadEv) (hm : Framed m) (hmax : max = 0 ∨ m.length ≤ max)
    (hk1 : 8 ≤ k1) (hk2 : m.length - 8 ≤ k2)
    (hp : Progressive (⟨k1, false⟩ :: ⟨k2, e⟩ :: post)) :
    (recvC c0 max { wire := m ++ rest, sched := ⟨k1, false⟩ :: ⟨k2, e⟩ :: post }).res = .msg m ∧
    (recvC c0 max { wire := m ++ rest, sched := ⟨k1, false⟩ :: ⟨k2, e⟩ :: post }).t.wire = rest := by
  have h8 := hm.1
  have h1 : 0 + min k1 ((if 0 < 8 then 8 else m.length) - 0) = 8 := by
    rw [if_pos (by decide)]; omega
  have he : ErrOnlyAtEnd m.length 0 (⟨k1, false⟩ :: ⟨k2, e⟩ :: post) := by
    unfold ErrOnlyAtEnd FrameSched
    by_cases hm8 : m.length ≤ 8
    · exact Or.inl ⟨by dsimp only; rw [h1]; exact hm8, trivial⟩
    · refine Or.inr ⟨by dsimp only; rw [h1]; omega, rfl, ?_⟩
      unfold FrameSched
      refine Or.inl ⟨?_, trivial⟩
      dsimp only
      rw [h1, if_neg (by omega)]
      omega
  obtain ⟨pre, s', c', _, hr⟩ := recv_exact_gen c0 max m rest _ hm hmax hp he
  rw [hr]; exact ⟨rfl, rfl⟩

/-- 1d. Exhausted schedule (every read delivers all that is requested) — an instance of 1a. -/
theorem recvC_exact_unscheduled (c0 max : Nat) (m rest : Bytes)
    (hm : Framed m) (hmax : max = 0 ∨ m.length ≤ max) :
    (recvC c0 max { wire := m ++ rest, sched := [] }).res = .msg m ∧
    (recvC c0 max { wire := m ++ rest, sched := [] }).t.wire = rest := by
  obtain ⟨s', h1, h2, _⟩ := recvC_exact c0 max m rest [] hm hmax (fun _ h => nomatch h)
    (fun _ h => nomatch h)
  exact ⟨h1, by rw [h2]⟩

/-- 2a. A sequence of frames is received completely, in order, and nothing else is consumed — for every
    progressive schedule in which, within each frame, only the read that completes the frame may be
    flagged with an error (`SeqSched`, the byte accounting over the frame lengths). -/
theorem recvAll_exact_data_with_err (c0 max : Nat) (ms : List Bytes) (rest : Bytes)
    (sched : List ReadEv)
    (hms : ∀ m ∈ ms, Framed m ∧ (max = 0 ∨ m.length ≤ max)) (hp : Progressive sched)
    (he : SeqSched (ms.map List.length) sched) :
    ∃ sched', recvAll c0 max ms.length { wire := ms.flatten ++ rest, sched := sched }
        = (ms, none, { wire := rest, sched := sched' }) ∧ Progressive sched' :=
  recvAll_exact_aux c0 max rest ms sched hms hp he

/-- 2b. In particular for every progressive error-free schedule. -/
theorem recvAll_exact (c0 max : Nat) (ms : List Bytes) (rest : Bytes) (sched : List ReadEv)
    (hms : ∀ m ∈ ms, Framed m ∧ (max = 0 ∨ m.length ≤ max)) (hp : Progressive sched)
    (he : ∀ ev ∈ sched, ev.withErr = false) :
    ∃ sched', recvAll c0 max ms.length { wire := ms.flatten ++ rest, sched := sched }
        = (ms, none, { wire := rest, sched := sched' }) ∧ Progressive sched' :=
  recvAll_exact_aux c0 max rest ms sched hms hp (SeqSched_of_errFree _ _ he)

/-- 3b. `.fuel` is an artefact of the model's bounded loop; it is never returned: `Recv` terminates
    with a message or an error on every transport. -/
theorem recvC_never_fuel (c0 max : Nat) (t : Transport) : (recvC c0 max t).res ≠ .fuel :=
  recvLoop_ne_fuel max _ t [] 8 c0 (by omega)

/-- 3. A stream that ends inside a message yields an ERROR, never a message — for every schedule
    (progressive or not, with or without errors) and every limit. -/
theorem recvC_truncated (c0 max : Nat) (m : Bytes) (k : Nat) (sched : List ReadEv)
    (hm : Framed m) (hk : k < m.length) :
    (recvC c0 max { wire := m.take k, sched := sched }).res = .ioErr ∨
    (recvC c0 max { wire := m.take k, sched := sched }).res = .eof ∨
    (recvC c0 max { wire := m.take k, sched := sched }).res = .tooBig := by
  have hmsg : ∀ bs, (recvC c0 max { wire := m.take k, sched := sched }).res ≠ .msg bs := by
    refine recvLoop_never_msg max m hm _ _ [] 8 c0 ⟨m.drop k, ?_, ?_⟩
    · intro h
      have := congrArg List.length h
      simp only [List.length_drop, List.length_nil] at this
      omega
    · simp
  have hfuel := recvC_never_fuel c0 max { wire := m.take k, sched := sched }
  cases h : (recvC c0 max { wire := m.take k, sched := sched }).res with
  | msg bs => exact absurd h (hmsg bs)
  | ioErr => exact Or.inl rfl
  | eof => exact Or.inr (Or.inl rfl)
  | tooBig => exact Or.inr (Or.inr rfl)
  | fuel => exact absurd h hfuel

/-- 4. An announcement larger than the limit, EVERY schedule (zero-length reads and errors included):
    the call returns an error, has consumed at most the 8 header bytes, and the receive buffer still
    has its initial capacity — the announced amount is never buffered. -/
theorem recvC_too_big_any_schedule (c0 max : Nat) (hc0 : 8 ≤ c0) (hmax : 0 < max) (w : Bytes)
    (sched : List ReadEv) (hbig : max < computeNeededBytes (w.take 8)) :
    ((recvC c0 max { wire := w, sched := sched }).res = .tooBig ∨
      (recvC c0 max { wire := w, sched := sched }).res = .ioErr ∨
      (recvC c0 max { wire := w, sched := sched }).res = .eof) ∧
    w.length - (recvC c0 max { wire := w, sched := sched }).t.wire.length ≤ 8 ∧
    (recvC c0 max { wire := w, sched := sched }).cap = c0 := by
  have := recvLoop_too_big_any max hmax w hbig c0 hc0 (w.length + sched.length + 2)
    { wire := w, sched := sched } [] rfl (by decide)
  have hfuel := recvC_never_fuel c0 max { wire := w, sched := sched }
  refine ⟨?_, this.2.1, this.2.2⟩
  cases h : (recvC c0 max { wire := w, sched := sched }).res with
  | msg bs => exact absurd h (this.1 bs)
  | ioErr => exact Or.inr (Or.inl rfl)
  | eof => exact Or.inr (Or.inr rfl)
  | tooBig => exact Or.inl rfl
  | fuel => exact absurd h hfuel

/-- 4a. Progressive schedules: the error is the size rejection or the transport's own error. -/
theorem recvC_too_big (c0 max : Nat) (hc0 : 8 ≤ c0) (hmax : 0 < max) (w : Bytes)
    (sched : List ReadEv) (hp : Progressive sched) (hlen : 8 ≤ w.length)
    (hbig : max < computeNeededBytes (w.take 8)) :
    (∀ bs, (recvC c0 max { wire := w, sched := sched }).res ≠ .msg bs) ∧
    ((recvC c0 max { wire := w, sched := sched }).res = .tooBig ∨
      (recvC c0 max { wire := w, sched := sched }).res = .ioErr) ∧
    w.length - (recvC c0 max { wire := w, sched := sched }).t.wire.length ≤ 8 ∧
    (recvC c0 max { wire := w, sched := sched }).cap = c0 := by
  have := recvLoop_too_big max hmax w hlen hbig c0 hc0 (w.length + sched.length + 2) [] w sched rfl
    (by decide) (by simp only [List.length_nil]; omega) hp
  refine ⟨fun bs h => ?_, this.1, this.2.1, this.2.2.1⟩
  rcases this.1 with h' | h' <;> · unfold recvC at h; rw [h'] at h; cases h

/-- 4b. With an error-free schedule the result is `.tooBig`; when the limit is at least the header
    size exactly the 8 header bytes have been consumed. (For `max < 8` the header is rejected
    even earlier: `need = 8 > max` after the first read.) -/
theorem recvC_too_big_clean (c0 max : Nat) (hc0 : 8 ≤ c0) (hmax : 0 < max) (w : Bytes)
    (sched : List ReadEv)
    (hp : Progressive sched) (he : ∀ ev ∈ sched, ev.withErr = false) (hlen : 8 ≤ w.length)
    (hbig : max < computeNeededBytes (w.take 8)) :
    (recvC c0 max { wire := w, sched := sched }).res = .tooBig ∧
    (8 ≤ max → w.length - (recvC c0 max { wire := w, sched := sched }).t.wire.length = 8) := by
  have := recvLoop_too_big max hmax w hlen hbig c0 hc0 (w.length + sched.length + 2) [] w sched rfl
    (by decide) (by simp only [List.length_nil]; omega) hp
  exact this.2.2.2 he

/-- 5. With a limit configured the capacity requested for the receive buffer never exceeds
    `max(c0, limit)`, whatever the transport delivers. -/
theorem recvC_cap_bound (c0 max : Nat) (hc0 : 8 ≤ c0) (hmax : 0 < max) (t : Transport) :
    (recvC c0 max t).cap ≤ Nat.max c0 max := by
  have h1 : max ≤ Nat.max c0 max := Nat.le_max_right _ _
  have h2 : c0 ≤ Nat.max c0 max := Nat.le_max_left _ _
  exact recvLoop_cap_bound max _ hmax h1 _ t [] 8 c0 (by omega) h2

/-- 6. Safety under EVERY schedule (zero-length reads, errors at any point, any chunk sizes) and every
    limit: if the call returns a message it is exactly the first frame and exactly `rest` is left;
    and whatever the outcome, `rest` — the following messages — is still entirely on the wire. -/
theorem recvC_sound (c0 max : Nat) (m rest : Bytes) (sched : List ReadEv) (hm : Framed m) :
    (∀ bs, (recvC c0 max { wire := m ++ rest, sched := sched }).res = .msg bs →
      bs = m ∧ (recvC c0 max { wire := m ++ rest, sched := sched }).t.wire = rest) ∧
    ∃ pre, (recvC c0 max { wire := m ++ rest, sched := sched }).t.wire = pre ++ rest := by
  have hne : m ≠ [] := by
    intro h; have := hm.1; rw [h] at this; simp at this
  have := recvLoop_sound max m hm rest ((m ++ rest).length + sched.length + 2)
    { wire := m ++ rest, sched := sched } [] m c0 rfl hne rfl
  rw [computeNeededBytes_nil] at this
  exact this

/-- 7. What a zero-length read does (the exclusion of 1/2 made explicit): when the next scheduled read
    delivers no byte although the wire is not empty, the call ends with an error (`.eof` for
    `(0, nil)`, `.ioErr` for `(0, err)`) and nothing has been consumed. -/
theorem recvC_zero_read (c0 max : Nat) (w : Bytes) (e : Bool) (post : List ReadEv) (hw : w ≠ []) :
    (recvC c0 max { wire := w, sched := ⟨0, e⟩ :: post }).res = (if e then .ioErr else .eof) ∧
    (recvC c0 max { wire := w, sched := ⟨0, e⟩ :: post }).t.wire = w := by
  have hne : w.isEmpty = false := by
    cases w with
    | nil => exact absurd rfl hw
    | cons _ _ => rfl
  have hread : Transport.read { wire := w, sched := ⟨0, e⟩ :: post } (8 - ([] : Bytes).length)
      = ([], e, { wire := w, sched := post }) := by
    simp [Transport.read, hne]
  unfold recvC
  rw [recvLoop_step hread]
  cases e <;> simp

/-! ### the instance for today's initial capacity (`recv max = recvC 512 max`), in the form other
properties cite (C11 `never_partial_response`) -/

theorem recv_exact (max : Nat) (m rest : Bytes) (sched : List ReadEv)
    (hm : Framed m) (hmax : max = 0 ∨ m.length ≤ max) (hp : Progressive sched)
    (he : ∀ ev ∈ sched, ev.withErr = false) :
    ∃ sched', (recv max { wire := m ++ rest, sched := sched }).res = .msg m ∧
      (recv max { wire := m ++ rest, sched := sched }).t = { wire := rest, sched := sched' } ∧
      Progressive sched' ∧ (∀ ev ∈ sched', ev.withErr = false) :=
  recvC_exact 512 max m rest sched hm hmax hp he

theorem recv_truncated (max : Nat) (m : Bytes) (k : Nat) (sched : List ReadEv)
    (hm : Framed m) (hk : k < m.length) :
    ∀ bs, (recv max { wire := m.take k, sched := sched }).res ≠ .msg bs := by
  intro bs h
  have h' : (recvC 512 max { wire := m.take k, sched := sched }).res = .msg bs := h
  rcases recvC_truncated 512 max m k sched hm hk with e | e | e <;> · rw [e] at h'; cases h'

/-! ### 8. the sender side, and the stream composed with the codec

`Stream.Send(msg)` is `MarshalTTLV(msg)` followed by ONE `Write` of those bytes; the encoder model `enc`
(C01/C03: `ttlvWriter`, byte for byte) therefore gives what a sequence of `Send` calls puts on the wire:
`encList ts = (ts.map enc).flatten`. The theorems 1-7 take "`m` is one frame" (`Framed m`) as a
hypothesis; 8a discharges it for everything the encoder can write, 8b/8c state the property end to end:
"every sequence of messages WRITTEN to a TTLV stream ... the receiver returns exactly the sent messages". -/

/-- 8a. Every in-range item is written as exactly one frame of the receiver (header complete, total
    length equal to what `computeNeededBytes` announces). -/
theorem send_is_one_frame (t : Item) (h : t.InRange) : Framed (enc t) :=
  enc_framed t h

/-- 8b. Any sequence of in-range items sent over a stream, any progressive schedule in which only a
    read that completes a frame may carry an error, any trailing bytes: the receiver returns exactly
    the encodings of the items, in order, leaves exactly `rest`, and every returned frame decodes (model
    of `UnmarshalTTLV` into a `ttlv.Value`) to the item that was sent. -/
theorem stream_transports_items_data_with_err (c0 max : Nat) (ts : List Item) (rest : Bytes)
    (sched : List ReadEv)
    (hts : ∀ t ∈ ts, t.InRange ∧ (max = 0 ∨ (enc t).length ≤ max)) (hp : Progressive sched)
    (he : SeqSched ((ts.map enc).map List.length) sched) :
    ∃ sched', recvAll c0 max ts.length { wire := encList ts ++ rest, sched := sched }
        = (ts.map enc, none, { wire := rest, sched := sched' }) ∧ Progressive sched' ∧
      (ts.map enc).map unmarshalValue = ts.map Res.ok := by
  have hms : ∀ m ∈ ts.map enc, Framed m ∧ (max = 0 ∨ m.length ≤ max) := by
    intro m hm
    rcases List.mem_map.1 hm with ⟨t, ht, rfl⟩
    exact ⟨enc_framed t (hts t ht).1, (hts t ht).2⟩
  obtain ⟨sched', h1, h2⟩ := recvAll_exact_data_with_err c0 max (ts.map enc) rest sched hms hp he
  rw [List.length_map, ← encList_eq_flatten] at h1
  refine ⟨sched', h1, h2, ?_⟩
  rw [List.map_map]
  apply List.map_congr_left
  intro t ht
  have hs := size_le_length_aux t
  have hp' := specParse_enc_aux t (hts t ht).1 ((enc t).length + 1) (by omega) []
  rw [List.append_nil] at hp'
  exact unmarshalValue_of_specDecode _ _ (by simp [specDecode, hp'])

/-- 8c. In particular for every progressive error-free schedule (every way of splitting or coalescing
    the bytes into reads of at least one byte). -/
theorem stream_transports_items (c0 max : Nat) (ts : List Item) (rest : Bytes) (sched : List ReadEv)
    (hts : ∀ t ∈ ts, t.InRange ∧ (max = 0 ∨ (enc t).length ≤ max)) (hp : Progressive sched)
    (he : ∀ ev ∈ sched, ev.withErr = false) :
    ∃ sched', recvAll c0 max ts.length { wire := encList ts ++ rest, sched := sched }
        = (ts.map enc, none, { wire := rest, sched := sched' }) ∧ Progressive sched' ∧
      (ts.map enc).map unmarshalValue = ts.map Res.ok :=
  stream_transports_items_data_with_err c0 max ts rest sched hts hp (SeqSched_of_errFree _ _ he)

/-- 8d. A stream cut inside the LAST of the sent items (at any byte `k` of its encoding) never yields
    that item: the receiver reports an error for it, whatever the schedule. -/
theorem stream_cut_inside_item (max : Nat) (t : Item) (h : t.InRange) (k : Nat) (sched : List ReadEv)
    (hk : k < (enc t).length) :
    ∀ bs, (recv max { wire := (enc t).take k, sched := sched }).res ≠ .msg bs :=
  recv_truncated max (enc t) k sched (enc_framed t h) hk

/-! ### 9. any wire at all (hostile or corrupted streams) -/

/-- 9. No hypothesis on the bytes on the wire, on the schedule (zero-length reads, errors anywhere) or on
    the limit: `Recv` consumes a PREFIX of the wire, in order (`got`; nothing is skipped, reordered or
    invented); if it returns a message, the message is exactly the consumed prefix — so not one byte
    after the message has been taken from the transport —, it is one complete frame as announced by its
    own header, and it is not longer than the configured limit. (Theorems 1, 2, 6 are the instances
    for wires that consist of frames; this one also covers garbage, half frames and lying headers.) -/
theorem recvC_any_wire (c0 max : Nat) (t : Transport) :
    ∃ got, t.wire = got ++ (recvC c0 max t).t.wire ∧
      ∀ bs, (recvC c0 max t).res = .msg bs → bs = got ∧ Framed bs ∧ (max = 0 ∨ bs.length ≤ max) :=
  recvC_any c0 max t

/-- 9a. A message above the limit is never returned, whatever the peer sends. -/
theorem recvC_never_above_limit (c0 max : Nat) (hmax : 0 < max) (t : Transport) (bs : Bytes)
    (h : (recvC c0 max t).res = .msg bs) : bs.length ≤ max := by
  obtain ⟨_, _, h2⟩ := recvC_any c0 max t
  rcases (h2 bs h).2.2 with h0 | hle
  · omega
  · exact hle

/-- 9b. A whole session (`n` calls, stopping at the first failure) on ANY wire under ANY schedule: the
    messages returned, in order, followed by what the last (failing) call consumed, are a prefix of the
    wire — nothing is skipped, reordered, duplicated or invented between messages — and every returned
    message is one complete frame within the limit. -/
theorem recvAll_any_wire (c0 max n : Nat) (t : Transport) :
    ∃ got, t.wire = (recvAll c0 max n t).1.flatten ++ got ++ (recvAll c0 max n t).2.2.wire ∧
      ∀ m ∈ (recvAll c0 max n t).1, Framed m ∧ (max = 0 ∨ m.length ≤ max) :=
  recvAll_any c0 max n t

/-! ### non-vacuity -/

/-- the 16 bytes of an Integer item (tag 0x42000A, value 1). -/
def intFrame : Bytes := [0x42, 0x00, 0x0A, 0x02, 0, 0, 0, 4, 0, 0, 0, 1, 0, 0, 0, 0]

example : Framed intFrame := by unfold Framed; decide

/-- chunks of 1, 3, 100 (capped by the request), 2, 100, 7 bytes. -/
def schedClean : List ReadEv :=
  [⟨1, false⟩, ⟨3, false⟩, ⟨100, false⟩, ⟨2, false⟩, ⟨100, false⟩, ⟨7, false⟩]

/-- the same chunks, the read that completes the frame is flagged with an error. -/
def schedEof : List ReadEv :=
  [⟨1, false⟩, ⟨3, false⟩, ⟨100, false⟩, ⟨2, false⟩, ⟨100, true⟩, ⟨7, false⟩]

example : Progressive schedClean ∧ (∀ ev ∈ schedClean, ev.withErr = false) := by
  unfold Progressive schedClean; decide

example : Progressive schedEof ∧ ErrOnlyAtEnd intFrame.length 0 schedEof := by
  unfold Progressive schedEof; simp [ErrOnlyAtEnd, FrameSched, intFrame]

example : (recvC 512 0 { wire := intFrame ++ [1, 2, 3], sched := schedClean }).res = .msg intFrame := by
  decide

/-- the last read of the frame is flagged with an error: still a message, the tail is untouched. -/
example : (recvC 512 0 { wire := intFrame ++ [1, 2, 3], sched := schedEof }).res = .msg intFrame ∧
    (recvC 512 0 { wire := intFrame ++ [1, 2, 3], sched := schedEof }).t.wire = [1, 2, 3] := by
  decide

/-- two frames, each completed by a flagged read (header 8 + body 8, twice): `SeqSched` holds and
    both are received. -/
def schedTwoEof : List ReadEv := [⟨8, false⟩, ⟨8, true⟩, ⟨8, false⟩, ⟨100, true⟩]

example : Progressive schedTwoEof ∧ SeqSched [16, 16] schedTwoEof := by
  unfold Progressive schedTwoEof; simp [SeqSched, FrameSched]

example : (recvAll 512 0 2 { wire := intFrame ++ intFrame ++ [9], sched := schedTwoEof }).1
      = [intFrame, intFrame] ∧
    (recvAll 512 0 2 { wire := intFrame ++ intFrame ++ [9], sched := schedTwoEof }).2.1 = none ∧
    (recvAll 512 0 2 { wire := intFrame ++ intFrame ++ [9], sched := schedTwoEof }).2.2.wire = [9] := by
  decide

/-- an error flagged on a read that leaves the frame incomplete is reported (why 1a/1b need their
    hypothesis on flagged reads). -/
example : (recvC 512 0 { wire := intFrame, sched := [⟨8, false⟩, ⟨3, true⟩] }).res = .ioErr := by
  decide

/-- a truncated frame: the final read on the empty wire returns `(0, io.EOF)`. -/
example : (recvC 512 0 { wire := intFrame.take 12, sched := [⟨5, false⟩] }).res = .ioErr := by decide

/-- a zero-length read in the middle of a frame: `.eof`, the 5 bytes already read are lost to the
    stream but nothing of the following data was touched (6). -/
example : (recvC 512 0 { wire := intFrame ++ [7], sched := [⟨5, false⟩, ⟨0, false⟩] }).res = .eof ∧
    (recvC 512 0 { wire := intFrame ++ [7], sched := [⟨5, false⟩, ⟨0, false⟩] }).t.wire
      = intFrame.drop 5 ++ [7] := by decide

/-- an oversized announcement under a limit of 8 bytes. -/
example : (recvC 512 8 { wire := intFrame, sched := [⟨5, false⟩] }).res = .tooBig ∧
    (recvC 512 8 { wire := intFrame, sched := [⟨5, false⟩] }).t.wire.length = 8 := by decide

/-- a header announcing 0xFFFFFFFF bytes (padded: 2^32) under the server's 1 MiB limit: rejected after the
    header, buffer capacity unchanged. -/
def hugeHdr : Bytes := [0x42, 0x00, 0x01, 0x08, 0xFF, 0xFF, 0xFF, 0xFF]

example : 1048576 < computeNeededBytes (hugeHdr.take 8) := by decide

example : (recvC 512 1048576 { wire := hugeHdr ++ [1, 2, 3], sched := [⟨3, false⟩] }).res = .tooBig ∧
    (recvC 512 1048576 { wire := hugeHdr ++ [1, 2, 3], sched := [⟨3, false⟩] }).t.wire = [1, 2, 3] ∧
    (recvC 512 1048576 { wire := hugeHdr ++ [1, 2, 3], sched := [⟨3, false⟩] }).cap = 512 := by decide

/-- growth: a 16-byte frame with an initial capacity of 8 requests capacity 16. -/
example : (recvC 8 0 { wire := intFrame, sched := [] }).cap = 16 := by decide

/-- 8b/8c are not vacuous: an Integer and a Text String item (3 bytes, so padded) meet the hypotheses
    without a limit, and the second one is really sent in 16 bytes. -/
example : ∀ t ∈ [Item.int 0x42000A 1, Item.text 0x420003 [0x61, 0x62, 0x63]],
    t.InRange ∧ ((0 : Nat) = 0 ∨ (enc t).length ≤ 0) := by
  intro t ht
  simp only [List.mem_cons, List.mem_nil_iff, or_false] at ht
  rcases ht with rfl | rfl <;> refine ⟨?_, Or.inl rfl⟩ <;> simp [Item.InRange, inInt]

example : (enc (Item.text 0x420003 [0x61, 0x62, 0x63])).length = 16 := by decide

end Kmip.C07
