/-
  Driver handler: `mw.run`, `mw.spec`, `mw.old` — middleware chains (C19).

  Request line:
      mw.run <kind> <chain> <core> [<m0>,<c0>[,<op0>]]

    kind   := client | srvmsg | srvitem
    chain  := "-"                         (no middleware)
            | stage ("/" stage)*          (registration order; stage ids are 1, 2, … by position)
    stage  := "_"                         (empty program: returns (nil, nil) without calling next)
            | act ("." act)*
    act    := "c"                         resp, err = next(ctx, msg)
            | "f"                         if failed(resp, err) { resp, err = next(ctx, msg) }
            | "m" tr                      msg = new message with token tr(token), same operation
            | "o" nat                     msg = new message, same token, requesting operation nat
                                          (server: 1 -> handler 1, 2 -> handler 2, others: no handler)
            | "x" tr                      ctx = WithValue(ctx, tr(value))
            | "r" ret                     return ret
            | "rf" ret                    if failed(resp, err) { return ret }
            | "ro" ret                    if !failed(resp, err) { return ret }
    tr     := "t" nat                     v ↦ 10·v + nat
            | "k" nat                     v ↦ nat
    ret    := "l"                         resp, err            (the latest result of next)
            | "e"                         nil, err
            | "s"                         resp, nil
            | "F" ropt "," opt            fixed (resp, err);  opt := nat | "n" (nil)
                                          ropt := "n" | nat | nat "@" nat   (token @ echoed operation, default 1)
    core   := outs ":" out ":" rej
    outs   := "-" | out ("," out)*        outcome of the 1st, 2nd, … invocation of the handler
    out    := "o" nat | "e" nat           ok value / error code; the middle field is the default
    rej    := "-" | nat ("," nat)*        messages the handler always refuses (error code 9)
    m0,c0,op0 := initial message token, context token, operation of the request (default 1,1,1)

  Answer line:
      ok <resp>/<err> <events>
    resp := "n" | tok "@" op (response token and the operation it echoes);  err := nat | "n"
    m    := tok "@" op       (message token and the operation it requests)
    events := "-" | event ("," event)*
    event  := "E" id ":" m ":" c          stage id entered with message m, context c
            | "C" id ":" m ":" c          stage id calls next with m, c
            | "B" id ":" resp "/" err     that call returned
            | "X" id ":" resp "/" err     stage id returns
            | "K" n ":" hd ":" m ":" c ":" h ":" out
                                          n-th handler invocation: handler hd ran (0 = client transport),
                                          m = token and payload type it was given, h = header its context reports

  Further commands:
      mw.run … <m0>,<c0>,<op0>,<hm>          hm := 0 (HdrMode.entry: the code before 4b5c841) | 1 (HdrMode.core:
                                             the code at HEAD, and what `runImpl` is — used when <hm> is
                                             absent): where the server makes the batch context the handlers
                                             see (probed by the engine on every run)
      mw.hdrmode go                          → ok <hm> : the mode `runImpl` (model of the code at HEAD) has; the
                                             harness answers with what it probed on the real code
      mw.both <mchain> <ichain> <core> <m0>,<c0>,<op0>,<hm>
                                             message chain (stage ids 1, 2, …) AND item chain (stage ids
                                             101, 102, …) installed; answer as mw.run
      mw.items <chain> <core> <c0>,<h0> <tok>@<op>{;<tok>@<op>}
                                             one batch of several items through the item chain
                                             → ok <resp>/<err>{;<resp>/<err>} <events>
      mw.conc <kind> <chain> <core> <m0>,<c0>,<op0> <e0>{,<ei>}
                                             `runImplP` under interference: the shared cell holds e(n mod len)
                                             after the n-th event; answer as mw.run

  `mw.run` answers with `runImpl` (the model of the current code), `mw.spec` with `runSpec`,
  `mw.old` with `runOld` (the pre-fix code; used to demonstrate detection on an old worktree).
  Examples:  retry×3 then tag:  `mw.run client c.f.f/mt2.c e1,e2:o5:- 1,1`
             short-circuit:      `mw.run srvitem c/rFn,5/c -:o5:-`
             operation rewrite:  `mw.run srvitem mt1.o2.c -:o5:- 7,9,3`   (unrouted 3 rewritten to 2)
-/
import Driver.Common
import KmipModel.Model.Middleware
open Kmip.Mw

namespace Driver.Mw

private def natOfChars (cs : List Char) : Option Nat :=
  if cs.isEmpty then none else (String.ofList cs).toNat?

private def parseTr : List Char → Option Tr
  | 't' :: cs => (natOfChars cs).map .tag
  | 'k' :: cs => (natOfChars cs).map .const
  | _ => none

private def parseOpt (s : String) : Option (Option Nat) :=
  if s = "n" then some none else s.toNat?.map some

private def parseROpt (s : String) : Option (Option Resp) :=
  if s = "n" then some none else
  match s.splitOn "@" with
  | [t] => t.toNat?.map fun v => some ⟨v, 1⟩
  | [t, o] => do
    let v ← t.toNat?
    let op ← o.toNat?
    pure (some ⟨v, op⟩)
  | _ => none

private def parseRet : List Char → Option Ret
  | ['l'] => some .last
  | ['e'] => some .errOnly
  | ['s'] => some .respOnly
  | 'F' :: cs =>
    match (String.ofList cs).splitOn "," with
    | [a, b] => do
      let ra ← parseROpt a
      let rb ← parseOpt b
      pure (.fixed ⟨ra, rb⟩)
    | _ => none
  | _ => none

private def parseAct (s : String) : Option Act :=
  match s.toList with
  | ['c'] => some .call
  | ['f'] => some .callIfFail
  | 'm' :: cs => (parseTr cs).map .setMsg
  | 'o' :: cs => (natOfChars cs).map .setOp
  | 'x' :: cs => (parseTr cs).map .setCtx
  | 'r' :: 'f' :: cs => (parseRet cs).map .retIfFail
  | 'r' :: 'o' :: cs => (parseRet cs).map .retIfOk
  | 'r' :: cs => (parseRet cs).map .ret
  | _ => none

private def parseStage (id : Nat) (s : String) : Option Stage :=
  if s = "_" then some ⟨id, []⟩
  else ((s.splitOn ".").mapM parseAct).map fun b => ⟨id, b⟩

private def parseStages : Nat → List String → Option (List Stage)
  | _, [] => some []
  | id, s :: ss => do
    let st ← parseStage id s
    let rest ← parseStages (id + 1) ss
    pure (st :: rest)

def parseChainFrom (first : Nat) (s : String) : Option (List Stage) :=
  if s = "-" then some [] else parseStages first (s.splitOn "/")

def parseChain (s : String) : Option (List Stage) := parseChainFrom 1 s

private def parseOut (s : String) : Option Out :=
  match s.toList with
  | 'o' :: cs => (natOfChars cs).map .ok
  | 'e' :: cs => (natOfChars cs).map .err
  | _ => none

def parseCore (s : String) : Option Core :=
  match s.splitOn ":" with
  | [outs, d, rej] => do
    let os ← if outs = "-" then some [] else (outs.splitOn ",").mapM parseOut
    let dflt ← parseOut d
    let rs ← if rej = "-" then some [] else (rej.splitOn ",").mapM (·.toNat?)
    pure ⟨os, dflt, rs⟩
  | _ => none

def parseKind : String → Option Kind
  | "client" => some .client
  | "srvmsg" => some .srvmsg
  | "srvitem" => some .srvitem
  | _ => none

private def rOpt : Option Nat → String
  | none => "n"
  | some v => toString v

def renderMsg (m : Msg) : String := toString m.tok ++ "@" ++ toString m.op

def renderResp : Option Resp → String
  | none => "n"
  | some t => toString t.tok ++ "@" ++ toString t.op

def renderR (r : R) : String := renderResp r.resp ++ "/" ++ rOpt r.err

def renderOut : Out → String
  | .ok v => "o" ++ toString v
  | .err e => "e" ++ toString e

def renderEvent : Event → String
  | .enter id m c => "E" ++ toString id ++ ":" ++ renderMsg m ++ ":" ++ toString c
  | .call id m c => "C" ++ toString id ++ ":" ++ renderMsg m ++ ":" ++ toString c
  | .back id r => "B" ++ toString id ++ ":" ++ renderR r
  | .exit id r => "X" ++ toString id ++ ":" ++ renderR r
  | .core n hd m c h o =>
    "K" ++ toString n ++ ":" ++ toString hd ++ ":" ++ renderMsg m ++ ":" ++ toString c ++ ":" ++
      toString h ++ ":" ++ renderOut o

def renderRun (x : Run) : String :=
  "ok " ++ renderR x.1 ++ " " ++
    (if x.2.isEmpty then "-" else ",".intercalate (x.2.map renderEvent))

private def runWith (f : Kind → List Stage → Core → Msg → Nat → Run) (arg : String) : String :=
  let parts := arg.splitOn " "
  let go (k ch co : String) (m0 c0 op0 : Nat) : String :=
    match parseKind k, parseChain ch, parseCore co with
    | some k, some chain, some core => renderRun (f k chain core ⟨m0, op0⟩ c0)
    | _, _, _ => "bad-op"
  match parts with
  | [k, ch, co] => go k ch co 1 1 1
  | [k, ch, co, ini] =>
    match (ini.splitOn ",").mapM (·.toNat?) with
    | some [m0, c0] => go k ch co m0 c0 1
    | some [m0, c0, op0] => go k ch co m0 c0 op0
    | _ => "bad-op"
  | _ => "bad-op"

def run (f : Kind → List Stage → Core → Msg → Nat → Run) (arg : String) : String := runWith f arg

def parseHm : Nat → Option HdrMode
  | 0 => some .entry
  | 1 => some .core
  | _ => none

/-- `mw.run` with the optional header mode. -/
def runH (arg : String) : String :=
  match arg.splitOn " " with
  | [k, ch, co, ini] =>
    match (ini.splitOn ",").mapM (·.toNat?) with
    | some [m0, c0, op0, hm] =>
      match parseKind k, parseChain ch, parseCore co, parseHm hm with
      | some k, some chain, some core, some hm => renderRun (runImplH hm k chain core ⟨m0, op0⟩ c0)
      | _, _, _, _ => "bad-op"
    | _ => runWith runImpl arg
  | _ => runWith runImpl arg

def runBothCmd (arg : String) : String :=
  match arg.splitOn " " with
  | [mch, ich, co, ini] =>
    match (ini.splitOn ",").mapM (·.toNat?) with
    | some [m0, c0, op0, hm] =>
      match parseChain mch, parseChainFrom 101 ich, parseCore co, parseHm hm with
      | some mchain, some ichain, some core, some hm =>
        renderRun (runBoth hm mchain ichain core ⟨m0, op0⟩ c0)
      | _, _, _, _ => "bad-op"
    | _ => "bad-op"
  | _ => "bad-op"

private def parseMsg (s : String) : Option Msg :=
  match s.splitOn "@" with
  | [t, o] => do pure ⟨← t.toNat?, ← o.toNat?⟩
  | _ => none

def runItemsCmd (arg : String) : String :=
  match arg.splitOn " " with
  | [ch, co, ini, items] =>
    match (ini.splitOn ",").mapM (·.toNat?), parseChain ch, parseCore co,
        (items.splitOn ";").mapM parseMsg with
    | some [c0, h0], some chain, some core, some items =>
      let x := runBatchItems chain core h0 c0 items
      "ok " ++ (if x.1.isEmpty then "-" else ";".intercalate (x.1.map renderR)) ++ " " ++
        (if x.2.isEmpty then "-" else ",".intercalate (x.2.map renderEvent))
    | _, _, _, _ => "bad-op"
  | _ => "bad-op"

def runConcCmd (arg : String) : String :=
  match arg.splitOn " " with
  | [k, ch, co, ini, envs] =>
    match (ini.splitOn ",").mapM (·.toNat?), (envs.splitOn ",").mapM (·.toNat?),
        parseKind k, parseChain ch, parseCore co with
    | some [m0, c0, op0], some es, some k, some chain, some core =>
      let env : Nat → Nat := fun n => es.getD (n % (max es.length 1)) 0
      renderRun (runImplP env k chain core ⟨m0, op0⟩ c0)
    | _, _, _, _, _ => "bad-op"
  | _ => "bad-op"

end Driver.Mw

namespace Driver

/-- `none` = command not handled here. -/
def handleMiddleware (cmd arg : String) : Option String :=
  match cmd with
  | "mw.run" => some (Mw.runH arg)
  | "mw.both" => some (Mw.runBothCmd arg)
  | "mw.items" => some (Mw.runItemsCmd arg)
  | "mw.conc" => some (Mw.runConcCmd arg)
  | "mw.spec" => some (Mw.run runSpec arg)
  | "mw.old" => some (Mw.run runOld arg)
  | "mw.hdrmode" =>
    -- `hdrOf` (the header function of `runImpl`) on a message other than the original one
    some ("ok " ++ (if hdrOf .srvmsg ⟨7, 1⟩ ⟨71, 1⟩ = 71 then "1" else "0"))
  | _ => none

end Driver
