/-
  Line-protocol syntax for generic TTLV trees (shared by the driver and the Go harness):
    (S tag child…) (I tag v) (L tag v) (B tag v) (E tag v) (O tag 0|1) (T tag hex) (Y tag hex) (D tag secs) (V tag secs)
  numbers in decimal, byte strings in hex (`-` for empty).
-/
import KmipModel.Model.Reader
namespace Kmip

mutual
  partial def Item.render : Item → String
    | .struct t cs => "(S " ++ toString t ++ Item.renderList cs ++ ")"
    | .int t v => "(I " ++ toString t ++ " " ++ toString v ++ ")"
    | .long t v => "(L " ++ toString t ++ " " ++ toString v ++ ")"
    | .big t v => "(B " ++ toString t ++ " " ++ toString v ++ ")"
    | .enum t v => "(E " ++ toString t ++ " " ++ toString v ++ ")"
    | .bool t b => "(O " ++ toString t ++ " " ++ (if b then "1" else "0") ++ ")"
    | .text t s => "(T " ++ toString t ++ " " ++ (if s.isEmpty then "-" else hexOfBytes s) ++ ")"
    | .bytes t s => "(Y " ++ toString t ++ " " ++ (if s.isEmpty then "-" else hexOfBytes s) ++ ")"
    | .date t v => "(D " ++ toString t ++ " " ++ toString v ++ ")"
    | .interval t v => "(V " ++ toString t ++ " " ++ toString v ++ ")"
  partial def Item.renderList : List Item → String
    | [] => ""
    | x :: xs => " " ++ x.render ++ Item.renderList xs
end

/-- tokens: `(`, `)`, and maximal runs of other non-space characters. -/
def tokenize (s : String) : List String :=
  let rec go (cs : List Char) (cur : List Char) (acc : List String) : List String :=
    -- a thunk: compiled code evaluates a plain `let` eagerly, i.e. once per character (quadratic)
    let flush := fun (_ : Unit) => if cur.isEmpty then acc else String.ofList cur.reverse :: acc
    match cs with
    | [] => (flush ()).reverse
    | c :: rest =>
      if c = '(' ∨ c = ')' then go rest [] (String.singleton c :: flush ())
      else if c = ' ' ∨ c = '\n' ∨ c = '\r' ∨ c = '\t' then go rest [] (flush ())
      else go rest (c :: cur) acc
  go s.toList [] []

mutual
  partial def parseItem : List String → Option (Item × List String)
    | "(" :: k :: t :: rest => do
      let tag ← t.toNat?
      match k with
      | "S" => do
        let (cs, rest') ← parseItems rest
        pure (.struct tag cs, rest')
      | _ =>
        match rest with
        | v :: ")" :: rest' =>
          match k with
          | "I" => do pure (.int tag (← v.toInt?), rest')
          | "L" => do pure (.long tag (← v.toInt?), rest')
          | "B" => do pure (.big tag (← v.toInt?), rest')
          | "E" => do pure (.enum tag (← v.toNat?), rest')
          | "O" => if v = "1" then some (.bool tag true, rest') else if v = "0" then some (.bool tag false, rest') else none
          | "T" => do pure (.text tag (← bytesOfHex v), rest')
          | "Y" => do pure (.bytes tag (← bytesOfHex v), rest')
          | "D" => do pure (.date tag (← v.toInt?), rest')
          | "V" => do pure (.interval tag (← v.toNat?), rest')
          | _ => none
        | _ => none
    | _ => none
  /-- children up to and including the closing paren. -/
  partial def parseItems : List String → Option (List Item × List String)
    | ")" :: rest => some ([], rest)
    | toks => do
      let (it, rest) ← parseItem toks
      let (its, rest') ← parseItems rest
      pure (it :: its, rest')
end

def parseTree (s : String) : Option Item :=
  match parseItem (tokenize s) with
  | some (it, []) => some it
  | _ => none

end Kmip
