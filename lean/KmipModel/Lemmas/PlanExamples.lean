/-
  C01 — executable conformance checks that also cover values holding big integers.

  `Item.inRangeB` (PlanRoundtrip16) rejects big integers, because `encodeBig` goes through the
  well-founded `natToBytesBE`, which the kernel does not evaluate.  Here the lengths of the big integers
  of an example are supplied as a table (`BigLens`) whose entries are proved separately (by `simp`, a few
  bytes each), and everything else is evaluated.
-/
import KmipModel.Lemmas.PlanFuel
namespace Kmip

/-- claimed encoded lengths (value bytes, without the 8-byte header) of the big integers of an example. -/
abbrev BigLens := List (Int × Nat)

def BigLens.Sound (bl : BigLens) : Prop := ∀ p ∈ bl, (encodeBig p.1).length = p.2

def BigLens.get (bl : BigLens) (v : Int) : Option Nat :=
  match bl.find? (fun p => p.1 == v) with
  | some p => some p.2
  | none => none

theorem BigLens.get_sound {bl : BigLens} (h : bl.Sound) {v : Int} {l : Nat} (hg : bl.get v = some l) :
    (encodeBig v).length = l := by
  unfold BigLens.get at hg
  cases hf : bl.find? (fun p => p.1 == v) with
  | none => rw [hf] at hg; contradiction
  | some p =>
    rw [hf] at hg
    have hm := List.mem_of_find?_eq_some hf
    have hp := List.find?_some hf
    simp only [beq_iff_eq] at hp
    have := h p hm
    rw [hp] at this
    rw [this]; exact Option.some.inj hg

mutual
  /-- length of `enc t`, with the big-integer lengths read from the table (`none`: not in the table). -/
  def Item.lenW (bl : BigLens) : Item → Option Nat
    | .struct _ cs => (Item.lenListW bl cs).map (8 + ·)
    | .int _ _ | .enum _ _ | .interval _ _ | .long _ _ | .bool _ _ | .date _ _ => some 16
    | .big _ v => (bl.get v).map (8 + ·)
    | .text _ s | .bytes _ s => some (8 + s.length + padForLen s.length 8)
  def Item.lenListW (bl : BigLens) : List Item → Option Nat
    | [] => some 0
    | x :: xs =>
      match Item.lenW bl x, Item.lenListW bl xs with
      | some a, some b => some (a + b)
      | _, _ => none
end

mutual
  theorem Item.lenW_sound (bl : BigLens) (h : bl.Sound) : (t : Item) → (l : Nat) →
      Item.lenW bl t = some l → (enc t).length = l
    | .struct tag cs, l, hl => by
      simp only [Item.lenW] at hl
      cases hc : Item.lenListW bl cs with
      | none => rw [hc] at hl; contradiction
      | some m =>
        rw [hc] at hl
        have := Item.lenListW_sound bl h cs m hc
        simp only [Option.map_some, Option.some.injEq] at hl
        simp only [enc, List.length_append, hdr_length, this]; exact hl
    | .int tag v, l, hl => by simp only [Item.lenW, Option.some.injEq] at hl; subst hl; simp [enc, hdr_length]
    | .enum tag v, l, hl => by simp only [Item.lenW, Option.some.injEq] at hl; subst hl; simp [enc, hdr_length]
    | .interval tag v, l, hl => by simp only [Item.lenW, Option.some.injEq] at hl; subst hl; simp [enc, hdr_length]
    | .long tag v, l, hl => by simp only [Item.lenW, Option.some.injEq] at hl; subst hl; simp [enc, hdr_length]
    | .bool tag v, l, hl => by simp only [Item.lenW, Option.some.injEq] at hl; subst hl; simp [enc, hdr_length]
    | .date tag v, l, hl => by simp only [Item.lenW, Option.some.injEq] at hl; subst hl; simp [enc, hdr_length]
    | .big tag v, l, hl => by
      simp only [Item.lenW] at hl
      cases hg : bl.get v with
      | none => rw [hg] at hl; contradiction
      | some m =>
        rw [hg] at hl
        simp only [Option.map_some, Option.some.injEq] at hl
        simp only [enc, List.length_append, hdr_length, BigLens.get_sound h hg]; exact hl
    | .text tag s, l, hl => by
      simp only [Item.lenW, Option.some.injEq] at hl; subst hl
      simp [enc, hdr_length]; omega
    | .bytes tag s, l, hl => by
      simp only [Item.lenW, Option.some.injEq] at hl; subst hl
      simp [enc, hdr_length]; omega
  theorem Item.lenListW_sound (bl : BigLens) (h : bl.Sound) : (ts : List Item) → (l : Nat) →
      Item.lenListW bl ts = some l → (encList ts).length = l
    | [], l, hl => by simp only [Item.lenListW, Option.some.injEq] at hl; subst hl; rfl
    | x :: xs, l, hl => by
      simp only [Item.lenListW] at hl
      cases ha : Item.lenW bl x with
      | none => rw [ha] at hl; contradiction
      | some a =>
        cases hb : Item.lenListW bl xs with
        | none => rw [ha, hb] at hl; contradiction
        | some b =>
          rw [ha, hb] at hl
          simp only [Option.some.injEq] at hl
          simp only [encList, List.length_append, Item.lenW_sound bl h x a ha,
            Item.lenListW_sound bl h xs b hb]
          exact hl
end

def optLt (o : Option Nat) (b : Nat) : Bool :=
  match o with
  | some l => decide (l < b)
  | none => false

mutual
  /-- `Item.InRange`, executable, big integers through the table. -/
  def Item.inRangeW (bl : BigLens) : Item → Bool
    | .struct tag cs => decide (0 < tag) && decide (tag < 2 ^ 24) && optLt (Item.lenListW bl cs) (2 ^ 32)
        && Item.allInRangeW bl cs
    | .int tag v => decide (0 < tag) && decide (tag < 2 ^ 24) && decide (inInt 32 v)
    | .long tag v => decide (0 < tag) && decide (tag < 2 ^ 24) && decide (inInt 64 v)
    | .big tag v => decide (0 < tag) && decide (tag < 2 ^ 24) && optLt (bl.get v) (2 ^ 32)
    | .enum tag v => decide (0 < tag) && decide (tag < 2 ^ 24) && decide (v < 2 ^ 32)
    | .bool tag _ => decide (0 < tag) && decide (tag < 2 ^ 24)
    | .text tag s => decide (0 < tag) && decide (tag < 2 ^ 24) && decide (s.length < 2 ^ 32)
    | .bytes tag s => decide (0 < tag) && decide (tag < 2 ^ 24) && decide (s.length < 2 ^ 32)
    | .date tag v => decide (0 < tag) && decide (tag < 2 ^ 24) && decide (inInt 64 v)
    | .interval tag v => decide (0 < tag) && decide (tag < 2 ^ 24) && decide (v < 2 ^ 32)
  def Item.allInRangeW (bl : BigLens) : List Item → Bool
    | [] => true
    | x :: xs => Item.inRangeW bl x && Item.allInRangeW bl xs
end

theorem optLt_inv {o : Option Nat} {b : Nat} (h : optLt o b = true) : ∃ l, o = some l ∧ l < b := by
  cases o with
  | none => simp [optLt] at h
  | some l => exact ⟨l, rfl, by simpa [optLt] using h⟩

mutual
  theorem Item.inRangeW_sound (bl : BigLens) (hb : bl.Sound) : (t : Item) → t.inRangeW bl = true → t.InRange
    | .struct tag cs, h => by
      simp only [Item.inRangeW, Bool.and_eq_true, decide_eq_true_eq] at h
      obtain ⟨l, hl, hlt⟩ := optLt_inv h.1.2
      rw [Item.InRange]
      exact ⟨h.1.1.1, h.1.1.2, by rw [Item.lenListW_sound bl hb cs l hl]; exact hlt,
        Item.allInRangeW_sound bl hb cs h.2⟩
    | .int tag v, h => by
      simp only [Item.inRangeW, Bool.and_eq_true, decide_eq_true_eq] at h
      rw [Item.InRange]; exact ⟨h.1.1, h.1.2, h.2⟩
    | .long tag v, h => by
      simp only [Item.inRangeW, Bool.and_eq_true, decide_eq_true_eq] at h
      rw [Item.InRange]; exact ⟨h.1.1, h.1.2, h.2⟩
    | .big tag v, h => by
      simp only [Item.inRangeW, Bool.and_eq_true, decide_eq_true_eq] at h
      obtain ⟨l, hl, hlt⟩ := optLt_inv h.2
      rw [Item.InRange]
      exact ⟨h.1.1, h.1.2, by rw [BigLens.get_sound hb hl]; exact hlt⟩
    | .enum tag v, h => by
      simp only [Item.inRangeW, Bool.and_eq_true, decide_eq_true_eq] at h
      rw [Item.InRange]; exact ⟨h.1.1, h.1.2, h.2⟩
    | .bool tag b, h => by
      simp only [Item.inRangeW, Bool.and_eq_true, decide_eq_true_eq] at h
      rw [Item.InRange]; exact ⟨h.1, h.2⟩
    | .text tag s, h => by
      simp only [Item.inRangeW, Bool.and_eq_true, decide_eq_true_eq] at h
      rw [Item.InRange]; exact ⟨h.1.1, h.1.2, h.2⟩
    | .bytes tag s, h => by
      simp only [Item.inRangeW, Bool.and_eq_true, decide_eq_true_eq] at h
      rw [Item.InRange]; exact ⟨h.1.1, h.1.2, h.2⟩
    | .date tag v, h => by
      simp only [Item.inRangeW, Bool.and_eq_true, decide_eq_true_eq] at h
      rw [Item.InRange]; exact ⟨h.1.1, h.1.2, h.2⟩
    | .interval tag v, h => by
      simp only [Item.inRangeW, Bool.and_eq_true, decide_eq_true_eq] at h
      rw [Item.InRange]; exact ⟨h.1.1, h.1.2, h.2⟩
  theorem Item.allInRangeW_sound (bl : BigLens) (hb : bl.Sound) : (ts : List Item) →
      Item.allInRangeW bl ts = true → Item.AllInRange ts
    | [], _ => by rw [Item.AllInRange]; trivial
    | x :: xs, h => by
      simp only [Item.allInRangeW, Bool.and_eq_true] at h
      rw [Item.AllInRange]
      exact ⟨Item.inRangeW_sound bl hb x h.1, Item.allInRangeW_sound bl hb xs h.2⟩
end

/-- executable form of the `inRange` clause of `ConformsAt`, big integers through the table. -/
def encOkW (bl : BigLens) (S : Schema) (n d tag : Nat) (v : Val) : Bool :=
  match encK S n (S.dyn d).kind (topTag S d tag) v none with
  | .ok (items, _) => Item.allInRangeW bl items
  | _ => false

/-- `ConformsAt` from two executable checks and the table of big-integer lengths. -/
theorem conformsAt_of_checks (bl : BigLens) (hb : bl.Sound) (S : Schema) (n d tag : Nat) (v : Val)
    (h1 : (normTopAt S n d tag v).isSome = true) (h2 : encOkW bl S n d tag v = true) :
    ConformsAt S n d tag v := by
  unfold encOkW at h2
  split at h2
  · rename_i items w heq
    refine ⟨h1, ?_⟩
    intro items' ver' he
    rw [heq] at he
    simp only [Res.ok.injEq, Prod.mk.injEq] at he
    rw [← he.1]; exact Item.allInRangeW_sound bl hb items h2
  · contradiction

theorem conforms_of_checksW (bl : BigLens) (hb : bl.Sound) (S : Schema) (d tag : Nat) (v : Val)
    (h1 : (normTop S d tag v).isSome = true) (h2 : encOkW bl S marshalFuel d tag v = true) :
    Conforms S d tag v :=
  (conforms_iff_conformsAt S d tag v).2 (conformsAt_of_checks bl hb S marshalFuel d tag v h1 h2)

end Kmip
