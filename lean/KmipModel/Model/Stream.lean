/-
  Framing — model of `ttlv.Stream.Recv` (ttlv/io.go).

  The transport is adversarial: it decides how many bytes each `Read` returns (at least one, at most
  what was requested and what is left), whether the last bytes come together with `io.EOF`, and may
  issue zero-length reads or fail.
-/
import KmipModel.Model.Reader
namespace Kmip

/-- `computeNeededBytes(buf)`: 8 while the header is incomplete, then `8 + paddedLen`. -/
def computeNeededBytes (buf : Bytes) : Nat :=
  if buf.length < 8 then 8 else 8 + paddedLen (beVal ((buf.drop 4).take 4))

/-- one scheduled `Read`: deliver at most `k` bytes; `withErr`: an error (e.g. `io.EOF`) is returned
    together with the data; `k = 0` models a read that returns no data. -/
structure ReadEv where
  k : Nat
  withErr : Bool
  deriving Repr, Inhabited

/-- The transport: bytes still to be delivered, and the schedule of the next reads. When the schedule
    is exhausted, reads deliver everything requested. A read on an empty wire returns `(0, io.EOF)`. -/
structure Transport where
  wire  : Bytes
  sched : List ReadEv
  deriving Repr, Inhabited

/-- result of one `Read(p)` with `len(p) = req`: the bytes delivered and whether `err != nil`. -/
def Transport.read (t : Transport) (req : Nat) : Bytes × Bool × Transport :=
  match t.sched with
  | [] =>
    if t.wire.isEmpty then ([], true, t)
    else (t.wire.take req, false, { t with wire := t.wire.drop req })
  | ev :: rest =>
    if t.wire.isEmpty then ([], true, { t with sched := rest })
    else
      let n := min ev.k req
      (t.wire.take n, ev.withErr, { wire := t.wire.drop n, sched := rest })

inductive RecvRes where
  | msg (bs : Bytes)        -- `UnmarshalTTLV(buf[:need], msg)` is called on exactly these bytes
  | ioErr                   -- the transport's error is returned
  | eof                     -- `io.EOF` / `io.ErrUnexpectedEOF` from the `n == 0` branch
  | tooBig                  -- "Message is too big"
  | fuel                    -- model artefact: the loop ran out of fuel (`recv_never_fuel`: never happens)
  deriving Repr, DecidableEq, Inhabited

structure RecvOut where
  res : RecvRes
  t   : Transport          -- transport after the call (what the next `Recv` will see)
  cap : Nat                -- capacity REQUESTED for the receive buffer when the call returned: the initial
                           -- capacity, or the `need` handed to `slices.Grow`. Go's `Grow` may round the real
                           -- capacity up (amortised growth, size classes); the harness observes the real
                           -- capacity at every `Read` and checks `cap ≤ real ≤ 2·cap + 8192`.
  deriving Repr, Inhabited

/-- the `for` loop of `Recv`. `buf` is `buf[:read]`; `cap` its capacity. Data returned by a `Read` is
    accounted for before its error is considered (io.Reader contract). -/
def recvLoop (max : Nat) : Nat → Transport → Bytes → Nat → Nat → RecvOut
  | 0, t, _, _, cap => { res := .fuel, t := t, cap := cap }
  | fuel + 1, t, buf, need, cap =>
    let cap := if need > cap then need else cap        -- slices.Grow(buf, need-cap(buf))
    let (bs, err, t') := t.read (need - buf.length)
    if bs.isEmpty then
      if err then { res := .ioErr, t := t', cap := cap }
      else { res := .eof, t := t', cap := cap }
    else
      let buf := buf ++ bs
      let need := computeNeededBytes buf
      if max > 0 ∧ need > max then { res := .tooBig, t := t', cap := cap }
      else if buf.length ≥ need then { res := .msg (buf.take need), t := t', cap := cap }
      else if err then { res := .ioErr, t := t', cap := cap }
      else recvLoop max fuel t' buf need cap

/-- `Stream.Recv`. `c0` is the capacity of the buffer every call starts with (`make([]byte, 512)` today;
    the harness reads it off the first `Read` of every call and passes it on the protocol line, the
    theorems hold for every value). `max` is `Stream.max` when it is positive and `0` ("no limit") when
    it is zero or negative — the code tests `s.max > 0`; the client passes `-1`. -/
def recvC (c0 max : Nat) (t : Transport) : RecvOut :=
  recvLoop max (t.wire.length + t.sched.length + 2) t [] 8 c0

/-- `Stream.Recv` with today's initial capacity (`make([]byte, 512)`). -/
def recv (max : Nat) (t : Transport) : RecvOut := recvC 512 max t

/-- receive `n` messages in sequence; stops at the first failure (`some r`), `none` = all `n` received. -/
def recvAll (c0 max : Nat) : Nat → Transport → List Bytes × Option RecvRes × Transport
  | 0, t => ([], none, t)
  | n + 1, t =>
    let o := recvC c0 max t
    match o.res with
    | .msg bs =>
      let (ms, r, t') := recvAll c0 max n o.t
      (bs :: ms, r, t')
    | r => ([], some r, o.t)

/-- A byte string is one complete TTLV frame: header plus exactly the announced padded length. -/
def Framed (m : Bytes) : Prop := 8 ≤ m.length ∧ m.length = computeNeededBytes m

/-- schedules that make progress: every scheduled read delivers at least one byte. -/
def Progressive (s : List ReadEv) : Prop := ∀ ev ∈ s, 1 ≤ ev.k

end Kmip
