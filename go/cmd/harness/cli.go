package main

// Engine `lts.cli` — properties C10 (a call only receives the response to its own request) and C11 (the
// client survives connection faults at every point of an exchange).
//
// Real code: kmipclient.Client over an in-memory fault-injecting transport (cli_net.go): the dialer
// given to kmipclient.WithDialerUnsafe returns a wrapper around one end of a net.Pipe() that can fail
// the k-th Read / Write of the n-th connection (io.EOF, net.ErrClosed, ECONNRESET, short write,
// partial message, server closes right after replying) or the n-th dial; the other end is served by
// a scripted server that ECHOES the identifier of each request (Activate(id) -> id), after a scripted
// delay, or stays silent / closes. The verif yield points of kmipclient are driven by a director
// (cancel a caller's context, call Close(), hold a goroutine exactly there).
//
// Oracles (no model involved): every call returns, within a time limit, an error or the response
// carrying ITS OWN identifier; a connection that carried an abandoned exchange carries no later
// exchange; no panic (scenarios run in a child process: a panic in one of the client's own goroutines
// kills the process); a call during which nothing fails, on an open client whose earlier faults have
// been processed, succeeds; at most 4 transmissions per call; after Close calls fail without dialing;
// after Close the client's goroutines are gone.
//
// Correspondence: `lts.member cliconn current <spec> <scenario> <outcome>`; the model explores every
// interleaving of Kmip.CliConn under the scenario script and answers whether the observed outcome is
// possible (`ok in`).

import (
	"bufio"
	"context"
	"encoding/json"
	"errors"
	"fmt"
	"io"
	"os"
	"os/exec"
	"runtime"
	"strconv"
	"strings"
	"sync"
	"sync/atomic"
	"time"

	"github.com/ovh/kmip-go"
	"github.com/ovh/kmip-go/kmipclient"

	"verifharness/internal/report"
	"verifharness/internal/rng"
)

// ---------------------------------------------------------------------------------------------
// scenario specification (one token, no spaces): fam:n:pt:srv:faults:next:seed

type lcSpec struct {
	fam    string // c10 | flt | neg | cls | rty
	n      int    // c10: callers ; rty: number of connections the server drops ; cls: 0 sync / 1 async Close
	pt     string // yield point (short name) or "-"
	srv    string // c10: when the victim's request is answered: early | late | never
	faults []*lcFault
	next   string // flt: call | calls3 | close | cclose
	seed   int    // > 0: random perturbation at the yield points
}

func (s *lcSpec) String() string {
	fs := "-"
	if len(s.faults) > 0 {
		parts := []string{}
		for _, f := range s.faults {
			parts = append(parts, f.String())
		}
		fs = strings.Join(parts, "+")
	}
	return fmt.Sprintf("%s:%d:%s:%s:%s:%s:%d", s.fam, s.n, s.pt, s.srv, fs, s.next, s.seed)
}

func lcParseFault(s string) (*lcFault, error) {
	f := &lcFault{}
	if i := strings.Index(s, "*"); i >= 0 {
		r, err := strconv.Atoi(s[i+1:])
		if err != nil {
			return nil, err
		}
		f.rep = r
		s = s[:i]
	}
	parts := strings.Split(s, ":")
	if len(parts) < 2 || len(parts[0]) < 4 {
		return nil, errors.New("bad fault")
	}
	f.dir = parts[0][0]
	ck := strings.Split(parts[0][1:], ".")
	if len(ck) != 2 {
		return nil, errors.New("bad fault")
	}
	var err error
	if f.conn, err = strconv.Atoi(ck[0]); err != nil {
		return nil, err
	}
	if f.k, err = strconv.Atoi(ck[1]); err != nil {
		return nil, err
	}
	f.kind = parts[1]
	if f.dir == 'r' {
		if len(parts) != 3 {
			return nil, errors.New("bad fault")
		}
		f.timing = parts[2]
	}
	return f, nil
}

func lcParseSpec(s string) (*lcSpec, error) {
	p := strings.Split(s, ":")
	// the fault list itself contains ':' — re-assemble: fam n pt srv <faults...> next seed
	if len(p) < 7 {
		return nil, errors.New("bad spec")
	}
	sp := &lcSpec{fam: p[0], pt: p[2], srv: p[3], next: p[len(p)-2]}
	var err error
	if sp.n, err = strconv.Atoi(p[1]); err != nil {
		return nil, err
	}
	if sp.seed, err = strconv.Atoi(p[len(p)-1]); err != nil {
		return nil, err
	}
	fs := strings.Join(p[4:len(p)-2], ":")
	if fs != "-" {
		for _, x := range strings.Split(fs, "+") {
			f, err := lcParseFault(x)
			if err != nil {
				return nil, err
			}
			sp.faults = append(sp.faults, f)
		}
	}
	return sp, nil
}

var lcPoints = map[string]string{
	"loaded":          "cli.send.loaded",
	"afterSend":       "cli.roundtrip.afterSend",
	"beforeRx":        "cli.read.beforeRx",
	"beforeErr":       "cli.write.beforeErr",
	"afterCancel":     "cli.terminate.afterCancel",
	"beforeReconnect": "cli.beforeReconnect",
}

// ---------------------------------------------------------------------------------------------
// result of one scenario (child -> parent)

type lcViol struct {
	Property string `json:"p"`
	Oracle   string `json:"o"`
	Key      string `json:"k"`
	Detail   string `json:"d"`
}

type lcResult struct {
	Spec       string   `json:"spec"`
	Scenario   string   `json:"scen"`    // model scenario ("" = no model line)
	Outcome    string   `json:"outcome"` // canonical outcome
	Props      string   `json:"props"`
	Viol       []lcViol `json:"viol"`
	Counts     []string `json:"counts"`
	Nontrivial bool     `json:"nt"`
	Fail       string   `json:"fail"` // harness failure
}

func (r *lcResult) violate(prop, oracle, key, detail string) {
	r.Viol = append(r.Viol, lcViol{prop, oracle, key, detail})
}

// ---------------------------------------------------------------------------------------------
// environment of one scenario

type lcPhase struct {
	acts                 string
	okP, errP, okX, errX int
}

type lcEnv struct {
	spec     *lcSpec
	net      *lcNet
	srv      *lcServer
	dir      *lcDirector
	cl       *kmipclient.Client
	res      *lcResult
	base     int // client goroutines before the scenario
	phases   []*lcPhase
	armed    map[*lcFault]int // fault -> phase in which it was armed
	nextID   int
	closed   atomic.Bool // Close() has returned
	closing  atomic.Bool // Close() has been called
	closeWG  sync.WaitGroup
	extra    map[int]string // additional fault letters per phase (faults not injected through lcFault)
	mu       sync.Mutex
	termObjs map[string]bool // connections seen at cli.terminate.afterCancel
	r        *rng.R
}

const lcCallLimit = 5 * time.Second

func newLcEnv(spec *lcSpec, res *lcResult) *lcEnv {
	e := &lcEnv{spec: spec, res: res, armed: map[*lcFault]int{}, termObjs: map[string]bool{}, extra: map[int]string{}}
	e.srv = newLcServer()
	e.net = &lcNet{srv: e.srv}
	e.dir = newLcDirector()
	if spec.seed > 0 {
		e.r = rng.New(uint64(spec.seed))
	}
	e.base = lcSettle(0, 200*time.Millisecond)
	lcCur.Store(e.dir)
	return e
}

// the yield hook calls d.at through lcYield; lcEnv adds its own observation by wrapping VerifYield once.
var lcEnvCur struct {
	sync.Mutex
	e *lcEnv
}

func lcYieldEnv(point string, obj any) {
	lcEnvCur.Lock()
	e := lcEnvCur.e
	lcEnvCur.Unlock()
	if e != nil {
		if point == "cli.terminate.afterCancel" {
			e.mu.Lock()
			e.termObjs[fmt.Sprintf("%p", obj)] = true
			e.mu.Unlock()
		}
		if e.r != nil {
			e.mu.Lock()
			x := e.r.Intn(8)
			e.mu.Unlock()
			switch x {
			case 0:
				runtime.Gosched()
			case 1:
				time.Sleep(time.Duration(20+x*30) * time.Microsecond)
			}
		}
	}
	lcYield(point, obj)
}

func (e *lcEnv) terminated() int {
	e.mu.Lock()
	defer e.mu.Unlock()
	return len(e.termObjs)
}

// killed = connections the injector has broken.
func (e *lcEnv) killed() int {
	e.net.mu.Lock()
	defer e.net.mu.Unlock()
	n := 0
	for _, c := range e.net.conns {
		if c.dead.Load() != nil {
			n++
		}
	}
	return n
}

// settle waits until every connection broken by the injector has cancelled its context (the fault has
// been processed by the client); a broken connection that never does is a violation.
func (e *lcEnv) settle() bool {
	if e.closed.Load() {
		return true
	}
	deadline := time.Now().Add(2 * time.Second)
	for e.terminated() < e.killed() {
		if time.Now().After(deadline) {
			e.res.violate("C11", "fault-detected", "lts.cli:broken-connection-not-terminated",
				fmt.Sprintf("a connection failed by the transport was not terminated within 2s (%d broken, %d terminated)", e.killed(), e.terminated()))
			return false
		}
		time.Sleep(100 * time.Microsecond)
	}
	return true
}

func (e *lcEnv) firedCount() int {
	e.net.mu.Lock()
	defer e.net.mu.Unlock()
	n := 0
	for _, f := range e.net.faults {
		n += len(f.fired)
	}
	return n
}

func (e *lcEnv) arm(fs ...*lcFault) {
	ph := len(e.phases) // armed for the phase about to begin
	e.net.mu.Lock()
	for _, f := range fs {
		e.net.faults = append(e.net.faults, f)
		e.armed[f] = ph
	}
	conns := append([]*lcConn(nil), e.net.conns...)
	e.net.mu.Unlock()
	// a "call"-timing fault on a Read that is already in progress: break the connection now
	for _, f := range fs {
		if f.dir == 'r' && f.timing == "call" && f.conn < len(conns) {
			c := conns[f.conn]
			if int(c.reads.Load()) == f.k+1 && c.dead.Load() == nil {
				e.net.phase.Store(int32(ph))
				e.net.fire(f)
				c.kill(lcErrFor(f.kind, false))
			}
		}
	}
}

func (e *lcEnv) disarm() {
	e.net.mu.Lock()
	e.net.faults = nil
	e.net.mu.Unlock()
}

func (e *lcEnv) begin(acts string) *lcPhase {
	p := &lcPhase{acts: acts}
	e.phases = append(e.phases, p)
	e.net.phase.Store(int32(len(e.phases) - 1))
	return p
}

func (e *lcEnv) id(prefix string) string {
	e.mu.Lock()
	defer e.mu.Unlock()
	e.nextID++
	return fmt.Sprintf("%s%d", prefix, e.nextID)
}

type lcCall struct {
	id      string
	outcome string // ok | err | foreign | hang | panic
	err     error
	writes  int64
	fired   int // faults fired during the call
	conn    int // connection on which the server last saw the request (-1: never)
	done    chan struct{}
}

// start issues Activate(id) in a goroutine.
func (e *lcEnv) start(ctx context.Context, id string) *lcCall {
	c := &lcCall{id: id, done: make(chan struct{})}
	w0 := e.net.writes.Load()
	f0 := e.firedCount()
	go func() {
		defer close(c.done)
		type out struct {
			id  string
			err error
		}
		r, p := guard("Activate", func() out {
			resp, err := e.cl.Activate(id).ExecContext(ctx)
			if err != nil {
				return out{"", err}
			}
			return out{resp.UniqueIdentifier, nil}
		})
		c.writes = e.net.writes.Load() - w0
		c.fired = e.firedCount() - f0
		switch {
		case p != "":
			c.outcome = "panic"
			e.res.violate("C11", "no-panic", "lts.cli:panic "+panicKey(p), p)
		case r.err != nil:
			c.outcome, c.err = "err", r.err
		case r.id == id:
			c.outcome = "ok"
		default:
			c.outcome = "foreign"
			e.res.violate("C10", "own-response", "lts.cli:foreign-response",
				fmt.Sprintf("call %q received the response to %q", id, r.id))
		}
	}()
	return c
}

func (e *lcEnv) wait(c *lcCall) {
	select {
	case <-c.done:
	case <-time.After(lcCallLimit):
		c.outcome = "hang"
		e.res.violate("C11", "returns-promptly", "lts.cli:call-hangs",
			fmt.Sprintf("call %q did not return within %v", c.id, lcCallLimit))
	}
	c.conn = e.srv.connOf(c.id)
}

func (p *lcPhase) record(kind byte, c *lcCall) {
	ok := c.outcome == "ok"
	switch {
	case kind == 'p' && ok:
		p.okP++
	case kind == 'p':
		p.errP++
	case ok:
		p.okX++
	default:
		p.errX++
	}
}

// plain runs one plain call to completion and applies the per-call oracles.
// sequential: no other call is running (the transmission count is then exact).
func (e *lcEnv) plain(p *lcPhase, mustSucceed bool) *lcCall {
	// faults that fire while the client is idle are processed before the call starts; one that fires
	// between this check and the start of the call counts as occurring during the call
	f0 := e.firedCount()
	if mustSucceed {
		e.settle()
	}
	dials0 := e.net.dialCount()
	wasClosed := e.closed.Load()
	c := e.start(context.Background(), e.id("p"))
	e.wait(c)
	c.fired = e.firedCount() - f0
	p.record('p', c)
	if c.writes > 4 {
		e.res.violate("C11", "transmissions", "lts.cli:more-than-4-transmissions",
			fmt.Sprintf("call %q was transmitted %d times", c.id, c.writes))
	}
	if wasClosed {
		if c.outcome == "ok" {
			e.res.violate("C11", "closed-stays-closed", "lts.cli:call-after-close-succeeds", "a call on a closed client returned a response")
		}
		if e.net.dialCount() != dials0 {
			e.res.violate("C11", "closed-stays-closed", "lts.cli:call-after-close-dials", "a call on a closed client dialed")
		}
	} else if mustSucceed && c.fired == 0 && c.outcome == "err" {
		e.res.violate("C11", "recovers", "lts.cli:call-fails-without-fault",
			fmt.Sprintf("call %q failed (%v) although no fault occurred during it and the earlier faults had been processed", c.id, c.err))
	}
	return c
}

func (e *lcEnv) closeClient() {
	e.closeWG.Add(1)
	defer e.closeWG.Done()
	e.closing.Store(true)
	_, p := guard("Close", func() error { return e.cl.Close() })
	if p != "" {
		e.res.violate("C11", "no-panic", "lts.cli:panic-in-close "+panicKey(p), p)
	}
	e.closed.Store(true)
}

// finish: Close if needed, goroutine check, reuse check, outcome rendering, cleanup.
func (e *lcEnv) finish(abandoned map[string]bool) {
	if e.cl != nil && !e.closed.Load() {
		p := e.begin("K")
		_ = p
		e.closeClient()
	}
	if e.cl != nil {
		if n := lcSettle(e.base, 2*time.Second); n > e.base {
			e.res.violate("C11", "no-goroutine-left", "lts.cli:goroutines-after-close",
				fmt.Sprintf("%d client goroutine(s) still running 2s after Close (yield log: %s)", n-e.base, strings.Join(e.dir.log, ",")))
		}
	}
	// a connection that carried an abandoned exchange carries no later exchange
	for ci := 0; ci < e.net.connCount(); ci++ {
		ids := e.srv.seenOn(ci)
		for i, id := range ids {
			if abandoned[id] && i+1 < len(ids) {
				e.res.violate("C10", "abandoned-conn-not-reused", "lts.cli:abandoned-connection-reused",
					fmt.Sprintf("connection %d received %q after the abandoned %q", ci, ids[i+1], id))
			}
		}
	}
	e.render()
	lcEnvCur.Lock()
	lcEnvCur.e = nil
	lcEnvCur.Unlock()
	lcCur.Store(nil)
	e.net.shutdown()
	lcSettle(0, time.Second)
}

// render builds the model scenario and the canonical outcome.
func (e *lcEnv) render() {
	nph := len(e.phases)
	letters := make([][]byte, nph)
	e.net.mu.Lock()
	for f := range e.armed {
		for _, q := range f.fired {
			last := q
			if f.kind == "car" { // the client sees the end of stream some time later
				last = nph - 1
			}
			for i := q; i <= last && i < nph; i++ {
				letters[i] = append(letters[i], f.letter())
			}
		}
	}
	e.net.mu.Unlock()
	for i, x := range e.extra {
		if i < nph {
			letters[i] = append(letters[i], x...)
		}
	}
	var sc, out []string
	for i, p := range e.phases {
		s := p.acts
		if len(letters[i]) > 0 {
			// canonical order
			cnt := map[byte]int{}
			for _, l := range letters[i] {
				cnt[l]++
			}
			s += "/"
			for _, l := range []byte("erwfd") {
				for k := 0; k < cnt[l] && k < 7; k++ {
					s += string(l)
				}
			}
		}
		sc = append(sc, s)
		out = append(out, fmt.Sprintf("%d.%d.%d.%d", p.okP, p.errP, p.okX, p.errX))
	}
	e.res.Scenario = strings.Join(sc, ";")
	e.res.Outcome = strings.Join(out, ";") + "|d" + strconv.Itoa(e.net.dialCount())
}

func (e *lcEnv) dial(enforce bool) error {
	lcEnvCur.Lock()
	lcEnvCur.e = e
	lcEnvCur.Unlock()
	opts := []kmipclient.Option{kmipclient.WithDialerUnsafe(e.net.dial)}
	if enforce {
		opts = append(opts, kmipclient.EnforceVersion(kmip.V1_4))
	}
	type out struct {
		cl  *kmipclient.Client
		err error
	}
	done := make(chan out, 1)
	go func() {
		r, p := guard("Dial", func() out {
			cl, err := kmipclient.Dial("pipe", opts...)
			return out{cl, err}
		})
		if p != "" {
			e.res.violate("C11", "no-panic", "lts.cli:panic-in-dial "+panicKey(p), p)
			r.err = errors.New("panic")
		}
		done <- r
	}()
	select {
	case r := <-done:
		e.cl = r.cl
		return r.err
	case <-time.After(lcCallLimit):
		e.res.violate("C11", "returns-promptly", "lts.cli:dial-hangs", "Dial did not return")
		return errors.New("hang")
	}
}

// ---------------------------------------------------------------------------------------------
// scenario families

func lcRun(spec *lcSpec) *lcResult {
	res := &lcResult{Spec: spec.String(), Props: "C11"}
	e := newLcEnv(spec, res)
	switch spec.fam {
	case "c10":
		res.Props = "C10,C11"
		lcRunC10(e)
	case "flt":
		lcRunFlt(e)
	case "neg":
		lcRunNeg(e)
	case "cls":
		lcRunCls(e)
	case "rty":
		lcRunRty(e)
	case "dry":
		lcRunDry(e)
	default:
		res.Fail = "unknown family"
	}
	res.Counts = append(res.Counts, "fam="+spec.fam, "outcome="+res.Outcome)
	return res
}

// warm-up: connect (version enforced) and perform one exchange.
func (e *lcEnv) warm() bool {
	if err := e.dial(true); err != nil {
		e.res.Fail = "initial Dial failed: " + err.Error()
		return false
	}
	p := e.begin("p")
	c := e.plain(p, true)
	if c.outcome != "ok" {
		e.res.Fail = "warm-up call failed: " + c.outcome
		return false
	}
	return true
}

// dry run: report the operation counts after the warm-up and after one more exchange.
func lcRunDry(e *lcEnv) {
	if !e.warm() {
		e.finish(nil)
		return
	}
	// the read loop invokes its next Read right after handing a response over: wait for it
	stable := func() (reads, writes []int) {
		reads, writes = e.net.opCounts()
		for same := 0; same < 20; {
			time.Sleep(250 * time.Microsecond)
			r2, w2 := e.net.opCounts()
			if fmt.Sprint(r2, w2) == fmt.Sprint(reads, writes) {
				same++
			} else {
				same = 0
			}
			reads, writes = r2, w2
		}
		return
	}
	r0, w0 := stable()
	p := e.begin("p")
	e.plain(p, true)
	r1, w1 := stable()
	e.res.Counts = append(e.res.Counts, fmt.Sprintf("dry=%d,%d,%d,%d", r0[0], w0[0], r1[0], w1[0]))
	e.finish(nil)
	e.res.Scenario = ""
}

// C10: one caller is cancelled at a yield point (or times out) while N-1 others call concurrently.
func lcRunC10(e *lcEnv) {
	if !e.warm() {
		e.finish(nil)
		return
	}
	spec := e.spec
	abandoned := map[string]bool{}
	vid := e.id("v")
	switch spec.srv {
	case "late":
		e.srv.gate(vid)
	case "never":
		e.srv.mu.Lock()
		e.srv.silent[vid] = true
		e.srv.mu.Unlock()
	}
	ctx, cancel := context.WithCancel(context.Background())
	defer cancel()
	reached := make(chan struct{})
	release := make(chan struct{})
	var once sync.Once
	victimDone := make(chan struct{})
	point := lcPoints[spec.pt]
	if spec.pt == "timeout" {
		var c2 context.CancelFunc
		ctx, c2 = context.WithTimeout(context.Background(), 15*time.Millisecond)
		defer c2()
		once.Do(func() { close(reached) })
	} else {
		rx0 := e.dir.hitCount("cli.read.beforeRx")
		e.dir.on(point, e.dir.hitCount(point), func() {
			if spec.pt == "afterSend" && spec.srv == "early" {
				// the response is to be at the reader before the cancellation
				dl := time.Now().Add(time.Second)
				for e.dir.hitCount("cli.read.beforeRx") == rx0 && time.Now().Before(dl) {
					time.Sleep(50 * time.Microsecond)
				}
			}
			cancel()
			once.Do(func() { close(reached) })
			if spec.pt == "beforeRx" {
				// the reader is held until the cancelled caller has returned
				select {
				case <-victimDone:
				case <-time.After(2 * time.Second):
				}
			}
			select {
			case <-release:
			case <-time.After(2 * time.Second):
			}
		})
	}
	ph := e.begin("x" + strings.Repeat("p", spec.n-1))
	v := e.start(ctx, vid)
	go func() { <-v.done; close(victimDone) }()
	select {
	case <-reached:
	case <-v.done: // the point was not reached (e.g. no response for beforeRx): the call ended otherwise
	case <-time.After(2 * time.Second):
	}
	var fl []*lcCall
	for i := 1; i < spec.n; i++ {
		fl = append(fl, e.start(context.Background(), e.id("f")))
	}
	if spec.srv == "late" {
		// the late response is produced once a follower's request has reached the server
		e.srv.mu.Lock()
		e.srv.onRecv = func(id string, conn int) {
			if strings.HasPrefix(id, "f") {
				e.srv.open(vid)
			}
		}
		e.srv.mu.Unlock()
	}
	time.Sleep(200 * time.Microsecond)
	close(release)
	e.wait(v)
	ph.record('x', v)
	if v.outcome == "err" {
		abandoned[vid] = true
	}
	for _, c := range fl {
		e.wait(c)
		ph.record('p', c)
		if c.outcome == "err" {
			e.res.violate("C11", "recovers", "lts.cli:call-fails-without-fault",
				fmt.Sprintf("call %q failed (%v) although only another caller's context was cancelled", c.id, c.err))
		}
	}
	e.srv.open(vid)
	p2 := e.begin("p")
	e.plain(p2, true)
	e.res.Nontrivial = true
	e.res.Counts = append(e.res.Counts, "c10.victim="+v.outcome, "c10.point="+spec.pt)
	e.finish(abandoned)
}

// C11: faults on given operations of the exchange that follows the warm-up, then a next action.
func lcRunFlt(e *lcEnv) {
	if !e.warm() {
		e.finish(nil)
		return
	}
	spec := e.spec
	e.arm(spec.faults...)
	e.settle()
	acts := "p"
	var once sync.Once
	var cwg sync.WaitGroup
	closeNow := func() {
		once.Do(func() {
			cwg.Add(1)
			go func() { defer cwg.Done(); e.closeClient() }()
		})
	}
	if spec.next == "cclose" {
		acts = "pk"
		// Close() as soon as the request has reached the server (the call is pending in recv),
		// or, if it never does, right after the call has returned
		e.srv.mu.Lock()
		e.srv.onRecv = func(id string, conn int) {
			if strings.HasPrefix(id, "p") {
				closeNow()
			}
		}
		e.srv.mu.Unlock()
	}
	ph := e.begin(acts)
	c1 := e.plain(ph, spec.next != "cclose")
	e.res.Counts = append(e.res.Counts, "flt.pending="+c1.outcome)
	if spec.next == "cclose" {
		closeNow()
		cwg.Wait()
	}
	e.settle()
	switch spec.next {
	case "call":
		e.plain(e.begin("p"), true)
	case "calls3":
		p := e.begin("ppp")
		for i := 0; i < 3; i++ {
			e.settle()
			e.plain(p, true)
		}
	case "close":
		e.begin("K")
		e.closeClient()
		e.plain(e.begin("p"), false)
	case "cclose":
		e.plain(e.begin("p"), false)
	}
	// whatever happened: once the injector is off and the faults are processed, a call succeeds
	if !e.closed.Load() {
		e.settle()
		e.disarm()
		c := e.plain(e.begin("p"), true)
		if c.outcome == "ok" {
			for i, lc := range e.net.conns {
				if lc.dead.Load() != nil && c.conn <= i {
					e.res.violate("C11", "fresh-connection", "lts.cli:call-on-broken-connection",
						fmt.Sprintf("call %q was served on connection %d although connection %d had failed", c.id, c.conn, i))
				}
			}
		}
	}
	e.res.Nontrivial = true
	e.finish(nil)
}

// C11: faults during the version negotiation of Dial.
func lcRunNeg(e *lcEnv) {
	spec := e.spec
	e.arm(spec.faults...)
	e.begin("p")
	err := e.dial(false)
	ph := e.phases[0]
	if e.net.connCount() == 0 && err != nil {
		// the dialer itself failed: no client, no negotiation
		ph.errP++
		e.res.Counts = append(e.res.Counts, "neg=dial-failed")
		e.render()
		e.finish(nil)
		e.res.Scenario, e.res.Outcome = "p/d", "0.1.0.0|d1"
		return
	}
	if err != nil {
		ph.errP++
		e.begin("K") // DialContext closes the client it gives up
		e.res.Counts = append(e.res.Counts, "neg=failed")
		if n := lcSettle(e.base, 2*time.Second); n > e.base {
			e.res.violate("C11", "no-goroutine-left", "lts.cli:goroutines-after-failed-dial",
				fmt.Sprintf("%d client goroutine(s) still running 2s after Dial returned an error", n-e.base))
		}
		e.render()
		lcEnvCur.Lock()
		lcEnvCur.e = nil
		lcEnvCur.Unlock()
		lcCur.Store(nil)
		e.net.shutdown()
		return
	}
	ph.okP++
	e.res.Counts = append(e.res.Counts, "neg=ok")
	e.settle()
	e.plain(e.begin("p"), true)
	e.settle()
	e.disarm()
	e.plain(e.begin("p"), true)
	e.res.Nontrivial = true
	e.finish(nil)
}

// C11: Close() at a yield point of a pending call.
func lcRunCls(e *lcEnv) {
	if !e.warm() {
		e.finish(nil)
		return
	}
	spec := e.spec
	e.arm(spec.faults...)
	e.settle()
	point := lcPoints[spec.pt]
	var wg sync.WaitGroup
	e.dir.on(point, e.dir.hitCount(point), func() {
		if spec.n == 1 { // Close runs concurrently with the rest of the call
			wg.Add(1)
			go func() { defer wg.Done(); e.closeClient() }()
			runtime.Gosched()
		} else {
			e.closeClient()
		}
	})
	ph := e.begin("pk")
	c := e.plain(ph, false)
	wg.Wait()
	hit := e.closing.Load()
	e.closeWG.Wait()
	if !hit { // the point was not reached in this run
		e.closeClient()
		ph.acts = "pK"
	}
	e.res.Counts = append(e.res.Counts, "cls.pending="+c.outcome, fmt.Sprintf("cls.point=%s hit=%v", spec.pt, hit))
	e.plain(e.begin("p"), false)
	e.res.Nontrivial = hit
	e.finish(nil)
}

// C11: the server closes the connection on receipt for the next n requests (retry budget).
func lcRunRty(e *lcEnv) {
	if !e.warm() {
		e.finish(nil)
		return
	}
	n := e.spec.n
	left := n
	var mu sync.Mutex
	e.srv.mu.Lock()
	e.srv.onRecv = func(id string, conn int) {
		mu.Lock()
		drop := left > 0
		if drop {
			left--
		}
		mu.Unlock()
		if drop {
			e.net.mu.Lock()
			c := e.net.conns[conn]
			e.net.mu.Unlock()
			c.kill(io.EOF)
		}
	}
	e.srv.mu.Unlock()
	e.extra[len(e.phases)] = strings.Repeat("e", n)
	ph := e.begin("p")
	c := e.plain(ph, false)
	want := "ok"
	wantTx := int64(n + 1)
	if n >= 4 {
		want, wantTx = "err", 4
	}
	if c.outcome != want || c.writes != wantTx {
		e.res.violate("C11", "retry-budget", "lts.cli:retry-budget",
			fmt.Sprintf("server dropped %d connection(s): call returned %s after %d transmission(s), expected %s after %d", n, c.outcome, c.writes, want, wantTx))
	}
	mu.Lock()
	left = 0
	mu.Unlock()
	e.settle()
	e.plain(e.begin("p"), true)
	e.res.Nontrivial = true
	e.finish(nil)
}

// ---------------------------------------------------------------------------------------------
// child process: scenarios on stdin, one JSON result per scenario on stdout

const lcChildEnv = "VERIF_LCLI_CHILD"

func init() {
	if os.Getenv(lcChildEnv) == "" {
		return
	}
	cliQuiet()
	kmipclient.VerifYield = lcYieldEnv
	in := bufio.NewScanner(os.Stdin)
	in.Buffer(make([]byte, 1<<16), 1<<20)
	out := bufio.NewWriter(os.Stdout)
	for in.Scan() {
		line := strings.TrimSpace(in.Text())
		if line == "" {
			continue
		}
		fmt.Fprintf(out, "@@BEGIN %s\n", line)
		out.Flush()
		var res *lcResult
		spec, err := lcParseSpec(line)
		if err != nil {
			res = &lcResult{Spec: line, Fail: "bad spec: " + err.Error()}
		} else {
			res = lcRun(spec)
		}
		b, _ := json.Marshal(res)
		fmt.Fprintf(out, "@@RESULT %s\n", b)
		out.Flush()
	}
	os.Exit(0)
}

// lcRunChild runs the specs in child processes; a crash is attributed to the scenario that was running.
func lcRunChild(ctx *Ctx, specs []string) []*lcResult {
	var results []*lcResult
	for len(specs) > 0 {
		limit := time.Duration(len(specs))*3*time.Second + 30*time.Second
		cctx, cancel := context.WithTimeout(context.Background(), limit)
		cmd := exec.CommandContext(cctx, os.Args[0])
		cmd.Env = append(os.Environ(), lcChildEnv+"=1")
		cmd.Stdin = strings.NewReader(strings.Join(specs, "\n") + "\n")
		var stderr strings.Builder
		cmd.Stderr = &stderr
		stdout, err := cmd.StdoutPipe()
		if err != nil {
			cancel()
			ctx.Res.Fail("lts.cli: " + err.Error())
			return results
		}
		if err := cmd.Start(); err != nil {
			cancel()
			ctx.Res.Fail("lts.cli: cannot start the child process: " + err.Error())
			return results
		}
		sc := bufio.NewScanner(stdout)
		sc.Buffer(make([]byte, 1<<16), 1<<24)
		running := ""
		done := 0
		for sc.Scan() {
			l := sc.Text()
			switch {
			case strings.HasPrefix(l, "@@BEGIN "):
				running = strings.TrimPrefix(l, "@@BEGIN ")
			case strings.HasPrefix(l, "@@RESULT "):
				r := &lcResult{}
				if err := json.Unmarshal([]byte(strings.TrimPrefix(l, "@@RESULT ")), r); err != nil {
					ctx.Res.Fail("lts.cli: bad result line: " + err.Error())
				} else {
					results = append(results, r)
				}
				done++
				running = ""
			}
		}
		werr := cmd.Wait()
		timedOut := cctx.Err() != nil
		cancel()
		if werr == nil && running == "" && done == len(specs) {
			return results
		}
		// the child died: attribute it to the running scenario and go on with the rest
		msg := stderr.String()
		if len(msg) > 1500 {
			msg = msg[:1500]
		}
		culprit := running
		if culprit == "" && done < len(specs) {
			culprit = specs[done]
		}
		r := &lcResult{Spec: culprit, Props: "C11"}
		switch {
		case timedOut:
			r.violate("C11", "returns-promptly", "lts.cli:process-hangs", "the child process running the scenario did not finish: "+msg)
		case strings.Contains(msg, "panic:") || strings.Contains(msg, "fatal error:"):
			first := msg
			if i := strings.Index(first, "\n"); i > 0 {
				first = first[:i]
			}
			r.violate("C11", "no-panic", "lts.cli:process-crash "+panicKey(first), msg)
		default:
			r.violate("C11", "no-panic", "lts.cli:process-exit", fmt.Sprintf("child process ended abnormally (%v): %s", werr, msg))
		}
		results = append(results, r)
		if done+1 >= len(specs) {
			return results
		}
		specs = specs[done+1:]
	}
	return results
}

// ---------------------------------------------------------------------------------------------
// generation

func lcSpecs(ctx *Ctx, dry [4]int) []string {
	var out []string
	add := func(s *lcSpec) { out = append(out, s.String()) }
	reps := ctx.N(1, 6) // thorough: the same scenarios again under random perturbation of the yield points
	for rep := 0; rep < reps; rep++ {
		seed := 0
		if rep > 0 {
			seed = 1 + ctx.R.Intn(1<<30)
		}
		// (a) C10
		for _, n := range []int{2, 3, 4} {
			for _, pt := range []string{"loaded", "afterSend", "beforeRx", "timeout"} {
				for _, srv := range []string{"early", "late", "never"} {
					if pt == "beforeRx" && srv != "early" {
						continue // the reader holds a response only if the server answers
					}
					add(&lcSpec{fam: "c10", n: n, pt: pt, srv: srv, next: "-", seed: seed})
				}
			}
		}
		// (b) C11: every operation of the exchange x kind x next action
		r0, w0, r1, w1 := dry[0], dry[1], dry[2], dry[3]
		var pts []*lcFault
		for k := w0; k < w1; k++ {
			for _, kind := range []string{"closed", "reset", "short", "eof", "car"} {
				pts = append(pts, &lcFault{dir: 'w', conn: 0, k: k, kind: kind})
			}
		}
		for k := r0 - 1; k < r1; k++ {
			for _, kind := range []string{"eof", "closed", "reset", "partial"} {
				for _, tm := range []string{"call", "data"} {
					if kind == "partial" && tm == "call" {
						continue
					}
					if k == r1-1 && tm == "data" {
						continue // no data ever arrives for the read that follows the exchange
					}
					pts = append(pts, &lcFault{dir: 'r', conn: 0, k: k, kind: kind, timing: tm})
				}
			}
		}
		for _, f := range pts {
			for _, next := range []string{"call", "calls3", "close", "cclose"} {
				cp := *f
				add(&lcSpec{fam: "flt", pt: "-", srv: "-", faults: []*lcFault{&cp}, next: next, seed: seed})
			}
		}
		// two faults: the first breaks connection 0, the second hits the reconnection
		for _, first := range []*lcFault{
			{dir: 'r', conn: 0, k: r0 - 1, kind: "eof", timing: "data"},
			{dir: 'r', conn: 0, k: r0 - 1, kind: "reset", timing: "call"},
			{dir: 'w', conn: 0, k: w0, kind: "closed"},
		} {
			seconds := []*lcFault{
				{dir: 'd', conn: 1, k: 0, kind: "refused"},
				{dir: 'd', conn: 1, k: 0, kind: "refused", rep: 1},
				{dir: 'w', conn: 1, k: 0, kind: "reset"},
				{dir: 'w', conn: 1, k: 0, kind: "closed"},
				{dir: 'r', conn: 1, k: 0, kind: "eof", timing: "data"},
				{dir: 'r', conn: 1, k: 0, kind: "reset", timing: "data"},
				{dir: 'r', conn: 1, k: 1, kind: "partial", timing: "data"},
				{dir: 'r', conn: 1, k: 0, kind: "eof", timing: "data", rep: 1},
			}
			for _, second := range seconds {
				for _, next := range []string{"call", "close"} {
					a, b := *first, *second
					add(&lcSpec{fam: "flt", pt: "-", srv: "-", faults: []*lcFault{&a, &b}, next: next, seed: seed})
				}
			}
		}
		// (c) faults during the version negotiation of Dial
		add(&lcSpec{fam: "neg", pt: "-", srv: "-", next: "-", seed: seed})
		add(&lcSpec{fam: "neg", pt: "-", srv: "-", next: "-", seed: seed, faults: []*lcFault{{dir: 'd', conn: 0, k: 0, kind: "refused"}}})
		for _, kind := range []string{"closed", "reset", "short", "eof", "car"} {
			add(&lcSpec{fam: "neg", pt: "-", srv: "-", next: "-", seed: seed, faults: []*lcFault{{dir: 'w', conn: 0, k: 0, kind: kind}}})
		}
		for k := 0; k < 3; k++ {
			for _, kind := range []string{"eof", "closed", "reset", "partial"} {
				for _, tm := range []string{"call", "data"} {
					if (kind == "partial" && tm == "call") || (k == 2 && tm == "data") {
						continue
					}
					add(&lcSpec{fam: "neg", pt: "-", srv: "-", next: "-", seed: seed, faults: []*lcFault{{dir: 'r', conn: 0, k: k, kind: kind, timing: tm}}})
					// ... and the retry of the negotiation fails as well
					add(&lcSpec{fam: "neg", pt: "-", srv: "-", next: "-", seed: seed, faults: []*lcFault{{dir: 'r', conn: 0, k: k, kind: kind, timing: tm, rep: 4}}})
				}
			}
		}
		// (d) Close() at the yield points of a pending call
		for _, async := range []int{0, 1} {
			for _, pt := range []string{"loaded", "afterSend", "beforeRx"} {
				add(&lcSpec{fam: "cls", n: async, pt: pt, srv: "-", next: "-", seed: seed})
			}
			add(&lcSpec{fam: "cls", n: async, pt: "beforeErr", srv: "-", next: "-", seed: seed, faults: []*lcFault{{dir: 'w', conn: 0, k: w0, kind: "reset"}}})
			add(&lcSpec{fam: "cls", n: async, pt: "beforeErr", srv: "-", next: "-", seed: seed, faults: []*lcFault{{dir: 'w', conn: 0, k: w0, kind: "closed"}}})
			add(&lcSpec{fam: "cls", n: async, pt: "afterCancel", srv: "-", next: "-", seed: seed, faults: []*lcFault{{dir: 'r', conn: 0, k: r0 - 1, kind: "reset", timing: "data"}}})
			add(&lcSpec{fam: "cls", n: async, pt: "afterCancel", srv: "-", next: "-", seed: seed, faults: []*lcFault{{dir: 'r', conn: 0, k: r0 - 1, kind: "eof", timing: "data"}}})
			add(&lcSpec{fam: "cls", n: async, pt: "beforeReconnect", srv: "-", next: "-", seed: seed, faults: []*lcFault{{dir: 'r', conn: 0, k: r0 - 1, kind: "eof", timing: "data"}}})
			add(&lcSpec{fam: "cls", n: async, pt: "beforeReconnect", srv: "-", next: "-", seed: seed, faults: []*lcFault{{dir: 'w', conn: 0, k: w0, kind: "closed"}}})
		}
		// (e) retry budget
		for n := 1; n <= 5; n++ {
			add(&lcSpec{fam: "rty", n: n, pt: "-", srv: "-", next: "-", seed: seed})
		}
	}
	return out
}

func lcRegister(ctx *Ctx, r *lcResult) {
	line := "# lts.cli " + r.Spec
	if r.Fail != "" {
		ctx.Res.Fail("lts.cli " + r.Spec + ": " + r.Fail)
		return
	}
	if r.Scenario != "" && len(r.Viol) == 0 {
		line = fmt.Sprintf("lts.member cliconn current %s %s %s", r.Spec, r.Scenario, r.Outcome)
	}
	for _, v := range r.Viol {
		ctx.Res.Violate(report.Violation{Property: v.Property, Oracle: v.Oracle, Key: v.Key, Detail: v.Detail, Line: "# lts.cli " + r.Spec})
	}
	for _, c := range r.Counts {
		if strings.HasPrefix(c, "outcome=") || strings.HasPrefix(c, "dry=") {
			continue
		}
		ctx.Res.Count(c)
	}
	ctx.Add(line, "ok in", r.Nontrivial, r.Props)
}

func runLtsCli(ctx *Ctx) {
	var specs []string
	if len(ctx.Replay) > 0 {
		for _, l := range ctx.Replay {
			f := strings.Fields(l)
			switch {
			case len(f) >= 3 && f[0] == "#" && f[1] == "lts.cli":
				specs = append(specs, f[2])
			case len(f) >= 4 && f[0] == "lts.member" && f[1] == "cliconn":
				specs = append(specs, f[3])
			}
		}
	} else {
		dryRes := lcRunChild(ctx, []string{(&lcSpec{fam: "dry", pt: "-", srv: "-", next: "-"}).String()})
		dry := [4]int{3, 1, 5, 2}
		found := false
		for _, r := range dryRes {
			for _, c := range r.Counts {
				if strings.HasPrefix(c, "dry=") {
					p := strings.Split(strings.TrimPrefix(c, "dry="), ",")
					if len(p) == 4 {
						for i := range p {
							dry[i], _ = strconv.Atoi(p[i])
						}
						found = true
					}
				}
			}
			for _, v := range r.Viol {
				ctx.Res.Violate(report.Violation{Property: v.Property, Oracle: v.Oracle, Key: v.Key, Detail: v.Detail, Line: "# lts.cli " + r.Spec})
			}
		}
		if !found {
			ctx.Res.Fail("lts.cli: the dry run did not report operation counts")
		}
		ctx.Res.Count(fmt.Sprintf("dry-run ops: reads %d->%d writes %d->%d", dry[0], dry[2], dry[1], dry[3]))
		specs = lcSpecs(ctx, dry)
	}
	// batches, so that a crash costs little and the children run in parallel
	const batch = 40
	nb := (len(specs) + batch - 1) / batch
	results := make([][]*lcResult, nb)
	par := 4
	sem := make(chan struct{}, par)
	var wg sync.WaitGroup
	for b := 0; b < nb; b++ {
		b := b
		lo, hi := b*batch, min((b+1)*batch, len(specs))
		wg.Add(1)
		sem <- struct{}{}
		go func() {
			defer wg.Done()
			defer func() { <-sem }()
			results[b] = lcRunChild(ctx, specs[lo:hi])
		}()
	}
	wg.Wait()
	for _, rs := range results {
		for _, r := range rs {
			lcRegister(ctx, r)
		}
	}
}

func init() {
	register(&Engine{
		Name: "lts.cli",
		Rule: "real kmipclient.Client over an in-memory fault-injecting transport and a scripted echo server, verif yield points driven by a director; (a) C10: N in {2,3,4} concurrent callers, one cancelled exactly at cli.send.loaded / cli.roundtrip.afterSend / cli.read.beforeRx or timing out, its response early / late / never, then a further call; (b) C11: after a warm-up exchange, every Read and Write index of the next exchange (found by a dry run) x {EOF, closed, reset, partial message, short write, server closes after replying} x {when invoked, when data arrives} x next action {call, 3 calls, Close, Close during the pending call}, pairs of faults hitting the reconnection (dial, write, read), (c) every I/O operation of Dial's version negotiation, (d) Close() at each yield point of a pending call (in line and concurrently), (e) server dropping 1..5 successive connections (retry budget); scenarios run in child processes (a crash is a violation); thorough: repeated under random perturbation at the yield points; distinct = distinct scenario+outcome",
		Run:  runLtsCli,
	})
}
