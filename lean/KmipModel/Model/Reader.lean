/-
  L1 — model of `ttlvReader` (ttlv/encoding_ttlv.go) and of the generic decoder
  `ttlv.Value.TagDecodeTTLV` / `ttlv.Struct.TagDecodeTTLV` (ttlv/value.go).

  The Go reader walks a byte slice and validates an item only when it becomes current
  (`newTTLVReader`, `Next`). The model factors this as a *lazy parse*: `rawParse` splits a byte
  string into the maximal prefix of valid raw items plus the reason the rest is invalid (if any);
  a cursor then walks that list. The error of the invalid remainder surfaces exactly when the
  Go code would call `validate` on it: when the previous item is consumed (or at start).
-/
import KmipModel.Model.Wire
namespace Kmip

inductive Err where
  | eof            -- ErrEOF: assertType on an exhausted reader
  | shortHeader    -- "TTLV header too short"
  | shortValue     -- "TTLV value too short"
  | badType        -- "invalid TTLV type"
  | tagMismatch    -- "Unexpected TTLV tag"
  | typeMismatch   -- "Invalid TTLV type for tag"
  | badLength      -- fixed-width value of the wrong length / empty big integer
  | unsupported    -- Value decoder: "Unsupported TTLV type" (reader exhausted)
  | range          -- typed layer: value overflows the Go type
  | other
  deriving Repr, DecidableEq, Inhabited

/-- Result of an operation that may fail or (in Go) panic. -/
inductive Res (α : Type) where
  | ok (a : α)
  | err (e : Err)
  | panic (msg : String)
  deriving Repr

instance : Monad Res where
  pure := .ok
  bind x f := match x with
    | .ok a => f a
    | .err e => .err e
    | .panic m => .panic m

structure RawItem where
  tag : Nat
  ty  : Nat        -- 1..10 (validated)
  val : Bytes      -- exactly `len` bytes, padding stripped
  deriving Repr, Inhabited

/-- `validate` applied repeatedly: the valid prefix of items and why it stops. Fuel: `bs.length`. -/
def rawParse : Nat → Bytes → List RawItem × Option Err
  | 0, bs => ([], if bs.isEmpty then none else some .other)
  | fuel + 1, bs =>
    if bs.isEmpty then ([], none)
    else if bs.length < 8 then ([], some .shortHeader)
    else
      let len := beVal ((bs.drop 4).take 4)
      let plen := paddedLen len
      if bs.length - 8 < plen then ([], some .shortValue)
      else
        let ty := (bs.getD 3 0).toNat
        if ty > 10 ∨ ty = 0 then ([], some .badType)
        else
          let it : RawItem := { tag := beVal (bs.take 3), ty := ty, val := (bs.drop 8).take len }
          let (items, e) := rawParse fuel (bs.drop (8 + plen))
          (it :: items, e)

/-- A reader positioned on the head of `items`; `tail` is the pending validation error. -/
structure Cur where
  items : List RawItem
  tail  : Option Err
  deriving Repr, Inhabited

/-- `newTTLVReader(buf)`: validates the first item. -/
def Cur.start (bs : Bytes) : Res Cur :=
  let (items, e) := rawParse bs.length bs
  match items, e with
  | [], some err => .err err
  | _, _ => .ok { items := items, tail := e }

/-- `Next()`: advance and validate the new current item. -/
def Cur.next (c : Cur) : Res Cur :=
  match c.items with
  | [] => .ok c          -- unreachable from the decoders (they never advance an exhausted reader)
  | _ :: rest =>
    match rest, c.tail with
    | [], some err => .err err
    | _, _ => .ok { c with items := rest }

/-- `Tag()` — 0 at end of data. -/
def Cur.tag (c : Cur) : Nat := match c.items with | [] => 0 | it :: _ => it.tag
/-- `Type()` — 0 at end of data. -/
def Cur.ty (c : Cur) : Nat := match c.items with | [] => 0 | it :: _ => it.ty

/-- `assertType(ty, tag)` then hand the current raw item to the caller. -/
def Cur.expect (c : Cur) (ty tag : Nat) : Res RawItem :=
  match c.items with
  | [] => .err .eof
  | it :: _ =>
    if it.tag ≠ tag then .err .tagMismatch
    else if it.ty ≠ ty then .err .typeMismatch
    else .ok it

/-! Go primitives that panic on short input — the model keeps the panic visible so that
    "the decoder never panics" is a theorem about the guards, not an artefact of totalised functions. -/

/-- `binary.BigEndian.Uint32(v)`: panics when `len(v) < 4`. -/
def goU32 (v : Bytes) : Res Nat :=
  if v.length < 4 then .panic "index out of range [3]" else .ok (beVal (v.take 4))
/-- `binary.BigEndian.Uint64(v)`: panics when `len(v) < 8`. -/
def goU64 (v : Bytes) : Res Nat :=
  if v.length < 8 then .panic "index out of range [7]" else .ok (beVal (v.take 8))
/-- `v[i]`. -/
def goIndex (v : Bytes) (i : Nat) : Res UInt8 :=
  match v[i]? with
  | some b => .ok b
  | none => .panic "index out of range"
/-- `bytesToBigInt(v)` reads `v[0]` first. -/
def goBytesToBigInt (v : Bytes) : Res Int :=
  if v.isEmpty then .panic "index out of range [0] with length 0" else .ok (bytesToBigInt v)

/-- a fixed-width getter: assertType, assertLen, convert, advance. -/
def Cur.fixed (c : Cur) (ty tag width : Nat) (conv : Bytes → Res α) : Res (α × Cur) := do
  let it ← c.expect ty tag
  if it.val.length ≠ width then .err .badLength else
  let v ← conv it.val
  let c' ← c.next
  pure (v, c')

def Cur.integer (c : Cur) (tag : Nat) : Res (Int × Cur) :=
  c.fixed 2 tag 4 fun v => do pure (signedOfNat 32 (← goU32 v))
def Cur.longInteger (c : Cur) (tag : Nat) : Res (Int × Cur) :=
  c.fixed 3 tag 8 fun v => do pure (signedOfNat 64 (← goU64 v))
def Cur.enum (c : Cur) (tag : Nat) : Res (Nat × Cur) :=
  c.fixed 5 tag 4 goU32
def Cur.bool (c : Cur) (tag : Nat) : Res (Bool × Cur) :=
  c.fixed 6 tag 8 fun v => do pure ((← goIndex v 7) != 0)
def Cur.dateTime (c : Cur) (tag : Nat) : Res (Int × Cur) :=
  c.fixed 9 tag 8 fun v => do pure (signedOfNat 64 (← goU64 v))
def Cur.interval (c : Cur) (tag : Nat) : Res (Nat × Cur) :=
  c.fixed 10 tag 4 goU32

def Cur.bigInteger (c : Cur) (tag : Nat) : Res (Int × Cur) := do
  let it ← c.expect 4 tag
  if it.val.isEmpty then .err .badLength else
  let v ← goBytesToBigInt it.val
  let c' ← c.next
  pure (v, c')

def Cur.textString (c : Cur) (tag : Nat) : Res (Bytes × Cur) := do
  let it ← c.expect 7 tag
  let c' ← c.next
  pure (it.val, c')

def Cur.byteString (c : Cur) (tag : Nat) : Res (Bytes × Cur) := do
  let it ← c.expect 8 tag
  let c' ← c.next
  pure (it.val, c')

/-- `Struct(tag, f)`: assert, open a validated nested reader on the value, run `f`, advance.
    Whatever `f` leaves unread in the nested reader is dropped (as in the Go code). -/
def Cur.struct (c : Cur) (tag : Nat) (f : Cur → Res α) : Res (α × Cur) := do
  let it ← c.expect 1 tag
  let inner ← Cur.start it.val
  let a ← f inner
  let c' ← c.next
  pure (a, c')

mutual
  /-- `Value.TagDecodeTTLV(d, tag)`. Fuel bounds nesting; the byte length always suffices. -/
  def decodeValue : Nat → Cur → Nat → Res (Item × Cur)
    | 0, _, _ => .err .other
    | fuel + 1, c, tag =>
      match c.ty with
      | 2 => do let (v, c') ← c.integer tag; pure (.int tag v, c')
      | 3 => do let (v, c') ← c.longInteger tag; pure (.long tag v, c')
      | 4 => do let (v, c') ← c.bigInteger tag; pure (.big tag v, c')
      | 6 => do let (v, c') ← c.bool tag; pure (.bool tag v, c')
      | 8 => do let (v, c') ← c.byteString tag; pure (.bytes tag v, c')
      | 9 => do let (v, c') ← c.dateTime tag; pure (.date tag v, c')
      | 5 => do let (v, c') ← c.enum tag; pure (.enum tag v, c')
      | 10 => do let (v, c') ← c.interval tag; pure (.interval tag v, c')
      | 7 => do let (v, c') ← c.textString tag; pure (.text tag v, c')
      | 1 => do
        let (cs, c') ← c.struct tag (fun inner => decodeFields fuel inner)
        pure (.struct tag cs, c')
      | _ => .err .unsupported
  /-- `Struct.TagDecodeTTLV` loop: `for d.Tag() != 0 { field.DecodeTTLV(d) }`.
      A child whose tag is 0 ends the loop (and the remaining children are dropped). -/
  def decodeFields : Nat → Cur → Res (List Item)
    | 0, _ => .err .other
    | fuel + 1, c =>
      if c.tag = 0 then .ok []
      else do
        let (it, c') ← decodeValue fuel c c.tag
        let rest ← decodeFields fuel c'
        pure (it :: rest)
end

/-- `UnmarshalTTLV(bs, &ttlv.Value{})`. -/
def unmarshalValue (bs : Bytes) : Res Item := do
  let c ← Cur.start bs
  let (it, _) ← decodeValue (bs.length + 2) c c.tag
  pure it

end Kmip
