/-
  C10 — a client call only ever receives the response to its own request.

  System: `Kmip.CliConn.sys current` (model of kmipclient/conn.go + client.go as they are now): a caller holding
  the client mutex, a server that answers after any delay or never, I/O faults at any point, cancellation of
  the caller's context at any step, `Close()` concurrent with everything. The theorems are consequences of a
  kernel-checked inductive invariant (the certificate `Gen.CertCliConn.certCurrent`, closed under `step`), so
  they hold for runs of any length and every interleaving of the modelled steps.

  WHAT IS PROVED, AND WHAT IS NOT.
  * Proved (kernel): in the modelled, COLOURED state machine no `stale` token is ever handed to a caller
    (`no_stale_delivery`), no request is ever handed to the writer of a connection on which an exchange has
    been abandoned (`abandoned_conn_not_reused`), the one-stale-token bound is never reached
    (`one_stale_token_suffices`), and the colours are used as the header of `Model/CliConn.lean` says
    (`colour_discipline`: a `cur` token exists only while the caller is inside its exchange, after the hand-off
    to the writer and before it leaves `send`/`recv`; there is at most one; `stale` tokens live only on a
    connection marked tainted; the error channel is used only in `send`'s inner select).
  * NOT proved: that a system with explicit request identities refines the coloured one ("a run in which a
    call gets a foreign response maps to a run in which `K` receives a `stale` token"). That step is an
    argument (data independence + caller symmetry + `colour_discipline`), not a Lean theorem; on the real code
    it is what the echo-identifier oracle of the `lts.cli` engine observes.
  * NOT modelled as an object: the client mutex. There is one caller process `K`; a new call starts only when
    `K` is idle, i.e. `kp ≠ idle` IS "the mutex is held", and callers waiting for it have no state. That
    `doRountrip` really holds `c.lock` across `send`+`recv` is observed by the engine (concurrent followers, a
    caller that gives up while queued for the client), not proved: a change that narrows the critical
    section cannot falsify a theorem of this file.
  * The fusion of no-op steps (`norm`) is part of the system the certificate is about; it is not proved sound
    in Lean but checked by evaluation on every run (`lts.unfused`: the unfused system is explored, the same
    predicates are evaluated on all its states, and `norm` maps every one of them into the certificate).
  * One concurrent `Close()`; the server sends at most one response per request, in order.
  What is proved is a property of the modelled state machine under the encoded semantics of channels,
  `select`, contexts and atomics. That the real code behaves like the model (Go scheduler, net.Conn) is what
  the `lts.cli` engine of the harness observes.

-/
import KmipModel.Lemmas.CliCert
namespace Kmip.C10
open Kmip.CliLts Kmip.CliConn Kmip.Gen.CertCliConn

/-- the certificate contains the initial state and is closed under the successor function
    (16 kernel-evaluated parts, `Lemmas/CliCertCur*.lean`). -/
theorem cliconn_closed : closedUnder (sys current) codec certCurrent := CliCert.current_closed

/-- no state of the certificate is bad. -/
theorem cliconn_safe : safeOn codec (bad current) certCurrent := CliCert.current_safe

/-- 1. No call is ever handed a response that belongs to an abandoned (earlier) exchange: the ghost
    `stale`, set by exactly the `rx` hand-off of a stale token (`delivery_of_stale_is_flagged`), is
    never set. -/
theorem no_stale_delivery {s : St} (h : Reachable (sys current) s) : s.stale = false :=
  (CliCert.current_good h).stale

/-- 2. A connection on which an exchange has been abandoned after its request was handed to the writer
    never carries a later exchange: no request is handed to the writer of a tainted connection. -/
theorem abandoned_conn_not_reused {s : St} (h : Reachable (sys current) s) : s.reused = false :=
  (CliCert.current_good h).reuse

/-- 3. The bound "one stale token per connection" of the model is never exceeded (it loses nothing). -/
theorem one_stale_token_suffices {s : St} (h : Reachable (sys current) s) : s.overflow = false :=
  (CliCert.current_good h).overflow

/-- 4. The colours mean what the model's header says. In every reachable state: a `cur` token (held by the
    writer, pending at the server, in flight, held by the reader) exists only while the caller is inside the
    exchange it has started on this connection; there is at most one; a `stale` token exists only on a
    connection marked tainted; the per-message error channel is non-empty only while the caller waits on it. -/
theorem colour_discipline {s : St} (h : Reachable (sys current) s) :
    (hasCur s = true → inExchange s = true) ∧ curCount s ≤ 1 ∧ (hasStale s = true → s.tainted = true) ∧
    (s.errCh ≠ 0 → s.kp = .k4) := by
  have hc := (CliCert.current_good h).colour
  simp only [badColour, Bool.or_eq_false_iff, Bool.and_eq_false_iff, Bool.not_eq_false', bne_eq_false_iff_eq,
    Nat.blt_eq] at hc
  obtain ⟨⟨⟨h1, h2⟩, h3⟩, h4⟩ := hc
  refine ⟨fun hh => ?_, ?_, fun hh => ?_, fun hh => ?_⟩
  · rcases h1 with h1 | h1
    · rw [hh] at h1; cases h1
    · exact h1
  · have : ¬ 1 < curCount s := by
      intro hlt
      rw [← Nat.blt_eq, h2] at hlt
      cases hlt
    omega
  · rcases h3 with h3 | h3
    · rw [hh] at h3; cases h3
    · exact h3
  · rcases h4 with h4 | h4
    · exact absurd h4 hh
    · exact h4

/-! ### the ghosts mean what they say -/

/-- whenever the caller is in `recv`'s select and the reader holds a stale response, the hand-off is a
    possible step, it makes the call return a response, and it is flagged. -/
theorem delivery_of_stale_is_flagged (p : Params) (s : St) (hk : s.kp = .k6) (hr : s.rp = .r2s) :
    ∃ t ∈ stepK p s, t.stale = true ∧ t.kp = .retOk := by
  refine ⟨kResult { s with rp := .r0, stale := true } 0, ?_, rfl, rfl⟩
  simp [stepK, hk, hr]

/-- handing a request to the writer of a tainted connection is flagged. -/
theorem reuse_is_flagged (p : Params) (s : St) (hk : s.kp = .k3o) (hw : s.wp = .ws) (ht : s.tainted = true) :
    ∃ t ∈ stepK p s, t.reused = true ∧ t.kp = .k4 := by
  refine ⟨{ s with wp := .w1c, kp := .k4, errCh := 0, ntx := min 5 (s.ntx + 1),
                   reused := s.reused || s.tainted }, ?_, by simp [ht], rfl⟩
  simp [stepK, hk, hw]

/-- a token recoloured by `abandon` is no longer `cur`: after the caller has left its exchange nothing on the
    connection is attributed to it (this is the step at which identities are forgotten). -/
theorem abandon_leaves_no_cur (s : St) : hasCur (abandon s) = false := by
  have hw : ∀ w : WP, wHasCur (wRecol w) = false := by intro w; cases w <;> rfl
  have hq : ∀ q : Q, qHasCur (qRecol q) = false := by
    intro q
    unfold qRecol qHasCur
    split <;> simp_all
  have hr : ∀ r : RP, (rRecol r == .r2c) = false := by intro r; cases r <;> rfl
  simp [hasCur, abandon, hw, hq, hr]

/-! ### non-vacuity: calls do complete, and stale tokens do exist -/

/-- a call that gets its own response (dial, send, server answers, read, hand-off). -/
example : ∃ s, Reachable (sys current) s ∧ s.kp = .retOk ∧ s.stale = false :=
  ⟨endOf (sys current) [0, 0, 0, 0, 0, 0, 0, 0, 0, 0, 2, 0, 0, 3, 0, 0],
    reachable_endOf _ (by decide +kernel), by decide +kernel, by decide +kernel⟩

/-- a call is cancelled between send and receive: the connection is tainted, its context cancelled,
    and the late response is in the system as a stale token. -/
example : ∃ s, Reachable (sys current) s ∧ s.tainted = true ∧ s.cause ≠ 0 ∧ hasStale s = true :=
  ⟨endOf (sys current) [0, 0, 0, 0, 0, 0, 0, 1, 0, 1, 0, 0],
    reachable_endOf _ (by decide +kernel), by decide +kernel, by decide +kernel, by decide +kernel⟩

/-! ### the behaviour before the repairs -/

/-- the code before aa61431 (`recv` returns the context error from its availability check without
    terminating the connection). -/
def beforeRecvFix : Params := { current with recvCheckTearsDown := false }

/-- Before aa61431 a stale response IS delivered: call 1 is cancelled between `send` and `recv`, the
    connection stays in use, call 2 sends on it and receives the response to call 1. -/
theorem old_recv_check_delivers_stale : ∃ s, Reachable (sys beforeRecvFix) s ∧ s.stale = true :=
  ⟨endOf (sys beforeRecvFix)
      [0, 0, 0, 0, 0, 0, 0, 0, 0, 0, 0, 2, 0, 0, 0, 0, 0, 0, 0, 0, 0, 0, 2, 0, 2, 0, 0, 0],
    reachable_endOf _ (by decide +kernel), by decide +kernel⟩

/-- … and the connection of the abandoned exchange is used for the next exchange. -/
theorem old_recv_check_reuses_conn : ∃ s, Reachable (sys beforeRecvFix) s ∧ s.reused = true :=
  ⟨endOf (sys beforeRecvFix) [0, 0, 0, 0, 0, 0, 0, 1, 0, 1, 3, 0, 0, 0, 1, 1, 0, 0, 0, 0, 0],
    reachable_endOf _ (by decide +kernel), by decide +kernel⟩

end Kmip.C10
