/-
  Lemmas about the client's interpretation of responses (`Model/ClientResp.lean`).
-/
import KmipModel.Model.ClientResp
namespace Kmip.Resp

/-! ### `EnumStr` is injective on tables without repeated names -/

/-- two values never share a name. -/
def NameInj (tbl : List (Nat × Nat)) : Prop :=
  ∀ v w n, tbl.lookup v = some n → tbl.lookup w = some n → v = w

theorem mem_of_lookup {tbl : List (Nat × Nat)} {v n : Nat} (h : tbl.lookup v = some n) : (v, n) ∈ tbl := by
  induction tbl with
  | nil => simp [List.lookup] at h
  | cons e es ih =>
    obtain ⟨a, b⟩ := e
    by_cases hva : v = a
    · subst hva
      simp [List.lookup] at h
      subst h
      exact List.mem_cons_self ..
    · have : (v == a) = false := by simp [hva]
      simp only [List.lookup, this] at h
      exact List.mem_cons_of_mem _ (ih h)

theorem eq_of_mem_nodup_snd : ∀ (tbl : List (Nat × Nat)), (tbl.map Prod.snd).Nodup →
    ∀ v w n, (v, n) ∈ tbl → (w, n) ∈ tbl → v = w
  | [], _, _, _, _, h, _ => by simp at h
  | (a, b) :: es, hnd, v, w, n, hv, hw => by
    simp only [List.map_cons, List.nodup_cons] at hnd
    rcases List.mem_cons.1 hv with hv | hv
    · rcases List.mem_cons.1 hw with hw | hw
      · rw [Prod.mk.injEq] at hv hw; exact hv.1.trans hw.1.symm
      · rw [Prod.mk.injEq] at hv
        have : n ∈ es.map Prod.snd := List.mem_map.2 ⟨(w, n), hw, rfl⟩
        rw [hv.2] at this
        exact absurd this hnd.1
    · rcases List.mem_cons.1 hw with hw | hw
      · rw [Prod.mk.injEq] at hw
        have : n ∈ es.map Prod.snd := List.mem_map.2 ⟨(v, n), hv, rfl⟩
        rw [hw.2] at this
        exact absurd this hnd.1
      · exact eq_of_mem_nodup_snd es hnd.2 v w n hv hw

theorem nameInj_of_nodup (tbl : List (Nat × Nat)) (h : (tbl.map Prod.snd).Nodup) : NameInj tbl :=
  fun v w n hv hw => eq_of_mem_nodup_snd tbl h v w n (mem_of_lookup hv) (mem_of_lookup hw)

theorem enumStr_inj {tbl : List (Nat × Nat)} (h : NameInj tbl) {v w : Nat}
    (he : enumStr tbl v = enumStr tbl w) : v = w := by
  unfold enumStr at he
  cases hv : tbl.lookup v with
  | none =>
    cases hw : tbl.lookup w with
    | none => rw [hv, hw] at he; simpa using he
    | some m => rw [hv, hw] at he; simp at he
  | some n =>
    cases hw : tbl.lookup w with
    | none => rw [hv, hw] at he; simp at he
    | some m =>
      rw [hv, hw] at he
      simp only [EStr.name.injEq] at he
      subst he
      exact h v w n hv hw

theorem statusNames_inj : NameInj statusNames := nameInj_of_nodup _ (by decide +kernel)
theorem reasonNames_inj : NameInj reasonNames := nameInj_of_nodup _ (by decide +kernel)
theorem operationNames_inj : NameInj operationNames := nameInj_of_nodup _ (by decide +kernel)

/-! ### `ResponseBatchItem.Err` -/

theorem Item.err_eq_none (t : Tables) (bi : Item) : bi.err t = none ↔ bi.status = statusSuccess := by
  unfold Item.err
  by_cases h : bi.status = statusSuccess <;> simp [h]

theorem Item.err_of_failed (t : Tables) (bi : Item) (h : bi.status ≠ statusSuccess) :
    bi.err t = some (.item (enumStr t.ops bi.op) (enumStr t.status bi.status) (enumStr t.reasons bi.reason) bi.msg) := by
  simp [Item.err, h]

/-! ### `BatchOpt` -/

theorem batchOpt_msg (n : Nat) (h : Int) (items : List Item) :
    batchOpt n (.msg h items) =
      if h ≠ (items.length : Int) ∨ items.length ≠ n then .err .countMismatch else .ok items := rfl

theorem batchOpt_ne_panic (n : Nat) (rt : RoundTrip) : batchOpt n rt ≠ .panic := by
  cases rt with
  | fail => simp [batchOpt]
  | msg h items =>
    rw [batchOpt_msg]
    split <;> simp

theorem batchOpt_ok_iff (n : Nat) (rt : RoundTrip) (items : List Item) :
    batchOpt n rt = .ok items ↔ (rt = .msg (items.length : Int) items ∧ items.length = n) := by
  cases rt with
  | fail => simp [batchOpt]
  | msg h its =>
    rw [batchOpt_msg]
    by_cases hc : h ≠ (its.length : Int) ∨ its.length ≠ n
    · rw [if_pos hc]
      constructor
      · intro h'; cases h'
      · intro ⟨h1, h2⟩
        cases h1
        omega
    · rw [if_neg hc]
      constructor
      · intro h'
        simp only [Res.ok.injEq] at h'
        subst h'
        refine ⟨?_, by omega⟩
        have : h = (its.length : Int) := by omega
        rw [this]
      · intro ⟨h1, _⟩
        cases h1
        rfl

theorem batchOpt_err (n : Nat) (h : Int) (items : List Item) (hc : h ≠ (items.length : Int) ∨ items.length ≠ n) :
    batchOpt n (.msg h items) = .err .countMismatch := by
  simp [batchOpt, hc]

/-! ### `Request` -/

/-- the part of `Request` after `bi := resp[0]`. -/
theorem request_msg_one (t : Tables) (reqOp : Nat) (bi : Item) :
    request t reqOp (.msg 1 [bi]) =
      match bi.err t with
      | some e => .err e
      | none =>
        match bi.payload with
        | none => .err .missingPayload
        | some p =>
          if p.operation ≠ reqOp then .err (.wrongOperation (enumStr t.ops p.operation) (enumStr t.ops reqOp))
          else .ok p := by
  simp [request, batchOpt]
  rfl

theorem request_counts (t : Tables) (reqOp : Nat) (h : Int) (items : List Item)
    (hc : h ≠ 1 ∨ items.length ≠ 1) : request t reqOp (.msg h items) = .err .countMismatch := by
  have : h ≠ (items.length : Int) ∨ items.length ≠ 1 := by omega
  simp [request, batchOpt_err 1 h items this]

theorem msg_one_of_counts (h : Int) (items : List Item) (hc : ¬ (h ≠ 1 ∨ items.length ≠ 1)) :
    ∃ bi, RoundTrip.msg h items = .msg 1 [bi] := by
  have h1 : h = 1 := by omega
  have h2 : items.length = 1 := by omega
  match items, h2 with
  | [bi], _ => exact ⟨bi, by rw [h1]⟩

theorem request_ne_panic (t : Tables) (reqOp : Nat) (rt : RoundTrip) : request t reqOp rt ≠ .panic := by
  cases rt with
  | fail => simp [request, batchOpt]
  | msg h items =>
    by_cases hc : h ≠ 1 ∨ items.length ≠ 1
    · rw [request_counts t reqOp h items hc]; simp
    · obtain ⟨bi, hbi⟩ := msg_one_of_counts h items hc
      rw [hbi, request_msg_one]
      cases bi.err t with
      | some e => simp
      | none =>
        cases bi.payload with
        | none => simp
        | some p =>
          simp only
          split <;> simp

/-- `Request` succeeds exactly on a one-item response (header count 1) whose item is a success and
    carries a payload of the requested operation; it then returns that payload. -/
theorem request_ok_iff (t : Tables) (reqOp : Nat) (rt : RoundTrip) (p : Payload) :
    request t reqOp rt = .ok p ↔
      ∃ bi, rt = .msg 1 [bi] ∧ bi.status = statusSuccess ∧ bi.payload = some p ∧ p.operation = reqOp := by
  constructor
  · intro h
    cases rt with
    | fail => simp [request, batchOpt] at h
    | msg hc items =>
      by_cases hcnt : hc ≠ 1 ∨ items.length ≠ 1
      · rw [request_counts t reqOp hc items hcnt] at h; cases h
      · obtain ⟨bi, hbi⟩ := msg_one_of_counts hc items hcnt
        refine ⟨bi, hbi, ?_⟩
        rw [hbi, request_msg_one] at h
        cases he : bi.err t with
        | some e => rw [he] at h; cases h
        | none =>
          rw [he] at h
          have hst := (Item.err_eq_none t bi).1 he
          cases hp : bi.payload with
          | none => rw [hp] at h; cases h
          | some q =>
            rw [hp] at h
            simp only at h
            by_cases hop : q.operation ≠ reqOp
            · rw [if_pos hop] at h; cases h
            · rw [if_neg hop] at h
              cases h
              exact ⟨hst, rfl, by simpa using hop⟩
  · intro ⟨bi, hrt, hst, hp, hop⟩
    rw [hrt, request_msg_one, (Item.err_eq_none t bi).2 hst, hp]
    simp [hop]

/-- a failed (pending, undone, unknown status …) item is returned as the item's error. -/
theorem request_failed (t : Tables) (reqOp : Nat) (bi : Item) (h : bi.status ≠ statusSuccess) :
    request t reqOp (.msg 1 [bi]) =
      .err (.item (enumStr t.ops bi.op) (enumStr t.status bi.status) (enumStr t.reasons bi.reason) bi.msg) := by
  rw [request_msg_one, Item.err_of_failed t bi h]

theorem request_missing (t : Tables) (reqOp : Nat) (bi : Item) (h : bi.status = statusSuccess)
    (hp : bi.payload = none) : request t reqOp (.msg 1 [bi]) = .err .missingPayload := by
  rw [request_msg_one, (Item.err_eq_none t bi).2 h, hp]

theorem request_foreign (t : Tables) (reqOp : Nat) (bi : Item) (p : Payload) (h : bi.status = statusSuccess)
    (hp : bi.payload = some p) (hop : p.operation ≠ reqOp) :
    request t reqOp (.msg 1 [bi]) = .err (.wrongOperation (enumStr t.ops p.operation) (enumStr t.ops reqOp)) := by
  rw [request_msg_one, (Item.err_eq_none t bi).2 h, hp]
  simp [hop]

/-! ### `ExecContext` -/

theorem exec_ne_panic (t : Tables) (reqOp : Nat) (b : Bool) (rt : RoundTrip) : exec t reqOp b rt ≠ .panic := by
  unfold exec
  cases b with
  | false => simp
  | true =>
    simp only [Bool.not_true, Bool.false_eq_true, if_false]
    have := request_ne_panic t reqOp rt
    cases h : request t reqOp rt with
    | ok p => simp only; split <;> simp
    | err e => simp
    | panic => exact absurd h this

theorem exec_ok_iff (t : Tables) (reqOp : Nat) (b : Bool) (rt : RoundTrip) (p : Payload) :
    exec t reqOp b rt = .ok p ↔
      (b = true ∧ p = .resp reqOp ∧
        ∃ bi, rt = .msg 1 [bi] ∧ bi.status = statusSuccess ∧ bi.payload = some (.resp reqOp)) := by
  unfold exec
  cases b with
  | false => simp
  | true =>
    simp only [Bool.not_true, Bool.false_eq_true, if_false, true_and]
    cases h : request t reqOp rt with
    | ok q =>
      simp only
      have hq := (request_ok_iff t reqOp rt q).1 h
      by_cases hqr : q = .resp reqOp
      · rw [if_pos hqr]
        subst hqr
        constructor
        · intro h'
          cases h'
          obtain ⟨bi, h1, h2, h3, _⟩ := hq
          exact ⟨rfl, bi, h1, h2, h3⟩
        · intro ⟨h', _⟩; rw [h']
      · rw [if_neg hqr]
        constructor
        · intro h'; cases h'
        · intro ⟨h', bi, h1, h2, h3⟩
          exfalso
          have : request t reqOp rt = .ok (.resp reqOp) :=
            (request_ok_iff t reqOp rt _).2 ⟨bi, h1, h2, h3, rfl⟩
          rw [h] at this
          cases this
          exact hqr rfl
    | err e =>
      simp only
      constructor
      · intro h'; cases h'
      · intro ⟨_, bi, h1, h2, h3⟩
        have : request t reqOp rt = .ok (.resp reqOp) :=
          (request_ok_iff t reqOp rt _).2 ⟨bi, h1, h2, h3, rfl⟩
        rw [h] at this
        cases this
    | panic => exact absurd h (request_ne_panic t reqOp rt)

/-- whatever `Request` refuses, `ExecContext` refuses with the same error. -/
theorem exec_err_of_request (t : Tables) (reqOp : Nat) (rt : RoundTrip) (e : Err)
    (h : request t reqOp rt = .err e) : exec t reqOp true rt = .err e := by
  simp [exec, h]

/-! ### `Unwrap` -/

theorem unwrap_fst (t : Tables) (items : List Item) : (unwrap t items).1 = items.map (·.payload) := by
  induction items with
  | nil => rfl
  | cons bi rest ih => simp [unwrap, ih]

theorem unwrap_snd (t : Tables) (items : List Item) : (unwrap t items).2 = items.filterMap (·.err t) := by
  induction items with
  | nil => rfl
  | cons bi rest ih =>
    simp only [unwrap, List.filterMap_cons, ih]
    cases bi.err t <;> rfl

theorem unwrap_no_error_iff (t : Tables) (items : List Item) :
    (unwrap t items).2 = [] ↔ ∀ bi, bi ∈ items → bi.status = statusSuccess := by
  rw [unwrap_snd]
  induction items with
  | nil => simp
  | cons bi rest ih =>
    simp only [List.filterMap_cons, List.mem_cons]
    cases he : bi.err t with
    | none =>
      simp only
      rw [ih]
      have := (Item.err_eq_none t bi).1 he
      constructor
      · intro h b hb
        rcases hb with rfl | hb
        · exact this
        · exact h b hb
      · intro h b hb; exact h b (.inr hb)
    | some e =>
      simp only
      constructor
      · intro h; cases h
      · intro h
        have := (Item.err_eq_none t bi).2 (h bi (.inl rfl))
        rw [he] at this
        cases this

theorem batchUnwrap_ne_panic (t : Tables) (reqOps : List Nat) (rt : RoundTrip) :
    batchUnwrap t reqOps rt ≠ .panic := by
  unfold batchUnwrap
  have := batchOpt_ne_panic reqOps.length rt
  cases h : batchOpt reqOps.length rt with
  | ok items => simp
  | err e => simp
  | panic => exact absurd h this

theorem batchUnwrap_ok_iff (t : Tables) (reqOps : List Nat) (rt : RoundTrip)
    (r : List (Option Payload) × List Err) :
    batchUnwrap t reqOps rt = .ok r ↔
      ∃ items, rt = .msg (items.length : Int) items ∧ items.length = reqOps.length ∧ r = unwrap t items := by
  unfold batchUnwrap
  cases h : batchOpt reqOps.length rt with
  | ok items =>
    have hi := (batchOpt_ok_iff _ _ _).1 h
    simp only [Res.ok.injEq]
    constructor
    · intro h'; exact ⟨items, hi.1, hi.2, h'.symm⟩
    · intro ⟨its, h1, _, h3⟩
      rw [hi.1] at h1
      simp only [RoundTrip.msg.injEq] at h1
      rw [h3, h1.2]
  | err e =>
    simp only
    constructor
    · intro h'; cases h'
    · intro ⟨its, h1, h2, _⟩
      have := (batchOpt_ok_iff reqOps.length rt its).2 ⟨h1, h2⟩
      rw [h] at this
      cases this
  | panic => exact absurd h (batchOpt_ne_panic _ _)

end Kmip.Resp
