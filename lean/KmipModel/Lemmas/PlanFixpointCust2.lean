/-
  C18 (typed layer) — the hand-written decoders of the reflectively ENCODED structs (Attribute, Get
  response, Register request, Export response, Import request): whatever they accept has a conforming
  twin the encoder cannot tell from it (`FCust` instances, one lemma per codec).
-/
import KmipModel.Lemmas.PlanFixpointQuiet
import KmipModel.Lemmas.PlanFixpoint2
namespace Kmip
set_option linter.unusedVariables false

/-! ## 1. The field loop, one field at a time -/

/-- decoded fields `vs`, their twins `ws` with normal form `ws'`: same items, same final cell. -/
def fxb_F (S : Schema) (n : Nat) (fs : List Field) (vs ws ws' : List Val) (ver ver' : Option Ver)
    (items : List Item) : Prop :=
  normFields S n fs ws ver = some (ws', ver') ∧ encFields S n fs vs ver = .ok (items, ver')
    ∧ encFields S n fs ws ver = .ok (items, ver')

theorem fxb_F_nil (S : Schema) (n : Nat) (ver : Option Ver) : fxb_F S (n + 1) [] [] [] [] ver ver [] :=
  ⟨normFields_nil .., encFields_nil .., encFields_nil ..⟩

theorem fxb_F_plain (S : Schema) (n : Nat) (f : Field) (t : Nat) (hp : f.plainWith t = true)
    (fs : List Field) (v w w' : Val) (vs ws ws' : List Val) (ver ver1 ver' : Option Ver) (a b : List Item)
    (hn : normK S n f.kind t w ver = some (w', ver1))
    (he : encK S n f.kind t v ver = .ok (a, ver1))
    (hew : encK S n f.kind t w ver = .ok (a, ver1))
    (hr : fxb_F S n fs vs ws ws' ver1 ver' b) :
    fxb_F S (n + 1) (f :: fs) (v :: vs) (w :: ws) (w' :: ws') ver ver' (a ++ b) := by
  obtain ⟨h1, h2, h3⟩ := hr
  refine ⟨?_, ?_, ?_⟩
  · rw [normFields_plain_cons S n f t hp]; simp only [hn, h1]
  · rw [encFields_plain_cons S n f t hp]; simp only [he, Res.ok_bind, h2, Res.pure_eq]
  · rw [encFields_plain_cons S n f t hp]; simp only [hew, Res.ok_bind, h3, Res.pure_eq]

/-- the object behind the untagged interface field, under its dynamic type's default tag. -/
theorem fxb_F_obj (S : Schema) (n : Nat) (fs : List Field) (d : Nat) (x wx wx' : Val)
    (vs ws ws' : List Val) (ver ver1 ver' : Option Ver) (a b : List Item)
    (hok : dynValOk (S.dyn d).kind wx = true)
    (hn : normK S n (S.dyn d).kind (S.dyn d).defTag wx ver = some (wx', ver1))
    (he : encK S n (S.dyn d).kind (S.dyn d).defTag x ver = .ok (a, ver1))
    (hew : encK S n (S.dyn d).kind (S.dyn d).defTag wx ver = .ok (a, ver1))
    (hr : fxb_F S (n + 1) fs vs ws ws' ver1 ver' b) :
    fxb_F S (n + 1 + 1) (objField :: fs) (.iface (some (d, x)) :: vs) (.iface (some (d, wx)) :: ws)
      (.iface (some (d, wx')) :: ws') ver ver' (a ++ b) := by
  obtain ⟨h1, h2, h3⟩ := hr
  refine ⟨?_, ?_, ?_⟩
  · rw [normFields_obj_cons, normK_iface]
    simp only [dynTagOf, hok, if_true, hn, h1]
  · rw [encFields_obj_cons, encK_iface_some]
    simp only [dynTagOf, he, Res.ok_bind, h2, Res.pure_eq]
  · rw [encFields_obj_cons, encK_iface_some]
    simp only [dynTagOf, hew, Res.ok_bind, h3, Res.pure_eq]

/-- from the field loop to the struct. -/
theorem fxb_wrap (S : Schema) (id tag m : Nat) (vs ws ws' : List Val) (ver ver' : Option Ver)
    (items : List Item) (hec : (S.structDef id).encCustom = false)
    (fs : List Field) (hfs : (S.structDef id).fields = fs) (hF : fxb_F S m fs vs ws ws' ver ver' items)
    (hok : customOk S (S.structDef id).custom (.struct ws') = true) :
    normK S (m + 1) (.struct id) tag (.struct ws) ver = some (.struct ws', ver')
      ∧ encK S (m + 1) (.struct id) tag (.struct vs) ver = .ok ([.struct tag items], ver')
      ∧ encK S (m + 1) (.struct id) tag (.struct ws) ver = .ok ([.struct tag items], ver') := by
  subst hfs
  obtain ⟨h1, h2, h3⟩ := hF
  refine ⟨?_, ?_, ?_⟩
  · rw [normK_struct]
    simp only [hec, Bool.false_eq_true, if_false, h1, hok, Bool.or_true, if_true]
  · rw [encK_struct]
    simp only [hec, Bool.false_eq_true, if_false, h2, Res.ok_bind, Res.pure_eq]
  · rw [encK_struct]
    simp only [hec, Bool.false_eq_true, if_false, h3, Res.ok_bind, Res.pure_eq]

theorem fxb_text (S : Schema) (n t : Nat) (s : Bytes) (ver : Option Ver) :
    normK S (n + 1) .text t (.text s) ver = some (.text s, ver)
      ∧ encK S (n + 1) .text t (.text s) ver = .ok ([.text t s], ver) := by
  constructor
  · simp only [normK]
  · simp only [encK]

/-- vacuity of the attribute observation for the codecs that are not `Attribute`. -/
theorem fxb_obs_vac (S : Schema) (id : Nat) (v w' : Val) (h : (S.structDef id).custom ≠ Cust.attr) :
    obsRel S (.struct id) v w' := by
  unfold obsRel
  intro ha
  exact absurd ha.2 h

/-! ## 2. Attribute -/

theorem fxb_shape_attr {S : Schema} {d : StructDef} (hcode : d.custom = Cust.attr)
    (hshape : S.customShapeOK d = true) : d.encCustom = false ∧ d.fields = attrFields := by
  unfold Schema.customShapeOK at hshape
  rw [hcode] at hshape
  simp only [Cust.attr, Cust.requestBatchItem, Cust.responseBatchItem, Cust.unknownPayload] at hshape
  simp only [Nat.reduceEqDiff, if_false, if_true, Bool.and_eq_true, beq_iff_eq, Bool.not_eq_true'] at hshape
  exact hshape

/-- what the hand-written decoder of Attribute did, step by step. -/
theorem fxb_attr_inv {S : Schema} {fd id tag : Nat} {c c' : Cur} {ver ver' : Option Ver} {v : Val}
    (h : decCustom S (fd + 1) Cust.attr id tag c ver = .ok (v, c', ver')) :
    ∃ name idx c2 x c3, (idx = .ptr none ∨ ∃ i, idx = .ptr (some (.int i)) ∧ inInt 32 i)
      ∧ decDyn S fd (S.attrDyn name) T.attributeValue c2 ver = .ok (x, c3, ver')
      ∧ v = .struct [.text name, idx, x] := by
  rw [decCustom_attr] at h
  obtain ⟨it, _, h⟩ := Res.bind_eq_ok h
  obtain ⟨c0, _, h⟩ := Res.bind_eq_ok h
  obtain ⟨⟨v0, ver0⟩, hin, h⟩ := Res.bind_eq_ok h
  obtain ⟨c9, _, h⟩ := Res.bind_eq_ok h
  simp only [Res.pure_eq, Res.ok.injEq, Prod.mk.injEq] at h
  obtain ⟨rfl, rfl, rfl⟩ := h
  obtain ⟨⟨name, c1⟩, _, hin⟩ := Res.bind_eq_ok hin
  dsimp only at hin
  split at hin
  · obtain ⟨⟨i, c2⟩, hi, hin⟩ := Res.bind_eq_ok hin
    obtain ⟨⟨idx, c2', v2⟩, hp, hin⟩ := Res.bind_eq_ok hin
    simp only [Res.pure_eq, Res.ok.injEq, Prod.mk.injEq] at hp
    obtain ⟨rfl, rfl, rfl⟩ := hp
    obtain ⟨⟨x, c3, v3⟩, hx, hin⟩ := Res.bind_eq_ok hin
    simp only [Res.pure_eq, Res.ok.injEq, Prod.mk.injEq] at hin
    obtain ⟨rfl, rfl⟩ := hin
    exact ⟨name, _, _, x, c3, Or.inr ⟨i, rfl, Cur.integer_inv hi⟩, hx, rfl⟩
  · obtain ⟨⟨idx, c2', v2⟩, hp, hin⟩ := Res.bind_eq_ok hin
    simp only [Res.ok.injEq, Prod.mk.injEq] at hp
    obtain ⟨rfl, rfl, rfl⟩ := hp
    obtain ⟨⟨x, c3, v3⟩, hx, hin⟩ := Res.bind_eq_ok hin
    simp only [Res.pure_eq, Res.ok.injEq, Prod.mk.injEq] at hin
    obtain ⟨rfl, rfl⟩ := hin
    exact ⟨name, _, _, x, c3, Or.inl rfl, hx, rfl⟩

theorem fxb_idx_triple (S : Schema) (n t : Nat) (idx : Val) (ver : Option Ver)
    (h : idx = .ptr none ∨ ∃ i, idx = .ptr (some (.int i)) ∧ inInt 32 i) :
    ∃ a, normK S (n + 1 + 1) (.ptr .i32) t idx ver = some (idx, ver)
      ∧ encK S (n + 1 + 1) (.ptr .i32) t idx ver = .ok (a, ver) := by
  rcases h with rfl | ⟨i, rfl, hi⟩
  · exact ⟨[], by rw [normK_ptr], encK_ptr_none ..⟩
  · refine ⟨[.int t i], ?_, ?_⟩
    · rw [normK_ptr]
      simp only [Kind.definite, Kind.scalar, if_true, normK, if_pos hi]
    · rw [encK_ptr_some]; simp only [encK]

theorem fcust_attr (S : Schema) (N : Nat) (hU : S.unambiguous = true) (hX : FixOK S N) (fd : Nat)
    (hK : ∀ m, m ≤ fd → FK S m) (hD : ∀ m, m ≤ fd → FDyn S m)
    (id tag : Nat) (c : Cur) (ver : Option Ver) (v : Val) (c' : Cur) (ver' : Option Ver)
    (hdc : (S.structDef id).decCustom = true) (hcode : (S.structDef id).custom = Cust.attr)
    (hshape : S.customShapeOK (S.structDef id) = true)
    (htag : S.kindTagOK (.struct id) tag = true)
    (h : decCustom S (fd + 1) Cust.attr id tag c ver = .ok (v, c', ver'))
    (hfd : v.edepth ≤ fd + 2) (hg : goodU S (.struct id) v = true) :
    ∀ n, v.edepth ≤ n → ∃ w w' items, normK S n (.struct id) tag w ver = some (w', ver')
      ∧ encK S n (.struct id) tag v ver = .ok (items, ver') ∧ encK S n (.struct id) tag w ver = .ok (items, ver')
      ∧ intView w' = none ∧ obsRel S (.struct id) v w' := by
  intro n hn
  obtain ⟨hec, hF⟩ := fxb_shape_attr hcode hshape
  obtain ⟨name, idx, c2, x, c3, hidx, hx, rfl⟩ := fxb_attr_inv h
  simp only [goodU, hec, Bool.false_and, Bool.false_eq_true, if_false, hF, attrFields, List.map, goodL,
    Bool.and_eq_true] at hg
  simp only [Val.edepth, Val.edepthList] at hfd
  obtain ⟨x0, rfl, hok0, hdyn⟩ := hD fd (Nat.le_refl _) _ _ _ _ _ _ _ (attrDyn_mem_ctx S name) hx
    (by omega) hg.2.2.1
  simp only [Val.edepth, Val.edepthList] at hn
  obtain ⟨m, rfl⟩ : ∃ m, n = m + 1 + 1 + 1 + 1 + 1 := ⟨n - 5, by omega⟩
  obtain ⟨wx, wx', a2, hn2, he2, hew2, hokw, hint⟩ := hdyn m (by omega)
  rw [if_neg (by decide : ¬ T.attributeValue = 0)] at hn2 he2 hew2
  obtain ⟨a1, hn1, he1⟩ := fxb_idx_triple S m T.attributeIndex idx ver hidx
  obtain ⟨hn0, he0⟩ := fxb_text S (m + 1 + 1) T.attributeName name ver
  -- the value field (tagged interface)
  have hF2 : fxb_F S (m + 1 + 1) [{ tag := T.attributeValue, kind := .iface }]
      [.iface (some (S.attrDyn name, x0))] [.iface (some (S.attrDyn name, wx))]
      [.iface (some (S.attrDyn name, wx'))] ver ver' (a2 ++ []) := by
    refine fxb_F_plain S (m + 1) _ T.attributeValue rfl [] _ _ _ [] [] [] ver ver' ver' a2 [] ?_ ?_ ?_
      (fxb_F_nil S m ver')
    · rw [normK_iface]; simp only [hokw, if_true, hn2]
    · rw [encK_iface_some]; exact he2
    · rw [encK_iface_some]; exact hew2
  have hF1 := fxb_F_plain S (m + 1 + 1) { tag := T.attributeIndex, kind := .ptr .i32 } T.attributeIndex rfl
    _ idx idx idx _ _ _ ver ver ver' a1 _ hn1 he1 he1 hF2
  have hF0 := fxb_F_plain S (m + 1 + 1 + 1) { tag := T.attributeName, kind := .text } T.attributeName rfl
    _ (.text name) (.text name) (.text name) _ _ _ ver ver ver' _ _ hn0 he0 he0 hF1
  have hcok : customOk S (S.structDef id).custom
      (.struct [.text name, idx, .iface (some (S.attrDyn name, wx'))]) = true := by
    rw [hcode, customOk_attr]
    simp only [Val.field, List.getD_cons_zero, List.getD_cons_succ, beq_self_eq_true]
  obtain ⟨r1, r2, r3⟩ := fxb_wrap S id tag _ _ _ _ ver ver' _ hec _ hF hF0 hcok
  refine ⟨_, _, _, r1, r2, r3, rfl, ?_⟩
  unfold obsRel
  intro _
  simp only [obsAttr, Val.field, List.getD_cons_zero, List.getD_cons_succ, hint]

/-! ## 3. Scalar members -/

/-- a scalar member: the twin is the decoded value, the cell is untouched. -/
theorem fxb_scalar (S : Schema) (fd : Nat) (k : Kind) (hk : k.scalar = true) (hnn : k.noNarrow = true)
    (tag : Nat) (c : Cur) (ver : Option Ver) (v : Val) (c' : Cur) (ver' : Option Ver)
    (h : decK S fd k tag c ver = .ok (v, c', ver')) :
    ver' = ver ∧ ∀ n w0, ∃ it, normK S (n + 1) k tag v w0 = some (v, w0)
      ∧ encK S (n + 1) k tag v w0 = .ok ([it], w0) := by
  obtain ⟨rfl, hnorm⟩ := dec_scalar S fd k hk hnn tag c ver v c' ver' h
  refine ⟨rfl, fun n w0 => ?_⟩
  obtain ⟨_, it, he, _⟩ := scalar_rt S n k hk tag v v w0 w0 (hnorm n w0)
  exact ⟨it, hnorm n w0, he⟩

theorem fxb_enum_int (S : Schema) (fd : Nat) (k : Kind) (hk : k.isEnum = true)
    (tag : Nat) (c : Cur) (ver : Option Ver) (v : Val) (c' : Cur) (ver' : Option Ver)
    (h : decK S fd k tag c ver = .ok (v, c', ver')) : ∃ x, v = .int x := by
  obtain ⟨t, rfl⟩ := isEnum_iff hk
  cases fd with
  | zero => rw [decK_zero] at h; contradiction
  | succ fd =>
    simp only [decK] at h
    obtain ⟨⟨x, c1⟩, _, h2⟩ := Res.bind_eq_ok h
    simp only [Res.pure_eq, Res.ok.injEq, Prod.mk.injEq] at h2
    exact ⟨_, h2.1.symm⟩

theorem fxb_enum_nn {k : Kind} (hk : k.isEnum = true) : k.noNarrow = true := by
  obtain ⟨t, rfl⟩ := isEnum_iff hk; rfl

/-! ## 4. Get response -/

theorem fxb_shape_get {S : Schema} {d : StructDef} (hcode : d.custom = Cust.getResponse)
    (hshape : S.customShapeOK d = true) :
    d.encCustom = false ∧ ∃ g0 g1, d.fields = [g0, g1, objField]
      ∧ g0.plainWith T.objectType = true ∧ g0.kind.isEnum = true
      ∧ g1.plainWith T.uniqueIdentifier = true ∧ g1.kind = .text := by
  unfold Schema.customShapeOK at hshape
  rw [hcode] at hshape
  simp only [Cust.getResponse, Cust.attr, Cust.requestBatchItem, Cust.responseBatchItem, Cust.unknownPayload,
    Cust.credential, Cust.keyBlock] at hshape
  simp only [Nat.reduceEqDiff, if_false, if_true, Bool.and_eq_true, beq_iff_eq, Bool.not_eq_true',
    and_assoc] at hshape
  obtain ⟨hec, hlen, h0, h0k, h1, h1k, h2⟩ := hshape
  have hF := list_len3 hlen fieldDflt
  rw [h2] at hF
  exact ⟨hec, _, _, hF, h0, h0k, h1, h1k⟩

theorem fxb_get_inv {S : Schema} {fd id tag : Nat} {c c' : Cur} {ver ver' : Option Ver} {v : Val}
    (h : decCustom S (fd + 1) Cust.getResponse id tag c ver = .ok (v, c', ver')) :
    ∃ ot uid obj c0 c1 c2 c3 v1 v2 d,
      decK S fd ((S.structDef id).fields.getD 0 fieldDflt).kind T.objectType c0 ver = .ok (ot, c1, v1)
      ∧ decK S fd .text T.uniqueIdentifier c1 v1 = .ok (uid, c2, v2)
      ∧ S.objectDyn ot.asInt.toNat = some d
      ∧ decDyn S fd d 0 c2 v2 = .ok (obj, c3, ver')
      ∧ v = .struct [ot, uid, obj] := by
  rw [decCustom_get] at h
  obtain ⟨it, _, h⟩ := Res.bind_eq_ok h
  obtain ⟨c0, _, h⟩ := Res.bind_eq_ok h
  obtain ⟨⟨v0, ver0⟩, hin, h⟩ := Res.bind_eq_ok h
  obtain ⟨c9, _, h⟩ := Res.bind_eq_ok h
  simp only [Res.pure_eq, Res.ok.injEq, Prod.mk.injEq] at h
  obtain ⟨rfl, rfl, rfl⟩ := h
  obtain ⟨⟨ot, c1, v1⟩, h0, hin⟩ := Res.bind_eq_ok hin
  obtain ⟨⟨uid, c2, v2⟩, h1, hin⟩ := Res.bind_eq_ok hin
  dsimp only at hin
  split at hin
  · contradiction
  · rename_i d hod
    obtain ⟨⟨obj, c3, v3⟩, h2, hin⟩ := Res.bind_eq_ok hin
    simp only [Res.pure_eq, Res.ok.injEq, Prod.mk.injEq] at hin
    obtain ⟨rfl, rfl⟩ := hin
    exact ⟨ot, uid, obj, c0, c1, c2, c3, v1, v2, d, h0, h1, hod, h2, rfl⟩

theorem fcust_get (S : Schema) (N : Nat) (hU : S.unambiguous = true) (hX : FixOK S N) (fd : Nat)
    (hK : ∀ m, m ≤ fd → FK S m) (hD : ∀ m, m ≤ fd → FDyn S m)
    (id tag : Nat) (c : Cur) (ver : Option Ver) (v : Val) (c' : Cur) (ver' : Option Ver)
    (hdc : (S.structDef id).decCustom = true) (hcode : (S.structDef id).custom = Cust.getResponse)
    (hshape : S.customShapeOK (S.structDef id) = true)
    (htag : S.kindTagOK (.struct id) tag = true)
    (h : decCustom S (fd + 1) Cust.getResponse id tag c ver = .ok (v, c', ver'))
    (hfd : v.edepth ≤ fd + 2) (hg : goodU S (.struct id) v = true) :
    ∀ n, v.edepth ≤ n → ∃ w w' items, normK S n (.struct id) tag w ver = some (w', ver')
      ∧ encK S n (.struct id) tag v ver = .ok (items, ver') ∧ encK S n (.struct id) tag w ver = .ok (items, ver')
      ∧ intView w' = none ∧ obsRel S (.struct id) v w' := by
  intro n hn
  obtain ⟨hec, g0, g1, hF, h0, h0k, h1, h1k⟩ := fxb_shape_get hcode hshape
  obtain ⟨ot, uid, obj, c0, c1, c2, c3, v1, v2, d, hd0, hd1, hod, hd2, rfl⟩ := fxb_get_inv h
  have hg0 : ((S.structDef id).fields.getD 0 fieldDflt).kind = g0.kind := by rw [hF]; rfl
  rw [hg0] at hd0
  simp only [goodU, hec, Bool.false_and, Bool.false_eq_true, if_false, hF, objField, List.map, goodL,
    Bool.and_eq_true] at hg
  simp only [Val.edepth, Val.edepthList] at hfd
  obtain ⟨e1, hs0⟩ := fxb_scalar S fd g0.kind (enum_scalar h0k) (fxb_enum_nn h0k) _ _ _ _ _ _ hd0
  subst v1
  obtain ⟨x, rfl⟩ := fxb_enum_int S fd g0.kind h0k _ _ _ _ _ _ hd0
  obtain ⟨e2, hs1⟩ := fxb_scalar S fd .text rfl rfl _ _ _ _ _ _ hd1
  subst v2
  obtain ⟨x0, rfl, hok0, hdyn⟩ := hD fd (Nat.le_refl _) _ _ _ _ _ _ _ (objectDyn_mem_ctx hod) hd2
    (by omega) hg.2.2.1
  simp only [Val.edepth, Val.edepthList] at hn
  obtain ⟨m, rfl⟩ : ∃ m, n = m + 1 + 1 + 1 + 1 + 1 := ⟨n - 5, by omega⟩
  obtain ⟨wx, wx', a2, hn2, he2, hew2, hokw, hint⟩ := hdyn m (by omega)
  rw [if_pos rfl] at hn2 he2 hew2
  obtain ⟨it0, hn0, he0⟩ := hs0 (m + 1 + 1) ver
  obtain ⟨it1, hn1, he1⟩ := hs1 (m + 1) ver
  rw [← h1k] at hn1 he1
  have hF2 := fxb_F_obj S m [] d x0 wx wx' [] [] [] ver ver' ver' a2 [] hokw hn2 he2 hew2 (fxb_F_nil S m ver')
  have hF1 := fxb_F_plain S (m + 1 + 1) g1 _ h1 _ uid uid uid _ _ _ ver ver ver' _ _ hn1 he1 he1 hF2
  have hF0 := fxb_F_plain S (m + 1 + 1 + 1) g0 _ h0 _ (.int x) (.int x) (.int x) _ _ _ ver ver ver' _ _
    hn0 he0 he0 hF1
  have hcok : customOk S (S.structDef id).custom (.struct [.int x, uid, .iface (some (d, wx'))]) = true := by
    rw [hcode, customOk_get]
    simp only [Val.asInt] at hod
    simp only [Val.field, List.getD_cons_zero, List.getD_cons_succ, hod, beq_self_eq_true]
  obtain ⟨r1, r2, r3⟩ := fxb_wrap S id tag _ _ _ _ ver ver' _ hec _ hF hF0 hcok
  exact ⟨_, _, _, r1, r2, r3, rfl, fxb_obs_vac S id _ _ (by rw [hcode]; decide)⟩

/-! ## 5. Register request -/

theorem fxb_shape_register {S : Schema} {d : StructDef} (hcode : d.custom = Cust.registerRequest)
    (hshape : S.customShapeOK d = true) :
    d.encCustom = false ∧ ∃ g0 g1, d.fields = [g0, g1, objField]
      ∧ g0.plainWith T.objectType = true ∧ g0.kind.isEnum = true
      ∧ g1.plainWith T.templateAttribute = true ∧ g1.kind.definite = true ∧ S.decodable g1.kind = true := by
  unfold Schema.customShapeOK at hshape
  rw [hcode] at hshape
  simp only [Cust.registerRequest, Cust.getResponse, Cust.attr, Cust.requestBatchItem, Cust.responseBatchItem,
    Cust.unknownPayload, Cust.credential, Cust.keyBlock] at hshape
  simp only [Nat.reduceEqDiff, if_false, if_true, Bool.and_eq_true, beq_iff_eq, Bool.not_eq_true',
    and_assoc] at hshape
  obtain ⟨hec, hlen, h0, h0k, h1, h1k, h1d, h2⟩ := hshape
  have hF := list_len3 hlen fieldDflt
  rw [h2] at hF
  exact ⟨hec, _, _, hF, h0, h0k, h1, h1k, h1d⟩

theorem fxb_register_inv {S : Schema} {fd id tag : Nat} {c c' : Cur} {ver ver' : Option Ver} {v : Val}
    (h : decCustom S (fd + 1) Cust.registerRequest id tag c ver = .ok (v, c', ver')) :
    ∃ ot ta obj c0 c1 c2 c3 v1 v2 d,
      decK S fd ((S.structDef id).fields.getD 0 fieldDflt).kind T.objectType c0 ver = .ok (ot, c1, v1)
      ∧ decK S fd ((S.structDef id).fields.getD 1 fieldDflt).kind T.templateAttribute c1 v1 = .ok (ta, c2, v2)
      ∧ S.objectDyn ot.asInt.toNat = some d
      ∧ decDyn S fd d 0 c2 v2 = .ok (obj, c3, ver')
      ∧ v = .struct [ot, ta, obj] := by
  rw [decCustom_register] at h
  obtain ⟨it, _, h⟩ := Res.bind_eq_ok h
  obtain ⟨c0, _, h⟩ := Res.bind_eq_ok h
  obtain ⟨⟨v0, ver0⟩, hin, h⟩ := Res.bind_eq_ok h
  obtain ⟨c9, _, h⟩ := Res.bind_eq_ok h
  simp only [Res.pure_eq, Res.ok.injEq, Prod.mk.injEq] at h
  obtain ⟨rfl, rfl, rfl⟩ := h
  obtain ⟨⟨ot, c1, v1⟩, h0, hin⟩ := Res.bind_eq_ok hin
  obtain ⟨⟨ta, c2, v2⟩, h1, hin⟩ := Res.bind_eq_ok hin
  dsimp only at hin
  split at hin
  · contradiction
  · rename_i d hod
    obtain ⟨⟨obj, c3, v3⟩, h2, hin⟩ := Res.bind_eq_ok hin
    simp only [Res.pure_eq, Res.ok.injEq, Prod.mk.injEq] at hin
    obtain ⟨rfl, rfl⟩ := hin
    exact ⟨ot, ta, obj, c0, c1, c2, c3, v1, v2, d, h0, h1, hod, h2, rfl⟩

theorem fcust_register (S : Schema) (N : Nat) (hU : S.unambiguous = true) (hX : FixOK S N) (fd : Nat)
    (hK : ∀ m, m ≤ fd → FK S m) (hD : ∀ m, m ≤ fd → FDyn S m)
    (id tag : Nat) (c : Cur) (ver : Option Ver) (v : Val) (c' : Cur) (ver' : Option Ver)
    (hdc : (S.structDef id).decCustom = true) (hcode : (S.structDef id).custom = Cust.registerRequest)
    (hshape : S.customShapeOK (S.structDef id) = true)
    (htag : S.kindTagOK (.struct id) tag = true)
    (h : decCustom S (fd + 1) Cust.registerRequest id tag c ver = .ok (v, c', ver'))
    (hfd : v.edepth ≤ fd + 2) (hg : goodU S (.struct id) v = true) :
    ∀ n, v.edepth ≤ n → ∃ w w' items, normK S n (.struct id) tag w ver = some (w', ver')
      ∧ encK S n (.struct id) tag v ver = .ok (items, ver') ∧ encK S n (.struct id) tag w ver = .ok (items, ver')
      ∧ intView w' = none ∧ obsRel S (.struct id) v w' := by
  intro n hn
  obtain ⟨hec, g0, g1, hF, h0, h0k, h1, h1k, h1d⟩ := fxb_shape_register hcode hshape
  obtain ⟨ot, ta, obj, c0, c1, c2, c3, v1, v2, d, hd0, hd1, hod, hd2, rfl⟩ := fxb_register_inv h
  have hg0 : ((S.structDef id).fields.getD 0 fieldDflt).kind = g0.kind := by rw [hF]; rfl
  have hg1 : ((S.structDef id).fields.getD 1 fieldDflt).kind = g1.kind := by rw [hF]; rfl
  rw [hg0] at hd0
  rw [hg1] at hd1
  have hm1 : g1 ∈ (S.structDef id).fields := by rw [hF]; simp
  have ht1 : S.kindTagOK g1.kind T.templateAttribute = true := by
    have := hX.tagOK id hm1
    rwa [(plainWith_iff h1).1] at this
  simp only [goodU, hec, Bool.false_and, Bool.false_eq_true, if_false, hF, objField, List.map, goodL,
    Bool.and_eq_true] at hg
  simp only [Val.edepth, Val.edepthList] at hfd
  obtain ⟨e1, hs0⟩ := fxb_scalar S fd g0.kind (enum_scalar h0k) (fxb_enum_nn h0k) _ _ _ _ _ _ hd0
  subst v1
  obtain ⟨x, rfl⟩ := fxb_enum_int S fd g0.kind h0k _ _ _ _ _ _ hd0
  have hta := hK fd (Nat.le_refl _) g1.kind _ _ _ _ _ _ h1d (definite_shapeOK h1k) (hX.noNarrow id hm1) ht1 hd1
    (by omega) hg.2.1
  obtain ⟨x0, rfl, hok0, hdyn⟩ := hD fd (Nat.le_refl _) _ _ _ _ _ _ _ (objectDyn_mem_ctx hod) hd2
    (by omega) hg.2.2.1
  simp only [Val.edepth, Val.edepthList] at hn
  obtain ⟨m, rfl⟩ : ∃ m, n = m + 1 + 1 + 1 + 1 + 1 := ⟨n - 5, by omega⟩
  obtain ⟨wx, wx', a2, hn2, he2, hew2, hokw, hint⟩ := hdyn m (by omega)
  rw [if_pos rfl] at hn2 he2 hew2
  obtain ⟨it0, hn0, he0⟩ := hs0 (m + 1 + 1) ver
  obtain ⟨w1, w1', a1, hn1, he1, hew1, _⟩ := hta (m + 1 + 1) (by omega)
  have hF2 := fxb_F_obj S m [] d x0 wx wx' [] [] [] v2 ver' ver' a2 [] hokw hn2 he2 hew2 (fxb_F_nil S m ver')
  have hF1 := fxb_F_plain S (m + 1 + 1) g1 _ h1 _ ta w1 w1' _ _ _ ver v2 ver' _ _ hn1 he1 hew1 hF2
  have hF0 := fxb_F_plain S (m + 1 + 1 + 1) g0 _ h0 _ (.int x) (.int x) (.int x) _ _ _ ver ver ver' _ _
    hn0 he0 he0 hF1
  have hcok : customOk S (S.structDef id).custom (.struct [.int x, w1', .iface (some (d, wx'))]) = true := by
    rw [hcode, customOk_register]
    simp only [Val.asInt] at hod
    simp only [Val.field, List.getD_cons_zero, List.getD_cons_succ, hod, beq_self_eq_true]
  obtain ⟨r1, r2, r3⟩ := fxb_wrap S id tag _ _ _ _ ver ver' _ hec _ hF hF0 hcok
  exact ⟨_, _, _, r1, r2, r3, rfl, fxb_obs_vac S id _ _ (by rw [hcode]; decide)⟩

/-! ## 6. Export response -/

theorem fxb_shape_export {S : Schema} {d : StructDef} (hcode : d.custom = Cust.exportResponse)
    (hshape : S.customShapeOK d = true) :
    d.encCustom = false ∧ ∃ g0 g1 g2 k2, d.fields = [g0, g1, g2, objField]
      ∧ g0.plainWith T.objectType = true ∧ g0.kind.isEnum = true
      ∧ g1.plainWith T.uniqueIdentifier = true ∧ g1.kind = .text
      ∧ g2.plainWith T.attr = true ∧ g2.kind = .slice k2 ∧ k2.definite = true ∧ S.decodable k2 = true := by
  unfold Schema.customShapeOK at hshape
  rw [hcode] at hshape
  simp only [Cust.exportResponse, Cust.registerRequest, Cust.getResponse, Cust.attr, Cust.requestBatchItem,
    Cust.responseBatchItem, Cust.unknownPayload, Cust.credential, Cust.keyBlock] at hshape
  simp only [Nat.reduceEqDiff, if_false, if_true, Bool.and_eq_true, beq_iff_eq, Bool.not_eq_true',
    and_assoc] at hshape
  obtain ⟨hec, hlen, h0, h0k, h1, h1k, h2, hm2, h3⟩ := hshape
  have hF := list_len4 hlen fieldDflt
  rw [h3] at hF
  split at hm2
  · rename_i k2 hk2
    simp only [Bool.and_eq_true] at hm2
    exact ⟨hec, _, _, _, k2, hF, h0, h0k, h1, h1k, h2, hk2, hm2.1, hm2.2⟩
  · contradiction

theorem fxb_export_inv {S : Schema} {fd id tag : Nat} {c c' : Cur} {ver ver' : Option Ver} {v : Val}
    (h : decCustom S (fd + 1) Cust.exportResponse id tag c ver = .ok (v, c', ver')) :
    ∃ ot uid attrs obj c0 c1 c2 c3 c4 v1 v2 v3 d,
      decK S fd ((S.structDef id).fields.getD 0 fieldDflt).kind T.objectType c0 ver = .ok (ot, c1, v1)
      ∧ decK S fd .text T.uniqueIdentifier c1 v1 = .ok (uid, c2, v2)
      ∧ decK S fd ((S.structDef id).fields.getD 2 fieldDflt).kind T.attr c2 v2 = .ok (attrs, c3, v3)
      ∧ S.objectDyn ot.asInt.toNat = some d
      ∧ decDyn S fd d 0 c3 v3 = .ok (obj, c4, ver')
      ∧ v = .struct [ot, uid, attrs, obj] := by
  rw [decCustom_export] at h
  obtain ⟨it, _, h⟩ := Res.bind_eq_ok h
  obtain ⟨c0, _, h⟩ := Res.bind_eq_ok h
  obtain ⟨⟨v0, ver0⟩, hin, h⟩ := Res.bind_eq_ok h
  obtain ⟨c9, _, h⟩ := Res.bind_eq_ok h
  simp only [Res.pure_eq, Res.ok.injEq, Prod.mk.injEq] at h
  obtain ⟨rfl, rfl, rfl⟩ := h
  obtain ⟨⟨ot, c1, v1⟩, h0, hin⟩ := Res.bind_eq_ok hin
  obtain ⟨⟨uid, c2, v2⟩, h1, hin⟩ := Res.bind_eq_ok hin
  obtain ⟨⟨attrs, c3, v3⟩, h2, hin⟩ := Res.bind_eq_ok hin
  dsimp only at hin
  split at hin
  · contradiction
  · rename_i d hod
    obtain ⟨⟨obj, c4, v4⟩, h3, hin⟩ := Res.bind_eq_ok hin
    simp only [Res.pure_eq, Res.ok.injEq, Prod.mk.injEq] at hin
    obtain ⟨rfl, rfl⟩ := hin
    exact ⟨ot, uid, attrs, obj, c0, c1, c2, c3, c4, v1, v2, v3, d, h0, h1, h2, hod, h3, rfl⟩

theorem fcust_export (S : Schema) (N : Nat) (hU : S.unambiguous = true) (hX : FixOK S N) (fd : Nat)
    (hK : ∀ m, m ≤ fd → FK S m) (hD : ∀ m, m ≤ fd → FDyn S m)
    (id tag : Nat) (c : Cur) (ver : Option Ver) (v : Val) (c' : Cur) (ver' : Option Ver)
    (hdc : (S.structDef id).decCustom = true) (hcode : (S.structDef id).custom = Cust.exportResponse)
    (hshape : S.customShapeOK (S.structDef id) = true)
    (htag : S.kindTagOK (.struct id) tag = true)
    (h : decCustom S (fd + 1) Cust.exportResponse id tag c ver = .ok (v, c', ver'))
    (hfd : v.edepth ≤ fd + 2) (hg : goodU S (.struct id) v = true) :
    ∀ n, v.edepth ≤ n → ∃ w w' items, normK S n (.struct id) tag w ver = some (w', ver')
      ∧ encK S n (.struct id) tag v ver = .ok (items, ver') ∧ encK S n (.struct id) tag w ver = .ok (items, ver')
      ∧ intView w' = none ∧ obsRel S (.struct id) v w' := by
  intro n hn
  obtain ⟨hec, g0, g1, g2, k2, hF, h0, h0k, h1, h1k, h2, h2k, h2d, h2dd⟩ := fxb_shape_export hcode hshape
  obtain ⟨ot, uid, attrs, obj, c0, c1, c2, c3, c4, v1, v2, v3, d, hd0, hd1, hd2, hod, hd3, rfl⟩ :=
    fxb_export_inv h
  have hg0 : ((S.structDef id).fields.getD 0 fieldDflt).kind = g0.kind := by rw [hF]; rfl
  have hg2 : ((S.structDef id).fields.getD 2 fieldDflt).kind = g2.kind := by rw [hF]; rfl
  rw [hg0] at hd0
  rw [hg2] at hd2
  have hm2 : g2 ∈ (S.structDef id).fields := by rw [hF]; simp
  have ht2 : S.kindTagOK g2.kind T.attr = true := by
    have := hX.tagOK id hm2
    rwa [(plainWith_iff h2).1] at this
  have hdec2 : S.decodable g2.kind = true := by rw [h2k]; exact decodable_slice_of h2d h2dd
  have hsh2 : g2.kind.shapeOK = true := by rw [h2k]; exact h2d
  simp only [goodU, hec, Bool.false_and, Bool.false_eq_true, if_false, hF, objField, List.map, goodL,
    Bool.and_eq_true] at hg
  simp only [Val.edepth, Val.edepthList] at hfd
  obtain ⟨e1, hs0⟩ := fxb_scalar S fd g0.kind (enum_scalar h0k) (fxb_enum_nn h0k) _ _ _ _ _ _ hd0
  subst v1
  obtain ⟨x, rfl⟩ := fxb_enum_int S fd g0.kind h0k _ _ _ _ _ _ hd0
  obtain ⟨e2, hs1⟩ := fxb_scalar S fd .text rfl rfl _ _ _ _ _ _ hd1
  subst v2
  have hat := hK fd (Nat.le_refl _) g2.kind _ _ _ _ _ _ hdec2 hsh2 (hX.noNarrow id hm2) ht2 hd2
    (by omega) hg.2.2.1
  obtain ⟨x0, rfl, hok0, hdyn⟩ := hD fd (Nat.le_refl _) _ _ _ _ _ _ _ (objectDyn_mem_ctx hod) hd3
    (by omega) hg.2.2.2.1
  simp only [Val.edepth, Val.edepthList] at hn
  obtain ⟨m, rfl⟩ : ∃ m, n = m + 1 + 1 + 1 + 1 + 1 + 1 := ⟨n - 6, by omega⟩
  obtain ⟨wx, wx', a3, hn3, he3, hew3, hokw, hint⟩ := hdyn m (by omega)
  rw [if_pos rfl] at hn3 he3 hew3
  obtain ⟨it0, hn0, he0⟩ := hs0 (m + 1 + 1 + 1) ver
  obtain ⟨it1, hn1, he1⟩ := hs1 (m + 1 + 1) ver
  rw [← h1k] at hn1 he1
  obtain ⟨w2, w2', a2, hn2, he2, hew2, _⟩ := hat (m + 1 + 1) (by omega)
  have hF3 := fxb_F_obj S m [] d x0 wx wx' [] [] [] v3 ver' ver' a3 [] hokw hn3 he3 hew3 (fxb_F_nil S m ver')
  have hF2 := fxb_F_plain S (m + 1 + 1) g2 _ h2 _ attrs w2 w2' _ _ _ ver v3 ver' _ _ hn2 he2 hew2 hF3
  have hF1 := fxb_F_plain S (m + 1 + 1 + 1) g1 _ h1 _ uid uid uid _ _ _ ver ver ver' _ _ hn1 he1 he1 hF2
  have hF0 := fxb_F_plain S (m + 1 + 1 + 1 + 1) g0 _ h0 _ (.int x) (.int x) (.int x) _ _ _ ver ver ver' _ _
    hn0 he0 he0 hF1
  have hcok : customOk S (S.structDef id).custom
      (.struct [.int x, uid, w2', .iface (some (d, wx'))]) = true := by
    rw [hcode, customOk_export]
    simp only [Val.asInt] at hod
    simp only [Val.field, List.getD_cons_zero, List.getD_cons_succ, hod, beq_self_eq_true]
  obtain ⟨r1, r2, r3⟩ := fxb_wrap S id tag _ _ _ _ ver ver' _ hec _ hF hF0 hcok
  exact ⟨_, _, _, r1, r2, r3, rfl, fxb_obs_vac S id _ _ (by rw [hcode]; decide)⟩

/-! ## 7. Import request -/

/-- what `importObjectType` reads off the observation of one attribute. -/
def fxb_g (S : Schema) : Option (Bytes × Nat × Option Int) → Option Nat
  | some (n, d, some v) =>
    if n == [0x4F, 0x62, 0x6A, 0x65, 0x63, 0x74, 0x20, 0x54, 0x79, 0x70, 0x65]
        && d == S.attrDyn [0x4F, 0x62, 0x6A, 0x65, 0x63, 0x74, 0x20, 0x54, 0x79, 0x70, 0x65]
    then some v.toNat else none
  | _ => none

theorem fxb_iot_list (S : Schema) (xs : List Val) :
    importObjectType S (.list xs) = (xs.map obsAttr).findSome? (fxb_g S) := by
  unfold importObjectType
  simp only []
  rw [List.findSome?_map]
  congr 1
  funext a
  simp only [Function.comp, obsAttr]
  generalize a.field 0 = p
  generalize a.field 2 = q
  cases p <;> try rfl
  cases q <;> try rfl
  rename_i n o
  cases o <;> try rfl
  rename_i pr
  obtain ⟨d, x⟩ := pr
  cases x <;> rfl

/-- an optional `bool`/enumeration member read by `d.Opt`: absent or zero ⇒ skipped by the encoder and
    THE zero value; otherwise a scalar that is its own twin. -/
theorem fxb_optz (S : Schema) (fd : Nat) (k : Kind) (hk : k = .bool ∨ k.isEnum = true)
    (tag : Nat) (c : Cur) (ver : Option Ver) (v : Val) (c' : Cur) (ver' : Option Ver)
    (h : decOpt S (fd + 1 + 1) k tag c ver = .ok (v, c', ver')) :
    ver' = ver ∧ (v.isZero = true → isZeroOfKind k v = true)
      ∧ (v.isZero = false → ∀ n w0, ∃ it, normK S (n + 1) k tag v w0 = some (v, w0)
          ∧ encK S (n + 1) k tag v w0 = .ok ([it], w0)) := by
  have hsc : k.scalar = true := by
    rcases hk with rfl | hk
    · rfl
    · exact enum_scalar hk
  have hnn : k.noNarrow = true := by
    rcases hk with rfl | hk
    · rfl
    · exact fxb_enum_nn hk
  rw [decOpt_succ] at h
  split at h
  · obtain ⟨e, hs⟩ := fxb_scalar S (fd + 1) k hsc hnn _ _ _ _ _ _ h
    refine ⟨e, ?_, fun _ => hs⟩
    rcases hk with rfl | hk
    · simp only [decK] at h
      obtain ⟨⟨b, c1⟩, _, h2⟩ := Res.bind_eq_ok h
      simp only [Res.pure_eq, Res.ok.injEq, Prod.mk.injEq] at h2
      obtain ⟨rfl, _, _⟩ := h2
      intro hz
      simpa [Val.isZero, isZeroOfKind] using hz
    · obtain ⟨x, rfl⟩ := fxb_enum_int S (fd + 1) k hk _ _ _ _ _ _ h
      obtain ⟨t, rfl⟩ := isEnum_iff hk
      intro hz
      simpa [Val.isZero, isZeroOfKind, Kind.intLike] using hz
  · simp only [Res.ok.injEq, Prod.mk.injEq] at h
    obtain ⟨rfl, rfl, rfl⟩ := h
    refine ⟨rfl, fun _ => ?_, fun hz => ?_⟩
    · rcases hk with rfl | hk
      · simp [zeroOf, isZeroOfKind]
      · obtain ⟨t, rfl⟩ := isEnum_iff hk
        simp [zeroOf, isZeroOfKind, Kind.intLike]
    · exfalso
      rcases hk with rfl | hk
      · simp [zeroOf, Val.isZero] at hz
      · obtain ⟨t, rfl⟩ := isEnum_iff hk
        simp [zeroOf, Val.isZero] at hz

theorem fxb_F_opt (S : Schema) (n : Nat) (f : Field) (t : Nat) (hp : f.optWith t = true)
    (fs : List Field) (v : Val) (vs ws ws' : List Val) (ver ver' : Option Ver) (b : List Item)
    (hz : v.isZero = true → isZeroOfKind f.kind v = true)
    (hnz : v.isZero = false → ∃ it, normK S n f.kind t v ver = some (v, ver)
      ∧ encK S n f.kind t v ver = .ok ([it], ver))
    (hr : fxb_F S n fs vs ws ws' ver ver' b) :
    ∃ a, fxb_F S (n + 1) (f :: fs) (v :: vs) (v :: ws) (v :: ws') ver ver' (a ++ b) := by
  obtain ⟨h1, h2, h3⟩ := hr
  cases hzv : v.isZero with
  | true =>
    refine ⟨[], ?_, ?_, ?_⟩
    · rw [normFields_opt_cons S n f t hp]; simp only [hzv, if_true, hz hzv, h1]
    · rw [encFields_opt_cons S n f t hp]; simp only [hzv, if_true, Res.ok_bind, h2, Res.pure_eq]
    · rw [encFields_opt_cons S n f t hp]; simp only [hzv, if_true, Res.ok_bind, h3, Res.pure_eq]
  | false =>
    obtain ⟨it, hn, he⟩ := hnz hzv
    refine ⟨[it], ?_, ?_, ?_⟩
    · rw [normFields_opt_cons S n f t hp]; simp only [hzv, Bool.false_eq_true, if_false, hn, h1]
    · rw [encFields_opt_cons S n f t hp]
      simp only [hzv, Bool.false_eq_true, if_false, he, Res.ok_bind, h2, Res.pure_eq]
    · rw [encFields_opt_cons S n f t hp]
      simp only [hzv, Bool.false_eq_true, if_false, he, Res.ok_bind, h3, Res.pure_eq]

theorem fxb_shape_import {S : Schema} {d : StructDef} (hcode : d.custom = Cust.importRequest)
    (hshape : S.customShapeOK d = true) :
    d.encCustom = false ∧ ∃ g0 g1 g2 g3 k3, d.fields = [g0, g1, g2, g3, objField]
      ∧ g0.plainWith T.uniqueIdentifier = true ∧ g0.kind = .text
      ∧ g1.optWith T.replaceExisting = true ∧ g1.kind = .bool
      ∧ g2.optWith T.keyWrapType = true ∧ g2.kind.isEnum = true
      ∧ g3.plainWith T.attr = true ∧ g3.kind = .slice k3 ∧ k3.definite = true ∧ S.decodable k3 = true := by
  unfold Schema.customShapeOK at hshape
  rw [hcode] at hshape
  simp only [Cust.importRequest, Cust.exportResponse, Cust.registerRequest, Cust.getResponse, Cust.attr,
    Cust.requestBatchItem, Cust.responseBatchItem, Cust.unknownPayload, Cust.credential, Cust.keyBlock]
    at hshape
  simp only [Nat.reduceEqDiff, if_false, if_true, Bool.and_eq_true, beq_iff_eq, Bool.not_eq_true',
    and_assoc] at hshape
  obtain ⟨hec, hlen, h0, h0k, h1, h1k, h2, h2k, h3, hm3, h4⟩ := hshape
  have hF := list_len5 hlen fieldDflt
  rw [h4] at hF
  split at hm3
  · rename_i k3 hk3
    simp only [Bool.and_eq_true] at hm3
    exact ⟨hec, _, _, _, _, k3, hF, h0, h0k, h1, h1k, h2, h2k, h3, hk3, hm3.1, hm3.2⟩
  · contradiction

theorem fxb_import_inv {S : Schema} {fd id tag : Nat} {c c' : Cur} {ver ver' : Option Ver} {v : Val}
    (h : decCustom S (fd + 1) Cust.importRequest id tag c ver = .ok (v, c', ver')) :
    ∃ uid rep kwt attrs obj c0 c1 c2 c3 c4 c5 v1 v2 v3 v4 ot d,
      decK S fd .text T.uniqueIdentifier c0 ver = .ok (uid, c1, v1)
      ∧ decOpt S fd .bool T.replaceExisting c1 v1 = .ok (rep, c2, v2)
      ∧ decOpt S fd ((S.structDef id).fields.getD 2 fieldDflt).kind T.keyWrapType c2 v2 = .ok (kwt, c3, v3)
      ∧ decK S fd ((S.structDef id).fields.getD 3 fieldDflt).kind T.attr c3 v3 = .ok (attrs, c4, v4)
      ∧ importObjectType S attrs = some ot ∧ S.objectDyn ot = some d
      ∧ decDyn S fd d 0 c4 v4 = .ok (obj, c5, ver')
      ∧ v = .struct [uid, rep, kwt, attrs, obj] := by
  rw [decCustom_import] at h
  obtain ⟨it, _, h⟩ := Res.bind_eq_ok h
  obtain ⟨c0, _, h⟩ := Res.bind_eq_ok h
  obtain ⟨⟨v0, ver0⟩, hin, h⟩ := Res.bind_eq_ok h
  obtain ⟨c9, _, h⟩ := Res.bind_eq_ok h
  simp only [Res.pure_eq, Res.ok.injEq, Prod.mk.injEq] at h
  obtain ⟨rfl, rfl, rfl⟩ := h
  obtain ⟨⟨uid, c1, v1⟩, h0, hin⟩ := Res.bind_eq_ok hin
  obtain ⟨⟨rep, c2, v2⟩, h1, hin⟩ := Res.bind_eq_ok hin
  obtain ⟨⟨kwt, c3, v3⟩, h2, hin⟩ := Res.bind_eq_ok hin
  obtain ⟨⟨attrs, c4, v4⟩, h3, hin⟩ := Res.bind_eq_ok hin
  dsimp only at hin
  split at hin
  · contradiction
  · rename_i ot hiot
    split at hin
    · contradiction
    · rename_i d hod
      obtain ⟨⟨obj, c5, v5⟩, h4, hin⟩ := Res.bind_eq_ok hin
      simp only [Res.pure_eq, Res.ok.injEq, Prod.mk.injEq] at hin
      obtain ⟨rfl, rfl⟩ := hin
      exact ⟨uid, rep, kwt, attrs, obj, c0, c1, c2, c3, c4, c5, v1, v2, v3, v4, ot, d, h0, h1, h2, h3, hiot,
        hod, h4, rfl⟩

/-- the attribute list of an Import request is a list of `Attribute` (`Schema.importOK`). -/
theorem fxb_import_attrs {S : Schema} {N : Nat} (hX : FixOK S N) {id : Nat}
    (hdc : (S.structDef id).decCustom = true) (hcode : (S.structDef id).custom = Cust.importRequest) :
    ((S.structDef id).fields.getD 3 fieldDflt).kind = .slice (.struct (attributeId S))
      ∧ attrLike S (attributeId S) := by
  have := hX.imp id
  unfold Schema.importOK at this
  simp only [hdc, hcode, beq_self_eq_true, Bool.and_self, Bool.not_true, Bool.false_or, Bool.and_eq_true,
    beq_iff_eq] at this
  exact ⟨this.1.1, this.1.2, this.2⟩

theorem fcust_import (S : Schema) (N : Nat) (hU : S.unambiguous = true) (hX : FixOK S N) (fd : Nat)
    (hK : ∀ m, m ≤ fd → FK S m) (hD : ∀ m, m ≤ fd → FDyn S m)
    (id tag : Nat) (c : Cur) (ver : Option Ver) (v : Val) (c' : Cur) (ver' : Option Ver)
    (hdc : (S.structDef id).decCustom = true) (hcode : (S.structDef id).custom = Cust.importRequest)
    (hshape : S.customShapeOK (S.structDef id) = true)
    (htag : S.kindTagOK (.struct id) tag = true)
    (h : decCustom S (fd + 1) Cust.importRequest id tag c ver = .ok (v, c', ver'))
    (hfd : v.edepth ≤ fd + 2) (hg : goodU S (.struct id) v = true) :
    ∀ n, v.edepth ≤ n → ∃ w w' items, normK S n (.struct id) tag w ver = some (w', ver')
      ∧ encK S n (.struct id) tag v ver = .ok (items, ver') ∧ encK S n (.struct id) tag w ver = .ok (items, ver')
      ∧ intView w' = none ∧ obsRel S (.struct id) v w' := by
  intro n hn
  obtain ⟨hec, g0, g1, g2, g3, k3, hF, h0, h0k, h1, h1k, h2, h2k, h3, h3k, h3d, h3dd⟩ :=
    fxb_shape_import hcode hshape
  obtain ⟨hk3, hal⟩ := fxb_import_attrs hX hdc hcode
  obtain ⟨uid, rep, kwt, attrs, obj, c0, c1, c2, c3, c4, c5, v1, v2, v3, v4, ot, d, hd0, hd1, hd2, hd3, hiot,
    hod, hd4, rfl⟩ := fxb_import_inv h
  have hg2 : ((S.structDef id).fields.getD 2 fieldDflt).kind = g2.kind := by rw [hF]; rfl
  have hg3 : ((S.structDef id).fields.getD 3 fieldDflt).kind = g3.kind := by rw [hF]; rfl
  rw [hg3] at hk3 hd3
  rw [hg2] at hd2
  rw [← h1k] at hd1
  have hm3 : g3 ∈ (S.structDef id).fields := by rw [hF]; simp
  have ht3 : S.kindTagOK g3.kind T.attr = true := by
    have := hX.tagOK id hm3
    rwa [(plainWith_iff h3).1] at this
  have hdec3 : S.decodable g3.kind = true := by rw [h3k]; exact decodable_slice_of h3d h3dd
  have hsh3 : g3.kind.shapeOK = true := by rw [h3k]; exact h3d
  simp only [goodU, hec, Bool.false_and, Bool.false_eq_true, if_false, hF, objField, List.map, goodL,
    Bool.and_eq_true] at hg
  simp only [Val.edepth, Val.edepthList] at hfd
  obtain ⟨f, rfl⟩ : ∃ f, fd = f + 1 + 1 := ⟨fd - 2, by omega⟩
  obtain ⟨e0, hs0⟩ := fxb_scalar S _ .text rfl rfl _ _ _ _ _ _ hd0
  subst v1
  obtain ⟨e1, hz1, hnz1⟩ := fxb_optz S f g1.kind (Or.inl h1k) _ _ _ _ _ _ hd1
  subst v2
  obtain ⟨e2, hz2, hnz2⟩ := fxb_optz S f g2.kind (Or.inr h2k) _ _ _ _ _ _ hd2
  subst v3
  have hat := hK (f + 1 + 1) (Nat.le_refl _) g3.kind _ _ _ _ _ _ hdec3 hsh3 (hX.noNarrow id hm3) ht3 hd3
    (by omega) hg.2.2.2.1
  obtain ⟨x0, rfl, hok0, hdyn⟩ := hD (f + 1 + 1) (Nat.le_refl _) _ _ _ _ _ _ _ (objectDyn_mem_ctx hod) hd4
    (by omega) hg.2.2.2.2.1
  simp only [Val.edepth, Val.edepthList] at hn
  obtain ⟨m, rfl⟩ : ∃ m, n = m + 1 + 1 + 1 + 1 + 1 + 1 + 1 := ⟨n - 7, by omega⟩
  obtain ⟨wx, wx', a4, hn4, he4, hew4, hokw, hint⟩ := hdyn m (by omega)
  rw [if_pos rfl] at hn4 he4 hew4
  obtain ⟨w3, w3', a3, hn3, he3, hew3, hrel⟩ := hat (m + 1 + 1) (by omega)
  obtain ⟨it0, hn0, he0⟩ := hs0 (m + 1 + 1 + 1 + 1) ver
  rw [← h0k] at hn0 he0
  have hF4 := fxb_F_obj S m [] d x0 wx wx' [] [] [] v4 ver' ver' a4 [] hokw hn4 he4 hew4 (fxb_F_nil S m ver')
  have hF3 := fxb_F_plain S (m + 1 + 1) g3 _ h3 _ attrs w3 w3' _ _ _ ver v4 ver' _ _ hn3 he3 hew3 hF4
  obtain ⟨a2, hF2⟩ := fxb_F_opt S (m + 1 + 1 + 1) g2 _ h2 _ kwt _ _ _ ver ver' _ hz2
    (fun hz => hnz2 hz (m + 1 + 1) ver) hF3
  obtain ⟨a1, hF1⟩ := fxb_F_opt S (m + 1 + 1 + 1 + 1) g1 _ h1 _ rep _ _ _ ver ver' _ hz1
    (fun hz => hnz1 hz (m + 1 + 1 + 1) ver) hF2
  have hF0 := fxb_F_plain S (m + 1 + 1 + 1 + 1 + 1) g0 _ h0 _ uid uid uid _ _ _ ver ver ver' _ _
    hn0 he0 he0 hF1
  have hcok : customOk S (S.structDef id).custom
      (.struct [uid, rep, kwt, w3', .iface (some (d, wx'))]) = true := by
    have hobs := hrel.obs
    rw [hk3] at hobs
    unfold obsRel at hobs
    obtain ⟨xs, ys, rfl, rfl, hmap⟩ := hobs hal
    have hiot' : importObjectType S (.list ys) = some ot := by
      rw [fxb_iot_list, ← hmap, ← fxb_iot_list]; exact hiot
    rw [hcode, customOk_import]
    simp only [Val.field, List.getD_cons_zero, List.getD_cons_succ, hiot', hod, beq_self_eq_true]
  obtain ⟨r1, r2, r3⟩ := fxb_wrap S id tag _ _ _ _ ver ver' _ hec _ hF hF0 hcok
  exact ⟨_, _, _, r1, r2, r3, rfl, fxb_obs_vac S id _ _ (by rw [hcode]; decide)⟩

end Kmip
