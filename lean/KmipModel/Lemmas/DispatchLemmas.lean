/-
  Helper lemmas of C06 (registered-type dispatch), on top of `PlanLemmas`:
    A. the wire type of a dynamic type, and the comparison of the attribute table with the pinned specification;
    B. the wiring of the hand-written decoders in a schema (decidable) and the composition of the local
       dispatch lemmas up to `unmarshal` of a whole request / response message.
-/
import KmipModel.Lemmas.PlanLemmas
namespace Kmip

/-! ### A. the specified value type of attributes -/

/-- (TTLV item type code, reference tag) a value of kind `k` is written with — as `encK` writes it: 1 Structure
    (reference = the struct's own tag), 2 Integer (reference = the mask's tag for a bit mask), 3 Long Integer,
    4 Big Integer, 5 Enumeration (reference = the enumeration's tag), 6 Boolean, 7 Text String, 8 Byte String,
    9 Date-Time, 10 Interval; (0, 0) for kinds that are not attribute values. -/
def Kind.wireSpec (S : Schema) : Kind → Nat × Nat
  | .i8 | .i16 | .i32 | .u8 | .u16 => (2, 0)
  | .u32 | .u64 | .i64 => (3, 0)
  | .big => (4, 0)
  | .enum t => (5, t)
  | .mask t => (2, t)
  | .bool => (6, 0)
  | .text => (7, 0)
  | .bytes => (8, 0)
  | .date => (9, 0)
  | .interval => (10, 0)
  | .struct id => (1, (S.structDef id).defTag)
  | .ptr k => Kind.wireSpec S k
  | _ => (0, 0)

def Schema.dynSpec (S : Schema) (d : Nat) : Nat × Nat := Kind.wireSpec S (S.dyn d).kind

/-- the attribute table of the schema is the pinned specification `P` (rows: packed name, TTLV type, reference
    tag): every registered name has exactly its specified type, every specified name is registered, same
    number of rows, names pairwise distinct. -/
def attrsMatchSpec (P : List (Nat × Nat × Nat)) (S : Schema) : Bool :=
  S.attrs.all (fun p => P.contains (p.1, (S.dynSpec p.2).1, (S.dynSpec p.2).2)) &&
  P.all (fun q => S.attrs.any (fun p => p.1 == q.1 && S.dynSpec p.2 == (q.2.1, q.2.2))) &&
  S.attrs.length == P.length &&
  decide ((S.attrs.map (·.1)).Nodup) && decide ((P.map (·.1)).Nodup)

theorem lookupNat_of_mem_nodup {l : List (Nat × Nat)} (hn : (l.map (·.1)).Nodup) {p : Nat × Nat}
    (hp : p ∈ l) : lookupNat l p.1 = some p.2 := by
  unfold lookupNat
  have : l.find? (fun q => q.1 == p.1) = some p := by
    induction l with
    | nil => exact nomatch hp
    | cons a l ih =>
      rw [List.map_cons, List.nodup_cons] at hn
      rw [List.find?_cons]
      rcases List.mem_cons.1 hp with rfl | hp'
      · simp
      · have hne : a.1 ≠ p.1 := by
          intro he
          exact hn.1 (he ▸ List.mem_map_of_mem (f := (·.1)) hp')
        have hb : (a.1 == p.1) = false := by simpa using hne
        rw [hb]
        exact ih hn.2 hp'
  rw [this]

/-- specification ⇒ code: a standard (non-custom) name that the specification lists decodes to a dynamic type
    whose wire type is the specified one. -/
theorem attrDyn_has_specified_type (P : List (Nat × Nat × Nat)) (S : Schema) (h : attrsMatchSpec P S = true)
    (name : Bytes) (t r : Nat) (hc : ¬ (name.take 2 = [0x78, 0x2D] ∨ name.take 2 = [0x79, 0x2D]))
    (hq : (packName name, t, r) ∈ P) : S.dynSpec (S.attrDyn name) = (t, r) := by
  unfold attrsMatchSpec at h
  simp only [Bool.and_eq_true, List.all_eq_true, List.any_eq_true, decide_eq_true_eq, beq_iff_eq] at h
  obtain ⟨⟨⟨⟨_, h2⟩, _⟩, hn⟩, _⟩ := h
  obtain ⟨p, hp, hname, hspec⟩ := h2 _ hq
  have hl := lookupNat_of_mem_nodup hn hp
  dsimp only at hname hspec
  rw [hname] at hl
  rw [attrDyn_registered hc hl]
  exact hspec

/-- code ⇒ specification: every registered name is a row of the specification, with the registered type. -/
theorem registered_attr_is_specified (P : List (Nat × Nat × Nat)) (S : Schema)
    (h : attrsMatchSpec P S = true) (p : Nat × Nat) (hp : p ∈ S.attrs) :
    (p.1, (S.dynSpec p.2).1, (S.dynSpec p.2).2) ∈ P := by
  unfold attrsMatchSpec at h
  simp only [Bool.and_eq_true, List.all_eq_true, List.contains_iff_mem] at h
  exact h.1.1.1.1 p hp

/-! ### B. wiring and composition up to `unmarshal` -/

/-- every element returned by the slice loop was decoded by the element kind's decoder. -/
theorem decList_mem (S : Schema) (k : Kind) (tag : Nat) : ∀ (fuel : Nat) (c : Cur) (ver : Option Ver)
    (xs : List Val) (st : DecSt), decList S fuel k tag c ver = .ok (xs, st) →
    ∀ x ∈ xs, ∃ fuel' c' ver' st', decK S fuel' k tag c' ver' = .ok (x, st')
  | 0, c, ver, xs, st, h => by rw [decList] at h; exact nomatch h
  | fuel + 1, c, ver, xs, st, h => by
    rw [decList] at h
    split at h
    · cases h; intro x hx; exact nomatch hx
    · obtain ⟨⟨x0, c1, ver1⟩, h1, h⟩ := Res.bind_eq_ok h
      obtain ⟨⟨xs', st'⟩, h2, h⟩ := Res.bind_eq_ok h
      cases h
      intro x hx
      rcases List.mem_cons.1 hx with rfl | hx
      · exact ⟨fuel, c, ver, (c1, ver1), h1⟩
      · exact decList_mem S k tag fuel c1 ver1 xs' _ h2 x hx

/-- one step of the decoder's field loop, inverted. -/
theorem decFields_cons_ok {S : Schema} {fuel : Nat} {f : Field} {fs : List Field} {c : Cur}
    {ver : Option Ver} {vs : List Val} {st : DecSt}
    (h : decFields S (fuel + 1) (f :: fs) c ver = .ok (vs, st)) :
    f.dynTag = false ∧ ∃ v c1 ver1 vs', vs = v :: vs' ∧
      decFields S fuel fs c1 (if f.setVersion then some v.asVer else ver1) = .ok (vs', st) ∧
      ((v, c1, ver1) = (zeroOf S fuel f.kind, c, ver) ∨ decK S fuel f.kind f.tag c ver = .ok (v, c1, ver1)) := by
  rw [decFields] at h
  by_cases hd : f.dynTag = true
  · rw [if_pos hd] at h; exact nomatch h
  · rw [if_neg hd] at h
    refine ⟨by simpa using hd, ?_⟩
    split at h
    all_goals split at h
    all_goals first
      | (obtain ⟨⟨v, c1, ver1⟩, h1, h⟩ := Res.bind_eq_ok h
         obtain ⟨⟨vs', st'⟩, h2, h⟩ := Res.bind_eq_ok h
         cases h; cases h1
         exact ⟨_, _, _, vs', rfl, h2, Or.inl rfl⟩)
      | (obtain ⟨⟨v, c1, ver1⟩, h1, h⟩ := Res.bind_eq_ok h
         obtain ⟨⟨vs', st'⟩, h2, h⟩ := Res.bind_eq_ok h
         cases h
         exact ⟨v, c1, ver1, vs', rfl, h2, Or.inr h1⟩)

/-- **decidable**: dyn id `dyn` is a pointer to a reflectively decoded struct `[header, batch items]` whose
    second field is a slice of the struct decoded by the hand-written codec `code`. -/
def Schema.messageWired (S : Schema) (dyn code : Nat) : Bool :=
  match (S.dyn dyn).kind with
  | .ptr (.struct m) =>
    !(S.structDef m).decCustom &&
    (match (S.structDef m).fields with
     | [fh, fb] =>
       !fh.dynTag && !fb.dynTag &&
       (match fb.kind with
        | .slice (.struct b) => (S.structDef b).decCustom && decide ((S.structDef b).custom = code)
        | _ => false)
     | _ => false)
  | _ => false

/-- a decoded message is `&{header, [items…]}` and every item is the result of the hand-written batch item
    decoder `code` (with some positive fuel). -/
theorem unmarshal_message_items (S : Schema) (dyn code : Nat) (hW : S.messageWired dyn code = true)
    (tag : Nat) (bs : Bytes) (v : Val) (h : unmarshal S dyn tag bs = .ok v) :
    ∃ hdr items, v = .ptr (some (.struct [hdr, .list items])) ∧
      ∀ it ∈ items, ∃ fuel id tg c ver st, decCustom S (fuel + 1) code id tg c ver = .ok (it, st) := by
  unfold Schema.messageWired at hW
  split at hW
  · rename_i m hk
    simp only [Bool.and_eq_true, Bool.not_eq_true'] at hW
    obtain ⟨hnc, hW⟩ := hW
    split at hW
    · rename_i fh fb hfields
      simp only [Bool.and_eq_true, Bool.not_eq_true'] at hW
      obtain ⟨⟨hd1, hd2⟩, hW⟩ := hW
      split at hW
      · rename_i b hfb
        simp only [Bool.and_eq_true, decide_eq_true_eq] at hW
        obtain ⟨hbc, hbcode⟩ := hW
        unfold unmarshal at h
        split at h
        · exact nomatch h
        · generalize decFuel bs.length = F at h
          unfold unmarshalWith at h
          simp only [hk] at h
          obtain ⟨c, _, h⟩ := Res.bind_eq_ok h
          obtain ⟨⟨x, st⟩, hx, h⟩ := Res.bind_eq_ok h
          cases h
          generalize (if tag = 0 then (S.dyn dyn).defTag else tag) = tg at hx
          -- decK (.struct m) → decStruct → decFields [fh, fb]
          cases F with
          | zero => rw [decK] at hx; exact nomatch hx
          | succ F =>
            rw [decK] at hx
            simp only [hnc, Bool.false_eq_true, if_false] at hx
            cases F with
            | zero => rw [decStruct] at hx; exact nomatch hx
            | succ F =>
              rw [decStruct] at hx
              obtain ⟨it, _, hx⟩ := Res.bind_eq_ok hx
              obtain ⟨inner, _, hx⟩ := Res.bind_eq_ok hx
              obtain ⟨⟨vs, c', ver'⟩, hf, hx⟩ := Res.bind_eq_ok hx
              obtain ⟨c2, _, hx⟩ := Res.bind_eq_ok hx
              cases hx
              rw [hfields] at hf
              cases F with
              | zero => rw [decFields] at hf; exact nomatch hf
              | succ F =>
                obtain ⟨_, v1, c1, ver1, vs', rfl, hf2, _⟩ := decFields_cons_ok hf
                cases F with
                | zero => rw [decFields] at hf2; exact nomatch hf2
                | succ F =>
                  obtain ⟨_, v2, c3, ver3, vs'', rfl, hf3, hv2⟩ := decFields_cons_ok hf2
                  cases F with
                  | zero => rw [decFields] at hf3; exact nomatch hf3
                  | succ F =>
                    rw [decFields.eq_def] at hf3
                    cases hf3
                    refine ⟨v1, ?_⟩
                    -- the batch item field: zero value (empty list) or the slice decoder
                    rcases hv2 with hz | hv2
                    · cases hz
                      rw [hfb, zeroOf]
                      exact ⟨[], rfl, fun it hit => nomatch hit⟩
                    · rw [hfb, decK] at hv2
                      obtain ⟨⟨xs, st3⟩, hl, hv2⟩ := Res.bind_eq_ok hv2
                      cases hv2
                      refine ⟨xs, rfl, ?_⟩
                      intro it hit
                      obtain ⟨fuel', c', ver', st', hk'⟩ := decList_mem S _ _ _ _ _ _ _ hl it hit
                      cases fuel' with
                      | zero => rw [decK] at hk'; exact nomatch hk'
                      | succ f' =>
                        rw [decK] at hk'
                        simp only [hbc, if_true, hbcode] at hk'
                        cases f' with
                        | zero => rw [decCustom] at hk'; exact nomatch hk'
                        | succ f'' => exact ⟨f'', b, _, c', ver', st', hk'⟩
      · exact nomatch hW
    · exact nomatch hW
  · exact nomatch hW

/-- **decidable**: an interface-typed field only occurs in a struct with a hand-written decoder of one of the
    seven dispatching codecs (a reflectively decoded struct with an interface field would hand a nil interface
    to the decoder), and each of the seven codecs is the decoder of some struct of the schema. -/
def Schema.dispatchWired (S : Schema) : Bool :=
  let codes := [Cust.requestBatchItem, Cust.responseBatchItem, Cust.attr, Cust.getResponse,
    Cust.registerRequest, Cust.importRequest, Cust.exportResponse]
  S.structs.all (fun d =>
    d.fields.all (fun f => match f.kind with | .iface => false | _ => true) ||
      (d.decCustom && codes.contains d.custom)) &&
  codes.all (fun code => S.structs.any (fun d => d.decCustom && d.custom == code &&
    d.fields.any (fun f => match f.kind with | .iface => true | _ => false)))

end Kmip
