/-
  L1 — the binary TTLV wire format.
  * `Item`      : generic TTLV trees (what `ttlv.Value` can hold)
  * `enc`       : model of `ttlvWriter` (ttlv/encoding_ttlv.go), byte for byte
  * `specParse` : an independent, strict parser written from the KMIP 1.4 specification §9.1
                  (it does not mention `enc`)
-/
import KmipModel.Model.BigInt
namespace Kmip

inductive Item where
  | struct   (tag : Nat) (children : List Item)
  | int      (tag : Nat) (v : Int)       -- Go int32
  | long     (tag : Nat) (v : Int)       -- Go int64
  | big      (tag : Nat) (v : Int)       -- *big.Int
  | enum     (tag : Nat) (v : Nat)       -- Go uint32
  | bool     (tag : Nat) (b : Bool)
  | text     (tag : Nat) (s : Bytes)     -- Go string (a byte sequence)
  | bytes    (tag : Nat) (s : Bytes)
  | date     (tag : Nat) (secs : Int)    -- time.Time, whole seconds, Go int64
  | interval (tag : Nat) (secs : Nat)    -- time.Duration in whole seconds, < 2^32
  deriving Repr, Inhabited

def Item.tag : Item → Nat
  | .struct t _ | .int t _ | .long t _ | .big t _ | .enum t _ | .bool t _
  | .text t _ | .bytes t _ | .date t _ | .interval t _ => t

/-- TTLV type code (KMIP §9.1.1.2). -/
def Item.ty : Item → Nat
  | .struct .. => 1 | .int .. => 2 | .long .. => 3 | .big .. => 4 | .enum .. => 5
  | .bool .. => 6 | .text .. => 7 | .bytes .. => 8 | .date .. => 9 | .interval .. => 10

/-- `writeTag; writeType; writeLength`. -/
def hdr (tag ty len : Nat) : Bytes := tag3 tag ++ [ty.toUInt8] ++ be32 len

mutual
  /-- model of `ttlvWriter.{Integer,LongInteger,BigInteger,Enum,Bool,Struct,TextString,ByteString,DateTime,Interval}`. -/
  def enc : Item → Bytes
    | .struct tag cs =>
      let body := encList cs
      hdr tag 1 body.length ++ body
    | .int tag v => hdr tag 2 4 ++ be32 (unsignedOfInt 32 v) ++ [0, 0, 0, 0]
    | .long tag v => hdr tag 3 8 ++ be64 (unsignedOfInt 64 v)
    | .big tag v =>
      let body := encodeBig v
      hdr tag 4 body.length ++ body
    | .enum tag v => hdr tag 5 4 ++ be32 v ++ [0, 0, 0, 0]
    | .bool tag b => hdr tag 6 8 ++ [0, 0, 0, 0, 0, 0, 0, if b then 1 else 0]
    | .text tag s => hdr tag 7 s.length ++ s ++ List.replicate (padForLen s.length 8) 0
    | .bytes tag s => hdr tag 8 s.length ++ s ++ List.replicate (padForLen s.length 8) 0
    | .date tag v => hdr tag 9 8 ++ be64 (unsignedOfInt 64 v)
    | .interval tag v => hdr tag 10 4 ++ be32 v ++ [0, 0, 0, 0]
  def encList : List Item → Bytes
    | [] => []
    | x :: xs => enc x ++ encList xs
end

/-- Range side conditions under which a tree is representable on the wire
    (the Go types enforce them: int32, int64, uint32, 3-byte tags; lengths fit the 32-bit field). -/
def inInt (w : Nat) (v : Int) : Prop := -((2 ^ (w - 1) : Nat) : Int) ≤ v ∧ v < ((2 ^ (w - 1) : Nat) : Int)

mutual
  def Item.InRange : Item → Prop
    | .struct tag cs => 0 < tag ∧ tag < 2 ^ 24 ∧ (encList cs).length < 2 ^ 32 ∧ Item.AllInRange cs
    | .int tag v => 0 < tag ∧ tag < 2 ^ 24 ∧ inInt 32 v
    | .long tag v => 0 < tag ∧ tag < 2 ^ 24 ∧ inInt 64 v
    | .big tag v => 0 < tag ∧ tag < 2 ^ 24 ∧ (encodeBig v).length < 2 ^ 32
    | .enum tag v => 0 < tag ∧ tag < 2 ^ 24 ∧ v < 2 ^ 32
    | .bool tag _ => 0 < tag ∧ tag < 2 ^ 24
    | .text tag s => 0 < tag ∧ tag < 2 ^ 24 ∧ s.length < 2 ^ 32
    | .bytes tag s => 0 < tag ∧ tag < 2 ^ 24 ∧ s.length < 2 ^ 32
    | .date tag v => 0 < tag ∧ tag < 2 ^ 24 ∧ inInt 64 v
    | .interval tag v => 0 < tag ∧ tag < 2 ^ 24 ∧ v < 2 ^ 32
  def Item.AllInRange : List Item → Prop
    | [] => True
    | x :: xs => x.InRange ∧ Item.AllInRange xs
end

/-! ### Independent specification parser (KMIP 1.4 §9.1)

An item is: 3-byte tag, 1-byte type in 1..10, 4-byte big-endian length, value, zero padding up
to a multiple of 8 bytes. Integer/Enumeration/Interval have length 4, LongInteger/Boolean/DateTime
length 8, BigInteger a positive multiple of 8 (two's complement), Boolean is 0 or 1, a Structure's
length is the total size of its (padded) children. -/

def allZero (bs : Bytes) : Bool := bs.all (· == 0)

mutual
  /-- parse one item from the front of `bs`; `fuel` bounds the nesting depth + sibling count. -/
  def specParse : Nat → Bytes → Option (Item × Bytes)
    | 0, _ => none
    | fuel + 1, bs =>
      if bs.length < 8 then none else
      let tag := beVal (bs.take 3)
      let ty := (bs.getD 3 0).toNat
      let len := beVal ((bs.drop 4).take 4)
      let rest := bs.drop 8
      let plen := len + (8 - len % 8) % 8
      if rest.length < plen then none else
      let val := rest.take len
      let pad := (rest.drop len).take (plen - len)
      let after := rest.drop plen
      if !allZero pad then none else
      if tag = 0 then none else   -- tag 0 is the library's reserved "no item" value, never a KMIP tag
      match ty with
      | 1 => (specParseList fuel val).map fun cs => (Item.struct tag cs, after)
      | 2 => if len = 4 then some (.int tag (signedOfNat 32 (beVal val)), after) else none
      | 3 => if len = 8 then some (.long tag (signedOfNat 64 (beVal val)), after) else none
      | 4 => if len % 8 = 0 ∧ 0 < len then some (.big tag (twos val), after) else none
      | 5 => if len = 4 then some (.enum tag (beVal val), after) else none
      | 6 => if len = 8 then
               (if beVal val = 0 then some (.bool tag false, after)
                else if beVal val = 1 then some (.bool tag true, after) else none)
             else none
      | 7 => some (.text tag val, after)
      | 8 => some (.bytes tag val, after)
      | 9 => if len = 8 then some (.date tag (signedOfNat 64 (beVal val)), after) else none
      | 10 => if len = 4 then some (.interval tag (beVal val), after) else none
      | _ => none
  /-- parse a whole byte string as a sequence of items. -/
  def specParseList : Nat → Bytes → Option (List Item)
    | 0, _ => none
    | fuel + 1, bs =>
      if bs.isEmpty then some [] else
      match specParse fuel bs with
      | none => none
      | some (it, rest) => (specParseList fuel rest).map fun its => it :: its
end

mutual
  /-- fuel sufficient for `specParse` on the encoding of a tree. -/
  def Item.size : Item → Nat
    | .struct _ cs => 1 + Item.sizeList cs
    | _ => 1
  def Item.sizeList : List Item → Nat
    | [] => 1
    | x :: xs => 1 + x.size + Item.sizeList xs
end

/-- top-level strict parse of a complete byte string holding exactly one item. -/
def specDecode (bs : Bytes) : Option Item :=
  match specParse (bs.length + 1) bs with
  | some (it, []) => some it
  | _ => none

end Kmip
