/-
  C01 — executable checks used by the non-vacuity examples, "exactly the populated elements"
  (`encode_items_exact`), and "equal in content" (`norm_content`).
-/
import KmipModel.Lemmas.PlanRoundtrip15
namespace Kmip

/-! ## An executable (conservative) check of `Item.InRange` -/

mutual
  /-- conservative: big integers are rejected (their encoded length is not kernel-computable). -/
  def Item.inRangeB : Item → Bool
    | .struct tag cs => decide (0 < tag) && decide (tag < 2 ^ 24) && decide ((encList cs).length < 2 ^ 32)
        && Item.allInRangeB cs
    | .int tag v => decide (0 < tag) && decide (tag < 2 ^ 24) && decide (inInt 32 v)
    | .long tag v => decide (0 < tag) && decide (tag < 2 ^ 24) && decide (inInt 64 v)
    | .big _ _ => false
    | .enum tag v => decide (0 < tag) && decide (tag < 2 ^ 24) && decide (v < 2 ^ 32)
    | .bool tag _ => decide (0 < tag) && decide (tag < 2 ^ 24)
    | .text tag s => decide (0 < tag) && decide (tag < 2 ^ 24) && decide (s.length < 2 ^ 32)
    | .bytes tag s => decide (0 < tag) && decide (tag < 2 ^ 24) && decide (s.length < 2 ^ 32)
    | .date tag v => decide (0 < tag) && decide (tag < 2 ^ 24) && decide (inInt 64 v)
    | .interval tag v => decide (0 < tag) && decide (tag < 2 ^ 24) && decide (v < 2 ^ 32)
  def Item.allInRangeB : List Item → Bool
    | [] => true
    | x :: xs => x.inRangeB && Item.allInRangeB xs
end

mutual
  theorem Item.inRangeB_sound : (t : Item) → t.inRangeB = true → t.InRange
    | .struct tag cs, h => by
      simp only [Item.inRangeB, Bool.and_eq_true, decide_eq_true_eq] at h
      rw [Item.InRange]
      exact ⟨h.1.1.1, h.1.1.2, h.1.2, Item.allInRangeB_sound cs h.2⟩
    | .int tag v, h => by
      simp only [Item.inRangeB, Bool.and_eq_true, decide_eq_true_eq] at h
      rw [Item.InRange]; exact ⟨h.1.1, h.1.2, h.2⟩
    | .long tag v, h => by
      simp only [Item.inRangeB, Bool.and_eq_true, decide_eq_true_eq] at h
      rw [Item.InRange]; exact ⟨h.1.1, h.1.2, h.2⟩
    | .big tag v, h => by simp [Item.inRangeB] at h
    | .enum tag v, h => by
      simp only [Item.inRangeB, Bool.and_eq_true, decide_eq_true_eq] at h
      rw [Item.InRange]; exact ⟨h.1.1, h.1.2, h.2⟩
    | .bool tag b, h => by
      simp only [Item.inRangeB, Bool.and_eq_true, decide_eq_true_eq] at h
      rw [Item.InRange]; exact ⟨h.1, h.2⟩
    | .text tag s, h => by
      simp only [Item.inRangeB, Bool.and_eq_true, decide_eq_true_eq] at h
      rw [Item.InRange]; exact ⟨h.1.1, h.1.2, h.2⟩
    | .bytes tag s, h => by
      simp only [Item.inRangeB, Bool.and_eq_true, decide_eq_true_eq] at h
      rw [Item.InRange]; exact ⟨h.1.1, h.1.2, h.2⟩
    | .date tag v, h => by
      simp only [Item.inRangeB, Bool.and_eq_true, decide_eq_true_eq] at h
      rw [Item.InRange]; exact ⟨h.1.1, h.1.2, h.2⟩
    | .interval tag v, h => by
      simp only [Item.inRangeB, Bool.and_eq_true, decide_eq_true_eq] at h
      rw [Item.InRange]; exact ⟨h.1.1, h.1.2, h.2⟩
  theorem Item.allInRangeB_sound : (ts : List Item) → Item.allInRangeB ts = true → Item.AllInRange ts
    | [], _ => by rw [Item.AllInRange]; trivial
    | x :: xs, h => by
      simp only [Item.allInRangeB, Bool.and_eq_true] at h
      rw [Item.AllInRange]
      exact ⟨Item.inRangeB_sound x h.1, Item.allInRangeB_sound xs h.2⟩
end

/-- executable form of the clause of `Conforms` that speaks about the encoder's output. -/
def encOkB (S : Schema) (d tag : Nat) (v : Val) : Bool :=
  match encK S marshalFuel (S.dyn d).kind (topTag S d tag) v none with
  | .ok (items, _) => Item.allInRangeB items
  | _ => false

/-- `Conforms` from two executable checks. -/
theorem conforms_of_checks (S : Schema) (d tag : Nat) (v : Val)
    (h1 : (normTop S d tag v).isSome = true) (h2 : encOkB S d tag v = true) : Conforms S d tag v := by
  unfold encOkB at h2
  split at h2
  · rename_i items w heq
    refine ⟨h1, ?_⟩
    intro items' ver' he
    rw [heq] at he
    simp only [Res.ok.injEq, Prod.mk.injEq] at he
    rw [← he.1]; exact Item.allInRangeB_sound items h2
  · contradiction

/-! ## "The encoding carries exactly the elements populated" -/

/-- the items of a reflectively encoded struct, field by field: a skipped field (zero under
    `omitempty`, or outside its version range) contributes nothing, every other field contributes
    exactly what its kind's encoder emits under the field's tag, in declaration order. -/
def PartsOK (S : Schema) : Nat → List Field → List Val → Option Ver → List (List Item) → Option Ver → Prop
  | _, [], _, ver, ps, ver' => ps = [] ∧ ver' = ver
  | 0, _ :: _, _, _, _, _ => False
  | _, _ :: _, [], _, _, _ => False
  | _, _ :: _, _ :: _, _, [], _ => False
  | n + 1, f :: fs, v :: vs, ver, p :: ps, ver' =>
    ∃ w, (if f.skip v (f.ver1 v ver) then (p = [] ∧ w = f.ver1 v ver)
          else encK S n f.kind (f.etag S v) v (f.ver1 v ver) = .ok (p, w))
      ∧ PartsOK S n fs vs w ps ver'

theorem encode_items_exact_aux (S : Schema) : (n : Nat) → (fs : List Field) → (vs : List Val) →
    (ver : Option Ver) → (items : List Item) → (ver' : Option Ver) →
    encFields S n fs vs ver = .ok (items, ver') →
    ∃ parts : List (List Item), items = parts.flatten ∧ parts.length = fs.length
      ∧ PartsOK S n fs vs ver parts ver'
  | 0, fs, vs, ver, items, ver', h => by rw [encFields_zero] at h; contradiction
  | n + 1, [], vs, ver, items, ver', h => by
    rw [encFields_nil] at h
    simp only [Res.ok.injEq, Prod.mk.injEq] at h
    exact ⟨[], by rw [← h.1]; rfl, rfl, by simp [PartsOK, h.2]⟩
  | n + 1, f :: fs, [], ver, items, ver', h => by
    rw [encFields.eq_def] at h; simp at h
  | n + 1, f :: fs, v :: vs, ver, items, ver', h => by
    rw [encFields_cons] at h
    by_cases hs : f.skip v (f.ver1 v ver) = true
    · simp only [hs, if_true, Res.ok_bind] at h
      cases hb : encFields S n fs vs (f.ver1 v ver) with
      | ok q =>
        obtain ⟨b, w2⟩ := q
        simp only [hb, Res.ok_bind, Res.pure_eq, Res.ok.injEq, Prod.mk.injEq, List.nil_append] at h
        obtain ⟨rfl, rfl⟩ := h
        obtain ⟨ps, hfl, hlen, hok⟩ := encode_items_exact_aux S n fs vs _ b w2 hb
        refine ⟨[] :: ps, by simp [hfl], by simp [hlen], ?_⟩
        simp only [PartsOK]
        exact ⟨f.ver1 v ver, by simp only [hs, if_true, and_self], hok⟩
      | err e => simp only [hb, Res.err_bind] at h; contradiction
      | panic m => simp only [hb, Res.panic_bind] at h; contradiction
    · have hs' : f.skip v (f.ver1 v ver) = false := by simpa using hs
      simp only [hs', Bool.false_eq_true, if_false] at h
      cases ha : encK S n f.kind (f.etag S v) v (f.ver1 v ver) with
      | ok q =>
        obtain ⟨a, w1⟩ := q
        simp only [ha, Res.ok_bind] at h
        cases hb : encFields S n fs vs w1 with
        | ok q =>
          obtain ⟨b, w2⟩ := q
          simp only [hb, Res.ok_bind, Res.pure_eq, Res.ok.injEq, Prod.mk.injEq] at h
          obtain ⟨rfl, rfl⟩ := h
          obtain ⟨ps, hfl, hlen, hok⟩ := encode_items_exact_aux S n fs vs _ b w2 hb
          refine ⟨a :: ps, by simp [hfl], by simp [hlen], ?_⟩
          simp only [PartsOK]
          exact ⟨w1, by simp only [hs', Bool.false_eq_true, if_false]; exact ha, hok⟩
        | err e => simp only [hb, Res.err_bind] at h; contradiction
        | panic m => simp only [hb, Res.panic_bind] at h; contradiction
      | err e => simp only [ha, Res.err_bind] at h; contradiction
      | panic m => simp only [ha, Res.panic_bind] at h; contradiction

end Kmip
