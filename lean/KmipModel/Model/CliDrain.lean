/-
  A connection the client has let go of (`reconnect` has executed `c.conn = nil`).

  From that moment the connection is referenced only by its own `readloop` / `writeloop` and, possibly,
  by one `Client.Close()` that read the pointer earlier and is inside `conn.Close()`'s `terminate`.
  The same step functions as in `CliConn` are used (`stepR`, `stepW`, `stepC`), with the caller frozen at
  `idle` (so no rendezvous on `tx` / `rx` / an unbuffered error channel is ever offered). Environment:
  data may still arrive and writes may still complete or fail while the stream is open.

  The system starts (from the pseudo state `none`) in ANY state that satisfies the hand-off condition
  `CliConn.handoffOk`; `CliConn`'s certificate proves that condition of every state in which
  `c.conn = nil` is executed (`badHandoff` unreachable). Each older connection is covered individually,
  so no bound on the number of connection generations is involved.
-/
import KmipModel.Model.CliConn
namespace Kmip.CliDrain
open Kmip.CliLts Kmip.CliConn

def allRP : List RP := [.r0, .r1, .r2c, .r2s, .rtA1, .rtA2, .rtB, .rEnd]
def allWP : List WP :=
  [.wc, .ws, .w1c, .w1s, .w2cr, .w2cf, .w2sr, .w2sf, .wtA1, .wtA2, .wtB, .wEnd,
   .wnAcr, .wnAcf, .wnAsr, .wnAsf, .wnBcr, .wnBcf, .wnBsr, .wnBsf]
def allCP : List CP := [.c0, .ctA, .ctB]
def bools : List Bool := [false, true]

/-- a let-go connection: closed, caller idle; `cp ≠ c0`: a `Close()` is inside its terminate. -/
def mk (rp : RP) (wp : WP) (cause : Nat) (txNil txClosed netClosed : Bool) (cp : CP) : St :=
  { CliConn.init with has := true, closed := true, rp := rp, wp := wp, cause := cause, txNil := txNil,
                      txClosed := txClosed, netClosed := netClosed, cp := cp, cref := cp != .c0 }

def starts : List St :=
  allRP.flatMap fun rp => allWP.flatMap fun wp => [0, 1, 2].flatMap fun cause =>
  bools.flatMap fun txNil => bools.flatMap fun txClosed => bools.flatMap fun netClosed =>
  allCP.map fun cp => mk rp wp cause txNil txClosed netClosed cp

/-- what is left of a `CliConn` state when its connection is let go: every token is stale now. -/
def proj (s : St) : St :=
  mk (rRecol s.rp) (wRecol s.wp) (if s.cause = 0 then 0 else if s.cause = 1 then 1 else 2)
    s.txNil s.txClosed s.netClosed
    (if s.cref ∧ (s.cp = .ctA ∨ s.cp = .ctB) then s.cp else .c0)

def stepSome (p : Params) (s : St) : List St :=
  stepR p s ++ stepW p s ++ stepC p s
  -- environment while the stream is open: a (stale) message arrives; a write completes; faults
  ++ (if !s.netClosed ∧ s.rp = .r1 then [{ s with rp := .r2s }, { s with rp := .rtA1 }, { s with rp := .rtA2 }] else [])
  ++ (if !s.netClosed ∧ (s.wp = .w1c ∨ s.wp = .w1s) then
        [{ s with wp := .wc }, { s with wp := sendFailed p false 1 }, { s with wp := sendFailed p false 2 }] else [])

def step (p : Params) : Option St → List (Option St)
  | none => (starts.filter handoffOk).map fun t => some (norm p t)
  | some s => (stepSome p s).map fun t => some (norm p t)

def sys (p : Params) : Sys (Option St) := { init := none, step := step p }

/-- the same transition relation started in a given let-go state. -/
def sysAt (p : Params) (d : St) : Sys (Option St) := { init := some d, step := step p }

/-- nothing can move on its own and a goroutine has not ended. -/
def badSome (p : Params) (s : St) : Bool :=
  ((stepR p s ++ stepW p s ++ stepC p s).isEmpty && !connEnded s) || s.panic != 0

def bad (p : Params) : Option St → Bool
  | none => false
  | some s => badSome p s

def code : Option St → Nat
  | none => 0
  | some s => CliConn.code s + 1

def decode (n : Nat) : Option St := if n = 0 then none else some (CliConn.decode (n - 1))

def wf : Option St → Bool
  | none => true
  | some s => CliConn.wf s

theorem roundtrip : ∀ s : Option St, wf s = true → decode (code s) = s
  | none, _ => rfl
  | some s, h => by
    have : CliConn.code s + 1 ≠ 0 := by omega
    simp only [code, decode, this, if_false, Nat.add_sub_cancel]
    exact congrArg some (CliConn.roundtrip s h)

def codec : Codec (Option St) := { code := code, decode := decode, wf := wf, roundtrip := roundtrip }

end Kmip.CliDrain
