/-
  Certificate obligations, parts 4..5 of 16 of the `current` client system (kernel evaluation; 8 modules
  so that lake checks them in parallel). Assembled in `Lemmas/CliCert.lean`.
-/
import KmipModel.Model.CliConn
import KmipModel.Gen.CertCliConn
namespace Kmip.CliCert
open Kmip.CliLts Kmip.CliConn Kmip.Gen.CertCliConn

theorem cuClosed4 : partClosed (sys current) codec certCurrent cuP4 = true := by decide +kernel
theorem cuSafe4 : partSafe codec (bad current) cuP4 = true := by decide +kernel
theorem cuClosed5 : partClosed (sys current) codec certCurrent cuP5 = true := by decide +kernel
theorem cuSafe5 : partSafe codec (bad current) cuP5 = true := by decide +kernel

end Kmip.CliCert
