package main

// Round-trip part of the `key` engine (oracle C14): real key → kmipclient Register builder → request
// message in an encoding at a protocol version → object → Get response message → accessors → Equal.

import (
	"bytes"
	"context"
	"crypto"
	"crypto/ecdsa"
	"crypto/rsa"
	"crypto/x509"
	"encoding/pem"
	"errors"
	"fmt"
	"math/big"
	"strconv"
	"strings"
	"sync"
	"time"

	kmip "github.com/ovh/kmip-go"
	"github.com/ovh/kmip-go/kmipclient"
	"github.com/ovh/kmip-go/kmipserver"
	"github.com/ovh/kmip-go/payloads"
	"github.com/ovh/kmip-go/ttlv"

	"verifharness/internal/report"
)

type keyEnc struct {
	name      string
	marshal   func(any) []byte
	unmarshal func([]byte, any) error
}

var keyEncs = []keyEnc{
	{"ttlv", ttlv.MarshalTTLV, ttlv.UnmarshalTTLV},
	{"xml", ttlv.MarshalXML, ttlv.UnmarshalXML},
	{"json", ttlv.MarshalJSON, ttlv.UnmarshalJSON},
}

var keyVersions = []kmip.ProtocolVersion{kmip.V1_0, kmip.V1_1, kmip.V1_2, kmip.V1_3, kmip.V1_4}

type keyEnv struct {
	ctx       *Ctx
	blobs     *keyBlobs
	shapeRSA  *rsa.PrivateKey
	rsas      []*keyRSASample
	ecs       []*keyECSample
	byteS     []keyBytesSample
	seen      map[string]bool
	clients   map[string]*kmipclient.Client
	ep        *cliEndpoint
	mu        sync.Mutex
	store     map[string]kmip.Object
	nextID    int
	wireFails int
	// snaps: what the sample keys were when they were made (see keyCheckSnapshots)
	snaps []keySnap
}

// keySnap: the numbers / bytes of a sample key, copied when the sample is created.
type keySnap struct {
	label string
	ints  []*big.Int // live values
	was   []*big.Int // copies
	e     *int
	eWas  int
	nP    func() int
	nPWas int
	b     []byte
	bWas  []byte
}

func (env *keyEnv) snapshot() {
	cp := func(vs ...*big.Int) []*big.Int {
		out := make([]*big.Int, len(vs))
		for i, v := range vs {
			if v != nil {
				out[i] = new(big.Int).Set(v)
			}
		}
		return out
	}
	for _, s := range env.rsas {
		k := s.key
		live := append([]*big.Int{k.N, k.D}, k.Primes...)
		env.snaps = append(env.snaps, keySnap{label: "rsa " + s.label, ints: live, was: cp(live...), e: &k.E, eWas: k.E,
			nP: func() int { return len(k.Primes) }, nPWas: len(k.Primes)})
	}
	for _, s := range env.ecs {
		live := []*big.Int{s.key.D, s.key.X, s.key.Y}
		env.snaps = append(env.snaps, keySnap{label: "ec " + s.label, ints: live, was: cp(live...)})
	}
	for _, s := range env.byteS {
		env.snaps = append(env.snaps, keySnap{label: "bytes " + s.label, b: s.b, bWas: append([]byte{}, s.b...)})
	}
}

// keyCheckSnapshots: the property compares what is extracted with THE ORIGINAL.  The round-trip oracle compares
// with the caller's key object as it is after the builder has seen it, so a builder (or an encoder) that modifies
// the key it is given — and then transports the modified numbers faithfully — would pass; here the caller's keys
// are compared with what they were before the first builder saw them.  (rsa.PrivateKey.Precomputed is not part of
// the comparison: filling it in is what (*rsa.PrivateKey).Precompute does and changes nothing mathematically.)
func keyCheckSnapshots(env *keyEnv) {
	for _, sn := range env.snaps {
		changed := ""
		for i, v := range sn.ints {
			if (v == nil) != (sn.was[i] == nil) || (v != nil && v.Cmp(sn.was[i]) != 0) {
				changed = fmt.Sprintf("number #%d", i)
			}
		}
		if sn.e != nil && *sn.e != sn.eWas {
			changed = "public exponent"
		}
		if sn.nP != nil && sn.nP() != sn.nPWas {
			changed = "number of primes"
		}
		if !bytes.Equal(sn.b, sn.bWas) {
			changed = "bytes"
		}
		env.ctx.Res.Count("snapshot.checked")
		if changed != "" {
			line := "#key.snapshot " + sn.label
			keyViolate(env.ctx, "caller-key-unchanged", "key:caller-key-modified:"+strings.Fields(sn.label)[0],
				"the key handed to the register builders ("+sn.label+") is no longer what it was before: "+changed+" changed; the round-trip comparisons were made with the modified key", line)
		}
	}
}

func keyNewEnv(ctx *Ctx) *keyEnv {
	cliQuiet()
	env := &keyEnv{ctx: ctx, seen: map[string]bool{}, clients: map[string]*kmipclient.Client{}, store: map[string]kmip.Object{}}
	env.rsas = keyBuildRSASamples(ctx)
	env.ecs = keyBuildECSamples(ctx)
	env.byteS = keyBuildBytesSamples(ctx)
	for _, s := range env.rsas {
		if s.label == "r512" {
			env.shapeRSA = s.key
		}
	}
	if env.shapeRSA == nil {
		// the 512-bit sample was left out (see keyBuildRSASamples): the smallest two-prime sample takes its place
		for _, s := range env.rsas {
			if !s.lenient && !s.multi && (env.shapeRSA == nil || s.key.N.BitLen() < env.shapeRSA.N.BitLen()) {
				env.shapeRSA = s.key
			}
		}
	}
	if env.shapeRSA == nil {
		ctx.Res.Fail("key: no RSA sample for the accessor shapes")
		return nil
	}
	env.snapshot()
	env.blobs = keyBuildBlobs(ctx, env.shapeRSA)
	// in-process server: Register stores the object, Get returns it
	exec := kmipserver.NewBatchExecutor()
	exec.Route(kmip.OperationRegister, kmipserver.HandleFunc(func(_ context.Context, req *payloads.RegisterRequestPayload) (*payloads.RegisterResponsePayload, error) {
		env.mu.Lock()
		defer env.mu.Unlock()
		env.nextID++
		id := "obj-" + strconv.Itoa(env.nextID)
		env.store[id] = req.Object
		return &payloads.RegisterResponsePayload{UniqueIdentifier: id}, nil
	}))
	exec.Route(kmip.OperationGet, kmipserver.HandleFunc(func(_ context.Context, req *payloads.GetRequestPayload) (*payloads.GetResponsePayload, error) {
		env.mu.Lock()
		defer env.mu.Unlock()
		obj, ok := env.store[req.UniqueIdentifier]
		if !ok {
			return nil, kmipserver.ErrItemNotFound
		}
		delete(env.store, req.UniqueIdentifier)
		return &payloads.GetResponsePayload{ObjectType: obj.ObjectType(), UniqueIdentifier: req.UniqueIdentifier, Object: obj}, nil
	}))
	env.ep = &cliEndpoint{}
	env.ep.setHandler(func(req *kmip.RequestMessage) *kmip.ResponseMessage {
		resp, p := guard("HandleRequest", func() *kmip.ResponseMessage { return exec.HandleRequest(context.Background(), req) })
		if p != "" {
			return nil
		}
		return resp
	})
	return env
}

func (env *keyEnv) client(v kmip.ProtocolVersion) *kmipclient.Client {
	k := verStr(v)
	if c, ok := env.clients[k]; ok {
		return c
	}
	c, err := kmipclient.Dial("pipe", kmipclient.WithDialerUnsafe(env.ep.dialer), kmipclient.EnforceVersion(v))
	if err != nil {
		env.ctx.Res.Fail("key: cannot create a client: " + err.Error())
		return nil
	}
	env.clients[k] = c
	return c
}

// freshClient drops the cached client of a version (its connection may be in any state) and dials again.
func (env *keyEnv) freshClient(v kmip.ProtocolVersion) *kmipclient.Client {
	k := verStr(v)
	if c, ok := env.clients[k]; ok {
		_, _ = guard("Close", func() error { return c.Close() })
		delete(env.clients, k)
	}
	return env.client(v)
}

func (env *keyEnv) close() {
	for _, c := range env.clients {
		_, _ = guard("Close", func() error { return c.Close() })
	}
	env.ep.shutdown(env.ctx)
}

// a register builder of kmipclient/register.go applied to one key
type keyBuilder struct {
	name string
	// kind of the object that must come back: rsapriv rsapub ecpriv ecpub sym secret cert
	kind  string
	build func(w kmipclient.ExecRegisterWantType) kmipclient.ExecRegister
}

// custom: the caller builds the object (Register().Object): the format is the caller's, not a selector's.
func (b keyBuilder) custom() bool { return strings.HasPrefix(b.name, "Object:") }


const keyUsage = kmip.CryptographicUsageSign | kmip.CryptographicUsageVerify

func keyPemBlock(ty string, der []byte) []byte {
	return pem.EncodeToMemory(&pem.Block{Type: ty, Bytes: der})
}

func keyRSABuilders(k *rsa.PrivateKey) []keyBuilder {
	pkcs1 := x509.MarshalPKCS1PrivateKey(k)
	pkcs8, _ := x509.MarshalPKCS8PrivateKey(k)
	pub1 := x509.MarshalPKCS1PublicKey(&k.PublicKey)
	pkix, _ := x509.MarshalPKIXPublicKey(&k.PublicKey)
	type W = kmipclient.ExecRegisterWantType
	type X = kmipclient.ExecRegister
	return []keyBuilder{
		{"RsaPrivateKey", "rsapriv", func(w W) X { return w.RsaPrivateKey(k, keyUsage) }},
		{"PrivateKey", "rsapriv", func(w W) X { return w.PrivateKey(k, keyUsage) }},
		{"Pkcs1PrivateKey", "rsapriv", func(w W) X { return w.Pkcs1PrivateKey(pkcs1, keyUsage) }},
		{"Pkcs8PrivateKey", "rsapriv", func(w W) X { return w.Pkcs8PrivateKey(pkcs8, keyUsage) }},
		{"PemKey:RSA_PRIVATE_KEY", "rsapriv", func(w W) X { return w.PemKey(keyPemBlock("RSA PRIVATE KEY", pkcs1), keyUsage) }},
		{"PemKey:PRIVATE_KEY", "rsapriv", func(w W) X { return w.PemKey(keyPemBlock("PRIVATE KEY", pkcs8), keyUsage) }},
		{"PemPrivateKey:RSA_PRIVATE_KEY", "rsapriv", func(w W) X { return w.PemPrivateKey(keyPemBlock("RSA PRIVATE KEY", pkcs1), keyUsage) }},
		{"PemPrivateKey:PRIVATE_KEY", "rsapriv", func(w W) X { return w.PemPrivateKey(keyPemBlock("PRIVATE KEY", pkcs8), keyUsage) }},
		{"RsaPublicKey", "rsapub", func(w W) X { return w.RsaPublicKey(&k.PublicKey, keyUsage) }},
		{"PublicKey", "rsapub", func(w W) X { return w.PublicKey(&k.PublicKey, keyUsage) }},
		{"Pkcs1PublicKey", "rsapub", func(w W) X { return w.Pkcs1PublicKey(pub1, keyUsage) }},
		{"X509PublicKey", "rsapub", func(w W) X { return w.X509PublicKey(pkix, keyUsage) }},
		{"PemKey:RSA_PUBLIC_KEY", "rsapub", func(w W) X { return w.PemKey(keyPemBlock("RSA PUBLIC KEY", pub1), keyUsage) }},
		{"PemKey:PUBLIC_KEY", "rsapub", func(w W) X { return w.PemKey(keyPemBlock("PUBLIC KEY", pkix), keyUsage) }},
		{"PemPublicKey:RSA_PUBLIC_KEY", "rsapub", func(w W) X { return w.PemPublicKey(keyPemBlock("RSA PUBLIC KEY", pub1), keyUsage) }},
		{"PemPublicKey:PUBLIC_KEY", "rsapub", func(w W) X { return w.PemPublicKey(keyPemBlock("PUBLIC KEY", pkix), keyUsage) }},
		{"PemPublicKey:RSA_PRIVATE_KEY", "rsapub", func(w W) X { return w.PemPublicKey(keyPemBlock("RSA PRIVATE KEY", pkcs1), keyUsage) }},
		{"PemPublicKey:PRIVATE_KEY", "rsapub", func(w W) X { return w.PemPublicKey(keyPemBlock("PRIVATE KEY", pkcs8), keyUsage) }},
	}
}

// keyRSABuildersTyped: the builders that take the Go key itself.
func keyRSABuildersTyped(k *rsa.PrivateKey) []keyBuilder {
	type W = kmipclient.ExecRegisterWantType
	type X = kmipclient.ExecRegister
	return []keyBuilder{
		{"RsaPrivateKey", "rsapriv", func(w W) X { return w.RsaPrivateKey(k, keyUsage) }},
		{"PrivateKey", "rsapriv", func(w W) X { return w.PrivateKey(k, keyUsage) }},
		{"RsaPublicKey", "rsapub", func(w W) X { return w.RsaPublicKey(&k.PublicKey, keyUsage) }},
		{"PublicKey", "rsapub", func(w W) X { return w.PublicKey(&k.PublicKey, keyUsage) }},
	}
}

func keyECBuilders(k *ecdsa.PrivateKey) []keyBuilder {
	sec1, _ := x509.MarshalECPrivateKey(k)
	pkcs8, _ := x509.MarshalPKCS8PrivateKey(k)
	pkix, _ := x509.MarshalPKIXPublicKey(&k.PublicKey)
	type W = kmipclient.ExecRegisterWantType
	type X = kmipclient.ExecRegister
	return []keyBuilder{
		{"EcdsaPrivateKey", "ecpriv", func(w W) X { return w.EcdsaPrivateKey(k, keyUsage) }},
		{"PrivateKey", "ecpriv", func(w W) X { return w.PrivateKey(k, keyUsage) }},
		{"Sec1PrivateKey", "ecpriv", func(w W) X { return w.Sec1PrivateKey(sec1, keyUsage) }},
		{"Pkcs8PrivateKey", "ecpriv", func(w W) X { return w.Pkcs8PrivateKey(pkcs8, keyUsage) }},
		{"PemKey:EC_PRIVATE_KEY", "ecpriv", func(w W) X { return w.PemKey(keyPemBlock("EC PRIVATE KEY", sec1), keyUsage) }},
		{"PemKey:PRIVATE_KEY", "ecpriv", func(w W) X { return w.PemKey(keyPemBlock("PRIVATE KEY", pkcs8), keyUsage) }},
		{"PemPrivateKey:EC_PRIVATE_KEY", "ecpriv", func(w W) X { return w.PemPrivateKey(keyPemBlock("EC PRIVATE KEY", sec1), keyUsage) }},
		{"PemPrivateKey:PRIVATE_KEY", "ecpriv", func(w W) X { return w.PemPrivateKey(keyPemBlock("PRIVATE KEY", pkcs8), keyUsage) }},
		{"EcdsaPublicKey", "ecpub", func(w W) X { return w.EcdsaPublicKey(&k.PublicKey, keyUsage) }},
		{"PublicKey", "ecpub", func(w W) X { return w.PublicKey(&k.PublicKey, keyUsage) }},
		{"X509PublicKey", "ecpub", func(w W) X { return w.X509PublicKey(pkix, keyUsage) }},
		{"PemKey:PUBLIC_KEY", "ecpub", func(w W) X { return w.PemKey(keyPemBlock("PUBLIC KEY", pkix), keyUsage) }},
		{"PemPublicKey:PUBLIC_KEY", "ecpub", func(w W) X { return w.PemPublicKey(keyPemBlock("PUBLIC KEY", pkix), keyUsage) }},
		{"PemPublicKey:EC_PRIVATE_KEY", "ecpub", func(w W) X { return w.PemPublicKey(keyPemBlock("EC PRIVATE KEY", sec1), keyUsage) }},
		{"PemPublicKey:PRIVATE_KEY", "ecpub", func(w W) X { return w.PemPublicKey(keyPemBlock("PRIVATE KEY", pkcs8), keyUsage) }},
	}
}

func keyBytesBuilders(b []byte) []keyBuilder {
	type W = kmipclient.ExecRegisterWantType
	type X = kmipclient.ExecRegister
	return []keyBuilder{
		{"SymmetricKey", "sym", func(w W) X { return w.SymmetricKey(kmip.CryptographicAlgorithmAES, kmip.CryptographicUsageEncrypt, b) }},
		{"Secret", "secret", func(w W) X { return w.Secret(kmip.SecretDataTypePassword, b) }},
		{"SecretString", "secret", func(w W) X { return w.SecretString(kmip.SecretDataTypePassword, string(b)) }},
	}
}

func keyCertBuilders(c *x509.Certificate) []keyBuilder {
	type W = kmipclient.ExecRegisterWantType
	type X = kmipclient.ExecRegister
	return []keyBuilder{
		{"Certificate", "cert", func(w W) X { return w.Certificate(kmip.CertificateTypeX_509, c.Raw) }},
		{"X509Certificate", "cert", func(w W) X { return w.X509Certificate(c) }},
		{"PemCertificate", "cert", func(w W) X { return w.PemCertificate(keyPemBlock("CERTIFICATE", c.Raw)) }},
	}
}

// keyKindFormats: the formats that exist for a kind of key: KeyFormat bit → KMIP key format type (the transparent
// EC representations switch at 1.3); the first entry is the documented default of the kind.
func keyKindFormats(kind string, ver kmip.ProtocolVersion) [][2]uint32 {
	const (
		tr, x509f, pkcs8, pkcs1, sec1, raw = 1, 2, 4, 8, 16, 32
	)
	ge13 := ver.ProtocolVersionMajor > 1 || (ver.ProtocolVersionMajor == 1 && ver.ProtocolVersionMinor >= 3)
	pick := func(old, new uint32) uint32 {
		if ge13 {
			return new
		}
		return old
	}
	switch kind {
	case "rsapriv":
		return [][2]uint32{{pkcs1, 3}, {pkcs8, 4}, {tr, 10}}
	case "rsapub":
		return [][2]uint32{{pkcs1, 3}, {x509f, 5}, {tr, 11}}
	case "ecpriv":
		return [][2]uint32{{sec1, 6}, {pkcs8, 4}, {tr, pick(14, 20)}}
	case "ecpub":
		return [][2]uint32{{x509f, 5}, {tr, pick(15, 21)}}
	case "sym":
		return [][2]uint32{{raw, 1}, {tr, 7}}
	case "secret":
		return [][2]uint32{{raw, 1}}
	}
	return nil
}

// keyAdmissibleFormats: what the documentation of KeyFormat promises about the key format a builder produces
// for a format mask — one of the REQUESTED formats that exist for the kind of key, or, when none of them is
// requested, the documented default of the kind.  Nothing is assumed about the priority among several
// requested formats (the Lean side states the same predicate: `admissible`, checked through `key.reg`).
func keyAdmissibleFormats(kind string, kf uint8, ver kmip.ProtocolVersion) []uint32 {
	fs := keyKindFormats(kind, ver)
	var out []uint32
	for _, f := range fs {
		if uint32(kf)&f[0] != 0 {
			out = append(out, f[1])
		}
	}
	if len(out) == 0 && len(fs) > 0 {
		out = []uint32{fs[0][1]}
	}
	return out
}

func keyFormatIn(f uint32, set []uint32) bool {
	for _, x := range set {
		if x == f {
			return true
		}
	}
	return false
}

type keyRtOrig struct {
	label  string
	rsa    *rsa.PrivateKey
	ec     *ecdsa.PrivateKey
	bytes  []byte
	cert   *x509.Certificate
	multi  bool
	ecCode uint32
	// lenient: the standard library does not accept this key (see keyRSASample.lenient)
	lenient bool
}

func keyViolate(ctx *Ctx, oracle, key, detail, line string) {
	ctx.Res.Violate(report.Violation{Property: "C14", Oracle: oracle, Key: key, Detail: detail, Line: line})
}

func keyFmtName(f uint32) string {
	switch f {
	case 1:
		return "raw"
	case 3:
		return "pkcs1"
	case 4:
		return "pkcs8"
	case 5:
		return "x509"
	case 6:
		return "sec1"
	case 7:
		return "transparent-sym"
	case 10, 11:
		return "transparent-rsa"
	case 14, 15:
		return "transparent-ecdsa"
	case 20, 21:
		return "transparent-ec"
	}
	return fmt.Sprintf("f%d", f)
}

// keyRtCase evaluates one round trip. path = "codec" (messages marshalled and unmarshalled in `enc`) or "wire"
// (a real client and the in-process server over a pipe; binary only).
func keyRtCase(env *keyEnv, path string, enc keyEnc, ver kmip.ProtocolVersion, b keyBuilder, kf uint8, orig *keyRtOrig) {
	ctx := env.ctx
	line := fmt.Sprintf("#key.rt %s %s %s %s %d %s", path, enc.name, verStr(ver), b.name, kf, orig.label)
	ctx.current = line
	ctx.Res.Count("rt." + path + "." + enc.name + "." + b.kind)
	// Codec path: the buffers the messages were decoded FROM are overwritten as soon as the decoder has returned
	// (a caller may reuse its read buffer for the next message): key material that still points into its input
	// buffer is then no longer the key.  When something fails, the case is evaluated once more with the buffers
	// left alone, to tell "wrong key" from "right key, but aliasing the caller's buffer".
	outcome, fails := keyRtEval(env, path, enc, ver, b, kf, orig, line, path == "codec", true)
	if len(fails) > 0 && path == "codec" {
		if out2, fails2 := keyRtEval(env, path, enc, ver, b, kf, orig, line, false, false); len(fails2) == 0 {
			ctx.Res.Count("rt.codec.aliasing-detected")
			_ = out2
			f := fails[0]
			fails = []keyFail{{"input-aliasing", "key:" + enc.name + ":" + b.kind + ":decoded-material-aliases-input-buffer",
				"the object decoded from a message is correct as long as the buffer it was decoded from is left untouched, but changes when the caller overwrites that buffer: " + f.detail}}
		} else {
			fails = fails2
		}
	}
	for _, f := range fails {
		keyViolate(ctx, f.oracle, f.key, f.detail, line)
	}
	ctx.Add(line, outcome, true, "C14")
}

type keyFail struct{ oracle, key, detail string }

// keyScribble overwrites a buffer a message has been decoded from.
func keyScribble(b []byte) {
	for i := range b {
		b[i] = 0xA5
	}
}

// keyRtEval evaluates one round trip and returns the outcome and the failures. `scribble`: overwrite the transport
// buffers after decoding (codec path); `first`: count and emit the `key.reg` correspondence line (once per case).
func keyRtEval(env *keyEnv, path string, enc keyEnc, ver kmip.ProtocolVersion, b keyBuilder, kf uint8, orig *keyRtOrig, line string, scribble, first bool) (outcome string, fails []keyFail) {
	ctx := env.ctx
	outcome = "ok"
	regFmt := uint32(0)
	fail := func(oracle, what, detail string) {
		if orig.lenient {
			// a key the standard library rejects: a refusal (an error from the builder, or from an accessor that goes
			// through the standard library) is an answer; a panic or another key is not
			stdlibFree := (regFmt == 10 || regFmt == 11) && !strings.Contains(what, ":Pem")
			if oracle == "register-accepts" || (oracle == "extract" && strings.HasSuffix(what, ":error") && !stdlibFree) ||
				strings.HasSuffix(what, ":PrivateKey.RSA.Precomputed:differs") {
				if outcome == "ok" {
					outcome = "refused"
				}
				if first {
					ctx.Res.Count("rt.lenient.refused")
				}
				return
			}
		}
		outcome = "violation"
		if orig.multi && regFmt == 10 {
			// everything that goes wrong with a multi-prime key in the two-prime transparent format is one finding
			fails = append(fails, keyFail{"key-equal", "key:rsapriv:transparent-rsa:multi-prime-truncated", detail + " [" + line + "]"})
			return
		}
		fails = append(fails, keyFail{oracle, "key:" + enc.name + ":" + b.kind + ":" + what, detail + " [" + line + "]"})
	}
	cl := env.client(ver)
	if cl == nil {
		outcome = "harness-error"
		return
	}
	type built struct {
		pl  kmip.OperationPayload
		err error
		ex  kmipclient.ExecRegister
	}
	bl, p := guard("builder", func() built {
		ex := b.build(cl.Register().WithKeyFormat(kmipclient.KeyFormat(kf)))
		pl, err := ex.Build()
		return built{pl, err, ex}
	})
	if p != "" {
		fail("register-total", "register-panic", "the builder panicked: "+p)
		return
	}
	if bl.err != nil {
		if orig.multi && keyFormatIn(10, keyAdmissibleFormats(b.kind, kf, ver)) {
			// the transparent KMIP format has two primes: refusing a multi-prime key is a correct answer
			outcome = "refused"
			if adm := keyAdmissibleFormats(b.kind, kf, ver); len(adm) == 1 && first {
				env.regLine(b.kind, kf, ver, orig, nil, 10, "err")
			}
			return
		}
		fail("register-accepts", "register-refused", "the builder refused a valid key: "+bl.err.Error())
		return
	}
	req, ok := bl.pl.(*payloads.RegisterRequestPayload)
	if !ok || req.Object == nil {
		fail("register-accepts", "register-no-object", fmt.Sprintf("the builder produced %T without an object", bl.pl))
		return
	}
	// the format the builder chose (independent expectation; the Lean model is asked through key.reg)
	if kb := keyKbOf(req.Object); kb != nil && !b.custom() {
		adm := keyAdmissibleFormats(b.kind, kf, ver)
		if !keyFormatIn(uint32(kb.KeyFormatType), adm) {
			fail("format-selector", "format-"+keyFmtName(uint32(kb.KeyFormatType))+"-not-requested",
				fmt.Sprintf("format mask %d at %s: registered as key format %d, which is neither a requested format of this kind of key nor (none being requested) its default; admissible: %v", kf, verStr(ver), kb.KeyFormatType, adm))
		}
		if first {
			env.regLine(b.kind, kf, ver, orig, req.Object, uint32(kb.KeyFormatType), "ok")
		}
	}
	if kb := keyKbOf(req.Object); kb != nil {
		regFmt = uint32(kb.KeyFormatType)
	}
	var got *payloads.GetResponsePayload
	switch path {
	case "codec":
		msg := kmip.NewRequestMessage(ver, bl.pl)
		doc, p := guard("marshal request", func() []byte { return enc.marshal(&msg) })
		if p != "" {
			fail("transport", "request-encode-panic", "encoding the Register request panicked: "+p)
			return
		}
		back := new(kmip.RequestMessage)
		err, p := guard("unmarshal request", func() error { return enc.unmarshal(doc, back) })
		if p != "" || err != nil {
			fail("transport", "request-decode-failed", fmt.Sprintf("the Register request is not decodable: %v %s", err, p))
			return
		}
		if scribble {
			keyScribble(doc)
		}
		if len(back.BatchItem) != 1 {
			fail("transport", "request-items", "the decoded request has not exactly one item")
			return
		}
		rreq, ok := back.BatchItem[0].RequestPayload.(*payloads.RegisterRequestPayload)
		if !ok || rreq.Object == nil {
			fail("transport", "request-payload", fmt.Sprintf("the decoded request payload is %T", back.BatchItem[0].RequestPayload))
			return
		}
		pl := &payloads.GetResponsePayload{ObjectType: rreq.ObjectType, UniqueIdentifier: "id-1", Object: rreq.Object}
		var okT bool
		var doc2 []byte
		got, doc2, okT = keyTransportPayloadDoc(enc, ver, pl)
		if scribble {
			keyScribble(doc2)
		}
		if !okT {
			fail("transport", "response-not-decodable", "the Get response carrying the registered object cannot be encoded and decoded")
			return
		}
	case "wire":
		type wres struct {
			pl  *payloads.GetResponsePayload
			err error
		}
		if env.wireFails > 20 {
			outcome = "skipped"
			return
		}
		exec := func(c *kmipclient.Client, d time.Duration) (wres, string) {
			return guard("exec", func() wres {
				// a broken framing must not block the engine: every exchange has a deadline
				cctx, cancel := context.WithTimeout(context.Background(), d)
				defer cancel()
				rr, err := b.build(c.Register().WithKeyFormat(kmipclient.KeyFormat(kf))).ExecContext(cctx)
				if err != nil {
					return wres{nil, err}
				}
				g, err := c.Get(rr.UniqueIdentifier).ExecContext(cctx)
				return wres{g, err}
			})
		}
		r, p := exec(cl, 5*time.Second)
		if p == "" && r.err != nil && errors.Is(r.err, context.DeadlineExceeded) {
			// a deadline can also be missed because the machine is busy: once more, on a fresh connection, with a
			// longer deadline, before this is reported as a failure of the library
			ctx.Res.Count("rt.wire.retry-after-timeout")
			if c2 := env.freshClient(ver); c2 != nil {
				cl = c2
				r, p = exec(cl, 20*time.Second)
			}
		}
		if r.err != nil || p != "" {
			env.wireFails++
		}
		if p != "" || r.err != nil || r.pl == nil {
			fail("transport", "wire-failed", fmt.Sprintf("Register then Get over the in-process connection failed: %v %s", r.err, p))
			return
		}
		got = r.pl
	}
	keyVerifyPayload(got, b.kind, orig, keyFmtName(regFmt), fail)
	return
}

// keyVerifyPayload: every accessor that applies to the kind of key returns a key equal to the original, every
// accessor of another kind an error; algorithm / length of the key block. `fail(oracle, what, detail)` reports.
func keyVerifyPayload(got *payloads.GetResponsePayload, kind string, orig *keyRtOrig, what string, fail func(oracle, what, detail string)) {
	b := struct{ kind string }{kind}
	if got == nil || got.Object == nil {
		fail("extract", what+":object-type", "no object came back")
		return
	}
	check := func(acc string, f func() (bool, error)) {
		type res struct {
			eq  bool
			err error
		}
		r, p := guard(acc, func() res { eq, err := f(); return res{eq, err} })
		switch {
		case p != "":
			fail("extract", what+":"+acc+":panic", acc+" panicked: "+p)
		case r.err != nil:
			fail("extract", what+":"+acc+":error", acc+" returned an error: "+r.err.Error())
		case !r.eq:
			fail("key-equal", what+":"+acc+":differs", acc+" returned a key that is not equal to the registered one")
		}
	}
	mustErr := func(acc string, f func() error) {
		err, p := guard(acc, f)
		if p != "" {
			fail("extract", what+":"+acc+":panic", acc+" panicked: "+p)
		} else if err == nil {
			fail("extract", what+":"+acc+":no-error", acc+" returned a value for an object of another kind")
		}
	}
	pemKey := func(s string, ty string) ([]byte, error) {
		blk, _ := pem.Decode([]byte(s))
		if blk == nil || blk.Type != ty {
			return nil, fmt.Errorf("not a %s PEM block", ty)
		}
		return blk.Bytes, nil
	}
	switch b.kind {
	case "rsapriv":
		o := orig.rsa
		priv, _ := got.Object.(*kmip.PrivateKey)
		if priv == nil {
			fail("extract", what+":object-type", fmt.Sprintf("the object came back as %T", got.Object))
			return
		}
		check("RsaPrivateKey", func() (bool, error) { k, err := got.RsaPrivateKey(); return err == nil && k.Equal(o), err })
		check("PrivateKey", func() (bool, error) {
			k, err := got.PrivateKey()
			rk, ok := k.(*rsa.PrivateKey)
			return err == nil && ok && rk.Equal(o), err
		})
		check("PrivateKey.RSA", func() (bool, error) { k, err := priv.RSA(); return err == nil && k.Equal(o), err })
		// rsa.PrivateKey.Equal ignores the CRT values: they are compared with the ones the primes determine
		check("PrivateKey.RSA.Precomputed", func() (bool, error) {
			k, err := priv.RSA()
			if err != nil {
				return false, err
			}
			return keyCrtMatches(k, o), nil
		})
		check("CryptoPrivateKey", func() (bool, error) {
			k, err := priv.CryptoPrivateKey()
			rk, ok := k.(*rsa.PrivateKey)
			return err == nil && ok && rk.Equal(o), err
		})
		check("PemPrivateKey", func() (bool, error) {
			s, err := got.PemPrivateKey()
			if err != nil {
				return false, err
			}
			der, err := pemKey(s, "PRIVATE KEY")
			if err != nil {
				return false, err
			}
			k, err := x509.ParsePKCS8PrivateKey(der)
			if err != nil {
				return false, err
			}
			rk, ok := k.(*rsa.PrivateKey)
			return ok && rk.Equal(o), nil
		})
		mustErr("EcdsaPrivateKey", func() error { _, err := got.EcdsaPrivateKey(); return err })
		mustErr("RsaPublicKey", func() error { _, err := got.RsaPublicKey(); return err })
	case "rsapub":
		o := &orig.rsa.PublicKey
		pub, _ := got.Object.(*kmip.PublicKey)
		if pub == nil {
			fail("extract", what+":object-type", fmt.Sprintf("the object came back as %T", got.Object))
			return
		}
		check("RsaPublicKey", func() (bool, error) { k, err := got.RsaPublicKey(); return err == nil && k.Equal(o), err })
		check("PublicKey", func() (bool, error) {
			k, err := got.PublicKey()
			rk, ok := k.(*rsa.PublicKey)
			return err == nil && ok && rk.Equal(o), err
		})
		check("PublicKey.RSA", func() (bool, error) { k, err := pub.RSA(); return err == nil && k.Equal(o), err })
		check("PemPublicKey", func() (bool, error) {
			s, err := got.PemPublicKey()
			if err != nil {
				return false, err
			}
			der, err := pemKey(s, "PUBLIC KEY")
			if err != nil {
				return false, err
			}
			k, err := x509.ParsePKIXPublicKey(der)
			if err != nil {
				return false, err
			}
			rk, ok := k.(*rsa.PublicKey)
			return ok && rk.Equal(o), nil
		})
		mustErr("EcdsaPublicKey", func() error { _, err := got.EcdsaPublicKey(); return err })
		mustErr("RsaPrivateKey", func() error { _, err := got.RsaPrivateKey(); return err })
	case "ecpriv":
		o := orig.ec
		priv, _ := got.Object.(*kmip.PrivateKey)
		if priv == nil {
			fail("extract", what+":object-type", fmt.Sprintf("the object came back as %T", got.Object))
			return
		}
		check("EcdsaPrivateKey", func() (bool, error) { k, err := got.EcdsaPrivateKey(); return err == nil && k.Equal(o), err })
		check("PrivateKey", func() (bool, error) {
			k, err := got.PrivateKey()
			ek, ok := k.(*ecdsa.PrivateKey)
			return err == nil && ok && ek.Equal(o), err
		})
		check("PrivateKey.ECDSA", func() (bool, error) { k, err := priv.ECDSA(); return err == nil && k.Equal(o), err })
		check("PemPrivateKey", func() (bool, error) {
			s, err := got.PemPrivateKey()
			if err != nil {
				return false, err
			}
			der, err := pemKey(s, "PRIVATE KEY")
			if err != nil {
				return false, err
			}
			k, err := x509.ParsePKCS8PrivateKey(der)
			if err != nil {
				return false, err
			}
			ek, ok := k.(*ecdsa.PrivateKey)
			return ok && ek.Equal(o), nil
		})
		mustErr("RsaPrivateKey", func() error { _, err := got.RsaPrivateKey(); return err })
		mustErr("EcdsaPublicKey", func() error { _, err := got.EcdsaPublicKey(); return err })
	case "ecpub":
		o := &orig.ec.PublicKey
		pub, _ := got.Object.(*kmip.PublicKey)
		if pub == nil {
			fail("extract", what+":object-type", fmt.Sprintf("the object came back as %T", got.Object))
			return
		}
		check("EcdsaPublicKey", func() (bool, error) { k, err := got.EcdsaPublicKey(); return err == nil && k.Equal(o), err })
		check("PublicKey", func() (bool, error) {
			k, err := got.PublicKey()
			ek, ok := k.(*ecdsa.PublicKey)
			return err == nil && ok && ek.Equal(o), err
		})
		check("PublicKey.ECDSA", func() (bool, error) { k, err := pub.ECDSA(); return err == nil && k.Equal(o), err })
		check("PemPublicKey", func() (bool, error) {
			s, err := got.PemPublicKey()
			if err != nil {
				return false, err
			}
			der, err := pemKey(s, "PUBLIC KEY")
			if err != nil {
				return false, err
			}
			k, err := x509.ParsePKIXPublicKey(der)
			if err != nil {
				return false, err
			}
			ek, ok := k.(*ecdsa.PublicKey)
			return ok && ek.Equal(o), nil
		})
		mustErr("RsaPublicKey", func() error { _, err := got.RsaPublicKey(); return err })
		mustErr("EcdsaPrivateKey", func() error { _, err := got.EcdsaPrivateKey(); return err })
	case "sym":
		check("SymmetricKey", func() (bool, error) {
			v, err := got.SymmetricKey()
			return err == nil && bytes.Equal(v, orig.bytes), err
		})
		if sk, ok := got.Object.(*kmip.SymmetricKey); ok {
			check("KeyMaterial", func() (bool, error) { v, err := sk.KeyMaterial(); return err == nil && bytes.Equal(v, orig.bytes), err })
			if int(sk.KeyBlock.CryptographicLength) != 8*len(orig.bytes) || sk.KeyBlock.CryptographicAlgorithm != kmip.CryptographicAlgorithmAES {
				fail("key-equal", what+":algorithm-length", fmt.Sprintf("algorithm/length came back as %d/%d", sk.KeyBlock.CryptographicAlgorithm, sk.KeyBlock.CryptographicLength))
			}
		} else {
			fail("extract", what+":object-type", fmt.Sprintf("the object came back as %T", got.Object))
		}
		mustErr("Secret", func() error { _, err := got.Secret(); return err })
		mustErr("RsaPrivateKey", func() error { _, err := got.RsaPrivateKey(); return err })
	case "secret":
		check("Secret", func() (bool, error) { v, err := got.Secret(); return err == nil && bytes.Equal(v, orig.bytes), err })
		check("SecretString", func() (bool, error) { v, err := got.SecretString(); return err == nil && v == string(orig.bytes), err })
		if sd, ok := got.Object.(*kmip.SecretData); ok {
			check("Data", func() (bool, error) { v, err := sd.Data(); return err == nil && bytes.Equal(v, orig.bytes), err })
		}
		mustErr("SymmetricKey", func() error { _, err := got.SymmetricKey(); return err })
	case "cert":
		check("X509Certificate", func() (bool, error) { c, err := got.X509Certificate(); return err == nil && c.Equal(orig.cert), err })
		check("PemCertificate", func() (bool, error) {
			s, err := got.PemCertificate()
			if err != nil {
				return false, err
			}
			der, err := pemKey(s, "CERTIFICATE")
			return err == nil && bytes.Equal(der, orig.cert.Raw), err
		})
		mustErr("PublicKey", func() error { _, err := got.PublicKey(); return err })
	}
	// the registered algorithm / length of asymmetric keys
	if kb := keyKbOf(got.Object); kb != nil {
		switch b.kind {
		case "rsapriv", "rsapub":
			if kb.CryptographicAlgorithm != kmip.CryptographicAlgorithmRSA || int(kb.CryptographicLength) != orig.rsa.N.BitLen() {
				fail("key-equal", what+":algorithm-length", fmt.Sprintf("algorithm/length came back as %d/%d", kb.CryptographicAlgorithm, kb.CryptographicLength))
			}
		case "ecpriv", "ecpub":
			if kb.CryptographicAlgorithm != kmip.CryptographicAlgorithmECDSA || int(kb.CryptographicLength) != orig.ec.Curve.Params().BitSize {
				fail("key-equal", what+":algorithm-length", fmt.Sprintf("algorithm/length came back as %d/%d", kb.CryptographicAlgorithm, kb.CryptographicLength))
			}
		}
	}
}

// regLine: correspondence of the register side with the model (`key.reg`).  The format the library chose is part
// of the question (the model answers whether it is admissible for the mask and what the builder produces in it).
func (env *keyEnv) regLine(kind string, kf uint8, ver kmip.ProtocolVersion, orig *keyRtOrig, obj kmip.Object, format uint32, outcome string) {
	var line string
	switch kind {
	case "rsapriv":
		line = fmt.Sprintf("key.reg %s %d %s %d %s %d", kind, kf, verStr(ver), format, orig.rsa.N.String(), len(orig.rsa.Primes))
	case "rsapub":
		line = fmt.Sprintf("key.reg %s %d %s %d %s", kind, kf, verStr(ver), format, orig.rsa.N.String())
	case "ecpriv", "ecpub":
		line = fmt.Sprintf("key.reg %s %d %s %d %d", kind, kf, verStr(ver), format, orig.ecCode)
	case "sym":
		line = fmt.Sprintf("key.reg sym %d %s %d %d %d", kf, verStr(ver), format, uint32(kmip.CryptographicAlgorithmAES), len(orig.bytes))
	case "secret":
		line = fmt.Sprintf("key.reg secret %d %s %d %d %d", kf, verStr(ver), format, uint32(kmip.SecretDataTypePassword), len(orig.bytes))
	default:
		return
	}
	if env.seen[line] {
		return
	}
	env.seen[line] = true
	env.ctx.Res.Count("reg." + kind + "." + outcome)
	if obj == nil {
		env.ctx.Add(line, "adm=true "+outcome, true, "C14")
		return
	}
	kb := keyKbOf(obj)
	sh := keyBlockFromGo(kb)
	slot := "none"
	if m := sh.plain; m != nil {
		slot = ""
		for _, s := range []struct {
			set  bool
			name string
		}{{m.bytes != nil, "bytes"}, {m.sym != nil, "sym"}, {m.rsaPriv != nil, "rsaPriv"}, {m.rsaPub != nil, "rsaPub"}, {m.ecdsaPriv != nil, "ecdsaPriv"},
			{m.ecdsaPub != nil, "ecdsaPub"}, {m.ecPriv != nil, "ecPriv"}, {m.ecPub != nil, "ecPub"}} {
			if s.set {
				slot += s.name
			}
		}
	}
	impl := fmt.Sprintf("adm=true ok type=%d f=%d c=%d alg=%d len=%d slot=%s", uint32(obj.ObjectType()), sh.format, sh.comp, uint32(kb.CryptographicAlgorithm), kb.CryptographicLength, slot)
	env.ctx.Add(line, impl, true, "C14")
}

// keyRegSweep: every format mask 0..255 for each kind of key, at a version on each side of the 1.3 switch: the
// builder alone (no transport), admissibility of the chosen format, `key.reg` correspondence.
func keyRegSweep(env *keyEnv) {
	ctx := env.ctx
	var rsaS *keyRSASample
	for _, s := range env.rsas {
		if s.label == "r512" {
			rsaS = s
		}
	}
	var ecS *keyECSample
	for _, s := range env.ecs {
		if s.label == "p384-rand" {
			ecS = s
		}
	}
	type item struct {
		b    keyBuilder
		orig *keyRtOrig
	}
	var items []item
	if rsaS != nil {
		o := &keyRtOrig{label: rsaS.label, rsa: rsaS.key}
		items = append(items, item{keyBuilderNamed(keyRSABuilders(rsaS.key), "RsaPrivateKey"), o}, item{keyBuilderNamed(keyRSABuilders(rsaS.key), "RsaPublicKey"), o})
	}
	if ecS != nil {
		o := &keyRtOrig{label: ecS.label, ec: ecS.key, ecCode: ecS.code}
		items = append(items, item{keyBuilderNamed(keyECBuilders(ecS.key), "EcdsaPrivateKey"), o}, item{keyBuilderNamed(keyECBuilders(ecS.key), "EcdsaPublicKey"), o})
	}
	symB := make([]byte, 16)
	items = append(items, item{keyBuilderNamed(keyBytesBuilders(symB), "SymmetricKey"), &keyRtOrig{label: "b-zeros16", bytes: symB}},
		item{keyBuilderNamed(keyBytesBuilders(symB), "Secret"), &keyRtOrig{label: "b-zeros16", bytes: symB}})
	for _, ver := range []kmip.ProtocolVersion{kmip.V1_2, kmip.V1_3} {
		cl := env.client(ver)
		if cl == nil {
			return
		}
		for _, it := range items {
			for kf := 0; kf < 256; kf++ {
				line := fmt.Sprintf("#key.regsweep %s %s %d", verStr(ver), it.b.name, kf)
				ctx.current = line
				type built struct {
					pl  kmip.OperationPayload
					err error
				}
				bl, p := guard("builder", func() built {
					pl, err := it.b.build(cl.Register().WithKeyFormat(kmipclient.KeyFormat(kf))).Build()
					return built{pl, err}
				})
				ctx.Res.Count("regsweep." + it.b.kind)
				if p != "" || bl.err != nil {
					keyViolate(ctx, "register-accepts", "key:regsweep:"+it.b.kind+":refused", fmt.Sprintf("the builder refused a valid key for format mask %d: %v %s [%s]", kf, bl.err, p, line), line)
					continue
				}
				req, ok := bl.pl.(*payloads.RegisterRequestPayload)
				if !ok || req.Object == nil || keyKbOf(req.Object) == nil {
					keyViolate(ctx, "register-accepts", "key:regsweep:"+it.b.kind+":no-object", fmt.Sprintf("the builder produced %T without a key object [%s]", bl.pl, line), line)
					continue
				}
				f := uint32(keyKbOf(req.Object).KeyFormatType)
				if adm := keyAdmissibleFormats(it.b.kind, uint8(kf), ver); !keyFormatIn(f, adm) {
					keyViolate(ctx, "format-selector", "key:regsweep:"+it.b.kind+":format-"+keyFmtName(f)+"-not-requested",
						fmt.Sprintf("format mask %d at %s: registered as key format %d; admissible: %v [%s]", kf, verStr(ver), f, adm, line), line)
				}
				env.regLine(it.b.kind, uint8(kf), ver, it.orig, req.Object, f, "ok")
			}
		}
	}
}

// keyCrtMatches: the CRT values of `got` (Dp, Dq, Qinv) are the ones determined by the first two primes of `orig`.
func keyCrtMatches(got, orig *rsa.PrivateKey) bool {
	if len(orig.Primes) < 2 || len(got.Primes) < 2 {
		return false
	}
	p, q := orig.Primes[0], orig.Primes[1]
	if got.Primes[0].Cmp(p) != 0 || got.Primes[1].Cmp(q) != 0 {
		return false
	}
	one := big.NewInt(1)
	dp := new(big.Int).Mod(orig.D, new(big.Int).Sub(p, one))
	dq := new(big.Int).Mod(orig.D, new(big.Int).Sub(q, one))
	qinv := new(big.Int).ModInverse(q, p)
	pc := got.Precomputed
	return pc.Dp != nil && pc.Dq != nil && pc.Qinv != nil && qinv != nil &&
		pc.Dp.Cmp(dp) == 0 && pc.Dq.Cmp(dq) == 0 && pc.Qinv.Cmp(qinv) == 0
}

var _ = time.Now
var _ crypto.PrivateKey
var _ = strings.ToUpper
