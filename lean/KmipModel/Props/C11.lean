/-
  C11 — the client survives connection faults at every point of an exchange.

  Same system and same certificate as C10 (`Kmip.CliConn.sys current`, `certCurrent`). The fault injector of
  the model may fail ANY read of the read loop (retryable io.EOF / closed, or fatal reset), ANY write of
  the write loop (also: short write), ANY dial, at any time and any number of times; the server may
  answer late or never; the caller's context may be cancelled at any step; `Close()` runs concurrently
  with everything (it does not take the mutex). Version negotiation is an ordinary call followed, on
  failure, by `Close()`, so `DialContext` is covered by the same runs.

  BYTE LEVEL. "A complete valid response or an error, never a partial or corrupted one" is the framing
  theorem of C07 (`never_partial_response` below restates it): `Stream.Recv` yields exactly the bytes
  of one frame or an error, whatever the transport does; the read loop turns every error into
  `terminate`. The state machine therefore only distinguishes "a whole response" from "an error".

  WHAT FAILS. `no_stuck` does not hold in full on the current code: `reconnect` can install a new
  connection after `Close()` has set `c.closed` and read `c.conn` (a pending call past its
  `c.closed.Load()` check, e.g. at the yield point `cli.beforeReconnect`); that connection is never closed
  and its two goroutines stay. `close_race_leaks_goroutines` is the trace, `C11_no_stuck_full` the
  statement that fails, `no_stuck` the part that holds; `Lemmas/CliCertPatched.lean` proves the full
  statement for the code with a two-line patch.

  Scope as for C10: theorems about the modelled state machine; goroutine reclamation, sockets and the
  Go scheduler are observed by the harness (`lts.cli`), not proved.
-/
import KmipModel.Lemmas.CliCert
import KmipModel.Props.C07
namespace Kmip.C11
open Kmip.CliLts Kmip.CliConn Kmip.Gen.CertCliConn

theorem cliconn_closed : closedUnder (sys current) codec certCurrent := CliCert.current_closed

/-- 1. No panic: neither a send on a closed channel nor a nil dereference in `Close`. -/
theorem no_crash {s : St} (h : Reachable (sys current) s) : s.panic = 0 := by
  have := (CliCert.badPartial_false (CliCert.current_inv h)).2.2.2.1
  simpa [badPanic] using this

/-- 2. A pending call never hangs once it has a reason to return: whenever the caller's context is
    done or the connection's context is cancelled, some step of the client's own goroutines is enabled
    (no waiting for the peer). -/
theorem no_hang {s : St} (h : Reachable (sys current) s) (hk : kActive s = true)
    (hr : s.kctx = true ∨ (s.has = true ∧ s.cause ≠ 0)) : stepInt current s ≠ [] := by
  have hb := (CliCert.badPartial_false (CliCert.current_inv h)).2.2.2.2.2.2.2.1
  intro he
  have : badHang current s = true := by
    simp only [badHang, quiescent, hk, he, List.isEmpty_nil, Bool.and_true, Bool.true_and,
      Bool.or_eq_true, Bool.and_eq_true, bne_iff_ne]
    rcases hr with h1 | ⟨h1, h2⟩
    · exact Or.inl h1
    · exact Or.inr ⟨h1, h2⟩
  rw [this] at hb; cases hb

/-- 3. A single call hands its request to a writer at most four times (`retry := 3`). -/
theorem transmissions_le_4 {s : St} (h : Reachable (sys current) s) : s.ntx ≤ 4 := by
  have := (CliCert.badPartial_false (CliCert.current_inv h)).2.2.2.2.1
  simpa [badTx] using this

/-- 4. Once the client is closed, calls fail and do not dial: a call that takes the mutex after
    `Close()` has set `c.closed` neither returns a response nor reaches the dial. -/
theorem closed_stays_closed {s : St} (h : Reachable (sys current) s) (hb : s.born = true) :
    s.kp ≠ .retOk ∧ s.kp ≠ .rc5 := by
  have := (CliCert.badPartial_false (CliCert.current_inv h)).2.2.2.2.2.1
  simp only [badAfterClose, hb, Bool.true_and, Bool.or_eq_false_iff, beq_eq_false_iff_ne] at this
  exact this

/-- 5. Recovery. A call that starts on an open client whose earlier faults have been fully processed
    (`settled`: no connection goroutine is between detecting an I/O error and cancelling the
    connection context), and during which no fault, no cancellation and no `Close()` occurs (`clean`),
    does not end in an error: whatever state the previous faults left behind — dead connection,
    nil connection, late responses — it dials if needed and gets its own response (`no_stale_delivery`). -/
theorem recovers {s : St} (h : Reachable (sys current) s) (hc : s.clean = true) : s.kp ≠ .retErr := by
  have := (CliCert.badPartial_false (CliCert.current_inv h)).2.2.2.2.2.2.1
  simpa [badRecover, hc] using this

/-- 6a. Goroutines of the current connection. When nothing is running (no call, no `Close()` in
    progress, no enabled step of the client's goroutines) and the connection has been cancelled or the
    client closed, the read loop and the write loop have ended — unless a connection was installed
    after `Close()` had set `c.closed` (`raced`, see `close_race_leaks_goroutines`). -/
theorem no_stuck {s : St} (h : Reachable (sys current) s) (hb : badStuck current s = true) :
    s.raced = true := by
  have := (CliCert.badPartial_false (CliCert.current_inv h)).2.2.2.2.2.2.2.2.2
  simpa [hb] using this

/-- 6b. Hand-off. Whenever `reconnect` drops a connection (`c.conn = nil`), that connection is closed
    and either fully terminated or inside the `terminate` of a `Close()` that holds a pointer to it. -/
theorem handoff_ok {s : St} (h : Reachable (sys current) s) (hk : s.kp = .rc4) (hh : s.has = true) :
    handoffOk s = true := by
  have := (CliCert.badPartial_false (CliCert.current_inv h)).2.2.2.2.2.2.2.2.1
  simpa [badHandoff, hk, hh] using this

/-- 6c. Goroutines of every connection the client has let go of, however many there are: from the
    hand-off state on, in every state of the let-go connection in which none of its goroutines (nor
    the `Close()` still holding it) can move, both loops have ended; and it never panics. -/
theorem abandoned_conn_drains {s : St} (h : Reachable (sys current) s) (hk : s.kp = .rc4)
    (hh : s.has = true) {d : Option St}
    (hd : Reachable (CliDrain.sysAt current (norm current (CliDrain.proj s))) d) :
    CliDrain.bad current d = false :=
  CliCert.drain_inv
    (CliDrain.reachable_of_sysAt (CliDrain.start_mem current s (handoff_ok h hk hh)) hd)

/-- 7. Byte level (C07): a response cut anywhere never yields a message, for every read schedule;
    a complete frame yields exactly that frame and leaves the following bytes untouched. -/
theorem never_partial_response (max : Nat) (m : Bytes) (hm : Framed m) :
    (∀ (k : Nat) (sched : List ReadEv), k < m.length →
      ∀ bs, (recv max { wire := m.take k, sched := sched }).res ≠ .msg bs) ∧
    (∀ (rest : Bytes) (sched : List ReadEv), (max = 0 ∨ m.length ≤ max) → Progressive sched →
      (∀ ev ∈ sched, ev.withErr = false) →
      (recv max { wire := m ++ rest, sched := sched }).res = .msg m) :=
  ⟨fun k sched hk => C07.recv_truncated max m k sched hm hk,
   fun rest sched hmax hp he => by
     obtain ⟨_, h, _⟩ := C07.recv_exact max m rest sched hm hmax hp he
     exact h⟩

/-! ### the full statement of "no goroutines left behind", and why it fails now -/

/-- the full property on the system that is not cut at `raced`. -/
def C11_no_stuck_full : Prop :=
  ∀ s, Reachable (sysAll current) s → badStuck current s = false

/-- `Close()` while a call is about to dial: the call's connection is installed after `Close()` has
    read `c.conn == nil`; the call returns, the client is closed, nothing can move, and the read loop
    (in `Recv`) and the write loop (in its select) of the new connection are still there. -/
theorem close_race_leaks_goroutines :
    ∃ s, Reachable (sysAll current) s ∧ badStuck current s = true ∧ s.cclosed = true ∧ s.cp = .cDone ∧
      s.rp = .r1 ∧ s.wp = .ws :=
  ⟨endOf (sysAll current) [0, 0, 0, 0, 1, 1, 1, 0, 0, 0, 0, 0],
    reachable_endOf _ (by decide +kernel), by decide +kernel, by decide +kernel, by decide +kernel,
    by decide +kernel, by decide +kernel⟩

theorem no_stuck_full_fails : ¬ C11_no_stuck_full := by
  intro h
  obtain ⟨s, hs, hb, _⟩ := close_race_leaks_goroutines
  rw [h s hs] at hb; cases hb

/-- the race itself is reachable in the system the certificate is about. -/
theorem close_race_reachable : ∃ s, Reachable (sys current) s ∧ s.raced = true :=
  ⟨endOf (sys current) [0, 0, 0, 0, 2, 0], reachable_endOf _ (by decide +kernel), by decide +kernel⟩

/-! ### non-vacuity -/

/-- a clean call that succeeds. -/
example : ∃ s, Reachable (sys current) s ∧ s.clean = true ∧ s.kp = .retOk :=
  ⟨endOf (sys current) [0, 0, 0, 0, 0, 0, 0, 0, 0, 0, 2, 0, 0, 3, 0, 0],
    reachable_endOf _ (by decide +kernel), by decide +kernel, by decide +kernel⟩

/-- a call that uses up its budget: four transmissions, then an error. -/
example : ∃ s, Reachable (sys current) s ∧ s.ntx = 4 ∧ s.kp = .retErr :=
  ⟨endOf (sys current) [0, 0, 0, 0, 0, 1, 4, 1, 0, 0, 0, 0, 0, 0, 1, 4, 1, 0, 0, 0, 0, 0, 0, 1, 4, 1, 0,
      0, 0, 0, 0, 0, 0, 0, 1, 0, 4, 1, 0],
    reachable_endOf _ (by decide +kernel), by decide +kernel, by decide +kernel⟩

/-- a call on a closed client fails. -/
example : ∃ s, Reachable (sys current) s ∧ s.born = true ∧ s.kp = .retErr :=
  ⟨endOf (sys current) [1, 1, 0], reachable_endOf _ (by decide +kernel), by decide +kernel,
    by decide +kernel⟩

/-- a hand-off does occur (a connection is let go of after a write fault). -/
example : ∃ s, Reachable (sys current) s ∧ s.kp = .rc4 ∧ s.has = true :=
  ⟨endOf (sys current) [0, 0, 0, 0, 0, 1, 4, 1, 0, 0, 0, 0],
    reachable_endOf _ (by decide +kernel), by decide +kernel, by decide +kernel⟩

/-- a closed client whose goroutines have all ended. -/
example : ∃ s, Reachable (sys current) s ∧ s.cclosed = true ∧ s.cp = .cDone ∧ s.has = true ∧
    connEnded s = true ∧ s.kp = .idle :=
  ⟨endOf (sys current) [0, 0, 0, 0, 0, 4, 3, 3, 0, 0, 0, 0],
    reachable_endOf _ (by decide +kernel), by decide +kernel, by decide +kernel, by decide +kernel,
    by decide +kernel, by decide +kernel⟩

/-! ### the behaviour before the repairs, and why `recovers` needs `settled` -/

/-- before 03f0b5a: `doRountrip` dials only when `c.conn == nil`. -/
def beforeDeadConnFix : Params := { current with reuseDeadConn := true }

/-- Before 03f0b5a a connection killed by a reset is kept: a later call — no fault, no cancellation,
    no `Close()` during it — fails with the old error. -/
theorem old_dead_conn_reused : ∃ s, Reachable (sys beforeDeadConnFix) s ∧ s.clean = true ∧ s.kp = .retErr :=
  ⟨endOf (sys beforeDeadConnFix) [0, 0, 0, 0, 0, 1, 5, 1, 0, 0, 2, 0, 0, 0],
    reachable_endOf _ (by decide +kernel), by decide +kernel, by decide +kernel⟩

/-- before 9ada762: `Client.Close` dereferences `c.conn` unconditionally. -/
def beforeCloseFix : Params := { current with closeRepaired := false }

theorem old_close_nil_deref : ∃ s, Reachable (sys beforeCloseFix) s ∧ s.panic = 2 :=
  ⟨endOf (sys beforeCloseFix) [1, 0], reachable_endOf _ (by decide +kernel), by decide +kernel⟩

/-- before d24e630: `terminate` closes the tx channel a concurrent `send` may already hold. -/
def beforeTxFix : Params := { current with terminateClosesTx := true }

theorem old_terminate_close_tx_panics : ∃ s, Reachable (sys beforeTxFix) s ∧ s.panic = 1 :=
  ⟨endOf (sys beforeTxFix) [0, 0, 0, 0, 0, 0, 0, 0, 3, 0, 1, 0],
    reachable_endOf _ (by decide +kernel), by decide +kernel⟩

/-- before 4f747d8: the per-message error channel is unbuffered. -/
def beforeErrChFix : Params := { current with errChBuffered := false }

/-- the write loop blocks forever on `req.err <- err` once the sender has left. -/
theorem old_unbuffered_errch_leaks :
    ∃ s, Reachable (sys beforeErrChFix) s ∧ badStuck beforeErrChFix s = true ∧ s.raced = false :=
  ⟨endOf (sys beforeErrChFix) [0, 0, 0, 0, 0, 0, 0, 0, 0, 0, 4, 0, 0, 0, 0, 0],
    reachable_endOf _ (by decide +kernel), by decide +kernel, by decide +kernel⟩

/-- `recovers` without the `settled` precondition is false of the current code: a call that starts
    after the write loop has reported a fatal write error to the previous call but before it has
    cancelled the connection context (`req.err <- err` precedes `c.terminate(err)` in `writeloop`)
    still sees a live connection, and fails with that error although nothing fails during the call. -/
def cleanWithoutSettled : Params := { current with cleanNeedsSettled := false }

theorem recovers_needs_settled :
    ∃ s, Reachable (sys cleanWithoutSettled) s ∧ s.clean = true ∧ s.kp = .retErr :=
  ⟨endOf (sys cleanWithoutSettled) [0, 0, 0, 0, 0, 1, 2, 0, 0, 4, 2, 0, 0, 1, 0],
    reachable_endOf _ (by decide +kernel), by decide +kernel, by decide +kernel⟩

end Kmip.C11
