/-
  Line-protocol syntax of typed values (`Val`), shared with the Go harness:
    i<int>  b0|b1  t<hex>|t-  y<hex>|y-|yn(nil)  g<int>  n (nil pointer)  N (nil interface)  a (zero ttlv.Value)
    (P v) pointer   (S v…) struct   (L v…) slice   (F <dyn id> v) interface   (A <item>) ttlv.Value   (X <item>…) ttlv.Struct
-/
import KmipModel.Model.Plan
import KmipModel.Model.Syntax
namespace Kmip

def hexOrDash (b : Bytes) : String := if b.isEmpty then "-" else hexOfBytes b

mutual
  partial def Val.render : Val → String
    | .int v => "i" ++ toString v
    | .bool b => if b then "b1" else "b0"
    | .text s => "t" ++ hexOrDash s
    | .bytes none => "yn"
    | .bytes (some b) => "y" ++ hexOrDash b
    | .big v => "g" ++ toString v
    | .ptr none => "n"
    | .ptr (some v) => "(P " ++ v.render ++ ")"
    | .struct fs => "(S" ++ Val.renderList fs ++ ")"
    | .list xs => "(L" ++ Val.renderList xs ++ ")"
    | .iface none => "N"
    | .iface (some (d, v)) => "(F " ++ toString d ++ " " ++ v.render ++ ")"
    | .any none => "a"
    | .any (some it) => "(A " ++ it.render ++ ")"
    | .anyStruct its => "(X" ++ Item.renderList its ++ ")"
  partial def Val.renderList : List Val → String
    | [] => ""
    | v :: vs => " " ++ v.render ++ Val.renderList vs
end

def parseAtom (t : String) : Option Val :=
  let rest := (t.drop 1).toString
  match t.front with
  | 'i' => rest.toInt?.map .int
  | 'b' => if rest = "1" then some (.bool true) else if rest = "0" then some (.bool false) else none
  | 't' => (bytesOfHex rest).map .text
  | 'y' => if rest = "n" then some (.bytes none) else (bytesOfHex rest).map fun b => .bytes (some b)
  | 'g' => rest.toInt?.map .big
  | 'n' => if rest = "" then some (.ptr none) else none
  | 'N' => if rest = "" then some (.iface none) else none
  | 'a' => if rest = "" then some (.any none) else none
  | _ => none

mutual
  partial def parseVal : List String → Option (Val × List String)
    | "(" :: "P" :: rest => do
      let (v, r) ← parseVal rest
      match r with
      | ")" :: r' => pure (.ptr (some v), r')
      | _ => none
    | "(" :: "S" :: rest => do
      let (vs, r) ← parseVals rest
      pure (.struct vs, r)
    | "(" :: "L" :: rest => do
      let (vs, r) ← parseVals rest
      pure (.list vs, r)
    | "(" :: "F" :: d :: rest => do
      let dn ← d.toNat?
      let (v, r) ← parseVal rest
      match r with
      | ")" :: r' => pure (.iface (some (dn, v)), r')
      | _ => none
    | "(" :: "A" :: rest => do
      let (it, r) ← parseItem rest
      match r with
      | ")" :: r' => pure (.any (some it), r')
      | _ => none
    | "(" :: "X" :: rest => do
      let (its, r) ← parseItems rest
      pure (.anyStruct its, r)
    | t :: rest => do
      if t = "(" ∨ t = ")" then none else
      let v ← parseAtom t
      pure (v, rest)
    | [] => none
  partial def parseVals : List String → Option (List Val × List String)
    | ")" :: rest => some ([], rest)
    | toks => do
      let (v, r) ← parseVal toks
      let (vs, r') ← parseVals r
      pure (v :: vs, r')
end

def parseValStr (s : String) : Option Val :=
  match parseVal (tokenize s) with
  | some (v, []) => some v
  | _ => none

end Kmip
