/-
  Driver handlers: `wire.*`, `big.*`, `pad`, `stream.recv`.
-/
import Driver.Common
import KmipModel.Model.Stream
open Kmip

namespace Driver

def parseSched (s : String) : Option (List ReadEv) :=
  if s = "-" then some [] else
  (s.splitOn ",").mapM fun p =>
    let (p', e) := if p.endsWith "e" then ((p.dropEnd 1).toString, true) else (p, false)
    p'.toNat?.map fun k => { k := k, withErr := e }

/-- run `Recv` repeatedly, rendering what the harness can observe on the real stream: per call the
    outcome (`m` = a message was returned and decodes, `err` = any error — classes and texts are not
    compared), the transport position after the call and the capacity requested for the buffer. -/
def streamRun (c0s : List Nat) (max : Nat) (wire : Bytes) (sched : List ReadEv) : String :=
  let total := wire.length
  -- `c0s`: the buffer capacity each call starts with (the last one is repeated): one number for an
  -- implementation that allocates its buffer per call, the observed list for one that keeps it between calls
  let rec go (n : Nat) (c0s : List Nat) (t : Transport) (acc : String) : String :=
    match n with
    | 0 => acc ++ "more@" ++ toString (total - t.wire.length)
    | n + 1 =>
      let c0 := c0s.headD 512
      let c0s := if c0s.length > 1 then c0s.drop 1 else c0s
      let o := recvC c0 max t
      let at_ := "@" ++ toString (total - o.t.wire.length) ++ ":" ++ toString o.cap
      match o.res with
      | .msg bs =>
        match unmarshalValue bs with
        | .ok _ => go n c0s o.t (acc ++ "m" ++ at_ ++ " ")
        | .err _ => acc ++ "err" ++ at_
        | .panic _ => acc ++ "panic" ++ at_
      | .ioErr => acc ++ "err" ++ at_
      | .eof => acc ++ "err" ++ at_
      | .tooBig => acc ++ "err" ++ at_
      | .fuel => acc ++ "fuel" ++ at_
  go (total / 8 + 2) c0s { wire := wire, sched := sched } "ok "

/-- `none` = command not handled here. -/
def handleWire (cmd arg : String) : Option String :=
  match cmd with
  | "ping" => some "pong"
  | "wire.enc" => some <|
    match parseTree arg with
    | some t => "ok " ++ hexOfBytes (enc t)
    | none => "bad-op"
  | "wire.dec" => some <|
    match bytesOfHex arg with
    | some bs => renderRes (do let t ← unmarshalValue bs; pure t.render)
    | none => "bad-op"
  | "wire.spec" => some <|
    match bytesOfHex arg with
    | some bs => match specDecode bs with
      | some t => "ok " ++ t.render
      | none => "none"
    | none => "bad-op"
  | "big.enc" => some <|
    match arg.toInt? with
    | some v => "ok " ++ hexOfBytes (encodeBig v)
    | none => "bad-op"
  | "big.dec" => some <|
    match bytesOfHex arg with
    | some [] => "err"
    | some bs => "ok " ++ toString (bytesToBigInt bs)
    | none => "bad-op"
  | "stream.recv" => some <|
    match arg.splitOn " " with
    | [m, c, w, sc] =>
      -- `Stream.max` may be negative (the client passes -1): the code tests `s.max > 0`
      match m.toInt?, (c.splitOn ",").mapM (·.toNat?), bytesOfHex (if w = "-" then "" else w), parseSched sc with
      | some max, some c0s, some wire, some sched => streamRun c0s max.toNat wire sched
      | _, _, _, _ => "bad-op"
    | _ => "bad-op"
  | "pad" => some <|
    match arg.toNat? with
    | some n => "ok " ++ toString (padForLen n 8)
    | none => "bad-op"
  | _ => none

end Driver
