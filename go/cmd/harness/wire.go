package main

import (
	"bytes"
	"encoding/hex"
	"fmt"
	"math/big"
	"regexp"
	"strings"
	"time"

	"github.com/ovh/kmip-go/ttlv"

	"verifharness/internal/report"
	"verifharness/internal/rng"
	"verifharness/internal/tree"
)

func hexUp(b []byte) string {
	if len(b) == 0 {
		return "-"
	}
	return strings.ToUpper(hex.EncodeToString(b))
}

var numRe = regexp.MustCompile(`[0-9]+`)

// panicKey canonicalises a panic message (numbers removed) for known-finding matching.
func panicKey(msg string) string {
	if i := strings.Index(msg, "\n"); i >= 0 {
		msg = msg[:i]
	}
	return numRe.ReplaceAllString(msg, "N")
}

// decodeGeneric runs UnmarshalTTLV into a ttlv.Value under recover and renders the outcome.
func decodeGeneric(b []byte) (string, *tree.Item) {
	type out struct {
		it  *tree.Item
		err error
	}
	r, p := guard("UnmarshalTTLV", func() out {
		var v ttlv.Value
		if err := ttlv.UnmarshalTTLV(b, &v); err != nil {
			return out{nil, err}
		}
		it, err := fromValue(v)
		if err != nil {
			return out{nil, fmt.Errorf("harness: %w", err)}
		}
		return out{it, nil}
	})
	if p != "" {
		return "panic " + panicKey(p), nil
	}
	if r.err != nil {
		return "err", nil
	}
	return "ok " + r.it.Render(), r.it
}

// c02Binary applies the C02 oracle to the binary decoder on input b: no panic, input unmodified,
// deterministic, nothing taken from outside the input (bytes past len(b) within cap are varied).
func c02Binary(ctx *Ctx, line string, b []byte) string {
	orig := append([]byte{}, b...)
	// exact-capacity copy
	exact := make([]byte, len(b))
	copy(exact, b)
	first, _ := decodeGeneric(exact)
	if strings.HasPrefix(first, "panic") {
		ctx.Res.Violate(report.Violation{Property: "C02", Oracle: "no-panic", Key: "binary:" + first, Detail: "ttlv.UnmarshalTTLV panicked: " + first, Line: line})
		return first
	}
	if !bytes.Equal(exact, orig) {
		ctx.Res.Violate(report.Violation{Property: "C02", Oracle: "input-unmodified", Key: "binary:input-modified", Detail: "decoder modified its input buffer", Line: line})
	}
	second, _ := decodeGeneric(exact)
	if second != first {
		ctx.Res.Violate(report.Violation{Property: "C02", Oracle: "deterministic", Key: "binary:second-decode-differs", Detail: "decoding the same buffer again gave " + second + " after " + first, Line: line})
	}
	// same bytes, but followed (within capacity) by different junk: the result must not change
	for _, fill := range []byte{0x00, 0xFF, 0x42} {
		big := make([]byte, len(b)+64)
		copy(big, b)
		for i := len(b); i < len(big); i++ {
			big[i] = fill
		}
		if fill == 0x42 {
			// a plausible TTLV header right after the input
			copy(big[len(b):], []byte{0x42, 0x00, 0x01, 0x07, 0x00, 0x00, 0x00, 0x08})
		}
		got, _ := decodeGeneric(big[:len(b)])
		if got != first {
			ctx.Res.Violate(report.Violation{Property: "C02", Oracle: "no-over-read", Key: "binary:reads-beyond-input", Detail: fmt.Sprintf("result depends on bytes beyond the input (fill %02X): %s vs %s", fill, got, first), Line: line})
			break
		}
	}
	// bytes that lie after the DECLARED end of a structure (its length is not a multiple of 8) but before the
	// next item belong to no item of that structure: when the input decodes, the decoded content must not
	// depend on them (an accepted value never takes content from outside the declared extent).
	if strings.HasPrefix(first, "ok") {
		if regs := outsideExtents(b); len(regs) > 0 {
			alt := append([]byte{}, b...)
			for _, rg := range regs {
				for i := rg[0]; i < rg[1]; i++ {
					alt[i] ^= 0xFF
				}
			}
			if got, _ := decodeGeneric(alt); strings.HasPrefix(got, "ok") && got != first {
				ctx.Res.Violate(report.Violation{Property: "C02", Oracle: "declared-extent", Key: "binary:content-from-outside-extent", Detail: fmt.Sprintf("the decoded value changes with bytes %v that lie outside the declared extent of their structure: %s vs %s", regs, got, first), Line: line})
			}
			ctx.Res.Count("dec.extent-varied")
		}
	}
	return first
}

// outsideExtents: for every structure header reachable by walking declared lengths, the byte range between
// its declared end and its padded end (clipped to the enclosing extent).
func outsideExtents(b []byte) [][2]int {
	var out [][2]int
	var walk func(off, end, depth int)
	walk = func(off, end, depth int) {
		for off+8 <= end && depth < 64 {
			l := int(b[off+4])<<24 | int(b[off+5])<<16 | int(b[off+6])<<8 | int(b[off+7])
			pl := (l + 7) / 8 * 8
			if b[off+3] == 1 {
				dend := min(off+8+l, end)
				if pend := min(off+8+pl, end); pend > dend {
					out = append(out, [2]int{dend, pend})
				}
				walk(off+8, dend, depth+1)
			}
			off += 8 + pl
		}
	}
	walk(0, len(b), 0)
	return out
}

func init() {
	register(&Engine{
		Name: "wire",
		Rule: "generic TTLV trees from a seeded structure-aware generator (all ten types, boundary values), their independent encodings, structural mutations of those encodings (header bytes, lengths, types, truncation at every offset) and raw random bytes; distinct = distinct protocol line; nontrivial = tree with >1 node or a mutated/malformed input",
		Run:  runWire,
	})
}

// reusedEncoder is kept across all cases of a run: every encoding through it follows arbitrary earlier ones.
var reusedEncoder = ttlv.NewTTLVEncoder()

func wireEncCase(ctx *Ctx, t *tree.Item) {
	line := "wire.enc " + t.Render()
	ctx.current = line
	// the value handed to the encoder: date-times carry the same instants in various time zones (the wire
	// format holds the instant; the process runs with TZ=UTC more often than not)
	in := zoned(toValue(t))
	got, p := guard("MarshalTTLV", func() []byte { return ttlv.MarshalTTLV(in) })
	impl := "ok " + hexUp(got)
	if p != "" {
		impl = "panic " + panicKey(p)
		ctx.Res.Violate(report.Violation{Property: "C03", Oracle: "encoder-total", Key: "enc:" + impl, Detail: "MarshalTTLV panicked: " + p, Line: line})
	} else {
		// the bytes MarshalTTLV returned belong to the caller: a later call into the library (another
		// MarshalTTLV, of a different value of about the same size) must leave them as they are
		keep := append([]byte{}, got...)
		guard("MarshalTTLV (later call)", func() []byte {
			return ttlv.MarshalTTLV(ttlv.Value{Tag: 0x42000F, Value: ttlv.Struct{{Tag: 0x420008, Value: bytes.Repeat([]byte{0xEE}, min(len(got), 1<<16)+8)}}})
		})
		if !bytes.Equal(got, keep) {
			ctx.Res.Violate(report.Violation{Property: "C03", Oracle: "returned-bytes-stable", Key: "enc:returned-bytes-overwritten", Detail: "the byte slice returned by MarshalTTLV was overwritten by a later MarshalTTLV call: it now reads " + hexUp(got[:min(len(got), 64)]) + "… instead of " + hexUp(keep[:min(len(keep), 64)]) + "…", Line: line})
			got = keep
			impl = "ok " + hexUp(got)
		}
		// the encoder only reads the value it is handed
		if after, err := fromValue(in); err != nil || !tree.Equal(after, t) {
			ctx.Res.Violate(report.Violation{Property: "C01", Oracle: "encoder-input-unmodified", Key: "enc:input-modified", Detail: "MarshalTTLV modified the value it was handed: it now reads " + renderOrErr(after, err), Line: line})
		}
		// C03 oracle: the independent strict parser reads back the same tree, and the independent
		// writer produces the same bytes.
		back, err := tree.Decode(got)
		if err != nil {
			ctx.Res.Violate(report.Violation{Property: "C03", Oracle: "independent-parse", Key: "enc:not-wellformed:" + err.Error(), Detail: "independent parser rejects library output: " + err.Error() + " bytes=" + hexUp(got), Line: line})
		} else if !tree.Equal(back, t) {
			ctx.Res.Violate(report.Violation{Property: "C03", Oracle: "independent-parse", Key: "enc:value-differs", Detail: "independent parser reads " + back.Render(), Line: line})
		}
		// C01 oracle (generic values): the library decodes its own encoding back to the same tree.
		// … and the decoded value does not share memory with the input buffer (a transport reuses its buffer)
		if rt := decodeDetached(got); rt != "ok "+t.Render() {
			ctx.Res.Violate(report.Violation{Property: "C01", Oracle: "decoded-value-detached", Key: "enc:decoded-aliases-input", Detail: "the value decoded by UnmarshalTTLV changes when the input buffer is overwritten afterwards: " + rt[:min(len(rt), 200)], Line: line})
		}
		if rt, _ := decodeGeneric(got); rt != "ok "+t.Render() {
			d := rt
			if len(d) > 200 {
				d = d[:200] + "…"
			}
			ctx.Res.Violate(report.Violation{Property: "C01", Oracle: "roundtrip-generic", Key: "enc:roundtrip:" + strings.SplitN(rt, " ", 2)[0], Detail: "UnmarshalTTLV(MarshalTTLV(v)) gives " + d + " instead of v", Line: line})
		}
		// The independent writer emits the SHORTEST big integers; the property (and KMIP 1.4 §9.1.1.4) only ask
		// for sign extension to a multiple of 8 bytes. A difference is therefore counted, not reported: whatever
		// is wrong on the wire is seen by the strict parser above (it re-reads every length, padding and value).
		if want := t.Encode(); !bytes.Equal(want, got) {
			ctx.Res.Count("enc.differs-from-minimal-writer")
		}
		// the public writer API (Encoder.Struct/Integer/…/Bitmask), not only ttlv.Value, is an output path too
		wireAPICase(ctx, line, t, got)
		wireAnyCase(ctx, line, t)
	}
	ctx.Add(line, impl, t.Size() > 1 || t.Kind == tree.KBig, "C01,C03")
	// the same tree through a REUSED encoder (after other messages and Clear) must give the same bytes
	if p == "" {
		reuse, pr := guard("Encoder reuse", func() []byte {
			reusedEncoder.Clear()
			toValue(t).EncodeTTLV(&reusedEncoder)
			return append([]byte{}, reusedEncoder.Bytes()...)
		})
		// stated as the property: what a reused (cleared) encoder emits is well-formed and carries the same tree
		if pr != "" {
			ctx.Res.Violate(report.Violation{Property: "C03", Oracle: "reused-encoder", Key: "enc:reused-encoder-differs", Detail: "a reused (cleared) encoder panics: " + pr, Line: line})
		} else if back, err := tree.Decode(reuse); err != nil || !tree.Equal(back, t) {
			ctx.Res.Violate(report.Violation{Property: "C03", Oracle: "reused-encoder", Key: "enc:reused-encoder-differs", Detail: "a reused (cleared) encoder gives " + hexUp(reuse) + " instead of " + hexUp(got), Line: line})
		} else if !bytes.Equal(reuse, got) {
			ctx.Res.Count("enc.reused-differs-wellformed")
		}
	}
	ctx.Res.Count(fmt.Sprintf("enc.kind=%d", t.Kind))
	ctx.Res.Count(fmt.Sprintf("enc.depth=%d", min(t.Depth(), 9)))
}

// apiEncode writes t through the exported writer methods of ttlv.Encoder (the entry points hand-written
// TagEncodeTTLV methods use). Integers go through Bitmask when mask is set (Value cannot hold a bit mask).
func apiEncode(e *ttlv.Encoder, t *tree.Item, mask bool) {
	switch t.Kind {
	case tree.KStruct:
		e.Struct(t.Tag, func(e *ttlv.Encoder) {
			for _, c := range t.Children {
				apiEncode(e, c, mask)
			}
		})
	case tree.KInt:
		if mask {
			e.Bitmask(0, t.Tag, int32(t.Int))
		} else {
			e.Integer(t.Tag, int32(t.Int))
		}
	case tree.KLong:
		e.LongInteger(t.Tag, t.Int)
	case tree.KBig:
		e.BigInteger(t.Tag, new(big.Int).Set(t.Big))
	case tree.KEnum:
		e.Enum(0, t.Tag, uint32(t.Int))
	case tree.KBool:
		e.Bool(t.Tag, t.Bool)
	case tree.KText:
		e.TextString(t.Tag, string(t.Data))
	case tree.KBytes:
		e.ByteString(t.Tag, append([]byte{}, t.Data...))
	case tree.KDate:
		e.DateTime(t.Tag, inZone(time.Unix(t.Int, 0)))
	case tree.KInterval:
		e.Interval(t.Tag, time.Duration(t.Int)*time.Second)
	}
}

var wireZones = []*time.Location{time.UTC, time.FixedZone("+0530", 19800), time.Local, time.FixedZone("-0930", -34200), time.FixedZone("+1400", 50400)}

// inZone: the same instant, in a zone chosen by the instant itself.
func inZone(t time.Time) time.Time {
	return t.In(wireZones[int(uint64(t.Unix())%uint64(len(wireZones)))])
}

// zoned rewrites every date-time of a generic value to the same instant in another zone.
func zoned(v ttlv.Value) ttlv.Value {
	switch x := v.Value.(type) {
	case time.Time:
		v.Value = inZone(x)
	case ttlv.Struct:
		for i := range x {
			x[i] = zoned(x[i])
		}
	}
	return v
}

func renderOrErr(it *tree.Item, err error) string {
	if err != nil || it == nil {
		return fmt.Sprint("unreadable: ", err)
	}
	r := it.Render()
	return r[:min(len(r), 300)]
}

// decodeDetached decodes a private copy of b, overwrites that copy, and only then renders the decoded value.
func decodeDetached(b []byte) string {
	buf := append([]byte{}, b...)
	type out struct {
		it  *tree.Item
		err error
	}
	r, p := guard("UnmarshalTTLV", func() out {
		var v ttlv.Value
		if err := ttlv.UnmarshalTTLV(buf, &v); err != nil {
			return out{nil, err}
		}
		for i := range buf {
			buf[i] = 0xA5
		}
		it, err := fromValue(v)
		return out{it, err}
	})
	if p != "" {
		return "panic " + panicKey(p)
	}
	if r.err != nil {
		return "err"
	}
	return "ok " + r.it.Render()
}

// deepChain: a chain of depth nested structures (a few with siblings before and after the nested one) around
// one leaf: "any nesting depth".
func deepChain(r *rng.R, depth int) *tree.Item {
	small := tree.GenOpts{MaxDepth: 1, MaxChildren: 2, MaxData: 9, MaxBigBits: 64}
	cur := &tree.Item{Kind: tree.KInt, Tag: 0x42000A, Int: int64(depth)}
	for d := 0; d < depth; d++ {
		ch := []*tree.Item{cur}
		if d%97 == 5 {
			ch = []*tree.Item{tree.Gen(r, small, 1), cur, tree.Gen(r, small, 1)}
		}
		cur = &tree.Item{Kind: tree.KStruct, Tag: 0x420009 + d%3, Children: ch}
	}
	return cur
}

func hasKind(t *tree.Item, k tree.Kind) bool {
	if t.Kind == k {
		return true
	}
	for _, c := range t.Children {
		if hasKind(c, k) {
			return true
		}
	}
	return false
}

// wireAPICase: C03 on the writer API: both variants (Integer / Bitmask for 32-bit integers) must be read by
// the independent parser as t. viaValue are the bytes MarshalTTLV gave for the same tree.
func wireAPICase(ctx *Ctx, line string, t *tree.Item, viaValue []byte) {
	for _, mask := range []bool{false, true} {
		if mask && !hasKind(t, tree.KInt) {
			continue
		}
		got, p := guard("Encoder API", func() []byte {
			e := ttlv.NewTTLVEncoder()
			apiEncode(&e, t, mask)
			return append([]byte{}, e.Bytes()...)
		})
		what := "writer API"
		if mask {
			what = "writer API (Bitmask)"
			ctx.Res.Count("enc.api.bitmask")
		} else {
			ctx.Res.Count("enc.api")
		}
		if p != "" {
			ctx.Res.Violate(report.Violation{Property: "C03", Oracle: "encoder-total", Key: "enc:api-panic", Detail: what + " panicked: " + p, Line: line})
			continue
		}
		back, err := tree.Decode(got)
		if err != nil {
			ctx.Res.Violate(report.Violation{Property: "C03", Oracle: "independent-parse", Key: "enc:api-not-wellformed:" + err.Error(), Detail: what + ": independent parser rejects library output: " + err.Error() + " bytes=" + hexUp(got), Line: line})
		} else if !tree.Equal(back, t) {
			ctx.Res.Violate(report.Violation{Property: "C03", Oracle: "independent-parse", Key: "enc:api-value-differs", Detail: what + ": independent parser reads " + back.Render(), Line: line})
		}
	}
}

// wireHugeCase (impl-side only: a 16 MiB line is not sent to the model): items whose length needs the top
// byte of the 32-bit length field, alone and inside a structure (whose own length then needs it too).
func wireHugeCase(ctx *Ctx, n int, kind tree.Kind) {
	data := bytes.Repeat([]byte{0x61}, n)
	leaf := &tree.Item{Kind: kind, Tag: 0x420008, Data: data}
	t := &tree.Item{Kind: tree.KStruct, Tag: 0x420009, Children: []*tree.Item{{Kind: tree.KInt, Tag: 0x42000A, Int: 7}, leaf, {Kind: tree.KBool, Tag: 0x42000B, Bool: true}}}
	line := fmt.Sprintf("# wire.huge kind=%d len=%d (structure 0x420009 {int 7, item of len bytes 0x61, bool true})", kind, n)
	ctx.current = line
	got, p := guard("MarshalTTLV", func() []byte { return ttlv.MarshalTTLV(toValue(t)) })
	ctx.Res.Count("enc.huge")
	if p != "" {
		ctx.Res.Violate(report.Violation{Property: "C03", Oracle: "encoder-total", Key: "enc:huge-panic", Detail: "MarshalTTLV panicked: " + p, Line: line})
		return
	}
	back, err := tree.Decode(got)
	if err != nil {
		ctx.Res.Violate(report.Violation{Property: "C03", Oracle: "independent-parse", Key: "enc:huge-not-wellformed:" + err.Error(), Detail: fmt.Sprintf("independent parser rejects the encoding of a %d-byte item: %s; header %s", n, err, hexUp(got[:min(len(got), 32)])), Line: line})
	} else if !tree.Equal(back, t) {
		ctx.Res.Violate(report.Violation{Property: "C03", Oracle: "independent-parse", Key: "enc:huge-value-differs", Detail: fmt.Sprintf("independent parser reads another tree for a %d-byte item; header %s", n, hexUp(got[:min(len(got), 32)])), Line: line})
	}
	var v ttlv.Value
	_, p2 := guard("UnmarshalTTLV", func() error { return ttlv.UnmarshalTTLV(got, &v) })
	if it, err := fromValue(v); p2 != "" || err != nil || !tree.Equal(it, t) {
		ctx.Res.Violate(report.Violation{Property: "C01", Oracle: "roundtrip-generic", Key: "enc:huge-roundtrip", Detail: fmt.Sprintf("UnmarshalTTLV(MarshalTTLV(v)) differs from v for a %d-byte item %s", n, p2), Line: line})
	}
	ctx.Add(line, "ok", true, "C01,C03")
}

func wireDecCase(ctx *Ctx, b []byte, origin string) {
	line := "wire.dec " + hexUp(b)
	ctx.current = line
	impl := c02Binary(ctx, line, b)
	props := "C02"
	if _, err := tree.Decode(b); err == nil {
		props = "C01,C02,C03"
	}
	if strings.HasPrefix(impl, "ok") {
		props += ",C18" // only accepted inputs are C18-relevant (a stricter decoder is harmless for the fixed point)
		wireFixpoint(ctx, line, b)
	}
	ctx.Add(line, impl, true, props)
	ctx.Res.Count("dec." + origin + "." + strings.SplitN(impl, " ", 2)[0])
	// C03 converse: whatever the independent strict parser accepts, the library decodes to the same tree.
	if it, err := tree.Decode(b); err == nil {
		want := "ok " + it.Render()
		if impl != want {
			ctx.Res.Violate(report.Violation{Property: "C03", Oracle: "converse", Key: "dec:wellformed-differs", Detail: "well-formed input decodes to " + impl + " but the independent parser reads " + want, Line: line})
		}
		ctx.Res.Count("dec.strict-ok")
	}
	// tie the Lean specification parser to the harness's independent parser
	sline := "wire.spec " + hexUp(b)
	simpl := "none"
	if it, err := tree.Decode(b); err == nil {
		simpl = "ok " + it.Render()
	}
	ctx.Add(sline, simpl, false, "C03")
}

// wireFixpoint: C18 on the real generic decoder: accepted bytes re-encode to a fixed point, in binary and through
// XML and JSON in every order (fix.go).
func wireFixpoint(ctx *Ctx, line string, b []byte) {
	gt := planTarget{0, tValue, 0}
	if v, _ := fixDec(fixCodecs[0], gt, b); v != nil {
		fixOracle(ctx, line, gt, "ttlv.Value", 0, v)
		ctx.Res.Count("dec.fixpoint-checked")
	}
}

// mutate returns structural mutations of a valid encoding.
func mutate(r *rng.R, b []byte) [][]byte {
	var out [][]byte
	cp := func() []byte { return append([]byte{}, b...) }
	// header positions: every item header starts at some multiple of 8; find them by a walk
	var hdrs []int
	var walk func(off, end int)
	walk = func(off, end int) {
		for off+8 <= end {
			hdrs = append(hdrs, off)
			l := int(b[off+4])<<24 | int(b[off+5])<<16 | int(b[off+6])<<8 | int(b[off+7])
			pl := (l + 7) / 8 * 8
			if b[off+3] == 1 {
				walk(off+8, min(off+8+l, end))
			}
			off += 8 + pl
		}
	}
	walk(0, len(b))
	for k := 0; k < 6 && len(hdrs) > 0; k++ {
		h := rng.Pick(r, hdrs)
		m := cp()
		switch r.Intn(8) {
		case 0: // length -> small values
			m[h+4], m[h+5], m[h+6], m[h+7] = 0, 0, 0, byte(r.Intn(17))
		case 1: // length ± 1
			m[h+7] += byte(1 + 2*r.Intn(2) - 1)
		case 2: // length ± 8
			m[h+7] += byte(8 * (1 + 2*r.Intn(2) - 1))
		case 3: // length huge
			m[h+4] = byte(0x7F + r.Intn(3)*0x40)
		case 4: // type swap
			m[h+3] = byte(r.Intn(12))
		case 5: // tag bytes
			m[h+r.Intn(3)] = byte(r.Intn(256))
		case 6: // tag zero
			m[h], m[h+1], m[h+2] = 0, 0, 0
		case 7: // flip a random byte anywhere
			m[r.Intn(len(m))] ^= byte(1 << r.Intn(8))
		}
		out = append(out, m)
	}
	// truncations
	if len(b) > 0 {
		for k := 0; k < 3; k++ {
			out = append(out, cp()[:r.Intn(len(b))])
		}
		// non-zero padding / trailing bytes
		m := cp()
		m[len(m)-1] ^= 0x5A
		out = append(out, m)
		out = append(out, append(cp(), r.Bytes(1+r.Intn(16))...))
	}
	return out
}

// corpusBinary: minimal malformed inputs aimed at each index/slice expression of the binary reader.
func corpusBinary() [][]byte {
	h := func(s string) []byte {
		b, err := hex.DecodeString(strings.ReplaceAll(s, " ", ""))
		if err != nil {
			panic(err)
		}
		return b
	}
	return [][]byte{
		{},
		h("42"), h("420078"), h("42007801"), h("4200780100"), h("42007801000000"),
		h("4200780200000000"),                                   // Integer of length 0
		h("4200780200000003 0000000000000000"),                  // Integer of length 3
		h("4200780300000004 0000000000000000"),                  // Long of length 4
		h("4200780400000000"),                                   // BigInteger of length 0
		h("4200780500000002 0000000000000000"),                  // Enum of length 2
		h("4200780600000001 0100000000000000"),                  // Bool of length 1
		h("4200780900000000"),                                   // DateTime of length 0
		h("4200780A00000000"),                                   // Interval of length 0
		h("4200780100000001 0000000000000000"),                  // Structure of length 1
		h("4200780100000003 4200010000000000"),                  // Structure of length 3
		h("4200780100000004 4200010200000000"),                  // Structure of length 4 (header cut)
		h("4200780100000008 4200010200000010 0000000100000000"), // child longer than parent, followed by data
		h("4200780100000008 4200010700000008 4142434445464748"), // text child announcing 8 bytes inside an 8-byte struct
		h("4200780100000010 4200010400000000 4200020200000004"), // struct: big integer length 0 then cut int
		h("42007804000000080000000000000000"),                   // big zero
		h("4200780400000008FFFFFFFFFFFFFF80"),                   // big -128
		h("420078040000000100 00000000000000"),                  // big length 1
		h("42007804000000038000010000000000"),                   // big negative length 3
		h("4200780B00000000"),                                   // type 11
		h("4200780000000000"),                                   // type 0
		h("42007801000000080000000200000000"),                   // struct with tag-0 child
		h("42007807FFFFFFFF"),                                   // huge length
		h("42007807FFFFFFF9"),                                   // length whose padding overflows 32 bits
		// over-long big integers (C18): 16 bytes for the value 1; 24 bytes for -2; nested: over-long 128, then a
		// 5-byte negative one followed by non-zero padding
		h("4200780400000010 0000000000000000 0000000000000001"),
		h("4200780400000018 FFFFFFFFFFFFFFFF FFFFFFFFFFFFFFFF FFFFFFFFFFFFFFFE"),
		h("4200780100000028 42000B0400000010 0000000000000000 0000000000000080 42000B0400000005 FF7F000000 AABBCC"),
	}
}

// largeSizes: n payload sizes around 2^8 … 2^17 (and a few random ones in between).
func largeSizes(r *rng.R, n int) []int {
	var out []int
	for k := 8; k <= 17; k++ {
		out = append(out, 1<<k-r.Intn(40), 1<<k+r.Intn(40))
	}
	for i := len(out) - 1; i > 0; i-- {
		j := r.Intn(i + 1)
		out[i], out[j] = out[j], out[i]
	}
	if n < len(out) {
		out = out[:n]
	}
	for len(out) < n {
		out = append(out, 200+r.Intn(150000))
	}
	return out
}

// largeTree: 1–4 nested structures, each with small items before and after the next level; the innermost
// holds the payload of about sz bytes either as one byte/text string or as many small items (long batch).
func largeTree(r *rng.R, sz int) *tree.Item {
	small := tree.GenOpts{MaxDepth: 2, MaxChildren: 3, MaxData: 12, MaxBigBits: 64}
	var inner []*tree.Item
	switch r.Intn(3) {
	case 0:
		inner = append(inner, &tree.Item{Kind: tree.KBytes, Tag: 0x420008, Data: r.Bytes(sz)})
	case 1:
		b := r.Bytes(sz)
		for i := range b {
			b[i] = 0x20 + b[i]%0x5F
		}
		inner = append(inner, &tree.Item{Kind: tree.KText, Tag: 0x420008, Data: b})
	default:
		for n := 0; n < sz; {
			it := tree.Gen(r, small, 1)
			inner = append(inner, it)
			n += len(it.Encode())
		}
	}
	cur := &tree.Item{Kind: tree.KStruct, Tag: 0x420009, Children: inner}
	for d := r.Intn(4); d > 0; d-- {
		var ch []*tree.Item
		for k := r.Intn(3); k > 0; k-- {
			ch = append(ch, tree.Gen(r, small, 1))
		}
		ch = append(ch, cur)
		for k := r.Intn(3); k > 0; k-- {
			ch = append(ch, tree.Gen(r, small, 1))
		}
		cur = &tree.Item{Kind: tree.KStruct, Tag: 0x42000F, Children: ch}
	}
	return cur
}

// wireMarshalAfterPanic: the package-level MarshalTTLV (a new encoder per call today) after calls of the
// same function that panicked and were recovered by the caller (an attribute value of an unsupported Go
// type, a negative Interval - user errors a server's per-item recovery or net/http swallow). What a later
// call returns must not depend on them: the reference bytes are taken BEFORE the first failing call, and
// the independent parser must read the tree back. (A pooled / package-level encoder that an aborted call
// leaves dirty shows only in such a sequence.)
func wireMarshalAfterPanic(ctx *Ctx) {
	r := ctx.R
	opts := tree.GenOpts{MaxDepth: 4, MaxChildren: 4, MaxData: 40, MaxBigBits: 128}
	var ts []*tree.Item
	var want [][]byte
	for i := 0; i < 24; i++ {
		t := tree.Gen(r, opts, 0)
		b, p := guard("MarshalTTLV", func() []byte { return ttlv.MarshalTTLV(toValue(t)) })
		if p != "" {
			continue // reported by wireEncCase
		}
		ts, want = append(ts, t), append(want, append([]byte{}, b...))
	}
	poisons := []any{
		ttlv.Value{Tag: 0x42000F, Value: ttlv.Struct{{Tag: 0x420008, Value: ttlv.Struct{{Tag: 0x42000A, Value: int32(7)}, {Tag: 0x42000B, Value: -time.Second}}}}},
		ttlv.Value{Tag: 0x42000F, Value: ttlv.Struct{{Tag: 0x42000A, Value: int32(7)}, {Tag: 0x420008, Value: ttlv.Struct{{Tag: 0x42000B, Value: struct{ X chan int }{}}}}}},
		ttlv.Value{Tag: 0x42000F, Value: ttlv.Struct{{Tag: 0x420055, Value: "text"}, {Tag: 0x42000B, Value: 7}}}, // int, not int32
	}
	panicked := 0
	for round := 0; round < 6; round++ {
		for pi, pv := range poisons {
			for k := 0; k <= round; k++ { // 1..6 failing calls in a row
				if _, p := guard("MarshalTTLV (value that cannot be encoded)", func() []byte { return ttlv.MarshalTTLV(pv) }); p != "" {
					panicked++
				}
			}
			for i, t := range ts {
				line := "wire.enc " + t.Render()
				ctx.current = line
				got, p := guard("MarshalTTLV", func() []byte { return ttlv.MarshalTTLV(toValue(t)) })
				back, err := tree.Decode(got)
				if p != "" || !bytes.Equal(got, want[i]) || err != nil || !tree.Equal(back, t) {
					what := "returns " + truncate(hexUp(got), 60) + " where it returned " + truncate(hexUp(want[i]), 60) + " before"
					if p != "" {
						what = "panics: " + truncate(p, 80)
					}
					d := fmt.Sprintf("after %d recovered MarshalTTLV panic(s) (value #%d that cannot be encoded), MarshalTTLV of a well-formed value %s", round+1, pi, what)
					ctx.Res.Violate(report.Violation{Property: "C01", Oracle: "marshal-after-recovered-panic", Key: "enc:marshal-after-panic", Detail: d, Line: line})
					ctx.Res.Violate(report.Violation{Property: "C03", Oracle: "marshal-after-recovered-panic", Key: "enc:marshal-after-panic", Detail: d, Line: line})
					return
				}
			}
		}
	}
	ctx.Res.Count(fmt.Sprintf("enc.marshal-after-panic.failing-calls=%d", panicked))
	if panicked == 0 {
		ctx.Res.Count("enc.marshal-after-panic.no-value-panicked")
	}
}

func runWire(ctx *Ctx) {
	if len(ctx.Replay) > 0 {
		for _, l := range ctx.Replay {
			cmd, arg, _ := strings.Cut(l, " ")
			switch cmd {
			case "wire.enc":
				if t, err := tree.Parse(arg); err == nil {
					wireEncCase(ctx, t)
				}
			case "wire.dec", "wire.spec":
				if arg == "-" {
					arg = ""
				}
				if b, err := hex.DecodeString(arg); err == nil {
					wireDecCase(ctx, b, "replay")
				}
			}
		}
		return
	}
	r := ctx.R
	for _, b := range corpusBinary() {
		wireDecCase(ctx, b, "corpus")
	}
	// large messages: the encoder's buffer grows (and is reallocated) while one or several structures are
	// still open, at every depth; sizes straddle the powers of two an initial capacity or a growth policy
	// could be tied to.
	wireHugeCase(ctx, 1<<24+5, tree.KBytes)
	if ctx.Thor {
		wireHugeCase(ctx, 1<<24-3, tree.KText)
		wireHugeCase(ctx, 1<<25+1<<16+9, tree.KText)
	}
	for _, sz := range largeSizes(r, ctx.N(14, 60)) {
		t := largeTree(r, sz)
		wireEncCase(ctx, t)
		wireDecCase(ctx, t.Encode(), "large")
	}
	wireProbeCases(ctx)
	wireMarshalAfterPanic(ctx)
	// deep nesting: structure chains well beyond the depth random trees reach
	depths := []int{31, 32, 33, 63, 64, 65, 100, 255, 256, 257, 600}
	if ctx.Thor {
		depths = append(depths, 1000, 1500)
	}
	for _, d := range depths {
		t := deepChain(r, d)
		wireEncCase(ctx, t)
		wireDecCase(ctx, t.Encode(), "deep")
		ctx.Res.Count("enc.deep")
	}
	opts := tree.GenOpts{MaxDepth: 5, MaxChildren: 6, MaxData: 40, MaxBigBits: 200}
	n := ctx.N(1500, 60000)
	for i := 0; i < n; i++ {
		if i%50 == 49 {
			opts = tree.GenOpts{MaxDepth: 12, MaxChildren: 3, MaxData: 300, MaxBigBits: 4096}
		} else {
			opts = tree.GenOpts{MaxDepth: 5, MaxChildren: 6, MaxData: 40, MaxBigBits: 200}
		}
		t := tree.Gen(r, opts, 0)
		wireEncCase(ctx, t)
		enc := t.Encode()
		wireDecCase(ctx, enc, "valid")
		if i%3 == 0 {
			for _, m := range mutate(r, enc) {
				wireDecCase(ctx, m, "mutated")
			}
		}
		if i%10 == 0 {
			wireDecCase(ctx, r.Bytes(r.Intn(40)), "random")
		}
	}
}
