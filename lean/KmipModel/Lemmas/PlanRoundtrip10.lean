/-
  C01 — stage 3 (continued): Attribute.
-/
import KmipModel.Lemmas.PlanRoundtrip9
namespace Kmip

theorem text_field (S : Schema) (n t : Nat) (v v' : Val) (ver w : Option Ver)
    (h : normK S n .text t v ver = some (v', w)) :
    ∃ s, v = .text s ∧ v' = .text s ∧ w = ver ∧ encK S n .text t v ver = .ok ([.text t s], ver) := by
  obtain ⟨m, rfl⟩ := normK_succ_of_some h
  cases v <;> simp only [normK] at h <;> try contradiction
  rename_i s
  obtain ⟨rfl, rfl⟩ := pair_eq (Option.some.inj h)
  exact ⟨s, rfl, rfl, rfl, by simp only [encK]⟩

theorem bytes_field (S : Schema) (n t : Nat) (v v' : Val) (ver w : Option Ver)
    (h : normK S n .bytes t v ver = some (v', w)) :
    ∃ b, v = .bytes b ∧ v' = .bytes (some (b.getD [])) ∧ w = ver
      ∧ encK S n .bytes t v ver = .ok ([.bytes t (b.getD [])], ver) := by
  obtain ⟨m, rfl⟩ := normK_succ_of_some h
  cases v <;> simp only [normK] at h <;> try contradiction
  rename_i b
  obtain ⟨rfl, rfl⟩ := pair_eq (Option.some.inj h)
  exact ⟨b, rfl, rfl, rfl, by simp only [encK]⟩

theorem i32_field (S : Schema) (n t : Nat) (v v' : Val) (ver w : Option Ver)
    (h : normK S n .i32 t v ver = some (v', w)) :
    ∃ x, v = .int x ∧ v' = .int x ∧ w = ver ∧ inInt 32 x ∧ encK S n .i32 t v ver = .ok ([.int t x], ver) := by
  obtain ⟨m, rfl⟩ := normK_succ_of_some h
  cases v <;> simp only [normK] at h <;> try contradiction
  rename_i x
  obtain ⟨hx, e⟩ := ite_some_eq h
  obtain ⟨rfl, rfl⟩ := pair_eq e
  exact ⟨x, rfl, rfl, rfl, hx, by simp only [encK]⟩

theorem customOk_attr (S : Schema) (v : Val) :
    customOk S Cust.attr v =
      (match v.field 0, v.field 2 with
       | .text name, .iface (some (d, _)) => d == S.attrDyn name
       | _, _ => false) := rfl

theorem decCustom_attr (S : Schema) (n id tag : Nat) (c : Cur) (ver : Option Ver) :
    decCustom S (n + 1) Cust.attr id tag c ver = (do
      let it ← c.expect 1 tag
      let c0 ← Cur.start it.val
      let (v, ver') ← (do
          let (name, c1) ← c0.textString T.attributeName
          let (idx, c2, v2) ←
            if c1.tag = T.attributeIndex then do
              let (i, c2) ← c1.integer T.attributeIndex
              (pure (Val.ptr (some (.int i)), c2, ver) : Res (Val × DecSt))
            else .ok (.ptr none, c1, ver)
          let (x, _, v3) ← decDyn S n (S.attrDyn name) T.attributeValue c2 v2
          pure (Val.struct [.text name, idx, x], v3) : Res (Val × Option Ver))
      let c' ← c.next
      pure (v, c', ver')) := by
  rw [decCustom.eq_def]; rfl

def attrFields : List Field :=
  [{ tag := T.attributeName, kind := .text }, { tag := T.attributeIndex, kind := .ptr .i32 },
   { tag := T.attributeValue, kind := .iface }]

/-- a tagged interface field (AttributeValue): the decoder has chosen the dynamic type `d`. -/
theorem head_dyn (S : Schema) (hU : S.unambiguous = true) (n : Nat) (hK : PK S n) (g : Field) (t : Nat)
    (hp : g.plainWith t = true) (hk : g.kind = .iface)
    (gs : List Field) (vs : List Val) (ver : Option Ver) (r : List Val) (w' : Option Ver) (items : List Item)
    (d : Nat) (x' : Val) (hr0 : r.getD 0 (.int 0) = .iface (some (d, x')))
    (h : FieldsRT S (n + 2) (g :: gs) vs ver r w' items) :
    ∃ x vs1 r1 a b w1, vs = .iface (some (d, x)) :: vs1 ∧ r = .iface (some (d, x')) :: r1 ∧ items = a ++ b
      ∧ FieldsRT S (n + 1) gs vs1 w1 r1 w' b ∧ (∀ it ∈ a, it.tag = t) ∧ a.length = 1
      ∧ (Item.AllInRange a → ∀ (f : Nat) (rs : List RawItem), x.depth + 4 ≤ f →
          decDyn S f d t (Cur.of (a.map Item.raw ++ rs)) ver = .ok (.iface (some (d, x')), Cur.of rs, w1)) := by
  obtain ⟨hx, he⟩ := h
  cases vs with
  | nil => rw [normFields_cons_nil] at hx; contradiction
  | cons v vs1 =>
  rw [normFields_plain_cons S (n + 1) g t hp, hk] at hx
  rw [encFields_plain_cons S (n + 1) g t hp, hk] at he
  cases hn : normK S (n + 1) .iface t v ver with
  | none => simp only [hn] at hx; contradiction
  | some p =>
  obtain ⟨v', w0⟩ := p
  simp only [hn] at hx
  cases hxr : normFields S (n + 1) gs vs1 w0 with
  | none => simp only [hxr] at hx; contradiction
  | some q =>
  obtain ⟨r1, w1⟩ := q
  simp only [hxr] at hx
  obtain ⟨hr, hw1⟩ := pair_eq (Option.some.inj hx)
  subst hr hw1
  simp only [List.getD_cons_zero] at hr0
  subst hr0
  cases v with
  | iface o =>
    cases o with
    | none => rw [normK_iface] at hn; simp at hn
    | some p =>
    obtain ⟨d0, x⟩ := p
    have hdok := normK_iface_ok hn
    obtain ⟨x1, a, hv', hea, _, _, hta, hla, hda⟩ := pdyn_succ S n hK d0 t x ver _ w0 hn
    simp only [Val.iface.injEq, Option.some.injEq, Prod.mk.injEq] at hv'
    obtain ⟨hd0, hx1⟩ := hv'
    subst hd0 hx1
    simp only [hea, Res.ok_bind] at he
    cases hb : encFields S (n + 1) gs vs1 w0 with
    | ok q =>
      obtain ⟨b, w2⟩ := q
      simp only [hb, Res.ok_bind, Res.pure_eq, Res.ok.injEq, Prod.mk.injEq] at he
      obtain ⟨hi, hw2⟩ := he
      subst hi hw2
      refine ⟨x, vs1, r1, a, b, w0, rfl, rfl, rfl, ⟨hxr, hb⟩, hta, hla, ?_⟩
      intro hr f rs hf
      exact hda (unamb_dynOK hU _ x hdok) hr f rs t (Or.inl rfl) hf
    | err e => simp only [hb, Res.err_bind] at he; contradiction
    | panic m => simp only [hb, Res.panic_bind] at he; contradiction
  | _ => rw [normK_iface] at hn; contradiction

/-- `d.TextString(tag)` as the hand-written decoders call it, from the reflective decoder's result. -/
theorem textString_of_decK {S : Schema} {f t : Nat} {c c' : Cur} {w w' : Option Ver} {v : Val}
    (h : decK S (f + 1) .text t c w = .ok (v, c', w')) : ∃ s, v = .text s ∧ c.textString t = .ok (s, c') := by
  simp only [decK] at h
  cases hc : c.textString t with
  | ok p =>
    obtain ⟨s, c1⟩ := p
    simp only [hc, Res.ok_bind, Res.pure_eq, Res.ok.injEq, Prod.mk.injEq] at h
    exact ⟨s, h.1.symm, by rw [h.2.1]⟩
  | err e => simp only [hc, Res.err_bind] at h; contradiction
  | panic m => simp only [hc, Res.panic_bind] at h; contradiction

/-- the hand-written optional AttributeIndex is the reflective `*int32` decoder. -/
theorem attr_idx_eq (S : Schema) (f t : Nat) (c : Cur) (ver : Option Ver) :
    (if c.tag = t then (do
        let (i, c2) ← c.integer t
        (pure (Val.ptr (some (.int i)), c2, ver) : Res (Val × DecSt)))
      else .ok (.ptr none, c, ver)) = decK S (f + 2) (.ptr .i32) t c ver := by
  by_cases h : c.tag = t
  · simp only [h, if_true, decK, ne_eq, not_true_eq_false, if_false]
    cases c.integer t <;> rfl
  · simp only [h, if_false, decK, ne_eq, not_false_eq_true, if_true]

set_option maxHeartbeats 1000000 in
/-- Attribute: name, optional index, then the value of the type registered for the name. -/
theorem custdec_attr (S : Schema) (hU : S.unambiguous = true) (n : Nat) (hK : ∀ m, m < n → PK S m)
    (id tag : Nat) (fs : List Val) (ver : Option Ver) (fs' : List Val) (ver' : Option Ver) (items : List Item)
    (hF : (S.structDef id).fields = attrFields)
    (hx : normFields S n (S.structDef id).fields fs ver = some (fs', ver'))
    (hcok : customOk S Cust.attr (.struct fs') = true)
    (he : encFields S n (S.structDef id).fields fs ver = .ok (items, ver'))
    (hr : (Item.struct tag items).InRange) (fd : Nat) (rs : List RawItem)
    (hfd : (Val.struct fs).depth ≤ fd + 1) :
    decCustom S fd Cust.attr id tag (Cur.of ((Item.struct tag items).raw :: rs)) ver
      = .ok (.struct fs', Cur.of rs, ver') := by
  rw [hF] at hx he
  unfold attrFields at hx he
  obtain ⟨n1, rfl⟩ := normFields_succ_of_some hx
  obtain ⟨v0, v0', vs1, r1, it0, b0, rfl, rfl, rfl, hrt1, ht0, hd0⟩ :=
    head_req_scalar S n1 _ T.attributeName rfl rfl _ fs ver fs' ver' items ⟨hx, he⟩
  obtain ⟨n2, rfl⟩ := normFields_succ_of_some hrt1.1
  obtain ⟨v1, v1', vs2, r2, a1, b1, w1, rfl, rfl, rfl, hrt2, hta1, _, hda1⟩ :=
    head_req S n2 (hK n2 (by omega)) _ T.attributeIndex rfl _ vs1 ver r1 ver' b0 hrt1
  rw [customOk_attr] at hcok
  simp only [Val.field, List.getD_cons_zero, List.getD_cons_succ] at hcok
  split at hcok
  · rename_i _ _ name d x' hv2
    simp only [beq_iff_eq] at hcok
    obtain ⟨n3, rfl⟩ : ∃ n3, n2 = n3 + 2 := by
      obtain ⟨hx2, _⟩ := hrt2
      obtain ⟨m, rfl⟩ := normFields_succ_of_some hx2
      cases vs2 with
      | nil => rw [normFields_cons_nil] at hx2; contradiction
      | cons v vs =>
        rw [normFields_plain_cons S m _ T.attributeValue rfl] at hx2
        cases hn : normK S m Kind.iface T.attributeValue v w1 with
        | none => simp only [hn] at hx2; contradiction
        | some p =>
          obtain ⟨k, rfl⟩ := normK_succ_of_some hn
          exact ⟨k, rfl⟩
    obtain ⟨x, vs3, r3, a2, b2, w2, rfl, rfl, rfl, hrt3, hta2, hla2, hda2⟩ :=
      head_dyn S hU n3 (hK n3 (by omega)) _ T.attributeValue rfl rfl _ vs2 w1 r2 ver' b1 d x' hv2 hrt2
    obtain ⟨rfl, rfl, rfl, rfl⟩ := hrt3.nil
    rw [Item.InRange] at hr
    obtain ⟨_, _, _, hin⟩ := hr
    have hi0 := (Item.allInRange_append [it0] (a1 ++ (a2 ++ []))).1 hin
    have hi1 := (Item.allInRange_append a1 (a2 ++ [])).1 hi0.2
    have hi2 := (Item.allInRange_append a2 []).1 hi1.2
    simp only [Val.depth, Val.depthList] at hfd
    have hv1d := Val.depth_pos v1
    obtain ⟨f, rfl, hf⟩ := fuel_succ (by omega : 5 + 1 ≤ fd)
    obtain ⟨f1, rfl, hf1⟩ := fuel_succ (by omega : 4 + 1 ≤ f)
    obtain ⟨f2, rfl, hf2⟩ := fuel_succ (by omega : 3 + 1 ≤ f1)
    rw [decCustom_attr]
    have hexp : (Cur.of ((Item.struct tag (it0 :: (a1 ++ (a2 ++ [])))).raw :: rs)).expect 1 tag
        = .ok (Item.struct tag _).raw := Cur.expect_of (.struct tag _) rs
    have hstart : Cur.start (Item.struct tag (it0 :: (a1 ++ (a2 ++ [])))).raw.val
        = .ok (Cur.of ((it0 :: (a1 ++ (a2 ++ []))).map Item.raw)) := Cur.start_encList _ hin
    have hnext : (Cur.of ((Item.struct tag (it0 :: (a1 ++ (a2 ++ [])))).raw :: rs)).next
        = .ok (Cur.of rs) := Cur.next_of _ rs
    simp only [hexp, Res.ok_bind, hstart, hnext]
    have hl : (it0 :: (a1 ++ (a2 ++ []))).map Item.raw
        = it0.raw :: (a1.map Item.raw ++ (a2.map Item.raw ++ [])) := by simp
    rw [hl]
    -- AttributeName
    obtain ⟨s, hs, hts⟩ := textString_of_decK (hd0 ((Item.allInRange_singleton it0).1 hi0.1) 0 _ ver)
    simp only [Val.text.injEq] at hs
    subst hs
    rw [hts]
    simp only [Res.ok_bind]
    -- AttributeIndex (optional): what follows is the value
    obtain ⟨a2it, rfl⟩ := list_len1 hla2
    have hne : htag ([a2it].map Item.raw ++ []) ≠ T.attributeIndex := by
      rw [htag_single, hta2 a2it (List.mem_singleton.2 rfl)]; decide
    have hk := hda1 rfl hi1.1 (f2 + 2) _ (by omega) (Or.inr hne)
    rw [← attr_idx_eq S f2] at hk
    have hd2 := hda2 hi2.1 (f2 + 1 + 1) [] (by omega)
    split
    · rename_i hc
      rw [if_pos hc] at hk
      cases hi : (Cur.of (a1.map Item.raw ++ ([a2it].map Item.raw ++ []))).integer T.attributeIndex with
      | ok p =>
        obtain ⟨i, c2⟩ := p
        simp only [hi, Res.ok_bind, Res.pure_eq, Res.ok.injEq, Prod.mk.injEq] at hk
        obtain ⟨rfl, rfl, rfl⟩ := hk
        simp only [Res.ok_bind, Res.pure_eq]
        rw [← hcok, hd2]
        simp only [Res.ok_bind, Res.pure_eq]
      | err e => simp only [hi, Res.err_bind] at hk; contradiction
      | panic m => simp only [hi, Res.panic_bind] at hk; contradiction
    · rename_i hc
      rw [if_neg hc] at hk
      simp only [Res.ok.injEq, Prod.mk.injEq] at hk
      obtain ⟨rfl, hceq, rfl⟩ := hk
      rw [hceq, ← hcok, hd2]
      simp only [Res.ok_bind, Res.pure_eq]
  · contradiction

end Kmip
