/-
  L1′ — the LEXICAL / ELEMENT layer of the XML and JSON back ends (ttlv/encoding_xml.go,
  ttlv/encoding_json.go, ttlv/utils.go parseInt/parseUint, ttlv/value.go) over PARSED documents:
  what `encoding/xml` (a stream of start / end element tokens with attribute lists) and
  `encoding/json` with `UseNumber` (objects, arrays, strings, number literals, booleans, null) hand to
  the library, and what the library hands to them.  The tokenisers / escapers of the standard library
  and RFC 3339 formatting / parsing are NOT modelled: a text string is the byte sequence itself, and
  `time.Format / time.Parse(time.RFC3339, ·)` are the two fields of the parameter `Rfc3339`.

  * `XItem`  : generic TTLV trees (`ttlv.Value`) whose enumeration nodes carry the `enumtag` handed to
               `Encoder.Enum` and whose bit-mask nodes carry the `bitmasktag` handed to `Encoder.Bitmask`
               (`≤ 0` = "use the item's own tag", exactly as the writers do).  Tags are Go `int`s.
  * `xmlWrite / jsonWrite` : the writers, element by element.
  * `xmlRead / jsonRead`   : the readers driven by the GENERIC decoder (`Value.TagDecodeTTLV`,
               `Struct.TagDecodeTTLV`: the tag asked for is the element's own tag, a child whose tag reads
               0 ends the structure).  `Hints` says, per POSITION in the message (path of child indices)
               and tag, which `realtag` a typed caller would pass to `Decoder.Enum` and whether it would
               call `Decoder.Bitmask` instead of `Decoder.Integer` (the generic decoder: `noHints`; hints
               that look at the tag only: `Hints.ofTag`).
  * The XML reader is a CURSOR over the token stream (`xmlReader` shares one `xml.Decoder` between a
    structure and its sub-reader): `Next` skips the content of the current element unless it is a
    structure whose content `Struct` has consumed (`entered`, since /repo 7083171: before, an unread
    STRUCTURE child was stepped into while draining and the elements after it surfaced one level up);
    `Struct` drains the children its callback left unread with `Next`.

  Strings are `List Nat` (bytes), as in `Model/Registry.lean`, whose tag / enumeration / mask text
  functions and `strconv` model (`parseUint`, `parseInt`, `hex0x`, …) are reused here.
  Core Lean only (linked into `kmip-model`).
-/
import KmipModel.Model.Registry
import KmipModel.Model.Reader
namespace Kmip.Lex
open Kmip Kmip.Reg

abbrev Str := List Nat

/-! ## 0. parameters -/

/-- the registries the writers and readers consult (instantiated with `Kmip.Gen.*`). -/
structure Tables where
  tagNames  : Table
  tagByName : Table
  enums     : EnumIndex
  masks     : MaskIndex
  /-- `true` = the readers before /repo a1c0e70, whose `Tag()` parsed the `0x` form as a SIGNED 32-bit
      number (kept so that what was wrong with it stays a theorem). -/
  oldTags   : Bool := false

/-- `Tag()` on the raw tag text. -/
def Tables.tagOfText (T : Tables) (s : List Nat) : Int :=
  if T.oldTags then tagFromTextOld T.tagByName s else tagFromText T.tagByName s

/-- `time.Time.Format(time.RFC3339)` IN THE LOCATION THE WRITERS FORMAT IN and
    `time.Parse(time.RFC3339, ·)` (then `.Unix()`), on whole seconds, and the year test `0 ≤ year ≤ 9999`
    (in that same location) the readers apply to a parsed instant (since /repo df9dac3: a zone offset can
    move an accepted text out of what `Format` can express; a reader without the test is
    `inYears := fun _ => true`).  Trusted standard-library behaviour: a PARAMETER, with its laws as an
    explicit hypothesis of the theorems (`Rfc3339.Lawful` in `Lemmas/LexLemmas.lean`).
    WHICH location matters: the hypothesis `Lawful` (round trip on every instant that passes the year test,
    the years 1..9999 of the property pass it) is true of Go's `time` package for the UTC location and
    FALSE for others — east of Greenwich the last hours of year 9999 are formatted with the five-digit year
    10000, which `Parse` rejects, and for historical instants a location's offset has seconds that the
    RFC 3339 offset drops (`Props/C04.lean`: `zone_east_not_lawful`, `zone_lmt_not_lawful`).  The writers
    in /repo format in UTC since 678b3ea (`date.UTC().Format`, year test after `.UTC()`), which makes the
    hypothesis true on every machine.  Before that commit they formatted in the LOCATION OF THE VALUE they
    were given, which for a value decoded from binary is `time.Local`: the model was the library only when
    that was UTC (finding `xml:zone:decode-error`, fixed). -/
structure Rfc3339 where
  format  : Int → Str
  parse   : Str → Option Int
  inYears : Int → Bool

/-- 0000-01-01T00:00:00Z as Unix seconds (`inYears` in the UTC zone is `[minEpoch0, maxEpoch]`). -/
def minEpoch0 : Int := -62167219200

/-- 0001-01-01T00:00:00Z and 9999-12-31T23:59:59Z as Unix seconds. -/
def minEpoch : Int := -62135596800
def maxEpoch : Int := 253402300799

/-- what a typed caller knows about the element with a given tag. -/
structure Hint where
  enumTag : Int := 0
  mask    : Option Int := none

/-- what the caller of the reader knows, POSITION BY POSITION: `H [] tag` is the hint for the element the
    reader is on (asked for under `tag`), `H (i :: q) tag` the hint at path `q` below its `i`-th decoded
    child.  A typed decoder picks `realtag` / `Bitmask` from the Go type of the field it is filling — which
    for `AttributeValue` depends on the attribute NAME decoded just before, not on the element's tag —, so
    the hint is a function of the position in the message and not of the tag alone (`Hints.ofTag` embeds
    the hints that only look at the tag). -/
abbrev Hints := List Nat → Int → Hint

/-- the generic decoder `ttlv.Value`: `d.Enum(0, tag)`, never `d.Bitmask`. -/
def noHints : Hints := fun _ _ => {}

/-- hints that depend on the tag only. -/
def Hints.ofTag (f : Int → Hint) : Hints := fun _ t => f t

/-- the hints for the children of the current element, child by child. -/
def Hints.child (H : Hints) : Nat → Hints := fun i q => H (i :: q)

/-- the hints for the children after the first. -/
def hintsTail (Hs : Nat → Hints) : Nat → Hints := fun k => Hs (k + 1)

/-! ## 1. trees -/

inductive XItem where
  | struct   (tag : Int) (children : List XItem)
  | int      (tag : Int) (v : Int)                 -- int32 through `Integer`
  | mask     (tag : Int) (maskTag : Int) (v : Int) -- int32 through `Bitmask(maskTag, tag, v)`
  | long     (tag : Int) (v : Int)
  | big      (tag : Int) (v : Int)
  | enum     (tag : Int) (enumTag : Int) (v : Nat) -- uint32 through `Enum(enumTag, tag, v)`
  | bool     (tag : Int) (b : Bool)
  | text     (tag : Int) (s : Bytes)
  | bytes    (tag : Int) (s : Bytes)
  | date     (tag : Int) (secs : Int)
  | interval (tag : Int) (secs : Nat)
  deriving Repr, Inhabited

def XItem.tag : XItem → Int
  | .struct t _ | .int t _ | .mask t _ _ | .long t _ | .big t _ | .enum t _ _ | .bool t _
  | .text t _ | .bytes t _ | .date t _ | .interval t _ => t

mutual
  /-- forget the annotations: the tree the binary encoder sees. -/
  def XItem.erase : XItem → Item
    | .struct t cs => .struct t.toNat (XItem.eraseList cs)
    | .int t v => .int t.toNat v
    | .mask t _ v => .int t.toNat v
    | .long t v => .long t.toNat v
    | .big t v => .big t.toNat v
    | .enum t _ v => .enum t.toNat v
    | .bool t b => .bool t.toNat b
    | .text t s => .text t.toNat s
    | .bytes t s => .bytes t.toNat s
    | .date t v => .date t.toNat v
    | .interval t v => .interval t.toNat v
  def XItem.eraseList : List XItem → List Item
    | [] => []
    | x :: xs => x.erase :: XItem.eraseList xs
end

mutual
  /-- fuel that suffices for the generic decoders on the encoding of a tree. -/
  def XItem.size : XItem → Nat
    | .struct _ cs => 2 + XItem.sizeList cs
    | _ => 1
  def XItem.sizeList : List XItem → Nat
    | [] => 1
    | x :: xs => 1 + x.size + XItem.sizeList xs
end

/-! ## 2. constants -/

def sTTLV  : Str := [84, 84, 76, 86]
def sTag   : Str := [116, 97, 103]
def sType  : Str := [116, 121, 112, 101]
def sValue : Str := [118, 97, 108, 117, 101]
def sTrue  : Str := [116, 114, 117, 101]
def sFalse : Str := [102, 97, 108, 115, 101]

/-- `Type.String()` for the ten valid types. -/
def typeName : Nat → Str
  | 1 => [83, 116, 114, 117, 99, 116, 117, 114, 101]
  | 2 => [73, 110, 116, 101, 103, 101, 114]
  | 3 => [76, 111, 110, 103, 73, 110, 116, 101, 103, 101, 114]
  | 4 => [66, 105, 103, 73, 110, 116, 101, 103, 101, 114]
  | 5 => [69, 110, 117, 109, 101, 114, 97, 116, 105, 111, 110]
  | 6 => [66, 111, 111, 108, 101, 97, 110]
  | 7 => [84, 101, 120, 116, 83, 116, 114, 105, 110, 103]
  | 8 => [66, 121, 116, 101, 83, 116, 114, 105, 110, 103]
  | 9 => [68, 97, 116, 101, 84, 105, 109, 101]
  | 10 => [73, 110, 116, 101, 114, 118, 97, 108]
  | _ => []

/-- the reader's "unknown type name": `typeInvalid = 0xFF`. -/
def typeInvalid : Nat := 255

def typeFromNameAux (s : Str) : Nat → Option Nat
  | 0 => none
  | k + 1 => if s == typeName (k + 1) then some (k + 1) else typeFromNameAux s k

/-- `typeFromName` (case sensitive, the ten names). -/
def typeFromName (s : Str) : Option Nat := typeFromNameAux s 10

/-! ## 3. `strconv`, `encoding/hex` on ASCII byte strings -/

/-- decimal digits, most significant first; `fuel` ≥ number of digits. -/
def natDigits : Nat → Nat → Str → Str
  | 0, _, acc => acc
  | f + 1, n, acc => if n < 10 then (48 + n) :: acc else natDigits f (n / 10) ((48 + n % 10) :: acc)

/-- `strconv.FormatUint(n, 10)`. -/
def utoa (n : Nat) : Str := natDigits (n.log2 + 1) n []

/-- `strconv.Itoa` / `strconv.AppendInt(·, v, 10)` / `big.Int.Append(·, 10)`. -/
def itoa (v : Int) : Str := if v < 0 then 45 :: utoa v.natAbs else utoa v.natAbs

/-- utils.go `parseInt(val, bits)`: `0x…` = `ParseUint(·,16,bits)` converted to int64, else
    `ParseInt(·,10,bits)`. -/
def goParseInt (bits : Nat) (s : Str) : Option Int :=
  match s with
  | 48 :: 120 :: rest => (parseUint 16 bits rest).map fun n => signedOfNat 64 n
  | _ => parseInt 10 bits s

/-- utils.go `parseUint(val, bits)`. -/
def goParseUint (bits : Nat) (s : Str) : Option Nat :=
  match s with
  | 48 :: 120 :: rest => parseUint 16 bits rest
  | _ => parseUint 10 bits s

/-- Go's `int32(x)` of an int64. -/
def toInt32 (i : Int) : Int := signedOfNat 32 (unsignedOfInt 32 i)

/-- `strconv.FormatBool`. -/
def formatBool (b : Bool) : Str := if b then sTrue else sFalse

/-- `strconv.ParseBool`: 1 t T TRUE true True / 0 f F FALSE false False. -/
def parseBool (s : Str) : Option Bool :=
  if s == [49] || s == [116] || s == [84] || s == [84, 82, 85, 69] || s == sTrue || s == [84, 114, 117, 101] then
    some true
  else if s == [48] || s == [102] || s == [70] || s == [70, 65, 76, 83, 69] || s == sFalse ||
      s == [70, 97, 108, 115, 101] then some false
  else none

def hexDigitLo (d : Nat) : Nat := if d < 10 then 48 + d else 87 + d

/-- exactly `k` lower-case hexadecimal digits of `v`. -/
def hexFixedLo : Nat → Nat → Str
  | 0, _ => []
  | k + 1, v => hexFixedLo k (v / 16) ++ [hexDigitLo (v % 16)]

/-- `strings.ToUpper(hex.EncodeToString(bs))`. -/
def hexUp : Bytes → Str
  | [] => []
  | b :: bs => Reg.hexDigit (b.toNat / 16) :: Reg.hexDigit (b.toNat % 16) :: hexUp bs

/-- `hex.AppendEncode` (lower case). -/
def hexLo : Bytes → Str
  | [] => []
  | b :: bs => hexDigitLo (b.toNat / 16) :: hexDigitLo (b.toNat % 16) :: hexLo bs

/-- `fromHexChar` of encoding/hex. -/
def nibble (c : Nat) : Option Nat :=
  match digitVal c with
  | some d => if d < 16 then some d else none
  | none => none

/-- `hex.DecodeString`: odd length or a non-hexadecimal character is an error. -/
def hexDec : Str → Option Bytes
  | [] => some []
  | [_] => none
  | a :: b :: rest =>
    match nibble a, nibble b with
    | some x, some y =>
      match hexDec rest with
      | some r => some ((x * 16 + y).toUInt8 :: r)
      | none => none
    | _, _ => none

def strOfBytes (bs : Bytes) : Str := bs.map fun b => b.toNat
def bytesOfStr (s : Str) : Bytes := s.map fun c => c.toUInt8

/-! ## 4. registries with Go `int` keys -/

/-- left padding then the bytes of `bigIntToBytes(v, padding)`: what the text writers emit for a big
    integer (same definition as `Kmip.bigBytes` of the C14 model; repeated here so that this model
    does not depend on the key-material files). -/
def bigBytes (v : Int) (padding : Nat) : Bytes :=
  let (b, padVal, padLen) := bigIntToBytes v padding
  List.replicate padLen padVal ++ b

/-- `enumtag <= 0 ⇒ enumtag = tag` (writers and readers alike). -/
def effTag (real tag : Int) : Int := if real ≤ 0 then tag else real

/-- `uint(tag)` on a 64-bit platform. -/
def uintOf (t : Int) : Nat := (t % 18446744073709551616).toNat

/-- `tagNames[tag]` with its `ok`. -/
def tagNameOf (T : Tables) (t : Int) : Option Nat := if t < 0 then none else lookup t.toNat T.tagNames

def enumByV (T : Tables) (g : Int) : Table := if g < 0 then [] else enumByValue T.enums g.toNat
def enumByN (T : Tables) (g : Int) : Table := if g < 0 then [] else enumByName T.enums g.toNat
def maskNs (T : Tables) (g : Int) : List Nat := if g < 0 then [] else maskNames T.masks g.toNat
def maskByN (T : Tables) (g : Int) : Table := if g < 0 then [] else maskByName T.masks g.toNat

/-- `ttlv.TagString(tag)` (JSON): the registered name — even an empty one —, else `0x%06X` of `uint(tag)`. -/
def tagString (T : Tables) (t : Int) : Str :=
  match tagNameOf T t with
  | some n => unpack n
  | none => hex0x 6 (uintOf t)

/-! ## 5. per-type lexical forms shared by both writers -/

/-- value text of a scalar in XML (attribute `value`). -/
def xmlValue (T : Tables) (R : Rfc3339) : XItem → Str
  | .struct .. => []
  | .int _ v => itoa v
  | .mask t m v => maskToText (maskNs T (effTag m t)) [32] (unsignedOfInt 32 v)
  | .long _ v => itoa v
  | .big _ v => hexUp (bigBytes v 1)
  | .enum t e v => enumToText (enumByV T (effTag e t)) v
  | .bool _ b => formatBool b
  | .text _ s => strOfBytes s
  | .bytes _ s => hexUp s
  | .date _ v => R.format v
  | .interval _ v => utoa v

/-- TTLV type of a node as the writers announce it (a mask is an Integer). -/
def XItem.ty : XItem → Nat
  | .struct .. => 1 | .int .. => 2 | .mask .. => 2 | .long .. => 3 | .big .. => 4 | .enum .. => 5
  | .bool .. => 6 | .text .. => 7 | .bytes .. => 8 | .date .. => 9 | .interval .. => 10

/-! ## 6. XML -/

abbrev Attrs := List (Str × Str)

/-- an element as `encoding/xml` reports it: local name, attributes in document order, child elements
    (character data, comments and processing instructions are ignored by the reader). -/
inductive XElem where
  | mk (name : Str) (attrs : Attrs) (children : List XElem)
  deriving Repr, Inhabited

/-- the `type` attribute: omitted for a structure. -/
def tyAttrs (ty : Nat) : Attrs := if ty == 1 then [] else [(sType, typeName ty)]

/-- the `value` attribute of `encode`. -/
def valAttrs : Option Str → Attrs
  | some v => [(sValue, v)]
  | none => []

/-- `xmlWriter.startElement` + the `value` attribute of `encode`. -/
def xmlStart (T : Tables) (ty : Nat) (tag : Int) (value : Option Str) : Str × Attrs :=
  let anon : Str × Attrs := (sTTLV, (sTag, hex0x 6 (uintOf tag)) :: (tyAttrs ty ++ valAttrs value))
  match tagNameOf T tag with
  | some n => if n == emptyName then anon else (unpack n, tyAttrs ty ++ valAttrs value)
  | none => anon

/-- `xmlWriter.encode(ty, tag, value)`: one childless element. -/
def xmlScalar (T : Tables) (ty : Nat) (tag : Int) (value : Str) : XElem :=
  .mk (xmlStart T ty tag (some value)).1 (xmlStart T ty tag (some value)).2 []

mutual
  /-- `Value.EncodeTTLV` into an `xmlWriter`. -/
  def xmlWrite (T : Tables) (R : Rfc3339) : XItem → XElem
    | .struct t cs => .mk (xmlStart T 1 t none).1 (xmlStart T 1 t none).2 (xmlWriteList T R cs)
    | .int t v => xmlScalar T 2 t (xmlValue T R (.int t v))
    | .mask t m v => xmlScalar T 2 t (xmlValue T R (.mask t m v))
    | .long t v => xmlScalar T 3 t (xmlValue T R (.long t v))
    | .big t v => xmlScalar T 4 t (xmlValue T R (.big t v))
    | .enum t e v => xmlScalar T 5 t (xmlValue T R (.enum t e v))
    | .bool t b => xmlScalar T 6 t (xmlValue T R (.bool t b))
    | .text t s => xmlScalar T 7 t (xmlValue T R (.text t s))
    | .bytes t s => xmlScalar T 8 t (xmlValue T R (.bytes t s))
    | .date t v => xmlScalar T 9 t (xmlValue T R (.date t v))
    | .interval t v => xmlScalar T 10 t (xmlValue T R (.interval t v))
  def xmlWriteList (T : Tables) (R : Rfc3339) : List XItem → List XElem
    | [] => []
    | x :: xs => xmlWrite T R x :: xmlWriteList T R xs
end

/-- the tokens `xml.Decoder.Token` yields that the reader looks at. -/
inductive Tok where
  | start (name : Str) (attrs : Attrs)
  | stop
  deriving Repr, Inhabited, DecidableEq

mutual
  def XElem.toks : XElem → List Tok
    | .mk n a cs => .start n a :: (XElem.toksList cs ++ [.stop])
  def XElem.toksList : List XElem → List Tok
    | [] => []
    | c :: cs => c.toks ++ XElem.toksList cs
end

/-- first attribute with the given local name. -/
def attr (k : Str) : Attrs → Option Str
  | [] => none
  | (a, v) :: r => if a == k then some v else attr k r

/-- an `xmlReader`: its current element, the position of the shared `xml.Decoder`, and `entered`: the
    content of the current (structure) element has been consumed through `Struct`. -/
structure XCur where
  elem : Option (Str × Attrs)
  rest : List Tok
  entered : Bool := false
  deriving Repr, Inhabited

/-- `rawTag()`. -/
def XCur.rawTag (c : XCur) : Str :=
  match c.elem with
  | none => []
  | some (n, a) => if n != sTTLV then n else (attr sTag a).getD []

/-- `Tag()`: 0 when absent, malformed, unknown or zero; `0x…` is `ParseUint(·, 16, 24)`. -/
def XCur.tag (T : Tables) (c : XCur) : Int := T.tagOfText c.rawTag

/-- `Type()`. -/
def XCur.ty (c : XCur) : Nat :=
  match c.elem with
  | none => 0
  | some (_, a) =>
    match attr sType a with
    | some s => (typeFromName s).getD typeInvalid
    | none => 1

/-- `xml.Decoder.Skip`: consume up to and including the end of the element whose start was consumed last. -/
def skip : Nat → List Tok → Res (List Tok)
  | _, [] => .err .eof
  | d, .start _ _ :: r => skip (d + 1) r
  | 0, .stop :: r => .ok r
  | d + 1, .stop :: r => skip d r

/-- `Next()`: skip the content of the current element — unless it is a structure already consumed by
    `Struct` —, clear `entered`, move to the next start or end element. -/
def XCur.next (c : XCur) : Res XCur := do
  let rest ← if c.ty != 0 && (c.ty != 1 || !c.entered) then skip 0 c.rest else .ok c.rest
  match rest with
  | [] => if c.elem.isSome then .ok { elem := none, rest := [] } else .err .eof
  | .start n a :: r => .ok { elem := some (n, a), rest := r }
  | .stop :: r => .ok { elem := none, rest := r }

/-- `assertType` then the `value` attribute, conversion, `Next()` — the shape of every scalar getter. -/
def XCur.scalar {α : Type} (T : Tables) (c : XCur) (ty : Nat) (tag : Int) (conv : Str → Res α) :
    Res (α × XCur) :=
  match c.elem with
  | none => .err .eof
  | some (_, a) =>
    if c.tag T ≠ tag then .err .tagMismatch
    else if c.ty ≠ ty then .err .typeMismatch
    else do
      let v ← conv ((attr sValue a).getD [])
      let c' ← c.next
      pure (v, c')

def ofOpt {α : Type} (o : Option α) : Res α :=
  match o with
  | some a => .ok a
  | none => .err .other

/-- hex text → big integer (`hex.DecodeString`, empty = error, `bytesToBigInt`). -/
def bigOfHex (s : Str) : Res Int :=
  match hexDec s with
  | none => .err .other
  | some [] => .err .badLength
  | some bs => .ok (bytesToBigInt bs)

/-- `parseInt(value, 32)` then `int32(parsed)`. -/
def xInteger (s : Str) : Res Int :=
  match goParseInt 32 s with
  | some p => .ok (toInt32 p)
  | none => .err .other

def xLong (s : Str) : Res Int := ofOpt (goParseInt 64 s)
def xBool (s : Str) : Res Bool := ofOpt (parseBool s)
def xBytes (s : Str) : Res Bytes := ofOpt (hexDec s)
/-- `time.Parse`, `.Local()`, then the year test. -/
def xDate (R : Rfc3339) (s : Str) : Res Int :=
  match R.parse s with
  | some v => if R.inYears v then .ok v else .err .range
  | none => .err .other
def xEnum (byName : Table) (s : Str) : Res Nat := ofOpt (enumFromTextReader byName s)
def xInterval (s : Str) : Res Nat := ofOpt (goParseUint 32 s)
def xText (s : Str) : Res Bytes := .ok (bytesOfStr s)

/-- `xmlReader.Bitmask` on the value text; the result is the int32. -/
def xMask (byName : Table) (s : Str) : Res Int :=
  match maskFromTextXml byName s with
  | some p => .ok (signedOfNat 32 p)
  | none => .err .other

/-- the for-loop at the end of `xmlReader.Struct`: `for subDec.elem != nil { subDec.Next() }`. -/
def drain : Nat → XCur → Res XCur
  | 0, _ => .err .other
  | f + 1, c =>
    match c.elem with
    | none => .ok c
    | some _ => do
      let c' ← c.next
      drain f c'

mutual
  /-- `Value.TagDecodeTTLV(d, tag)` over an `xmlReader`; `H` = the caller's hints at this position. -/
  def xDecodeValue (T : Tables) (R : Rfc3339) : Hints → Nat → XCur → Int → Res (XItem × XCur)
    | _, 0, _, _ => .err .other
    | H, fuel + 1, c, tag =>
      match c.ty with
      | 2 =>
        match (H [] tag).mask with
        | none => do let (v, c') ← c.scalar T 2 tag xInteger; pure (.int tag v, c')
        | some m => do
          let (v, c') ← c.scalar T 2 tag (xMask (maskByN T (effTag m tag)))
          pure (.mask tag m v, c')
      | 3 => do let (v, c') ← c.scalar T 3 tag xLong; pure (.long tag v, c')
      | 4 => do let (v, c') ← c.scalar T 4 tag bigOfHex; pure (.big tag v, c')
      | 6 => do let (v, c') ← c.scalar T 6 tag xBool; pure (.bool tag v, c')
      | 8 => do let (v, c') ← c.scalar T 8 tag xBytes; pure (.bytes tag v, c')
      | 9 => do let (v, c') ← c.scalar T 9 tag (xDate R); pure (.date tag v, c')
      | 5 => do
        let (v, c') ← c.scalar T 5 tag (xEnum (enumByN T (effTag (H [] tag).enumTag tag)))
        pure (.enum tag (H [] tag).enumTag v, c')
      | 10 => do let (v, c') ← c.scalar T 10 tag xInterval; pure (.interval tag v, c')
      | 7 => do let (v, c') ← c.scalar T 7 tag xText; pure (.text tag v, c')
      | 1 =>
        -- `xmlReader.Struct(tag, f)`
        match c.elem with
        | none => .err .eof
        | some _ =>
          if c.tag T ≠ tag then .err .tagMismatch else do
          let sub ← XCur.next { elem := none, rest := c.rest }
          let (cs, sub') ← xDecodeFields T R H.child fuel sub
          let sub'' ← drain (sub'.rest.length + 1) sub'
          let c' ← XCur.next { elem := c.elem, rest := sub''.rest, entered := true }
          pure (.struct tag cs, c')
      | _ => .err .unsupported
  /-- `Struct.TagDecodeTTLV`: `for d.Tag() != 0 { field.DecodeTTLV(d) }`; `Hs k` = the hints for the
      `k`-th child still to be decoded. -/
  def xDecodeFields (T : Tables) (R : Rfc3339) : (Nat → Hints) → Nat → XCur → Res (List XItem × XCur)
    | _, 0, _ => .err .other
    | Hs, fuel + 1, c =>
      if c.tag T = 0 then .ok ([], c)
      else do
        let (it, c') ← xDecodeValue T R (Hs 0) fuel c (c.tag T)
        let (rest, c'') ← xDecodeFields T R (hintsTail Hs) fuel c'
        pure (it :: rest, c'')
end

/-- the reader on a token stream: `newXMLReader` (first `Next`) then `Value.DecodeTTLV`. -/
def xmlReadToks (T : Tables) (R : Rfc3339) (H : Hints) (toks : List Tok) : Res XItem := do
  let c ← XCur.next { elem := none, rest := toks }
  let (it, _) ← xDecodeValue T R H (2 * toks.length + 2) c (c.tag T)
  pure it

/-- `UnmarshalXML(doc, &ttlv.Value{})` on the parsed document `e`. -/
def xmlRead (T : Tables) (R : Rfc3339) (H : Hints) (e : XElem) : Res XItem :=
  xmlReadToks T R H e.toks

/-! ## 7. JSON -/

/-- a JSON value as `json.Decoder` with `UseNumber` reports it. An object keeps its members in document
    order (Go's map keeps the LAST of duplicate keys: `JVal.field`). A number is its integer value when
    its literal is an integer literal (`intLit`), anything else (`1.5`, `1e3`) is rejected by `Int64()`. -/
inductive JVal where
  | obj (fields : List (Str × JVal))
  | arr (items : List JVal)
  | str (s : Str)
  | num (v : Int) (intLit : Bool)
  | bool (b : Bool)
  | null
  deriving Repr, Inhabited

/-- `2^52`. -/
def maxJsonInt : Int := 4503599627370496

/-- the JSON `value` of a scalar. -/
def jsonValue (T : Tables) (R : Rfc3339) : XItem → JVal
  | .struct .. => .arr []
  | .int _ v => .num v true
  | .mask t m v => .str (maskToText (maskNs T (effTag m t)) [124] (unsignedOfInt 32 v))
  | .long _ v =>
    if v ≥ maxJsonInt ∨ v ≤ -maxJsonInt then
      .str (48 :: 120 :: hexFixedLo 16 (unsignedOfInt 64 v))
    else .num v true
  | .big _ v =>
    if v ≥ maxJsonInt ∨ v ≤ -maxJsonInt then .str (48 :: 120 :: hexLo (bigBytes v 8))
    else .num v true
  | .enum t e v => .str (enumToText (enumByV T (effTag e t)) v)
  | .bool _ b => .bool b
  | .text _ s => .str (strOfBytes s)
  | .bytes _ s => .str (hexUp s)
  | .date _ v => .str (R.format v)
  | .interval _ v => .num (v : Int) true

/-- `startElem … endElem`: `{"tag": …, "type": …, "value": …}` (no `type` for a structure). -/
def jsonElem (T : Tables) (ty : Nat) (tag : Int) (value : JVal) : JVal :=
  let tyField : List (Str × JVal) := if ty == 1 then [] else [(sType, .str (typeName ty))]
  .obj ((sTag, .str (tagString T tag)) :: (tyField ++ [(sValue, value)]))

mutual
  /-- `Value.EncodeTTLV` into a `jsonWriter`. -/
  def jsonWrite (T : Tables) (R : Rfc3339) : XItem → JVal
    | .struct t cs => jsonElem T 1 t (.arr (jsonWriteList T R cs))
    | .int t v => jsonElem T 2 t (jsonValue T R (.int t v))
    | .mask t m v => jsonElem T 2 t (jsonValue T R (.mask t m v))
    | .long t v => jsonElem T 3 t (jsonValue T R (.long t v))
    | .big t v => jsonElem T 4 t (jsonValue T R (.big t v))
    | .enum t e v => jsonElem T 5 t (jsonValue T R (.enum t e v))
    | .bool t b => jsonElem T 6 t (jsonValue T R (.bool t b))
    | .text t s => jsonElem T 7 t (jsonValue T R (.text t s))
    | .bytes t s => jsonElem T 8 t (jsonValue T R (.bytes t s))
    | .date t v => jsonElem T 9 t (jsonValue T R (.date t v))
    | .interval t v => jsonElem T 10 t (jsonValue T R (.interval t v))
  def jsonWriteList (T : Tables) (R : Rfc3339) : List XItem → List JVal
    | [] => []
    | x :: xs => jsonWrite T R x :: jsonWriteList T R xs
end

/-- `m[k]` of the Go map built from the members: the last one wins. -/
def fieldOf (k : Str) : List (Str × JVal) → Option JVal
  | [] => none
  | (a, v) :: r =>
    match fieldOf k r with
    | some w => some w
    | none => if a == k then some v else none

/-- a `jsonReader`: the remaining elements of the enclosing array. -/
structure JCur where
  value : List JVal
  deriving Repr, Inhabited

/-- `getMap()[k]` (an element that is not an object reads as an empty map). -/
def JCur.get (c : JCur) (k : Str) : Option JVal :=
  match c.value with
  | .obj fs :: _ => fieldOf k fs
  | _ => none

/-- `Type()`. -/
def JCur.ty (c : JCur) : Nat :=
  match c.get sType with
  | some (.str s) => if s.isEmpty then 1 else (typeFromName s).getD typeInvalid
  | _ => 1

/-- `Tag()`. -/
def JCur.tag (T : Tables) (c : JCur) : Int :=
  match c.get sTag with
  | some (.str s) => T.tagOfText s
  | _ => 0

/-- `Next()` after a successful getter. -/
def JCur.next (c : JCur) : JCur := { value := c.value.tail }

/-- `json.Number.Int64()`. -/
def int64OfNum (v : Int) (intLit : Bool) : Option Int :=
  if intLit && decide (-9223372036854775808 ≤ v) && decide (v ≤ 9223372036854775807) then some v else none

def inRange (lo hi v : Int) : Option Int := if lo ≤ v ∧ v ≤ hi then some v else none

/-- `assertType`, conversion of `getValue()`, `Next()`. -/
def JCur.scalar {α : Type} (T : Tables) (c : JCur) (ty : Nat) (tag : Int) (conv : Option JVal → Res α) :
    Res (α × JCur) :=
  match c.value with
  | [] => .err .eof
  | _ :: _ =>
    if c.tag T ≠ tag then .err .tagMismatch
    else if c.ty ≠ ty then .err .typeMismatch
    else do
      let v ← conv (c.get sValue)
      pure (v, c.next)

def jInteger : Option JVal → Res Int
  | some (.num v il) => ofOpt ((int64OfNum v il).bind (inRange (-2147483648) 2147483647))
  | some (.str s) => ofOpt ((goParseInt 32 s).bind (inRange (-2147483648) 2147483647))
  | _ => .err .other

def jLong : Option JVal → Res Int
  | some (.num v il) => ofOpt (int64OfNum v il)
  | some (.str s) => ofOpt (goParseInt 64 s)
  | _ => .err .other

def jBig : Option JVal → Res Int
  | some (.num v il) => ofOpt (int64OfNum v il)
  | some (.str (48 :: 120 :: h)) => bigOfHex h
  | _ => .err .other

def jEnum (byName : Table) : Option JVal → Res Nat
  | some (.num v il) => ofOpt (((int64OfNum v il).bind (inRange 0 4294967295)).map Int.toNat)
  | some (.str s) => ofOpt (enumFromTextReader byName s)
  | _ => .err .other

def jBool : Option JVal → Res Bool
  | some (.bool b) => .ok b
  | some (.str s) => ofOpt ((goParseInt 64 s).map fun p => p != 0)
  | _ => .err .other

def jText : Option JVal → Res Bytes
  | some (.str s) => .ok (bytesOfStr s)
  | _ => .err .other

def jBytes : Option JVal → Res Bytes
  | some (.str s) => ofOpt (hexDec s)
  | _ => .err .other

/-- `0x…`: hexadecimal epoch, non-negative as int64 and not after year 9999; else RFC 3339. -/
def jDate (R : Rfc3339) : Option JVal → Res Int
  | some (.str (48 :: 120 :: h)) =>
    match parseUint 16 64 h with
    | none => .err .other
    | some n =>
      let epoch := signedOfNat 64 n
      if epoch < 0 then .err .range
      else if epoch > maxEpoch then .err .range
      else .ok epoch
  | some (.str s) => xDate R s
  | _ => .err .other

def jInterval : Option JVal → Res Nat
  | some (.num v il) => ofOpt (((int64OfNum v il).bind (inRange 0 4294967295)).map Int.toNat)
  | some (.str s) => ofOpt (goParseUint 32 s)
  | _ => .err .other

def jMask (byName : Table) : Option JVal → Res Int
  | some (.num v il) => ofOpt ((int64OfNum v il).bind (inRange (-2147483648) 2147483647))
  | some (.str s) => ofOpt ((maskFromTextJson byName s).map (signedOfNat 32))
  | _ => .err .other

mutual
  /-- `Value.TagDecodeTTLV(d, tag)` over a `jsonReader`; `H` = the caller's hints at this position. -/
  def jDecodeValue (T : Tables) (R : Rfc3339) : Hints → Nat → JCur → Int → Res (XItem × JCur)
    | _, 0, _, _ => .err .other
    | H, fuel + 1, c, tag =>
      match c.ty with
      | 2 =>
        match (H [] tag).mask with
        | none => do let (v, c') ← c.scalar T 2 tag jInteger; pure (.int tag v, c')
        | some m => do
          let (v, c') ← c.scalar T 2 tag (jMask (maskByN T (effTag m tag)))
          pure (.mask tag m v, c')
      | 3 => do let (v, c') ← c.scalar T 3 tag jLong; pure (.long tag v, c')
      | 4 => do let (v, c') ← c.scalar T 4 tag jBig; pure (.big tag v, c')
      | 6 => do let (v, c') ← c.scalar T 6 tag jBool; pure (.bool tag v, c')
      | 8 => do let (v, c') ← c.scalar T 8 tag jBytes; pure (.bytes tag v, c')
      | 9 => do let (v, c') ← c.scalar T 9 tag (jDate R); pure (.date tag v, c')
      | 5 => do
        let (v, c') ← c.scalar T 5 tag (jEnum (enumByN T (effTag (H [] tag).enumTag tag)))
        pure (.enum tag (H [] tag).enumTag v, c')
      | 10 => do let (v, c') ← c.scalar T 10 tag jInterval; pure (.interval tag v, c')
      | 7 => do let (v, c') ← c.scalar T 7 tag jText; pure (.text tag v, c')
      | 1 =>
        -- `jsonReader.Struct(tag, f)`
        match c.value with
        | [] => .err .eof
        | _ :: _ =>
          if c.tag T ≠ tag then .err .tagMismatch else
          match c.get sValue with
          | some (.arr st) => do
            let cs ← jDecodeFields T R H.child fuel { value := st }
            pure (.struct tag cs, c.next)
          | _ => .err .other
      | _ => .err .unsupported
  /-- `Struct.TagDecodeTTLV`: `for d.Tag() != 0 { … }`; what the loop leaves unread is dropped. -/
  def jDecodeFields (T : Tables) (R : Rfc3339) : (Nat → Hints) → Nat → JCur → Res (List XItem)
    | _, 0, _ => .err .other
    | Hs, fuel + 1, c =>
      if c.tag T = 0 then .ok []
      else do
        let (it, c') ← jDecodeValue T R (Hs 0) fuel c (c.tag T)
        let rest ← jDecodeFields T R (hintsTail Hs) fuel c'
        pure (it :: rest)
end

mutual
  /-- number of nodes (bounds the recursion of the reader). -/
  def JVal.size : JVal → Nat
    | .obj fs => 1 + JVal.sizeFields fs
    | .arr xs => 1 + JVal.sizeList xs
    | _ => 1
  def JVal.sizeFields : List (Str × JVal) → Nat
    | [] => 0
    | f :: r => JVal.sizeField f + JVal.sizeFields r
  def JVal.sizeField : Str × JVal → Nat
    | (_, v) => v.size
  def JVal.sizeList : List JVal → Nat
    | [] => 0
    | x :: xs => x.size + JVal.sizeList xs
end

/-- `UnmarshalJSON(doc, &ttlv.Value{})` on the parsed document `j`. -/
def jsonRead (T : Tables) (R : Rfc3339) (H : Hints) (j : JVal) : Res XItem := do
  let c : JCur := { value := [j] }
  let (it, _) ← jDecodeValue T R H (2 * j.size + 2) c (c.tag T)
  pure it

/-! ## 8. the scope of C04 on a tree (what the round-trip theorems and the harness quantify over) -/

def int32Ok (v : Int) : Bool := decide (-2147483648 ≤ v) && decide (v ≤ 2147483647)
def int64Ok (v : Int) : Bool := decide (-9223372036854775808 ≤ v) && decide (v ≤ 9223372036854775807)
/-- a KMIP tag: `0 < t < 2^24`. -/
def tagOk (t : Int) : Bool := decide (0 < t) && decide (t < 16777216)

mutual
  /-- the hypotheses of C04 on an annotated tree, and nothing else: every tag a KMIP tag, every value in
      the range of its Go type, every date within years 1..9999 (UTC seconds `minEpoch … maxEpoch`).
      No condition on which enumeration / mask type a node is written with. -/
  def inScope : XItem → Bool
    | .struct t cs => tagOk t && inScopeList cs
    | .int t v => tagOk t && int32Ok v
    | .mask t _ v => tagOk t && int32Ok v
    | .long t v => tagOk t && int64Ok v
    | .big t _ => tagOk t
    | .enum t _ v => tagOk t && decide (v < 4294967296)
    | .bool t _ => tagOk t
    | .text t _ => tagOk t
    | .bytes t _ => tagOk t
    | .date t v => tagOk t && decide (minEpoch ≤ v) && decide (v ≤ maxEpoch)
    | .interval t v => tagOk t && decide (v < 4294967296)
  def inScopeList : List XItem → Bool
    | [] => true
    | x :: xs => inScope x && inScopeList xs
end

end Kmip.Lex
