/-
  Certificate obligations, parts 8..15 of 64 of the `current` client system (kernel evaluation; 8 modules
  so that lake checks them in parallel; small parts keep the kernel's memory small).
  Assembled in `Lemmas/CliCert.lean`.
-/
import KmipModel.Model.CliConn
import KmipModel.Gen.CertCliConn
namespace Kmip.CliCert
open Kmip.CliLts Kmip.CliConn Kmip.Gen.CertCliConn

theorem cuClosed8 : partClosed (sys current) codec certCurrent cuP8 = true := by decide +kernel
theorem cuSafe8 : partSafe codec (badPartial current) cuP8 = true := by decide +kernel
theorem cuClosed9 : partClosed (sys current) codec certCurrent cuP9 = true := by decide +kernel
theorem cuSafe9 : partSafe codec (badPartial current) cuP9 = true := by decide +kernel
theorem cuClosed10 : partClosed (sys current) codec certCurrent cuP10 = true := by decide +kernel
theorem cuSafe10 : partSafe codec (badPartial current) cuP10 = true := by decide +kernel
theorem cuClosed11 : partClosed (sys current) codec certCurrent cuP11 = true := by decide +kernel
theorem cuSafe11 : partSafe codec (badPartial current) cuP11 = true := by decide +kernel
theorem cuClosed12 : partClosed (sys current) codec certCurrent cuP12 = true := by decide +kernel
theorem cuSafe12 : partSafe codec (badPartial current) cuP12 = true := by decide +kernel
theorem cuClosed13 : partClosed (sys current) codec certCurrent cuP13 = true := by decide +kernel
theorem cuSafe13 : partSafe codec (badPartial current) cuP13 = true := by decide +kernel
theorem cuClosed14 : partClosed (sys current) codec certCurrent cuP14 = true := by decide +kernel
theorem cuSafe14 : partSafe codec (badPartial current) cuP14 = true := by decide +kernel
theorem cuClosed15 : partClosed (sys current) codec certCurrent cuP15 = true := by decide +kernel
theorem cuSafe15 : partSafe codec (badPartial current) cuP15 = true := by decide +kernel

end Kmip.CliCert
