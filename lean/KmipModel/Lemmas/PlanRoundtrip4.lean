/-
  C01 — stage 2/3 glue: what `Schema.unambiguous` gives for every struct id, the predicates for the
  hand-written codecs, the struct clause of `encK`/`decK`, and the assembly of `PK (n+1)`.
-/
import KmipModel.Lemmas.PlanRoundtrip3
namespace Kmip

theorem getD_mem_or_default {α : Type} (l : List α) (i : Nat) (d : α) : l.getD i d ∈ l ∨ l.getD i d = d := by
  rw [List.getD_eq_getElem?_getD]
  cases h : l[i]? with
  | none => right; rfl
  | some x => left; exact List.mem_of_getElem? h

theorem structOK_default (S : Schema) : S.structOK { fields := [] } = true := by
  simp [Schema.structOK, Schema.ctxOnly, StructDef.encOnly, Schema.reflOK, unamb]

theorem unamb_structOK {S : Schema} (hU : S.unambiguous = true) (id : Nat) :
    S.structOK (S.structDef id) = true := by
  simp only [Schema.unambiguous, Bool.and_eq_true, List.all_eq_true] at hU
  rcases getD_mem_or_default S.structs id { fields := [] } with h | h
  · exact hU.1.1.1 _ h
  · unfold Schema.structDef; rw [h]; exact structOK_default S

theorem unamb_encOK {S : Schema} (hU : S.unambiguous = true) (id : Nat) :
    ∀ f ∈ (S.structDef id).fields, S.fieldEncOK f = true := by
  simp only [Schema.unambiguous, Bool.and_eq_true, List.all_eq_true] at hU
  rcases getD_mem_or_default S.structs id { fields := [] } with h | h
  · exact hU.1.2 _ h
  · unfold Schema.structDef; rw [h]; intro f hf; cases hf

theorem unamb_dynOK {S : Schema} (hU : S.unambiguous = true) (d : Nat) (x : Val)
    (hok : dynValOk (S.dyn d).kind x = true) : S.dynOK (S.dyn d) = true := by
  simp only [Schema.unambiguous, Bool.and_eq_true, List.all_eq_true] at hU
  rcases getD_mem_or_default S.dyns d { defTag := 0, kind := .unsupported } with h | h
  · exact hU.1.1.2 _ h
  · unfold Schema.dyn at hok; rw [h] at hok; simp [dynValOk, Kind.definite, Kind.scalar] at hok

/-! ## Predicates for the hand-written codecs -/

/-- what is proved of one `encCustom` call with codec `code` on the struct `id`
    (`dc`: the struct also has a hand-written decoder). -/
def CustConcl (S : Schema) (n code id tag : Nat) (v : Val) (ver : Option Ver) (v' : Val)
    (ver' : Option Ver) (dc : Bool) : Prop :=
  ∃ items fs fs', v = .struct fs ∧ v' = .struct fs'
    ∧ encCustom S n code tag v ver = .ok (items, ver')
    ∧ encCustom S n code tag v' ver = .ok (items, ver')
    ∧ normCustom S n code tag v' ver = some (v', ver')
    ∧ (∀ it ∈ items, it.tag = tag)
    ∧ items.length = 1
    ∧ (dc = true → Item.AllInRange items → ∀ (fd : Nat) (rs : List RawItem),
        v.depth ≤ fd + 1 →
        decCustom S fd code id tag (Cur.of (items.map Item.raw ++ rs)) ver
          = .ok (v', Cur.of rs, ver'))

/-- structs with a hand-written ENCODER (RequestBatchItem, ResponseBatchItem, UnknownPayload, and the
    union-like CredentialValue / KeyValue / KeyMaterial, which have no decoder of their own). -/
def PCust (S : Schema) (n : Nat) : Prop :=
  ∀ (id tag : Nat) (v : Val) (ver : Option Ver) (v' : Val) (ver' : Option Ver),
    (S.structDef id).encCustom = true → S.structOK (S.structDef id) = true →
    normCustom S n (S.structDef id).custom tag v ver = some (v', ver') →
    CustConcl S n (S.structDef id).custom id tag v ver v' ver' (S.structDef id).decCustom

/-- structs encoded reflectively but DECODED by hand (Attribute, Credential, KeyBlock, and the Get /
    Register / Import / Export payloads). -/
def PCustDec (S : Schema) (n : Nat) : Prop :=
  ∀ (id tag : Nat) (fs : List Val) (ver : Option Ver) (fs' : List Val) (ver' : Option Ver)
    (items : List Item),
    (S.structDef id).decCustom = true → (S.structDef id).encCustom = false →
    S.customShapeOK (S.structDef id) = true →
    normFields S n (S.structDef id).fields fs ver = some (fs', ver') →
    customOk S (S.structDef id).custom (.struct fs') = true →
    encFields S n (S.structDef id).fields fs ver = .ok (items, ver') →
    (Item.struct tag items).InRange → ∀ (fd : Nat) (rs : List RawItem),
      (Val.struct fs).depth ≤ fd + 1 →
      decCustom S fd (S.structDef id).custom id tag (Cur.of ((Item.struct tag items).raw :: rs)) ver
        = .ok (.struct fs', Cur.of rs, ver')

theorem Cur.expect_of (it : Item) (rs : List RawItem) :
    (Cur.of (it.raw :: rs)).expect it.ty it.tag = .ok it.raw := Cur.expect_cons it.raw rs none

theorem Cur.next_of (r : RawItem) (rs : List RawItem) : (Cur.of (r :: rs)).next = .ok (Cur.of rs) :=
  Cur.next_cons r rs

/-- the struct clause. -/
theorem pk_struct (S : Schema) (hU : S.unambiguous = true) (n : Nat) (hFe : PFe S n) (hFd : PFd S n)
    (hC : PCust S n) (hCD : PCustDec S n) (id : Nat) (tag : Nat) (v : Val)
    (ver : Option Ver) (v' : Val) (ver' : Option Ver)
    (h : normK S (n + 1) (.struct id) tag v ver = some (v', ver')) :
    ∃ items, encK S (n + 1) (.struct id) tag v ver = .ok (items, ver')
      ∧ encK S (n + 1) (.struct id) tag v' ver = .ok (items, ver')
      ∧ normK S (n + 1) (.struct id) tag v' ver = some (v', ver')
      ∧ (∀ it ∈ items, it.tag = tag)
      ∧ items.length = 1
      ∧ (S.decodable (.struct id) = true → Item.AllInRange items → ∀ (fd : Nat) (rs : List RawItem),
          v.depth ≤ fd →
          decK S fd (.struct id) tag (Cur.of (items.map Item.raw ++ rs)) ver = .ok (v', Cur.of rs, ver')) := by
  have hsok := unamb_structOK hU id
  rw [normK_struct] at h
  split at h
  · rename_i fs
    by_cases hec : (S.structDef id).encCustom = true
    · -- hand-written encoder
      simp only [hec, if_true] at h
      obtain ⟨items, fs0, fs', hv0, rfl, he, he', hn', ht, hl, hd⟩ := hC id tag _ ver v' ver' hec hsok h
      refine ⟨items, by rw [encK_struct]; simp only [hec, if_true]; exact he,
        by rw [encK_struct]; simp only [hec, if_true]; exact he',
        by rw [normK_struct]; simp only [hec, if_true]; exact hn', ht, hl, ?_⟩
      intro hdec hr fd rs hfd
      obtain ⟨f, rfl, hf⟩ := fuel_succ (by have := Val.depth_pos (.struct fs); omega : 0 + 1 ≤ fd)
      have hdc : (S.structDef id).decCustom = true := by
        simp only [Schema.decodable, Kind.base, Schema.ctxOnly, StructDef.encOnly, hec, Bool.true_and,
          Bool.not_true, Bool.false_and, Bool.or_false, Bool.not_not] at hdec
        exact hdec
      rw [decK_struct]
      simp only [hdc, if_true]
      exact hd hdc hr f rs hfd
    · have hec' : (S.structDef id).encCustom = false := by simpa using hec
      simp only [hec', Bool.false_eq_true, if_false] at h
      cases hx : normFields S n (S.structDef id).fields fs ver with
      | none => simp only [hx] at h; contradiction
      | some p =>
        obtain ⟨fs', w⟩ := p
        simp only [hx] at h
        obtain ⟨hcok, h⟩ := ite_some_eq h
        obtain ⟨rfl, rfl⟩ := pair_eq h
        obtain ⟨items, he, he', hn', hl1, hl2⟩ := hFe _ fs ver fs' w (unamb_encOK hU id) hx
        refine ⟨[.struct tag items], ?_, ?_, ?_, ?_, rfl, ?_⟩
        · rw [encK_struct]; simp only [hec', Bool.false_eq_true, if_false, he, Res.ok_bind, Res.pure_eq]
        · rw [encK_struct]; simp only [hec', Bool.false_eq_true, if_false, he', Res.ok_bind, Res.pure_eq]
        · rw [normK_struct]; simp only [hec', Bool.false_eq_true, if_false, hn', hcok, if_true]
        · intro x hx'; rw [List.mem_singleton.1 hx']; rfl
        · intro hdec hr fd rs hfd
          have hri := (Item.allInRange_singleton _).1 hr
          obtain ⟨f, rfl, hf⟩ := fuel_succ (by have := Val.depth_pos (.struct fs); omega : 0 + 1 ≤ fd)
          rw [decK_struct]
          by_cases hdc : (S.structDef id).decCustom = true
          · simp only [hdc, if_true]
            have hcs : S.customShapeOK (S.structDef id) = true := by
              simpa [Schema.structOK, hdc] using hsok
            have hcok' : customOk S (S.structDef id).custom (.struct fs') = true := by
              simpa [hdc] using hcok
            exact hCD id tag fs ver fs' w items hdc hec' hcs hx hcok' he hri f rs hfd
          · have hdc' : (S.structDef id).decCustom = false := by simpa using hdc
            simp only [hdc', Bool.false_eq_true, if_false]
            have hnctx : S.ctxOnly (S.structDef id) = false := by
              simpa [Schema.decodable, Kind.base] using hdec
            have hrefl : S.reflOK (S.structDef id).fields = true := by
              simpa [Schema.structOK, hdc', hec', hnctx] using hsok
            simp only [Schema.reflOK, Bool.and_eq_true, List.all_eq_true] at hrefl
            obtain ⟨_, hdf⟩ := hFd _ fs ver fs' w items hrefl.1 hrefl.2 hx he
            rw [Item.InRange] at hri
            simp only [Val.depth] at hfd
            obtain ⟨f2, rfl, hf2⟩ := fuel_succ (by omega : (Val.depthList fs + 1) + 1 ≤ f)
            rw [decStruct_succ]
            have hexp : (Cur.of ([Item.struct tag items].map Item.raw ++ rs)).expect 1 tag
                = .ok (Item.struct tag items).raw := Cur.expect_of (.struct tag items) rs
            simp only [hexp, Res.ok_bind]
            have hstart : Cur.start (Item.struct tag items).raw.val = .ok (Cur.of (items.map Item.raw)) :=
              Cur.start_encList items hri.2.2.2
            simp only [hstart, Res.ok_bind, hdf hri.2.2.2 f2 (by omega)]
            have hnext : (Cur.of ([Item.struct tag items].map Item.raw ++ rs)).next = .ok (Cur.of rs) :=
              Cur.next_of _ rs
            simp only [hnext, Res.ok_bind, Res.pure_eq]
  · contradiction


theorem ne_nil_of_len1 {α : Type} {l : List α} (h : l.length = 1) : l ≠ [] := by
  intro e; rw [e] at h; cases h

/-- assembly: every clause of `encK`/`decK`, one level up. -/
theorem pk_succ (S : Schema) (hU : S.unambiguous = true) (n : Nat) (hK : PK S n) (hSl : PSlice S n)
    (hFe : PFe S n) (hFd : PFd S n) (hC : PCust S n) (hCD : PCustDec S n) : PK S (n + 1) := by
  intro k tag v ver v' ver' h
  by_cases hs : k.scalar = true
  · exact pk_scalar S (n + 1) k hs tag v ver v' ver' h
  · cases k <;> simp only [Kind.scalar, not_true_eq_false] at hs
    case any =>
      obtain ⟨items, he, he', hn', ht, hl, hd⟩ := pk_any S n tag v ver v' ver' h
      exact ⟨items, he, he', hn', ht, fun _ => hl, fun _ _ => ne_nil_of_len1 hl,
        fun _ hr fd rs hfd _ => hd hr fd rs hfd⟩
    case anyStruct =>
      obtain ⟨items, he, he', hn', ht, hl, hd⟩ := pk_anyStruct S n tag v ver v' ver' h
      exact ⟨items, he, he', hn', ht, fun _ => hl, fun _ _ => ne_nil_of_len1 hl,
        fun _ hr fd rs hfd _ => hd hr fd rs hfd⟩
    case struct id =>
      obtain ⟨items, he, he', hn', ht, hl, hd⟩ := pk_struct S hU n hFe hFd hC hCD id tag v ver v' ver' h
      exact ⟨items, he, he', hn', ht, fun _ => hl, fun _ _ => ne_nil_of_len1 hl,
        fun hdec hr fd rs hfd _ => hd hdec hr fd rs hfd⟩
    case ptr k' =>
      obtain ⟨items, he, he', hn', ht, hl, hd⟩ := pk_ptr S n hK k' tag v ver v' ver' h
      refine ⟨items, he, he', hn', ht, hl, ?_, hd⟩
      intro _ hz
      apply ne_nil_of_len1
      apply hl
      have h0 := h
      rw [normK_ptr] at h0
      split at h0
      · simp [Val.isZero] at hz
      · simp [emitsOne]
      · contradiction
    case slice k' =>
      obtain ⟨items, he, he', hn', ht, hnz, hd⟩ := pk_slice S n hSl k' tag v ver v' ver' h
      refine ⟨items, he, he', hn', ht, ?_, fun _ hz => hnz hz, hd⟩
      intro h1; simp [emitsOne, Kind.definite, Kind.scalar] at h1
    case iface =>
      obtain ⟨items, he, he', hn', ht⟩ := pk_iface S n hK tag v ver v' ver' h
      refine ⟨items, he, he', hn', ht, ?_, ?_, ?_⟩
      · intro h1; simp [emitsOne, Kind.definite, Kind.scalar] at h1
      · intro _ hz
        cases v with
        | iface o =>
          cases o with
          | none => simp [Val.isZero] at hz
          | some p =>
            obtain ⟨d, x⟩ := p
            obtain ⟨x', items', _, he2, _, _, _, hl, _⟩ := pdyn_succ S n hK d tag x ver v' ver' h
            rw [he] at he2
            simp only [Res.ok.injEq, Prod.mk.injEq] at he2
            rw [he2.1]; exact ne_nil_of_len1 hl
        | _ => rw [normK_iface] at h; contradiction
      · intro hdec; simp [Schema.decodable, Kind.base] at hdec
    all_goals (rw [normK.eq_def] at h; simp at h)

end Kmip
