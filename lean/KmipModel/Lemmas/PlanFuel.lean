/-
  C01 — the fuel of the model's encoder is not a bound on the messages.

  `marshal` (Model/Plan.lean) runs the encoder interpreter `encK` with the constant fuel 100000
  (`marshalFuel`), and `Conforms` runs the conformance walk `normK` with the same constant: one unit per
  nesting level AND per slice element / field position.  The Go code has no such fuel.  This file shows
  that the constant is an artefact of executability only:

  * `normK_mono`, `encK_mono` …: once the walk / the encoder succeeds with fuel `n` it returns the SAME
    result with every larger fuel;
  * `marshalWith` / `normTopAt` / `ConformsAt`: the entry points with the fuel as a parameter
    (`marshal = marshalWith marshalFuel`, `Conforms ↔ ConformsAt marshalFuel`);
  * `roundtrip_core_at`: the round trip at EVERY fuel.
-/
import KmipModel.Lemmas.PlanRoundtrip18
namespace Kmip

/-! ## 1. The conformance walk is monotone in its fuel -/

def NK (S : Schema) (n : Nat) : Prop :=
  ∀ k tag v ver r, normK S n k tag v ver = some r → normK S (n + 1) k tag v ver = some r
def NSlice (S : Schema) (n : Nat) : Prop :=
  ∀ k tag xs ver r, normSlice S n k tag xs ver = some r → normSlice S (n + 1) k tag xs ver = some r
def NFields (S : Schema) (n : Nat) : Prop :=
  ∀ fs vs ver r, normFields S n fs vs ver = some r → normFields S (n + 1) fs vs ver = some r
def NCustom (S : Schema) (n : Nat) : Prop :=
  ∀ code tag v ver r, normCustom S n code tag v ver = some r → normCustom S (n + 1) code tag v ver = some r
def NSame (S : Schema) (n : Nat) : Prop :=
  ∀ ks tag xs ver r, normSameTag S n ks tag xs ver = some r → normSameTag S (n + 1) ks tag xs ver = some r

theorem nilRest_succ : (n : Nat) → (ks : List Kind) → (xs : List Val) → nilRest n ks xs = true →
    nilRest (n + 1) ks xs = true
  | 0, ks, xs, h => by simp [nilRest] at h
  | n + 1, [], [], _ => by simp [nilRest]
  | n + 1, [], x :: xs, h => by simp [nilRest] at h
  | n + 1, k :: ks, [], h => by cases k <;> simp [nilRest] at h
  | n + 1, k :: ks, x :: xs, h => by
    cases k <;> try (simp [nilRest] at h; done)
    cases x <;> try (simp [nilRest] at h; done)
    rename_i k' o
    cases o with
    | some y => simp [nilRest] at h
    | none =>
      simp only [nilRest] at h ⊢
      exact nilRest_succ n ks xs h

theorem nk_succ (S : Schema) (n : Nat) (hK : NK S n) (hSl : NSlice S n) (hF : NFields S n)
    (hC : NCustom S n) : NK S (n + 1) := by
  intro k tag v ver r h
  by_cases hs : k.scalar = true
  · cases k <;> simp only [Kind.scalar] at hs <;> try contradiction
    all_goals (cases v <;> simp only [normK] at h ⊢ <;> first | contradiction | exact h)
  · cases k <;> simp only [Kind.scalar, not_true_eq_false] at hs
    case any => rw [normK_any] at h ⊢; exact h
    case anyStruct => rw [normK_anyStruct] at h ⊢; exact h
    case ptr k' =>
      rw [normK_ptr] at h ⊢
      split at h
      · exact h
      · rename_i x
        obtain ⟨hd, h⟩ := ite_eq_some h
        cases hx : normK S n k' tag x ver with
        | none => simp only [hx] at h; contradiction
        | some p =>
          simp only [if_pos hd, hK _ _ _ _ _ hx]
          simp only [hx] at h
          exact h
      · contradiction
    case slice k' =>
      rw [normK_slice] at h ⊢
      split at h
      · rename_i xs
        obtain ⟨hd, h⟩ := ite_eq_some h
        cases hx : normSlice S n k' tag xs ver with
        | none => simp only [hx] at h; contradiction
        | some p =>
          simp only [if_pos hd, hSl _ _ _ _ _ hx]
          simp only [hx] at h
          exact h
      · contradiction
    case iface =>
      rw [normK_iface] at h ⊢
      split at h
      · exact h
      · rename_i d x
        obtain ⟨hd, h⟩ := ite_eq_some h
        cases hx : normK S n (S.dyn d).kind tag x ver with
        | none => simp only [hx] at h; contradiction
        | some p =>
          simp only [if_pos hd, hK _ _ _ _ _ hx]
          simp only [hx] at h
          exact h
      · contradiction
    case struct id =>
      rw [normK_struct] at h ⊢
      split at h
      · rename_i fs
        by_cases hec : (S.structDef id).encCustom = true
        · simp only [hec, if_true] at h ⊢
          exact hC _ _ _ _ _ h
        · simp only [hec, Bool.false_eq_true, if_false] at h ⊢
          cases hx : normFields S n (S.structDef id).fields fs ver with
          | none => simp only [hx] at h; contradiction
          | some p =>
            simp only [hF _ _ _ _ hx]
            simp only [hx] at h
            exact h
      · contradiction
    all_goals (rw [normK.eq_def] at h; simp at h)

theorem nslice_succ (S : Schema) (n : Nat) (hK : NK S n) (hSl : NSlice S n) : NSlice S (n + 1) := by
  intro k tag xs ver r h
  cases xs with
  | nil => rw [normSlice_nil] at h ⊢; exact h
  | cons x xs =>
    rw [normSlice_cons] at h ⊢
    cases hx : normK S n k tag x ver with
    | none => simp only [hx] at h; contradiction
    | some p =>
      obtain ⟨x', w1⟩ := p
      simp only [hx] at h
      cases hxs : normSlice S n k tag xs w1 with
      | none => simp only [hxs] at h; contradiction
      | some q =>
        simp only [hK _ _ _ _ _ hx, hSl _ _ _ _ _ hxs]
        simp only [hxs] at h
        exact h

theorem nfields_succ (S : Schema) (n : Nat) (hK : NK S n) (hF : NFields S n) : NFields S (n + 1) := by
  intro fs vs ver r h
  cases fs with
  | nil =>
    cases vs with
    | nil => rw [normFields_nil] at h ⊢; exact h
    | cons v vs => rw [normFields_nil_cons] at h; contradiction
  | cons f fs =>
    cases vs with
    | nil => rw [normFields_cons_nil] at h; contradiction
    | cons v vs =>
      rw [normFields_cons] at h ⊢
      by_cases hs : f.skip v (f.ver1 v ver) = true
      · simp only [hs, if_true] at h ⊢
        obtain ⟨hz, h⟩ := ite_eq_some h
        cases hr : normFields S n fs vs (f.ver1 v ver) with
        | none => simp only [hr] at h; contradiction
        | some p =>
          simp only [if_pos hz, hF _ _ _ _ hr]
          simp only [hr] at h
          exact h
      · have hs' : f.skip v (f.ver1 v ver) = false := by simpa using hs
        simp only [hs', Bool.false_eq_true, if_false] at h ⊢
        cases hx : normK S n f.kind (f.etag S v) v (f.ver1 v ver) with
        | none => simp only [hx] at h; contradiction
        | some p =>
          obtain ⟨v', w1⟩ := p
          simp only [hx] at h
          cases hr : normFields S n fs vs w1 with
          | none => simp only [hr] at h; contradiction
          | some q =>
            simp only [hK _ _ _ _ _ hx, hF _ _ _ _ hr]
            simp only [hr] at h
            exact h

theorem nsame_succ (S : Schema) (n : Nat) (hK : NK S n) (hSm : NSame S n) : NSame S (n + 1) := by
  intro ks tag xs ver r h
  cases ks with
  | nil => rw [normSameTag_nil] at h; contradiction
  | cons k ks =>
  cases xs with
  | nil => rw [normSameTag_cons_nil] at h; contradiction
  | cons x xs =>
  rw [normSameTag_cons] at h ⊢
  split at h
  · rename_i k0
    split at h
    · cases hr : normSameTag S n ks tag xs ver with
      | none => simp only [hr] at h; contradiction
      | some p =>
        simp only [hSm _ _ _ _ _ hr]
        simp only [hr] at h
        exact h
    · rename_i y
      obtain ⟨hnil, h⟩ := ite_eq_some h
      cases hx : normK S n (.ptr k0) tag (.ptr (some y)) ver with
      | none => simp only [hx] at h; contradiction
      | some p =>
        simp only [if_pos (nilRest_succ n ks xs hnil), hK _ _ _ _ _ hx]
        simp only [hx] at h
        exact h
    · contradiction
  · contradiction

theorem ncustom_succ (S : Schema) (n : Nat) (hK : NK S n) (hSm : NSame S n) : NCustom S (n + 1) := by
  intro code tag v ver r h
  by_cases c1 : code = Cust.requestBatchItem
  · subst c1
    rw [normCustom_request] at h ⊢
    split at h
    · rename_i op bid d x me
      obtain ⟨hc, h⟩ := ite_eq_some h
      cases hpl : normK S n .iface T.requestPayload (.iface (some (d, x))) ver with
      | none => simp only [hpl] at h; contradiction
      | some p =>
      obtain ⟨pl', ver1⟩ := p
      simp only [hpl] at h
      cases hme : normK S n (.ptr (.struct (msgExtId S))) T.messageExtension me ver1 with
      | none => simp only [hme] at h; contradiction
      | some q =>
      simp only [if_pos hc, hK _ _ _ _ _ hpl, hK _ _ _ _ _ hme]
      simp only [hme] at h
      exact h
    · contradiction
  by_cases c2 : code = Cust.responseBatchItem
  · subst c2
    rw [normCustom_response'] at h ⊢
    split at h
    · rename_i op bid st rs msg acv pl me
      obtain ⟨hc, h⟩ := ite_eq_some h
      cases hpl : normK S n .iface T.responsePayload pl ver with
      | none => simp only [hpl] at h; contradiction
      | some p =>
      obtain ⟨pl', ver1⟩ := p
      simp only [hpl] at h
      cases hme : normK S n (.ptr (.struct (msgExtId S))) T.messageExtension me ver1 with
      | none => simp only [hme] at h; contradiction
      | some q =>
      simp only [if_pos hc, hK _ _ _ _ _ hpl, hK _ _ _ _ _ hme]
      simp only [hme] at h
      exact h
    · contradiction
  by_cases c5 : code = Cust.unknownPayload
  · subst c5
    rw [normCustom_unknown] at h ⊢
    exact h
  by_cases cu : isUnionCode code
  · rw [normCustom_union S _ code tag cu] at h ⊢
    split at h
    · rename_i fs
      cases hx : normSameTag S n (customFieldKinds S code) tag fs ver with
      | none => simp only [hx] at h; contradiction
      | some p =>
        simp only [hSm _ _ _ _ _ hx]
        simp only [hx] at h
        exact h
    · contradiction
  · exfalso
    rw [normCustom.eq_def] at h
    simp only [isUnionCode] at cu
    simp only [c1, c2, c5, cu, if_false] at h
    contradiction

theorem nall (S : Schema) (n : Nat) : NK S n ∧ NSlice S n ∧ NFields S n ∧ NCustom S n ∧ NSame S n := by
  induction n with
  | zero =>
    refine ⟨?_, ?_, ?_, ?_, ?_⟩
    · intro k tag v ver r h; rw [normK_zero] at h; contradiction
    · intro k tag xs ver r h; rw [normSlice_zero] at h; contradiction
    · intro fs vs ver r h; rw [normFields_zero] at h; contradiction
    · intro code tag v ver r h; rw [normCustom_zero] at h; contradiction
    · intro ks tag xs ver r h; rw [normSameTag_zero] at h; contradiction
  | succ n ih =>
    obtain ⟨hK, hSl, hF, hC, hSm⟩ := ih
    exact ⟨nk_succ S n hK hSl hF hC, nslice_succ S n hK hSl, nfields_succ S n hK hF,
      ncustom_succ S n hK hSm, nsame_succ S n hK hSm⟩

/-- the conformance walk succeeds with the same result under every larger fuel. -/
theorem normK_mono (S : Schema) {n m : Nat} (hnm : n ≤ m) {k : Kind} {tag : Nat} {v : Val}
    {ver : Option Ver} {r : Val × Option Ver} (h : normK S n k tag v ver = some r) :
    normK S m k tag v ver = some r := by
  induction hnm with
  | refl => exact h
  | step _ ih => exact (nall S _).1 _ _ _ _ _ ih

/-! ## 2. The encoder is monotone in its fuel -/

theorem Res.bindOkInv {α β : Type} {x : Res α} {f : α → Res β} {b : β}
    (h : (x >>= f) = .ok b) : ∃ a, x = .ok a ∧ f a = .ok b := by
  cases x with
  | ok a => exact ⟨a, rfl, h⟩
  | err e => simp only [Res.err_bind] at h; contradiction
  | panic m => simp only [Res.panic_bind] at h; contradiction

def EK (S : Schema) (n : Nat) : Prop :=
  ∀ k tag v ver r, encK S n k tag v ver = .ok r → encK S (n + 1) k tag v ver = .ok r
def ESlice (S : Schema) (n : Nat) : Prop :=
  ∀ k tag xs ver r, encSlice S n k tag xs ver = .ok r → encSlice S (n + 1) k tag xs ver = .ok r
def EFields (S : Schema) (n : Nat) : Prop :=
  ∀ fs vs ver r, encFields S n fs vs ver = .ok r → encFields S (n + 1) fs vs ver = .ok r
def ECustom (S : Schema) (n : Nat) : Prop :=
  ∀ code tag v ver r, encCustom S n code tag v ver = .ok r → encCustom S (n + 1) code tag v ver = .ok r
def ESame (S : Schema) (n : Nat) : Prop :=
  ∀ ks tag xs ver r, encSameTag S n ks tag xs ver = .ok r → encSameTag S (n + 1) ks tag xs ver = .ok r

theorem encK_zero (S : Schema) (k : Kind) (tag : Nat) (v : Val) (ver : Option Ver) :
    encK S 0 k tag v ver = .err .other := by rw [encK]
theorem encSlice_zero (S : Schema) (k : Kind) (tag : Nat) (xs : List Val) (ver : Option Ver) :
    encSlice S 0 k tag xs ver = .err .other := by rw [encSlice]
theorem encSameTag_zero (S : Schema) (ks : List Kind) (tag : Nat) (xs : List Val) (ver : Option Ver) :
    encSameTag S 0 ks tag xs ver = .err .other := by rw [encSameTag]
theorem encSameTag_cons_nil (S : Schema) (n tag : Nat) (k : Kind) (ks : List Kind) (ver : Option Ver) :
    encSameTag S (n + 1) (k :: ks) tag [] ver = .ok ([], ver) := by simp [encSameTag]
theorem encFields_cons_nil (S : Schema) (n : Nat) (f : Field) (fs : List Field) (ver : Option Ver) :
    encFields S (n + 1) (f :: fs) [] ver = .err .other := by simp [encFields]

theorem ek_succ (S : Schema) (n : Nat) (hK : EK S n) (hSl : ESlice S n) (hF : EFields S n)
    (hC : ECustom S n) : EK S (n + 1) := by
  intro k tag v ver r h
  cases k with
  | ptr k' =>
    cases v with
    | ptr o =>
      cases o with
      | none => rw [encK_ptr_none] at h ⊢; exact h
      | some x => rw [encK_ptr_some] at h ⊢; exact hK _ _ _ _ _ h
    | _ => simp [encK] at h
  | slice k' =>
    cases v with
    | list xs => rw [encK_slice] at h ⊢; exact hSl _ _ _ _ _ h
    | _ => simp [encK] at h
  | iface =>
    cases v with
    | iface o =>
      cases o with
      | none => rw [encK_iface_none] at h ⊢; exact h
      | some p => obtain ⟨d, x⟩ := p; rw [encK_iface_some] at h ⊢; exact hK _ _ _ _ _ h
    | _ => simp [encK] at h
  | struct id =>
    cases v with
    | struct fs =>
      rw [encK_struct] at h ⊢
      by_cases hec : (S.structDef id).encCustom = true
      · simp only [hec, if_true] at h ⊢
        exact hC _ _ _ _ _ h
      · simp only [hec, Bool.false_eq_true, if_false] at h ⊢
        obtain ⟨a, ha, h⟩ := Res.bindOkInv h
        rw [hF _ _ _ _ ha]
        exact h
    | _ => simp [encK] at h
  | any =>
    cases v with
    | any o =>
      cases o with
      | none => simp [encK] at h
      | some it => rw [encK_any] at h ⊢; exact h
    | _ => simp [encK] at h
  | _ =>
    cases v <;> first
      | (simp only [encK] at h ⊢; first | contradiction | exact h)
      | (simp [encK] at h; done)

theorem eslice_succ (S : Schema) (n : Nat) (hK : EK S n) (hSl : ESlice S n) : ESlice S (n + 1) := by
  intro k tag xs ver r h
  cases xs with
  | nil => rw [encSlice_nil] at h ⊢; exact h
  | cons x xs =>
    rw [encSlice_cons] at h ⊢
    obtain ⟨⟨a, w1⟩, ha, h⟩ := Res.bindOkInv h
    obtain ⟨⟨b, w2⟩, hb, h⟩ := Res.bindOkInv h
    rw [hK _ _ _ _ _ ha]
    simp only [Res.ok_bind]
    rw [hSl _ _ _ _ _ hb]
    exact h

theorem efields_succ (S : Schema) (n : Nat) (hK : EK S n) (hF : EFields S n) : EFields S (n + 1) := by
  intro fs vs ver r h
  cases fs with
  | nil => rw [encFields_nil] at h ⊢; exact h
  | cons f fs =>
    cases vs with
    | nil => rw [encFields_cons_nil] at h; contradiction
    | cons v vs =>
      rw [encFields_cons] at h ⊢
      obtain ⟨⟨a, w1⟩, ha, h⟩ := Res.bindOkInv h
      obtain ⟨⟨b, w2⟩, hb, h⟩ := Res.bindOkInv h
      have ha' : (if f.skip v (f.ver1 v ver) = true then (.ok ([], f.ver1 v ver) : Res EncSt)
          else encK S (n + 1) f.kind (f.etag S v) v (f.ver1 v ver)) = .ok (a, w1) := by
        by_cases hs : f.skip v (f.ver1 v ver) = true
        · rw [if_pos hs] at ha ⊢; exact ha
        · rw [if_neg hs] at ha ⊢; exact hK _ _ _ _ _ ha
      rw [ha']
      simp only [Res.ok_bind]
      rw [hF _ _ _ _ hb]
      exact h

theorem esame_succ (S : Schema) (n : Nat) (hK : EK S n) (hSm : ESame S n) : ESame S (n + 1) := by
  intro ks tag xs ver r h
  cases ks with
  | nil => rw [encSameTag_nil] at h ⊢; exact h
  | cons k ks =>
    cases xs with
    | nil => rw [encSameTag_cons_nil] at h ⊢; exact h
    | cons x xs =>
      rw [encSameTag_cons] at h ⊢
      obtain ⟨⟨a, w1⟩, ha, h⟩ := Res.bindOkInv h
      obtain ⟨⟨b, w2⟩, hb, h⟩ := Res.bindOkInv h
      rw [hK _ _ _ _ _ ha]
      simp only [Res.ok_bind]
      rw [hSm _ _ _ _ _ hb]
      exact h

theorem ecustom_succ (S : Schema) (n : Nat) (hK : EK S n) (hSm : ESame S n) : ECustom S (n + 1) := by
  intro code tag v ver r h
  by_cases c1 : code = Cust.requestBatchItem
  · subst c1
    rw [encCustom_request] at h ⊢
    obtain ⟨⟨a, w1⟩, ha, h⟩ := Res.bindOkInv h
    obtain ⟨⟨b, w2⟩, hb, h⟩ := Res.bindOkInv h
    rw [hK _ _ _ _ _ ha]
    simp only [Res.ok_bind]
    rw [hK _ _ _ _ _ hb]
    exact h
  by_cases c2 : code = Cust.responseBatchItem
  · subst c2
    rw [encCustom_response] at h ⊢
    obtain ⟨⟨a, w1⟩, ha, h⟩ := Res.bindOkInv h
    obtain ⟨⟨b, w2⟩, hb, h⟩ := Res.bindOkInv h
    rw [hK _ _ _ _ _ ha]
    simp only [Res.ok_bind]
    rw [hK _ _ _ _ _ hb]
    exact h
  by_cases c5 : code = Cust.unknownPayload
  · subst c5
    rw [encCustom_unknown] at h ⊢
    exact h
  by_cases cu : isUnionCode code
  · rw [encCustom_union S _ code tag cu] at h ⊢
    cases v with
    | struct fs => exact hSm _ _ _ _ _ h
    | _ => contradiction
  · exfalso
    rw [encCustom.eq_def] at h
    simp only [isUnionCode] at cu
    simp only [c1, c2, c5, cu, if_false] at h
    contradiction

theorem eall (S : Schema) (n : Nat) : EK S n ∧ ESlice S n ∧ EFields S n ∧ ECustom S n ∧ ESame S n := by
  induction n with
  | zero =>
    refine ⟨?_, ?_, ?_, ?_, ?_⟩
    · intro k tag v ver r h; rw [encK_zero] at h; contradiction
    · intro k tag xs ver r h; rw [encSlice_zero] at h; contradiction
    · intro fs vs ver r h; rw [encFields_zero] at h; contradiction
    · intro code tag v ver r h; rw [encCustom_zero] at h; contradiction
    · intro ks tag xs ver r h; rw [encSameTag_zero] at h; contradiction
  | succ n ih =>
    obtain ⟨hK, hSl, hF, hC, hSm⟩ := ih
    exact ⟨ek_succ S n hK hSl hF hC, eslice_succ S n hK hSl, efields_succ S n hK hF,
      ecustom_succ S n hK hSm, esame_succ S n hK hSm⟩

/-- the encoder succeeds with the same items and version cell under every larger fuel. -/
theorem encK_mono (S : Schema) {n m : Nat} (hnm : n ≤ m) {k : Kind} {tag : Nat} {v : Val}
    {ver : Option Ver} {r : EncSt} (h : encK S n k tag v ver = .ok r) :
    encK S m k tag v ver = .ok r := by
  induction hnm with
  | refl => exact h
  | step _ ih => exact (eall S _).1 _ _ _ _ _ ih

/-! ## 3. Entry points with the fuel as a parameter -/

/-- `marshal` with the encoder's fuel as a parameter (`marshal = marshalWith marshalFuel`). -/
def marshalWith (S : Schema) (n d tag : Nat) (v : Val) : Res Bytes := do
  let dy := S.dyn d
  let tag := if tag = 0 then dy.defTag else tag
  let (items, _) ← encK S n dy.kind tag v none
  pure (encList items)

theorem marshal_eq_marshalWith (S : Schema) (d tag : Nat) (v : Val) :
    marshal S d tag v = marshalWith S marshalFuel d tag v := rfl

/-- `normTop` with the walk's fuel as a parameter. -/
def normTopAt (S : Schema) (n d tag : Nat) (v : Val) : Option (Val × Option Ver) :=
  let dk := (S.dyn d).kind
  if dynValOk dk v && S.dynOK (S.dyn d) then normK S n dk (topTag S d tag) v none else none

theorem normTop_eq_normTopAt (S : Schema) (d tag : Nat) (v : Val) :
    normTop S d tag v = normTopAt S marshalFuel d tag v := rfl

/-- `Conforms` with the fuel of the walk and of the encoder as a parameter. -/
structure ConformsAt (S : Schema) (n d tag : Nat) (v : Val) : Prop where
  wellFormed : (normTopAt S n d tag v).isSome = true
  inRange : ∀ items ver', encK S n (S.dyn d).kind (topTag S d tag) v none = .ok (items, ver') →
      Item.AllInRange items

theorem conforms_iff_conformsAt (S : Schema) (d tag : Nat) (v : Val) :
    Conforms S d tag v ↔ ConformsAt S marshalFuel d tag v :=
  ⟨fun h => ⟨h.1, h.2⟩, fun h => ⟨h.1, h.2⟩⟩

/-- a well-formed message value, no fuel anywhere: SOME fuel lets the (structurally recursive) walk
    reach every part of the value. -/
def WellFormedValue (S : Schema) (d tag : Nat) (v : Val) : Prop := ∃ n, ConformsAt S n d tag v

theorem normTopAt_mono (S : Schema) {n m : Nat} (hnm : n ≤ m) {d tag : Nat} {v : Val}
    {r : Val × Option Ver} (h : normTopAt S n d tag v = some r) : normTopAt S m d tag v = some r := by
  unfold normTopAt at h ⊢
  obtain ⟨hc, hn⟩ := ite_eq_some h
  rw [if_pos hc]
  exact normK_mono S hnm hn

theorem marshalWith_mono (S : Schema) {n m : Nat} (hnm : n ≤ m) {d tag : Nat} {v : Val} {bs : Bytes}
    (h : marshalWith S n d tag v = .ok bs) : marshalWith S m d tag v = .ok bs := by
  unfold marshalWith at h ⊢
  dsimp only at h ⊢
  obtain ⟨⟨items, w⟩, he, h⟩ := Res.bindOkInv h
  rw [encK_mono S hnm he]
  exact h

/-- the round trip at the level of `marshalWith` / `unmarshalWith`, for EVERY encoder fuel and any
    sufficient decoder fuel (`roundtrip_core` is the instance `n = marshalFuel`). -/
theorem roundtrip_core_at (S : Schema) (hU : S.unambiguous = true) (n d tag : Nat) (v v' : Val)
    (w : Option Ver) (hwf : normTopAt S n d tag v = some (v', w))
    (hir : ∀ items ver', encK S n (S.dyn d).kind (topTag S d tag) v none = .ok (items, ver') →
      Item.AllInRange items) :
    ∃ items, encK S n (S.dyn d).kind (topTag S d tag) v none = .ok (items, w)
      ∧ marshalWith S n d tag v = .ok (encList items)
      ∧ marshalWith S n d tag v' = .ok (encList items)
      ∧ normTopAt S n d tag v' = some (v', w)
      ∧ ∀ fuel, v.depth ≤ fuel → unmarshalFuel S fuel d tag (encList items) = .ok v' := by
  unfold normTopAt at hwf
  obtain ⟨hc, hn⟩ := ite_eq_some hwf
  simp only [Bool.and_eq_true] at hc
  obtain ⟨hok, hdyn⟩ := hc
  obtain ⟨items, he, he', hn', ht, hl, _, hd⟩ :=
    (pall S hU n).k (S.dyn d).kind (topTag S d tag) v none v' w hn
  have hr := hir items w he
  have hone := dynValOk_emitsOne hok
  have hm : ∀ x, encK S n (S.dyn d).kind (topTag S d tag) x none = .ok (items, w) →
      marshalWith S n d tag x = .ok (encList items) := by
    intro x hx
    unfold marshalWith
    simp only [topTag] at hx
    simp only [hx, Res.ok_bind, Res.pure_eq]
  refine ⟨items, he, hm v he, hm v' he', ?_, ?_⟩
  · unfold normTopAt
    simp only [dynValOk_norm hok hn, hdyn, Bool.and_self, if_true, hn']
  · intro fuel hf
    unfold unmarshalFuel unmarshalWith
    rw [Cur.start_encList items hr]
    simp only [Res.ok_bind]
    have htt : (if tag = 0 then (S.dyn d).defTag else tag) = topTag S d tag := rfl
    rw [htt]
    simp only [Schema.dynOK, Bool.and_eq_true] at hdyn
    cases hk : (S.dyn d).kind with
    | ptr k' =>
      rw [hk] at hd hok hn hdyn hone
      obtain ⟨y, rfl⟩ := dynValOk_ptr hok
      have hdk := hd hdyn.2 hr (fuel + 1) [] (by omega) (Or.inl hone)
      obtain ⟨it, rfl⟩ := list_len1 (hl (by rw [hk]; exact hone))
      have hit : it.tag = topTag S d tag := ht it (List.mem_singleton.2 rfl)
      have hct : (Cur.of ([it].map Item.raw ++ [])).tag = topTag S d tag := by
        rw [Cur.tag_of, htag_single, hit]
      simp only [decK, hct, ne_eq, not_true_eq_false, if_false] at hdk
      obtain ⟨m, hmf⟩ := normK_succ_of_some hn
      rw [hmf, normK_ptr] at hn
      simp only at hn
      obtain ⟨_, hn⟩ := ite_eq_some hn
      cases hy : normK S m k' (topTag S d tag) y none with
      | none => simp only [hy] at hn; contradiction
      | some p =>
        obtain ⟨y', w'⟩ := p
        simp only [hy] at hn
        obtain ⟨rfl, rfl⟩ := pair_eq (Option.some.inj hn)
        have := Res.bind_ptr_inv hdk
        simp only [List.append_nil] at this
        simp only [this, Res.ok_bind, Res.pure_eq]
    | _ =>
      rw [hk] at hd hok hn hdyn hone
      have hdk := hd hdyn.2 hr fuel [] hf (Or.inl hone)
      simp only [List.append_nil] at hdk
      simp only [hdk, Res.ok_bind, Res.pure_eq]

/-- conformance at some fuel is conformance at every larger fuel (with the same encoder output). -/
theorem ConformsAt.mono {S : Schema} (hU : S.unambiguous = true) {n m d tag : Nat} {v : Val}
    (h : ConformsAt S n d tag v) (hnm : n ≤ m) : ConformsAt S m d tag v := by
  obtain ⟨hwf, hir⟩ := h
  cases hn : normTopAt S n d tag v with
  | none => rw [hn] at hwf; contradiction
  | some p =>
    obtain ⟨v', w⟩ := p
    obtain ⟨items, he, _⟩ := roundtrip_core_at S hU n d tag v v' w hn hir
    refine ⟨by rw [normTopAt_mono S hnm hn]; rfl, ?_⟩
    intro items' ver' he'
    rw [encK_mono S hnm he] at he'
    simp only [Res.ok.injEq, Prod.mk.injEq] at he'
    rw [← he'.1]
    exact hir items w he

/-- the contents of the normalised value, at every fuel. -/
theorem normTopAt_content (S : Schema) (n d tag : Nat) (v v' : Val) (w : Option Ver)
    (h : normTopAt S n d tag v = some (v', w)) : ContentEq v v' := by
  unfold normTopAt at h
  obtain ⟨_, hn⟩ := ite_eq_some h
  exact (call S n).1 _ _ _ _ _ _ hn

end Kmip
