/-
  Helper lemmas about `KmipModel.Model.Middleware`. Core Lean only.
-/
import KmipModel.Model.Middleware
namespace Kmip.Mw

@[simp] theorem St.log_trace (s : St) (e : Event) : (s.log e).trace = s.trace ++ [e] := rfl
@[simp] theorem St.log_calls (s : St) (e : Event) : (s.log e).calls = s.calls := rfl

theorem doCall_fst (next : Next) (id : Nat) (m : Msg) (c : Nat) (s : St) :
    (doCall next id m c s).1 = (next m c (s.log (.call id m c))).1 := rfl

theorem doCall_snd (next : Next) (id : Nat) (m : Msg) (c : Nat) (s : St) :
    (doCall next id m c s).2
      = (next m c (s.log (.call id m c))).2.log (.back id (next m c (s.log (.call id m c))).1) := rfl

theorem runStage_fst (next : Next) (st : Stage) (m : Msg) (c : Nat) (s : St) :
    (runStage next st m c s).1
      = (runActs next st.id st.body m c R.nil (s.log (.enter st.id m c))).1 := rfl

theorem runStage_snd (next : Next) (st : Stage) (m : Msg) (c : Nat) (s : St) :
    (runStage next st m c s).2
      = (runActs next st.id st.body m c R.nil (s.log (.enter st.id m c))).2.log
          (.exit st.id (runStage next st m c s).1) := rfl

/-! ### the code's `nextFrom(i)` is nested composition of the stages from `i` on -/

theorem nextFrom_eq_specNext_aux (chain : List Stage) (core : Next) :
    ∀ (n i : Nat), chain.length - i = n → nextFrom chain core i = specNext core (chain.drop i) := by
  intro n
  induction n with
  | zero =>
    intro i h
    have hi : chain.length ≤ i := by omega
    funext m c s
    rw [nextFrom, dif_neg (by omega), List.drop_of_length_le hi]
    rfl
  | succ n ih =>
    intro i h
    have hi : i < chain.length := by omega
    funext m c s
    rw [nextFrom, dif_pos hi, ih (i + 1) (by omega), List.drop_eq_getElem_cons hi]
    rfl

theorem nextFrom_eq_specNext (chain : List Stage) (core : Next) (i : Nat) :
    nextFrom chain core i = specNext core (chain.drop i) :=
  nextFrom_eq_specNext_aux chain core _ i rfl

/-! ### traces are well nested -/

/-- a continuation whose only effect on the trace is to append one complete well-nested execution
    of the stages `ids` + core, which received what the continuation was given and returned what the
    continuation returns. -/
def NextWN (cs : Msg → Nat → R → List Event → Prop) (ids : List Nat) (next : Next) : Prop :=
  ∀ m c s, ∃ tr, (next m c s).2.trace = s.trace ++ tr ∧ WN cs ids m c (next m c s).1 tr

theorem coreRun_NextWN (k : Kind) (core : Core) (h : Nat) :
    NextWN (CoreSem k) [] (coreRun k core h) := by
  intro m c s
  by_cases hr : routed k m.op = true
  · refine ⟨[.core s.calls (handlerOf k m.op) m c h (core.outcome s.calls m.tok)], ?_, ?_⟩
    · simp [coreRun, hr]
    · refine WN.core _ _ _ _ (Or.inl ⟨hr, s.calls, h, core.outcome s.calls m.tok, rfl, ?_⟩)
      simp [coreRun, hr]
  · refine ⟨[], ?_, ?_⟩
    · simp [coreRun, hr]
    · refine WN.core _ _ _ _ (Or.inr ⟨by simpa using hr, rfl, ?_⟩)
      simp [coreRun, hr]

theorem doCall_trace {cs : Msg → Nat → R → List Event → Prop} {ids : List Nat} {next : Next}
    (hn : NextWN cs ids next) (id : Nat) (m : Msg) (c : Nat) (s : St) :
    ∃ tr, WN cs ids m c (doCall next id m c s).1 tr ∧
      (doCall next id m c s).2.trace
        = s.trace ++ (.call id m c :: tr ++ [.back id (doCall next id m c s).1]) := by
  obtain ⟨tr, htr, hwn⟩ := hn m c (s.log (.call id m c))
  refine ⟨tr, hwn, ?_⟩
  rw [doCall_snd, St.log_trace, htr, St.log_trace, doCall_fst]
  simp [List.append_assoc]

theorem runActs_trace {cs : Msg → Nat → R → List Event → Prop} {ids : List Nat} {next : Next}
    (hn : NextWN cs ids next) (id : Nat) :
    ∀ (as : List Act) (m : Msg) (c : Nat) (last : R) (s : St),
    ∃ parts : List (Msg × Nat × R × List Event),
      (∀ p ∈ parts, WN cs ids p.1 p.2.1 p.2.2.1 p.2.2.2) ∧
      (runActs next id as m c last s).2.trace = s.trace ++ segsOf id parts := by
  intro as
  induction as with
  | nil => intro m c last s; exact ⟨[], by simp, by simp [runActs, segsOf]⟩
  | cons a as ih =>
    intro m c last s
    have hcall : ∃ parts : List (Msg × Nat × R × List Event),
        (∀ p ∈ parts, WN cs ids p.1 p.2.1 p.2.2.1 p.2.2.2) ∧
        (runActs next id as m c (doCall next id m c s).1 (doCall next id m c s).2).2.trace
          = s.trace ++ segsOf id parts := by
      obtain ⟨tr, hwn, htr⟩ := doCall_trace hn id m c s
      obtain ⟨parts, hp, ht⟩ := ih m c (doCall next id m c s).1 (doCall next id m c s).2
      refine ⟨(m, c, (doCall next id m c s).1, tr) :: parts, ?_, ?_⟩
      · intro p hp'
        rcases List.mem_cons.mp hp' with rfl | h
        · exact hwn
        · exact hp p h
      · rw [ht, htr]
        simp [segsOf, List.append_assoc]
    cases a with
    | setMsg t => simpa [runActs] using ih { m with tok := t.app m.tok } c last s
    | setOp o => simpa [runActs] using ih { m with op := o } c last s
    | setCtx t => simpa [runActs] using ih m (t.app c) last s
    | call => simpa [runActs] using hcall
    | callIfFail =>
      by_cases hf : last.isFail = true
      · simpa [runActs, hf] using hcall
      · simpa [runActs, hf] using ih m c last s
    | ret rt => exact ⟨[], by simp, by simp [runActs, segsOf]⟩
    | retIfFail rt =>
      by_cases hf : last.isFail = true
      · exact ⟨[], by simp, by simp [runActs, hf, segsOf]⟩
      · simpa [runActs, hf] using ih m c last s
    | retIfOk rt =>
      by_cases hf : last.isFail = true
      · simpa [runActs, hf] using ih m c last s
      · exact ⟨[], by simp, by simp [runActs, hf, segsOf]⟩

theorem runStage_NextWN {cs : Msg → Nat → R → List Event → Prop} {ids : List Nat} {next : Next}
    (hn : NextWN cs ids next) (st : Stage) : NextWN cs (st.id :: ids) (runStage next st) := by
  intro m c s
  obtain ⟨parts, hp, ht⟩ := runActs_trace hn st.id st.body m c R.nil (s.log (.enter st.id m c))
  refine ⟨.enter st.id m c :: segsOf st.id parts ++ [.exit st.id (runStage next st m c s).1], ?_, ?_⟩
  · rw [runStage_snd, St.log_trace, ht, St.log_trace]
    simp [List.append_assoc]
  · exact WN.stage st.id ids m c _ parts hp

theorem specNext_NextWN (k : Kind) (core : Core) (h : Nat) :
    ∀ chain : List Stage,
      NextWN (CoreSem k) (chain.map Stage.id) (specNext (coreRun k core h) chain) := by
  intro chain
  induction chain with
  | nil => exact coreRun_NextWN k core h
  | cons st rest ih => exact runStage_NextWN ih st

/-! ### call counts of straight-line chains -/

/-- a continuation that invokes a handler exactly `p` times when given a message requesting
    operation `op`. -/
def NextCount (op p : Nat) (next : Next) : Prop :=
  ∀ m c s, m.op = op → (next m c s).2.calls = s.calls + p ∧
    coreEvents (next m c s).2.trace = coreEvents s.trace + p

theorem coreEvents_append (a b : List Event) : coreEvents (a ++ b) = coreEvents a + coreEvents b := by
  simp [coreEvents, List.countP_append]

theorem coreRun_NextCount (k : Kind) (core : Core) (h op : Nat) (hr : routed k op = true) :
    NextCount op 1 (coreRun k core h) := by
  intro m c s hm
  have hr' : routed k m.op = true := by rw [hm]; exact hr
  constructor
  · simp [coreRun, hr']
  · simp [coreRun, hr', coreEvents, Event.isCore]

theorem doCall_count {op p : Nat} {next : Next} (hn : NextCount op p next) (id : Nat) (m : Msg)
    (c : Nat) (s : St) (hm : m.op = op) :
    (doCall next id m c s).2.calls = s.calls + p ∧
      coreEvents (doCall next id m c s).2.trace = coreEvents s.trace + p := by
  obtain ⟨h1, h2⟩ := hn m c (s.log (.call id m c)) hm
  rw [St.log_calls] at h1
  rw [St.log_trace, coreEvents_append] at h2
  constructor
  · rw [doCall_snd, St.log_calls, h1]
  · rw [doCall_snd, St.log_trace, coreEvents_append, h2]
    simp [coreEvents, Event.isCore]

theorem runActs_count {op p : Nat} {next : Next} (hn : NextCount op p next) (id : Nat) :
    ∀ (as : List Act), (∀ a ∈ as, a.straight = true) →
      ∀ (m : Msg) (c : Nat) (last : R) (s : St), m.op = op →
      (runActs next id as m c last s).2.calls = s.calls + callsBefore as * p ∧
      coreEvents (runActs next id as m c last s).2.trace
        = coreEvents s.trace + callsBefore as * p := by
  intro as
  induction as with
  | nil => intro _ m c last s _; simp [runActs, callsBefore]
  | cons a as ih =>
    intro hs m c last s hm
    have hs' : ∀ a ∈ as, a.straight = true := fun a h => hs a (List.mem_cons_of_mem _ h)
    cases a with
    | setMsg t => simpa [runActs, callsBefore] using ih hs' { m with tok := t.app m.tok } c last s hm
    | setCtx t => simpa [runActs, callsBefore] using ih hs' m (t.app c) last s hm
    | call =>
      obtain ⟨h1, h2⟩ := doCall_count hn id m c s hm
      obtain ⟨i1, i2⟩ := ih hs' m c (doCall next id m c s).1 (doCall next id m c s).2 hm
      simp only [runActs, callsBefore, i1, i2, h1, h2, Nat.add_mul, Nat.one_mul]
      omega
    | ret rt => simp [runActs, callsBefore]
    | setOp o => exact absurd (hs _ (List.mem_cons_self ..)) (by simp [Act.straight])
    | callIfFail => exact absurd (hs _ (List.mem_cons_self ..)) (by simp [Act.straight])
    | retIfFail rt => exact absurd (hs _ (List.mem_cons_self ..)) (by simp [Act.straight])
    | retIfOk rt => exact absurd (hs _ (List.mem_cons_self ..)) (by simp [Act.straight])

theorem runStage_NextCount {op p : Nat} {next : Next} (hn : NextCount op p next) (st : Stage)
    (hs : st.Straight) : NextCount op (st.mult * p) (runStage next st) := by
  intro m c s hm
  obtain ⟨h1, h2⟩ := runActs_count hn st.id st.body hs m c R.nil (s.log (.enter st.id m c)) hm
  rw [St.log_calls] at h1
  rw [St.log_trace, coreEvents_append] at h2
  constructor
  · rw [runStage_snd, St.log_calls, h1, Stage.mult]
  · rw [runStage_snd, St.log_trace, coreEvents_append, h2, Stage.mult]
    simp [coreEvents, Event.isCore]

theorem specNext_NextCount (k : Kind) (core : Core) (h op : Nat) (hr : routed k op = true) :
    ∀ chain : List Stage, (∀ st ∈ chain, st.Straight) →
      NextCount op (prodL (chain.map Stage.mult)) (specNext (coreRun k core h) chain) := by
  intro chain
  induction chain with
  | nil => intro _; exact coreRun_NextCount k core h op hr
  | cons st rest ih =>
    intro hs
    exact runStage_NextCount (ih fun st h => hs st (List.mem_cons_of_mem _ h)) st
      (hs st (List.mem_cons_self ..))

/-! ### pipelines: every stage receives what its predecessor passed on -/

theorem enters_append (a b : List Event) : enters (a ++ b) = enters a ++ enters b := by
  induction a with
  | nil => rfl
  | cons e a ih => cases e <;> simp [enters, ih]

theorem coreInputs_append (a b : List Event) :
    coreInputs (a ++ b) = coreInputs a ++ coreInputs b := by
  induction a with
  | nil => rfl
  | cons e a ih => cases e <;> simp [coreInputs, ih]

theorem runStage_pipe (next : Next) (p : Nat × Tr × Nat × Tr) (m : Msg) (c : Nat) (s : St) :
    (runStage next (pipeStage p) m c s).2
      = ((next (pipeMsg p m) (p.2.2.2.app c)
            ((s.log (.enter p.1 m c)).log (.call p.1 (pipeMsg p m) (p.2.2.2.app c)))).2.log
          (.back p.1 (runStage next (pipeStage p) m c s).1)).log
          (.exit p.1 (runStage next (pipeStage p) m c s).1) := rfl

theorem specNext_pipe (k : Kind) (core : Core) (h : Nat) :
    ∀ (ps : List (Nat × Tr × Nat × Tr)) (m : Msg) (c : Nat) (s : St),
      enters (specNext (coreRun k core h) (ps.map pipeStage) m c s).2.trace
        = enters s.trace ++ pipeEnters ps m c ∧
      coreInputs (specNext (coreRun k core h) (ps.map pipeStage) m c s).2.trace
        = coreInputs s.trace ++ pipeCore k (pipeOut ps m c) := by
  intro ps
  induction ps with
  | nil =>
    intro m c s
    by_cases hr : routed k m.op = true
    · simp [specNext, coreRun, hr, enters_append, coreInputs_append, enters, coreInputs, pipeEnters,
        pipeOut, pipeCore]
    · simp [specNext, coreRun, hr, pipeEnters, pipeOut, pipeCore]
  | cons p ps ih =>
    intro m c s
    obtain ⟨h1, h2⟩ := ih (pipeMsg p m) (p.2.2.2.app c)
      ((s.log (.enter p.1 m c)).log (.call p.1 (pipeMsg p m) (p.2.2.2.app c)))
    simp only [List.map_cons, specNext]
    rw [runStage_pipe]
    simp only [St.log_trace, enters_append, coreInputs_append, h1, h2]
    simp [enters, coreInputs, pipeEnters, pipeOut]

end Kmip.Mw
