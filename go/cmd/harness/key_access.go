package main

// Accessor totality part of the `key` engine: every accessor of objects.go / payloads/get.go applied to
// enumerated (hand-built and transported) objects, outcome class compared with the Lean model
// (`key.access`), a panic reported as a C14 violation.

import (
	"crypto"
	"crypto/ecdsa"
	"crypto/rsa"
	"fmt"
	"math/big"
	"strings"
	"time"

	kmip "github.com/ovh/kmip-go"
	"github.com/ovh/kmip-go/payloads"

	"verifharness/internal/report"
)

func keyErrCls(err error) string {
	if err != nil {
		return "err"
	}
	return "ok"
}

func keyDynCls(k any, err error) string {
	if err != nil {
		return "err"
	}
	switch k.(type) {
	case *rsa.PrivateKey, *rsa.PublicKey:
		return "ok rsa"
	case *ecdsa.PrivateKey, *ecdsa.PublicKey:
		return "ok ecdsa"
	}
	return "ok other"
}

func keyKbOf(o kmip.Object) *kmip.KeyBlock {
	switch v := o.(type) {
	case *kmip.SecretData:
		return &v.KeyBlock
	case *kmip.SymmetricKey:
		return &v.KeyBlock
	case *kmip.PublicKey:
		return &v.KeyBlock
	case *kmip.PrivateKey:
		return &v.KeyBlock
	case *kmip.SplitKey:
		return &v.KeyBlock
	case *kmip.PGPKey:
		return &v.KeyBlock
	}
	return nil
}

type keyAcc struct {
	name  string
	kinds string // space separated object kinds the accessor applies to; "*" = any payload
	pem   bool   // re-marshals the key through the standard library (outcome on invalid numbers is not modelled)
	call  func(pl *payloads.GetResponsePayload) string
}

var keyAccs = []keyAcc{
	{"kb.material", "sd sk pu pr sp pg", false, func(pl *payloads.GetResponsePayload) string {
		_, err := keyKbOf(pl.Object).GetMaterial()
		return keyErrCls(err)
	}},
	{"kb.bytes", "sd sk pu pr sp pg", false, func(pl *payloads.GetResponsePayload) string {
		_, err := keyKbOf(pl.Object).GetBytes()
		return keyErrCls(err)
	}},
	{"kb.attrs", "sd sk pu pr sp pg", false, func(pl *payloads.GetResponsePayload) string {
		return fmt.Sprintf("ok %d", len(keyKbOf(pl.Object).GetAttributes()))
	}},
	{"secret.data", "sd", false, func(pl *payloads.GetResponsePayload) string {
		_, err := pl.Object.(*kmip.SecretData).Data()
		return keyErrCls(err)
	}},
	{"sym.material", "sk", false, func(pl *payloads.GetResponsePayload) string {
		_, err := pl.Object.(*kmip.SymmetricKey).KeyMaterial()
		return keyErrCls(err)
	}},
	{"pub.rsa", "pu", false, func(pl *payloads.GetResponsePayload) string {
		k, err := pl.Object.(*kmip.PublicKey).RSA()
		return keyDynCls(k, err)
	}},
	{"pub.ecdsa", "pu", false, func(pl *payloads.GetResponsePayload) string {
		k, err := pl.Object.(*kmip.PublicKey).ECDSA()
		return keyDynCls(k, err)
	}},
	{"pub.crypto", "pu", false, func(pl *payloads.GetResponsePayload) string {
		k, err := pl.Object.(*kmip.PublicKey).CryptoPublicKey()
		return keyDynCls(k, err)
	}},
	{"pub.pem", "pu", true, func(pl *payloads.GetResponsePayload) string {
		_, err := pl.Object.(*kmip.PublicKey).PkixPem()
		return keyErrCls(err)
	}},
	{"priv.rsa", "pr", false, func(pl *payloads.GetResponsePayload) string {
		k, err := pl.Object.(*kmip.PrivateKey).RSA()
		return keyDynCls(k, err)
	}},
	{"priv.ecdsa", "pr", false, func(pl *payloads.GetResponsePayload) string {
		k, err := pl.Object.(*kmip.PrivateKey).ECDSA()
		return keyDynCls(k, err)
	}},
	{"priv.crypto", "pr", false, func(pl *payloads.GetResponsePayload) string {
		k, err := pl.Object.(*kmip.PrivateKey).CryptoPrivateKey()
		return keyDynCls(k, err)
	}},
	{"priv.pem", "pr", true, func(pl *payloads.GetResponsePayload) string {
		_, err := pl.Object.(*kmip.PrivateKey).Pkcs8Pem()
		return keyErrCls(err)
	}},
	{"cert.x509", "ce", false, func(pl *payloads.GetResponsePayload) string {
		_, err := pl.Object.(*kmip.Certificate).X509Certificate()
		return keyErrCls(err)
	}},
	{"cert.pem", "ce", false, func(pl *payloads.GetResponsePayload) string {
		_, err := pl.Object.(*kmip.Certificate).PemCertificate()
		return keyErrCls(err)
	}},
	{"get.secret", "*", false, func(pl *payloads.GetResponsePayload) string { _, err := pl.Secret(); return keyErrCls(err) }},
	{"get.secretstring", "*", false, func(pl *payloads.GetResponsePayload) string { _, err := pl.SecretString(); return keyErrCls(err) }},
	{"get.sym", "*", false, func(pl *payloads.GetResponsePayload) string { _, err := pl.SymmetricKey(); return keyErrCls(err) }},
	{"get.x509", "*", false, func(pl *payloads.GetResponsePayload) string { _, err := pl.X509Certificate(); return keyErrCls(err) }},
	{"get.pemcert", "*", false, func(pl *payloads.GetResponsePayload) string { _, err := pl.PemCertificate(); return keyErrCls(err) }},
	{"get.rsapriv", "*", false, func(pl *payloads.GetResponsePayload) string { k, err := pl.RsaPrivateKey(); return keyDynCls(k, err) }},
	{"get.ecdsapriv", "*", false, func(pl *payloads.GetResponsePayload) string { k, err := pl.EcdsaPrivateKey(); return keyDynCls(k, err) }},
	{"get.priv", "*", false, func(pl *payloads.GetResponsePayload) string {
		var k crypto.PrivateKey
		k, err := pl.PrivateKey()
		return keyDynCls(k, err)
	}},
	{"get.pempriv", "*", true, func(pl *payloads.GetResponsePayload) string { _, err := pl.PemPrivateKey(); return keyErrCls(err) }},
	{"get.rsapub", "*", false, func(pl *payloads.GetResponsePayload) string { k, err := pl.RsaPublicKey(); return keyDynCls(k, err) }},
	{"get.ecdsapub", "*", false, func(pl *payloads.GetResponsePayload) string { k, err := pl.EcdsaPublicKey(); return keyDynCls(k, err) }},
	{"get.pub", "*", false, func(pl *payloads.GetResponsePayload) string {
		var k crypto.PublicKey
		k, err := pl.PublicKey()
		return keyDynCls(k, err)
	}},
	{"get.pempub", "*", true, func(pl *payloads.GetResponsePayload) string { _, err := pl.PemPublicKey(); return keyErrCls(err) }},
}

func (a *keyAcc) applies(kind string) bool {
	if a.kinds == "*" {
		return true
	}
	for _, k := range strings.Fields(a.kinds) {
		if k == kind {
			return true
		}
	}
	return false
}

// keyAccessCase applies every applicable accessor to the payload. `pemModel`: the PEM helpers are compared with
// the model too (otherwise only the no-panic oracle applies to them).
func keyAccessCase(env *keyEnv, pl *payloads.GetResponsePayload, pemModel bool, origin string, only string) {
	ctx := env.ctx
	o := keyObjFromGo(pl.Object)
	if o == nil {
		ctx.Res.Fail(fmt.Sprintf("key: cannot abstract an object of type %T", pl.Object))
		return
	}
	obj := o.render(env.blobs)
	natural := uint32(pl.ObjectType) == o.naturalType()
	for i := range keyAccs {
		a := &keyAccs[i]
		if only != "" && a.name != only {
			continue
		}
		if !a.applies(o.kind) || (a.kinds != "*" && !natural && only == "") {
			continue
		}
		line := fmt.Sprintf("key.access %s %d %s", a.name, uint32(pl.ObjectType), obj)
		if a.pem && !pemModel {
			line = "#" + line
		}
		key := line + "|" + origin
		if env.seen[key] {
			continue
		}
		env.seen[key] = true
		ctx.current = line
		out, p := guard(a.name, func() string { return a.call(pl) })
		if p != "" {
			out = "panic " + panicKey(p)
			ctx.Res.Violate(report.Violation{Property: "C14", Oracle: "accessor-no-panic", Key: "key:accessor-panic:" + a.name,
				Detail: fmt.Sprintf("accessor %s panicked on a %s object (%s): %s", a.name, origin, obj, p), Line: line})
		}
		ctx.Add(line, out, true, "C14")
		ctx.Res.Count("access." + origin + "." + strings.SplitN(out, " ", 2)[0])
	}
}

// keyTransportPayload sends a Get response through an encoding at a version; ok=false when the payload is not
// encodable / not decodable (then it is not a "decodable object").
func keyTransportPayload(enc keyEnc, ver kmip.ProtocolVersion, pl *payloads.GetResponsePayload) (*payloads.GetResponsePayload, bool) {
	out, _, ok := keyTransportPayloadDoc(enc, ver, pl)
	return out, ok
}

// keyTransportPayloadDoc also returns the buffer the response was decoded from.
func keyTransportPayloadDoc(enc keyEnc, ver kmip.ProtocolVersion, pl *payloads.GetResponsePayload) (*payloads.GetResponsePayload, []byte, bool) {
	msg := &kmip.ResponseMessage{
		Header: kmip.ResponseHeader{ProtocolVersion: ver, TimeStamp: time.Unix(1700000000, 0), BatchCount: 1},
		BatchItem: []kmip.ResponseBatchItem{{Operation: kmip.OperationGet, ResultStatus: kmip.ResultStatusSuccess,
			ResponsePayload: pl}},
	}
	doc, p := guard("marshal", func() []byte { return enc.marshal(msg) })
	if p != "" {
		return nil, nil, false
	}
	back := new(kmip.ResponseMessage)
	err, p := guard("unmarshal", func() error { return enc.unmarshal(doc, back) })
	if p != "" || err != nil || len(back.BatchItem) != 1 {
		return nil, doc, false
	}
	out, ok := back.BatchItem[0].ResponsePayload.(*payloads.GetResponsePayload)
	return out, doc, ok && out != nil
}

type keyGenShape struct {
	o        *keyShObj
	pemModel bool
}

func keyBp(b []byte) *[]byte { return &b }

// keyGenShapes enumerates the objects of the accessor-totality part.
func keyGenShapes(env *keyEnv) []keyGenShape {
	var out []keyGenShape
	bl := env.blobs
	rk := env.shapeRSA
	formats := []uint32{}
	for f := uint32(0); f <= 22; f++ {
		formats = append(formats, f)
	}
	formats = append(formats, 99)
	add := func(o *keyShObj, pem bool) { out = append(out, keyGenShape{o, pem}) }
	validRsaPriv := func() *keyShRsaPriv {
		return &keyShRsaPriv{n: rk.N, d: rk.D, e: big.NewInt(int64(rk.E)), p: rk.Primes[0], q: rk.Primes[1], dp: rk.Precomputed.Dp, dq: rk.Precomputed.Dq, qi: rk.Precomputed.Qinv}
	}
	ecD := func(code uint32) *big.Int { return big.NewInt(int64(1000 + code)) }
	defBytes := func(kind string) []byte {
		switch kind {
		case "pr":
			return bl.byName["pkcs1priv"]
		case "pu":
			return bl.byName["pkixrsa"]
		}
		return []byte{1, 2, 3, 4}
	}
	material := func(kind string, mask int) *keyShMaterial {
		m := &keyShMaterial{}
		if mask&1 != 0 {
			m.bytes = keyBp(defBytes(kind))
		}
		if mask&2 != 0 {
			m.sym = keyBp([]byte{9, 8, 7, 6, 5, 4, 3, 2})
		}
		if mask&4 != 0 {
			m.rsaPriv = validRsaPriv()
		}
		if mask&8 != 0 {
			m.rsaPub = &keyShRsaPub{n: rk.N, e: big.NewInt(int64(rk.E))}
		}
		if mask&16 != 0 {
			m.ecdsaPriv = &keyShEcPriv{curve: 7, d: ecD(7)}
		}
		if mask&32 != 0 {
			m.ecdsaPub = &keyShEcPub{curve: 7, q: bl.byName["u7"]}
		}
		if mask&64 != 0 {
			m.ecPriv = &keyShEcPriv{curve: 10, d: ecD(10)}
		}
		if mask&128 != 0 {
			m.ecPub = &keyShEcPub{curve: 10, q: bl.byName["u10"]}
		}
		return m
	}
	kinds := []string{"pr", "pu", "sk", "sd", "sp", "pg"}
	// A: no key material at all
	for _, kind := range kinds {
		for _, f := range formats {
			for _, kv := range []string{"n", "-", "w"} {
				o := &keyShObj{kind: kind, ty: 1, kb: keyShKeyBlock{format: f, hasKV: kv != "n", wrapped: kv == "w"}}
				add(o, true)
			}
		}
	}
	// B: every format against subsets of the material slots
	for _, kind := range []string{"pr", "pu"} {
		for _, f := range formats {
			var masks []int
			if env.ctx.Thor {
				for m := 0; m < 256; m++ {
					masks = append(masks, m)
				}
			} else {
				masks = []int{0, 255}
				for b := 0; b < 8; b++ {
					masks = append(masks, 1<<b, 255&^(1<<b))
				}
			}
			for i, m := range masks {
				attrs := 0
				if i%2 == 1 {
					attrs = 2
				}
				add(&keyShObj{kind: kind, kb: keyShKeyBlock{format: f, hasKV: true, wrapped: i%7 == 3, plain: material(kind, m), attrs: attrs}}, true)
			}
		}
	}
	for _, kind := range []string{"sk", "sd", "sp", "pg"} {
		for _, f := range []uint32{1, 2, 3, 7, 10, 20, 99} {
			for _, m := range []int{0, 1, 2, 3, 255} {
				add(&keyShObj{kind: kind, ty: 1, kb: keyShKeyBlock{format: f, hasKV: true, plain: material(kind, m), attrs: 1}}, true)
			}
		}
	}
	// C: contents of the slot the format selects
	garbage := [][]byte{{0xDE, 0xAD, 0xBE, 0xEF}, {}, {0x30, 0x00}}
	blobNames := []string{"pkcs1priv", "pkcs1pub", "pkcs8rsa", "pkcs8ec", "pkcs8ed", "sec1", "pkixrsa", "pkixec", "pkixed", "cert"}
	for _, kind := range []string{"pr", "pu"} {
		for _, f := range []uint32{1, 2, 3, 4, 5, 6} {
			var contents [][]byte
			for _, n := range blobNames {
				contents = append(contents, bl.byName[n])
			}
			contents = append(contents, garbage...)
			for _, c := range contents {
				add(&keyShObj{kind: kind, kb: keyShKeyBlock{format: f, hasKV: true, plain: &keyShMaterial{bytes: keyBp(c)}}}, true)
			}
		}
	}
	for _, c := range append([][]byte{{1, 2, 3}}, garbage...) {
		for _, f := range []uint32{1, 2, 7} {
			add(&keyShObj{kind: "sk", kb: keyShKeyBlock{format: f, hasKV: true, plain: &keyShMaterial{bytes: keyBp(c), sym: keyBp(c)}}}, true)
			add(&keyShObj{kind: "sd", ty: 1, kb: keyShKeyBlock{format: f, hasKV: true, plain: &keyShMaterial{bytes: keyBp(c)}}}, true)
		}
	}
	// transparent RSA private key: every subset of the optional big integers
	for mask := 0; mask < 128; mask++ {
		t := validRsaPriv()
		ptrs := []**big.Int{&t.d, &t.e, &t.p, &t.q, &t.dp, &t.dq, &t.qi}
		for b, p := range ptrs {
			if mask&(1<<b) != 0 {
				*p = nil
			}
		}
		add(&keyShObj{kind: "pr", kb: keyShKeyBlock{format: 10, hasKV: true, plain: &keyShMaterial{rsaPriv: t}}}, true)
	}
	two63 := new(big.Int).Lsh(keyBigOne, 63)
	b := big.NewInt
	for _, e := range []*big.Int{two63, new(big.Int).Sub(two63, keyBigOne), new(big.Int).Neg(two63), new(big.Int).Sub(new(big.Int).Neg(two63), keyBigOne), b(0), b(-3), new(big.Int).Lsh(keyBigOne, 200)} {
		t := validRsaPriv()
		t.e = e
		add(&keyShObj{kind: "pr", kb: keyShKeyBlock{format: 10, hasKV: true, plain: &keyShMaterial{rsaPriv: t}}}, false)
		add(&keyShObj{kind: "pu", kb: keyShKeyBlock{format: 11, hasKV: true, plain: &keyShMaterial{rsaPub: &keyShRsaPub{n: rk.N, e: e}}}}, false)
	}
	for _, g := range []*keyShRsaPriv{
		{n: b(0), d: b(0), e: b(0), p: b(0), q: b(0)},
		{n: b(35), d: b(5), e: b(5), p: b(5), q: b(7)},
		{n: b(35), d: b(5), e: b(5), p: b(1), q: b(1), dp: b(0), dq: b(0), qi: b(0)},
		{n: b(-35), d: b(-5), e: b(-5), p: b(-1), q: b(0), dp: b(-1), dq: b(-1), qi: b(-1)},
		{n: rk.N, d: rk.D, e: b(int64(rk.E)), p: rk.Primes[1], q: rk.Primes[0], dp: rk.Precomputed.Dp, dq: rk.Precomputed.Dq, qi: rk.Precomputed.Qinv},
		{n: rk.N, d: b(1), e: b(int64(rk.E)), p: rk.Primes[0], q: rk.Primes[1]},
	} {
		add(&keyShObj{kind: "pr", kb: keyShKeyBlock{format: 10, hasKV: true, plain: &keyShMaterial{rsaPriv: g}}}, false)
	}
	add(&keyShObj{kind: "pu", kb: keyShKeyBlock{format: 11, hasKV: true, plain: &keyShMaterial{rsaPub: &keyShRsaPub{n: rk.N, e: b(int64(rk.E))}}}}, true)
	add(&keyShObj{kind: "pu", kb: keyShKeyBlock{format: 11, hasKV: true, plain: &keyShMaterial{rsaPub: &keyShRsaPub{n: b(0), e: b(0)}}}}, false)
	add(&keyShObj{kind: "pu", kb: keyShKeyBlock{format: 11, hasKV: true, plain: &keyShMaterial{rsaPub: &keyShRsaPub{n: b(-7), e: b(-1)}}}}, false)
	// transparent EC keys
	curves := []uint32{4, 7, 10, 13, 0, 1, 99}
	for _, f := range []uint32{14, 20} {
		for _, c := range curves {
			var order *big.Int
			bytesLen := 32
			for _, ci := range keyCurves {
				if ci.code == c {
					order = ci.curve.Params().N
					bytesLen = (order.BitLen() + 7) / 8
				}
			}
			over := new(big.Int).Lsh(keyBigOne, uint(8*bytesLen))
			type dv struct {
				d   *big.Int
				pem bool
			}
			ds := []dv{{ecD(c), true}, {b(0), true}, {b(-5), true}, {over, true}, {new(big.Int).Add(over, b(12345)), true},
				{new(big.Int).Neg(over), true}, {new(big.Int).Sub(over, keyBigOne), true}}
			if order != nil {
				ds = append(ds, dv{order, true}, dv{new(big.Int).Sub(order, keyBigOne), true}, dv{new(big.Int).Add(order, keyBigOne), true}, dv{keyBigOne, true})
			}
			for _, d := range ds {
				t := &keyShEcPriv{curve: c, d: d.d}
				m := &keyShMaterial{}
				if f == 14 {
					m.ecdsaPriv = t
				} else {
					m.ecPriv = t
				}
				add(&keyShObj{kind: "pr", kb: keyShKeyBlock{format: f, hasKV: true, plain: m}}, d.pem)
			}
		}
	}
	for _, f := range []uint32{15, 21} {
		for _, c := range curves {
			other := uint32(7)
			if c == 7 {
				other = 10
			}
			qs := [][]byte{bl.byName[fmt.Sprintf("u%d", c)], bl.byName[fmt.Sprintf("u%d", other)], bl.byName[fmt.Sprintf("c%d", c)], bl.byName[fmt.Sprintf("c%d", other)], {0xDE, 0xAD}, {}, {4}}
			for _, q := range qs {
				if q == nil {
					continue
				}
				for _, comp := range []uint32{0, 1, 2, 3, 4, 9} {
					t := &keyShEcPub{curve: c, q: q}
					m := &keyShMaterial{}
					if f == 15 {
						m.ecdsaPub = t
					} else {
						m.ecPub = t
					}
					add(&keyShObj{kind: "pu", kb: keyShKeyBlock{format: f, comp: comp, hasKV: true, plain: m}}, true)
				}
			}
		}
	}
	for _, ty := range []uint32{1, 2, 0} {
		for _, c := range append([][]byte{bl.byName["cert"], bl.byName["pkixrsa"]}, garbage...) {
			add(&keyShObj{kind: "ce", ty: ty, cert: c}, true)
		}
	}
	add(&keyShObj{kind: "op"}, true)
	add(&keyShObj{kind: "te"}, true)
	add(&keyShObj{kind: "nil"}, true)
	return out
}

func keyRunAccessPart(env *keyEnv) {
	shapes := keyGenShapes(env)
	for _, gs := range shapes {
		o := gs.o
		nat := o.naturalType()
		otypes := []uint32{nat}
		if o.kind == "nil" {
			otypes = []uint32{0, 1, 2, 3, 4, 5, 6, 7, 8, 9, 99}
		} else {
			otypes = append(otypes, nat%9+1)
			if o.kb.plain == nil {
				otypes = append(otypes, 0)
			}
			if o.kind == "pu" {
				otypes = append(otypes, 4)
			}
			if o.kind == "pr" {
				otypes = append(otypes, 3)
			}
		}
		for _, ot := range otypes {
			pl := &payloads.GetResponsePayload{ObjectType: kmip.ObjectType(ot), UniqueIdentifier: "id", Object: o.toGo()}
			keyAccessCase(env, pl, gs.pemModel, "raw", "")
		}
		if o.kind == "nil" {
			continue
		}
		for _, enc := range keyEncs {
			vers := []kmip.ProtocolVersion{kmip.V1_4}
			if enc.name == "ttlv" || env.ctx.Thor {
				vers = append(vers, kmip.V1_0)
			}
			for _, v := range vers {
				pl := &payloads.GetResponsePayload{ObjectType: kmip.ObjectType(nat), UniqueIdentifier: "id", Object: o.toGo()}
				back, ok := keyTransportPayload(enc, v, pl)
				if !ok {
					env.ctx.Res.Count("access.undecodable." + enc.name)
					continue
				}
				keyAccessCase(env, back, gs.pemModel, enc.name, "")
			}
		}
	}
}
