// Package model drives the compiled Lean model (`kmip-model`) through its line protocol.
package model

import (
	"bufio"
	"bytes"
	"fmt"
	"os"
	"os/exec"
	"strings"
)

// Path returns the model executable path (env VERIF_MODEL or the default build location).
func Path() string {
	if p := os.Getenv("VERIF_MODEL"); p != "" {
		return p
	}
	return "/verif/lean/.lake/build/bin/kmip-model"
}

// Run sends all lines to a fresh model process and returns one answer per line.
func Run(lines []string) ([]string, error) {
	for i, l := range lines {
		if strings.ContainsAny(l, "\n\r") {
			return nil, fmt.Errorf("line %d contains a newline", i)
		}
	}
	cmd := exec.Command(Path())
	cmd.Stdin = strings.NewReader(strings.Join(lines, "\n") + "\n")
	var out bytes.Buffer
	cmd.Stdout = &out
	cmd.Stderr = os.Stderr
	if err := cmd.Run(); err != nil {
		return nil, fmt.Errorf("model process failed: %w", err)
	}
	res := make([]string, 0, len(lines))
	sc := bufio.NewScanner(&out)
	sc.Buffer(make([]byte, 1<<20), 1<<28)
	for sc.Scan() {
		res = append(res, sc.Text())
	}
	if len(res) != len(lines) {
		return nil, fmt.Errorf("model answered %d lines for %d requests", len(res), len(lines))
	}
	return res, nil
}
