package main

import (
	"bytes"
	"fmt"
	"math/big"
	"reflect"
	"sort"
	"strings"

	kmip "github.com/ovh/kmip-go"
	"github.com/ovh/kmip-go/payloads"
	"github.com/ovh/kmip-go/ttlv"

	"verifharness/internal/model"
	"verifharness/internal/report"
	"verifharness/internal/rng"
	"verifharness/internal/schema"
	"verifharness/internal/tree"
)

func treeGenSmall(r *rng.R) *tree.Item {
	return tree.Gen(r, tree.GenOpts{MaxDepth: 2, MaxChildren: 3, MaxData: 12, MaxBigBits: 100}, 1)
}

// Impl-side oracle of C06 (no model involved): walk a DECODED message and check that every payload, object and
// attribute value has the type registered for its operation / object type / attribute name, that the payload
// reports the operation of its batch item and the object the object type that accompanies it.

var (
	tReqItem  = reflect.TypeFor[kmip.RequestBatchItem]()
	tRespItem = reflect.TypeFor[kmip.ResponseBatchItem]()
	tAttr     = reflect.TypeFor[kmip.Attribute]()
	tObject   = reflect.TypeFor[kmip.Object]()
	tObjType  = reflect.TypeFor[kmip.ObjectType]()
)

func c06Violate(ctx *Ctx, line, key, detail string) {
	ctx.Res.Violate(report.Violation{Property: "C06", Oracle: "registered-type", Key: "c06:" + key, Detail: detail, Line: line})
}

func registeredAttrType(name kmip.AttributeName) (reflect.Type, bool) {
	if name.IsCustom() {
		return nil, false
	}
	for _, a := range kmip.VerifDumpAttrTypes() {
		if a.Name == name {
			return a.Type, true
		}
	}
	return nil, false
}

func c06CheckPayload(ctx *Ctx, line string, op kmip.Operation, pl kmip.OperationPayload, response bool) {
	if pl == nil || reflect.ValueOf(pl).IsNil() {
		return
	}
	if got := pl.Operation(); got != op {
		c06Violate(ctx, line, "payload-reports-other-operation", fmt.Sprintf("batch item operation 0x%X carries a %T reporting operation 0x%X", uint32(op), pl, uint32(got)))
	}
	var want reflect.Type
	for _, o := range kmip.VerifDumpOperations() {
		if o.Operation == op {
			want = reflect.PointerTo(o.Request)
			if response {
				want = reflect.PointerTo(o.Response)
			}
		}
	}
	if want == nil {
		want = reflect.TypeFor[*kmip.UnknownPayload]()
	}
	if reflect.TypeOf(pl) != want {
		c06Violate(ctx, line, "payload-type", fmt.Sprintf("operation 0x%X decoded as %T, registered type is %s", uint32(op), pl, want))
	}
}

// c06Walk visits every struct reachable from v.
func c06Walk(ctx *Ctx, line string, v reflect.Value, depth int) {
	if depth > 40 {
		return
	}
	switch v.Kind() {
	case reflect.Pointer, reflect.Interface:
		if !v.IsNil() {
			c06Walk(ctx, line, v.Elem(), depth+1)
		}
	case reflect.Slice:
		if v.Type().Elem().Kind() == reflect.Uint8 {
			return
		}
		for i := 0; i < v.Len(); i++ {
			c06Walk(ctx, line, v.Index(i), depth+1)
		}
	case reflect.Struct:
		switch v.Type() {
		case tReqItem:
			bi := v.Interface().(kmip.RequestBatchItem)
			c06CheckPayload(ctx, line, bi.Operation, bi.RequestPayload, false)
		case tRespItem:
			bi := v.Interface().(kmip.ResponseBatchItem)
			c06CheckPayload(ctx, line, bi.Operation, bi.ResponsePayload, true)
		case tAttr:
			a := v.Interface().(kmip.Attribute)
			if a.AttributeValue != nil {
				if want, ok := registeredAttrType(a.AttributeName); ok {
					if reflect.TypeOf(a.AttributeValue) != want {
						c06Violate(ctx, line, "attribute-value-type", fmt.Sprintf("attribute %q decoded as %T, specified type is %s", a.AttributeName, a.AttributeValue, want))
					}
				} else if _, isVal := a.AttributeValue.(ttlv.Value); !isVal {
					c06Violate(ctx, line, "unknown-attribute-not-opaque", fmt.Sprintf("attribute %q (custom/unknown) decoded as %T instead of an opaque ttlv.Value", a.AttributeName, a.AttributeValue))
				}
			} else {
				c06Violate(ctx, line, "attribute-value-dropped", fmt.Sprintf("attribute %q decoded without its value", a.AttributeName))
			}
		}
		// Import request: the object's type is the one named by the FIRST "Object Type" attribute holding an ObjectType
		if imp, ok := addrOf(v).(*payloads.ImportRequestPayload); ok && imp.Object != nil {
			found := false
			for _, a := range imp.Attribute {
				if a.AttributeName != kmip.AttributeNameObjectType {
					continue
				}
				if want, ok := a.AttributeValue.(kmip.ObjectType); ok {
					found = true
					if imp.Object.ObjectType() != want {
						c06Violate(ctx, line, "import-object-type-mismatch", fmt.Sprintf("Import request: first Object Type attribute says 0x%X, object decoded as %T", uint32(want), imp.Object))
					}
					if reg, err := kmip.NewObjectForType(want); err == nil && reflect.TypeOf(reg) != reflect.TypeOf(imp.Object) {
						c06Violate(ctx, line, "import-object-go-type", fmt.Sprintf("Import request: object type 0x%X decoded as %T, registered %T", uint32(want), imp.Object, reg))
					}
					break
				}
			}
			if !found {
				c06Violate(ctx, line, "import-object-without-type", fmt.Sprintf("Import request decoded an object (%T) although no Object Type attribute names its type", imp.Object))
			}
		}
		// a struct holding an Object next to an ObjectType: they must agree
		var ot *kmip.ObjectType
		var obj kmip.Object
		for i := 0; i < v.NumField(); i++ {
			f := v.Field(i)
			if !v.Type().Field(i).IsExported() {
				continue
			}
			if f.Type() == tObjType {
				x := f.Interface().(kmip.ObjectType)
				ot = &x
			}
			if f.Type() == tObject && !f.IsNil() {
				obj = f.Interface().(kmip.Object)
			}
		}
		if ot != nil && obj != nil {
			if obj.ObjectType() != *ot {
				c06Violate(ctx, line, "object-type-mismatch", fmt.Sprintf("object type field 0x%X accompanies a %T", uint32(*ot), obj))
			}
			if want, err := kmip.NewObjectForType(*ot); err == nil && reflect.TypeOf(want) != reflect.TypeOf(obj) {
				c06Violate(ctx, line, "object-go-type", fmt.Sprintf("object type 0x%X decoded as %T, registered %T", uint32(*ot), obj, want))
			}
		}
		for i := 0; i < v.NumField(); i++ {
			if v.Type().Field(i).IsExported() {
				c06Walk(ctx, line, v.Field(i), depth+1)
			}
		}
	}
}

// c06Adversarial: messages whose dispatch information is inconsistent or unknown; the decoder must return an
// error or a value that passes c06Walk — never a value of a wrong type.
func c06Adversarial(ctx *Ctx, r *rng.R) {
	s := getSchema()
	respT := planTarget{s.Roots["ResponseMessage"], reflect.TypeFor[*kmip.ResponseMessage](), 0}
	reqT := planTarget{s.Roots["RequestMessage"], reflect.TypeFor[*kmip.RequestMessage](), 0}
	p := &popCfg{r: r, s: s, fill: 1, respectGating: true}
	mkResp := func(op kmip.Operation, pl kmip.OperationPayload) *kmip.ResponseMessage {
		return &kmip.ResponseMessage{Header: kmip.ResponseHeader{ProtocolVersion: kmip.V1_4, BatchCount: 1},
			BatchItem: []kmip.ResponseBatchItem{{Operation: op, ResponsePayload: pl}}}
	}
	mkReq := func(op kmip.Operation, pl kmip.OperationPayload) *kmip.RequestMessage {
		return &kmip.RequestMessage{Header: kmip.RequestHeader{ProtocolVersion: kmip.V1_4, BatchCount: 1},
			BatchItem: []kmip.RequestBatchItem{{Operation: op, RequestPayload: pl}}}
	}
	run := func(tg planTarget, msg any) {
		b, pn := guard("MarshalTTLV", func() []byte { return ttlv.MarshalTTLV(msg) })
		if pn != "" {
			return
		}
		line := fmt.Sprintf("plan.dec %d 0 %s", tg.dyn, hexUp(b))
		impl, back := unmarshalInto(s, tg, append([]byte{}, b...))
		ctx.Add(line, impl, true, "C06,C02")
		if back != nil {
			c06Walk(ctx, line, reflect.ValueOf(back), 0)
		}
		ctx.Res.Count("c06.adversarial." + impl[:2])
	}
	n := ctx.N(60, 1500)
	for i := 0; i < n; i++ {
		otA, objA := p.genObject()
		otB, objB := p.genObject()
		_ = objA
		// Export / Get responses and Register requests whose object does not match the object type field
		run(respT, mkResp(kmip.OperationExport, &payloads.ExportResponsePayload{ObjectType: otA, UniqueIdentifier: "id",
			Attribute: []kmip.Attribute{{AttributeName: kmip.AttributeNameObjectType, AttributeValue: otB}}, Object: objB}))
		run(respT, mkResp(kmip.OperationGet, &payloads.GetResponsePayload{ObjectType: otA, UniqueIdentifier: "id", Object: objB}))
		run(reqT, mkReq(kmip.OperationRegister, &payloads.RegisterRequestPayload{ObjectType: otA, Object: objB}))
		// unregistered object type values
		bad := kmip.ObjectType(10 + r.Intn(20))
		run(respT, mkResp(kmip.OperationGet, &payloads.GetResponsePayload{ObjectType: bad, UniqueIdentifier: "id", Object: objB}))
		run(respT, mkResp(kmip.OperationExport, &payloads.ExportResponsePayload{ObjectType: bad, UniqueIdentifier: "id", Object: objB}))
		// a payload of one operation under the operation code of another, and under unknown codes
		ops := s.Ops
		a, b := ops[r.Intn(len(ops))], ops[r.Intn(len(ops))]
		pl := kmip.VerifNewResponsePayload(kmip.Operation(a.Op))
		p.populate(reflect.ValueOf(pl).Elem())
		run(respT, mkResp(kmip.Operation(b.Op), pl))
		run(respT, mkResp(kmip.Operation(0x30+r.Intn(16)), pl))
		// attribute names that are neither standard nor x-/y- prefixed, with values of every TTLV type
		for _, nm := range []string{"Short Unique Identifier", "Protection Level", "vendor.acme.tier", "X-Upper", "cryptographic length", "Object  Type", ""} {
			av := toValue(treeGenSmall(r))
			av.Tag = kmip.TagAttributeValue
			att := kmip.Attribute{AttributeName: kmip.AttributeName(nm), AttributeValue: av}
			run(reqT, mkReq(kmip.OperationAddAttribute, &payloads.AddAttributeRequestPayload{UniqueIdentifier: "id", Attribute: att}))
		}
	}
}

func addrOf(v reflect.Value) any {
	if v.CanAddr() {
		return v.Addr().Interface()
	}
	return nil
}

// ---------------------------------------------------------------------------------------------------------
// The `dispatch` engine: directed dispatch inputs of C06 through the THREE encodings, the pinned attribute
// specification (Pinned/AttrSpec.lean, served by the model: single source), opaque re-encoding.

type attrSpecRow struct {
	name string
	ty   int // TTLV type code of the value
	ref  int // tag of the structure / enumeration / mask, 0 for plain types
}

func loadAttrSpec() ([]attrSpecRow, error) {
	ans, err := model.Run([]string{"c06.attrspec"})
	if err != nil {
		return nil, err
	}
	f := strings.Fields(ans[0])
	if len(f) < 2 || f[0] != "ok" {
		return nil, fmt.Errorf("c06.attrspec: unexpected answer %q", ans[0])
	}
	var rows []attrSpecRow
	for _, tok := range f[1:] {
		p := strings.Split(tok, ":")
		if len(p) != 3 {
			return nil, fmt.Errorf("c06.attrspec: bad row %q", tok)
		}
		n, ok := new(big.Int).SetString(p[0], 10)
		if !ok {
			return nil, fmt.Errorf("c06.attrspec: bad name in %q", tok)
		}
		b := n.Bytes() // leading 1, then the name
		if len(b) < 1 || b[0] != 1 {
			return nil, fmt.Errorf("c06.attrspec: bad packed name in %q", tok)
		}
		var ty, ref int
		if _, err := fmt.Sscanf(p[1]+" "+p[2], "%d %d", &ty, &ref); err != nil {
			return nil, fmt.Errorf("c06.attrspec: bad row %q", tok)
		}
		rows = append(rows, attrSpecRow{string(b[1:]), ty, ref})
	}
	return rows, nil
}

var ttlvKindOfCode = map[int]tree.Kind{1: tree.KStruct, 2: tree.KInt, 3: tree.KLong, 4: tree.KBig, 5: tree.KEnum, 6: tree.KBool, 7: tree.KText, 8: tree.KBytes, 9: tree.KDate, 10: tree.KInterval}

// scalarSample: an attribute value item of the given TTLV type (under the Attribute Value tag).
func scalarSample(ty, ref int) *tree.Item {
	it := &tree.Item{Tag: kmip.TagAttributeValue, Kind: ttlvKindOfCode[ty]}
	switch ty {
	case 2:
		it.Int = 12
	case 3:
		it.Int = 1 << 40
	case 4:
		it.Big = big.NewInt(1234567)
	case 5:
		it.Int = 1
		if ref != 0 {
			best := int64(-1)
			for v := range ttlv.EnumValuesByTag(ref) {
				if best < 0 || int64(v) < best {
					best = int64(v)
				}
			}
			if best >= 0 {
				it.Int = best
			}
		}
	case 6:
		it.Bool = true
	case 7:
		it.Data = []byte("abc")
	case 8:
		it.Data = []byte{1, 2, 3}
	case 9:
		it.Int = 1700000000
	case 10:
		it.Int = 60
	}
	return it
}

func attrTree(name string, value *tree.Item) *tree.Item {
	return &tree.Item{Tag: kmip.TagAttribute, Kind: tree.KStruct, Children: []*tree.Item{
		{Tag: kmip.TagAttributeName, Kind: tree.KText, Data: []byte(name)}, value}}
}

// encodings of a generic tree: binary by the independent writer; XML / JSON by the library's GENERIC value
// writer (ttlv.Value — no typed dispatch involved).
type encoded struct {
	codec string
	doc   []byte
}

func encodeTree(t *tree.Item) []encoded {
	out := []encoded{{"ttlv", t.Encode()}}
	for _, c := range textCodecs {
		doc, pn := guard("Marshal", func() []byte { return c.marshal(toValue(t)) })
		if pn == "" {
			out = append(out, encoded{c.name, doc})
		}
	}
	return out
}

func decodeInto(codec string, doc []byte, ptr any) (err error, panicked string) {
	switch codec {
	case "ttlv":
		return guard("UnmarshalTTLV", func() error { return ttlv.UnmarshalTTLV(append([]byte{}, doc...), ptr) })
	case "xml":
		return guard("UnmarshalXML", func() error { return ttlv.UnmarshalXML(doc, ptr) })
	default:
		return guard("UnmarshalJSON", func() error { return ttlv.UnmarshalJSON(doc, ptr) })
	}
}

func dispatchLine(codec string, dyn int, doc []byte) string {
	if codec == "ttlv" {
		return fmt.Sprintf("plan.dec %d 0 %s", dyn, hexUp(doc))
	}
	return fmt.Sprintf("#dispatch.dec %s %d %s", codec, dyn, hexUp(doc))
}

// attrSpecOracle: the value type registered for every standard attribute is the specified one.
func attrSpecOracle(ctx *Ctx, s *schema.Schema, r *rng.R) {
	spec, err := loadAttrSpec()
	if err != nil {
		ctx.Res.Fail("cannot read the pinned attribute specification from the model: " + err.Error())
		return
	}
	ctx.Res.Count(fmt.Sprintf("dispatch.attrspec-rows=%d", len(spec)))
	inSpec := map[string]bool{}
	for _, row := range spec {
		inSpec[row.name] = true
		line := "#c06.attrspec " + hexUp([]byte(row.name))
		ctx.current = line
		reg, ok := registeredAttrType(kmip.AttributeName(row.name))
		if !ok {
			c06Violate(ctx, line, "standard-attribute-not-registered:"+row.name, fmt.Sprintf("attribute %q of the specification has no registered value type: it decodes as an opaque value", row.name))
			continue
		}
		// which structure / enumeration / mask: the registered Go type's own tag
		if row.ref != 0 {
			if tg, ok := ttlv.VerifTagForType(reg); !ok || tg != row.ref {
				c06Violate(ctx, line, "attribute-spec-type:"+row.name, fmt.Sprintf("attribute %q is registered as %s (tag 0x%06X), the specification says 0x%06X", row.name, reg, tg, row.ref))
			}
		}
		// samples: of the specified type (must be accepted, and must come back with that type) and, for plain
		// types, of every other plain type (must be rejected: never a value of a wrong type)
		type sample struct {
			it   *tree.Item
			good bool
		}
		var samples []sample
		if row.ty == 1 {
			// a structure: a populated value of the registered type, encoded by the library, must BE a structure
			p := &popCfg{r: r, s: s, fill: 2, respectGating: true, textMode: 2, extTags: true}
			val := reflect.New(reg).Elem()
			p.populate(val)
			b, pn := guard("MarshalTTLV", func() []byte {
				return ttlv.MarshalTTLV(&kmip.Attribute{AttributeName: kmip.AttributeName(row.name), AttributeValue: val.Interface()})
			})
			if pn == "" {
				if t, err := tree.Decode(b); err == nil && len(t.Children) >= 2 {
					samples = append(samples, sample{t.Children[len(t.Children)-1], true})
				}
			}
			samples = append(samples, sample{scalarSample(7, 0), false}, sample{scalarSample(2, 0), false})
		} else {
			samples = append(samples, sample{scalarSample(row.ty, row.ref), true})
			for _, other := range []int{2, 3, 5, 6, 7, 8, 9, 10, 1, 4} {
				if other == row.ty {
					continue
				}
				o := scalarSample(other, 0)
				if other == 1 {
					o = &tree.Item{Tag: kmip.TagAttributeValue, Kind: tree.KStruct}
				}
				samples = append(samples, sample{o, false})
			}
		}
		for _, sm := range samples {
			at := attrTree(row.name, sm.it)
			for _, e := range encodeTree(at) {
				dl := fmt.Sprintf("#c06.attrdec %s %s", e.codec, hexUp(e.doc))
				var a kmip.Attribute
				derr, pn := decodeInto(e.codec, e.doc, &a)
				if pn != "" {
					ctx.Res.Count("dispatch.attrspec.panic") // C02's business
					continue
				}
				ctx.Add(dl, map[bool]string{true: "err", false: "ok"}[derr != nil], true, "")
				if sm.good {
					if derr != nil {
						c06Violate(ctx, dl, "attribute-spec-value-rejected:"+row.name, fmt.Sprintf("attribute %q with a value of its specified TTLV type %d is rejected (%s): %v", row.name, row.ty, e.codec, derr))
						continue
					}
					if reflect.TypeOf(a.AttributeValue) != reg {
						c06Violate(ctx, dl, "attribute-value-type", fmt.Sprintf("attribute %q decoded as %T, registered %s", row.name, a.AttributeValue, reg))
					}
					back, pn := guard("MarshalTTLV", func() []byte { return ttlv.MarshalTTLV(&a) })
					if pn == "" {
						if bt, err := tree.Decode(back); err == nil && len(bt.Children) >= 2 {
							if got := bt.Children[len(bt.Children)-1].Kind; got != ttlvKindOfCode[row.ty] {
								c06Violate(ctx, dl, "attribute-spec-wire-type:"+row.name, fmt.Sprintf("attribute %q re-encodes with TTLV kind %v, specified type code %d", row.name, got, row.ty))
							}
						}
					}
					ctx.Res.Count("dispatch.attrspec.accepted")
				} else {
					if derr == nil {
						c06Violate(ctx, dl, "attribute-wrong-type-accepted:"+row.name, fmt.Sprintf("attribute %q (specified TTLV type %d) accepted a value of TTLV kind %v as %T (%s)", row.name, row.ty, sm.it.Kind, a.AttributeValue, e.codec))
					}
					ctx.Res.Count("dispatch.attrspec.rejected")
				}
			}
		}
	}
	for _, a := range kmip.VerifDumpAttrTypes() {
		if !inSpec[string(a.Name)] && !a.Name.IsCustom() {
			c06Violate(ctx, "#c06.attrspec "+hexUp([]byte(a.Name)), "registered-attribute-without-specification:"+string(a.Name), fmt.Sprintf("attribute %q is registered (%s) but has no row in the pinned specification table", a.Name, a.Type))
		}
	}
}

// typeTrail lists the dynamic Go type at every interface position of a message, in traversal order.
func typeTrail(v reflect.Value, out *[]string, depth int) {
	if depth > 40 {
		return
	}
	switch v.Kind() {
	case reflect.Interface:
		if v.IsNil() {
			*out = append(*out, "<nil>")
			return
		}
		*out = append(*out, v.Elem().Type().String())
		typeTrail(v.Elem(), out, depth+1)
	case reflect.Pointer:
		if !v.IsNil() {
			typeTrail(v.Elem(), out, depth+1)
		}
	case reflect.Slice:
		if v.Type().Elem().Kind() == reflect.Uint8 {
			return
		}
		for i := 0; i < v.Len(); i++ {
			typeTrail(v.Index(i), out, depth+1)
		}
	case reflect.Struct:
		if v.Type() == tValue || v.Type() == tTStruct || v.Type() == tTime || v.Type() == tBigInt {
			return
		}
		for i := 0; i < v.NumField(); i++ {
			if v.Type().Field(i).IsExported() {
				typeTrail(v.Field(i), out, depth+1)
			}
		}
	}
}

func opaqueKids() []*tree.Item {
	return []*tree.Item{
		{Tag: 0x540001, Kind: tree.KInt, Int: 7},
		{Tag: 0x540002, Kind: tree.KStruct, Children: []*tree.Item{{Tag: 0x540003, Kind: tree.KText, Data: []byte("opaque")}, {Tag: 0x540004, Kind: tree.KBool, Bool: true}}},
		{Tag: 0x540005, Kind: tree.KEnum, Int: 0x80000001},
		{Tag: 0x540006, Kind: tree.KBytes, Data: []byte{0xDE, 0xAD}},
	}
}

// opaqueKidsAll: opaque content of every TTLV type, with empty values and an empty structure.
func opaqueKidsAll() []*tree.Item {
	return append(opaqueKids(),
		&tree.Item{Tag: 0x540007, Kind: tree.KLong, Int: -(1 << 40)},
		&tree.Item{Tag: 0x540008, Kind: tree.KBig, Big: new(big.Int).Lsh(big.NewInt(-5), 70)},
		&tree.Item{Tag: 0x540009, Kind: tree.KDate, Int: 1700000000},
		&tree.Item{Tag: 0x54000A, Kind: tree.KInterval, Int: 3600},
		&tree.Item{Tag: 0x54000B, Kind: tree.KStruct},
		&tree.Item{Tag: 0x54000C, Kind: tree.KText},
		&tree.Item{Tag: 0x54000D, Kind: tree.KBytes},
		&tree.Item{Tag: 0x54000E, Kind: tree.KBool},
		// standard elements inside an opaque payload stay opaque too: no typed dispatch below an unknown operation
		// (the Name attribute here has a value that the typed decoder would reject)
		&tree.Item{Tag: kmip.TagUniqueIdentifier, Kind: tree.KText, Data: []byte("id")},
		&tree.Item{Tag: kmip.TagObjectType, Kind: tree.KEnum, Int: 2},
		&tree.Item{Tag: kmip.TagObjectType, Kind: tree.KEnum, Int: 0x3F},
		attrTree("Name", &tree.Item{Tag: kmip.TagAttributeValue, Kind: tree.KInt, Int: 5}),
		attrTree("Cryptographic Length", &tree.Item{Tag: kmip.TagAttributeValue, Kind: tree.KText, Data: []byte("long")}),
	)
}

func pvTree() *tree.Item {
	return &tree.Item{Tag: kmip.TagProtocolVersion, Kind: tree.KStruct, Children: []*tree.Item{
		{Tag: kmip.TagProtocolVersionMajor, Kind: tree.KInt, Int: 1}, {Tag: kmip.TagProtocolVersionMinor, Kind: tree.KInt, Int: 4}}}
}

func messageTree(response bool, op uint32, payload *tree.Item) *tree.Item {
	if !response {
		return &tree.Item{Tag: kmip.TagRequestMessage, Kind: tree.KStruct, Children: []*tree.Item{
			{Tag: kmip.TagRequestHeader, Kind: tree.KStruct, Children: []*tree.Item{pvTree(), {Tag: kmip.TagBatchCount, Kind: tree.KInt, Int: 1}}},
			{Tag: kmip.TagBatchItem, Kind: tree.KStruct, Children: []*tree.Item{{Tag: kmip.TagOperation, Kind: tree.KEnum, Int: int64(op)}, payload}}}}
	}
	return &tree.Item{Tag: kmip.TagResponseMessage, Kind: tree.KStruct, Children: []*tree.Item{
		{Tag: kmip.TagResponseHeader, Kind: tree.KStruct, Children: []*tree.Item{pvTree(), {Tag: kmip.TagTimeStamp, Kind: tree.KDate, Int: 1700000000}, {Tag: kmip.TagBatchCount, Kind: tree.KInt, Int: 1}}},
		{Tag: kmip.TagBatchItem, Kind: tree.KStruct, Children: []*tree.Item{{Tag: kmip.TagOperation, Kind: tree.KEnum, Int: int64(op)}, {Tag: kmip.TagResultStatus, Kind: tree.KEnum, Int: 0}, payload}}}}
}

type dispatchEnv struct {
	ctx        *Ctx
	s          *schema.Schema
	reqT, resT planTarget
	registered map[uint32]bool
	// set by runDepth (c06_depth.go): a note appended to the details of runTree's violations, the encodings to
	// evaluate (nil = all), the deepest generic position reached
	where       string
	keyExtra    string
	only        map[string]bool
	maxEnvelope int
}

// runTree decodes the three encodings of an independently built message tree. expect: "ok" (must be accepted),
// "err" (must be rejected), "" (either); opaque: the decoded value must re-encode to exactly the binary of the tree.
func (e *dispatchEnv) runTree(t *tree.Item, response bool, expect string, opaque bool, class string) {
	tg := e.reqT
	if response {
		tg = e.resT
	}
	bin := t.Encode()
	for _, enc := range encodeTree(t) {
		if e.only != nil && !e.only[enc.codec] {
			continue
		}
		line := dispatchLine(enc.codec, tg.dyn, enc.doc)
		e.ctx.current = line
		ptr := reflect.New(tg.ty.Elem())
		derr, pn := decodeInto(enc.codec, enc.doc, ptr.Interface())
		impl := "ok"
		switch {
		case pn != "":
			impl = "panic"
		case derr != nil:
			impl = "err"
		}
		if enc.codec == "ttlv" {
			r := impl
			if impl == "ok" {
				if str, err := e.s.Render(ptr, e.s.Dyns[tg.dyn].Kind); err == nil {
					r = "ok " + str
				}
			}
			e.ctx.Add(line, r, true, "C06,C02")
		} else {
			e.ctx.Add(line, impl, true, "")
		}
		e.ctx.Res.Count("dispatch." + class + "." + enc.codec + "." + impl)
		if impl == "panic" {
			if expect != "" {
				c06Violate(e.ctx, line, class+e.keyExtra+":decoder-panic", fmt.Sprintf("%s (%s): the decoder panicked (%s) where the property requires %s%s", class, enc.codec, pn, expect, e.where))
			}
			continue // otherwise C02's business (its engines decode the same classes)
		}
		if expect != "" && impl != expect {
			c06Violate(e.ctx, line, class+e.keyExtra+":expected-"+expect, fmt.Sprintf("%s (%s): decoder answered %s, the property requires %s (%v)%s", class, enc.codec, impl, expect, derr, e.where))
		}
		if impl != "ok" {
			continue
		}
		c06Walk(e.ctx, line, ptr, 0)
		if opaque {
			back, pn := guard("MarshalTTLV", func() []byte { return ttlv.MarshalTTLV(ptr.Interface()) })
			if pn != "" || !bytes.Equal(back, bin) {
				got := "panic"
				if bt, err := tree.Decode(back); err == nil {
					got = bt.Render()
				}
				c06Violate(e.ctx, line, class+e.keyExtra+":opaque-not-preserved", fmt.Sprintf("%s (%s): the decoded message does not re-encode to the original bytes: %s%s", class, enc.codec, firstDiff(t.Render(), got), e.where))
			}
		}
	}
}

// runValue: a message built from Go values, through the library's three writers.
func (e *dispatchEnv) runValue(msg any, response bool, class string) {
	tg := e.reqT
	if response {
		tg = e.resT
	}
	var want []string
	typeTrail(reflect.ValueOf(msg), &want, 0)
	encs := []encoded{}
	if b, pn := guard("MarshalTTLV", func() []byte { return ttlv.MarshalTTLV(msg) }); pn == "" {
		encs = append(encs, encoded{"ttlv", b})
	}
	for _, c := range textCodecs {
		if doc, pn := guard("Marshal", func() []byte { return c.marshal(msg) }); pn == "" {
			encs = append(encs, encoded{c.name, doc})
		}
	}
	for _, enc := range encs {
		line := dispatchLine(enc.codec, tg.dyn, enc.doc)
		e.ctx.current = line
		ptr := reflect.New(tg.ty.Elem())
		derr, pn := decodeInto(enc.codec, enc.doc, ptr.Interface())
		impl := "ok"
		switch {
		case pn != "":
			impl = "panic"
		case derr != nil:
			impl = "err"
		}
		if enc.codec == "ttlv" {
			r := impl
			if impl == "ok" {
				if str, err := e.s.Render(ptr, e.s.Dyns[tg.dyn].Kind); err == nil {
					r = "ok " + str
				}
			}
			e.ctx.Add(line, r, true, "C06,C02")
		} else {
			e.ctx.Add(line, impl, true, "")
		}
		e.ctx.Res.Count("dispatch." + class + "." + enc.codec + "." + impl)
		if impl != "ok" {
			if class == "item-context" {
				c06Violate(e.ctx, line, class+":expected-ok", fmt.Sprintf("%s (%s): a batch item with a well-formed payload of the registered type is not decoded (%s: %v %s)", class, enc.codec, impl, derr, pn))
			}
			continue
		}
		c06Walk(e.ctx, line, ptr, 0)
		if class == "conforming" || class == "item-context" {
			var got []string
			typeTrail(ptr, &got, 0)
			if strings.Join(got, ",") != strings.Join(want, ",") {
				c06Violate(e.ctx, line, "conforming:types-differ-after-decode", fmt.Sprintf("(%s) dynamic types of the decoded message differ from the original: %s", enc.codec, firstDiff(strings.Join(want, ","), strings.Join(got, ","))))
			}
		}
	}
}

func init() {
	register(&Engine{
		Name: "dispatch",
		Rule: "C06 through the three encodings (binary by the independent writer, XML/JSON by the library's generic value writer or, for typed messages, its typed writers): every operation code 0..0x40 and 0x7FFFFFFF, 0x80000000, 0xFFFFFFFF x request/response with an opaque payload (unregistered codes — the 16 named-but-unimplemented ones included — must decode to UnknownPayload reporting that code and re-encode to the identical bytes); Import requests without / with two different / with a late / with an ill-typed Object Type attribute; Get/Export/Register with mismatching and unregistered object types; unknown and custom attribute names with values of every TTLV type (opaque, identical re-encoding); every standard attribute name with a value of its SPECIFIED type (pinned table Pinned/AttrSpec.lean served by the model: must be accepted and come back with that type) and of every other plain type (must be rejected); populated messages restricted to text-representable content decoded from XML and JSON with the registered-type walk and a comparison of the dynamic types with the original; generic structures nested 1..64 deep at every generic position of the typed envelope (unknown payloads, vendor extensions, custom / unknown attributes down to the attributes of a key value, server information; directed positions x 64 depths and every position the populator reaches): accepted whenever the same message with a text value there is, identical re-encoding; operations and object types registered at run time through the public API in a child process (vendor and unused standard codes: opaque / error before, the registered type after, neighbours and built-ins unchanged, mixed batches); distinct = distinct line; nontrivial = all",
		Run:  runDispatch,
	})
}

func runDispatch(ctx *Ctx) {
	s := getSchema()
	r := ctx.R
	e := &dispatchEnv{ctx: ctx, s: s,
		reqT:       planTarget{s.Roots["RequestMessage"], reflect.TypeFor[*kmip.RequestMessage](), 0},
		resT:       planTarget{s.Roots["ResponseMessage"], reflect.TypeFor[*kmip.ResponseMessage](), 0},
		registered: map[uint32]bool{}}
	for _, o := range kmip.VerifDumpOperations() {
		e.registered[uint32(o.Operation)] = true
	}
	if len(ctx.Replay) > 0 {
		regLines := map[string]bool{}
		for _, l := range ctx.Replay {
			if strings.HasPrefix(l, "#c06.reg ") {
				regLines[l] = true
			}
		}
		if len(regLines) > 0 {
			runDispatchRegistered(ctx, regLines)
		}
		for _, l := range ctx.Replay {
			f := strings.SplitN(l, " ", 4)
			if len(f) == 4 && f[0] == "plan.dec" {
				if b, err := hexDecode(f[3]); err == nil {
					if t, err := tree.Decode(b); err == nil {
						e.runTree(t, f[1] == fmt.Sprint(e.resT.dyn), "", false, "replay")
					}
				}
			}
		}
		return
	}
	// ---- 1. the pinned attribute specification ----
	attrSpecOracle(ctx, s, r)

	// ---- 2. every small operation code and the boundary codes, both directions, opaque payload ----
	var ops []uint32
	for op := uint32(0); op <= 0x40; op++ {
		ops = append(ops, op)
	}
	ops = append(ops, 0x7FFFFFFF, 0x80000000, 0xFFFFFFFF)
	for _, op := range ops {
		for _, response := range []bool{false, true} {
			ptag := kmip.TagRequestPayload
			if response {
				ptag = kmip.TagResponsePayload
			}
			pl := &tree.Item{Tag: ptag, Kind: tree.KStruct, Children: opaqueKids()}
			switch {
			case e.registered[op]:
				// a registered operation with foreign content: error or a value of the registered type
				e.runTree(messageTree(response, op, pl), response, "", false, "registered-op-foreign-payload")
			case op == 0 && response:
				// Operation 0 in a response is "no operation": the payload cannot be attributed
				e.runTree(messageTree(response, op, pl), response, "", false, "response-op-zero")
			default:
				e.runTree(messageTree(response, op, pl), response, "ok", true, "unregistered-op")
			}
			// an EMPTY payload structure too
			if !e.registered[op] && !(op == 0 && response) {
				e.runTree(messageTree(response, op, &tree.Item{Tag: ptag, Kind: tree.KStruct}), response, "ok", true, "unregistered-op-empty")
			}
		}
	}

	// ---- 3. unknown / custom attribute names with values of every TTLV type: opaque, identical re-encoding ----
	for _, nm := range []string{"x-custom", "y-custom", "x-", "Vendor Attribute", "Short Unique Identifier", "Protection Level", "X-Upper", "cryptographic length", "Object  Type", ""} {
		for _, ty := range []int{2, 3, 4, 5, 6, 7, 8, 9, 10, 1} {
			val := scalarSample(ty, 0)
			if ty == 1 {
				val = &tree.Item{Tag: kmip.TagAttributeValue, Kind: tree.KStruct, Children: opaqueKids()}
			}
			pl := &tree.Item{Tag: kmip.TagRequestPayload, Kind: tree.KStruct, Children: []*tree.Item{
				{Tag: kmip.TagUniqueIdentifier, Kind: tree.KText, Data: []byte("id")}, attrTree(nm, val)}}
			e.runTree(messageTree(false, uint32(kmip.OperationAddAttribute), pl), false, "ok", true, "opaque-attribute")
		}
	}

	// ---- 4. Import requests: where does the object's type come from ----
	p := &popCfg{r: r, s: s, fill: 1, respectGating: true, textMode: 2, extTags: true}
	objTree := func(ot kmip.ObjectType) *tree.Item {
		for k := 0; k < 50; k++ {
			t, obj := p.genObject()
			if t != ot {
				continue
			}
			if b, pn := guard("MarshalTTLV", func() []byte { return ttlv.MarshalTTLV(obj) }); pn == "" {
				if it, err := tree.Decode(b); err == nil {
					return it
				}
			}
		}
		return nil
	}
	otAttr := func(ot uint32) *tree.Item {
		return attrTree("Object Type", &tree.Item{Tag: kmip.TagAttributeValue, Kind: tree.KEnum, Int: int64(ot)})
	}
	other := attrTree("x-note", &tree.Item{Tag: kmip.TagAttributeValue, Kind: tree.KText, Data: []byte("n")})
	uid := &tree.Item{Tag: kmip.TagUniqueIdentifier, Kind: tree.KText, Data: []byte("id")}
	imp := func(kids ...*tree.Item) *tree.Item {
		return messageTree(false, uint32(kmip.OperationImport), &tree.Item{Tag: kmip.TagRequestPayload, Kind: tree.KStruct, Children: kids})
	}
	nImp := ctx.N(4, 40)
	for k := 0; k < nImp; k++ {
		a, b := kmip.ObjectTypeSymmetricKey, kmip.ObjectTypeSecretData
		if k%2 == 1 {
			a, b = kmip.ObjectTypeSecretData, kmip.ObjectTypeOpaqueObject
		}
		objA, objB := objTree(a), objTree(b)
		if objA == nil || objB == nil {
			continue
		}
		e.runTree(imp(uid, otAttr(uint32(a)), objA), false, "ok", false, "import-wellformed")
		e.runTree(imp(uid, other, otAttr(uint32(a)), other, objA), false, "ok", false, "import-type-attribute-late")
		e.runTree(imp(uid, other, objA), false, "err", false, "import-no-object-type")
		e.runTree(imp(uid, objA), false, "err", false, "import-no-attribute")
		e.runTree(imp(uid, otAttr(uint32(a)), otAttr(uint32(b)), objA), false, "ok", false, "import-two-types-object-of-first")
		e.runTree(imp(uid, otAttr(uint32(a)), otAttr(uint32(b)), objB), false, "err", false, "import-two-types-object-of-second")
		e.runTree(imp(uid, otAttr(uint32(b)), objA), false, "err", false, "import-object-of-other-type")
		e.runTree(imp(uid, otAttr(0x3F), objA), false, "err", false, "import-unregistered-object-type")
		e.runTree(imp(uid, attrTree("Object Type", &tree.Item{Tag: kmip.TagAttributeValue, Kind: tree.KInt, Int: int64(a)}), objA), false, "err", false, "import-ill-typed-object-type")
		// objects under an object type field (Get / Export responses, Register request)
		otItem := func(v uint32) *tree.Item { return &tree.Item{Tag: kmip.TagObjectType, Kind: tree.KEnum, Int: int64(v)} }
		get := func(kids ...*tree.Item) *tree.Item {
			return messageTree(true, uint32(kmip.OperationGet), &tree.Item{Tag: kmip.TagResponsePayload, Kind: tree.KStruct, Children: kids})
		}
		e.runTree(get(otItem(uint32(a)), uid, objA), true, "ok", false, "get-wellformed")
		e.runTree(get(otItem(uint32(b)), uid, objA), true, "err", false, "get-object-of-other-type")
		e.runTree(get(otItem(0x3F), uid, objA), true, "err", false, "get-unregistered-object-type")
		e.runTree(get(otItem(0), uid, objA), true, "err", false, "get-object-type-zero")
		e.runTree(get(otItem(0xFFFFFFFF), uid, objA), true, "err", false, "get-object-type-max")
		exp := messageTree(true, uint32(kmip.OperationExport), &tree.Item{Tag: kmip.TagResponsePayload, Kind: tree.KStruct, Children: []*tree.Item{otItem(uint32(b)), uid, otAttr(uint32(a)), objA}})
		e.runTree(exp, true, "err", false, "export-object-of-other-type")
		reg := messageTree(false, uint32(kmip.OperationRegister), &tree.Item{Tag: kmip.TagRequestPayload, Kind: tree.KStruct, Children: []*tree.Item{otItem(uint32(b)),
			{Tag: kmip.TagTemplateAttribute, Kind: tree.KStruct}, objA}})
		e.runTree(reg, false, "err", false, "register-object-of-other-type")
	}

	// ---- 5. populated messages through the library's typed writers, XML and JSON included ----
	n := ctx.N(120, 3000)
	seq := 0
	for i := 0; i < n; i++ {
		response := i%2 == 1
		tg := e.reqT
		if response {
			tg = e.resT
		}
		seq = i / 2
		pp := &popCfg{r: r, s: s, fill: i % 3, respectGating: true, textMode: 2, opSeq: &seq}
		x := reflect.New(tg.ty.Elem())
		pp.populate(x.Elem())
		e.runValue(x.Interface(), response, "conforming")
	}
	// mismatching dispatch information written by the library itself (it does not validate on encode)
	nAdv := ctx.N(20, 400)
	for i := 0; i < nAdv; i++ {
		otA, _ := p.genObject()
		_, objB := p.genObject()
		e.runValue(&kmip.ResponseMessage{Header: kmip.ResponseHeader{ProtocolVersion: kmip.V1_4, BatchCount: 1},
			BatchItem: []kmip.ResponseBatchItem{{Operation: kmip.OperationGet, ResponsePayload: &payloads.GetResponsePayload{ObjectType: otA, UniqueIdentifier: "id", Object: objB}}}}, true, "adversarial-get")
		ops := s.Ops
		a, b := ops[r.Intn(len(ops))], ops[r.Intn(len(ops))]
		pl := kmip.VerifNewResponsePayload(kmip.Operation(a.Op))
		p.populate(reflect.ValueOf(pl).Elem())
		e.runValue(&kmip.ResponseMessage{Header: kmip.ResponseHeader{ProtocolVersion: kmip.V1_4, BatchCount: 1},
			BatchItem: []kmip.ResponseBatchItem{{Operation: kmip.Operation(b.Op), ResponsePayload: pl}}}, true, "adversarial-payload-under-other-op")
	}
	// ---- 5b. dispatch does not depend on the REST of the batch item: every registered operation x every result
	// status (success, failed, pending, undone) with reason, message, batch item id, asynchronous correlation
	// value and message extension present; requests with batch item id and message extension; the payload
	// must come back with the registered type. Unregistered operations under a failed status stay opaque. ----
	{
		pc := &popCfg{r: r, s: s, fill: 1, respectGating: true, textMode: 2}
		ver := kmip.V1_4
		pc.ver = &ver
		ext := &kmip.MessageExtension{VendorIdentification: "acme", CriticalityIndicator: false, VendorExtension: ttlv.Struct{{Tag: 0x540001, Value: int32(1)}}}
		for _, o := range kmip.VerifDumpOperations() {
			for st := kmip.ResultStatus(0); st <= 3; st++ {
				pl := kmip.VerifNewResponsePayload(o.Operation)
				pc.populate(reflect.ValueOf(pl).Elem())
				bi := kmip.ResponseBatchItem{Operation: o.Operation, UniqueBatchItemID: []byte{1, 2}, ResultStatus: st, ResponsePayload: pl, MessageExtension: ext}
				if st != kmip.ResultStatusSuccess {
					bi.ResultReason, bi.ResultMessage = kmip.ResultReasonGeneralFailure, "failed"
				}
				if st == kmip.ResultStatusOperationPending {
					bi.AsynchronousCorrelationValue = []byte{9}
				}
				e.runValue(&kmip.ResponseMessage{Header: kmip.ResponseHeader{ProtocolVersion: kmip.V1_4, BatchCount: 1}, BatchItem: []kmip.ResponseBatchItem{bi}}, true, "item-context")
			}
			rq := kmip.VerifNewRequestPayload(o.Operation)
			pc.populate(reflect.ValueOf(rq).Elem())
			e.runValue(&kmip.RequestMessage{Header: kmip.RequestHeader{ProtocolVersion: kmip.V1_4, BatchCount: 1},
				BatchItem: []kmip.RequestBatchItem{{Operation: o.Operation, UniqueBatchItemID: []byte{1, 2}, RequestPayload: rq, MessageExtension: ext}}}, false, "item-context")
		}
		for _, op := range []uint32{0x06, 0x30, 0x7FFFFFFF} {
			for st := int64(1); st <= 3; st++ {
				pl := &tree.Item{Tag: kmip.TagResponsePayload, Kind: tree.KStruct, Children: opaqueKids()}
				m := messageTree(true, op, pl)
				bi := m.Children[1]
				bi.Children = []*tree.Item{bi.Children[0], {Tag: kmip.TagResultStatus, Kind: tree.KEnum, Int: st}, {Tag: kmip.TagResultReason, Kind: tree.KEnum, Int: 1},
					{Tag: kmip.TagResultMessage, Kind: tree.KText, Data: []byte("failed")}, pl}
				e.runTree(m, true, "ok", true, "unregistered-op-failed-status")
			}
		}
	}

	// ---- 6. operation codes that differ from a registered one only in their high bytes (a registry indexed by
	// a truncated code, or compared after a narrowing conversion, would take them for the registered operation) ----
	for _, o := range kmip.VerifDumpOperations() {
		for _, hi := range []uint32{0x100, 0x10000, 0x01000000, 0x80000000} {
			op := uint32(o.Operation) | hi
			if e.registered[op] {
				continue
			}
			for _, response := range []bool{false, true} {
				ptag := kmip.TagRequestPayload
				if response {
					ptag = kmip.TagResponsePayload
				}
				pl := &tree.Item{Tag: ptag, Kind: tree.KStruct, Children: opaqueKidsAll()}
				e.runTree(messageTree(response, op, pl), response, "ok", true, "unregistered-op-high-bits")
			}
		}
	}

	// ---- 7. names that are NOT standard attribute names but close to one (surrounding blanks, case, a prefix,
	// a suffix): unknown to the library, hence opaque whatever the value, re-encoding to the identical bytes ----
	for _, std := range []string{"Cryptographic Length", "Object Type", "Name", "State", "Comment", "Activation Date", "Digest", "Fresh"} {
		variants := []string{" " + std, std + " ", " " + std + " ", strings.ToLower(std), strings.ToUpper(std), std + "2", std[:len(std)-1],
			strings.ReplaceAll(std, " ", "  "), strings.ReplaceAll(std, " ", "_"), strings.ReplaceAll(std, " ", ""), "X-" + std, std + ".", "z-" + std}
		seen := map[string]bool{}
		for _, nm := range variants {
			if _, isStd := registeredAttrType(kmip.AttributeName(nm)); isStd || seen[nm] {
				continue
			}
			seen[nm] = true
			for _, ty := range []int{7, 2, 5, 6, 9, 1} {
				val := scalarSample(ty, 0)
				if ty == 1 {
					val = &tree.Item{Tag: kmip.TagAttributeValue, Kind: tree.KStruct, Children: opaqueKids()}
				}
				pl := &tree.Item{Tag: kmip.TagRequestPayload, Kind: tree.KStruct, Children: []*tree.Item{
					{Tag: kmip.TagUniqueIdentifier, Kind: tree.KText, Data: []byte("id")}, attrTree(nm, val)}}
				e.runTree(messageTree(false, uint32(kmip.OperationAddAttribute), pl), false, "ok", true, "near-standard-attribute-name")
			}
		}
	}

	// ---- 8. the object matrix: every payload carrying a managed object (Get / Export response, Register / Import
	// request) x every registered object on the wire x the object type announced next to it: the same type
	// (accepted, decoded to the registered Go type), every OTHER registered type (error), and unregistered
	// types (error — never a value): 0, the smallest unregistered code, 0x3F, 0xFFFFFFFF and the codes that
	// differ from the wire object's own type only in their high bytes ----
	{
		po := &popCfg{r: r, s: s, fill: 1, respectGating: true, textMode: 2, extTags: true}
		regObj := map[uint32]bool{}
		for _, o := range s.Objects {
			regObj[o.ObjectType] = true
		}
		smallest := uint32(1)
		for regObj[smallest] {
			smallest++
		}
		objTrees := map[uint32]*tree.Item{}
		for _, o := range s.Objects {
			obj, err := kmip.NewObjectForType(kmip.ObjectType(o.ObjectType))
			if err != nil {
				continue
			}
			po.populate(reflect.ValueOf(obj).Elem())
			if b, pn := guard("MarshalTTLV", func() []byte { return ttlv.MarshalTTLV(obj) }); pn == "" {
				if it, err := tree.Decode(b); err == nil {
					objTrees[o.ObjectType] = it
				}
			}
		}
		otItem := func(v uint32) *tree.Item { return &tree.Item{Tag: kmip.TagObjectType, Kind: tree.KEnum, Int: int64(v)} }
		carriers := []struct {
			name     string
			response bool
			op       kmip.Operation
			kids     func(ot, wire uint32, obj *tree.Item) []*tree.Item // ot: the announced type; wire: the type of obj
		}{
			{"get", true, kmip.OperationGet, func(ot, wire uint32, obj *tree.Item) []*tree.Item { return []*tree.Item{otItem(ot), uid, obj} }},
			{"export", true, kmip.OperationExport, func(ot, wire uint32, obj *tree.Item) []*tree.Item { return []*tree.Item{otItem(ot), uid, other, obj} }},
			// the Object Type FIELD decides in an Export response, even when an Object Type attribute names the wire object's type
			{"export-with-attribute", true, kmip.OperationExport, func(ot, wire uint32, obj *tree.Item) []*tree.Item {
				return []*tree.Item{otItem(ot), uid, otAttr(wire), obj}
			}},
			{"register", false, kmip.OperationRegister, func(ot, wire uint32, obj *tree.Item) []*tree.Item {
				return []*tree.Item{otItem(ot), {Tag: kmip.TagTemplateAttribute, Kind: tree.KStruct}, obj}
			}},
			// ... and in a Register request even when the template attribute names the wire object's type
			{"register-with-attribute", false, kmip.OperationRegister, func(ot, wire uint32, obj *tree.Item) []*tree.Item {
				return []*tree.Item{otItem(ot), {Tag: kmip.TagTemplateAttribute, Kind: tree.KStruct, Children: []*tree.Item{otAttr(wire)}}, obj}
			}},
			{"import", false, kmip.OperationImport, func(ot, wire uint32, obj *tree.Item) []*tree.Item { return []*tree.Item{uid, other, otAttr(ot), obj} }},
		}
		for _, c := range carriers {
			ptag := kmip.TagRequestPayload
			if c.response {
				ptag = kmip.TagResponsePayload
			}
			for _, wo := range s.Objects {
				obj := objTrees[wo.ObjectType]
				if obj == nil {
					continue
				}
				msg := func(ot uint32) *tree.Item {
					return messageTree(c.response, uint32(c.op), &tree.Item{Tag: ptag, Kind: tree.KStruct, Children: c.kids(ot, wo.ObjectType, obj)})
				}
				e.runTree(msg(wo.ObjectType), c.response, "ok", false, "object-matrix-same-type")
				for _, ao := range s.Objects {
					if ao.ObjectType != wo.ObjectType {
						e.runTree(msg(ao.ObjectType), c.response, "err", false, "object-matrix-other-type")
					}
				}
				for _, u := range []uint32{0, smallest, 0x3F, 0xFFFFFFFF, wo.ObjectType | 0x100, wo.ObjectType | 0x10000, wo.ObjectType | 0x80000000} {
					if !regObj[u] {
						e.runTree(msg(u), c.response, "err", false, "object-matrix-unregistered-type")
					}
				}
				e.ctx.Res.Count("dispatch.object-matrix." + c.name)
			}
		}
	}

	// ---- 9. opaque content at every nesting depth 1..64 and at every generic position of the typed envelope ----
	e.runOpaqueDepth()

	// ---- 10. operations and object types registered at RUN TIME through the public API (in a child process) ----
	runDispatchRegistered(ctx, nil)

	// coverage floor: every directed class must have produced decodes in the three encodings
	var missing []string
	for _, class := range []string{"opaque-depth", "unregistered-op", "opaque-attribute", "import-wellformed", "import-no-object-type", "conforming",
		"unregistered-op-high-bits", "item-context", "unregistered-op-failed-status", "near-standard-attribute-name", "object-matrix-same-type", "object-matrix-other-type", "object-matrix-unregistered-type"} {
		for _, codec := range []string{"ttlv", "xml", "json"} {
			if ctx.Res.Distribution["dispatch."+class+"."+codec+".ok"]+ctx.Res.Distribution["dispatch."+class+"."+codec+".err"] == 0 {
				missing = append(missing, class+"/"+codec)
			}
		}
	}
	// every row of the attribute specification must have had its well-typed sample accepted in the three encodings
	// (a sample that could not be built or written is skipped: never silently)
	if rows, _ := loadAttrSpec(); ctx.Res.Distribution["dispatch.attrspec.accepted"] < 3*len(rows) {
		missing = append(missing, fmt.Sprintf("attrspec.accepted(%d of %d)", ctx.Res.Distribution["dispatch.attrspec.accepted"], 3*len(rows)))
	}
	for _, c := range []string{"get", "export", "export-with-attribute", "register", "register-with-attribute", "import"} {
		if ctx.Res.Distribution["dispatch.object-matrix."+c] < len(s.Objects) {
			missing = append(missing, fmt.Sprintf("object-matrix.%s(%d of %d objects)", c, ctx.Res.Distribution["dispatch.object-matrix."+c], len(s.Objects)))
		}
	}
	sort.Strings(missing)
	if len(missing) > 0 {
		ctx.Res.Fail("dispatch: no decode happened for " + strings.Join(missing, ", "))
	}
}
