/-
  SrvConn — one server connection as a transition system: `kmipserver/conn.go` (newConn, terminate,
  checkAvailable, readloop, writeloop, send, recv) and the connection part of `server.go handleConn`
  (connect hook, request loop, deferred terminate hook / stream.Close / wg.Done), as of the CURRENT
  code (tx channel swapped for nil but never closed, per-message error channel of capacity 1).

  Three processes with explicit program counters: owner `M` (the handleConn goroutine), reader `R`
  (readloop), writer `W` (writeloop). Unbuffered channel operations are rendezvous (ONE joint step),
  `select` is a non-deterministic choice among the ready cases, `terminate` is THREE atomic steps
  (closed.Swap / cancel / tx swap + stream close) because the other goroutines run between them.

  The environment is non-deterministic inside `stepL`:
    client    sends a request (`readGood`), a correctly framed but undecodable message (`readBad`:
              `ttlv.IsErrEncoding`, including "message too big"), a message that is not a request
              (`readSkip`), any number of them and at any time (pipelining = the reader picks the next
              one up while the owner is busy); reads a response (`wOk`) or not; half-closes or
              closes (`cliGone`: the reader gets EOF — garbage / truncated bytes followed by the end
              of the stream are the same event for the server: a non-encoding error of `Recv`) at
              ANY point. Bytes may still be readable / writable after the peer has gone (half-close,
              kernel socket buffers): reads stay possible until the local close, and a write to a
              gone peer may succeed or fail — which covers every transport.
    handler   returns a response (`hRet`: success, typed error, plain error and recovered panic are
              all "a response message is returned" for the connection — that the item is a FAILED
              item is `Kmip.C08.handler_outcome_is_an_item` over the batch model), or blocks until
              the connection context is cancelled (`hSlow` then `hRet` once `ctxDone`).
    server    cancels the receive context (`recvCancel`, Shutdown: the `<-ctx.Done()` case of `recv`
              may be taken at any time — the flag itself is not stored, which only adds behaviours)
              or the server context (`srvCancel`: the connection context is a child, so this IS
              `ctxDone := true`).

  Message contents are abstracted (data independence: no control decision of conn.go/handleConn
  depends on the content of a decodable request). The symmetry used: only the RELATIVE position of
  a request among those in flight matters. At most two decodable requests are in flight between
  `Recv` and `Send` (one held by R, one owned by M then W); `fl` counts them and each carries one
  bit, "is not the oldest in flight". A response written for a request that is not the oldest in
  flight (overtaking), or with nothing in flight (duplicate / response without request) raises
  `Fault.order`; when the connection is live and idle `fl` must be 0 (nothing unanswered). The number
  of requests on a connection is therefore UNBOUNDED in this model.

  `Params` keeps the two repaired defects switchable: `closesTx` (terminate closes the tx channel)
  and `errChCap` (capacity of the per-message error channel).
-/
import KmipModel.Model.Lts
namespace Kmip.SrvConn
open Kmip.Lts

structure Params where
  closesTx : Bool
  errChCap : Nat
  deriving Repr, DecidableEq

/-- the code at /repo HEAD. -/
def current : Params := { closesTx := false, errChCap := 1 }
/-- before d24e630. -/
def oldClosesTx : Params := { closesTx := true, errChCap := 1 }
/-- before 4f747d8. -/
def oldUnbuffered : Params := { closesTx := false, errChCap := 0 }

/-- owner: handleConn after newConn. `[y:…]` = verif yield point reached when the pc is entered. -/
inductive MPc where
  | hook        -- srv.connectHook(ctx)
  | recvCheck   -- recv: checkAvailable
  | recvSel     -- recv: select { <-rx | <-recvCtx.Done | <-c.ctx.Done }
  | handle      -- srv.handleRequest running
  | handleSlow  -- … a handler that waits for ctx.Done()
  | ctxCheck    -- [y:srv.beforeSend] if ctx.Err() != nil
  | sendCheck   -- send: checkAvailable
  | loadTx      -- tx := c.tx.Load(); errCh := make(chan error, cap)
  | sendSel     -- [y:srv.send.loaded] select { tx <- msg | <-c.ctx.Done }, tx = the channel
  | sendSelNil  -- … tx = the nil channel (loaded after terminate swapped it)
  | waitErr     -- select { <-errCh | <-c.ctx.Done }
  | t1 | t2 | t3  -- terminate called from recv/send ([y:srv.terminate.afterCancel] at t3)
  | dfr         -- loop left: deferred srv.terminateHook (only if the connect hook succeeded)
  | c1 | c2 | c3  -- deferred stream.Close() = terminate
  | wgDone      -- deferred srv.wg.Done()
  | ended
  deriving DecidableEq, Repr, Inhabited

inductive RPc where
  | check       -- for !c.closed.Load()
  | recv        -- c.stream.Recv(&msg)
  | hand        -- [y:srv.read.beforeRx] select { rx <- resp | <-c.ctx.Done }, a decoded request
  | handBad     -- … an encoding error
  | t1 | t2 | t3
  | closeRx     -- deferred close(c.rx); `ended` ⇔ rx is closed
  | ended
  deriving DecidableEq, Repr, Inhabited

inductive WPc where
  | check       -- for !c.closed.Load()
  | sel         -- select { req, ok := <-tx | <-c.ctx.Done }
  | io          -- c.stream.Send(req.msg)
  | closeOk     -- close(req.err) after a successful write
  | errSend     -- [y:srv.write.beforeErr] req.err <- err
  | errClose    -- close(req.err)
  | t1 | t2 | t3
  | ended
  deriving DecidableEq, Repr, Inhabited

/-- what must never happen. The first two are Go run-time panics (they kill the process); the
    others are raised by the ghost bookkeeping. A faulted state has no successor. -/
inductive Fault where
  | none
  | sendOnClosed    -- send on a closed channel
  | closeOfClosed   -- close of a closed channel
  | order           -- a response that is not the answer to the oldest unanswered request
  | invalidTwice    -- a second invalid-message response
  | hookTwice       -- the terminate hook runs a second time
  deriving DecidableEq, Repr, Inhabited

/-- 0, 1, 2 (number of decodable requests in flight). -/
inductive Cnt where
  | zero | one | two
  deriving DecidableEq, Repr, Inhabited

structure State where
  m : MPc
  r : RPc
  w : WPc
  cliGone : Bool       -- the client has half-closed / closed / its byte stream ended
  fault : Fault
  closed : Bool        -- c.closed
  ctxDone : Bool       -- c.ctx cancelled (by terminate, or through the server context)
  torn : Bool          -- terminate's last step done: c.tx holds nil (the old code also closed the
                       -- channel: `txClosed`), the stream is closed by the server
  errVal : Bool        -- the current message's error channel holds a value
  errClosed : Bool     -- … is closed
  hookOk : Bool        -- the connect hook succeeded (terminate hook registered)
  fl : Cnt             -- ghost: decodable requests read and not yet answered
  rPos : Bool          -- ghost: the request R holds is not the oldest in flight
  pPos : Bool          -- ghost: the request M (then W) owns is not the oldest in flight
  invProd : Bool       -- ghost: the invalid-message response has been produced (M leaves the loop
                       --        after sending it: `invProd` is also "break after send")
  invWr : Bool         -- ghost: … has been written
  termHook : Bool      -- ghost: the terminate hook has run
  deriving DecidableEq, Repr, Inhabited

def init : State :=
  { m := .hook, r := .check, w := .check, cliGone := false, fault := .none, closed := false,
    ctxDone := false, torn := false, errVal := false, errClosed := false, hookOk := false,
    fl := .zero, rPos := false, pPos := false, invProd := false, invWr := false, termHook := false }

inductive Ev where
  | m | r | w                         -- internal step of M / R / W (rendezvous: the receiver's side)
  | hookOk | hookFail                 -- outcome of the connect hook
  | hRet | hSlow                      -- the handler returns / settles to wait for cancellation
  | readGood | readBad | readSkip     -- Recv returns a message the client sent        (needs the client)
  | readErr                           -- Recv returns a non-encoding error
  | wOk                               -- Send returns nil                              (needs the client)
  | wFail                             -- Send returns an error
  | recvCancel                        -- recv's `<-ctx.Done()` case (receive context cancelled)
  | cliGone | srvCancel               -- pure environment events
  deriving DecidableEq, Repr, Inhabited

/-- events that need an action of the client or of the rest of the server: a connection whose only
    enabled events are of this kind is WAITING, not stuck. -/
def Ev.isEnv : Ev → Bool
  | .readGood | .readBad | .readSkip | .wOk | .cliGone | .recvCancel | .srvCancel => true
  | _ => false

def unavailable (s : State) : Bool := s.closed || s.ctxDone

/-- the tx channel object is closed (old code only). -/
def txClosed (p : Params) (s : State) : Bool := p.closesTx && s.torn

/-- rx is closed ⇔ the reader has ended (`defer close(c.rx)` is its last action). -/
def rxClosed (s : State) : Bool := s.r == .ended

/-- third step of terminate: swap tx for nil (the old code also closed it), close the stream. -/
def term3 (p : Params) (s : State) : State :=
  if p.closesTx && s.torn then { s with fault := .closeOfClosed } else { s with torn := true }

def closeErrCh (s : State) : State :=
  if s.errClosed then { s with fault := .closeOfClosed } else { s with errClosed := true }

def stepM (p : Params) (s : State) : List (Ev × State) :=
  match s.m with
  | .hook => [(.hookOk, { s with hookOk := true, m := .recvCheck }),
              (.hookFail, { s with hookOk := false, m := .c1 })]
  | .recvCheck => [(.m, { s with m := if unavailable s then .dfr else .recvSel })]
  | .recvSel =>
    (if s.r = .hand then [(Ev.m, { s with m := .handle, pPos := s.rPos, rPos := false, r := .check })]
     else if s.r = .handBad then
      [(Ev.m, if s.invProd then { s with fault := .invalidTwice }
              else { s with m := .sendCheck, invProd := true, r := .check })]
     else []) ++
    (if rxClosed s then [(Ev.m, { s with m := .dfr })] else []) ++
    [(Ev.recvCancel, { s with m := .t1 })] ++
    (if s.ctxDone then [(Ev.m, { s with m := .t1 })] else [])
  | .handle => [(.hRet, { s with m := .ctxCheck }), (.hSlow, { s with m := .handleSlow })]
  | .handleSlow => if s.ctxDone then [(.hRet, { s with m := .ctxCheck })] else []
  | .ctxCheck => [(.m, { s with m := if s.ctxDone then .dfr else .sendCheck })]
  | .sendCheck => [(.m, { s with m := if unavailable s then .dfr else .loadTx })]
  | .loadTx => [(.m, { s with m := if s.torn then .sendSelNil else .sendSel,
                              errVal := false, errClosed := false })]
  | .sendSel =>
    (if txClosed p s then [(Ev.m, { s with fault := .sendOnClosed })] else []) ++
    (if !txClosed p s && s.w = .sel then [(Ev.m, { s with m := .waitErr, w := .io })] else []) ++
    (if s.ctxDone then [(Ev.m, { closeErrCh s with m := .t1 })] else [])
  | .sendSelNil => if s.ctxDone then [(.m, { closeErrCh s with m := .t1 })] else []
  | .waitErr =>
    (if s.errVal then [(Ev.m, { s with errVal := false, m := .dfr })] else []) ++
    (if !s.errVal && s.errClosed then
      [(Ev.m, { s with errClosed := false, m := if s.invProd then .dfr else .recvCheck })]
     else []) ++
    (if s.ctxDone then [(Ev.m, { s with m := .t1 })] else [])
  | .t1 => [(.m, if s.closed then { s with m := .dfr } else { s with closed := true, m := .t2 })]
  | .t2 => [(.m, { s with ctxDone := true, m := .t3 })]
  | .t3 => [(.m, { term3 p s with m := .dfr })]
  | .dfr => [(.m, if !s.hookOk then { s with m := .c1 }
                  else if s.termHook then { s with fault := .hookTwice }
                  else { s with termHook := true, m := .c1 })]
  | .c1 => [(.m, if s.closed then { s with m := .wgDone } else { s with closed := true, m := .c2 })]
  | .c2 => [(.m, { s with ctxDone := true, m := .c3 })]
  | .c3 => [(.m, { term3 p s with m := .wgDone })]
  | .wgDone => [(.m, { s with m := .ended })]
  | .ended => []

def Cnt.inc : Cnt → Cnt
  | .zero => .one
  | _ => .two

def stepR (p : Params) (s : State) : List (Ev × State) :=
  match s.r with
  | .check => [(.r, { s with r := if s.closed then .closeRx else .recv })]
  | .recv =>
    (if !s.torn then
      [(Ev.readGood, if s.fl = .two then { s with fault := .order }
                     else { s with r := .hand, rPos := s.fl != .zero, fl := s.fl.inc }),
       (Ev.readBad, { s with r := .handBad }),
       (Ev.readSkip, { s with r := .check })]
     else []) ++
    (if s.torn || s.cliGone then [(Ev.readErr, { s with r := .t1 })] else [])
  | .hand => if s.ctxDone then [(.r, { s with r := .closeRx, rPos := false })] else []
  | .handBad => if s.ctxDone then [(.r, { s with r := .closeRx })] else []
  | .t1 => [(.r, if s.closed then { s with r := .closeRx } else { s with closed := true, r := .t2 })]
  | .t2 => [(.r, { s with ctxDone := true, r := .t3 })]
  | .t3 => [(.r, { term3 p s with r := .closeRx })]
  | .closeRx => [(.r, { s with r := .ended })]
  | .ended => []

/-- the bookkeeping of a successful write. -/
def written (s : State) : State :=
  if s.invProd then
    (if s.invWr then { s with fault := .invalidTwice } else { s with w := .closeOk, invWr := true })
  else if s.pPos || s.fl = .zero then { s with fault := .order }
  else { s with w := .closeOk, pPos := false, rPos := false,
                fl := if s.fl = .two then .one else .zero }

def stepW (p : Params) (s : State) : List (Ev × State) :=
  match s.w with
  | .check => [(.w, { s with w := if s.closed then .ended else .sel })]
  | .sel =>
    (if txClosed p s then [(Ev.w, { s with w := .ended })] else []) ++
    (if s.ctxDone then [(Ev.w, { s with w := .ended })] else [])
  | .io =>
    (if !s.torn then [(Ev.wOk, written s)] else []) ++
    (if s.torn || s.cliGone then [(Ev.wFail, { s with w := .errSend, pPos := false })] else [])
  | .closeOk => [(.w, { closeErrCh s with w := .check })]
  | .errSend =>
    if s.errClosed then [(.w, { s with fault := .sendOnClosed })]
    else if p.errChCap > 0 then
      (if s.errVal then [] else [(.w, { s with errVal := true, w := .errClose })])
    else
      -- unbuffered: a rendezvous with M waiting in `waitErr`, otherwise blocked
      (if s.m = .waitErr then [(.w, { s with w := .errClose, m := .dfr })] else [])
  | .errClose => [(.w, { closeErrCh s with w := .t1 })]
  | .t1 => [(.w, if s.closed then { s with w := .ended } else { s with closed := true, w := .t2 })]
  | .t2 => [(.w, { s with ctxDone := true, w := .t3 })]
  | .t3 => [(.w, { term3 p s with w := .ended })]
  | .ended => []

def stepEnv (s : State) : List (Ev × State) :=
  (if !s.cliGone then [(Ev.cliGone, { s with cliGone := true })] else []) ++
  (if !s.ctxDone then [(Ev.srvCancel, { s with ctxDone := true })] else [])

/-- labelled successors. A faulted state has none (a panic takes the whole process down). -/
def stepL (p : Params) (s : State) : List (Ev × State) :=
  if s.fault != .none then [] else stepM p s ++ stepR p s ++ stepW p s ++ stepEnv s

def sys (p : Params) : Sys State := { init := init, step := fun s => (stepL p s).map (·.2) }

/-! ### predicates -/

def allEnded (s : State) : Bool := s.m == .ended && s.r == .ended && s.w == .ended

/-- a Go run-time panic. -/
def crashed (s : State) : Bool := s.fault == .sendOnClosed || s.fault == .closeOfClosed

/-- the peer has gone or the connection context is cancelled, a goroutine has not ended, and
    nothing the server itself can do is enabled: the remaining goroutines are kept forever. -/
def stuck (p : Params) (s : State) : Bool :=
  (s.cliGone || s.ctxDone) && !allEnded s && s.fault == .none &&
    ((stepL p s).all (fun e => e.1.isEnv))

/-- the one shape in which the CURRENT code does keep the goroutines of a connection whose client
    has gone: the handler waits for the cancellation of its context while the reader, holding a
    pipelined message it cannot deliver, is not reading and therefore never sees the end of the
    stream. Only the handler returning by itself or the server context (Shutdown) ends it. -/
def waitsOnPipelined (s : State) : Bool :=
  s.m == .handleSlow && (s.r == .hand || s.r == .handBad) && !s.ctxDone

/-- the connection is live and idle: the owner waits for the next request, the reader holds none. -/
def idleLive (s : State) : Bool :=
  s.m == .recvSel && s.r != .hand && s.r != .handBad && !s.closed && !s.ctxDone

/-- responses are not the in-order, one-for-one image of the decodable requests read. -/
def misordered (s : State) : Bool :=
  s.fault == .order || (idleLive s && s.fl != .zero)

/-- the invalid-message response: a second one, one written that was never produced, or the
    connection goes on serving after it. -/
def invalidBad (s : State) : Bool :=
  s.fault == .invalidTwice || (s.invWr && !s.invProd) ||
  (s.invProd && (s.m == .handle || s.m == .handleSlow || s.m == .recvSel || s.m == .recvCheck))

/-- terminate hook: twice, without a successful connect hook, not exactly once when the owner has
    ended after a successful connect hook, or before a handler / the connect hook. -/
def hookBad (s : State) : Bool :=
  s.fault == .hookTwice || (s.termHook && !s.hookOk) ||
  (s.m == .ended && s.termHook != s.hookOk) ||
  (s.termHook && (s.m == .handle || s.m == .handleSlow || s.m == .hook || s.m == .recvSel))

def bad (p : Params) (s : State) : Bool :=
  crashed s || (stuck p s && !waitsOnPipelined s) || misordered s || invalidBad s || hookBad s

/-! ### coding -/

def MPc.toNat : MPc → Nat
  | .hook => 0 | .recvCheck => 1 | .recvSel => 2 | .handle => 3 | .handleSlow => 4 | .ctxCheck => 5
  | .sendCheck => 6 | .loadTx => 7 | .sendSel => 8 | .waitErr => 9 | .t1 => 10 | .t2 => 11
  | .t3 => 12 | .dfr => 13 | .c1 => 14 | .c2 => 15 | .c3 => 16 | .wgDone => 17 | .ended => 18
  | .sendSelNil => 19
def MPc.ofN : Nat → MPc
  | 0 => .hook | 1 => .recvCheck | 2 => .recvSel | 3 => .handle | 4 => .handleSlow | 5 => .ctxCheck
  | 6 => .sendCheck | 7 => .loadTx | 8 => .sendSel | 9 => .waitErr | 10 => .t1 | 11 => .t2
  | 12 => .t3 | 13 => .dfr | 14 => .c1 | 15 => .c2 | 16 => .c3 | 17 => .wgDone | 18 => .ended
  | _ => .sendSelNil
def RPc.toNat : RPc → Nat
  | .check => 0 | .recv => 1 | .hand => 2 | .t1 => 3 | .t2 => 4 | .t3 => 5 | .closeRx => 6 | .ended => 7
  | .handBad => 8
def RPc.ofN : Nat → RPc
  | 0 => .check | 1 => .recv | 2 => .hand | 3 => .t1 | 4 => .t2 | 5 => .t3 | 6 => .closeRx | 7 => .ended
  | _ => .handBad
def WPc.toNat : WPc → Nat
  | .check => 0 | .sel => 1 | .io => 2 | .closeOk => 3 | .errSend => 4 | .errClose => 5 | .t1 => 6
  | .t2 => 7 | .t3 => 8 | .ended => 9
def WPc.ofN : Nat → WPc
  | 0 => .check | 1 => .sel | 2 => .io | 3 => .closeOk | 4 => .errSend | 5 => .errClose | 6 => .t1
  | 7 => .t2 | 8 => .t3 | _ => .ended
def Fault.toNat : Fault → Nat
  | .none => 0 | .sendOnClosed => 1 | .closeOfClosed => 2 | .order => 3 | .invalidTwice => 4
  | .hookTwice => 5
def Fault.ofN : Nat → Fault
  | 0 => .none | 1 => .sendOnClosed | 2 => .closeOfClosed | 3 => .order | 4 => .invalidTwice
  | _ => .hookTwice
def Cnt.toNat : Cnt → Nat | .zero => 0 | .one => 1 | .two => 2
def Cnt.ofN : Nat → Cnt | 0 => .zero | 1 => .one | _ => .two
def bToNat : Bool → Nat | true => 1 | false => 0
def bOfNat : Nat → Bool | 0 => false | _ => true

theorem MPc.ofN_toNat (x : MPc) : MPc.ofN x.toNat = x := by cases x <;> rfl
theorem RPc.ofN_toNat (x : RPc) : RPc.ofN x.toNat = x := by cases x <;> rfl
theorem WPc.ofN_toNat (x : WPc) : WPc.ofN x.toNat = x := by cases x <;> rfl
theorem Fault.ofN_toNat (x : Fault) : Fault.ofN x.toNat = x := by cases x <;> rfl
theorem Cnt.ofN_toNat (x : Cnt) : Cnt.ofN x.toNat = x := by cases x <;> rfl
theorem bOfNat_bToNat (b : Bool) : bOfNat (bToNat b) = b := by cases b <;> rfl
theorem MPc.toNat_lt (x : MPc) : x.toNat < 20 := by cases x <;> decide
theorem RPc.toNat_lt (x : RPc) : x.toNat < 9 := by cases x <;> decide
theorem WPc.toNat_lt (x : WPc) : x.toNat < 10 := by cases x <;> decide
theorem Fault.toNat_lt (x : Fault) : x.toNat < 6 := by cases x <;> decide
theorem Cnt.toNat_lt (x : Cnt) : x.toNat < 3 := by cases x <;> decide
theorem bToNat_lt (b : Bool) : bToNat b < 2 := by cases b <;> decide

/-- the digits of a state with their radices. -/
def digits (s : State) : List (Nat × Nat) :=
  [(s.m.toNat, 20), (s.r.toNat, 9), (s.w.toNat, 10), (bToNat s.cliGone, 2), (s.fault.toNat, 6),
   (bToNat s.closed, 2), (bToNat s.ctxDone, 2), (bToNat s.torn, 2), (bToNat s.errVal, 2),
   (bToNat s.errClosed, 2), (bToNat s.hookOk, 2), (s.fl.toNat, 3), (bToNat s.rPos, 2),
   (bToNat s.pPos, 2), (bToNat s.invProd, 2), (bToNat s.invWr, 2), (bToNat s.termHook, 2)]

def radices : List Nat := [20, 9, 10, 2, 6, 2, 2, 2, 2, 2, 2, 3, 2, 2, 2, 2, 2]

def ofDigits : List Nat → State
  | [a0, a1, a2, a3, a4, a5, a6, a7, a8, a9, a10, a11, a12, a13, a14, a15, a16] =>
    { m := .ofN a0, r := .ofN a1, w := .ofN a2, cliGone := bOfNat a3, fault := .ofN a4,
      closed := bOfNat a5, ctxDone := bOfNat a6, torn := bOfNat a7, errVal := bOfNat a8,
      errClosed := bOfNat a9, hookOk := bOfNat a10, fl := .ofN a11, rPos := bOfNat a12,
      pPos := bOfNat a13, invProd := bOfNat a14, invWr := bOfNat a15, termHook := bOfNat a16 }
  | _ => init

def code (s : State) : Nat := pack (digits s)
def decode (n : Nat) : State := ofDigits (unpack radices n)

theorem digits_radices (s : State) : (digits s).map (·.2) = radices := rfl

theorem digits_lt (s : State) : ∀ d ∈ digits s, d.1 < d.2 := by
  simp [digits, MPc.toNat_lt, RPc.toNat_lt, WPc.toNat_lt, Fault.toNat_lt, Cnt.toNat_lt, bToNat_lt]

theorem decode_code (s : State) : decode (code s) = s := by
  unfold decode code
  rw [← digits_radices s, unpack_pack _ (digits_lt s)]
  cases s
  simp only [digits, List.map_cons, List.map_nil, ofDigits, MPc.ofN_toNat, RPc.ofN_toNat,
    WPc.ofN_toNat, Fault.ofN_toNat, Cnt.ofN_toNat, bOfNat_bToNat]

def coding : Coding State := { code := code, decode := decode, decode_code := decode_code }

end Kmip.SrvConn
