/-
  L0 — big integers: `bigIntToBytes` / `bytesToBigInt` of ttlv/utils.go, written as the
  carry loops they are, plus the independent specification `twos`.
-/
import KmipModel.Model.Bytes
namespace Kmip

/-- The encoder's negate loop, on the little-endian (reversed) byte list:
    `b[i] = ^b[i] + carry; if carry > 0 && b[i] != 0 { carry = 0 }`. -/
def negEncLE : Bytes → UInt8 → Bytes
  | [], _ => []
  | b :: bs, c =>
    let nb := ~~~b + c
    let c' := if c > 0 ∧ nb ≠ 0 then 0 else c
    nb :: negEncLE bs c'

/-- The decoder's negate loop, little-endian: `v[i] = ^(v[i] - carry); if carry > 0 && v[i] != 0 { carry = 0 }`. -/
def negDecLE : Bytes → UInt8 → Bytes
  | [], _ => []
  | b :: bs, c =>
    let nb := ~~~(b - c)
    let c' := if c > 0 ∧ nb ≠ 0 then 0 else c
    nb :: negDecLE bs c'

/-- `bigIntToBytes(value, padding)`: returns `(b, padVal, padLen)`.
    `value.Bytes()` is modelled by `natToBytesBE value.natAbs`. -/
def bigIntToBytes (v : Int) (padding : Nat) : Bytes × UInt8 × Nat :=
  let padding := if padding < 1 then 1 else padding
  let mag := natToBytesBE v.natAbs
  let padLen := padForLen mag.length padding
  if v < 0 then
    let b := (negEncLE mag.reverse 1).reverse
    let padVal : UInt8 := 0xFF
    let padLen := if ((b.headD 0) >>> 7) &&& 1 ≠ (padVal &&& 1) ∧ padLen = 0 then padding else padLen
    (b, padVal, padLen)
  else if v = 0 then
    ([], 0, padding)
  else
    let b := mag
    let padVal : UInt8 := 0
    let padLen := if ((b.headD 0) >>> 7) &&& 1 ≠ (padVal &&& 1) ∧ padLen = 0 then padding else padLen
    (b, padVal, padLen)

/-- The value bytes the binary writer emits for a big integer: left padding then `b`. -/
def encodeBig (v : Int) : Bytes :=
  let (b, padVal, padLen) := bigIntToBytes v 8
  List.replicate padLen padVal ++ b

/-- `bytesToBigInt(v)` for a non-empty `v` (the caller rejects the empty value):
    `bits.LeadingZeros8(v[0]) > 0` ⇒ positive magnitude, otherwise negate a copy. -/
def bytesToBigInt (v : Bytes) : Int :=
  match v with
  | [] => 0
  | b0 :: _ =>
    if b0 < 0x80 then (beVal v : Int)
    else -((beVal (negDecLE v.reverse 1).reverse : Nat) : Int)

/-- Independent specification: the signed value of a big-endian two's complement byte string. -/
def twos (bs : Bytes) : Int :=
  match bs with
  | [] => 0
  | b0 :: _ => if b0 < 0x80 then (beVal bs : Int) else (beVal bs : Int) - ((256 ^ bs.length : Nat) : Int)

end Kmip
