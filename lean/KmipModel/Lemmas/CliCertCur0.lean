/-
  Certificate obligations, parts 0..1 of 16 of the `current` client system (kernel evaluation; 8 modules
  so that lake checks them in parallel). Assembled in `Lemmas/CliCert.lean`.
-/
import KmipModel.Model.CliConn
import KmipModel.Gen.CertCliConn
namespace Kmip.CliCert
open Kmip.CliLts Kmip.CliConn Kmip.Gen.CertCliConn

theorem cuClosed0 : partClosed (sys current) codec certCurrent cuP0 = true := by decide +kernel
theorem cuSafe0 : partSafe codec (bad current) cuP0 = true := by decide +kernel
theorem cuClosed1 : partClosed (sys current) codec certCurrent cuP1 = true := by decide +kernel
theorem cuSafe1 : partSafe codec (bad current) cuP1 = true := by decide +kernel

end Kmip.CliCert
