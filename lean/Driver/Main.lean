/-
  `kmip-model` — line-protocol driver over the executable model (core Lean only).
  One request per input line, one answer per output line. Each model area contributes one
  handler `cmd arg ↦ Option String` (none = not mine); they are tried in order.
-/
import Driver.Common
import Driver.Wire
import Driver.Registry
import Driver.Plan
import Driver.Batch
import Driver.Middleware
import Driver.Client
import Driver.Cache
import Driver.CliLts
import Driver.KeyAccess
import Driver.Lts
import Driver.Lex
import Driver.ReaderGo
open Driver

/-- the handler chain: add one line per driver module. -/
def handlers : List (String → String → Option String) := [
  handleWire,
  handleRegistry,
  handlePlan,
  handleBatch,
  handleMiddleware,
  handleClient,
  handleCache,
  handleCliLts,
  handleKeyAccess,
  handleLts,
  handleLex,
  handleReaderGo
]

def handle (line : String) : String :=
  let (cmd, arg) := splitCmd line
  match handlers.findSome? (fun h => h cmd arg) with
  | some out => out
  | none => "bad-op"

partial def loop (hin hout : IO.FS.Stream) : IO Unit := do
  let line ← hin.getLine
  if line.isEmpty then return ()
  hout.putStrLn (handle line)
  loop hin hout

def main : IO Unit := do
  let hin ← IO.getStdin
  let hout ← IO.getStdout
  loop hin hout
  hout.flush
