// Command probe32 is a tiny decoder probe that the `hostile` engine of the harness builds for a 32-bit
// target (GOARCH=386) and feeds with malformed inputs: Go's `int` is 32 bits wide there, so length
// arithmetic that is harmless on the 64-bit platform of the harness can wrap (C02: the decoders must
// return a value or an error on every platform the library builds for).
//
// Protocol: one request per line on stdin, `<kind> <hex|->`; one answer per line on stdout,
// `ok` / `err` / `panic <message>`. Kinds: gen (UnmarshalTTLV into ttlv.Value), req / resp
// (UnmarshalTTLV into the typed messages), recvS (Stream.Recv, 1 MiB limit as in kmipserver),
// recvC (Stream.Recv, no limit as in kmipclient), xreq / xresp / jreq / jresp (UnmarshalXML /
// UnmarshalJSON into the typed messages), xgen / jgen (into ttlv.Value).
package main

import (
	"bufio"
	"bytes"
	"encoding/hex"
	"fmt"
	"os"
	"runtime"
	"strings"

	kmip "github.com/ovh/kmip-go"
	_ "github.com/ovh/kmip-go/payloads"
	"github.com/ovh/kmip-go/ttlv"
)

type rwc struct{ *bytes.Reader }

func (rwc) Write(p []byte) (int, error) { return len(p), nil }
func (rwc) Close() error                { return nil }

func run(kind string, in []byte) (res string) {
	defer func() {
		if r := recover(); r != nil {
			msg := fmt.Sprint(r)
			if i := strings.IndexByte(msg, '\n'); i >= 0 {
				msg = msg[:i]
			}
			res = "panic " + msg
		}
	}()
	var err error
	switch kind {
	case "gen":
		var v ttlv.Value
		err = ttlv.UnmarshalTTLV(in, &v)
	case "req":
		var m kmip.RequestMessage
		err = ttlv.UnmarshalTTLV(in, &m)
	case "resp":
		var m kmip.ResponseMessage
		err = ttlv.UnmarshalTTLV(in, &m)
	case "recvS", "recvC":
		max := 1 << 20
		if kind == "recvC" {
			max = -1
		}
		s := ttlv.NewStream(rwc{bytes.NewReader(in)}, max)
		var v ttlv.Value
		err = s.Recv(&v)
	case "xgen":
		var v ttlv.Value
		err = ttlv.UnmarshalXML(in, &v)
	case "jgen":
		var v ttlv.Value
		err = ttlv.UnmarshalJSON(in, &v)
	case "xreq":
		var m kmip.RequestMessage
		err = ttlv.UnmarshalXML(in, &m)
	case "xresp":
		var m kmip.ResponseMessage
		err = ttlv.UnmarshalXML(in, &m)
	case "jreq":
		var m kmip.RequestMessage
		err = ttlv.UnmarshalJSON(in, &m)
	case "jresp":
		var m kmip.ResponseMessage
		err = ttlv.UnmarshalJSON(in, &m)
	default:
		return "err unknown-kind"
	}
	if err != nil {
		return "err"
	}
	return "ok"
}

func main() {
	out := bufio.NewWriter(os.Stdout)
	defer out.Flush()
	fmt.Fprintf(out, "probe32 %s intbits=%d\n", runtime.GOARCH, 32<<(^uint(0)>>63))
	out.Flush()
	sc := bufio.NewScanner(os.Stdin)
	sc.Buffer(make([]byte, 1<<20), 64<<20)
	for sc.Scan() {
		kind, hx, _ := strings.Cut(strings.TrimSpace(sc.Text()), " ")
		if kind == "" {
			continue
		}
		var in []byte
		if hx != "" && hx != "-" {
			b, err := hex.DecodeString(hx)
			if err != nil {
				fmt.Fprintln(out, "err bad-hex")
				out.Flush()
				continue
			}
			in = b
		}
		fmt.Fprintln(out, run(kind, in))
		out.Flush()
	}
}
