package main

// Additional jobs of the engines `lts.srv` (C08) and `lts.server` (C16) — run in the same child
// processes as the jobs of srv.go — and the in-process engine `srv.http` (C08, kmipserver/http.go):
//
//	iso   one connection is BLOCKED (its handler does not return, its client does not read the response,
//	      its connect hook does not return, one of its goroutines is held at a yield point) while other
//	      connections must be accepted and completely served: anything the connections share that can be
//	      held by one of them (a server-wide lock around handlers, a bounded worker pool, the accept loop
//	      doing per-connection work) is caught here. Oracle only (no model line): the model's statement
//	      is that connections share nothing but the monotone contexts.
//	tls   the same server behind a TLS listener (the accepted connections are *tls.Conn over the in-memory
//	      pipes): a peer that never completes the handshake must neither keep other peers from being
//	      served nor keep Shutdown waiting (fix 791fe3d). TLS is not modelled: oracle only.

import (
	"bytes"
	"context"
	"crypto/ecdsa"
	"crypto/elliptic"
	"crypto/rand"
	"crypto/tls"
	"crypto/x509"
	"crypto/x509/pkix"
	"errors"
	"fmt"
	"io"
	"math/big"
	"net"
	"net/http"
	"net/http/httptest"
	"runtime"
	"strconv"
	"strings"
	"sync"
	"time"

	"github.com/ovh/kmip-go"
	"github.com/ovh/kmip-go/kmipserver"
	"github.com/ovh/kmip-go/payloads"
	"github.com/ovh/kmip-go/ttlv"

	"verifharness/internal/report"
)

// ---------------------------------------------------------------------------------------------
// TLS over the in-memory network

type tlsMemListener struct {
	*memListener
	cfg *tls.Config
}

func (l *tlsMemListener) Accept() (net.Conn, error) {
	c, err := l.memListener.Accept()
	if err != nil {
		return nil, err
	}
	return tls.Server(c, l.cfg), nil
}

var (
	tlsCfgOnce sync.Once
	tlsCfg     *tls.Config
)

// harnessTLSConfig: a throw-away self-signed certificate. Session tickets are disabled: the pipes are
// unbuffered, and a ticket written by the server after the handshake while the client is writing its
// request would block both.
func harnessTLSConfig() *tls.Config {
	tlsCfgOnce.Do(func() {
		key, err := ecdsa.GenerateKey(elliptic.P256(), rand.Reader)
		if err != nil {
			panic(err)
		}
		tmpl := &x509.Certificate{SerialNumber: big.NewInt(1), Subject: pkix.Name{CommonName: "verif-harness"},
			NotBefore: time.Now().Add(-time.Hour), NotAfter: time.Now().Add(24 * time.Hour),
			KeyUsage: x509.KeyUsageDigitalSignature, ExtKeyUsage: []x509.ExtKeyUsage{x509.ExtKeyUsageServerAuth}, DNSNames: []string{"verif-harness"}}
		der, err := x509.CreateCertificate(rand.Reader, tmpl, tmpl, &key.PublicKey, key)
		if err != nil {
			panic(err)
		}
		tlsCfg = &tls.Config{Certificates: []tls.Certificate{{Certificate: [][]byte{der}, PrivateKey: key}},
			SessionTicketsDisabled: true, MinVersion: tls.VersionTLS12}
	})
	return tlsCfg
}

// tlsDial: connect, complete the handshake as a client (bounded).
func tlsDial(l *memListener, id int, timeout time.Duration) (*tls.Conn, *memConn, error) {
	raw, err := l.dial(id, timeout)
	if err != nil {
		return nil, nil, err
	}
	tc := tls.Client(raw, &tls.Config{InsecureSkipVerify: true, ServerName: "verif-harness"})
	ctx, cancel := context.WithTimeout(context.Background(), timeout)
	defer cancel()
	if err := tc.HandshakeContext(ctx); err != nil {
		_ = raw.Close()
		return nil, raw, fmt.Errorf("TLS handshake: %w", err)
	}
	return tc, raw, nil
}

var errNotTheAnswer = errors.New("wrong response")

// exchange: one request, one response, bounded.
func exchange(c net.Conn, idx int, beh string, timeout time.Duration) (respObs, error) {
	return exchangeAs(c, 0, idx, beh, timeout)
}

// exchangeAs: … as the idx-th request of connection `conn`; a response that is not the answer to exactly
// this request (another connection's, another request's, another payload) is an error.
func exchangeAs(c net.Conn, conn, idx int, beh string, timeout time.Duration) (respObs, error) {
	type out struct {
		o   respObs
		err error
	}
	ch := make(chan out, 1)
	go func() {
		if _, err := c.Write(connRequest(conn, idx, beh, 0)); err != nil {
			ch <- out{err: fmt.Errorf("write: %w", err)}
			return
		}
		var resp kmip.ResponseMessage
		st := ttlv.NewStream(c, 1<<20)
		if err := st.Recv(&resp); err != nil {
			ch <- out{err: fmt.Errorf("read: %w", err)}
			return
		}
		o := observeResponse(&resp)
		if o.ID != idx || o.Conn != conn || (o.Status == uint32(kmip.ResultStatusSuccess) && o.Echo != requestUID(conn, idx, beh, 0)) {
			ch <- out{o: o, err: fmt.Errorf("%w: the response received is not the answer to the request sent: it answers request %d of connection %d (payload %.40q), sent request %d of connection %d (%.40q)", errNotTheAnswer, o.ID, o.Conn, o.Echo, idx, conn, requestUID(conn, idx, beh, 0))}
			return
		}
		ch <- out{o: o}
	}()
	select {
	case r := <-ch:
		return r.o, r.err
	case <-time.After(timeout):
		return respObs{}, fmt.Errorf("no response within %v", timeout)
	}
}

// teardown: Shutdown must return, Serve must return the shutdown error, nothing may be left.
func teardown(ts *testServer, res *ltsRes, prefix string, limit time.Duration) (took time.Duration) {
	done := make(chan struct{})
	t0 := time.Now()
	go func() { _ = ts.srv.Shutdown(); close(done) }()
	select {
	case <-done:
		took = time.Since(t0)
	case <-time.After(limit):
		took = limit
		res.Viol = append(res.Viol, violOut{"stays-available", prefix + "shutdown-hangs", fmt.Sprintf("Shutdown did not return within %v after the scenario", limit)})
	}
	select {
	case err := <-ts.serveC:
		if !errors.Is(err, kmipserver.ErrShutdown) {
			res.Viol = append(res.Viol, violOut{"stays-available", prefix + "serve-returned", fmt.Sprintf("Serve returned %v", err)})
		}
	case <-time.After(2 * time.Second):
		res.Viol = append(res.Viol, violOut{"stays-available", prefix + "serve-not-returned", "Serve did not return after Shutdown"})
	}
	return took
}

// waitFor polls a condition.
func waitFor(cond func() bool, max time.Duration) bool {
	deadline := time.Now().Add(max)
	for !cond() {
		if time.Now().After(deadline) {
			return false
		}
		time.Sleep(500 * time.Microsecond)
	}
	return true
}

// ---------------------------------------------------------------------------------------------
// iso: a blocked connection and its neighbours

type isoScen struct {
	Block string `json:"block"` // handler | noread | hook | p:beforeSend | p:sendLoaded | p:readBeforeRx
	N     int    `json:"n"`     // connections that must be served meanwhile
	TLS   bool   `json:"tls"`
}

func (s *isoScen) text() string {
	t := "block=" + s.Block + ",n=" + strconv.Itoa(s.N)
	if s.TLS {
		t += ",tls=1"
	}
	return t
}

var isoBlocks = []string{"handler", "noread", "hook", "p:beforeSend", "p:sendLoaded", "p:readBeforeRx"}

func runIsoJob(job *ltsJob) *ltsRes {
	sc := job.Iso
	res := &ltsRes{Idx: job.Idx}
	add := func(oracle, key, detail string) { res.Viol = append(res.Viol, violOut{oracle, "srv:" + key, detail}) }
	if sc.Block == "noread" {
		// few processors: whatever the goroutines of different connections share per processor (sync.Pool
		// caches, …) is then really shared between the blocked connection and its neighbours
		defer runtime.GOMAXPROCS(runtime.GOMAXPROCS(2))
	}
	ts := newTestServerOn(sc.TLS, nil)
	w := ts.w
	w.blockCh = make(chan struct{})
	a := w.info(1)
	switch {
	case sc.Block == "hook":
		a.hookGate = make(chan struct{})
	case strings.HasPrefix(sc.Block, "p:"):
		a.point = sc.Block[2:]
	}
	ts.start()
	dialAny := func(id int) (net.Conn, error) {
		if sc.TLS {
			// the blocked connection's handshake needs its client too
			c, _, err := tlsDial(ts.l, id, 2*time.Second)
			if err != nil {
				return nil, err
			}
			return c, nil
		}
		return ts.l.dial(id, 2*time.Second)
	}
	var ca net.Conn
	var err error
	if sc.Block == "hook" && sc.TLS {
		// the hook runs after the handshake: the handshake completes, the hook then blocks
		ca, err = dialAny(1)
	} else {
		ca, err = dialAny(1)
	}
	if err != nil {
		res.Error = "iso: the connection to be blocked could not be established: " + err.Error()
		return res
	}
	// drive connection A into its blocked state
	reached := false
	switch sc.Block {
	case "handler":
		go func() { _, _ = ca.Write(connRequest(1, 0, "block", 0)) }()
		reached = waitFor(func() bool { return a.starts.Load() >= 1 }, 2*time.Second)
	case "noread":
		go func() { _, _ = ca.Write(connRequest(1, 0, "ok", 0)) }()
		reached = waitFor(func() bool { return a.handlerEnds.Load() > 0 }, 2*time.Second)
		time.Sleep(10 * time.Millisecond) // the writer is now in Write, the owner waits for it
	case "hook":
		select {
		case <-a.hookIn:
			reached = true
		case <-time.After(2 * time.Second):
		}
	default:
		go func() { _, _ = ca.Write(connRequest(1, 0, "ok", 0)) }()
		select {
		case <-a.reached:
			reached = true
		case <-time.After(2 * time.Second):
		}
	}
	if !reached {
		res.Error = "iso: the blocked state `" + sc.Block + "` was not reached (director or scripted handler inert)"
		return res
	}
	// positive control of the goroutine profile: the blocked connection is alive
	// (polled: newConn starts the two loops in goroutines of their own, which may not have been scheduled
	// yet when the owner is already in its connect hook / handler — on a loaded machine a single snapshot
	// shows them missing)
	var pm, pr, pw int
	if !waitFor(func() bool { pm, pr, pw = connGoroutines(); return pm == 1 && pr == 1 && pw == 1 }, 2*time.Second) {
		res.Error = fmt.Sprintf("iso: goroutine profile with exactly one (blocked) connection: handleConn=%d readloop=%d writeloop=%d", pm, pr, pw)
		return res
	}
	res.count("iso.live-profile-ok")
	// the neighbours
	var wg sync.WaitGroup
	var mu sync.Mutex
	for i := 0; i < sc.N; i++ {
		wg.Add(1)
		go func() {
			defer wg.Done()
			id := 2 + i
			fail := func(step string, err error) {
				mu.Lock()
				if errors.Is(err, errNotTheAnswer) {
					add("answers", "response-of-another-request", fmt.Sprintf("while connection 1 is blocked (%s), connection %d, %s: %v", sc.Block, id, step, err))
					mu.Unlock()
					return
				}
				add("isolation", "other-connection-blocked", fmt.Sprintf("while connection 1 is blocked (%s), connection %d is not served: %s: %v", sc.Block, id, step, err))
				mu.Unlock()
			}
			c, err := dialAny(id)
			if err != nil {
				fail("connect", err)
				return
			}
			defer c.Close()
			behs := []string{"ok", "kerr:1", "pstr"}
			if sc.Block == "noread" {
				// the blocked connection's response is being written (its writer is inside Write, holding
				// whatever Send holds): many more responses are produced and written meanwhile
				for q := 0; q < 24; q++ {
					behs = append(behs, "ok")
				}
			}
			for k, beh := range behs {
				o, err := exchangeAs(c, id, k, beh, 2*time.Second)
				if err != nil {
					fail(fmt.Sprintf("request %d (%s)", k, beh), err)
					return
				}
				if (o.Status != uint32(kmip.ResultStatusSuccess)) != expectedFailed(beh) {
					fail(fmt.Sprintf("request %d (%s)", k, beh), fmt.Errorf("answered with id %d status %d", o.ID, o.Status))
					return
				}
			}
			mu.Lock()
			res.count("iso.neighbour-served")
			mu.Unlock()
		}()
	}
	wg.Wait()
	// release the blocked connection and end it
	close(w.blockCh)
	if a.hookGate != nil {
		close(a.hookGate)
	}
	close(a.release)
	if sc.Block != "hook" {
		// the blocked connection's own request is still to be answered — with ITS response, whatever the
		// neighbours have been sent meanwhile
		got := make(chan error, 1)
		go func() {
			var resp kmip.ResponseMessage
			st := ttlv.NewStream(ca, 1<<20)
			if err := st.Recv(&resp); err != nil {
				got <- fmt.Errorf("no response: %v", err)
				return
			}
			if o := observeResponse(&resp); o.ID != 0 || o.Conn != 1 || o.Status != uint32(kmip.ResultStatusSuccess) || !strings.HasSuffix(o.Echo, "c1.0.") {
				got <- fmt.Errorf("it received the response to request %d of connection %d (status %d, payload %.40q)", o.ID, o.Conn, o.Status, o.Echo)
				return
			}
			got <- nil
		}()
		select {
		case err := <-got:
			if err != nil {
				add("answers", "blocked-connection-response", fmt.Sprintf("once released, the connection that was blocked (%s) while its neighbours were served did not get the response to its own request: %v", sc.Block, err))
			} else {
				res.count("iso.blocked-answered")
			}
		case <-time.After(2 * time.Second):
			add("answers", "blocked-connection-response", fmt.Sprintf("once released, the connection that was blocked (%s) got no response within 2s", sc.Block))
		}
	}
	_ = ca.Close()
	if m, r, wr := settle(2 * time.Second); m+r+wr != 0 {
		add("keeps-goroutines", "kept-goroutines after-blocked", fmt.Sprintf("after the blocked connection (%s) was released and closed: handleConn=%d readloop=%d writeloop=%d", sc.Block, m, r, wr))
	}
	for id := 1; id <= sc.N+1; id++ {
		ci := w.info(id)
		if c, t := ci.connectN.Load(), ci.terminateN.Load(); c != 1 || t != 1 {
			add("hooks", "hook-count", fmt.Sprintf("connection %d: connect hook ran %d times, terminate hook %d times", id, c, t))
		}
	}
	res.takeControls(w)
	teardown(ts, res, "srv:", 6*time.Second)
	settle(time.Second)
	res.Outcomes = []string{"iso"}
	return res
}

// ---------------------------------------------------------------------------------------------
// tls

type tlsScen struct {
	Kind string `json:"kind"` // silent-peer | stalled-shutdown | served-shutdown
	Var  int    `json:"var"`  // what the stalling peer sends: 0 nothing, 1 the first bytes of a ClientHello record
}

func (s *tlsScen) text() string { return "kind=" + s.Kind + ",var=" + strconv.Itoa(s.Var) }

func runTLSJob(job *ltsJob) *ltsRes {
	sc := job.TLS
	res := &ltsRes{Idx: job.Idx}
	add := func(oracle, key, detail string) { res.Viol = append(res.Viol, violOut{oracle, "tls:" + key, detail}) }
	ts := newTestServerOn(true, nil)
	w := ts.w
	ts.start()
	stall := func(id int) (*memConn, error) {
		c, err := ts.l.dial(id, 2*time.Second)
		if err != nil {
			return nil, err
		}
		if sc.Var == 1 {
			// a TLS record header announcing a handshake message, then silence
			go func() { _, _ = c.Write([]byte{0x16, 0x03, 0x01, 0x00, 0xC8, 0x01, 0x00}) }()
		}
		return c, nil
	}
	limit := 1500 * time.Millisecond
	switch sc.Kind {
	case "silent-peer":
		p1, err := stall(1)
		if err != nil {
			// nobody accepts although the server has just been started
			add("isolation", "not-accepting", "the first connection was not accepted: "+err.Error())
			break
		}
		defer p1.Close()
		time.Sleep(5 * time.Millisecond)
		for id := 2; id <= 3; id++ {
			c, _, err := tlsDial(ts.l, id, 2*time.Second)
			if err != nil {
				add("isolation", "silent-peer-blocks-others", fmt.Sprintf("while a peer that does not complete its TLS handshake is connected, connection %d is not served: %v", id, err))
				break
			}
			o, err := exchange(c, 0, "ok", 2*time.Second)
			if err != nil || o.ID != 0 || o.Status != uint32(kmip.ResultStatusSuccess) {
				add("isolation", "silent-peer-blocks-others", fmt.Sprintf("while a peer that does not complete its TLS handshake is connected, connection %d got no proper answer: %v (id %d status %d)", id, err, o.ID, o.Status))
			} else {
				res.count("tls.neighbour-served")
			}
			_ = c.Close()
		}
		if n := w.info(1).connectN.Load(); n != 0 {
			add("hooks", "hook-before-handshake", "the connect hook ran for a peer that never completed its handshake")
		}
	case "stalled-shutdown":
		p1, err := stall(1)
		if err != nil {
			res.Error = "tls: dial: " + err.Error()
			return res
		}
		defer p1.Close()
		// the owner goroutine is in the handshake
		if !waitFor(func() bool { m, _, _ := connGoroutines(); return m == 1 }, 2*time.Second) {
			res.Error = "tls: the connection goroutine of the stalling peer is not in the profile"
			return res
		}
		res.count("tls.stalled-in-handshake")
	case "served-shutdown":
		c, _, err := tlsDial(ts.l, 1, 2*time.Second)
		if err != nil {
			add("answers", "not-served", "TLS client not served: "+err.Error())
			break
		}
		defer c.Close()
		if o, err := exchange(c, 0, "ok", 2*time.Second); err != nil || o.ID != 0 {
			add("answers", "not-served", fmt.Sprintf("TLS client got no proper answer: %v", err))
		} else {
			res.count("tls.served")
		}
		// (keep reading: the pipes are unbuffered and have no deadlines, the server's close_notify needs a reader)
		go func() { _, _ = io.Copy(io.Discard, c) }()
		if m, r, wr := connGoroutines(); m != 1 || r != 1 || wr != 1 {
			res.Error = fmt.Sprintf("tls: goroutine profile of one live TLS connection: handleConn=%d readloop=%d writeloop=%d", m, r, wr)
			return res
		}
	}
	res.takeControls(w)
	took := teardown(ts, res, "tls:", 6*time.Second)
	if took > limit && took < 6*time.Second {
		add("shutdown-returns", "shutdown-slow", fmt.Sprintf("Shutdown took %v with a peer stalled in / after the TLS handshake", took))
	}
	if m, r, wr := settle(1500 * time.Millisecond); m+r+wr != 0 {
		add("goroutines-end", "goroutines-left", fmt.Sprintf("connection goroutines left after Shutdown returned: M=%d R=%d W=%d", m, r, wr))
	}
	if sc.Kind == "served-shutdown" {
		ci := w.info(1)
		if c, t := ci.connectN.Load(), ci.terminateN.Load(); c != 1 || t != 1 {
			add("hooks", "hook-count", fmt.Sprintf("TLS connection: connect hook ran %d times, terminate hook %d times", c, t))
		}
	} else if c, t := w.info(1).connectN.Load(), w.info(1).terminateN.Load(); c != 0 || t != 0 {
		add("hooks", "hook-count", fmt.Sprintf("peer that never completed its handshake: connect hook ran %d times, terminate hook %d times", c, t))
	}
	res.Outcomes = []string{"tls"}
	return res
}

// reportExtraJob turns the result of an iso / tls job into counters and violations of `prop`.
func reportExtraJob(ctx *Ctx, prop, what, text string, jr *jobResult) {
	line := "# " + what + " " + text
	ctx.current = line
	if jr == nil {
		ctx.Res.Fail("no result for " + line)
		return
	}
	if jr.crashed {
		class := crashClass(jr.stderr)
		ctx.Res.Violate(report.Violation{Property: prop, Oracle: "no-crash", Key: what + ":crash " + class,
			Detail: "the server process died while running " + what + " " + text + ": " + class + " at " + crashFrames(jr.stderr), Line: line})
		return
	}
	if jr.res.Error != "" {
		ctx.Res.Fail(jr.res.Error + " [" + line + "]")
		return
	}
	for _, v := range jr.res.Viol {
		ctx.Res.Violate(report.Violation{Property: prop, Oracle: v.Oracle, Key: v.Key, Detail: v.Detail + " [" + text + "]", Line: line})
	}
	ctx.Add(line, "ok", true, prop)
}

// ---------------------------------------------------------------------------------------------
// engine srv.http: kmipserver.NewHTTPHandler (in process: ServeHTTP is an ordinary call)

func srvxHTTPBodies() map[string][3][]byte {
	// per content type: a decodable request is built by the caller; here: [well-formed but undecodable, not well-formed, empty structure]
	return map[string][3][]byte{
		"application/octet-stream": {
			{0x42, 0x00, 0x78, 0x01, 0, 0, 0, 16, 0x42, 0x00, 0x0D, 0x02, 0, 0, 0, 4, 0, 0, 0, 1, 0, 0, 0, 0},
			{0x42, 0x00, 0x78, 0x01, 0, 0, 0, 64, 0x42},
			{0x42, 0x00, 0x78, 0x01, 0, 0, 0, 0},
		},
		"text/xml": {
			[]byte(`<RequestMessage><BatchCount type="Integer" value="1"/></RequestMessage>`),
			[]byte(`<RequestMessage><BatchCount type="Integer"`),
			[]byte(`<RequestMessage></RequestMessage>`),
		},
		"application/json": {
			[]byte(`{"tag":"RequestMessage","value":[{"tag":"BatchCount","type":"Integer","value":1}]}`),
			[]byte(`{"tag":"RequestMessage","value":[`),
			[]byte(`{"tag":"RequestMessage","value":[]}`),
		},
	}
}

func runSrvHTTP(ctx *Ctx) {
	quietSlog()
	exec := kmipserver.NewBatchExecutor()
	exec.Route(kmip.OperationActivate, kmipserver.HandleFunc(scriptedHandler))
	hdl := kmipserver.NewHTTPHandler(exec)
	type codec struct {
		mime      string
		marshal   func(any) []byte
		unmarshal func([]byte, any) error
	}
	codecs := []codec{
		{"application/octet-stream", ttlv.MarshalTTLV, ttlv.UnmarshalTTLV},
		{"text/xml", ttlv.MarshalXML, ttlv.UnmarshalXML},
		{"application/json", ttlv.MarshalJSON, ttlv.UnmarshalJSON},
	}
	serve := func(what, mime string, body []byte) (rec *httptest.ResponseRecorder, panicked string) {
		r := httptest.NewRequest(http.MethodPost, "/kmip", bytes.NewReader(body))
		r.Header.Set("Content-Type", mime)
		r.Header.Set("Content-Length", strconv.Itoa(len(body)))
		rec = httptest.NewRecorder()
		_, panicked = guard(what, func() int { hdl.ServeHTTP(rec, r); return 0 })
		return
	}
	viol := func(oracle, key, detail, line string) {
		ctx.Res.Violate(report.Violation{Property: "C08", Oracle: oracle, Key: "http:" + key, Detail: detail, Line: line})
	}
	for _, c := range codecs {
		// 1. every handler outcome: one response message with one item, failed unless the handler succeeded
		behs := append(append([]string{}, behaviours...), poisonBehaviours...)
		for i, beh := range behs {
			line := "# srv.http " + c.mime + " handler=" + beh
			ctx.current = line
			req := kmip.NewRequestMessage(kmip.V1_4, &payloads.ActivateRequestPayload{UniqueIdentifier: beh})
			req.BatchItem[0].UniqueBatchItemID = []byte{0, 0, byte(i >> 8), byte(i)}
			rec, p := serve(line, c.mime, c.marshal(&req))
			impl := "ok"
			switch {
			case p != "":
				// (net/http recovers it per request: the process survives, the request is not answered)
				impl = "panic"
				viol("handler-outcome", "handler-outcome-escapes", "ServeHTTP panicked ("+panicKey(p)+"): the outcome `"+beh+"` of the operation handler is not turned into a response item", line)
			case rec.Code != http.StatusOK:
				viol("answers", "status", fmt.Sprintf("HTTP status %d for a well-formed request", rec.Code), line)
			default:
				var resp kmip.ResponseMessage
				if err := c.unmarshal(rec.Body.Bytes(), &resp); err != nil {
					viol("answers", "response-undecodable", "the response body is not a response message: "+err.Error(), line)
				} else if len(resp.BatchItem) != 1 {
					viol("answers", "item-count", fmt.Sprintf("%d response items for one request item", len(resp.BatchItem)), line)
				} else if bi := resp.BatchItem[0]; (bi.ResultStatus != kmip.ResultStatusSuccess) != expectedFailed(beh) {
					viol("handler-outcome", "status-not-outcome", fmt.Sprintf("handler outcome %s answered with status %d", beh, bi.ResultStatus), line)
				} else if !bytes.Equal(bi.UniqueBatchItemID, req.BatchItem[0].UniqueBatchItemID) {
					viol("answers", "item-id", "the response item does not carry the request item's id", line)
				}
			}
			ctx.Add(line, impl, true, "C08")
			ctx.Res.Count("http.handler")
		}
		// 2. bodies that arrive completely but cannot be decoded: ONE invalid-message response
		for v, body := range srvxHTTPBodies()[c.mime] {
			line := fmt.Sprintf("# srv.http %s undecodable=%d %x", c.mime, v, body)
			ctx.current = line
			rec, p := serve(line, c.mime, body)
			impl := "ok"
			if p != "" {
				impl = "panic"
				viol("no-crash", "panic "+panicKey(p), "ServeHTTP panicked on an undecodable body", line)
			} else {
				var resp kmip.ResponseMessage
				if err := c.unmarshal(rec.Body.Bytes(), &resp); err != nil || rec.Code != http.StatusOK {
					viol("invalid-message", "undecodable-not-answered", fmt.Sprintf("HTTP %d, body not a response message (%v)", rec.Code, err), line)
				} else if len(resp.BatchItem) != 1 || resp.BatchItem[0].ResultStatus != kmip.ResultStatusOperationFailed {
					viol("invalid-message", "undecodable-not-answered", fmt.Sprintf("%d items, status %v", len(resp.BatchItem), resp.BatchItem), line)
				} else if r := resp.BatchItem[0].ResultReason; r != kmip.ResultReasonInvalidMessage {
					viol("invalid-message", "undecodable-not-invalid-message", fmt.Sprintf("a request that arrived completely but cannot be decoded is answered with result reason %s, not Invalid Message", ttlv.EnumStr(r)), line)
				}
			}
			ctx.Add(line, impl, true, "C08")
			ctx.Res.Count("http.undecodable")
		}
	}
	// 2b. the tree-mutation family of undecodable requests (srv_undec.go) in every content type: each
	//     body arrives completely, is a well-formed document of its format and is no request - ONE
	//     invalid-message item. (A member the format's decoder accepts as a request is no member there.)
	if fam, ferr := undecFamily(); ferr != "" {
		ctx.Res.Fail("srv.http: undecodable-request family: " + ferr)
	} else {
		for _, c := range codecs {
			n := 0
			for _, mb := range fam {
				var body []byte
				if c.mime == "application/octet-stream" {
					body = mb.TTLV
				} else {
					func() {
						defer func() { _ = recover() }()
						body = c.marshal(mb.V)
					}()
					var back ttlv.Value
					if body == nil || c.unmarshal(body, &back) != nil || c.unmarshal(body, &kmip.RequestMessage{}) == nil {
						continue // not expressible in this format / not well-formed there / decodable there
					}
				}
				n++
				line := fmt.Sprintf("# srv.http %s undecodable=%s %x", c.mime, mb.Name, body)
				ctx.current = line
				rec, p := serve(line, c.mime, body)
				impl := "ok"
				if p != "" {
					impl = "panic"
					viol("no-crash", "panic "+panicKey(p), "ServeHTTP panicked on an undecodable body", line)
				} else {
					var resp kmip.ResponseMessage
					if err := c.unmarshal(rec.Body.Bytes(), &resp); err != nil || rec.Code != http.StatusOK {
						viol("invalid-message", "undecodable-not-answered", fmt.Sprintf("HTTP %d, body not a response message (%v)", rec.Code, err), line)
					} else if len(resp.BatchItem) != 1 || resp.BatchItem[0].ResultStatus != kmip.ResultStatusOperationFailed {
						viol("invalid-message", "undecodable-not-answered", fmt.Sprintf("%d items, status %v", len(resp.BatchItem), resp.BatchItem), line)
					} else if r := resp.BatchItem[0].ResultReason; r != kmip.ResultReasonInvalidMessage {
						viol("invalid-message", "undecodable-not-invalid-message", fmt.Sprintf("a request that arrived completely but cannot be decoded is answered with result reason %s, not Invalid Message", ttlv.EnumStr(r)), line)
					}
				}
				ctx.Add(line, impl, true, "C08")
				ctx.Res.Count("http.undecodable.family")
			}
			if n < len(fam)/2 {
				ctx.Res.Fail(fmt.Sprintf("srv.http: only %d of the %d members of the undecodable-request family could be sent as %s", n, len(fam), c.mime))
			}
		}
	}
	// 3. transport-level refusals: no panic, an HTTP error status, no KMIP processing
	good := kmip.NewRequestMessage(kmip.V1_4, &payloads.ActivateRequestPayload{UniqueIdentifier: "ok"})
	gb := ttlv.MarshalTTLV(&good)
	type hcase struct {
		name, method, mime, clen string
		body                     []byte
	}
	for _, hc := range []hcase{
		{"get", http.MethodGet, "application/octet-stream", strconv.Itoa(len(gb)), gb},
		{"mime", http.MethodPost, "text/plain", strconv.Itoa(len(gb)), gb},
		{"nolen", http.MethodPost, "application/octet-stream", "", gb},
		{"neglen", http.MethodPost, "application/octet-stream", "-5", gb},
		{"biglen", http.MethodPost, "application/octet-stream", "99999999", gb},
		{"shortbody", http.MethodPost, "application/octet-stream", strconv.Itoa(len(gb) + 40), gb},
		{"nobody", http.MethodPost, "application/octet-stream", "16", nil},
	} {
		line := "# srv.http refuse=" + hc.name
		ctx.current = line
		r := httptest.NewRequest(hc.method, "/kmip", bytes.NewReader(hc.body))
		r.Header.Set("Content-Type", hc.mime)
		if hc.clen != "" {
			r.Header.Set("Content-Length", hc.clen)
		}
		rec := httptest.NewRecorder()
		_, p := guard(line, func() int { hdl.ServeHTTP(rec, r); return 0 })
		impl := "ok"
		if p != "" {
			impl = "panic"
			viol("no-crash", "panic "+panicKey(p), "ServeHTTP panicked on a refused request ("+hc.name+")", line)
		} else if rec.Code < 400 {
			viol("answers", "refusal-status", fmt.Sprintf("HTTP status %d for a request that must be refused (%s)", rec.Code, hc.name), line)
		}
		ctx.Add(line, impl, false, "C08")
		ctx.Res.Count("http.refuse")
	}
}

func init() {
	register(&Engine{
		Name: "srv.http",
		Rule: "kmipserver.NewHTTPHandler(BatchExecutor).ServeHTTP called in process for the 3 content types x {every scripted handler outcome incl. poisoned error / panic values, 3 bodies that arrive completely but cannot be decoded (wrong structure, truncated, empty), the family of well-formed undecodable requests made by tree-level mutation of real requests (structure ends early at every depth / empty / element dropped / extra / repeated / wrong type / wrong tag / wrong root), 7 transport-level refusals}; oracles: no panic leaves ServeHTTP, one response message with one item carrying the request item's id, failed unless the handler succeeded; an undecodable body is answered with ONE item with result reason Invalid Message; refusals get an HTTP error status; impl-only lines (no model counterpart)",
		Run:  runSrvHTTP,
	})
}
