package main

// Message-only part of the `key` engine (property C14): what is extracted after transport depends only on the
// message transported, not on what the variable it was decoded into held before.
//
// The Lean model is functional — decoding is a function from a document to a value, there is no "destination
// that already holds something" — so this clause cannot be said in it: this part is an oracle on the real code.
// (The object-reuse part, key_reuse.go, compares accessors with a copy of the content the object HAS; content
// left over from an earlier message by the decoder itself is part of that content and invisible there.)
//
// One case = one carrier of key material (Get / Export response payload, Register / Import request payload),
// one ordered pair of messages (A then B), one encoding, one route:
//   tag   A is decoded into a new payload variable under its Request / Response Payload tag, then B is decoded
//         into the SAME variable;
//   msg   the same with whole request / response messages and one message variable (the payload judged is the
//         one of the last batch item);
//   conn  a real client on one connection: Get A then Get B (the responses are decoded by the client), Register
//         A then Register B (the requests are decoded by the server) — the client API has no response variable
//         a caller could hand in again, so this is the closest the public API gets.
// Reference: B decoded into a FRESH variable (for conn: the tag route in binary TTLV).
// Oracle transport-message-only: the outcome of the decoding, the exported content of the object and the result of
// every parameterless method of the payload, of the object and of its key block (found by reflection, compared
// number by number, byte by byte, error against error) are the same on both.  Judged at payload / message level
// only: the unchanged library allocates a new object there, whereas decoding into an existing OBJECT merges by
// design.  Payload fields outside the object (identifier, attributes, flags) are compared too but only counted
// (fresh.outside-object-differs.*): they are not key material.
//
// Line: `#key.fresh <carrier> <route> <enc> <decoration A><decoration B> <shape A> | <shape B>` — decoration b =
// the bare key block, f = the optional parts filled (Cryptographic Algorithm / Length, Key Wrapping Data,
// attributes inside the key value, the payload's own optional fields).

import (
	"context"
	"crypto/elliptic"
	"fmt"
	"math/big"
	"reflect"
	"strings"
	"time"

	kmip "github.com/ovh/kmip-go"
	"github.com/ovh/kmip-go/payloads"
	"github.com/ovh/kmip-go/ttlv"
)

type keyFreshCarrier struct {
	name    string
	request bool
	op      kmip.Operation
	typ     reflect.Type
	mk      func(o kmip.Object, ot kmip.ObjectType, id string, full bool) kmip.OperationPayload
}

func keyFreshAttrs(ot kmip.ObjectType, full bool) []kmip.Attribute {
	out := []kmip.Attribute{{AttributeName: kmip.AttributeNameObjectType, AttributeValue: ot}}
	if full {
		out = append(out, keySampleAttrs(2)...)
	}
	return out
}

var keyFreshCarriers = []keyFreshCarrier{
	{name: "get", op: kmip.OperationGet, typ: reflect.TypeOf(payloads.GetResponsePayload{}),
		mk: func(o kmip.Object, ot kmip.ObjectType, id string, _ bool) kmip.OperationPayload {
			return &payloads.GetResponsePayload{ObjectType: ot, UniqueIdentifier: id, Object: o}
		}},
	{name: "export", op: kmip.OperationExport, typ: reflect.TypeOf(payloads.ExportResponsePayload{}),
		mk: func(o kmip.Object, ot kmip.ObjectType, id string, full bool) kmip.OperationPayload {
			return &payloads.ExportResponsePayload{ObjectType: ot, UniqueIdentifier: id, Attribute: keyFreshAttrs(ot, full), Object: o}
		}},
	{name: "register", request: true, op: kmip.OperationRegister, typ: reflect.TypeOf(payloads.RegisterRequestPayload{}),
		mk: func(o kmip.Object, ot kmip.ObjectType, _ string, full bool) kmip.OperationPayload {
			pl := &payloads.RegisterRequestPayload{ObjectType: ot, Object: o}
			if full {
				pl.TemplateAttribute.Attribute = keySampleAttrs(2)
			}
			return pl
		}},
	{name: "import", request: true, op: kmip.OperationImport, typ: reflect.TypeOf(payloads.ImportRequestPayload{}),
		mk: func(o kmip.Object, ot kmip.ObjectType, id string, full bool) kmip.OperationPayload {
			pl := &payloads.ImportRequestPayload{UniqueIdentifier: id, Attribute: keyFreshAttrs(ot, full), Object: o}
			if full {
				pl.ReplaceExisting, pl.KeyWrapType = true, kmip.AsRegistered
			}
			return pl
		}},
}

// keyFreshDecorate fills the optional parts of the key block that the shapes leave out.
func keyFreshDecorate(o kmip.Object, full bool) {
	kb := keyKbOf(o)
	if kb == nil || !full {
		return
	}
	kb.CryptographicAlgorithm, kb.CryptographicLength = kmip.CryptographicAlgorithmAES, 256
	kb.KeyWrappingData = &kmip.KeyWrappingData{WrappingMethod: kmip.WrappingMethodEncrypt,
		EncryptionKeyInformation: &kmip.EncryptionKeyInformation{UniqueIdentifier: "kek"}, IVCounterNonce: []byte{1, 2, 3, 4}}
	if kb.KeyValue != nil && kb.KeyValue.Plain != nil && len(kb.KeyValue.Plain.Attribute) == 0 {
		kb.KeyValue.Plain.Attribute = keySampleAttrs(2)
	}
}

func keyFreshObject(sh *keyShObj, deco byte) kmip.Object {
	o := sh.toGo()
	keyFreshDecorate(o, deco == 'f')
	return o
}

func keyFreshNewEncoder(enc string) ttlv.Encoder {
	switch enc {
	case "xml":
		return ttlv.NewXMLEncoder()
	case "json":
		return ttlv.NewJSONEncoder()
	}
	return ttlv.NewTTLVEncoder()
}

func keyFreshNewDecoder(enc string, doc []byte) (ttlv.Decoder, error) {
	switch enc {
	case "xml":
		return ttlv.NewXMLDecoder(doc)
	case "json":
		return ttlv.NewJSONDecoder(doc)
	}
	return ttlv.NewTTLVDecoder(doc)
}

// keyFreshDoc: the message of one carrier as a document of one route and encoding (nil: cannot be written).
func keyFreshDoc(c *keyFreshCarrier, route string, enc keyEnc, pl kmip.OperationPayload) []byte {
	doc, p := guard("marshal", func() []byte {
		if route == "msg" {
			if c.request {
				return enc.marshal(&kmip.RequestMessage{Header: kmip.RequestHeader{ProtocolVersion: kmip.V1_4, BatchCount: 1},
					BatchItem: []kmip.RequestBatchItem{{Operation: c.op, RequestPayload: pl}}})
			}
			return enc.marshal(&kmip.ResponseMessage{Header: kmip.ResponseHeader{ProtocolVersion: kmip.V1_4, TimeStamp: time.Unix(1700000000, 0), BatchCount: 1},
				BatchItem: []kmip.ResponseBatchItem{{Operation: c.op, ResultStatus: kmip.ResultStatusSuccess, ResponsePayload: pl}}})
		}
		e := keyFreshNewEncoder(enc.name)
		tag := kmip.TagResponsePayload
		if c.request {
			tag = kmip.TagRequestPayload
		}
		e.TagAny(tag, pl)
		return append([]byte{}, e.Bytes()...)
	})
	if p != "" || len(doc) == 0 {
		return nil
	}
	return doc
}

// keyFreshDst: a new destination variable of a route.
func keyFreshDst(c *keyFreshCarrier, route string) any {
	if route == "msg" {
		if c.request {
			return new(kmip.RequestMessage)
		}
		return new(kmip.ResponseMessage)
	}
	return reflect.New(c.typ).Interface()
}

// keyFreshDecode decodes a document into a destination (a private copy of the document: decoded material must not
// depend on the buffer either, which is the business of the input-aliasing oracle).
func keyFreshDecode(c *keyFreshCarrier, route string, enc keyEnc, doc []byte, dst any) string {
	buf := append([]byte{}, doc...)
	err, p := guard("unmarshal", func() error {
		if route == "msg" {
			return enc.unmarshal(buf, dst)
		}
		d, err := keyFreshNewDecoder(enc.name, buf)
		if err != nil {
			return err
		}
		tag := kmip.TagResponsePayload
		if c.request {
			tag = kmip.TagRequestPayload
		}
		return d.TagAny(tag, dst)
	})
	switch {
	case p != "":
		return "panic " + panicKey(p)
	case err != nil:
		return "err"
	}
	return "ok"
}

// keyFreshPayloadOf: the payload a destination holds now (msg: the one of the last batch item), as a pointer value.
func keyFreshPayloadOf(route string, dst any) reflect.Value {
	if route != "msg" {
		return reflect.ValueOf(dst)
	}
	var pl kmip.OperationPayload
	switch m := dst.(type) {
	case *kmip.RequestMessage:
		if n := len(m.BatchItem); n > 0 {
			pl = m.BatchItem[n-1].RequestPayload
		}
	case *kmip.ResponseMessage:
		if n := len(m.BatchItem); n > 0 {
			pl = m.BatchItem[n-1].ResponsePayload
		}
	}
	if pl == nil {
		return reflect.Value{}
	}
	return reflect.ValueOf(pl)
}

type keyFreshView struct {
	valid   bool
	object  string // exported content of the object
	outside string // exported content of the payload's other fields
	accs    []keyReuseAcc
}

// keyFreshAccessors: every method without parameters of a payload (any carrier), of its object and of that
// object's key block.
func keyFreshAccessors(pv reflect.Value) []keyReuseAcc {
	var out []keyReuseAcc
	add := func(prefix string, recv reflect.Value) {
		t := recv.Type()
		for i := 0; i < t.NumMethod(); i++ {
			m := t.Method(i)
			if m.Type.NumIn() != 1 || m.Type.NumOut() == 0 || m.Type.NumOut() > 2 {
				continue
			}
			if m.Type.NumOut() == 2 && m.Type.Out(1) != keyErrorT {
				continue
			}
			out = append(out, keyReuseAcc{prefix + "." + m.Name, recv, m})
		}
	}
	add(pv.Type().Elem().Name(), pv)
	of := pv.Elem().FieldByName("Object")
	if !of.IsValid() || of.IsNil() {
		return out
	}
	rv := of.Elem()
	if rv.Kind() == reflect.Ptr && !rv.IsNil() {
		add(rv.Type().Elem().Name(), rv)
		if kb := rv.Elem().FieldByName("KeyBlock"); kb.IsValid() && kb.CanAddr() {
			add("KeyBlock", kb.Addr())
		}
	}
	return out
}

func keyFreshViewOf(pv reflect.Value) keyFreshView {
	if !pv.IsValid() || pv.Kind() != reflect.Ptr || pv.IsNil() || pv.Elem().Kind() != reflect.Struct {
		return keyFreshView{}
	}
	v := keyFreshView{valid: true}
	var ob, ou strings.Builder
	st := pv.Elem()
	for i := 0; i < st.NumField(); i++ {
		f := st.Type().Field(i)
		if f.PkgPath != "" {
			continue
		}
		if f.Name == "Object" {
			keyCanon(&ob, st.Field(i))
			continue
		}
		ou.WriteString(f.Name + "=")
		keyCanon(&ou, st.Field(i))
		ou.WriteByte(' ')
	}
	v.object, v.outside = ob.String(), ou.String()
	v.accs = keyFreshAccessors(pv)
	return v
}

// keyFreshFirstDiff: where two canonical texts part (for the report).
func keyFreshFirstDiff(a, b string) string {
	i := 0
	for i < len(a) && i < len(b) && a[i] == b[i] {
		i++
	}
	lo := i - 60
	if lo < 0 {
		lo = 0
	}
	cut := func(s string) string {
		hi := i + 60
		if hi > len(s) {
			hi = len(s)
		}
		return s[lo:hi]
	}
	return fmt.Sprintf("…%s… / …%s…", cut(a), cut(b))
}

// keyFreshJudge compares the payload decoded into a used variable with the one decoded into a fresh variable.
func keyFreshJudge(env *keyEnv, cname, line, how string, outUsed, outFresh string, used, fresh reflect.Value) string {
	ctx := env.ctx
	outcome := "ok"
	n := 0
	report := func(key, detail string) {
		outcome = "violation"
		n++
		if n <= 3 {
			keyViolate(ctx, "transport-message-only", "key:decode-stale:"+cname+":"+key, detail+" ["+keyAbbrev(line)+"]", line)
		}
	}
	if outUsed != outFresh {
		report("decode-outcome", fmt.Sprintf("decoding the second message %s: %s; into a fresh variable: %s", how, outUsed, outFresh))
		return outcome
	}
	if outFresh != "ok" {
		ctx.Res.Count("fresh.second-undecodable")
		return outcome
	}
	vu, vf := keyFreshViewOf(used), keyFreshViewOf(fresh)
	if vu.valid != vf.valid {
		report("payload-missing", fmt.Sprintf("second message %s: payload present=%v; fresh variable: present=%v", how, vu.valid, vf.valid))
		return outcome
	}
	if !vf.valid {
		ctx.Res.Count("fresh.no-payload")
		return outcome
	}
	if vu.object != vf.object {
		report("object-content", fmt.Sprintf("the object of the second message %s differs from the object of the same message decoded into a fresh variable: %s", how, keyFreshFirstDiff(vu.object, vf.object)))
	}
	if vu.outside != vf.outside {
		ctx.Res.Count("fresh.outside-object-differs." + cname)
	}
	if len(vu.accs) != len(vf.accs) {
		report("accessor-list", fmt.Sprintf("second message %s: %d accessors, fresh variable: %d", how, len(vu.accs), len(vf.accs)))
		return outcome
	}
	for i := range vu.accs {
		if vu.accs[i].name != vf.accs[i].name {
			report("accessor-list", "accessor lists differ: "+vu.accs[i].name+" / "+vf.accs[i].name)
			return outcome
		}
		got, ref := vu.accs[i].call(0), vf.accs[i].call(0)
		if got != ref {
			report(vu.accs[i].name, fmt.Sprintf("%s on the second message %s returns %s; on the same message decoded into a fresh variable it returns %s", vu.accs[i].name, how, keyAbbrev(got), keyAbbrev(ref)))
		}
		ctx.Res.Count("fresh.acc." + strings.SplitN(ref, " ", 2)[0])
	}
	return outcome
}

func keyFreshCarrierNamed(name string) *keyFreshCarrier {
	for i := range keyFreshCarriers {
		if keyFreshCarriers[i].name == name {
			return &keyFreshCarriers[i]
		}
	}
	return nil
}

// keyFreshCase: one carrier, route, encoding and ordered pair of messages.
func keyFreshCase(env *keyEnv, c *keyFreshCarrier, route string, enc keyEnc, deco string, a, b *keyShObj) {
	ctx := env.ctx
	line := fmt.Sprintf("#key.fresh %s %s %s %s %s | %s", c.name, route, enc.name, deco, a.render(env.blobs), b.render(env.blobs))
	if env.seen[line] {
		return
	}
	env.seen[line] = true
	ctx.current = line
	if route == "conn" {
		keyFreshConnCase(env, c, line, deco, a, b)
		return
	}
	plA := c.mk(keyFreshObject(a, deco[0]), kmip.ObjectType(a.naturalType()), "id-first", deco[0] == 'f')
	plB := c.mk(keyFreshObject(b, deco[1]), kmip.ObjectType(b.naturalType()), "id-second", deco[1] == 'f')
	docA, docB := keyFreshDoc(c, route, enc, plA), keyFreshDoc(c, route, enc, plB)
	if docA == nil || docB == nil {
		ctx.Res.Count("fresh.skip.unwritable")
		return
	}
	used := keyFreshDst(c, route)
	if out := keyFreshDecode(c, route, enc, docA, used); out != "ok" {
		ctx.Res.Count("fresh.skip.first-undecodable")
		return
	}
	// the first message is USED before the variable receives the second one (accessors may keep state)
	if v := keyFreshViewOf(keyFreshPayloadOf(route, used)); v.valid {
		for i := range v.accs {
			v.accs[i].call(0)
		}
	}
	outUsed := keyFreshDecode(c, route, enc, docB, used)
	fresh := keyFreshDst(c, route)
	outFresh := keyFreshDecode(c, route, enc, docB, fresh)
	if c.name == "import" && a.kind != b.kind {
		// An Import request has no Object Type field: the decoder reads the type from the first Object Type entry
		// of the payload's attribute list, and the generic slice decoder APPENDS to the list a used variable already
		// holds (outside the object, merged by design like every list).  With objects of two kinds the used variable
		// therefore announces the first message's type; observed and counted, not judged.
		ctx.Res.Count("fresh.observed.import-other-kind.used=" + strings.SplitN(outUsed, " ", 2)[0] + ".fresh=" + strings.SplitN(outFresh, " ", 2)[0])
		return
	}
	outcome := keyFreshJudge(env, c.name, line, "into the variable that held the first message ("+route+", "+enc.name+")", outUsed, outFresh,
		keyFreshPayloadOf(route, used), keyFreshPayloadOf(route, fresh))
	ctx.current = line
	ctx.Add(line, outcome, true, "C14")
	ctx.Res.Count("fresh." + c.name + "." + route)
}

// keyFreshConnCase: the two messages travel one after the other over one real client connection.
func keyFreshConnCase(env *keyEnv, c *keyFreshCarrier, line, deco string, a, b *keyShObj) {
	ctx := env.ctx
	cl := env.client(kmip.V1_4)
	if cl == nil {
		return
	}
	enc := keyEncs[0]
	otB := kmip.ObjectType(b.naturalType())
	outcome := "ok"
	switch c.name {
	case "get":
		env.mu.Lock()
		env.store["fresh-first"], env.store["fresh-second"] = keyFreshObject(a, deco[0]), keyFreshObject(b, deco[1])
		env.mu.Unlock()
		defer func() {
			env.mu.Lock()
			delete(env.store, "fresh-first")
			delete(env.store, "fresh-second")
			env.mu.Unlock()
		}()
		type res struct {
			pl  *payloads.GetResponsePayload
			err error
		}
		get := func(id string) (res, string) {
			return guard("Get", func() res {
				cctx, cancel := context.WithTimeout(context.Background(), 5*time.Second)
				defer cancel()
				pl, err := cl.Get(id).ExecContext(cctx)
				return res{pl, err}
			})
		}
		r1, p := get("fresh-first")
		if p != "" || r1.err != nil || r1.pl == nil {
			ctx.Res.Count("fresh.skip.first-undecodable")
			env.freshClient(kmip.V1_4)
			return
		}
		if v := keyFreshViewOf(reflect.ValueOf(r1.pl)); v.valid {
			for i := range v.accs {
				v.accs[i].call(0)
			}
		}
		r2, p := get("fresh-second")
		outUsed := "ok"
		switch {
		case p != "":
			outUsed = "panic " + panicKey(p)
		case r2.err != nil || r2.pl == nil:
			outUsed = "err"
		}
		if outUsed != "ok" {
			env.freshClient(kmip.V1_4)
		}
		doc := keyFreshDoc(c, "tag", enc, c.mk(keyFreshObject(b, deco[1]), otB, "fresh-second", false))
		if doc == nil {
			ctx.Res.Count("fresh.skip.unwritable")
			return
		}
		fresh := keyFreshDst(c, "tag")
		outFresh := keyFreshDecode(c, "tag", enc, doc, fresh)
		outcome = keyFreshJudge(env, c.name, line, "received by a client after the first on the same connection", outUsed, outFresh, reflect.ValueOf(r2.pl), reflect.ValueOf(fresh))
	case "register":
		// the server of the engine keeps the object of each Register request it decoded
		reg := func(sh *keyShObj, d byte) (string, string) {
			pl := c.mk(keyFreshObject(sh, d), kmip.ObjectType(sh.naturalType()), "", d == 'f')
			type res struct {
				id  string
				err error
			}
			r, p := guard("Register", func() res {
				cctx, cancel := context.WithTimeout(context.Background(), 5*time.Second)
				defer cancel()
				resp, err := cl.Request(cctx, pl)
				if err != nil {
					return res{"", err}
				}
				if rp, ok := resp.(*payloads.RegisterResponsePayload); ok {
					return res{rp.UniqueIdentifier, nil}
				}
				return res{"", fmt.Errorf("unexpected response")}
			})
			switch {
			case p != "":
				return "", "panic " + panicKey(p)
			case r.err != nil:
				return "", "err"
			}
			return r.id, "ok"
		}
		take := func(id string) kmip.Object {
			env.mu.Lock()
			defer env.mu.Unlock()
			o := env.store[id]
			delete(env.store, id)
			return o
		}
		id1, out1 := reg(a, deco[0])
		if out1 != "ok" {
			ctx.Res.Count("fresh.skip.first-undecodable")
			env.freshClient(kmip.V1_4)
			return
		}
		if o := take(id1); o != nil {
			v := keyFreshViewOf(reflect.ValueOf(&payloads.RegisterRequestPayload{ObjectType: o.ObjectType(), Object: o}))
			for i := range v.accs {
				v.accs[i].call(0)
			}
		}
		id2, outUsed := reg(b, deco[1])
		if outUsed != "ok" {
			env.freshClient(kmip.V1_4)
		}
		var usedPl *payloads.RegisterRequestPayload
		if o := take(id2); o != nil {
			usedPl = &payloads.RegisterRequestPayload{ObjectType: otB, Object: o}
		}
		doc := keyFreshDoc(c, "tag", enc, c.mk(keyFreshObject(b, deco[1]), otB, "", false))
		if doc == nil {
			ctx.Res.Count("fresh.skip.unwritable")
			return
		}
		fresh := keyFreshDst(c, "tag").(*payloads.RegisterRequestPayload)
		outFresh := keyFreshDecode(c, "tag", enc, doc, fresh)
		if outUsed == "ok" && usedPl == nil {
			outUsed = "err"
		}
		// only the object reaches the handler's store: the template attributes are left out of the reference too
		fresh.TemplateAttribute = kmip.TemplateAttribute{}
		outcome = keyFreshJudge(env, c.name, line, "received by a server after the first on the same connection", outUsed, outFresh, reflect.ValueOf(usedPl), reflect.ValueOf(fresh))
	default:
		return
	}
	ctx.current = line
	ctx.Add(line, outcome, true, "C14")
	ctx.Res.Count("fresh." + c.name + ".conn")
}

// keyFreshShapes: the contents of the object-reuse part plus compressed curve points and an explicit
// "uncompressed" (the optional Key Compression Type present / absent), grouped by object kind.
func keyFreshShapes(env *keyEnv) map[string][]*keyShObj {
	out := keyReuseShapes(env)
	for _, ci := range keyCurves {
		if ci.name != "p256" && ci.name != "p384" {
			continue
		}
		k := keyECFromD(ci.curve, big.NewInt(2000+int64(ci.code)))
		comp := elliptic.MarshalCompressed(ci.curve, k.X, k.Y)
		pt := keyECPoint(k)
		out["pu"] = append(out["pu"],
			&keyShObj{kind: "pu", kb: keyShKeyBlock{format: 15, comp: 2, hasKV: true, plain: &keyShMaterial{ecdsaPub: &keyShEcPub{curve: ci.code, q: comp}}}},
			&keyShObj{kind: "pu", kb: keyShKeyBlock{format: 21, comp: 2, hasKV: true, plain: &keyShMaterial{ecPub: &keyShEcPub{curve: ci.code, q: comp}}}},
			&keyShObj{kind: "pu", kb: keyShKeyBlock{format: 21, comp: 1, hasKV: true, plain: &keyShMaterial{ecPub: &keyShEcPub{curve: ci.code, q: pt}}}},
		)
	}
	return out
}

var keyFreshRoutes = []string{"tag", "msg", "conn"}

func keyFreshDecoFor(i, j int) []string {
	return [][]string{{"bb", "fb"}, {"fb", "bf"}, {"bf", "ff"}}[(i+j)%3]
}

func keyRunFreshPart(env *keyEnv) {
	shapes := keyFreshShapes(env)
	allDeco := []string{"bb", "fb", "bf", "ff"}
	for _, kind := range keyReuseKinds {
		list := shapes[kind]
		for i, a := range list {
			for j, b := range list {
				if i == j {
					continue
				}
				decos := keyFreshDecoFor(i, j)
				if env.ctx.Thor {
					decos = allDeco
				}
				for ci := range keyFreshCarriers {
					c := &keyFreshCarriers[ci]
					for _, route := range keyFreshRoutes {
						for ei, enc := range keyEncs {
							if route == "conn" && (ei != 0 || (c.name != "get" && c.name != "register")) {
								continue
							}
							// quick: the message route and the connection route in one encoding / decoration per pair
							ds := decos
							if !env.ctx.Thor && route != "tag" {
								if route == "msg" && ei != (i+j)%3 {
									continue
								}
								ds = decos[:1]
							}
							for _, d := range ds {
								keyFreshCase(env, c, route, enc, d, a, b)
							}
						}
					}
				}
			}
		}
	}
	// the second message carries an object of another kind
	for _, pair := range [][2]string{{"pr", "pu"}, {"pu", "pr"}, {"sk", "sd"}, {"sd", "sk"}, {"sd", "ce"}, {"ce", "pr"}, {"pr", "sk"}, {"sk", "sp"}, {"pg", "sk"}} {
		la, lb := shapes[pair[0]], shapes[pair[1]]
		for i, a := range la {
			for j, b := range lb {
				if !env.ctx.Thor && (i+j)%4 != 0 {
					continue
				}
				for ci := range keyFreshCarriers {
					for ei, enc := range keyEncs {
						if env.ctx.Thor || ei == (i+j/4)%3 {
							keyFreshCase(env, &keyFreshCarriers[ci], "tag", enc, "fb", a, b)
						}
					}
				}
			}
		}
	}
}

// keyFreshReplay: `#key.fresh <carrier> <route> <enc> <decorations> <content A> | <content B>`
func keyFreshReplay(env *keyEnv, arg string) {
	f := strings.Fields(arg)
	if len(f) < 7 {
		return
	}
	c := keyFreshCarrierNamed(f[0])
	sep := -1
	for i, t := range f {
		if t == "|" {
			sep = i
		}
	}
	if c == nil || sep < 5 || sep == len(f)-1 || len(f[3]) != 2 {
		return
	}
	a, err := keyParseShObj(env.blobs, f[4:sep])
	if err != nil {
		env.ctx.Res.Fail("key fresh replay: " + err.Error())
		return
	}
	b, err := keyParseShObj(env.blobs, f[sep+1:])
	if err != nil {
		env.ctx.Res.Fail("key fresh replay: " + err.Error())
		return
	}
	keyFreshCase(env, c, f[1], keyEncNamed(f[2]), f[3], a, b)
}
