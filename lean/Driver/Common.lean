/-
  Shared helpers of the line-protocol driver (core Lean only).
-/
import KmipModel.Model.Syntax
open Kmip

namespace Driver

def renderRes (r : Res String) : String :=
  match r with
  | .ok s => "ok " ++ s
  | .err _ => "err"
  | .panic m => "panic " ++ m

/-- split a protocol line into its command and the rest. -/
def splitCmd (line : String) : String × String :=
  let line := line.trimAscii.toString
  match line.splitOn " " with
  | [] => ("", "")
  | cmd :: _ => (cmd, (line.drop (cmd.length + 1)).toString)

/-- tail-recursive hex parser for very long inputs (stream engine: messages up to 1 MiB). -/
def bytesOfHexFast (s : String) : Option Bytes :=
  if s = "-" then some [] else
  let rec go (cs : List Char) (acc : Array UInt8) : Option (Array UInt8) :=
    match cs with
    | [] => some acc
    | [_] => none
    | a :: b :: rest =>
      match hexVal a, hexVal b with
      | some x, some y => go rest (acc.push (x * 16 + y).toUInt8)
      | _, _ => none
  (go s.toList #[]).map Array.toList

end Driver
