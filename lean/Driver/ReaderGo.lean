/-
  Driver handler `rdr.*`: the slice-level reader (`Model/ReaderGo.lean`).
    rdr.dec  <hex>         UnmarshalTTLV into ttlv.Value, 64-bit int, cap = len
    rdr.decj <hex> <hex>   the same with the second byte string lying between len and cap
    rdr.dec32 <hex>        32-bit int, the reader before the repair (information; not compared by an engine)
    rdr.dec32w <hex>       32-bit int, `validate` comparing in 64 bits (the reader since the repair e776a13)
    rdr.cls32w <hex>       the same, outcome class only: compared with the library built for GOARCH=386 (hostile/arch32)
-/
import Driver.Common
import KmipModel.Model.ReaderGo
open Kmip

namespace Driver

def rdrRun (cfg : GoCfg) (bs junk : Bytes) : String :=
  renderRes (do let t ← G.unmarshalValue cfg { vis := bs, rest := junk }; pure t.render)

/-- `none` = command not handled here. -/
def handleReaderGo (cmd arg : String) : Option String :=
  match cmd with
  | "rdr.dec" => some <|
    match bytesOfHexFast arg with
    | some bs => rdrRun GoCfg.amd64 bs []
    | none => "bad-op"
  | "rdr.decj" => some <|
    match arg.splitOn " " with
    | [a, j] =>
      match bytesOfHexFast a, bytesOfHexFast j with
      | some bs, some junk => rdrRun GoCfg.amd64 bs junk
      | _, _ => "bad-op"
    | _ => "bad-op"
  | "rdr.dec32" => some <|
    match bytesOfHexFast arg with
    | some bs => rdrRun GoCfg.i386 bs []
    | none => "bad-op"
  | "rdr.dec32w" => some <|
    match bytesOfHexFast arg with
    | some bs => rdrRun { intBits := 32, wide := true } bs []
    | none => "bad-op"
  | "rdr.cls32w" => some <|
    -- outcome class only (what the GOARCH=386 probe of the hostile engine reports): the current reader on 32 bits
    match bytesOfHexFast arg with
    | some bs =>
      match G.unmarshalValue { intBits := 32, wide := true } { vis := bs, rest := [] } with
      | .ok _ => "ok"
      | .err _ => "err"
      | .panic _ => "panic"
    | none => "bad-op"
  | _ => none

end Driver
