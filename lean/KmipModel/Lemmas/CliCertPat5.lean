/-
  Certificate obligations, parts 40..47 of 64 of the `patched` client system (kernel evaluation; 8 modules
  so that lake checks them in parallel; small parts keep the kernel's memory small).
  Assembled in `Lemmas/CliCert.lean`.
-/
import KmipModel.Model.CliConn
import KmipModel.Gen.CertCliConn
namespace Kmip.CliCert
open Kmip.CliLts Kmip.CliConn Kmip.Gen.CertCliConn

theorem paClosed40 : partClosed (sys patched) codec certPatched paP40 = true := by decide +kernel
theorem paSafe40 : partSafe codec (badFull patched) paP40 = true := by decide +kernel
theorem paClosed41 : partClosed (sys patched) codec certPatched paP41 = true := by decide +kernel
theorem paSafe41 : partSafe codec (badFull patched) paP41 = true := by decide +kernel
theorem paClosed42 : partClosed (sys patched) codec certPatched paP42 = true := by decide +kernel
theorem paSafe42 : partSafe codec (badFull patched) paP42 = true := by decide +kernel
theorem paClosed43 : partClosed (sys patched) codec certPatched paP43 = true := by decide +kernel
theorem paSafe43 : partSafe codec (badFull patched) paP43 = true := by decide +kernel
theorem paClosed44 : partClosed (sys patched) codec certPatched paP44 = true := by decide +kernel
theorem paSafe44 : partSafe codec (badFull patched) paP44 = true := by decide +kernel
theorem paClosed45 : partClosed (sys patched) codec certPatched paP45 = true := by decide +kernel
theorem paSafe45 : partSafe codec (badFull patched) paP45 = true := by decide +kernel
theorem paClosed46 : partClosed (sys patched) codec certPatched paP46 = true := by decide +kernel
theorem paSafe46 : partSafe codec (badFull patched) paP46 = true := by decide +kernel
theorem paClosed47 : partClosed (sys patched) codec certPatched paP47 = true := by decide +kernel
theorem paSafe47 : partSafe codec (badFull patched) paP47 = true := by decide +kernel

end Kmip.CliCert
