package main

// Engine `mw`, part 2 — every caller of the client chain goes through it: Client.Request, Client.Batch
// and the version negotiation of DialContext reach the transport only through the installed middlewares,
// each stage entered exactly once per request, in registration order (C19: "with the transport
// innermost").

import (
	"context"
	"fmt"
	"net"
	"strings"
	"sync"

	kmip "github.com/ovh/kmip-go"
	"github.com/ovh/kmip-go/kmipclient"
	"github.com/ovh/kmip-go/kmipserver"
	"github.com/ovh/kmip-go/payloads"
	"github.com/ovh/kmip-go/ttlv"

	"verifharness/internal/report"
)

type mwEntryLog struct {
	mu     sync.Mutex
	events []string
}

func (l *mwEntryLog) add(s string) {
	l.mu.Lock()
	l.events = append(l.events, s)
	l.mu.Unlock()
}

func (l *mwEntryLog) take() string {
	l.mu.Lock()
	defer l.mu.Unlock()
	s := strings.Join(l.events, " ")
	l.events = nil
	return s
}

// mwEntryServe answers every request on conn with the real executor (handlers accept everything).
func mwEntryServe(conn net.Conn, exec *kmipserver.BatchExecutor, log *mwEntryLog) {
	st := ttlv.NewStream(conn, -1)
	defer st.Close()
	for {
		var req kmip.RequestMessage
		if err := st.Recv(&req); err != nil {
			return
		}
		ops := make([]string, len(req.BatchItem))
		for i, bi := range req.BatchItem {
			ops[i] = fmt.Sprint(uint32(bi.Operation))
		}
		log.add("T[" + strings.Join(ops, ",") + "]")
		if err := st.Send(exec.HandleRequest(context.Background(), &req)); err != nil {
			return
		}
	}
}

func mwEntryPoints(ctx *Ctx) {
	log := &mwEntryLog{}
	exec := kmipserver.NewBatchExecutor()
	exec.Route(kmip.OperationActivate, pwFunc(func(_ context.Context, pl kmip.OperationPayload) (kmip.OperationPayload, error) {
		return &payloads.ActivateResponsePayload{UniqueIdentifier: pl.(*payloads.ActivateRequestPayload).UniqueIdentifier}, nil
	}))
	stage := func(id int) kmipclient.Middleware {
		return func(next kmipclient.Next, c context.Context, msg *kmip.RequestMessage) (*kmip.ResponseMessage, error) {
			log.add(fmt.Sprintf("E%d", id))
			resp, err := next(c, msg)
			log.add(fmt.Sprintf("X%d", id))
			return resp, err
		}
	}
	dialer := func(context.Context) (net.Conn, error) {
		a, b := net.Pipe()
		go mwEntryServe(b, exec, log)
		return a, nil
	}
	line := "# mw.entry"
	ctx.current = line
	viol := func(key, detail string) {
		ctx.Res.Violate(report.Violation{Property: "C19", Oracle: "every-caller-through-the-chain", Key: "mw:client:" + key, Detail: detail, Line: line})
	}
	type res struct {
		cl  *kmipclient.Client
		err error
	}
	r, p := guard("mw-entry", func() res {
		// no EnforceVersion: DialContext negotiates the version with a DiscoverVersions exchange
		cl, err := kmipclient.DialContext(context.Background(), "pipe", kmipclient.WithDialerUnsafe(dialer),
			kmipclient.WithMiddlewares(stage(1), stage(2)), kmipclient.WithMiddlewares(stage(3)))
		return res{cl, err}
	})
	if p != "" || r.err != nil {
		ctx.Res.Fail(fmt.Sprintf("mw.entry: cannot dial: %v %s", r.err, p))
		return
	}
	defer r.cl.Close()
	discover := fmt.Sprint(uint32(kmip.OperationDiscoverVersions))
	activate := fmt.Sprint(uint32(kmip.OperationActivate))
	if got, want := log.take(), "E1 E2 E3 T["+discover+"] X3 X2 X1"; got != want {
		viol("negotiation-not-through-whole-chain-in-order", "version negotiation of DialContext with three middlewares installed: observed "+got+" ; every stage once, in order, around the transport is "+want)
	}
	ctx.Res.Count("mw.entry.negotiation")
	_, p = guard("mw-entry", func() int {
		_, err := r.cl.Request(context.Background(), &payloads.ActivateRequestPayload{UniqueIdentifier: "a"})
		if err != nil {
			ctx.Res.Fail("mw.entry: Request failed: " + err.Error())
		}
		return 0
	})
	if got, want := log.take(), "E1 E2 E3 T["+activate+"] X3 X2 X1"; p == "" && got != want {
		viol("request-not-through-whole-chain-in-order", "Client.Request with three middlewares installed: observed "+got+" ; expected "+want)
	}
	ctx.Res.Count("mw.entry.request")
	_, p = guard("mw-entry", func() int {
		_, err := r.cl.Batch(context.Background(), &payloads.ActivateRequestPayload{UniqueIdentifier: "a"}, &payloads.ActivateRequestPayload{UniqueIdentifier: "b"})
		if err != nil {
			ctx.Res.Fail("mw.entry: Batch failed: " + err.Error())
		}
		return 0
	})
	if got, want := log.take(), "E1 E2 E3 T["+activate+","+activate+"] X3 X2 X1"; p == "" && got != want {
		viol("batch-not-through-whole-chain-in-order", "Client.Batch with three middlewares installed: observed "+got+" ; expected "+want)
	}
	ctx.Res.Count("mw.entry.batch")
	// a clone runs the same chain
	clone, err := r.cl.CloneCtx(context.Background())
	if err != nil {
		ctx.Res.Fail("mw.entry: CloneCtx: " + err.Error())
		return
	}
	defer clone.Close()
	log.take()
	_, _ = guard("mw-entry", func() int {
		_, _ = clone.Request(context.Background(), &payloads.ActivateRequestPayload{UniqueIdentifier: "c"})
		return 0
	})
	if got, want := log.take(), "E1 E2 E3 T["+activate+"] X3 X2 X1"; got != want {
		viol("clone-chain-differs", "Request on a CloneCtx of a client with three middlewares: observed "+got+" ; expected "+want)
	}
	ctx.Res.Count("mw.entry.clone")
	ctx.Add(line, "ok", true, "C19")
}
