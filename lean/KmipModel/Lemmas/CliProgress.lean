/-
  Progress of the client transition system `CliConn`: runs in which nothing fails.

  `progress p s` are the steps of the client's own goroutines, of the transport completing a write and of the
  server answering (no new call, no cancellation, no `Close()`, no fault). From the certificate:
    * every progress step of every reachable state strictly decreases `measure` (`Good.measure`);
    * a clean, active call always has a progress step, and every one of them keeps it clean and does not
      end the call other than through `retOk` / `retErr` (`Good.blocked`); it never reaches `retErr` (`Good.recover`).
  Hence (`clean_succeeds`): from a reachable state with a clean call in progress, EVERY maximal run of progress steps
  ends with the call returning its response, after at most `measure s` steps — whatever the interleaving.
-/
import KmipModel.Lemmas.CliCert
namespace Kmip.CliCert
open Kmip.CliLts Kmip.CliConn Kmip.Gen.CertCliConn

/-- every maximal run of progress steps from `s` ends in a state where the call returns a response. -/
inductive Succeeds (p : Params) : St → Prop where
  | done {s : St} : s.kp = .retOk → Succeeds p s
  | step {s : St} : progress p s ≠ [] → (∀ t ∈ progress p s, Succeeds p t) → Succeeds p s

/-- there is a run of `n` progress steps from `s`. -/
inductive Run (p : Params) : St → Nat → Prop where
  | zero (s : St) : Run p s 0
  | succ {s t : St} {n : Nat} : t ∈ progress p s → Run p t n → Run p s (n + 1)

theorem progress_sub_step (p : Params) (s : St) {t : St} (h : t ∈ progress p s) : t ∈ step p s := by
  simp only [progress, uprogress, step, ustep, stepEnv, List.mem_map, List.mem_append] at h ⊢
  obtain ⟨u, hu, rfl⟩ := h
  refine ⟨u, ?_, rfl⟩
  rcases hu with (hu | hu) | hu
  · exact Or.inl hu
  · exact Or.inr (Or.inl (Or.inl (Or.inr hu)))
  · exact Or.inr (Or.inl (Or.inr hu))

theorem reachable_progress {s t : St} (hs : Reachable (sys current) s) (ht : t ∈ progress current s) :
    Reachable (sys current) t :=
  Reachable.step hs (progress_sub_step current s ht)

/-- every progress step of a reachable state decreases the measure. -/
theorem measure_decreases {s t : St} (hs : Reachable (sys current) s) (ht : t ∈ progress current s) :
    measure t < measure s := by
  have h := (current_good hs).measure
  simp only [badMeasure, Bool.not_eq_false', List.all_eq_true] at h
  have := h t ht
  rwa [Nat.blt_eq] at this

/-- no run of progress steps from a reachable state is longer than its measure. -/
theorem run_bounded {s : St} {n : Nat} (hr : Run current s n) :
    Reachable (sys current) s → n ≤ measure s := by
  induction hr with
  | zero s => intro _; exact Nat.zero_le _
  | succ ht _ ih =>
    intro hs
    have h1 := measure_decreases hs ht
    have h2 := ih (reachable_progress hs ht)
    omega

theorem clean_succeeds_aux (n : Nat) : ∀ s : St, measure s < n → Reachable (sys current) s →
    s.clean = true → kActive s = true → Succeeds current s := by
  induction n with
  | zero => intro s hm; omega
  | succ n ih =>
    intro s hm hs hc hk
    have hb := (current_good hs).blocked
    simp only [badCleanBlocked, hc, hk, Bool.true_and, Bool.or_eq_false_iff, Bool.not_eq_false',
      List.all_eq_true, Bool.and_eq_true, bne_iff_ne] at hb
    obtain ⟨hne, hall⟩ := hb
    refine Succeeds.step (by intro h; rw [h] at hne; cases hne) ?_
    intro t ht
    obtain ⟨htc, hti⟩ := hall t ht
    have htr := reachable_progress hs ht
    have hlt := measure_decreases hs ht
    have hrec := (current_good htr).recover
    simp only [badRecover, htc, Bool.true_and, beq_eq_false_iff_ne] at hrec
    cases hka : kActive t with
    | true => exact ih t (by omega) htr htc hka
    | false =>
      refine Succeeds.done ?_
      simp only [kActive, Bool.not_eq_false', Bool.or_eq_true, beq_iff_eq] at hka
      rcases hka with (h | h) | h
      · exact absurd h hti
      · exact h
      · exact absurd h hrec

/-- A clean call in progress returns its response on every maximal run of progress steps. -/
theorem clean_succeeds {s : St} (hs : Reachable (sys current) s) (hc : s.clean = true)
    (hk : kActive s = true) : Succeeds current s :=
  clean_succeeds_aux (measure s + 1) s (Nat.lt_succ_self _) hs hc hk

end Kmip.CliCert
