/-
  L3 — key material: the register builders of kmipclient/register.go, the accessors of objects.go and
  payloads/get.go, and the lexical transport of big integers and byte strings in the three encodings
  (ttlv/utils.go, ttlv/encoding_{ttlv,xml,json}.go).  Model for property C14.

  * A decoded key object is abstracted to the parts the accessors look at: `KeyBlockV`
    (KeyFormatType, KeyCompressionType, optional KeyValue = optional Wrapped bytes + optional
    PlainKeyValue = KeyMaterial with one optional slot per Go field + number of attributes,
    CryptographicAlgorithm, CryptographicLength) inside an object (`Obj`) inside a
    `GetResponsePayload` (`GetResp`).  Every Go pointer is an `Option`; a Go nil dereference is an
    explicit `.panic` branch (see the `…Old` variants: the code before /repo 414a481).
  * The standard library (`x509.Parse*/Marshal*`, `elliptic.Marshal/Unmarshal/UnmarshalCompressed`,
    `ScalarBaseMult`, `rsa.PrivateKey.Precompute`, `pem`) is a PARAMETER: `structure Crypto` bundles the
    functions with their assumed inverse laws as fields.  Nothing is an axiom.  The functions are total
    (value or error) except `marshalPKCS8`, which may also panic: the real `x509.MarshalPKCS8PrivateKey`
    does (`big.Int.FillBytes`) on an ecdsa key whose scalar does not fit the curve size.  Since /repo
    e2e4a08 `PrivateKey.ECDSA` checks the scalar against the order of the curve, so the accessors no
    longer hand it such a key (the `…NoRange` variants are the code before that commit; `registerRsaPrivOld`
    is the builder before d693174).
  * Transport here is VALUE-LEVEL only: each big integer / byte string of the material is written and
    read back in the chosen encoding.  The structure-level transport (order and tagging of the fields,
    enumerations, the slot of KeyMaterial chosen by the key format) is composed with the C01 codec theorem for
    the binary encoding in `Lemmas/KeyWire.lean` (`objVal` / `valObj`); for XML / JSON it is checked on the real
    code by the engine.
  * A builder takes the format it registers the key in as an argument (`register…F`); the selectors of
    register.go are one `admissible` way of choosing it from a format mask (`selectFormat`).

  Core Lean only (linked into `kmip-model`).
-/
import KmipModel.Model.BigInt
import KmipModel.Model.Reader
namespace Kmip.Key
open Kmip

/-! ## 1. Lexical forms of big integers and byte strings -/

/-- upper-case hex digit (`strings.ToUpper(hex.EncodeToString(..))`), as an ASCII code. -/
def nibUp (n : Nat) : UInt8 := if n < 10 then (48 + n).toUInt8 else (55 + n).toUInt8
/-- lower-case hex digit (`hex.AppendEncode`). -/
def nibLo (n : Nat) : UInt8 := if n < 10 then (48 + n).toUInt8 else (87 + n).toUInt8

/-- `fromHexChar` of encoding/hex. -/
def nibVal (c : UInt8) : Option Nat :=
  if 48 ≤ c ∧ c ≤ 57 then some (c.toNat - 48)
  else if 97 ≤ c ∧ c ≤ 102 then some (c.toNat - 87)
  else if 65 ≤ c ∧ c ≤ 70 then some (c.toNat - 55)
  else none

def hexUpper : Bytes → Bytes
  | [] => []
  | b :: bs => nibUp (b.toNat / 16) :: nibUp (b.toNat % 16) :: hexUpper bs

def hexLower : Bytes → Bytes
  | [] => []
  | b :: bs => nibLo (b.toNat / 16) :: nibLo (b.toNat % 16) :: hexLower bs

/-- `hex.DecodeString` on the ASCII text (odd length or a non-hex character = error). -/
def hexDecode : Bytes → Option Bytes
  | [] => some []
  | [_] => none
  | a :: b :: rest =>
    match nibVal a, nibVal b with
    | some x, some y =>
      match hexDecode rest with
      | some r => some ((x * 16 + y).toUInt8 :: r)
      | none => none
    | _, _ => none

/-- left padding then the bytes of `bigIntToBytes(v, padding)`: what every writer emits. -/
def bigBytes (v : Int) (padding : Nat) : Bytes :=
  let (b, padVal, padLen) := bigIntToBytes v padding
  List.replicate padLen padVal ++ b

/-- `xmlWriter.BigInteger`: upper-case hex of `bigIntToBytes(v, 1)` with its left padding. -/
def xmlBigWrite (v : Int) : Bytes := hexUpper (bigBytes v 1)

/-- `xmlReader.BigInteger` on the text of the `value` attribute. -/
def xmlBigRead (t : Bytes) : Res Int :=
  match hexDecode t with
  | none => .err .other
  | some [] => .err .badLength            -- "empty big integer value"
  | some bs => .ok (bytesToBigInt bs)

/-- `ttlvReader.BigInteger` on the value bytes. -/
def ttlvBigRead (v : Bytes) : Res Int :=
  match v with
  | [] => .err .badLength
  | _ => .ok (bytesToBigInt v)

/-- decimal digits of a natural number (`big.Int.Append(b, 10)` / `strconv`), ASCII. -/
def decDigits (n : Nat) : Bytes :=
  if h : n < 10 then [(48 + n).toUInt8] else decDigits (n / 10) ++ [(48 + n % 10).toUInt8]
decreasing_by omega

def decText (v : Int) : Bytes := if v < 0 then 45 :: decDigits v.natAbs else decDigits v.natAbs

/-- digits → number; `none` on a non-digit. -/
def parseDigits : Bytes → Nat → Option Nat
  | [], acc => some acc
  | c :: cs, acc => if 48 ≤ c ∧ c ≤ 57 then parseDigits cs (acc * 10 + (c.toNat - 48)) else none

/-- `strconv.ParseInt(s, 10, 64)`: optional sign, at least one digit, digits only, int64 range. -/
def parseInt64 (s : Bytes) : Option Int :=
  let neg : Bool := s.head? = some 45                                   -- '-'
  let ds := if s.head? = some 45 ∨ s.head? = some 43 then s.tail else s   -- '-' / '+'
  if ds = [] then none
  else
    match parseDigits ds 0 with
    | none => none
    | some n =>
      let v : Int := if neg then -(n : Int) else (n : Int)
      if -9223372036854775808 ≤ v ∧ v ≤ 9223372036854775807 then some v else none

/-- what `jsonReader.getValue()` holds for a scalar `value`: a `json.Number` (its literal text) or a
    string (its unescaped content).  Produced by encoding/json — assumed to return a number literal
    and an escape-free string as written. -/
inductive JsonTok where
  | num (text : Bytes)
  | str (content : Bytes)
  deriving Repr, DecidableEq

def JsonTok.render : JsonTok → Bytes
  | .num t => t
  | .str c => 34 :: c ++ [34]

def maxJsonInt : Int := 4503599627370496   -- 2^52

/-- `jsonWriter.BigInteger`. -/
def jsonBigWrite (v : Int) : JsonTok :=
  if v ≥ maxJsonInt ∨ v ≤ -maxJsonInt then
    .str (48 :: 120 :: hexLower (bigBytes v 8))      -- "0x" ++ pad ++ bytes, lower case
  else .num (decText v)

/-- `jsonReader.BigInteger`. -/
def jsonBigRead (t : JsonTok) : Res Int :=
  match t with
  | .num s =>
    match parseInt64 s with
    | some n => .ok n
    | none => .err .other
  | .str (48 :: 120 :: h) =>
    match hexDecode h with
    | none => .err .other
    | some [] => .err .badLength
    | some bs => .ok (bytesToBigInt bs)
  | .str _ => .err .other

/-- JSON number grammar `-?(0|[1-9][0-9]*)(\.[0-9]+)?([eE][+-]?[0-9]+)?` restricted to what matters: a
    token that is not a JSON integer literal is either rejected by encoding/json or by `Int64()`. -/
def isJsonInt (s : Bytes) : Bool :=
  let ds := match s with
    | 45 :: r => r
    | _ => s
  match ds with
  | [] => false
  | [48] => true
  | 48 :: _ => false
  | _ => ds.all fun c => 48 ≤ c ∧ c ≤ 57

/-- classification of a scalar JSON token text (model of encoding/json for the two relevant token
    classes; strings with escapes / control / non-ASCII characters are outside the model: `none`). -/
def jsonTokenize (s : Bytes) : Option (Option JsonTok) :=
  match s with
  | 34 :: r =>
    match r.reverse with
    | 34 :: mid =>
      let c := mid.reverse
      if c.all (fun x => 32 ≤ x ∧ x < 127 ∧ x ≠ 34 ∧ x ≠ 92) then some (some (.str c)) else none
    | _ => some none
  | _ => if isJsonInt s then some (some (.num s)) else some none

/-- byte strings in XML / JSON: upper-case hex, `hex.DecodeString`. -/
def textBytesWrite (bs : Bytes) : Bytes := hexUpper bs
def textBytesRead (t : Bytes) : Res Bytes :=
  match hexDecode t with
  | some bs => .ok bs
  | none => .err .other

inductive Enc where
  | ttlv | xml | json
  deriving Repr, DecidableEq

/-- one big integer through writer and reader of an encoding. -/
def bigTransport (enc : Enc) (v : Int) : Res Int :=
  match enc with
  | .ttlv => ttlvBigRead (encodeBig v)
  | .xml => xmlBigRead (xmlBigWrite v)
  | .json => jsonBigRead (jsonBigWrite v)

/-- one byte string through writer and reader of an encoding (binary: the bytes themselves, the
    length/padding framing is C01/C03). -/
def bytesTransport (enc : Enc) (bs : Bytes) : Res Bytes :=
  match enc with
  | .ttlv => .ok bs
  | .xml => textBytesRead (textBytesWrite bs)
  | .json => textBytesRead (textBytesWrite bs)

/-! ## 2. The decoded object -/

/-- `TransparentRSAPrivateKey`: `Modulus big.Int`, the others `*big.Int`. -/
structure RsaPrivT where
  modulus : Int
  d : Option Int := none      -- PrivateExponent
  e : Option Int := none      -- PublicExponent
  p : Option Int := none
  q : Option Int := none
  dp : Option Int := none     -- PrimeExponentP
  dq : Option Int := none     -- PrimeExponentQ
  qinv : Option Int := none   -- CRTCoefficient
  deriving Repr, DecidableEq

structure RsaPubT where
  modulus : Int
  e : Int
  deriving Repr, DecidableEq

/-- `TransparentECPrivateKey` / `TransparentECDSAPrivateKey`. -/
structure EcPrivT where
  curve : Nat
  d : Int
  deriving Repr, DecidableEq

/-- `TransparentECPublicKey` / `TransparentECDSAPublicKey`. -/
structure EcPubT where
  curve : Nat
  q : Bytes
  deriving Repr, DecidableEq

/-- `KeyMaterial`: one optional slot per field. -/
structure Material where
  bytes : Option Bytes := none
  sym : Option Bytes := none            -- TransparentSymmetricKey{Key}
  rsaPriv : Option RsaPrivT := none
  rsaPub : Option RsaPubT := none
  ecdsaPriv : Option EcPrivT := none
  ecdsaPub : Option EcPubT := none
  ecPriv : Option EcPrivT := none
  ecPub : Option EcPubT := none
  deriving Repr, DecidableEq

structure Plain where
  material : Material
  attrs : Nat := 0
  deriving Repr, DecidableEq

/-- `KeyValue{Wrapped *[]byte; Plain *PlainKeyValue}` (a decoded one has exactly one of them). -/
structure KeyValueV where
  wrapped : Option Bytes := none
  plain : Option Plain := none
  deriving Repr, DecidableEq

structure KeyBlockV where
  format : Nat
  comp : Nat := 0
  keyValue : Option KeyValueV := none
  alg : Nat := 0
  len : Nat := 0
  deriving Repr, DecidableEq

inductive Obj where
  | secretData (ty : Nat) (kb : KeyBlockV)
  | symmetricKey (kb : KeyBlockV)
  | publicKey (kb : KeyBlockV)
  | privateKey (kb : KeyBlockV)
  | splitKey (kb : KeyBlockV)
  | pgpKey (kb : KeyBlockV)
  | certificate (ty : Nat) (value : Bytes)
  | opaque
  | template
  deriving Repr, DecidableEq

/-- the object's own `ObjectType()`. -/
def Obj.typeCode : Obj → Nat
  | .certificate .. => 1
  | .symmetricKey _ => 2
  | .publicKey _ => 3
  | .privateKey _ => 4
  | .splitKey _ => 5
  | .template => 6
  | .secretData .. => 7
  | .opaque => 8
  | .pgpKey _ => 9

def Obj.keyBlock? : Obj → Option KeyBlockV
  | .secretData _ kb | .symmetricKey kb | .publicKey kb | .privateKey kb | .splitKey kb | .pgpKey kb => some kb
  | _ => none

/-- `GetResponsePayload{ObjectType, UniqueIdentifier, Object}` (Object is an interface: may be nil). -/
structure GetResp where
  objectType : Nat
  object : Option Obj
  deriving Repr, DecidableEq

def respOf (o : Obj) : GetResp := { objectType := o.typeCode, object := some o }

/-! key format types, curves, compression types (enums.go) -/
def fRaw := 1
def fOpaque := 2
def fPKCS1 := 3
def fPKCS8 := 4
def fX509 := 5
def fECPrivateKey := 6
def fTransparentSymmetricKey := 7
def fTransparentRSAPrivateKey := 10
def fTransparentRSAPublicKey := 11
def fTransparentECDSAPrivateKey := 14
def fTransparentECDSAPublicKey := 15
def fTransparentECPrivateKey := 20
def fTransparentECPublicKey := 21

def algRSA := 4
def algECDSA := 6

/-- the curves of the `switch tkey.RecommendedCurve` (P-224, P-256, P-384, P-521). -/
def curveSupported (c : Nat) : Bool := c = 4 || c = 7 || c = 10 || c = 13

/-- `RecommendedCurve.Bitlen()` on the four supported curves. -/
def curveBitlen (c : Nat) : Nat :=
  if c = 4 then 224 else if c = 7 then 256 else if c = 10 then 384 else if c = 13 then 521 else 0

/-! ## 3. The standard library as a parameter -/

inductive PrivAny (R E : Type) where
  | rsa (k : R)
  | ecdsa (k : E)
  | other                      -- ed25519, ecdh, …
  deriving Repr, DecidableEq

inductive PubAny (R E : Type) where
  | rsa (k : R)
  | ecdsa (k : E)
  | other
  deriving Repr, DecidableEq

/-- the fields of an `rsa.PrivateKey` the library reads / writes. -/
structure RsaParts where
  n : Int
  e : Int                       -- Go `int`
  d : Int
  primes : List Int
  dp : Option Int := none
  dq : Option Int := none
  qinv : Option Int := none
  deriving Repr, DecidableEq

def isInt64 (v : Int) : Bool := -9223372036854775808 ≤ v ∧ v ≤ 9223372036854775807

/-- `int(x.Int64())` on a 64-bit platform. -/
def toInt64 (v : Int) : Int := signedOfNat 64 (unsignedOfInt 64 v)

/-- the functions of the standard library the anchored code calls. -/
structure CryptoOps where
  RsaPriv : Type
  RsaPub : Type
  EcPriv : Type
  EcPub : Type
  Cert : Type
  /- x509 -/
  parsePKCS1Priv : Bytes → Option RsaPriv
  /-- `x509.MarshalPKCS1PrivateKey`: it has no error result, and indexes `key.Primes[0]`, `key.Primes[1]`:
      a Go panic (index out of range) on a key with fewer than two primes. -/
  marshalPKCS1Priv : RsaPriv → Res Bytes
  parsePKCS1Pub : Bytes → Option RsaPub
  marshalPKCS1Pub : RsaPub → Bytes
  parsePKCS8 : Bytes → Option (PrivAny RsaPriv EcPriv)
  /-- `x509.MarshalPKCS8PrivateKey`: a value, an error, or a Go panic (it panics — `big.Int.FillBytes` —
      on an ecdsa key whose `D` does not fit the byte size of the curve order). -/
  marshalPKCS8 : PrivAny RsaPriv EcPriv → Res Bytes
  parseSEC1 : Bytes → Option EcPriv
  marshalSEC1 : EcPriv → Option Bytes
  parsePKIX : Bytes → Option (PubAny RsaPub EcPub)
  marshalPKIX : PubAny RsaPub EcPub → Option Bytes
  parseCert : Bytes → Option Cert
  certRaw : Cert → Bytes
  /-- `pem.EncodeToMemory(&pem.Block{Type: …, Bytes: der})`, block type as a code. -/
  pem : Nat → Bytes → Bytes
  /- rsa -/
  /-- `(*rsa.PrivateKey).Validate() == nil`: what the standard library calls an RSA private key. -/
  rsaValidate : RsaPriv → Bool
  /-- what the x509 parsers accept as an RSA public key (positive modulus, exponent in `[2, 2^31-1]`). -/
  rsaPubValid : RsaPub → Bool
  rsaPrivParts : RsaPriv → RsaParts
  /-- the struct literal of `PrivateKey.RSA` followed by `Precompute()`. -/
  rsaPrivBuild : RsaParts → RsaPriv
  rsaPubN : RsaPub → Int
  rsaPubE : RsaPub → Int
  rsaPubMk : Int → Int → RsaPub
  /- ecdsa / elliptic -/
  /-- `curveToKMIP(key.Curve)`: RecommendedCurve code, anything unsupported = error. -/
  ecPrivCurve : EcPriv → Nat
  ecPrivD : EcPriv → Int
  /-- `&ecdsa.PrivateKey{Curve, D}` + `ScalarBaseMult(D.Bytes())`, curve by RecommendedCurve code. -/
  ecPrivBuild : Nat → Int → EcPriv
  /-- `curve.Params().N` of the curve with that RecommendedCurve code. -/
  curveOrder : Nat → Int
  ecPubCurve : EcPub → Nat
  /-- `elliptic.Marshal(key.Curve, key.X, key.Y)`. -/
  ecMarshal : EcPub → Bytes
  ecUnmarshal : Nat → Bytes → Option EcPub
  ecUnmarshalCompressed : Nat → Bytes → Option EcPub

/-- the scalar of an ecdsa private key is a scalar of its curve: `1 ≤ D ≤ n-1`. -/
def CryptoOps.ScalarIn (C : CryptoOps) (k : C.EcPriv) : Prop :=
  0 < C.ecPrivD k ∧ C.ecPrivD k < C.curveOrder (C.ecPrivCurve k)

/-- the standard library with its assumed laws (hypotheses of the C14 theorems, never axioms).  They are
    statements about Go ≥ 1.24 (`x509.MarshalPKCS8PrivateKey` validates an RSA key before marshalling it;
    `Precompute` never panics).  Three groups: parse after marshal is the identity ON VALID KEYS; where the two
    marshal functions that can panic do not; marshalling a valid key succeeds. -/
structure Crypto extends CryptoOps where
  /- 1. inverse laws -/
  parsePKCS1Priv_marshal : ∀ k bs, rsaValidate k = true → marshalPKCS1Priv k = .ok bs → parsePKCS1Priv bs = some k
  parsePKCS1Pub_marshal : ∀ k, rsaPubValid k = true → parsePKCS1Pub (marshalPKCS1Pub k) = some k
  parsePKCS8_marshal_rsa : ∀ k bs, marshalPKCS8 (.rsa k) = .ok bs → parsePKCS8 bs = some (.rsa k)
  parsePKCS8_marshal_ec : ∀ k bs, toCryptoOps.ScalarIn k → marshalPKCS8 (.ecdsa k) = .ok bs →
    parsePKCS8 bs = some (.ecdsa k)
  parseSEC1_marshal : ∀ k bs, toCryptoOps.ScalarIn k → marshalSEC1 k = some bs → parseSEC1 bs = some k
  parsePKIX_marshal_rsa : ∀ k bs, rsaPubValid k = true → marshalPKIX (.rsa k) = some bs → parsePKIX bs = some (.rsa k)
  parsePKIX_marshal_ec : ∀ k bs, marshalPKIX (.ecdsa k) = some bs → parsePKIX bs = some (.ecdsa k)
  parseCert_raw : ∀ c, parseCert (certRaw c) = some c
  /-- a two-prime key is rebuilt from its own fields (`Equal` ignores the precomputed values). -/
  rsaPrivBuild_parts : ∀ k p q, (rsaPrivParts k).primes = [p, q] → rsaPrivBuild (rsaPrivParts k) = k
  rsaPriv_e_int : ∀ k, isInt64 (rsaPrivParts k).e = true
  rsaPubMk_parts : ∀ k, rsaPubMk (rsaPubN k) (rsaPubE k) = k
  rsaPub_e_int : ∀ k, isInt64 (rsaPubE k) = true
  ecPrivBuild_parts : ∀ k, curveSupported (ecPrivCurve k) = true → ecPrivBuild (ecPrivCurve k) (ecPrivD k) = k
  ecUnmarshal_marshal : ∀ k, curveSupported (ecPubCurve k) = true → ecUnmarshal (ecPubCurve k) (ecMarshal k) = some k
  /- 2. where the marshal functions do not panic.  `MarshalPKCS1PrivateKey`: on a key with two primes or more.
     `MarshalPKCS8PrivateKey`: on every RSA key (Go ≥ 1.24: `Validate` first, an invalid key is an error), on
     keys the parsers returned, on an ecdsa key whose scalar is in `[1, n-1]`. -/
  marshalPKCS1Priv_noPanic : ∀ k m, 2 ≤ (rsaPrivParts k).primes.length → marshalPKCS1Priv k ≠ .panic m
  marshalPKCS8_rsa_noPanic : ∀ k m, marshalPKCS8 (.rsa k) ≠ .panic m
  marshalPKCS8_parsed_noPanic : ∀ bs k m, parsePKCS8 bs = some k → marshalPKCS8 k ≠ .panic m
  marshalPKCS8_sec1_noPanic : ∀ bs k m, parseSEC1 bs = some k → marshalPKCS8 (.ecdsa k) ≠ .panic m
  marshalPKCS8_built_noPanic : ∀ c d m, curveSupported c = true → 0 < d → d < curveOrder c →
    marshalPKCS8 (.ecdsa (ecPrivBuild c d)) ≠ .panic m
  marshalPKCS8_ec_noPanic : ∀ k m, toCryptoOps.ScalarIn k → marshalPKCS8 (.ecdsa k) ≠ .panic m
  /- 3. marshalling a valid key succeeds -/
  rsaValidate_primes : ∀ k, rsaValidate k = true → 2 ≤ (rsaPrivParts k).primes.length
  marshalPKCS1Priv_ok : ∀ k, rsaValidate k = true → ∃ bs, marshalPKCS1Priv k = .ok bs
  marshalPKCS8_rsa_ok : ∀ k, rsaValidate k = true → ∃ bs, marshalPKCS8 (.rsa k) = .ok bs
  marshalPKIX_rsa_ok : ∀ k, ∃ bs, marshalPKIX (.rsa k) = some bs
  marshalSEC1_ok : ∀ k, curveSupported (ecPrivCurve k) = true → toCryptoOps.ScalarIn k → ∃ bs, marshalSEC1 k = some bs
  marshalPKCS8_ec_ok : ∀ k, curveSupported (ecPrivCurve k) = true → toCryptoOps.ScalarIn k →
    ∃ bs, marshalPKCS8 (.ecdsa k) = .ok bs
  marshalPKIX_ec_ok : ∀ k, curveSupported (ecPubCurve k) = true → ∃ bs, marshalPKIX (.ecdsa k) = some bs

abbrev CryptoOps.Priv (C : CryptoOps) := PrivAny C.RsaPriv C.EcPriv
abbrev CryptoOps.Pub (C : CryptoOps) := PubAny C.RsaPub C.EcPub

/-! ## 4. Accessors (objects.go, payloads/get.go) -/

/-- `KeyBlock.GetMaterial` (HEAD). -/
def getMaterial (kb : KeyBlockV) : Res Material :=
  match kb.keyValue with
  | none => .err .other                    -- kb.KeyValue == nil
  | some kv =>
    match kv.plain with
    | none => .err .other                  -- kb.KeyValue.Plain == nil
    | some p => .ok p.material

/-- `KeyBlock.GetMaterial` before 414a481: `kb.KeyValue.Plain` without the nil check. -/
def getMaterialOld (kb : KeyBlockV) : Res Material :=
  match kb.keyValue with
  | none => .panic "nil pointer dereference"
  | some kv =>
    match kv.plain with
    | none => .err .other
    | some p => .ok p.material

/-- `KeyBlock.GetBytes`. -/
def getBytes (kb : KeyBlockV) : Res Bytes :=
  match getMaterial kb with
  | .ok mat =>
    match mat.bytes with
    | none => .err .other                  -- "Empty key material"
    | some bs => .ok bs
  | .err e => .err e
  | .panic m => .panic m

/-- `KeyBlock.GetAttributes` (HEAD): the number of attributes returned (nil slice = 0). -/
def getAttributes (kb : KeyBlockV) : Res Nat :=
  match kb.keyValue with
  | none => .ok 0
  | some kv =>
    match kv.plain with
    | none => .ok 0
    | some p => .ok p.attrs

def getAttributesOld (kb : KeyBlockV) : Res Nat :=
  match kb.keyValue with
  | none => .panic "nil pointer dereference"
  | some kv =>
    match kv.plain with
    | none => .ok 0
    | some p => .ok p.attrs

/-- `SecretData.Data`. -/
def secretData (kb : KeyBlockV) : Res Bytes :=
  if kb.format = fRaw ∨ kb.format = fOpaque then getBytes kb else .err .unsupported

/-- `SymmetricKey.KeyMaterial`. -/
def symKeyMaterial (kb : KeyBlockV) : Res Bytes :=
  if kb.format = fRaw then getBytes kb
  else if kb.format = fTransparentSymmetricKey then
    match getMaterial kb with
    | .ok mat =>
      match mat.sym with
      | none => .err .other
      | some k => .ok k
    | .err e => .err e
    | .panic m => .panic m
  else .err .unsupported

def ofOption {α : Type} (o : Option α) : Res α :=
  match o with
  | some a => .ok a
  | none => .err .other

/-- `PublicKey.RSA`. -/
def pubRSA (C : CryptoOps) (kb : KeyBlockV) : Res C.RsaPub :=
  if kb.format = fPKCS1 then
    match getBytes kb with
    | .ok raw => ofOption (C.parsePKCS1Pub raw)
    | .err e => .err e
    | .panic m => .panic m
  else if kb.format = fX509 then
    match getBytes kb with
    | .ok raw =>
      match C.parsePKIX raw with
      | none => .err .other
      | some (.rsa k) => .ok k
      | some _ => .err .other              -- "SPKI key is not an RSA public key"
    | .err e => .err e
    | .panic m => .panic m
  else if kb.format = fTransparentRSAPublicKey then
    match getMaterial kb with
    | .ok mat =>
      match mat.rsaPub with
      | none => .err .other
      | some tkey =>
        if !isInt64 tkey.e then .err .range
        else .ok (C.rsaPubMk tkey.modulus (toInt64 tkey.e))
    | .err e => .err e
    | .panic m => .panic m
  else .err .unsupported

/-- the shared tail of `PublicKey.ECDSA` once `tkey` is known to be non-nil. -/
def pubECDSATail (C : CryptoOps) (kb : KeyBlockV) (tkey : EcPubT) : Res C.EcPub :=
  if !curveSupported tkey.curve then .err .unsupported
  else
    let compressionType := if kb.comp > 0 then kb.comp else 1
    if compressionType = 1 then ofOption (C.ecUnmarshal tkey.curve tkey.q)
    else if compressionType = 2 then ofOption (C.ecUnmarshalCompressed tkey.curve tkey.q)
    else .err .other                        -- "Invalid key compression type"

/-- the transparent slot selected by the format (`tkey := ecdsa slot; if format == EC { tkey = ec slot }`). -/
def ecPubSlot (kb : KeyBlockV) (mat : Material) : Option EcPubT :=
  if kb.format = fTransparentECPublicKey then mat.ecPub else mat.ecdsaPub

/-- `PublicKey.ECDSA` (HEAD). -/
def pubECDSA (C : CryptoOps) (kb : KeyBlockV) : Res C.EcPub :=
  if kb.format = fX509 then
    match getBytes kb with
    | .ok raw =>
      match C.parsePKIX raw with
      | none => .err .other
      | some (.ecdsa k) => .ok k
      | some _ => .err .other
    | .err e => .err e
    | .panic m => .panic m
  else if kb.format = fTransparentECDSAPublicKey ∨ kb.format = fTransparentECPublicKey then
    match getMaterial kb with
    | .ok mat =>
      match ecPubSlot kb mat with
      | none => .err .other                 -- the check added by 414a481
      | some tkey => pubECDSATail C kb tkey
    | .err e => .err e
    | .panic m => .panic m
  else .err .unsupported

/-- `PublicKey.ECDSA` before 414a481 (old `GetMaterial`, `tkey.RecommendedCurve` on a nil `tkey`). -/
def pubECDSAOld (C : CryptoOps) (kb : KeyBlockV) : Res C.EcPub :=
  if kb.format = fX509 then
    match getBytes kb with
    | .ok raw =>
      match C.parsePKIX raw with
      | none => .err .other
      | some (.ecdsa k) => .ok k
      | some _ => .err .other
    | .err e => .err e
    | .panic m => .panic m
  else if kb.format = fTransparentECDSAPublicKey ∨ kb.format = fTransparentECPublicKey then
    match getMaterialOld kb with
    | .ok mat =>
      match ecPubSlot kb mat with
      | none => .panic "nil pointer dereference"
      | some tkey => pubECDSATail C kb tkey
    | .err e => .err e
    | .panic m => .panic m
  else .err .unsupported

/-- `PublicKey.CryptoPublicKey`. -/
def pubCrypto (C : CryptoOps) (kb : KeyBlockV) : Res C.Pub :=
  if kb.format = fTransparentECPublicKey ∨ kb.format = fTransparentECDSAPublicKey then
    match pubECDSA C kb with
    | .ok k => .ok (.ecdsa k)
    | .err e => .err e
    | .panic m => .panic m
  else if kb.format = fPKCS1 ∨ kb.format = fTransparentRSAPublicKey then
    match pubRSA C kb with
    | .ok k => .ok (.rsa k)
    | .err e => .err e
    | .panic m => .panic m
  else if kb.format = fX509 then
    match getBytes kb with
    | .ok raw => ofOption (C.parsePKIX raw)
    | .err e => .err e
    | .panic m => .panic m
  else .err .unsupported

def pemPublicKey := 1
def pemPrivateKey := 2
def pemCertificate := 3

/-- `PublicKey.PkixPem`. -/
def pubPkixPem (C : CryptoOps) (kb : KeyBlockV) : Res Bytes :=
  match pubCrypto C kb with
  | .ok k =>
    match C.marshalPKIX k with
    | none => .err .other
    | some der => .ok (C.pem pemPublicKey der)
  | .err e => .err e
  | .panic m => .panic m

/-- `PrivateKey.RSA`. -/
def privRSA (C : CryptoOps) (kb : KeyBlockV) : Res C.RsaPriv :=
  if kb.format = fPKCS1 then
    match getBytes kb with
    | .ok raw => ofOption (C.parsePKCS1Priv raw)
    | .err e => .err e
    | .panic m => .panic m
  else if kb.format = fPKCS8 then
    match getBytes kb with
    | .ok raw =>
      match C.parsePKCS8 raw with
      | none => .err .other
      | some (.rsa k) => .ok k
      | some _ => .err .other
    | .err e => .err e
    | .panic m => .panic m
  else if kb.format = fTransparentRSAPrivateKey then
    match getMaterial kb with
    | .ok mat =>
      match mat.rsaPriv with
      | none => .err .other
      | some tkey =>
        match tkey.e with
        | none => .err .other               -- "Missing public exponent"
        | some e =>
          match tkey.d with
          | none => .err .other             -- "Missing private exponent"
          | some d =>
            if !isInt64 e then .err .range
            else
              match tkey.p, tkey.q with     -- the check added by 414a481
              | some p, some q =>
                .ok (C.rsaPrivBuild { n := tkey.modulus, e := toInt64 e, d := d, primes := [p, q],
                                      dp := tkey.dp, dq := tkey.dq, qinv := tkey.qinv })
              | _, _ => .err .other
    | .err e => .err e
    | .panic m => .panic m
  else .err .unsupported

def ecPrivSlot (kb : KeyBlockV) (mat : Material) : Option EcPrivT :=
  if kb.format = fTransparentECPrivateKey then mat.ecPriv else mat.ecdsaPriv

/-- the tail of `PrivateKey.ECDSA` (HEAD): curve switch, range check of the scalar (e2e4a08), key. -/
def privECDSATail (C : CryptoOps) (tkey : EcPrivT) : Res C.EcPriv :=
  if !curveSupported tkey.curve then .err .unsupported
  else if tkey.d ≤ 0 ∨ tkey.d ≥ C.curveOrder tkey.curve then .err .range     -- "Invalid private key scalar"
  else .ok (C.ecPrivBuild tkey.curve tkey.d)

/-- the same before e2e4a08: any scalar is accepted. -/
def privECDSATailNoRange (C : CryptoOps) (tkey : EcPrivT) : Res C.EcPriv :=
  if !curveSupported tkey.curve then .err .unsupported
  else .ok (C.ecPrivBuild tkey.curve tkey.d)

/-- `PrivateKey.ECDSA` (HEAD). -/
def privECDSA (C : CryptoOps) (kb : KeyBlockV) : Res C.EcPriv :=
  if kb.format = fECPrivateKey then
    match getBytes kb with
    | .ok raw => ofOption (C.parseSEC1 raw)
    | .err e => .err e
    | .panic m => .panic m
  else if kb.format = fPKCS8 then
    match getBytes kb with
    | .ok raw =>
      match C.parsePKCS8 raw with
      | none => .err .other
      | some (.ecdsa k) => .ok k
      | some _ => .err .other
    | .err e => .err e
    | .panic m => .panic m
  else if kb.format = fTransparentECDSAPrivateKey ∨ kb.format = fTransparentECPrivateKey then
    match getMaterial kb with
    | .ok mat =>
      match ecPrivSlot kb mat with
      | none => .err .other
      | some tkey => privECDSATail C tkey
    | .err e => .err e
    | .panic m => .panic m
  else .err .unsupported

/-- `PrivateKey.ECDSA` before 414a481. -/
def privECDSAOld (C : CryptoOps) (kb : KeyBlockV) : Res C.EcPriv :=
  if kb.format = fECPrivateKey then
    match getBytes kb with
    | .ok raw => ofOption (C.parseSEC1 raw)
    | .err e => .err e
    | .panic m => .panic m
  else if kb.format = fPKCS8 then
    match getBytes kb with
    | .ok raw =>
      match C.parsePKCS8 raw with
      | none => .err .other
      | some (.ecdsa k) => .ok k
      | some _ => .err .other
    | .err e => .err e
    | .panic m => .panic m
  else if kb.format = fTransparentECDSAPrivateKey ∨ kb.format = fTransparentECPrivateKey then
    match getMaterialOld kb with
    | .ok mat =>
      match ecPrivSlot kb mat with
      | none => .panic "nil pointer dereference"
      | some tkey => privECDSATailNoRange C tkey
    | .err e => .err e
    | .panic m => .panic m
  else .err .unsupported

/-- `PrivateKey.ECDSA` between 414a481 and e2e4a08: nil checks present, no range check of the scalar. -/
def privECDSANoRange (C : CryptoOps) (kb : KeyBlockV) : Res C.EcPriv :=
  if kb.format = fECPrivateKey then
    match getBytes kb with
    | .ok raw => ofOption (C.parseSEC1 raw)
    | .err e => .err e
    | .panic m => .panic m
  else if kb.format = fPKCS8 then
    match getBytes kb with
    | .ok raw =>
      match C.parsePKCS8 raw with
      | none => .err .other
      | some (.ecdsa k) => .ok k
      | some _ => .err .other
    | .err e => .err e
    | .panic m => .panic m
  else if kb.format = fTransparentECDSAPrivateKey ∨ kb.format = fTransparentECPrivateKey then
    match getMaterial kb with
    | .ok mat =>
      match ecPrivSlot kb mat with
      | none => .err .other
      | some tkey => privECDSATailNoRange C tkey
    | .err e => .err e
    | .panic m => .panic m
  else .err .unsupported

/-- `PrivateKey.CryptoPrivateKey`. -/
def privCrypto (C : CryptoOps) (kb : KeyBlockV) : Res C.Priv :=
  if kb.format = fECPrivateKey ∨ kb.format = fTransparentECPrivateKey ∨ kb.format = fTransparentECDSAPrivateKey then
    match privECDSA C kb with
    | .ok k => .ok (.ecdsa k)
    | .err e => .err e
    | .panic m => .panic m
  else if kb.format = fPKCS1 ∨ kb.format = fTransparentRSAPrivateKey then
    match privRSA C kb with
    | .ok k => .ok (.rsa k)
    | .err e => .err e
    | .panic m => .panic m
  else if kb.format = fPKCS8 then
    match getBytes kb with
    | .ok raw => ofOption (C.parsePKCS8 raw)
    | .err e => .err e
    | .panic m => .panic m
  else .err .unsupported

/-- `PrivateKey.Pkcs8Pem`. -/
def privPkcs8Pem (C : CryptoOps) (kb : KeyBlockV) : Res Bytes :=
  match privCrypto C kb with
  | .ok k =>
    match C.marshalPKCS8 k with
    | .ok der => .ok (C.pem pemPrivateKey der)
    | .err e => .err e
    | .panic m => .panic m                 -- inside the standard library
  | .err e => .err e
  | .panic m => .panic m

/-- `CryptoPrivateKey` / `Pkcs8Pem` before e2e4a08 (only the EC branch differs). -/
def privCryptoNoRange (C : CryptoOps) (kb : KeyBlockV) : Res C.Priv :=
  if kb.format = fECPrivateKey ∨ kb.format = fTransparentECPrivateKey ∨ kb.format = fTransparentECDSAPrivateKey then
    match privECDSANoRange C kb with
    | .ok k => .ok (.ecdsa k)
    | .err e => .err e
    | .panic m => .panic m
  else privCrypto C kb

def privPkcs8PemNoRange (C : CryptoOps) (kb : KeyBlockV) : Res Bytes :=
  match privCryptoNoRange C kb with
  | .ok k =>
    match C.marshalPKCS8 k with
    | .ok der => .ok (C.pem pemPrivateKey der)
    | .err e => .err e
    | .panic m => .panic m
  | .err e => .err e
  | .panic m => .panic m

/-- `Certificate.X509Certificate`. -/
def certX509 (C : CryptoOps) (ty : Nat) (value : Bytes) : Res C.Cert :=
  if ty ≠ 1 then .err .unsupported else ofOption (C.parseCert value)

/-- `Certificate.PemCertificate`. -/
def certPem (C : CryptoOps) (ty : Nat) (value : Bytes) : Res Bytes :=
  match certX509 C ty value with
  | .ok c => .ok (C.pem pemCertificate (C.certRaw c))
  | .err e => .err e
  | .panic m => .panic m

/-! `GetResponsePayload` accessors: the ObjectType check, then the type assertion of `pl.Object` to an
    interface holding the method (a nil interface or another object type fails the assertion). -/

def getSecret (r : GetResp) : Res Bytes :=
  if r.objectType ≠ 7 then .err .typeMismatch
  else match r.object with
    | some (.secretData _ kb) => secretData kb
    | _ => .err .other

def getSymmetricKey (r : GetResp) : Res Bytes :=
  if r.objectType ≠ 2 then .err .typeMismatch
  else match r.object with
    | some (.symmetricKey kb) => symKeyMaterial kb
    | _ => .err .other

def getX509Certificate (C : CryptoOps) (r : GetResp) : Res C.Cert :=
  if r.objectType ≠ 1 then .err .typeMismatch
  else match r.object with
    | some (.certificate ty v) => certX509 C ty v
    | _ => .err .other

def getPemCertificate (C : CryptoOps) (r : GetResp) : Res Bytes :=
  if r.objectType ≠ 1 then .err .typeMismatch
  else match r.object with
    | some (.certificate ty v) => certPem C ty v
    | _ => .err .other

def getRsaPrivateKey (C : CryptoOps) (r : GetResp) : Res C.RsaPriv :=
  if r.objectType ≠ 4 then .err .typeMismatch
  else match r.object with
    | some (.privateKey kb) => privRSA C kb
    | _ => .err .other

def getEcdsaPrivateKey (C : CryptoOps) (r : GetResp) : Res C.EcPriv :=
  if r.objectType ≠ 4 then .err .typeMismatch
  else match r.object with
    | some (.privateKey kb) => privECDSA C kb
    | _ => .err .other

def getPrivateKey (C : CryptoOps) (r : GetResp) : Res C.Priv :=
  if r.objectType ≠ 4 then .err .typeMismatch
  else match r.object with
    | some (.privateKey kb) => privCrypto C kb
    | _ => .err .other

def getPemPrivateKey (C : CryptoOps) (r : GetResp) : Res Bytes :=
  if r.objectType ≠ 4 then .err .typeMismatch
  else match r.object with
    | some (.privateKey kb) => privPkcs8Pem C kb
    | _ => .err .other

def getRsaPublicKey (C : CryptoOps) (r : GetResp) : Res C.RsaPub :=
  if r.objectType ≠ 3 then .err .typeMismatch
  else match r.object with
    | some (.publicKey kb) => pubRSA C kb
    | _ => .err .other

def getEcdsaPublicKey (C : CryptoOps) (r : GetResp) : Res C.EcPub :=
  if r.objectType ≠ 3 then .err .typeMismatch
  else match r.object with
    | some (.publicKey kb) => pubECDSA C kb
    | _ => .err .other

def getPublicKey (C : CryptoOps) (r : GetResp) : Res C.Pub :=
  if r.objectType ≠ 3 then .err .typeMismatch
  else match r.object with
    | some (.publicKey kb) => pubCrypto C kb
    | _ => .err .other

def getPemPublicKey (C : CryptoOps) (r : GetResp) : Res Bytes :=
  if r.objectType ≠ 3 then .err .typeMismatch
  else match r.object with
    | some (.publicKey kb) => pubPkixPem C kb
    | _ => .err .other

/-! ### every accessor, uniformly (used by the driver and by `accessor_total`) -/

inductive Accessor where
  | kbMaterial | kbBytes | kbAttrs
  | secretData | symMaterial
  | pubRSA | pubECDSA | pubCrypto | pubPem
  | privRSA | privECDSA | privCrypto | privPem
  | certX509 | certPem
  | getSecret | getSecretString | getSym | getX509 | getPemCert
  | getRsaPriv | getEcdsaPriv | getPriv | getPemPriv
  | getRsaPub | getEcdsaPub | getPub | getPemPub
  deriving Repr, DecidableEq

def Accessor.all : List Accessor :=
  [.kbMaterial, .kbBytes, .kbAttrs, .secretData, .symMaterial, .pubRSA, .pubECDSA, .pubCrypto, .pubPem,
   .privRSA, .privECDSA, .privCrypto, .privPem, .certX509, .certPem, .getSecret, .getSecretString, .getSym,
   .getX509, .getPemCert, .getRsaPriv, .getEcdsaPriv, .getPriv, .getPemPriv, .getRsaPub, .getEcdsaPub,
   .getPub, .getPemPub]

def Accessor.name : Accessor → String
  | .kbMaterial => "kb.material" | .kbBytes => "kb.bytes" | .kbAttrs => "kb.attrs"
  | .secretData => "secret.data" | .symMaterial => "sym.material"
  | .pubRSA => "pub.rsa" | .pubECDSA => "pub.ecdsa" | .pubCrypto => "pub.crypto" | .pubPem => "pub.pem"
  | .privRSA => "priv.rsa" | .privECDSA => "priv.ecdsa" | .privCrypto => "priv.crypto" | .privPem => "priv.pem"
  | .certX509 => "cert.x509" | .certPem => "cert.pem"
  | .getSecret => "get.secret" | .getSecretString => "get.secretstring" | .getSym => "get.sym"
  | .getX509 => "get.x509" | .getPemCert => "get.pemcert"
  | .getRsaPriv => "get.rsapriv" | .getEcdsaPriv => "get.ecdsapriv" | .getPriv => "get.priv"
  | .getPemPriv => "get.pempriv" | .getRsaPub => "get.rsapub" | .getEcdsaPub => "get.ecdsapub"
  | .getPub => "get.pub" | .getPemPub => "get.pempub"

/-- what the caller sees of a successful result (no key bytes). -/
inductive Out where
  | plain                 -- bytes / material / PEM text / certificate
  | count (n : Nat)       -- GetAttributes
  | rsa | ecdsa | other   -- dynamic type of the returned key
  deriving Repr, DecidableEq

def Out.render : Out → String
  | .plain => "ok"
  | .count n => "ok " ++ toString n
  | .rsa => "ok rsa"
  | .ecdsa => "ok ecdsa"
  | .other => "ok other"

def resAs {α : Type} (r : Res α) (f : α → Out) : Res Out :=
  match r with
  | .ok a => .ok (f a)
  | .err e => .err e
  | .panic m => .panic m

def privOut {R E : Type} : PrivAny R E → Out
  | .rsa _ => .rsa | .ecdsa _ => .ecdsa | .other => .other
def pubOut {R E : Type} : PubAny R E → Out
  | .rsa _ => .rsa | .ecdsa _ => .ecdsa | .other => .other

/-- an accessor of a Go type applied to an object of another Go type does not type-check: `.err .unsupported`
    stands for "not applicable" (the harness never asks for those). -/
def run (C : CryptoOps) (a : Accessor) (r : GetResp) : Res Out :=
  let kb? := r.object.bind Obj.keyBlock?
  match a with
  | .kbMaterial => match kb? with | some kb => resAs (getMaterial kb) (fun _ => .plain) | none => .err .unsupported
  | .kbBytes => match kb? with | some kb => resAs (getBytes kb) (fun _ => .plain) | none => .err .unsupported
  | .kbAttrs => match kb? with | some kb => resAs (getAttributes kb) .count | none => .err .unsupported
  | .secretData => match r.object with | some (.secretData _ kb) => resAs (secretData kb) (fun _ => .plain) | _ => .err .unsupported
  | .symMaterial => match r.object with | some (.symmetricKey kb) => resAs (symKeyMaterial kb) (fun _ => .plain) | _ => .err .unsupported
  | .pubRSA => match r.object with | some (.publicKey kb) => resAs (pubRSA C kb) (fun _ => .rsa) | _ => .err .unsupported
  | .pubECDSA => match r.object with | some (.publicKey kb) => resAs (pubECDSA C kb) (fun _ => .ecdsa) | _ => .err .unsupported
  | .pubCrypto => match r.object with | some (.publicKey kb) => resAs (pubCrypto C kb) pubOut | _ => .err .unsupported
  | .pubPem => match r.object with | some (.publicKey kb) => resAs (pubPkixPem C kb) (fun _ => .plain) | _ => .err .unsupported
  | .privRSA => match r.object with | some (.privateKey kb) => resAs (privRSA C kb) (fun _ => .rsa) | _ => .err .unsupported
  | .privECDSA => match r.object with | some (.privateKey kb) => resAs (privECDSA C kb) (fun _ => .ecdsa) | _ => .err .unsupported
  | .privCrypto => match r.object with | some (.privateKey kb) => resAs (privCrypto C kb) privOut | _ => .err .unsupported
  | .privPem => match r.object with | some (.privateKey kb) => resAs (privPkcs8Pem C kb) (fun _ => .plain) | _ => .err .unsupported
  | .certX509 => match r.object with | some (.certificate ty v) => resAs (certX509 C ty v) (fun _ => .plain) | _ => .err .unsupported
  | .certPem => match r.object with | some (.certificate ty v) => resAs (certPem C ty v) (fun _ => .plain) | _ => .err .unsupported
  | .getSecret => resAs (getSecret r) (fun _ => .plain)
  | .getSecretString => resAs (getSecret r) (fun _ => .plain)
  | .getSym => resAs (getSymmetricKey r) (fun _ => .plain)
  | .getX509 => resAs (getX509Certificate C r) (fun _ => .plain)
  | .getPemCert => resAs (getPemCertificate C r) (fun _ => .plain)
  | .getRsaPriv => resAs (getRsaPrivateKey C r) (fun _ => .rsa)
  | .getEcdsaPriv => resAs (getEcdsaPrivateKey C r) (fun _ => .ecdsa)
  | .getPriv => resAs (getPrivateKey C r) privOut
  | .getPemPriv => resAs (getPemPrivateKey C r) (fun _ => .plain)
  | .getRsaPub => resAs (getRsaPublicKey C r) (fun _ => .rsa)
  | .getEcdsaPub => resAs (getEcdsaPublicKey C r) (fun _ => .ecdsa)
  | .getPub => resAs (getPublicKey C r) pubOut
  | .getPemPub => resAs (getPemPublicKey C r) (fun _ => .plain)

/-- the accessors as they were before 414a481 and e2e4a08 (only the repaired ones differ). -/
def runOld (C : CryptoOps) (a : Accessor) (r : GetResp) : Res Out :=
  let kb? := r.object.bind Obj.keyBlock?
  match a with
  | .kbMaterial => match kb? with | some kb => resAs (getMaterialOld kb) (fun _ => .plain) | none => .err .unsupported
  | .kbAttrs => match kb? with | some kb => resAs (getAttributesOld kb) .count | none => .err .unsupported
  | .pubECDSA => match r.object with | some (.publicKey kb) => resAs (pubECDSAOld C kb) (fun _ => .ecdsa) | _ => .err .unsupported
  | .privECDSA => match r.object with | some (.privateKey kb) => resAs (privECDSAOld C kb) (fun _ => .ecdsa) | _ => .err .unsupported
  | .privPem => match r.object with | some (.privateKey kb) => resAs (privPkcs8PemNoRange C kb) (fun _ => .plain) | _ => .err .unsupported
  | a => run C a r

/-! ## 5. The register builders (kmipclient/register.go) -/

/-! `KeyFormat` bit mask -/
def kfTransparent := 1
def kfX509 := 2
def kfPKCS8 := 4
def kfPKCS1 := 8
def kfSEC1 := 16
def kfRAW := 32

/-- `kf&F == F` for a one-bit `F` (a `uint8`). -/
def hasFmt (kf f : Nat) : Bool := kf &&& f = f

/-! The selectors of register.go.  The documentation of `KeyFormat` promises the default of each kind of key
    ("If the key format is not set, it defaults to …") and nothing about the priority among several requested
    formats; the C14 theorems are therefore stated for ANY format that is `admissible` for the mask, and the
    functions below (the order of the `if`s of HEAD) are one admissible choice (`selectFormat_admissible`). -/

def rsaPubFormat (kf : Nat) : Nat :=
  if kf = 0 ∨ hasFmt kf kfPKCS1 then kfPKCS1
  else if hasFmt kf kfX509 then kfX509
  else if hasFmt kf kfTransparent then kfTransparent
  else kfPKCS1

def rsaPrivFormat (kf : Nat) : Nat :=
  if kf = 0 ∨ hasFmt kf kfPKCS1 then kfPKCS1
  else if hasFmt kf kfPKCS8 then kfPKCS8
  else if hasFmt kf kfTransparent then kfTransparent
  else kfPKCS1

def ecdsaPubFormat (kf : Nat) : Nat :=
  if kf = 0 ∨ hasFmt kf kfX509 then kfX509
  else if hasFmt kf kfTransparent then kfTransparent
  else kfX509

def ecdsaPrivFormat (kf : Nat) : Nat :=
  if kf = 0 ∨ hasFmt kf kfSEC1 then kfSEC1
  else if hasFmt kf kfPKCS8 then kfPKCS8
  else if hasFmt kf kfTransparent then kfTransparent
  else kfSEC1

def symmetricFormat (kf : Nat) : Nat :=
  if kf = 0 ∨ hasFmt kf kfRAW then kfRAW
  else if hasFmt kf kfTransparent then kfTransparent
  else kfRAW

/-- the kinds of key the client registers. -/
inductive KeyKind where
  | rsaPriv | rsaPub | ecPriv | ecPub | sym | secret
  deriving Repr, DecidableEq

/-- the formats that exist for a kind (the arms of the builder's `switch`). -/
def KeyKind.formats : KeyKind → List Nat
  | .rsaPriv => [kfPKCS1, kfPKCS8, kfTransparent]
  | .rsaPub => [kfPKCS1, kfX509, kfTransparent]
  | .ecPriv => [kfSEC1, kfPKCS8, kfTransparent]
  | .ecPub => [kfX509, kfTransparent]
  | .sym => [kfRAW, kfTransparent]
  | .secret => [kfRAW]

/-- the documented default of a kind. -/
def KeyKind.defaultFormat : KeyKind → Nat
  | .rsaPriv => kfPKCS1
  | .rsaPub => kfPKCS1
  | .ecPriv => kfSEC1
  | .ecPub => kfX509
  | .sym => kfRAW
  | .secret => kfRAW

/-- `f` is an acceptable choice for the mask `kf`: one of the requested formats that exist for the kind, or,
    when none of them is requested, the default of the kind. -/
def admissible (k : KeyKind) (kf f : Nat) : Bool :=
  let req := k.formats.filter (fun b => hasFmt kf b)
  if req.isEmpty then f == k.defaultFormat else req.contains f

/-- the choice HEAD makes. -/
def selectFormat : KeyKind → Nat → Nat
  | .rsaPriv, kf => rsaPrivFormat kf
  | .rsaPub, kf => rsaPubFormat kf
  | .ecPriv, kf => ecdsaPrivFormat kf
  | .ecPub, kf => ecdsaPubFormat kf
  | .sym, kf => symmetricFormat kf
  | .secret, _ => kfRAW

/-- `big.Int.BitLen()`. -/
def bitLen (n : Int) : Nat := if n = 0 then 0 else Nat.log2 n.natAbs + 1

def maxInt32 : Nat := 2147483647

def plainKB (format comp alg len : Nat) (m : Material) : KeyBlockV :=
  { format := format, comp := comp, alg := alg, len := len,
    keyValue := some { plain := some { material := m } } }

/-- `rawKeyBytes`. -/
def rawKeyBytes (priv : Bool) (der : Bytes) (alg bitlen format : Nat) : Obj :=
  let kb := plainKB format 0 alg bitlen { bytes := some der }
  if priv then .privateKey kb else .publicKey kb

/-- `ttlv.CompareVersions(ex.client.Version(), kmip.V1_3) >= 0` (major first, then minor). -/
def verGE13 (ver : Nat × Nat) : Bool :=
  if ver.1 ≠ 1 then ver.1 > 1 else ver.2 ≥ 3

/-- `RsaPrivateKey` once the format `f` is chosen (HEAD: d693174 refuses anything but two primes in the
    transparent format). -/
def registerRsaPrivF (C : CryptoOps) (f : Nat) (key : C.RsaPriv) : Res Obj :=
  let parts := C.rsaPrivParts key
  let bitlen := bitLen parts.n
  if bitlen > maxInt32 then .err .range
  else
    if f = kfPKCS1 then
      match C.marshalPKCS1Priv key with      -- no error result in Go; panics on fewer than two primes
      | .ok der => .ok (rawKeyBytes true der algRSA bitlen fPKCS1)
      | .err e => .err e
      | .panic m => .panic m
    else if f = kfPKCS8 then
      match C.marshalPKCS8 (.rsa key) with
      | .ok der => .ok (rawKeyBytes true der algRSA bitlen fPKCS8)
      | .err e => .err e
      | .panic m => .panic m
    else if f = kfTransparent then
      match parts.primes with
      | [p, q] =>                            -- len(key.Primes) == 2; key.Primes[0], key.Primes[1]
        .ok (.privateKey (plainKB fTransparentRSAPrivateKey 0 algRSA bitlen
          { rsaPriv := some { modulus := parts.n, d := some parts.d, e := some parts.e, p := some p, q := some q,
                              dp := parts.dp, dq := parts.dq, qinv := parts.qinv } }))
      | _ => .err .other                     -- "requires exactly two primes"
    else .panic "Unexpected key format"

def registerRsaPriv (C : CryptoOps) (kf : Nat) (key : C.RsaPriv) : Res Obj :=
  registerRsaPrivF C (rsaPrivFormat kf) key

/-- `RsaPrivateKey` before d693174: `key.Primes[0]`, `key.Primes[1]` whatever the number of primes. -/
def registerRsaPrivOld (C : CryptoOps) (kf : Nat) (key : C.RsaPriv) : Res Obj :=
  let parts := C.rsaPrivParts key
  let bitlen := bitLen parts.n
  if bitlen > maxInt32 then .err .range
  else
    let f := rsaPrivFormat kf
    if f = kfPKCS1 then
      match C.marshalPKCS1Priv key with
      | .ok der => .ok (rawKeyBytes true der algRSA bitlen fPKCS1)
      | .err e => .err e
      | .panic m => .panic m
    else if f = kfPKCS8 then
      match C.marshalPKCS8 (.rsa key) with
      | .ok der => .ok (rawKeyBytes true der algRSA bitlen fPKCS8)
      | .err e => .err e
      | .panic m => .panic m
    else if f = kfTransparent then
      match parts.primes with
      | p :: q :: _ =>
        .ok (.privateKey (plainKB fTransparentRSAPrivateKey 0 algRSA bitlen
          { rsaPriv := some { modulus := parts.n, d := some parts.d, e := some parts.e, p := some p, q := some q,
                              dp := parts.dp, dq := parts.dq, qinv := parts.qinv } }))
      | _ => .panic "index out of range"
    else .panic "Unexpected key format"

/-- `RsaPublicKey`. -/
def registerRsaPubF (C : CryptoOps) (f : Nat) (key : C.RsaPub) : Res Obj :=
  let bitlen := bitLen (C.rsaPubN key)
  if bitlen > maxInt32 then .err .range
  else
    if f = kfPKCS1 then .ok (rawKeyBytes false (C.marshalPKCS1Pub key) algRSA bitlen fPKCS1)
    else if f = kfX509 then
      match C.marshalPKIX (.rsa key) with
      | none => .err .other
      | some der => .ok (rawKeyBytes false der algRSA bitlen fX509)
    else if f = kfTransparent then
      .ok (.publicKey (plainKB fTransparentRSAPublicKey 0 algRSA bitlen
        { rsaPub := some { modulus := C.rsaPubN key, e := C.rsaPubE key } }))
    else .panic "Unexpected key format"

def registerRsaPub (C : CryptoOps) (kf : Nat) (key : C.RsaPub) : Res Obj :=
  registerRsaPubF C (rsaPubFormat kf) key

/-- `EcdsaPrivateKey` (the transparent representation depends on the client's protocol version). -/
def registerEcPrivF (C : CryptoOps) (f : Nat) (ver : Nat × Nat) (key : C.EcPriv) : Res Obj :=
  let crv := C.ecPrivCurve key
  if !curveSupported crv then .err .unsupported       -- curveToKMIP: "Unsupported curve"
  else
    let bitlen := curveBitlen crv
    if f = kfSEC1 then
      match C.marshalSEC1 key with
      | none => .err .other
      | some der => .ok (rawKeyBytes true der algECDSA bitlen fECPrivateKey)
    else if f = kfPKCS8 then
      match C.marshalPKCS8 (.ecdsa key) with
      | .ok der => .ok (rawKeyBytes true der algECDSA bitlen fPKCS8)
      | .err e => .err e
      | .panic m => .panic m
    else if f = kfTransparent then
      let t : EcPrivT := { curve := crv, d := C.ecPrivD key }
      if verGE13 ver then
        .ok (.privateKey (plainKB fTransparentECPrivateKey 0 algECDSA bitlen { ecPriv := some t }))
      else
        .ok (.privateKey (plainKB fTransparentECDSAPrivateKey 0 algECDSA bitlen { ecdsaPriv := some t }))
    else .panic "Unexpected key format"

def registerEcPriv (C : CryptoOps) (kf : Nat) (ver : Nat × Nat) (key : C.EcPriv) : Res Obj :=
  registerEcPrivF C (ecdsaPrivFormat kf) ver key

/-- `EcdsaPublicKey`. -/
def registerEcPubF (C : CryptoOps) (f : Nat) (ver : Nat × Nat) (key : C.EcPub) : Res Obj :=
  let crv := C.ecPubCurve key
  if !curveSupported crv then .err .unsupported
  else
    let bitlen := curveBitlen crv
    if f = kfX509 then
      match C.marshalPKIX (.ecdsa key) with
      | none => .err .other
      | some der => .ok (rawKeyBytes false der algECDSA bitlen fX509)
    else if f = kfTransparent then
      let t : EcPubT := { curve := crv, q := C.ecMarshal key }
      if verGE13 ver then
        .ok (.publicKey (plainKB fTransparentECPublicKey 1 algECDSA bitlen { ecPub := some t }))
      else
        .ok (.publicKey (plainKB fTransparentECDSAPublicKey 1 algECDSA bitlen { ecdsaPub := some t }))
    else .panic "Unexpected key format"

def registerEcPub (C : CryptoOps) (kf : Nat) (ver : Nat × Nat) (key : C.EcPub) : Res Obj :=
  registerEcPubF C (ecdsaPubFormat kf) ver key

/-- `SymmetricKey`. -/
def registerSymF (f : Nat) (alg : Nat) (value : Bytes) : Res Obj :=
  let bitLen := value.length * 8
  if bitLen > maxInt32 then .err .range
  else
    if f = kfRAW then .ok (.symmetricKey (plainKB fRaw 0 alg bitLen { bytes := some value }))
    else if f = kfTransparent then
      .ok (.symmetricKey (plainKB fTransparentSymmetricKey 0 alg bitLen { sym := some value }))
    else .panic "Unexpected key format"

def registerSym (kf : Nat) (alg : Nat) (value : Bytes) : Res Obj :=
  registerSymF (symmetricFormat kf) alg value

/-- `Secret`. -/
def registerSecret (kind : Nat) (value : Bytes) : Res Obj :=
  .ok (.secretData kind (plainKB fRaw 0 0 0 { bytes := some value }))

/-- `Certificate` / `X509Certificate`. -/
def registerCert (C : CryptoOps) (cert : C.Cert) : Res Obj := .ok (.certificate 1 (C.certRaw cert))

/-- any key the client can register, with what an accessor gives back for it. -/
inductive AnyKey (C : CryptoOps) where
  | rsaPriv (k : C.RsaPriv)
  | rsaPub (k : C.RsaPub)
  | ecPriv (k : C.EcPriv)
  | ecPub (k : C.EcPub)
  | sym (alg : Nat) (value : Bytes)
  | secret (kind : Nat) (value : Bytes)

def AnyKey.kind {C : CryptoOps} : AnyKey C → KeyKind
  | .rsaPriv _ => .rsaPriv
  | .rsaPub _ => .rsaPub
  | .ecPriv _ => .ecPriv
  | .ecPub _ => .ecPub
  | .sym .. => .sym
  | .secret .. => .secret

/-- the builder of the kind of key, once the format is chosen. -/
def registerF (C : CryptoOps) (f : Nat) (ver : Nat × Nat) : AnyKey C → Res Obj
  | .rsaPriv k => registerRsaPrivF C f k
  | .rsaPub k => registerRsaPubF C f k
  | .ecPriv k => registerEcPrivF C f ver k
  | .ecPub k => registerEcPubF C f ver k
  | .sym alg v => registerSymF f alg v
  | .secret kind v => registerSecret kind v

/-- the builder with the selector of HEAD. -/
def register (C : CryptoOps) (kf : Nat) (ver : Nat × Nat) (key : AnyKey C) : Res Obj :=
  registerF C (selectFormat key.kind kf) ver key

/-- what is compared: the key itself / the key bytes. -/
inductive Extracted (C : CryptoOps) where
  | rsaPriv (k : C.RsaPriv)
  | rsaPub (k : C.RsaPub)
  | ecPriv (k : C.EcPriv)
  | ecPub (k : C.EcPub)
  | bytes (value : Bytes)

def AnyKey.content {C : CryptoOps} : AnyKey C → Extracted C
  | .rsaPriv k => .rsaPriv k
  | .rsaPub k => .rsaPub k
  | .ecPriv k => .ecPriv k
  | .ecPub k => .ecPub k
  | .sym _ v => .bytes v
  | .secret _ v => .bytes v

/-- the `GetResponsePayload` accessor a client uses for that kind of key. -/
def extract (C : CryptoOps) (key : AnyKey C) (r : GetResp) : Res (Extracted C) :=
  match key with
  | .rsaPriv _ => match getRsaPrivateKey C r with | .ok k => .ok (.rsaPriv k) | .err e => .err e | .panic m => .panic m
  | .rsaPub _ => match getRsaPublicKey C r with | .ok k => .ok (.rsaPub k) | .err e => .err e | .panic m => .panic m
  | .ecPriv _ => match getEcdsaPrivateKey C r with | .ok k => .ok (.ecPriv k) | .err e => .err e | .panic m => .panic m
  | .ecPub _ => match getEcdsaPublicKey C r with | .ok k => .ok (.ecPub k) | .err e => .err e | .panic m => .panic m
  | .sym .. => match getSymmetricKey r with | .ok v => .ok (.bytes v) | .err e => .err e | .panic m => .panic m
  | .secret .. => match getSecret r with | .ok v => .ok (.bytes v) | .err e => .err e | .panic m => .panic m

/-! ## 6. Value-level transport of an object -/

def optBig (enc : Enc) : Option Int → Res (Option Int)
  | none => .ok none
  | some v => match bigTransport enc v with
    | .ok w => .ok (some w) | .err e => .err e | .panic m => .panic m

def optBytes (enc : Enc) : Option Bytes → Res (Option Bytes)
  | none => .ok none
  | some v => match bytesTransport enc v with
    | .ok w => .ok (some w) | .err e => .err e | .panic m => .panic m

def transportRsaPriv (enc : Enc) (t : RsaPrivT) : Res RsaPrivT := do
  let n ← bigTransport enc t.modulus
  let d ← optBig enc t.d
  let e ← optBig enc t.e
  let p ← optBig enc t.p
  let q ← optBig enc t.q
  let dp ← optBig enc t.dp
  let dq ← optBig enc t.dq
  let qinv ← optBig enc t.qinv
  pure { modulus := n, d := d, e := e, p := p, q := q, dp := dp, dq := dq, qinv := qinv }

def transportRsaPub (enc : Enc) (t : RsaPubT) : Res RsaPubT := do
  let n ← bigTransport enc t.modulus
  let e ← bigTransport enc t.e
  pure { modulus := n, e := e }

def transportEcPriv (enc : Enc) (t : EcPrivT) : Res EcPrivT := do
  let d ← bigTransport enc t.d
  pure { curve := t.curve, d := d }

def transportEcPub (enc : Enc) (t : EcPubT) : Res EcPubT := do
  let q ← bytesTransport enc t.q
  pure { curve := t.curve, q := q }

def optMap {α : Type} (f : α → Res α) : Option α → Res (Option α)
  | none => .ok none
  | some v => match f v with
    | .ok w => .ok (some w) | .err e => .err e | .panic m => .panic m

def transportMaterial (enc : Enc) (m : Material) : Res Material := do
  let bytes ← optBytes enc m.bytes
  let sym ← optBytes enc m.sym
  let rsaPriv ← optMap (transportRsaPriv enc) m.rsaPriv
  let rsaPub ← optMap (transportRsaPub enc) m.rsaPub
  let ecdsaPriv ← optMap (transportEcPriv enc) m.ecdsaPriv
  let ecdsaPub ← optMap (transportEcPub enc) m.ecdsaPub
  let ecPriv ← optMap (transportEcPriv enc) m.ecPriv
  let ecPub ← optMap (transportEcPub enc) m.ecPub
  pure { bytes := bytes, sym := sym, rsaPriv := rsaPriv, rsaPub := rsaPub, ecdsaPriv := ecdsaPriv,
         ecdsaPub := ecdsaPub, ecPriv := ecPriv, ecPub := ecPub }

def transportPlain (enc : Enc) (p : Plain) : Res Plain := do
  let m ← transportMaterial enc p.material
  pure { material := m, attrs := p.attrs }

def transportKeyValue (enc : Enc) (kv : KeyValueV) : Res KeyValueV := do
  let w ← optBytes enc kv.wrapped
  let p ← optMap (transportPlain enc) kv.plain
  pure { wrapped := w, plain := p }

def transportKB (enc : Enc) (kb : KeyBlockV) : Res KeyBlockV := do
  let kv ← optMap (transportKeyValue enc) kb.keyValue
  pure { kb with keyValue := kv }

def transportObj (enc : Enc) : Obj → Res Obj
  | .secretData ty kb => do let kb' ← transportKB enc kb; pure (.secretData ty kb')
  | .symmetricKey kb => do let kb' ← transportKB enc kb; pure (.symmetricKey kb')
  | .publicKey kb => do let kb' ← transportKB enc kb; pure (.publicKey kb')
  | .privateKey kb => do let kb' ← transportKB enc kb; pure (.privateKey kb')
  | .splitKey kb => do let kb' ← transportKB enc kb; pure (.splitKey kb')
  | .pgpKey kb => do let kb' ← transportKB enc kb; pure (.pgpKey kb')
  | .certificate ty v => do let v' ← bytesTransport enc v; pure (.certificate ty v')
  | .opaque => pure .opaque
  | .template => pure .template

/-- register in the format `f`, at a version, transport in an encoding, extract. -/
def roundtripF (C : CryptoOps) (f : Nat) (ver : Nat × Nat) (enc : Enc) (key : AnyKey C) : Res (Extracted C) :=
  match registerF C f ver key with
  | .ok o =>
    match transportObj enc o with
    | .ok o' => extract C key (respOf o')
    | .err e => .err e
    | .panic m => .panic m
  | .err e => .err e
  | .panic m => .panic m

/-- the same with the selector of HEAD applied to a format mask. -/
def roundtrip (C : CryptoOps) (kf : Nat) (ver : Nat × Nat) (enc : Enc) (key : AnyKey C) : Res (Extracted C) :=
  roundtripF C (selectFormat key.kind kf) ver enc key

/-! ## 7. A toy standard library: keys are structures, DER is a tagged self-delimiting serialisation -/

namespace Toy

/-- self-delimiting code of a natural number: its decimal digits and a zero byte. -/
def un (n : Nat) : Bytes := decDigits n ++ [0]

def takeNum : Bytes → Nat → Option (Nat × Bytes)
  | [], _ => none
  | c :: cs, acc =>
    if c = 0 then some (acc, cs)
    else if 48 ≤ c ∧ c ≤ 57 then takeNum cs (acc * 10 + (c.toNat - 48))
    else none

def takeUn (bs : Bytes) : Option (Nat × Bytes) := takeNum bs 0

/-- any number of primes (0, 1: what `Validate` rejects; 2; more: multi-prime). -/
structure RsaPriv where
  n : Nat
  d : Nat
  primes : List Nat
  deriving Repr, DecidableEq

structure RsaPub where
  n : Nat
  deriving Repr, DecidableEq

/-- curve index 0..3 = P-224, P-256, P-384, P-521. -/
structure EcPriv where
  crv : Fin 4
  d : Nat
  deriving Repr, DecidableEq

structure EcPub where
  crv : Fin 4
  x : Nat
  y : Nat
  deriving Repr, DecidableEq

def curveCode (i : Fin 4) : Nat := 4 + 3 * i.val

def curveIx (c : Nat) : Fin 4 :=
  if c = 7 then 1 else if c = 10 then 2 else if c = 13 then 3 else 0

def serNums : List Nat → Bytes
  | [] => []
  | x :: xs => un x ++ serNums xs

def takeMany : Nat → Bytes → Option (List Nat × Bytes)
  | 0, bs => some ([], bs)
  | n + 1, bs =>
    match takeUn bs with
    | some (x, r) =>
      match takeMany n r with
      | some (xs, r') => some (x :: xs, r')
      | none => none
    | none => none

def serRsaPriv (k : RsaPriv) : Bytes := un k.n ++ (un k.d ++ (un k.primes.length ++ serNums k.primes))

/-- the parsers only return keys with two primes or more. -/
def deRsaPriv (bs : Bytes) : Option RsaPriv :=
  match takeUn bs with
  | some (n, r1) =>
    match takeUn r1 with
    | some (d, r2) =>
      match takeUn r2 with
      | some (len, r3) =>
        if len < 2 then none
        else
          match takeMany len r3 with
          | some (ps, []) => some { n := n, d := d, primes := ps }
          | _ => none
      | none => none
    | none => none
  | none => none

def serEcPriv (k : EcPriv) : Bytes := un k.crv.val ++ un k.d

/-- byte size of the order of the curve (P-224, P-256, P-384, P-521). -/
def orderBytes (i : Fin 4) : Nat := if i.val = 0 then 28 else if i.val = 1 then 32 else if i.val = 2 then 48 else 66

/-- the parsers only return scalars that fit the curve size. -/
def deEcPriv (bs : Bytes) : Option EcPriv :=
  match takeUn bs with
  | some (c, r1) =>
    if h : c < 4 then
      match takeUn r1 with
      | some (d, []) => if d < 256 ^ orderBytes ⟨c, h⟩ then some { crv := ⟨c, h⟩, d := d } else none
      | _ => none
    else none
  | none => none

def serEcPub (k : EcPub) : Bytes := un k.crv.val ++ un k.x ++ un k.y

def deEcPub (bs : Bytes) : Option EcPub :=
  match takeUn bs with
  | some (c, r1) =>
    if h : c < 4 then
      match takeUn r1 with
      | some (x, r2) =>
        match takeUn r2 with
        | some (y, []) => some { crv := ⟨c, h⟩, x := x, y := y }
        | _ => none
      | none => none
    else none
  | none => none

def serRsaPub (k : RsaPub) : Bytes := un k.n

def deRsaPub (bs : Bytes) : Option RsaPub :=
  match takeUn bs with
  | some (n, []) => some { n := n }
  | _ => none

/-- a "point" of curve `c`: format byte, curve code, coordinates. -/
def point (fmtByte : UInt8) (k : EcPub) : Bytes := fmtByte :: (curveCode k.crv).toUInt8 :: (un k.x ++ un k.y)

def unpoint (fmtByte : UInt8) (c : Nat) (bs : Bytes) : Option EcPub :=
  match bs with
  | f :: cc :: rest =>
    if f = fmtByte ∧ cc.toNat = c ∧ curveSupported c then
      match takeUn rest with
      | some (x, r2) =>
        match takeUn r2 with
        | some (y, []) => some { crv := curveIx c, x := x, y := y }
        | _ => none
      | none => none
    else none
  | _ => none

def tagged (t : UInt8) (bs : Bytes) : Bytes := t :: bs

def untag (t : UInt8) (bs : Bytes) : Option Bytes :=
  match bs with
  | x :: r => if x = t then some r else none
  | [] => none

def parsePKCS8 (bs : Bytes) : Option (PrivAny RsaPriv EcPriv) :=
  match bs with
  | 3 :: r => (deRsaPriv r).map .rsa
  | 4 :: r => (deEcPriv r).map .ecdsa
  | [5] => some .other
  | _ => none

/-- `Validate`, as far as the toy goes: two primes or more. -/
def rsaValidate (k : RsaPriv) : Bool := decide (2 ≤ k.primes.length)

/-- like the real `MarshalPKCS1PrivateKey`: index out of range on a key with fewer than two primes. -/
def marshalPKCS1Priv (k : RsaPriv) : Res Bytes :=
  if k.primes.length < 2 then .panic "index out of range" else .ok (1 :: serRsaPriv k)

/-- like the real `MarshalPKCS8PrivateKey` (Go 1.24): an RSA key that is not valid is an error; panics on an
    EC key whose scalar does not fit the curve size. -/
def marshalPKCS8 : PrivAny RsaPriv EcPriv → Res Bytes
  | .rsa k => if rsaValidate k then .ok (3 :: serRsaPriv k) else .err .other
  | .ecdsa k =>
    if k.d ≥ 256 ^ orderBytes k.crv then .panic "math/big: buffer too small to fit value"
    else .ok (4 :: serEcPriv k)
  | .other => .ok [5]

def parsePKIX (bs : Bytes) : Option (PubAny RsaPub EcPub) :=
  match bs with
  | 7 :: r => (deRsaPub r).map .rsa
  | 8 :: r => (deEcPub r).map .ecdsa
  | [9] => some .other
  | _ => none

def marshalPKIX : PubAny RsaPub EcPub → Option Bytes
  | .rsa k => some (7 :: serRsaPub k)
  | .ecdsa k => some (8 :: serEcPub k)
  | .other => some [9]

/-- the orders of P-224, P-256, P-384, P-521 (FIPS 186-4), by RecommendedCurve code. -/
def curveOrder (c : Nat) : Int :=
  if c = 4 then 26959946667150639794667015087019625940457807714424391721682722368061
  else if c = 7 then 115792089210356248762697446949407573529996955224135760342422259061068512044369
  else if c = 10 then 39402006196394479212279040100143613805079739270465446667946905279627659399113263569398956308152294913554433653942643
  else if c = 13 then 6864797660130609714981900799081393217269435300143305409394463459185543183397655394245057746333217197532963996371363321113864768612440380340372808892707005449
  else 0

def marshalSEC1 (k : EcPriv) : Option Bytes :=
  if k.d ≥ 256 ^ orderBytes k.crv then none else some (tagged 6 (serEcPriv k))

def rsaPrivParts (k : RsaPriv) : RsaParts :=
  { n := k.n, e := 65537, d := k.d, primes := k.primes.map Int.ofNat }

def rsaPrivBuild (p : RsaParts) : RsaPriv :=
  { n := p.n.toNat, d := p.d.toNat, primes := p.primes.map Int.toNat }

/-- the toy library (functions only; its laws are proved in `Lemmas/KeyAccessLemmas.lean`). -/
def ops : CryptoOps where
  RsaPriv := RsaPriv
  RsaPub := RsaPub
  EcPriv := EcPriv
  EcPub := EcPub
  Cert := Bytes
  parsePKCS1Priv bs := (untag 1 bs).bind deRsaPriv
  marshalPKCS1Priv := marshalPKCS1Priv
  parsePKCS1Pub bs := (untag 2 bs).bind deRsaPub
  marshalPKCS1Pub k := tagged 2 (serRsaPub k)
  parsePKCS8 := parsePKCS8
  marshalPKCS8 := marshalPKCS8
  parseSEC1 bs := (untag 6 bs).bind deEcPriv
  marshalSEC1 := marshalSEC1
  parsePKIX := parsePKIX
  marshalPKIX := marshalPKIX
  parseCert bs := untag 10 bs
  certRaw c := tagged 10 c
  pem ty der := ty.toUInt8 :: der
  rsaValidate := rsaValidate
  rsaPubValid k := decide (0 < k.n)
  rsaPrivParts := rsaPrivParts
  rsaPrivBuild := rsaPrivBuild
  rsaPubN k := k.n
  rsaPubE _ := 65537
  rsaPubMk n _ := { n := n.toNat }
  ecPrivCurve k := curveCode k.crv
  ecPrivD k := k.d
  ecPrivBuild c d := { crv := curveIx c, d := d.natAbs }
  curveOrder := curveOrder
  ecPubCurve k := curveCode k.crv
  ecMarshal k := point 4 k
  ecUnmarshal c bs := unpoint 4 c bs
  ecUnmarshalCompressed c bs := unpoint 2 c bs

end Toy

end Kmip.Key
