/-
  Lemmas for C20 (model: `Model/Cache.lean`):
    (a) the inductive invariant of the plan cache under every interleaving;
    (b) the reusable encoder: see `Lemmas/CacheReuseLemmas.lean`.
-/
import KmipModel.Model.Cache
namespace Kmip.Cache
open Kmip

/-! ## (a) the plan cache -/

section cache
variable {P : Type}

theorem lookup_mem {c : List (TypeId × P)} {ty : TypeId} {p : P} (h : lookup c ty = some p) :
    (ty, p) ∈ c := by
  induction c with
  | nil => exact nomatch h
  | cons x rest ih =>
    obtain ⟨k, q⟩ := x
    rw [lookup] at h
    by_cases hk : k = ty
    · rw [if_pos hk] at h
      cases h; subst hk
      exact List.mem_cons_self
    · rw [if_neg hk] at h
      exact List.mem_cons_of_mem _ (ih h)

/-- what a program counter may hold. -/
def PcOk (B : Builder P) (build : TypeId → P) (ty : TypeId) : Pc P → Prop
  | .load => True
  | .deps rem got => ∃ done, B.deps ty = done ++ rem ∧ got = done.map build
  | .store p => p = build ty

/-- the frame below (if any) is the caller: it waits for exactly this type. -/
def Calls (ty : TypeId) : List (Frame P) → Prop
  | [] => True
  | g :: _ => ∃ ds got, g.pc = .deps (ty :: ds) got

def StackOk (B : Builder P) (build : TypeId → P) : List (Frame P) → Prop
  | [] => True
  | f :: rest => PcOk B build f.ty f.pc ∧ Calls f.ty rest ∧ StackOk B build rest

structure ThreadOk (B : Builder P) (build : TypeId → P) (th : Thread P) : Prop where
  stack : StackOk B build th.stack
  results : ∀ x ∈ th.results, x.2 = build x.1

/-- THE invariant: every plan anywhere — in the cache, in a local variable of a goroutine, among the plans
    a half-built closure has fetched, among the results — is `build` of its type. -/
structure Inv (B : Builder P) (build : TypeId → P) (s : State P) : Prop where
  cache : ∀ x ∈ s.cache, x.2 = build x.1
  threads : ∀ th ∈ s.threads, ThreadOk B build th

theorem ret_ok {B : Builder P} {build : TypeId → P} {th : Thread P} {ty : TypeId} {p : P}
    {rest : List (Frame P)} (hres : ∀ x ∈ th.results, x.2 = build x.1) (hp : p = build ty)
    (hc : Calls ty rest) (hs : StackOk B build rest) : ThreadOk B build (ret th ty p rest) := by
  cases rest with
  | nil =>
    refine ⟨trivial, ?_⟩
    intro x hx
    simp only [ret, List.mem_append, List.mem_singleton] at hx
    rcases hx with hx | hx
    · exact hres x hx
    · rw [hx]; exact hp
  | cons g rest' =>
    obtain ⟨ds, got, hg⟩ := hc
    obtain ⟨gty, gpc⟩ := g
    have hg' : gpc = .deps (ty :: ds) got := hg
    subst hg'
    obtain ⟨⟨done, hd1, hd2⟩, hcalls, hrest⟩ := hs
    refine ⟨⟨⟨done ++ [ty], ?_, ?_⟩, hcalls, hrest⟩, hres⟩
    · show B.deps gty = (done ++ [ty]) ++ ds
      have hd1' : B.deps gty = done ++ ty :: ds := hd1
      rw [hd1']; simp
    · show got ++ [p] = (done ++ [ty]).map build
      have hd2' : got = done.map build := hd2
      rw [hd2', hp]; simp

theorem stepThread_ok {B : Builder P} {build : TypeId → P} (hb : IsBuild B build)
    {cache : List (TypeId × P)} {th : Thread P} (hc : ∀ x ∈ cache, x.2 = build x.1)
    (ht : ThreadOk B build th) :
    (∀ x ∈ (stepThread B cache th).1, x.2 = build x.1) ∧ ThreadOk B build (stepThread B cache th).2 := by
  obtain ⟨hst, hres⟩ := ht
  unfold stepThread
  split
  · -- empty stack
    split
    · exact ⟨hc, ⟨hst, hres⟩⟩
    · refine ⟨hc, ⟨?_, hres⟩⟩
      exact ⟨trivial, trivial, trivial⟩
  · -- Load
    rename_i ty rest hstack
    rw [hstack] at hst
    obtain ⟨_, hcalls, hrest⟩ := hst
    split
    · rename_i p hl
      have := hc _ (lookup_mem hl)
      exact ⟨hc, ret_ok hres this hcalls hrest⟩
    · exact ⟨hc, ⟨⟨⟨[], rfl, rfl⟩, hcalls, hrest⟩, hres⟩⟩
  · -- Build finishes
    rename_i ty got rest hstack
    rw [hstack] at hst
    obtain ⟨⟨done, hd1, hd2⟩, hcalls, hrest⟩ := hst
    refine ⟨hc, ⟨⟨?_, hcalls, hrest⟩, hres⟩⟩
    show B.combine ty got = build ty
    dsimp only at hd1 hd2
    rw [hb ty, hd1, hd2, List.append_nil]
  · -- nested call
    rename_i ty d ds got rest hstack
    rw [hstack] at hst
    exact ⟨hc, ⟨⟨trivial, ⟨ds, got, rfl⟩, hst⟩, hres⟩⟩
  · -- Store
    rename_i ty p rest hstack
    rw [hstack] at hst
    obtain ⟨hp, hcalls, hrest⟩ := hst
    have hp' : p = build ty := hp
    refine ⟨?_, ret_ok hres hp' hcalls hrest⟩
    intro x hx
    rcases List.mem_cons.1 hx with hx | hx
    · rw [hx]; exact hp'
    · exact hc x hx

theorem step_inv {B : Builder P} {build : TypeId → P} (hb : IsBuild B build) {s : State P}
    (h : Inv B build s) (t : Nat) : Inv B build (step B s t) := by
  unfold step
  cases hth : s.threads[t]? with
  | none => exact h
  | some th =>
    have hmem : th ∈ s.threads := List.mem_of_getElem? hth
    have := stepThread_ok hb h.cache (h.threads th hmem)
    refine ⟨this.1, ?_⟩
    intro th' hth'
    rcases List.mem_or_eq_of_mem_set hth' with h1 | h1
    · exact h.threads th' h1
    · rw [h1]; exact this.2

theorem run_inv {B : Builder P} {build : TypeId → P} (hb : IsBuild B build) (sched : List Nat) :
    ∀ {s : State P}, Inv B build s → Inv B build (run B s sched) := by
  induction sched with
  | nil => intro s h; exact h
  | cons t rest ih => intro s h; exact ih (step_inv hb h t)

/-- a (possibly warm) cache that holds only genuine plans, and goroutines that have not started. -/
def start (c : List (TypeId × P)) (reqs : List (List TypeId)) : State P :=
  { cache := c, threads := reqs.map fun r => { stack := [], todo := r, results := [] } }

theorem start_inv {B : Builder P} {build : TypeId → P} (c : List (TypeId × P))
    (hc : ∀ x ∈ c, x.2 = build x.1) (reqs : List (List TypeId)) : Inv B build (start c reqs) := by
  refine ⟨hc, ?_⟩
  intro th hth
  obtain ⟨r, _, rfl⟩ := List.mem_map.1 hth
  exact ⟨trivial, fun x hx => nomatch hx⟩

theorem init_eq_start (reqs : List (List TypeId)) : (init reqs : State P) = start [] reqs := rfl

/-! ### the requests of a goroutine are served in order -/

theorem bottomTy_cons_cons (f g : Frame P) (r : List (Frame P)) :
    bottomTy (f :: g :: r) = bottomTy (g :: r) := rfl

theorem bottomTy_head (ty : TypeId) (pc pc' : Pc P) (r : List (Frame P)) :
    bottomTy (⟨ty, pc⟩ :: r) = bottomTy (⟨ty, pc'⟩ :: r) := by
  cases r <;> rfl

theorem ret_trace (th : Thread P) (ty : TypeId) (pc : Pc P) (p : P) (rest : List (Frame P)) :
    (ret th ty p rest).trace = th.results.map (·.1) ++ bottomTy (⟨ty, pc⟩ :: rest) ++ th.todo := by
  cases rest with
  | nil => simp [ret, Thread.trace, bottomTy]
  | cons g r =>
    obtain ⟨gty, gpc⟩ := g
    rw [bottomTy_cons_cons]
    cases gpc with
    | load => rfl
    | store q => rfl
    | deps rem got =>
      cases rem with
      | nil => rfl
      | cons d ds =>
        simp only [ret, Thread.trace]
        rw [bottomTy_head gty _ (.deps (d :: ds) got)]

theorem stepThread_trace (B : Builder P) (cache : List (TypeId × P)) (th : Thread P) :
    (stepThread B cache th).2.trace = th.trace := by
  unfold stepThread
  split
  · rename_i hstack
    split
    · rfl
    · rename_i ty more htodo
      simp [Thread.trace, hstack, htodo, bottomTy]
  · rename_i ty rest hstack
    split
    · rw [ret_trace th ty .load]; simp [Thread.trace, hstack]
    · simp only [Thread.trace, hstack]; rw [bottomTy_head ty _ .load]
  · rename_i ty got rest hstack
    simp only [Thread.trace, hstack]; rw [bottomTy_head ty _ (.deps [] got)]
  · rename_i ty d ds got rest hstack
    simp only [Thread.trace, hstack]; rw [bottomTy_cons_cons]
  · rename_i ty p rest hstack
    rw [ret_trace th ty (.store p)]; simp [Thread.trace, hstack]

theorem map_set_same {α β : Type} (f : α → β) :
    ∀ (l : List α) (t : Nat) (a a' : α), l[t]? = some a → f a' = f a → (l.set t a').map f = l.map f := by
  intro l
  induction l with
  | nil => intro t a a' h _; exact nomatch h
  | cons x xs ih =>
    intro t a a' h hf
    cases t with
    | zero =>
      simp only [List.getElem?_cons_zero, Option.some.injEq] at h
      subst h
      simp [hf]
    | succ t =>
      simp only [List.getElem?_cons_succ] at h
      simp only [List.set_cons_succ, List.map_cons, ih t a a' h hf]

theorem step_traces (B : Builder P) (s : State P) (t : Nat) :
    (step B s t).threads.map Thread.trace = s.threads.map Thread.trace := by
  unfold step
  cases hth : s.threads[t]? with
  | none => rfl
  | some th => exact map_set_same _ _ _ _ _ hth (stepThread_trace B s.cache th)

theorem run_traces (B : Builder P) (sched : List Nat) :
    ∀ s : State P, (run B s sched).threads.map Thread.trace = s.threads.map Thread.trace := by
  induction sched with
  | nil => intro s; rfl
  | cons t rest ih => intro s; exact (ih (step B s t)).trans (step_traces B s t)

theorem start_traces (c : List (TypeId × P)) (reqs : List (List TypeId)) :
    (start c reqs).threads.map Thread.trace = reqs := by
  simp only [start, List.map_map]
  conv => rhs; rw [← List.map_id reqs]
  apply List.map_congr_left
  intro r _
  simp [Thread.trace, bottomTy]

/-- results that are all genuine are determined by the list of their types. -/
theorem results_eq_map {build : TypeId → P} :
    ∀ (res : List (TypeId × P)), (∀ x ∈ res, x.2 = build x.1) →
      res = (res.map (·.1)).map fun ty => (ty, build ty) := by
  intro res
  induction res with
  | nil => intro _; rfl
  | cons x xs ih =>
    intro h
    obtain ⟨ty, p⟩ := x
    have hx : p = build ty := h (ty, p) List.mem_cons_self
    have := ih (fun y hy => h y (List.mem_cons_of_mem _ hy))
    simp only [List.map_cons]
    rw [← this, hx]

/-- the general form of `cache_transparent`: from any state that satisfies the invariant. -/
theorem transparent_from {B : Builder P} {build : TypeId → P} (hb : IsBuild B build)
    (c : List (TypeId × P)) (hc : ∀ x ∈ c, x.2 = build x.1) (reqs : List (List TypeId))
    (sched : List Nat) :
    (∀ x ∈ (run B (start c reqs) sched).cache, x.2 = build x.1) ∧
    (∀ (t : Nat) (th : Thread P), (run B (start c reqs) sched).threads[t]? = some th →
      ∃ r, reqs[t]? = some r ∧
        th.results = (r.take th.results.length).map (fun ty => (ty, build ty)) ∧
        (th.done = true → th.results = r.map fun ty => (ty, build ty))) := by
  have hinv := run_inv hb sched (start_inv (B := B) c hc reqs)
  refine ⟨hinv.cache, ?_⟩
  intro t th hth
  have htr := run_traces B sched (start c reqs)
  rw [start_traces] at htr
  have hr : reqs[t]? = some th.trace := by
    rw [← htr, List.getElem?_map, hth]; rfl
  refine ⟨th.trace, hr, ?_, ?_⟩
  · have hres := (hinv.threads th (List.mem_of_getElem? hth)).results
    have h1 := results_eq_map (build := build) th.results hres
    have h2 : th.trace.take th.results.length = th.results.map (·.1) := by
      unfold Thread.trace
      rw [List.append_assoc, List.take_append_of_le_length (by simp)]
      rw [List.take_of_length_le (by simp)]
    rw [h2]; exact h1
  · intro hdone
    have hres := (hinv.threads th (List.mem_of_getElem? hth)).results
    have h1 := results_eq_map (build := build) th.results hres
    unfold Thread.done at hdone
    simp only [Bool.and_eq_true, List.isEmpty_iff] at hdone
    have h2 : th.trace = th.results.map (·.1) := by
      unfold Thread.trace
      rw [hdone.1, hdone.2]; simp [bottomTy]
    rw [h2]; exact h1

end cache

theorem getD_default_of_le {α : Type} (l : List α) (i : Nat) (d : α) (h : l.length ≤ i) : l.getD i d = d := by
  rw [List.getD_eq_getElem?_getD, List.getElem?_eq_none h]; rfl

end Kmip.Cache
