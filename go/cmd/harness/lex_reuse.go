package main

// Engine `lex`, class "documents written through a REUSED encoder" (property C04).
//
// Every other writer case of this engine goes through ttlv.MarshalXML / MarshalJSON, i.e. a fresh Encoder per
// document. Clients and servers do not: an Encoder is documented as reusable after Clear(), and encoding errors are
// reported by panic (a negative interval, an unsupported Go type, a caller's EncodeTTLV that fails), which the caller
// recovers before it clears the encoder and writes the next message. What the writer remembers between two documents
// (nesting depth, open elements, separators, a buffer that is not the current one) is invisible to one-shot calls.
//
//	#lex.reuse <xml|json> <step> | <step> | …      impl-only (object reuse is outside the functional Lean model)
//	  step = ok <xitem>            write the message with the SAME encoder, judge enc.Bytes() by the C04 clauses
//	       | fail:<kind>:<depth>   an encoding that panics inside <depth> nested structures, after some output
//	                               (kind = interval: the library's own refusal; callback: the caller's code panics;
//	                               type: a Go type without an encoding handed to TagAny), recovered
//	       | bytes                 the caller looks at Bytes() (result ignored; may itself panic after a failure)
//	       | clear                 enc.Clear()
//
// Oracles (the clauses of C04, nothing about aliasing or histories — that is C20's check): the document of every `ok`
// step is well-formed for encoding/xml / encoding/json, is the document a fresh encoder writes for the message
// (reused-equals-fresh), and is decoded by the library to a message with the same binary TTLV.

import (
	"bytes"
	"fmt"
	"strconv"
	"strings"
	"time"

	"github.com/ovh/kmip-go/ttlv"

	"verifharness/internal/tree"
)

type lexReuseStep struct {
	op    string // ok, fail, bytes, clear
	x     *lexItem
	kind  string
	depth int
}

func (s lexReuseStep) String() string {
	switch s.op {
	case "ok":
		return "ok " + s.x.render()
	case "fail":
		return "fail:" + s.kind + ":" + strconv.Itoa(s.depth)
	}
	return s.op
}

var lexReuseKinds = []string{"interval", "callback", "type"}

func lexReuseLine(c *lexCodec, steps []lexReuseStep) string {
	parts := make([]string, len(steps))
	for i, s := range steps {
		parts[i] = s.String()
	}
	return "#lex.reuse " + c.name + " " + strings.Join(parts, " | ")
}

func lexReuseParse(l string) (*lexCodec, []lexReuseStep, error) {
	f := strings.SplitN(l, " ", 3)
	if len(f) != 3 || f[0] != "#lex.reuse" {
		return nil, nil, fmt.Errorf("bad reuse line")
	}
	c := lexXML
	switch f[1] {
	case "xml":
	case "json":
		c = lexJSON
	default:
		return nil, nil, fmt.Errorf("bad codec %q", f[1])
	}
	var steps []lexReuseStep
	for _, p := range strings.Split(f[2], " | ") {
		p = strings.TrimSpace(p)
		switch {
		case p == "clear" || p == "bytes":
			steps = append(steps, lexReuseStep{op: p})
		case strings.HasPrefix(p, "ok "):
			x, err := lexParseItem(strings.TrimPrefix(p, "ok "))
			if err != nil {
				return nil, nil, err
			}
			steps = append(steps, lexReuseStep{op: "ok", x: x})
		case strings.HasPrefix(p, "fail:"):
			g := strings.Split(p, ":")
			if len(g) != 3 {
				return nil, nil, fmt.Errorf("bad step %q", p)
			}
			d, err := strconv.Atoi(g[2])
			if err != nil || d < 0 || d > 8 {
				return nil, nil, fmt.Errorf("bad depth in %q", p)
			}
			steps = append(steps, lexReuseStep{op: "fail", kind: g[1], depth: d})
		default:
			return nil, nil, fmt.Errorf("bad step %q", p)
		}
	}
	return c, steps, nil
}

// lexReuseFail: an encoding that cannot complete. Inside every level some output precedes the failure (a scalar, a
// text that needs escaping, a complete inner structure), so the writer is left in the middle of a document.
func lexReuseFail(e *ttlv.Encoder, kind string, depth int) {
	if depth == 0 {
		switch kind {
		case "interval":
			e.Interval(0x54000F, -3*time.Second)
		case "type":
			e.TagAny(0x54000F, make(chan int))
		default:
			panic("harness: the caller's EncodeTTLV failed")
		}
		return
	}
	e.Struct(0x420078+depth, func(e *ttlv.Encoder) {
		e.Integer(0x540001, int32(depth))
		e.TextString(0x540002, "a<&\"b")
		e.Struct(0x540003, func(e *ttlv.Encoder) { e.Bool(0x540004, true) })
		lexReuseFail(e, kind, depth-1)
		e.Integer(0x540005, 5) // never reached
	})
}

// reuseCase plays one script on one encoder and judges every `ok` step.
func (e *lexEnv) reuseCase(ctx *Ctx, c *lexCodec, steps []lexReuseStep) {
	line := lexReuseLine(c, steps)
	if e.seen[line] {
		return
	}
	e.seen[line] = true
	ctx.current = line
	var enc ttlv.Encoder
	if c == lexXML {
		enc = ttlv.NewXMLEncoder()
	} else {
		enc = ttlv.NewJSONEncoder()
	}
	outcome := "ok"
	bad := func(oracle, key, detail string) {
		if outcome == "ok" {
			outcome = key
		}
		e.violate(ctx, "C04", oracle, c.name+":reused:"+key, detail, line)
	}
	afterFail, judged := false, 0
	for i, s := range steps {
		at := fmt.Sprintf("step %d (%s)", i+1, shortKey([]byte(s.String())))
		switch s.op {
		case "clear":
			if _, p := guard("Clear", func() int { enc.Clear(); return 0 }); p != "" {
				bad("encoder-total", "clear-panic", "Clear panicked at "+at+": "+p)
			}
		case "bytes":
			guard("Bytes", func() int { return len(enc.Bytes()) })
		case "fail":
			_, p := guard("Encode", func() int { lexReuseFail(&enc, s.kind, s.depth); return 0 })
			if p == "" {
				lexFail(ctx, "reuse: the encoding meant to fail did not at "+at+" of "+line)
			}
			afterFail = true
			ctx.Res.Count("reuse." + c.name + ".fail." + s.kind + ".depth" + strconv.Itoa(s.depth))
		case "ok":
			judged++
			x := s.x
			fresh, pf := guard("Marshal", func() []byte { return append([]byte{}, c.marshal(lexEnc{x})...) })
			if pf != "" {
				lexFail(ctx, "reuse: a fresh encoder panics on the message at "+at+" of "+line)
				continue
			}
			doc, p := guard("Encode", func() []byte { lexEncodeX(&enc, x); return append([]byte{}, enc.Bytes()...) })
			if p != "" {
				bad("encoder-total", "encoder-panic", "the reused encoder panicked at "+at+" on a message a fresh encoder writes: "+p)
				continue
			}
			if !c.wellFormed(doc) {
				bad("well-formed", "not-well-formed", "independent parser rejects the document the reused encoder wrote at "+at+": "+strconv.Quote(shortKey(doc))+" … "+strconv.Quote(lexTail(doc)))
			}
			if !bytes.Equal(doc, fresh) {
				bad("reused-equals-fresh", "differs-from-fresh", "the reused encoder's document at "+at+" is not the one a fresh encoder writes: "+firstDiff(strconv.Quote(string(fresh)), strconv.Quote(string(doc))))
			}
			h, consistent := lexHintsOf(x)
			if !consistent {
				h = lexPosHintsOf(x)
			}
			d := lexDecode(ctx, c, doc, h, line)
			switch {
			case strings.HasPrefix(d.ans, "panic"):
				bad("binary-identity", "decode-panic", "decoding the reused encoder's document of "+at+" panicked: "+d.ans)
			case d.it == nil:
				bad("binary-identity", "decode-error", "the library cannot decode the reused encoder's document of "+at+": "+d.err.Error()+" doc="+shortKey(doc))
			default:
				b1, p1 := guard("MarshalTTLV", func() []byte { return ttlv.MarshalTTLV(d.val) })
				want := x.erase().Encode()
				if p1 != "" || !bytes.Equal(b1, want) || !bytes.Equal(d.it.Encode(), want) {
					bad("binary-identity", "binary-differs", "the reused encoder's document of "+at+" decodes to another message: "+firstDiff(x.erase().Render(), d.it.Render()))
				}
			}
			if afterFail {
				ctx.Res.Count("reuse." + c.name + ".judged-after-failure")
			} else {
				ctx.Res.Count("reuse." + c.name + ".judged-after-clear")
			}
		}
	}
	ctx.Add(line, outcome, true, "")
	ctx.Res.Count("reuse." + c.name + ".scripts")
	_ = judged
}

func lexTail(doc []byte) string {
	if len(doc) > 24 {
		doc = doc[len(doc)-24:]
	}
	return string(doc)
}

// reuseMessages: what is written through the reused encoder: scalars at top level, empty / flat / nested structures,
// annotated nodes, text that needs escaping, plus generated trees (XML-representable, in scope of C04).
func (e *lexEnv) reuseMessages(ctx *Ctx) []*lexItem {
	ms := []*lexItem{
		{kind: tree.KInt, tag: 0x42000D, i: 7},
		{kind: tree.KText, tag: 0x420094, data: []byte("a<b>&\"c' \\ é")},
		{kind: tree.KStruct, tag: 0x420078},
		{kind: tree.KStruct, tag: 0x420078, children: []*lexItem{
			{kind: tree.KInt, tag: 0x540001, i: -1},
			{kind: tree.KStruct, tag: 0x540002, children: []*lexItem{
				{kind: tree.KText, tag: 0x540003, data: []byte("abc")},
				{kind: tree.KBool, tag: 0x540004, b: true},
				{kind: tree.KStruct, tag: 0x540005, children: []*lexItem{{kind: tree.KInterval, tag: 0x540006, i: 3600}, {kind: tree.KStruct, tag: 0x540007}}},
			}},
			{kind: tree.KBytes, tag: 0x540008, data: []byte{0, 1, 0xFE}},
			{kind: tree.KDate, tag: 0x540009, i: 1700000000},
		}},
		{kind: tree.KStruct, tag: 0x420008, children: []*lexItem{
			{kind: tree.KEnum, tag: lexTagCryptoAlg, ann: lexTagCryptoAlg, i: int64(e.enumVals[lexTagCryptoAlg][0])},
			{kind: tree.KInt, tag: lexTagUsageMask, mask: true, ann: lexTagUsageMask, i: 12},
			{kind: tree.KLong, tag: 0x54000A, i: -(1 << 60)},
		}},
	}
	n := ctx.N(12, 120)
	for i := 0; i < n; i++ {
		opts := tree.GenOpts{MaxDepth: 4, MaxChildren: 4, MaxData: 24, MaxBigBits: 130, TextMode: 2}
		if i%4 == 3 {
			opts = tree.GenOpts{MaxDepth: 7, MaxChildren: 2, MaxData: 12, MaxBigBits: 70, TextMode: 2}
		}
		ms = append(ms, lexItemOf(tree.Gen(ctx.R, opts, 0)))
	}
	return ms
}

func (e *lexEnv) reuseRun(ctx *Ctx) {
	r := ctx.R
	ms := e.reuseMessages(ctx)
	pick := func() *lexItem { return ms[r.Intn(len(ms))] }
	ok := func(x *lexItem) lexReuseStep { return lexReuseStep{op: "ok", x: x} }
	clear := lexReuseStep{op: "clear"}
	for _, c := range []*lexCodec{lexXML, lexJSON} {
		// (a) Clear only: before the first use, and several messages in a row
		e.reuseCase(ctx, c, []lexReuseStep{clear, ok(ms[3])})
		for i := range ms {
			e.reuseCase(ctx, c, []lexReuseStep{ok(ms[i]), clear, ok(ms[(i+1)%len(ms)]), clear, ok(ms[(i+3)%len(ms)]), clear, clear, ok(ms[i])})
		}
		// (b) one recovered failure at every depth, of every kind, then Clear, then every hand-written message
		for _, k := range lexReuseKinds {
			for d := 0; d <= 3; d++ {
				for i := 0; i < 5; i++ {
					f := lexReuseStep{op: "fail", kind: k, depth: d}
					e.reuseCase(ctx, c, []lexReuseStep{f, clear, ok(ms[i])})
					if i%2 == 0 {
						e.reuseCase(ctx, c, []lexReuseStep{ok(ms[(i+1)%5]), clear, f, {op: "bytes"}, clear, ok(ms[i]), clear, ok(ms[(i+2)%5])})
					}
				}
			}
		}
		// (c) random histories: failures in a row, at changing depths, between messages
		n := ctx.N(40, 600)
		for i := 0; i < n; i++ {
			var steps []lexReuseStep
			for j, m := 0, 2+r.Intn(6); j < m; j++ {
				if r.Chance(2, 5) {
					steps = append(steps, lexReuseStep{op: "fail", kind: lexReuseKinds[r.Intn(len(lexReuseKinds))], depth: r.Intn(5)})
					if r.Chance(1, 4) {
						steps = append(steps, lexReuseStep{op: "bytes"})
					}
				} else {
					steps = append(steps, ok(pick()))
				}
				steps = append(steps, clear)
			}
			steps = append(steps, ok(pick()))
			e.reuseCase(ctx, c, steps)
		}
	}
}

func (e *lexEnv) reuseReplay(ctx *Ctx, l string) {
	c, steps, err := lexReuseParse(l)
	if err != nil {
		lexFail(ctx, "replay: "+err.Error()+" in "+l)
		return
	}
	e.reuseCase(ctx, c, steps)
}
