/-
  Driver handlers of the C20 models (`Kmip.Cache`), over the regenerated schema:

    enc.reuse <op> { ' ; ' <op> }
        op := 'C'                         Clear
            | 'B'                         Bytes (no effect)
            | 'E' <dyn id> <tag> <val>    encode (Val syntax and tag convention of `plan.enc`)
      one binary encoder (`NewTTLVEncoder`) runs the whole history from new;
      → ok <hex of Bytes() at the end> | panic   (an encode failed since the last Clear: the buffer is junk)

    cache.run <sched> ' ; ' <req> { ' ; ' <req> }
        sched := '-' | <tid> {',' <tid>}          who moves next (Load / Build / nested call / Store steps);
                                                  afterwards the goroutines are run round-robin to completion
        req   := <tid> <dyn id> <tag> <val>       goroutine <tid> encodes this value (its requests in line order)
      all goroutines start from a cold plan cache; a goroutine encodes with the plan it obtained;
      → ok <tid>:<res>{','<res>} …   res := <hex> | panic | err | wrong-plan        (per goroutine, in order)
-/
import Driver.Common
import KmipModel.Model.Cache
import KmipModel.Model.ValSyntax
import KmipModel.Gen.Schema
open Kmip Kmip.Cache

namespace Driver
namespace CacheD

def splitSemi (s : String) : List String :=
  (s.splitOn " ; ").map fun x => x.trimAscii.toString

/-- `<dyn> <tag> <val>` -/
def parseMsg (s : String) : Option Msg :=
  match s.splitOn " " with
  | d :: t :: _ =>
    match d.toNat?, t.toNat?, parseValStr ((s.drop (d.length + t.length + 2)).toString) with
    | some dn, some tg, some v => some { d := dn, tag := tg, v := v }
    | _, _, _ => none
  | _ => none

def parseOp (s : String) : Option Op :=
  if s = "C" then some .clear
  else if s = "B" then some .bytes
  else if s.startsWith "E " then (parseMsg (s.drop 2).toString).map fun m => .encode m {}
  else none

/-- run the history; `dirty` = an encode failed since the last Clear. -/
def runHistory (ops : List Op) : Encoder × Bool :=
  ops.foldl (fun (acc : Encoder × Bool) op =>
    let r := stepOp Gen.schema .ttlv acc.1 op
    match op with
    | .clear => (r.1, false)
    | .encode _ _ => (r.1, acc.2 || !r.2)
    | .bytes => (r.1, acc.2)) (fresh, false)

def encReuse (arg : String) : String :=
  match (splitSemi arg).mapM parseOp with
  | none => "bad-op"
  | some ops =>
    let r := runHistory ops
    if r.2 then "panic" else "ok " ++ (let h := hexOfBytes r.1.bytes; if h.isEmpty then "-" else h)

def parseSched (s : String) : Option (List Nat) :=
  if s = "-" then some [] else (s.splitOn ",").mapM (·.toNat?)

/-- `<tid> <dyn> <tag> <val>` -/
def parseReq (s : String) : Option (Nat × Msg) :=
  match s.splitOn " " with
  | t :: _ => do
    let tid ← t.toNat?
    let m ← parseMsg (s.drop (t.length + 1)).toString
    pure (tid, m)
  | _ => none

def genB : Builder (List Nat) := schemaBuilder Gen.schema
def genBuild (ty : TypeId) : List Nat := buildFuel genB [] 64 ty

/-- complete by round-robin, checking for termination after every round. -/
def complete (n : Nat) : Nat → State (List Nat) → State (List Nat)
  | 0, s => s
  | fuel + 1, s => if s.done then s else complete n fuel (run genB s (List.range n))

def renderResult (m : Msg) (r : TypeId × List Nat) : String :=
  if r.1 != 2 * m.d || r.2 != genBuild r.1 then "wrong-plan"
  else
    match marshal Gen.schema m.d m.tag m.v with
    | .ok bs => let h := hexOfBytes bs; if h.isEmpty then "-" else h
    | .err _ => "err"
    | .panic _ => "panic"

def cacheRun (arg : String) : String :=
  match splitSemi arg with
  | [] => "bad-op"
  | sch :: rest =>
    match parseSched sch, rest.mapM parseReq with
    | some sched, some reqs =>
      let n := reqs.foldl (fun acc r => max acc (r.1 + 1)) 0
      let perThread : List (List Msg) :=
        (List.range n).map fun t => (reqs.filter (·.1 == t)).map (·.2)
      let s0 : State (List Nat) := init (perThread.map fun ms => ms.map fun m => 2 * m.d)
      let s := complete n 100000 (run genB s0 sched)
      if !s.done then "err"
      else
        let parts := (List.range n).map fun t =>
          let ms := perThread.getD t []
          let res := (s.threads.getD t { stack := [], todo := [], results := [] }).results
          if res.length != ms.length then toString t ++ ":lost"
          else toString t ++ ":" ++ ",".intercalate ((ms.zip res).map fun (m, r) => renderResult m r)
        "ok " ++ " ".intercalate parts
    | _, _ => "bad-op"

end CacheD

def handleCache (cmd arg : String) : Option String :=
  match cmd with
  | "enc.reuse" => some (CacheD.encReuse arg)
  | "cache.run" => some (CacheD.cacheRun arg)
  | _ => none

end Driver
