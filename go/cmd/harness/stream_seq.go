package main

// Size sequences on ONE stream (C07): a connection receives many messages through the same ttlv.Stream, and
// whatever Recv keeps from one call to the next (a receive buffer, a high-water mark, a remembered size) is
// only exercised by SEQUENCES of messages whose sizes move across the points where the buffer has to grow:
// the initial 512 bytes, the allocator's size classes (a capacity handed out by the runtime is rounded up to
// one of them, so "a little bigger than the previous message" may or may not fit what is already there) and
// the page-granular sizes above 32 KiB. The cases below are ordinary, complete messages under clean schedules:
// every one of them must be delivered (all the oracles of streamCase apply, and every line goes to the model,
// which is run with the buffer capacity each call was observed to start with).

import (
	"fmt"
	"sort"

	"verifharness/internal/rng"
	"verifharness/internal/tree"
)

// sizes at which a capacity obtained from the Go allocator changes size class (runtime/sizeclasses.go, the
// classes from 512 bytes upwards; above 32 KiB allocations are rounded to pages of 8 KiB). They only serve to
// CHOOSE message sizes: nothing is judged against them, and a runtime with other classes merely makes the
// sizes around them less special.
var allocEdges = []int{
	512, 576, 640, 704, 768, 896, 1024, 1152, 1280, 1408, 1536, 1792, 2048, 2304, 2688, 3072, 3200, 3456,
	4096, 4864, 5376, 6144, 6528, 6784, 6912, 8192, 9472, 9728, 10240, 10880, 12288, 13568, 14336, 16384,
	18432, 19072, 20480, 21760, 24576, 27264, 28672, 32768, 40960, 49152, 57344, 65536, 73728, 81920, 131072,
	262144, 524288,
}

// seqSized builds a message that encodes to exactly sz bytes (sz a multiple of 8, >= 8): a structure of
// random items with one byte/text string taking up the rest (at a random position, with an unpadded length
// when there is room), or — one time in four — a single byte string.
func seqSized(r *rng.R, opts tree.GenOpts, sz int) *tree.Item {
	if sz < 8 || sz%8 != 0 {
		panic("seqSized: size must be a positive multiple of 8")
	}
	if sz >= 16 && r.Chance(1, 4) {
		return &tree.Item{Kind: tree.KBytes, Tag: 0x420001, Data: r.Bytes(sz - 8 - r.Intn(8))}
	}
	root := &tree.Item{Kind: tree.KStruct, Tag: rng.Pick(r, []int{0x420078, 0x42007B, 0x42000F, 0x420008})}
	rem := sz - 8
	if rem == 0 {
		return root
	}
	var kids []*tree.Item
	for tries := 0; tries < 6 && rem > 8; tries++ {
		c := tree.Gen(r, opts, 1)
		if l := len(c.Encode()); l <= rem-8 {
			kids = append(kids, c)
			rem -= l
		}
	}
	// the filler takes the remaining rem bytes: 8 of header, rem-8 of padded data
	n := rem - 8
	if n >= 8 {
		n -= r.Intn(8)
	}
	kind := tree.KBytes
	data := r.Bytes(n)
	if r.Chance(1, 3) {
		kind = tree.KText
		for i := range data {
			data[i] = byte('a' + int(data[i])%26)
		}
	}
	filler := &tree.Item{Kind: kind, Tag: 0x420001 + r.Intn(0x100), Data: data}
	at := r.Intn(len(kids) + 1)
	root.Children = append(root.Children, kids[:at]...)
	root.Children = append(root.Children, filler)
	root.Children = append(root.Children, kids[at:]...)
	if got := len(root.Encode()); got != sz {
		panic(fmt.Sprintf("seqSized: built %d bytes for %d", got, sz))
	}
	return root
}

func round8(n int) int {
	if n < 8 {
		return 8
	}
	return (n + 7) / 8 * 8
}

// seqSchedule: a clean schedule (reads of >= 1 byte, errors only on reads that complete a frame) for the
// messages of the given sizes. kind selects the chunking.
func seqSchedule(r *rng.R, kind int, lens []int) (sched []readEv, class string) {
	total := 0
	for _, l := range lens {
		total += l
	}
	// the model appends what each read delivers to a list: its cost is about sum(len^2)/chunk. The chunk sizes
	// are scaled so that one line stays cheap whatever the message sizes are.
	sq := 0
	for _, l := range lens {
		sq += l * l
	}
	switch kind {
	case 0: // every read returns all that is requested
		return nil, "none"
	case 1: // 1-byte reads
		if sq <= 6<<20 {
			for k := 0; k < total; k++ {
				sched = append(sched, readEv{K: 1})
			}
			return sched, "1byte"
		}
		fallthrough
	case 2: // small random chunks
		top := maxInt(24, sq/(3<<20))
		for left := total; left > 0; {
			k := 1 + r.Intn(top)
			sched = append(sched, readEv{K: k})
			left -= k // a read never spans two messages: the schedule is at least long enough
		}
		for range lens {
			sched = append(sched, readEv{K: 1 + r.Intn(top)}, readEv{K: 1 + r.Intn(top)})
		}
		return sched, "small-chunks"
	case 3: // large random chunks
		top := maxInt(4096, sq/(3<<20))
		for left := total + top*len(lens); left > 0; {
			k := 1 + r.Intn(top)
			sched = append(sched, readEv{K: k})
			left -= k
		}
		return sched, "large-chunks"
	case 4: // a fixed chunk size, as a record-oriented transport delivers
		k := rng.Pick(r, []int{7, 8, 100, 511, 512, 513, 1000, 1460, 4096, 16384})
		k = maxInt(k, sq/(6<<20))
		for n := total/k + 2*len(lens) + 2; n > 0; n-- {
			sched = append(sched, readEv{K: k})
		}
		return sched, "fixed-chunk"
	case 5: // header in two reads, then the body at once
		for _, l := range lens {
			sched = append(sched, readEv{K: 3})
			if l == 8 {
				sched = append(sched, readEv{K: 5})
				continue
			}
			sched = append(sched, readEv{K: 5}, readEv{K: 1 << 30})
		}
		return sched, "header-body"
	default: // the read that completes some of the messages carries an error together with the data
		for _, l := range lens {
			flag := r.Chance(1, 3)
			if l == 8 {
				sched = append(sched, readEv{K: 8, WithErr: flag})
				continue
			}
			sched = append(sched, readEv{K: 8})
			if l > 16 && r.Bool() {
				sched = append(sched, readEv{K: (l - 8) / 2})
			}
			sched = append(sched, readEv{K: 1 << 30, WithErr: flag})
		}
		return sched, "err-on-completion"
	}
}

const seqSchedKinds = 7

// seqAround picks a message size at or next to a point where capacities change.
func seqAround(r *rng.R, top int) int {
	for {
		e := rng.Pick(r, allocEdges)
		sz := round8(e + 8*(r.Intn(5)-2))
		if sz <= top {
			return sz
		}
	}
}

// seqShapes: the sequences of message sizes of one stream. top bounds a single message.
func seqShape(r *rng.R, shape, top int) (sizes []int, class string) {
	small := func() int { return 8 * (1 + r.Intn(40)) }
	growing := func(n int) []int {
		// from just above the initial buffer upwards, by factors from "a few bytes more" to "several times more"
		var out []int
		cur := round8(520 + r.Intn(1200))
		switch r.Intn(4) {
		case 0:
			cur = seqAround(r, 4096)
		case 1: // starting anywhere (log-uniformly) up to half the largest size: the first message may be the big one
			for 4*cur <= top && r.Chance(3, 4) {
				cur = round8(cur + cur/2 + r.Intn(cur+1))
			}
		}
		for len(out) < n && cur <= top {
			out = append(out, cur)
			switch r.Intn(5) {
			case 0: // just a little more
				cur += 8 * (1 + r.Intn(16))
			case 1: // to the next point where capacities change, or just beyond it
				i := sort.SearchInts(allocEdges, cur+1)
				if i < len(allocEdges) {
					cur = allocEdges[i] + 8*r.Intn(3)
				} else {
					cur = round8(cur + cur/8)
				}
			case 2: // 1.1x .. 1.6x
				cur = round8(cur + cur/10 + r.Intn(cur/2+1))
			default: // 1.5x .. 4x
				cur = round8(cur + cur/2 + r.Intn(5*cur/2+1))
			}
		}
		return out
	}
	n := 3 + r.Intn(5)
	switch shape {
	case 0:
		return growing(n), "increasing"
	case 1:
		g := growing(n)
		for i, j := 0, len(g)-1; i < j; i, j = i+1, j-1 {
			g[i], g[j] = g[j], g[i]
		}
		return g, "decreasing"
	case 2: // growing large messages with small ones in between
		for _, s := range growing(n) {
			sizes = append(sizes, s)
			if r.Chance(2, 3) {
				sizes = append(sizes, small())
			}
		}
		if r.Bool() {
			sizes = append([]int{small()}, sizes...)
		}
		return sizes, "alternating"
	case 3: // up, part of the way down, further up, …
		g := growing(n + 2)
		for i, s := range g {
			sizes = append(sizes, s)
			if i > 0 && r.Bool() {
				sizes = append(sizes, g[r.Intn(i)])
			}
		}
		return sizes, "sawtooth"
	case 4: // the same large size again and again, then a little more
		s := seqAround(r, top)
		for i := 0; i < 2+r.Intn(3); i++ {
			sizes = append(sizes, s)
		}
		if s+8 <= top {
			sizes = append(sizes, s+8)
		}
		if s+8*64 <= top {
			sizes = append(sizes, s+8*(1+r.Intn(64)))
		}
		return sizes, "repeated"
	default: // any order of sizes at and next to the points where capacities change
		for i := 0; i < n; i++ {
			if r.Chance(1, 5) {
				sizes = append(sizes, small())
			} else {
				sizes = append(sizes, seqAround(r, top))
			}
		}
		return sizes, "around-edges"
	}
}

const seqShapes = 6

// streamSizeSequences generates the size-sequence cases and hands them to run.
func streamSizeSequences(ctx *Ctx, srvMax int, run func(max int, wire []byte, sched []readEv, exp *streamExpect)) {
	r := ctx.R
	opts := tree.GenOpts{MaxDepth: 3, MaxChildren: 4, MaxData: 30, MaxBigBits: 128}
	one := func(sizes []int, schedKind, maxKind int, class string) {
		if len(sizes) == 0 {
			return
		}
		exp := &streamExpect{clean: true}
		var wire []byte
		largest := 0
		for _, sz := range sizes {
			m := seqSized(r, opts, sz)
			exp.msgs = append(exp.msgs, m)
			exp.lens = append(exp.lens, sz)
			largest = maxInt(largest, sz)
		}
		if r.Chance(1, 6) {
			wire = sendWire(ctx, exp.msgs)
		} else {
			for _, m := range exp.msgs {
				wire = append(wire, m.Encode()...)
			}
		}
		max := 0
		switch maxKind % 4 {
		case 1: // what the client passes
			max = -1
		case 2: // what the server passes
			if largest <= srvMax {
				max = srvMax
			}
		case 3: // exactly the largest message
			max = largest
		}
		sched, sc := seqSchedule(r, schedKind%seqSchedKinds, exp.lens)
		exp.class = "seq-" + class
		ctx.Res.Count("stream.seq.sched=" + sc)
		ctx.Res.Count("stream.seq.cases")
		grows := 0 // how many times a message is larger than everything before it (and than the initial buffer)
		hw := 512
		for _, sz := range sizes {
			if sz > hw {
				hw = sz
				grows++
			}
		}
		ctx.Res.Count(fmt.Sprintf("stream.seq.growths=%d", min(grows, 4)))
		run(max, wire, sched, exp)
	}

	// (1) all ordered pairs of sizes at and next to the first points where capacities change: the shortest
	// sequences in which a second large message meets what the first one left behind
	var grid []int
	for i, e := range allocEdges {
		if e > ctx.N(8192, 16384) {
			break
		}
		if !ctx.Thor && i%3 == 2 && e != 1024 && e != 4096 { // quick tier: two of three
			continue
		}
		grid = append(grid, e, e+8)
	}
	grid = append(grid, 616, 2016, 5016)
	k := 0
	for _, a := range grid {
		for _, b := range grid {
			if !ctx.Thor && a > 1024 && b > 1024 && (a+b)/8%3 != 0 { // quick tier: a third of the pairs of two bigger messages
				continue
			}
			one([]int{a, b}, k, k/seqSchedKinds, "pair")
			k++
		}
	}

	// (2) after a message far beyond the page-granular sizes: medium and small ones, growing again (whatever
	// the receiver does with a very large buffer — keep it, drop it, shrink it — the next messages must arrive)
	huge := []int{65544, 73736, 131072, 300000}
	if ctx.Thor {
		huge = append(huge, 600000, srvMax)
	}
	for hi, h := range huge {
		for v := 0; v < ctx.N(3, 12); v++ {
			m1 := round8(520 + r.Intn(30000))
			sizes := []int{h, m1, 8 * (1 + r.Intn(40)), m1 + 8*(1+r.Intn(2000))}
			if v%3 == 1 {
				sizes = append([]int{seqAround(r, 4096)}, sizes...)
			}
			if v%3 == 2 && ctx.Thor {
				sizes = append(sizes, h-8, 1024)
			}
			one(sizes, hi+v, v, "after-huge")
		}
	}

	// (3) longer sequences of every shape under every chunking
	top := ctx.N(40<<10, 300<<10)
	n := ctx.N(420, 6000)
	for i := 0; i < n; i++ {
		t := top
		if i%10 == 9 { // some sequences reach far beyond the page-granular sizes
			t = ctx.N(160<<10, srvMax)
		}
		sizes, class := seqShape(r, i%seqShapes, t)
		total := 0
		for j, s := range sizes { // bound the volume of one case
			total += s
			if total > 3*t {
				sizes = sizes[:j]
				break
			}
		}
		one(sizes, i/seqShapes, r.Intn(4), class)
	}
}
