/-
  Driver handlers for the client-side models (C12, C13): `nego.adopt`, `resp.interpret`, `resp.enumstr`,
  `resp.registered`.

  Encodings (all numbers decimal unless said otherwise)
    version      M.m                      (integers, may be negative)
    versions     v+v+…  or  -             (empty list)
    item         op,status,reason,msg,payload[,versions]
                   msg      = upper-case hex of the bytes, or -
                   payload  = n (absent) | r<op> (response type of op) | q<op> (request type of op)
                              | u<op> (UnknownPayload of op)
                   versions = list carried by a DiscoverVersions response payload (default: empty)
    roundtrip    fail  |  <header batch count>:<item>|<item>|…   (no item: `<count>:-`)

  nego.adopt <enforce> <calls> <server>
    enforce   -  |  M.m
    calls     -  (no WithKmipVersions option)  |  call;call;…  with call = versions or _ (no argument)
    server    lib:<versions>   kmip-go BatchExecutor after SetSupportedProtocolVersions(versions…)
              lib:-  (called without argument)   lib:!  (never called)
              msg:<roundtrip>  any other server: the result of the discovery round trip
    answer    ok M.m later=<l> disc=<d>  |  err disc=<d>  |  err item … disc=<d>  |  panic
              l = the requests put on the wire by the fixed program `laterProgram` run after Dial, each as
                  <client index>:<header version>:<header batch count>, comma separated;
              d = - (no discovery exchange) or  <header version>/<versions listed in the request> ans=<a>
              a = the version list of the DiscoverVersions response payload of the first item of the
                  answer as the client received it (none: no such payload)

  nego.server <calls> <hdr> <req>
    calls     !  (SetSupportedProtocolVersions never called)  |  call;call;…  (as above; each call REPLACES the set)
    hdr       header version of the request        req   the versions the DiscoverVersions request lists (- = none)
    answer    the response as decoded from the wire, in the roundtrip encoding

  resp.interpret <api> <arg> <roundtrip>
    api = request | exec      arg = requested operation         answer  ok <payload> | err | err item … | panic
    api = batch               arg = op,op,…  (or - for none)    answer  ok [p,p,…] <errs> | err | panic
                                                                 errs = - (Unwrap error nil) | item …;item … | other
    api = dial                arg = the client's version list   answer  ok M.m | err | err item … | panic
    An error is compared by WHAT IT CARRIES, not by its wording: `err` followed by one
    `item <status> <reason> <msg>` per failed item it reports (EnumStr strings of the live registry:
    registered name or 0x%08X; msg in hex or -), `;`-separated, in item order. The harness derives the
    same form from the Go error text and the response the client received (an item is carried when
    the three renderings occur in the text).

  resp.signer <ids> <opts> <script>
    ids     p | u | b | n        which of (private, public) key id is given to Client.Signer: p = private only …
    opts    nil | h<0|1> (a crypto.Hash, supported or not) | p<0|1><0|1> (*rsa.PSSOptions: hash supported, salt ok)
    script  - | <exchange>;<exchange>…   the server's answers to the successive requests, in order
            exchange = <roundtrip>~<content>   content = what the helper reads in the FIRST item's payload:
              -                                   nothing (no payload of the three types below)
              A[<attr>.<attr>…]                   GetAttributes response: T<n> object type, G<n> algorithm,
                                                  L<linktype>x<0|1> link (1: id not empty), M<n> usage mask,
                                                  Tf Gf Lf Mf the same names with a value of a foreign Go type,
                                                  O any other attribute
              Kr | Ke<n> | Ko | Kx                Get response: PublicKey() = RSA / ECDSA (n bytes per
                                                  coordinate) / another key type / an error
              S<n>                                Sign response: n bytes of signature data
    answer  signer err[ item …] | signer panic | sign err[ item …] | sign panic | ok conv=<0|1> used=<n>
            (conv=1: raw r‖s converted to ASN.1; used: number of exchanges)

  resp.enumstr <op|status|reason> <value>   answer  the EnumStr string
  resp.registered <op>                      answer  yes | no
-/
import Driver.Common
import KmipModel.Model.Negotiate
import KmipModel.Model.ClientSigner
import KmipModel.Gen.Schema
import KmipModel.Model.Registry
open Kmip.Resp Kmip.Nego

namespace Driver

def parseVer (s : String) : Option Ver :=
  match s.splitOn "." with
  | [a, b] => do
    let x ← a.toInt?
    let y ← b.toInt?
    pure (x, y)
  | _ => none

def parseVers (s : String) : Option (List Ver) :=
  if s = "-" then some [] else (s.splitOn "+").mapM parseVer

def renderVer (v : Ver) : String := toString v.1 ++ "." ++ toString v.2

def renderVers (vs : List Ver) : String :=
  if vs.isEmpty then "-" else "+".intercalate (vs.map renderVer)

def hexVal (c : Char) : Option Nat :=
  if '0' ≤ c ∧ c ≤ '9' then some (c.toNat - '0'.toNat)
  else if 'A' ≤ c ∧ c ≤ 'F' then some (c.toNat - 'A'.toNat + 10)
  else if 'a' ≤ c ∧ c ≤ 'f' then some (c.toNat - 'a'.toNat + 10)
  else none

def parseHexBytes : List Char → Option (List Nat)
  | [] => some []
  | a :: b :: rest => do
    let x ← hexVal a
    let y ← hexVal b
    let r ← parseHexBytes rest
    pure ((x * 16 + y) :: r)
  | _ => none

def parseMsg (s : String) : Option Msg :=
  if s = "-" then some [] else parseHexBytes s.toList

def hexDigit (n : Nat) : Char :=
  if n < 10 then Char.ofNat ('0'.toNat + n) else Char.ofNat ('A'.toNat + (n - 10))

def renderMsg (m : Msg) : String :=
  if m.isEmpty then "-" else String.ofList (m.flatMap fun b => [hexDigit (b / 16 % 16), hexDigit (b % 16)])

def parsePayload (s : String) : Option (Option Payload) :=
  if s = "n" then some none
  else
    let k := s.take 1 |>.toString
    let n := (s.drop 1).toString.toNat?
    match k, n with
    | "r", some o => some (some (.resp o))
    | "q", some o => some (some (.req o))
    | "u", some o => some (some (.unknown o))
    | _, _ => none

def renderPayload : Option Payload → String
  | none => "n"
  | some (.resp o) => "r" ++ toString o
  | some (.req o) => "q" ++ toString o
  | some (.unknown o) => "u" ++ toString o

def parseItem (s : String) : Option Item :=
  let mk (o st r m p : String) (vs : List Ver) : Option Item := do
    let op ← o.toNat?
    let status ← st.toNat?
    let reason ← r.toNat?
    let msg ← parseMsg m
    let payload ← parsePayload p
    pure { op, status, reason, msg, payload, vers := vs }
  match s.splitOn "," with
  | [o, st, r, m, p] => mk o st r m p []
  | [o, st, r, m, p, v] => do
    let vs ← parseVers v
    mk o st r m p vs
  | _ => none

def parseRoundTrip (s : String) : Option RoundTrip :=
  if s = "fail" then some .fail
  else
    match s.splitOn ":" with
    | [h, its] => do
      let hc ← h.toInt?
      let items ← if its = "-" then some [] else (its.splitOn "|").mapM parseItem
      pure (.msg hc items)
    | _ => none

/-- base-256 name code → string. -/
def nameOfCode (n : Nat) : String :=
  let rec go (fuel n : Nat) (acc : List Char) : List Char :=
    match fuel with
    | 0 => acc
    | fuel + 1 => if n = 0 then acc else go fuel (n / 256) (Char.ofNat (n % 256) :: acc)
  String.ofList (go 64 n [])

def hex8 (v : Nat) : String :=
  "0x" ++ String.ofList ((List.range 8).reverse.map fun i => hexDigit (v / 16 ^ i % 16))

def renderEStr : EStr → String
  | .name c => String.ofList ((Kmip.Reg.unpack c).map Char.ofNat)  -- live registry names carry a leading 0x01
  | .hex v => hex8 v

/-- the part of an error the property speaks about: status, reason and message of a failed item
    (the operation name and the wording around them are not compared). -/
def renderCarried (s r : EStr) (m : Msg) : String :=
  "item " ++ renderEStr s ++ " " ++ renderEStr r ++ " " ++ renderMsg m

def carriedOfLine : ItemErr → Option String
  | .item _ s r m => some (renderCarried s r m)
  | _ => none

def carriedOfErr : Err → Option String
  | .item _ s r m => some (renderCarried s r m)
  | _ => none

/-- an error by what it carries: `err` followed by the failed items it reports (`;`-separated, in item
    order); violations of the response shape contribute nothing. -/
def renderErr : Err → String
  | .item _ s r m => "err " ++ renderCarried s r m
  | .joined ls =>
    match ls.filterMap carriedOfLine with
    | [] => "err"
    | items => "err " ++ ";".intercalate items
  | _ => "err"

/-- the error of `Unwrap` (non-empty list). -/
def renderUnwrapErrs (es : List Err) : String :=
  match es.filterMap carriedOfErr with
  | [] => "other"
  | items => ";".intercalate items

def parseCalls (s : String) : Option (List (List Ver)) :=
  if s = "-" then some []
  else (s.splitOn ";").mapM fun c => if c = "_" then some [] else parseVers c

def parseServer (s : String) : Option ServerBehaviour :=
  if s.startsWith "lib:" then
    let r := (s.drop 4).toString
    if r = "-" ∨ r = "!" then some (.library []) else (parseVers r).map .library
  else if s.startsWith "msg:" then
    (parseRoundTrip (s.drop 4).toString).map .scripted
  else none

/-- the fixed program the harness runs after a successful Dial (see go/cmd/harness/client.go `negoLater`):
    a single request, a batch of three with OnBatchErr(Stop), a lost connection and a request (reconnect),
    a clone and its request, Close of the parent and a request on it (nothing is sent), a two-payload batch on
    the clone, a clone of the clone with both connections lost, a clone of the CLOSED parent. -/
def laterProgram : List Step :=
  [.request 0 1 [], .request 0 3 [2], .connLost 0, .request 0 1 [], .clone 0, .request 1 1 [], .close 0,
   .request 0 1 [], .request 1 2 [], .clone 1, .connLost 1, .connLost 2, .request 2 1 [], .clone 0, .request 3 1 []]

def renderLater (outs : List (Nat × ReqHeader)) : String :=
  if outs.isEmpty then "-"
  else ",".intercalate (outs.map fun o => toString o.1 ++ ":" ++ renderVer o.2.version ++ ":" ++ toString o.2.batchCount)

def negoAdopt (enf calls srv : String) : String :=
  let enforce : Option (Option Ver) := if enf = "-" then some none else (parseVer enf).map some
  match enforce, parseCalls calls, parseServer srv with
  | some enforce, some calls, some sb =>
    let cfg : ClientCfg := { calls, enforce }
    let disc := match enforce with
      | some _ => "-"
      | none => renderVer discoverHeader ++ "/" ++ renderVers (clientList cfg) ++ " ans=" ++
          (match respond sb discoverHeader (clientList cfg) with
           | .msg _ (bi :: _) => if bi.payload = some (.resp opDiscover) then renderVers bi.vers else "none"
           | _ => "none")
    -- the EnforceVersion option owns a version variable; the client copies the pointer
    let (s0, ptr) : Store × Option Nat := match enforce with
      | some v => let (s, p) := enforceOption Store.init v; (s, some p)
      | none => (Store.init, none)
    match dialM stdTables s0 calls ptr sb with
    | .ok (s, c) =>
      "ok " ++ renderVer (s.val c.ver) ++ " later=" ++ renderLater (runM { store := s, clients := [c] } laterProgram) ++
        " disc=" ++ disc
    | .err e => renderErr e ++ " disc=" ++ disc
    | .panic => "panic"
  | _, _, _ => "bad-op"

def renderItem (bi : Item) : String :=
  toString bi.op ++ "," ++ toString bi.status ++ "," ++ toString bi.reason ++ "," ++ renderMsg bi.msg ++ "," ++
    renderPayload bi.payload ++ (if bi.vers.isEmpty then "" else "," ++ renderVers bi.vers)

def renderRoundTrip : RoundTrip → String
  | .fail => "fail"
  | .msg h items =>
    toString h ++ ":" ++ (if items.isEmpty then "-" else "|".intercalate (items.map renderItem))

/-- `nego.server <calls> <hdr> <req>`: a BatchExecutor after the successive SetSupportedProtocolVersions
    calls (`!`: never called; call = versions or `_` for no argument) answering a one-item DiscoverVersions
    request with header version `hdr` listing `req`, as the client decodes the answer from the wire. -/
def negoServer (calls hdr req : String) : String :=
  let cs : Option (List (List Ver)) := if calls = "!" then some [] else parseCalls calls
  match cs, parseVer hdr, parseVers req with
  | some cs, some h, some r =>
    -- each call REPLACES the set: only the last one counts
    renderRoundTrip (libraryRespond (serverSet (cs.getLast?.getD [])) h r)
  | _, _, _ => "bad-op"

def parseOps (s : String) : Option (List Nat) :=
  if s = "-" then some [] else (s.splitOn ",").mapM (·.toNat?)

def respInterpret (api arg rts : String) : String :=
  match parseRoundTrip rts with
  | none => "bad-op"
  | some rt =>
    match api with
    | "request" =>
      match arg.toNat? with
      | some op =>
        match request stdTables op rt with
        | .ok p => "ok " ++ renderPayload (some p)
        | .err e => renderErr e
        | .panic => "panic"
      | none => "bad-op"
    | "exec" =>
      match arg.toNat? with
      | some op =>
        match exec stdTables op true rt with
        | .ok p => "ok " ++ renderPayload (some p)
        | .err e => renderErr e
        | .panic => "panic"
      | none => "bad-op"
    | "batch" =>
      match parseOps arg with
      | some ops =>
        match batchUnwrap stdTables ops rt with
        | .ok (ps, es) =>
          "ok [" ++ ",".intercalate (ps.map renderPayload) ++ "] " ++
            (if es.isEmpty then "-" else renderUnwrapErrs es)
        | .err e => renderErr e
        | .panic => "panic"
      | none => "bad-op"
    | "dial" =>
      match parseVers arg with
      | some C =>
        match negotiate stdTables C rt with
        | .ok v => "ok " ++ renderVer v
        | .err e => renderErr e
        | .panic => "panic"
      | none => "bad-op"
    | _ => "bad-op"

/-! ### Signer -/

open Kmip.Signer in
def parseAttr (s : String) : Option Attr :=
  let k := (s.take 1).toString
  let r := (s.drop 1).toString
  if s = "O" then some .other
  else if r = "f" then
    match k with
    | "T" => some (.objectType none)
    | "G" => some (.alg none)
    | "L" => some (.link none)
    | "M" => some (.mask none)
    | _ => none
  else
    match k with
    | "T" => r.toNat?.map fun n => .objectType (some n)
    | "G" => r.toNat?.map fun n => .alg (some n)
    | "M" => r.toNat?.map fun n => .mask (some n)
    | "L" =>
      match r.splitOn "x" with
      | [a, b] => do
        let lt ← a.toNat?
        let h ← b.toNat?
        pure (.link (some (lt, h != 0)))
      | _ => none
    | _ => none

open Kmip.Signer in
def parseExchange (s : String) : Option Answer :=
  match s.splitOn "~" with
  | [rts, c] => do
    let rt ← parseRoundTrip rts
    let k := (c.take 1).toString
    let r := (c.drop 1).toString
    if c = "-" then pure { rt }
    else if k = "A" then
      let attrs ← if r = "" then some [] else (r.splitOn ".").mapM parseAttr
      pure { rt, attrs }
    else if k = "K" then
      if r = "r" then pure { rt, key := some .rsa }
      else if r = "o" then pure { rt, key := some .other }
      else if r = "x" then pure { rt, key := none }
      else if (r.take 1).toString = "e" then
        let n ← (r.drop 1).toString.toNat?
        pure { rt, key := some (.ecdsa n) }
      else none
    else if k = "S" then
      let n ← r.toNat?
      pure { rt, sigLen := n }
    else none
  | _ => none

open Kmip.Signer in
def parseSignOpts (s : String) : Option SignOpts :=
  match s with
  | "nil" => some .nil
  | "h0" => some (.hash false)
  | "h1" => some (.hash true)
  | "p00" => some (.pss false false)
  | "p01" => some (.pss false true)
  | "p10" => some (.pss true false)
  | "p11" => some (.pss true true)
  | _ => none

open Kmip.Signer in
def renderSErr : SErr → String
  | .exec e => renderErr e
  | .helper => "err"

open Kmip.Signer in
def respSigner (ids opts scr : String) : String :=
  let idsP : Option (Bool × Bool) := match ids with
    | "p" => some (true, false) | "u" => some (false, true) | "b" => some (true, true) | "n" => some (false, false)
    | _ => none
  let script : Option (List Answer) := if scr = "-" then some [] else (scr.splitOn ";").mapM parseExchange
  match idsP, parseSignOpts opts, script with
  | some (priv, pub), some o, some script =>
    match signer currentCode stdTables priv pub script with
    | .err e => "signer " ++ renderSErr e
    | .panic => "signer panic"
    | .ok (s, rest) =>
      match sign currentCode stdTables s o rest with
      | .err e => "sign " ++ renderSErr e
      | .panic => "sign panic"
      | .ok c =>
        -- the Sign exchange is only counted when the preliminary checks let the request go out
        "ok conv=" ++ (if c then "1" else "0") ++ " used=" ++ toString (script.length - rest.length + 1)
  | _, _, _ => "bad-op"

def handleClient (cmd arg : String) : Option String :=
  match cmd with
  | "nego.adopt" => some <|
    match arg.splitOn " " with
    | [enf, calls, srv] => negoAdopt enf calls srv
    | _ => "bad-op"
  | "nego.server" => some <|
    match arg.splitOn " " with
    | [calls, hdr, req] => negoServer calls hdr req
    | _ => "bad-op"
  | "resp.interpret" => some <|
    match arg.splitOn " " with
    | [api, a, rt] => respInterpret api a rt
    | _ => "bad-op"
  | "resp.signer" => some <|
    match arg.splitOn " " with
    | [ids, opts, scr] => respSigner ids opts scr
    | _ => "bad-op"
  | "resp.enumstr" => some <|
    match arg.splitOn " " with
    | [tbl, v] =>
      match v.toNat? with
      | some v =>
        match tbl with
        | "op" => renderEStr (enumStr stdTables.ops v)
        | "status" => renderEStr (enumStr stdTables.status v)
        | "reason" => renderEStr (enumStr stdTables.reasons v)
        | _ => "bad-op"
      | none => "bad-op"
    | _ => "bad-op"
  | "resp.registered" => some <|
    match arg.toNat? with
    -- the live payload registry, regenerated by reflection (Gen.Schema.ops)
    | some o => if o ∈ Kmip.Gen.ops.map (·.1) then "yes" else "no"
    | none => "bad-op"
  | _ => none

end Driver
