/-
  The sender side of C07: what `ttlvWriter` writes for ONE item (`enc t`, the bytes `Stream.Send` hands to
  the transport: `MarshalTTLV(msg)` followed by one `Write`) is exactly one frame in the sense of
  `Stream.Recv` (`Framed`: at least the 8 header bytes, and as long as `computeNeededBytes` announces).
  This ties the hypotheses `Framed m` of the C07 theorems to the encoder model of C01/C03.
  Core Lean only.
-/
import KmipModel.Lemmas.StreamLemmas
import KmipModel.Lemmas.WireLemmas
namespace Kmip

/-- the receiver's size computation on an item header written by `writeTag; writeType; writeLength`. -/
theorem computeNeededBytes_hdr (tag ty len : Nat) (hlen : len < 2 ^ 32) (tl : Bytes) :
    computeNeededBytes (hdr tag ty len ++ tl) = 8 + paddedLen len := by
  have e2 : ((hdr tag ty len ++ tl).drop 4).take 4 = be32 len := rfl
  have e5 : ¬ (hdr tag ty len ++ tl).length < 8 := by
    rw [List.length_append, hdr_length]; omega
  unfold computeNeededBytes
  rw [if_neg e5, e2, beVal_be32 len hlen]

/-- a header followed by a value of the announced length and its padding is one frame. -/
theorem framed_hdr (tag ty len : Nat) (hlen : len < 2 ^ 32) (tl : Bytes)
    (htl : tl.length = paddedLen len) : Framed (hdr tag ty len ++ tl) := by
  refine ⟨?_, ?_⟩
  · rw [List.length_append, hdr_length]; omega
  · rw [computeNeededBytes_hdr tag ty len hlen tl, List.length_append, hdr_length, htl]

theorem paddedLen_of_mod {l : Nat} (h : l % 8 = 0) : paddedLen l = l := by
  unfold paddedLen; rw [padForLen_eq_zero h]; rfl

/-- **Every in-range item is written as exactly one frame.** -/
theorem enc_framed (t : Item) (h : t.InRange) : Framed (enc t) := by
  cases t with
  | struct tag cs =>
    rw [Item.InRange] at h
    rw [enc]
    exact framed_hdr tag 1 _ h.2.2.1 _ (paddedLen_of_mod (encList_length_mod cs)).symm
  | int tag v =>
    rw [enc, List.append_assoc]
    exact framed_hdr tag 2 4 (by decide) _ rfl
  | long tag v =>
    rw [enc]
    exact framed_hdr tag 3 8 (by decide) _ rfl
  | big tag v =>
    rw [Item.InRange] at h
    rw [enc]
    exact framed_hdr tag 4 _ h.2.2 _ (paddedLen_of_mod (encodeBig_length_mod v)).symm
  | enum tag v =>
    rw [enc, List.append_assoc]
    exact framed_hdr tag 5 4 (by decide) _ rfl
  | bool tag b =>
    rw [enc]
    exact framed_hdr tag 6 8 (by decide) _ rfl
  | text tag s =>
    rw [Item.InRange] at h
    rw [enc, List.append_assoc]
    exact framed_hdr tag 7 _ h.2.2 _ (by simp [paddedLen])
  | bytes tag s =>
    rw [Item.InRange] at h
    rw [enc, List.append_assoc]
    exact framed_hdr tag 8 _ h.2.2 _ (by simp [paddedLen])
  | date tag v =>
    rw [enc]
    exact framed_hdr tag 9 8 (by decide) _ rfl
  | interval tag v =>
    rw [enc, List.append_assoc]
    exact framed_hdr tag 10 4 (by decide) _ rfl

/-- what a sequence of `Send` calls puts on the wire. -/
theorem encList_eq_flatten (ts : List Item) : encList ts = (ts.map enc).flatten := by
  induction ts with
  | nil => rw [encList]; rfl
  | cons x xs ih => rw [encList, ih]; rfl

end Kmip
