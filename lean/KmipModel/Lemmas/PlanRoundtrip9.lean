/-
  C01 — stage 3 (continued): Export response and Import request payloads.
-/
import KmipModel.Lemmas.PlanRoundtrip8
namespace Kmip

theorem customOk_export (S : Schema) (v : Val) :
    customOk S Cust.exportResponse v =
      (match v.field 0, v.field 3 with
       | .int ot, .iface (some (d, _)) => S.objectDyn ot.toNat == some d
       | _, _ => false) := rfl

theorem customOk_import (S : Schema) (v : Val) :
    customOk S Cust.importRequest v =
      (match v.field 4 with
       | .iface (some (d, _)) =>
         (match importObjectType S (v.field 3) with
          | some ot => S.objectDyn ot == some d
          | none => false)
       | _ => false) := rfl

theorem decCustom_export (S : Schema) (n id tag : Nat) (c : Cur) (ver : Option Ver) :
    decCustom S (n + 1) Cust.exportResponse id tag c ver = (do
      let it ← c.expect 1 tag
      let c0 ← Cur.start it.val
      let (v, ver') ← (do
          let (ot, c1, v1) ← decK S n ((S.structDef id).fields.getD 0 fieldDflt).kind T.objectType c0 ver
          let (uid, c2, v2) ← decK S n .text T.uniqueIdentifier c1 v1
          let (attrs, c3, v3) ← decK S n ((S.structDef id).fields.getD 2 fieldDflt).kind T.attr c2 v2
          match S.objectDyn ot.asInt.toNat with
          | none => .err .other
          | some d => do
            let (obj, _, v4) ← decDyn S n d 0 c3 v3
            pure (Val.struct [ot, uid, attrs, obj], v4) : Res (Val × Option Ver))
      let c' ← c.next
      pure (v, c', ver')) := by
  rw [decCustom.eq_def]; rfl

theorem decCustom_import (S : Schema) (n id tag : Nat) (c : Cur) (ver : Option Ver) :
    decCustom S (n + 1) Cust.importRequest id tag c ver = (do
      let it ← c.expect 1 tag
      let c0 ← Cur.start it.val
      let (v, ver') ← (do
          let (uid, c1, v1) ← decK S n .text T.uniqueIdentifier c0 ver
          let (rep, c2, v2) ← decOpt S n .bool T.replaceExisting c1 v1
          let (kwt, c3, v3) ← decOpt S n ((S.structDef id).fields.getD 2 fieldDflt).kind T.keyWrapType c2 v2
          let (attrs, c4, v4) ← decK S n ((S.structDef id).fields.getD 3 fieldDflt).kind T.attr c3 v3
          match importObjectType S attrs with
          | none => .err .other
          | some ot =>
            match S.objectDyn ot with
            | none => .err .other
            | some d => do
              let (obj, _, v5) ← decDyn S n d 0 c4 v4
              pure (Val.struct [uid, rep, kwt, attrs, obj], v5) : Res (Val × Option Ver))
      let c' ← c.next
      pure (v, c', ver')) := by
  rw [decCustom.eq_def]; rfl

/-- the object that follows an attribute list does not look like an attribute. -/
theorem obj_after_attrs {S : Schema} (hU : S.unambiguous = true) {ot d : Nat} (h : S.objectDyn ot = some d)
    {b : List Item} (ht : ∀ it ∈ b, it.tag = (S.dyn d).defTag) (t : Nat)
    (hmem : t ∈ [T.attr, T.replaceExisting, T.keyWrapType]) : htag (b.map Item.raw ++ []) ≠ t := by
  have hno := objectDyn_tag hU h
  have h0 : t ≠ 0 := by
    simp only [List.mem_cons, List.not_mem_nil, or_false] at hmem
    rcases hmem with rfl | rfl | rfl <;> decide
  cases b with
  | nil => exact fun e => h0 e.symm
  | cons x b =>
    rw [htag_append_cons, ht x (List.mem_cons_self ..)]
    intro e; rw [e] at hno; exact hno hmem

set_option maxHeartbeats 1000000 in
theorem custdec_export (S : Schema) (hU : S.unambiguous = true) (n : Nat) (hK : ∀ m, m < n → PK S m)
    (id tag : Nat) (fs : List Val) (ver : Option Ver) (fs' : List Val) (ver' : Option Ver) (items : List Item)
    (g0 g1 g2 : Field) (k2 : Kind) (hF : (S.structDef id).fields = [g0, g1, g2, objField])
    (h0 : g0.plainWith T.objectType = true) (h0k : g0.kind.isEnum = true)
    (h1 : g1.plainWith T.uniqueIdentifier = true) (h1k : g1.kind = .text)
    (h2 : g2.plainWith T.attr = true) (h2k : g2.kind = .slice k2) (h2d : k2.definite = true)
    (h2dd : S.decodable k2 = true)
    (hx : normFields S n (S.structDef id).fields fs ver = some (fs', ver'))
    (hcok : customOk S Cust.exportResponse (.struct fs') = true)
    (he : encFields S n (S.structDef id).fields fs ver = .ok (items, ver'))
    (hr : (Item.struct tag items).InRange) (fd : Nat) (rs : List RawItem)
    (hfd : (Val.struct fs).depth ≤ fd + 1) :
    decCustom S fd Cust.exportResponse id tag (Cur.of ((Item.struct tag items).raw :: rs)) ver
      = .ok (.struct fs', Cur.of rs, ver') := by
  have hg0 : ((S.structDef id).fields.getD 0 fieldDflt).kind = g0.kind := by rw [hF]; rfl
  have hg2 : ((S.structDef id).fields.getD 2 fieldDflt).kind = g2.kind := by rw [hF]; rfl
  rw [hF] at hx he
  obtain ⟨n1, rfl⟩ := normFields_succ_of_some hx
  obtain ⟨v0, v0', vs1, r1, it0, b0, rfl, rfl, rfl, hrt1, ht0, hd0⟩ :=
    head_req_scalar S n1 g0 _ h0 (enum_scalar h0k) _ fs ver fs' ver' items ⟨hx, he⟩
  obtain ⟨n2, rfl⟩ := normFields_succ_of_some hrt1.1
  obtain ⟨v1, v1', vs2, r2, it1, b1, rfl, rfl, rfl, hrt2, ht1, hd1⟩ :=
    head_req_scalar S n2 g1 _ h1 (by rw [h1k]; rfl) _ vs1 ver r1 ver' b0 hrt1
  obtain ⟨n3, rfl⟩ := normFields_succ_of_some hrt2.1
  obtain ⟨v2, v2', vs3, r3, a2, b2, w2, rfl, rfl, rfl, hrt3, hta2, _, hda2⟩ :=
    head_req S n3 (hK n3 (by omega)) g2 _ h2 _ vs2 ver r2 ver' b1 hrt2
  obtain ⟨n4, rfl⟩ := objfields_fuel hrt3.1
  rw [customOk_export] at hcok
  simp only [Val.field, List.getD_cons_zero, List.getD_cons_succ] at hcok
  split at hcok
  · rename_i _ _ ot d x' hv3
    simp only [beq_iff_eq] at hcok
    obtain ⟨x, rfl, rfl, hto, hlo, hdo⟩ := head_obj S hU n4 (hK n4 (by omega)) vs3 w2 r3 ver' b2 d x' hv3 hrt3
    rw [Item.InRange] at hr
    obtain ⟨_, _, _, hin⟩ := hr
    have hi0 := (Item.allInRange_append [it0] (it1 :: (a2 ++ b2))).1 hin
    have hi1 := (Item.allInRange_append [it1] (a2 ++ b2)).1 hi0.2
    have hi2 := (Item.allInRange_append a2 b2).1 hi1.2
    simp only [Val.depth, Val.depthList] at hfd
    have hv2d := Val.depth_pos v2
    obtain ⟨f, rfl, hf⟩ := fuel_succ (by omega : 5 + 1 ≤ fd)
    obtain ⟨f1, rfl, hf1⟩ := fuel_succ (by omega : 4 + 1 ≤ f)
    rw [decCustom_export]
    have hexp : (Cur.of ((Item.struct tag (it0 :: it1 :: (a2 ++ b2))).raw :: rs)).expect 1 tag
        = .ok (Item.struct tag _).raw := Cur.expect_of (.struct tag _) rs
    have hstart : Cur.start (Item.struct tag (it0 :: it1 :: (a2 ++ b2))).raw.val
        = .ok (Cur.of ((it0 :: it1 :: (a2 ++ b2)).map Item.raw)) := Cur.start_encList _ hin
    have hnext : (Cur.of ((Item.struct tag (it0 :: it1 :: (a2 ++ b2))).raw :: rs)).next
        = .ok (Cur.of rs) := Cur.next_of _ rs
    simp only [hexp, Res.ok_bind, hstart, hnext, hg0, hg2]
    have hl : (it0 :: it1 :: (a2 ++ b2)).map Item.raw
        = it0.raw :: (it1.raw :: (a2.map Item.raw ++ (b2.map Item.raw ++ []))) := by simp
    rw [hl, hd0 ((Item.allInRange_singleton it0).1 hi0.1) f1 _ ver]
    simp only [Res.ok_bind]
    rw [h1k] at hd1
    rw [hd1 ((Item.allInRange_singleton it1).1 hi1.1) f1 _ ver]
    simp only [Res.ok_bind]
    rw [h2k] at hda2
    rw [h2k, hda2 (decodable_slice_of h2d h2dd) hi2.1 (f1 + 1) _ (by omega)
      (Or.inr (obj_after_attrs hU hcok hto T.attr (by simp)))]
    simp only [Res.ok_bind, Val.asInt, hcok]
    rw [hdo hi2.2 (f1 + 1) [] (by omega)]
    simp only [Res.ok_bind, Res.pure_eq]
  · contradiction


set_option maxHeartbeats 1000000 in
theorem custdec_import (S : Schema) (hU : S.unambiguous = true) (n : Nat) (hK : ∀ m, m < n → PK S m)
    (id tag : Nat) (fs : List Val) (ver : Option Ver) (fs' : List Val) (ver' : Option Ver) (items : List Item)
    (g0 g1 g2 g3 : Field) (k3 : Kind) (hF : (S.structDef id).fields = [g0, g1, g2, g3, objField])
    (h0 : g0.plainWith T.uniqueIdentifier = true) (h0k : g0.kind = .text)
    (h1 : g1.optWith T.replaceExisting = true) (h1k : g1.kind = .bool)
    (h2 : g2.optWith T.keyWrapType = true) (h2k : g2.kind.isEnum = true)
    (h3 : g3.plainWith T.attr = true) (h3k : g3.kind = .slice k3) (h3d : k3.definite = true)
    (h3dd : S.decodable k3 = true)
    (hx : normFields S n (S.structDef id).fields fs ver = some (fs', ver'))
    (hcok : customOk S Cust.importRequest (.struct fs') = true)
    (he : encFields S n (S.structDef id).fields fs ver = .ok (items, ver'))
    (hr : (Item.struct tag items).InRange) (fd : Nat) (rs : List RawItem)
    (hfd : (Val.struct fs).depth ≤ fd + 1) :
    decCustom S fd Cust.importRequest id tag (Cur.of ((Item.struct tag items).raw :: rs)) ver
      = .ok (.struct fs', Cur.of rs, ver') := by
  have hg2 : ((S.structDef id).fields.getD 2 fieldDflt).kind = g2.kind := by rw [hF]; rfl
  have hg3 : ((S.structDef id).fields.getD 3 fieldDflt).kind = g3.kind := by rw [hF]; rfl
  rw [hF] at hx he
  obtain ⟨n1, rfl⟩ := normFields_succ_of_some hx
  obtain ⟨v0, v0', vs1, r1, it0, b0, rfl, rfl, rfl, hrt1, ht0, hd0⟩ :=
    head_req_scalar S n1 g0 _ h0 (by rw [h0k]; rfl) _ fs ver fs' ver' items ⟨hx, he⟩
  obtain ⟨n2, rfl⟩ := normFields_succ_of_some hrt1.1
  obtain ⟨v1, v1', vs2, r2, a1, b1, rfl, rfl, rfl, hrt2, hta1, hd1⟩ :=
    head_opt_scalar S n2 g1 _ h1 (by rw [h1k]; rfl) _ vs1 ver r1 ver' b0 hrt1
  obtain ⟨n3, rfl⟩ := normFields_succ_of_some hrt2.1
  obtain ⟨v2, v2', vs3, r3, a2, b2, rfl, rfl, rfl, hrt3, hta2, hd2⟩ :=
    head_opt_scalar S n3 g2 _ h2 (enum_scalar h2k) _ vs2 ver r2 ver' b1 hrt2
  obtain ⟨n4, rfl⟩ := normFields_succ_of_some hrt3.1
  obtain ⟨v3, v3', vs4, r4, a3, b3, w3, rfl, rfl, rfl, hrt4, hta3, _, hda3⟩ :=
    head_req S n4 (hK n4 (by omega)) g3 _ h3 _ vs3 ver r3 ver' b2 hrt3
  obtain ⟨n5, rfl⟩ := objfields_fuel hrt4.1
  rw [customOk_import] at hcok
  simp only [Val.field, List.getD_cons_zero, List.getD_cons_succ] at hcok
  split at hcok
  · rename_i _ d x' hv4
    cases hiot : importObjectType S v3' with
    | none => simp only [hiot] at hcok; contradiction
    | some ot =>
    simp only [hiot, beq_iff_eq] at hcok
    obtain ⟨x, rfl, rfl, hto, hlo, hdo⟩ := head_obj S hU n5 (hK n5 (by omega)) vs4 w3 r4 ver' b3 d x' hv4 hrt4
    have hno := objectDyn_tag hU hcok
    rw [Item.InRange] at hr
    obtain ⟨_, _, _, hin⟩ := hr
    have hi0 := (Item.allInRange_append [it0] (a1 ++ (a2 ++ (a3 ++ b3)))).1 hin
    have hi1 := (Item.allInRange_append a1 (a2 ++ (a3 ++ b3))).1 hi0.2
    have hi2 := (Item.allInRange_append a2 (a3 ++ b3)).1 hi1.2
    have hi3 := (Item.allInRange_append a3 b3).1 hi2.2
    simp only [Val.depth, Val.depthList] at hfd
    have hv3d := Val.depth_pos v3
    obtain ⟨f, rfl, hf⟩ := fuel_succ (by omega : 5 + 1 ≤ fd)
    obtain ⟨f1, rfl, hf1⟩ := fuel_succ (by omega : 4 + 1 ≤ f)
    obtain ⟨f2, rfl, hf2⟩ := fuel_succ (by omega : 3 + 1 ≤ f1)
    rw [decCustom_import]
    have hexp : (Cur.of ((Item.struct tag (it0 :: (a1 ++ (a2 ++ (a3 ++ b3))))).raw :: rs)).expect 1 tag
        = .ok (Item.struct tag _).raw := Cur.expect_of (.struct tag _) rs
    have hstart : Cur.start (Item.struct tag (it0 :: (a1 ++ (a2 ++ (a3 ++ b3))))).raw.val
        = .ok (Cur.of ((it0 :: (a1 ++ (a2 ++ (a3 ++ b3)))).map Item.raw)) := Cur.start_encList _ hin
    have hnext : (Cur.of ((Item.struct tag (it0 :: (a1 ++ (a2 ++ (a3 ++ b3))))).raw :: rs)).next
        = .ok (Cur.of rs) := Cur.next_of _ rs
    simp only [hexp, Res.ok_bind, hstart, hnext, hg2, hg3]
    have hl : (it0 :: (a1 ++ (a2 ++ (a3 ++ b3)))).map Item.raw
        = it0.raw :: (a1.map Item.raw ++ (a2.map Item.raw ++ (a3.map Item.raw ++ (b3.map Item.raw ++ [])))) := by
      simp
    -- what can follow the optional fields
    have hh4 : HT (b3.map Item.raw ++ []) [(S.dyn d).defTag] := HT_app hto (HT_nil _)
    have hh3 := HT_app hta3 hh4
    have hh2 := HT_app hta2 hh3
    have hne1 : htag (a2.map Item.raw ++ (a3.map Item.raw ++ (b3.map Item.raw ++ []))) ≠ T.replaceExisting := by
      refine HT_ne hh2 ?_ (by decide)
      intro hm
      simp only [List.mem_cons, List.not_mem_nil, or_false] at hm
      rcases hm with e | e | e
      · exact absurd e (by decide)
      · exact absurd e (by decide)
      · exact hno (by rw [← e]; simp)
    have hne2 : htag (a3.map Item.raw ++ (b3.map Item.raw ++ [])) ≠ T.keyWrapType := by
      refine HT_ne hh3 ?_ (by decide)
      intro hm
      simp only [List.mem_cons, List.not_mem_nil, or_false] at hm
      rcases hm with e | e
      · exact absurd e (by decide)
      · exact hno (by rw [← e]; simp)
    rw [h0k] at hd0
    rw [hl, hd0 ((Item.allInRange_singleton it0).1 hi0.1) (f2 + 1) _ ver]
    simp only [Res.ok_bind]
    rw [h1k] at hd1
    rw [hd1 hi1.1 f2 _ ver hne1]
    simp only [Res.ok_bind]
    rw [hd2 hi2.1 f2 _ ver hne2]
    simp only [Res.ok_bind]
    rw [h3k] at hda3
    rw [h3k, hda3 (decodable_slice_of h3d h3dd) hi3.1 (f2 + 1 + 1) _ (by omega)
      (Or.inr (obj_after_attrs hU hcok hto T.attr (by simp)))]
    simp only [Res.ok_bind, hiot, hcok]
    rw [hdo hi3.2 (f2 + 1 + 1) [] (by omega)]
    simp only [Res.ok_bind, Res.pure_eq]
  · contradiction

end Kmip
