package main

import (
	"fmt"
	"reflect"

	kmip "github.com/ovh/kmip-go"
	"github.com/ovh/kmip-go/payloads"
	"github.com/ovh/kmip-go/ttlv"

	"verifharness/internal/report"
	"verifharness/internal/rng"
	"verifharness/internal/tree"
)

func treeGenSmall(r *rng.R) *tree.Item {
	return tree.Gen(r, tree.GenOpts{MaxDepth: 2, MaxChildren: 3, MaxData: 12, MaxBigBits: 100}, 1)
}

// Impl-side oracle of C06 (no model involved): walk a DECODED message and check that every payload, object and
// attribute value has the type registered for its operation / object type / attribute name, that the payload
// reports the operation of its batch item and the object the object type that accompanies it.

var (
	tReqItem  = reflect.TypeFor[kmip.RequestBatchItem]()
	tRespItem = reflect.TypeFor[kmip.ResponseBatchItem]()
	tAttr     = reflect.TypeFor[kmip.Attribute]()
	tObject   = reflect.TypeFor[kmip.Object]()
	tObjType  = reflect.TypeFor[kmip.ObjectType]()
)

func c06Violate(ctx *Ctx, line, key, detail string) {
	ctx.Res.Violate(report.Violation{Property: "C06", Oracle: "registered-type", Key: "c06:" + key, Detail: detail, Line: line})
}

func registeredAttrType(name kmip.AttributeName) (reflect.Type, bool) {
	if name.IsCustom() {
		return nil, false
	}
	for _, a := range kmip.VerifDumpAttrTypes() {
		if a.Name == name {
			return a.Type, true
		}
	}
	return nil, false
}

func c06CheckPayload(ctx *Ctx, line string, op kmip.Operation, pl kmip.OperationPayload, response bool) {
	if pl == nil || reflect.ValueOf(pl).IsNil() {
		return
	}
	if got := pl.Operation(); got != op {
		c06Violate(ctx, line, "payload-reports-other-operation", fmt.Sprintf("batch item operation 0x%X carries a %T reporting operation 0x%X", uint32(op), pl, uint32(got)))
	}
	var want reflect.Type
	for _, o := range kmip.VerifDumpOperations() {
		if o.Operation == op {
			want = reflect.PointerTo(o.Request)
			if response {
				want = reflect.PointerTo(o.Response)
			}
		}
	}
	if want == nil {
		want = reflect.TypeFor[*kmip.UnknownPayload]()
	}
	if reflect.TypeOf(pl) != want {
		c06Violate(ctx, line, "payload-type", fmt.Sprintf("operation 0x%X decoded as %T, registered type is %s", uint32(op), pl, want))
	}
}

// c06Walk visits every struct reachable from v.
func c06Walk(ctx *Ctx, line string, v reflect.Value, depth int) {
	if depth > 40 {
		return
	}
	switch v.Kind() {
	case reflect.Pointer, reflect.Interface:
		if !v.IsNil() {
			c06Walk(ctx, line, v.Elem(), depth+1)
		}
	case reflect.Slice:
		if v.Type().Elem().Kind() == reflect.Uint8 {
			return
		}
		for i := 0; i < v.Len(); i++ {
			c06Walk(ctx, line, v.Index(i), depth+1)
		}
	case reflect.Struct:
		switch v.Type() {
		case tReqItem:
			bi := v.Interface().(kmip.RequestBatchItem)
			c06CheckPayload(ctx, line, bi.Operation, bi.RequestPayload, false)
		case tRespItem:
			bi := v.Interface().(kmip.ResponseBatchItem)
			c06CheckPayload(ctx, line, bi.Operation, bi.ResponsePayload, true)
		case tAttr:
			a := v.Interface().(kmip.Attribute)
			if a.AttributeValue != nil {
				if want, ok := registeredAttrType(a.AttributeName); ok {
					if reflect.TypeOf(a.AttributeValue) != want {
						c06Violate(ctx, line, "attribute-value-type", fmt.Sprintf("attribute %q decoded as %T, specified type is %s", a.AttributeName, a.AttributeValue, want))
					}
				} else if _, isVal := a.AttributeValue.(ttlv.Value); !isVal {
					c06Violate(ctx, line, "unknown-attribute-not-opaque", fmt.Sprintf("attribute %q (custom/unknown) decoded as %T instead of an opaque ttlv.Value", a.AttributeName, a.AttributeValue))
				}
			} else {
				c06Violate(ctx, line, "attribute-value-dropped", fmt.Sprintf("attribute %q decoded without its value", a.AttributeName))
			}
		}
		// a struct holding an Object next to an ObjectType: they must agree
		var ot *kmip.ObjectType
		var obj kmip.Object
		for i := 0; i < v.NumField(); i++ {
			f := v.Field(i)
			if !v.Type().Field(i).IsExported() {
				continue
			}
			if f.Type() == tObjType {
				x := f.Interface().(kmip.ObjectType)
				ot = &x
			}
			if f.Type() == tObject && !f.IsNil() {
				obj = f.Interface().(kmip.Object)
			}
		}
		if ot != nil && obj != nil {
			if obj.ObjectType() != *ot {
				c06Violate(ctx, line, "object-type-mismatch", fmt.Sprintf("object type field 0x%X accompanies a %T", uint32(*ot), obj))
			}
			if want, err := kmip.NewObjectForType(*ot); err == nil && reflect.TypeOf(want) != reflect.TypeOf(obj) {
				c06Violate(ctx, line, "object-go-type", fmt.Sprintf("object type 0x%X decoded as %T, registered %T", uint32(*ot), obj, want))
			}
		}
		for i := 0; i < v.NumField(); i++ {
			if v.Type().Field(i).IsExported() {
				c06Walk(ctx, line, v.Field(i), depth+1)
			}
		}
	}
}

// c06Adversarial: messages whose dispatch information is inconsistent or unknown; the decoder must return an
// error or a value that passes c06Walk — never a value of a wrong type.
func c06Adversarial(ctx *Ctx, r *rng.R) {
	s := getSchema()
	respT := planTarget{s.Roots["ResponseMessage"], reflect.TypeFor[*kmip.ResponseMessage](), 0}
	reqT := planTarget{s.Roots["RequestMessage"], reflect.TypeFor[*kmip.RequestMessage](), 0}
	p := &popCfg{r: r, s: s, fill: 1, respectGating: true}
	mkResp := func(op kmip.Operation, pl kmip.OperationPayload) *kmip.ResponseMessage {
		return &kmip.ResponseMessage{Header: kmip.ResponseHeader{ProtocolVersion: kmip.V1_4, BatchCount: 1},
			BatchItem: []kmip.ResponseBatchItem{{Operation: op, ResponsePayload: pl}}}
	}
	mkReq := func(op kmip.Operation, pl kmip.OperationPayload) *kmip.RequestMessage {
		return &kmip.RequestMessage{Header: kmip.RequestHeader{ProtocolVersion: kmip.V1_4, BatchCount: 1},
			BatchItem: []kmip.RequestBatchItem{{Operation: op, RequestPayload: pl}}}
	}
	run := func(tg planTarget, msg any) {
		b, pn := guard("MarshalTTLV", func() []byte { return ttlv.MarshalTTLV(msg) })
		if pn != "" {
			return
		}
		line := fmt.Sprintf("plan.dec %d 0 %s", tg.dyn, hexUp(b))
		impl, back := unmarshalInto(s, tg, append([]byte{}, b...))
		ctx.Add(line, impl, true, "C06,C02")
		if back != nil {
			c06Walk(ctx, line, reflect.ValueOf(back), 0)
		}
		ctx.Res.Count("c06.adversarial." + impl[:2])
	}
	n := ctx.N(60, 1500)
	for i := 0; i < n; i++ {
		otA, objA := p.genObject()
		otB, objB := p.genObject()
		_ = objA
		// Export / Get responses and Register requests whose object does not match the object type field
		run(respT, mkResp(kmip.OperationExport, &payloads.ExportResponsePayload{ObjectType: otA, UniqueIdentifier: "id",
			Attribute: []kmip.Attribute{{AttributeName: kmip.AttributeNameObjectType, AttributeValue: otB}}, Object: objB}))
		run(respT, mkResp(kmip.OperationGet, &payloads.GetResponsePayload{ObjectType: otA, UniqueIdentifier: "id", Object: objB}))
		run(reqT, mkReq(kmip.OperationRegister, &payloads.RegisterRequestPayload{ObjectType: otA, Object: objB}))
		// unregistered object type values
		bad := kmip.ObjectType(10 + r.Intn(20))
		run(respT, mkResp(kmip.OperationGet, &payloads.GetResponsePayload{ObjectType: bad, UniqueIdentifier: "id", Object: objB}))
		run(respT, mkResp(kmip.OperationExport, &payloads.ExportResponsePayload{ObjectType: bad, UniqueIdentifier: "id", Object: objB}))
		// a payload of one operation under the operation code of another, and under unknown codes
		ops := s.Ops
		a, b := ops[r.Intn(len(ops))], ops[r.Intn(len(ops))]
		pl := kmip.VerifNewResponsePayload(kmip.Operation(a.Op))
		p.populate(reflect.ValueOf(pl).Elem())
		run(respT, mkResp(kmip.Operation(b.Op), pl))
		run(respT, mkResp(kmip.Operation(0x30+r.Intn(16)), pl))
		// attribute names that are neither standard nor x-/y- prefixed, with values of every TTLV type
		for _, nm := range []string{"Short Unique Identifier", "Protection Level", "vendor.acme.tier", "X-Upper", "cryptographic length", "Object  Type", ""} {
			av := toValue(treeGenSmall(r))
			av.Tag = kmip.TagAttributeValue
			att := kmip.Attribute{AttributeName: kmip.AttributeName(nm), AttributeValue: av}
			run(reqT, mkReq(kmip.OperationAddAttribute, &payloads.AddAttributeRequestPayload{UniqueIdentifier: "id", Attribute: att}))
		}
	}
}
