#!/bin/sh
# setup_cmd: build everything from files on disk (offline).
set -e
cd "$(dirname "$0")/.."
export GOFLAGS=-mod=mod GOPROXY=off
mkdir -p .work/bin .work/out evidence replays
cp /repo/go.sum go/go.sum
(cd go && for c in harness extract; do [ -d cmd/$c ] && go build -tags verif -o ../.work/bin/$c ./cmd/$c; done; true)
[ -x .work/bin/extract ] && .work/bin/extract -out lean/KmipModel/Gen || true
rm -f .work/bin/stamp
(cd lean && lake build KmipModel kmip-model)
echo setup-ok
