// Command harness runs the correspondence engines and impl-side oracles against the real
// github.com/ovh/kmip-go code (built from /repo with -tags verif) and the Lean model executable.
package main

import (
	"flag"
	"fmt"
	"os"
	"runtime"
	"sort"
	"strconv"
	"strings"
	"sync"
	"time"

	"verifharness/internal/model"
	"verifharness/internal/report"
	"verifharness/internal/rng"
)

// Case is one line of the protocol together with the real code's answer.
type Case struct {
	Line       string
	Impl       string
	Nontrivial bool
	Props      string // comma separated property ids this correspondence case is relevant for
}

// Engine produces cases (evaluating the real code and its oracles while doing so).
type Engine struct {
	Name string
	Rule string
	Run  func(ctx *Ctx)
}

type Ctx struct {
	R       *rng.R
	Tier    string
	Thor    bool
	Res     *report.Result
	cases   []Case
	Replay  []string // when non-empty: only these lines are evaluated
	current string
}

// Add registers a case.
func (c *Ctx) Add(line, impl string, nontrivial bool, props string) {
	c.cases = append(c.cases, Case{line, impl, nontrivial, props})
	c.Res.Case(line, nontrivial)
}

// N scales a quick-tier count for the thorough tier.
func (c *Ctx) N(quick, thorough int) int {
	if c.Thor {
		return thorough
	}
	return quick
}

var engines = map[string]*Engine{}

func register(e *Engine) { engines[e.Name] = e }

// Every call into the real code goes through guard. The calls in flight are registered so that the
// watchdog (startWatchdog) can tell a call that does not return, or that allocates without bound, from a
// slow engine: such a call is a violation in itself ("returns normally"), reported with the input.
var (
	inflightMu sync.Mutex
	inflight   = map[int64]inflightCall{}
	inflightID int64
)

type inflightCall struct {
	what  string
	start time.Time
}

func guardEnter(what string) int64 {
	inflightMu.Lock()
	inflightID++
	id := inflightID
	inflight[id] = inflightCall{what, time.Now()}
	inflightMu.Unlock()
	return id
}

func guardLeave(id int64) {
	inflightMu.Lock()
	delete(inflight, id)
	inflightMu.Unlock()
}

// startWatchdog: a real-code call in flight for longer than VERIF_HANG_S seconds (default 30), or the heap
// growing beyond VERIF_HEAP_GB (default 12) during such a call, ends the engine with a violation naming the
// protocol line being evaluated; the result file is written before the process exits (a spinning goroutine
// cannot be stopped from inside the process).
func startWatchdog(ctx *Ctx, res *report.Result, finish func()) (stop func()) {
	hang := 30 * time.Second
	if v, err := strconv.Atoi(os.Getenv("VERIF_HANG_S")); err == nil && v > 0 {
		hang = time.Duration(v) * time.Second
	}
	heapGB := 12
	if v, err := strconv.Atoi(os.Getenv("VERIF_HEAP_GB")); err == nil && v > 0 {
		heapGB = v
	}
	stopped := make(chan struct{})
	go func() {
		for tick := 0; ; tick++ {
			select {
			case <-stopped:
				return
			case <-time.After(100 * time.Millisecond):
			}
			var worst inflightCall
			inflightMu.Lock()
			for _, c := range inflight {
				if worst.what == "" || c.start.Before(worst.start) {
					worst = c
				}
			}
			inflightMu.Unlock()
			if worst.what == "" {
				continue
			}
			why := ""
			if d := time.Since(worst.start); d > hang {
				why = fmt.Sprintf("%s has not returned after %s", worst.what, d.Round(time.Second))
			} else if tick%5 == 0 {
				var ms runtime.MemStats
				runtime.ReadMemStats(&ms)
				if ms.HeapAlloc > uint64(heapGB)<<30 {
					why = fmt.Sprintf("%s has allocated %d MiB and is still running", worst.what, ms.HeapAlloc>>20)
				}
			}
			if why == "" {
				continue
			}
			line := ctx.current
			res.Violate(report.Violation{Property: "*", Oracle: "returns-normally", Key: "hang:" + worst.what, Detail: "the call does not return: " + why, Line: line})
			res.Fail("engine aborted: " + why + " at: " + line)
			finish()
			os.Exit(1)
		}
	}()
	return func() { close(stopped) }
}

func guard[T any](what string, f func() T) (res T, panicked string) {
	id := guardEnter(what)
	defer guardLeave(id)
	defer func() {
		if r := recover(); r != nil {
			panicked = fmt.Sprint(r)
			if panicked == "" {
				panicked = "panic"
			}
		}
	}()
	res = f()
	return
}

func main() {
	eng := flag.String("engine", "", "engine name (comma separated list allowed)")
	tier := flag.String("tier", "quick", "quick|thorough")
	seed := flag.Int64("seed", 1, "seed")
	out := flag.String("out", "", "result json path prefix (one file per engine: <out>.<engine>.json)")
	replay := flag.String("replay", "", "file with protocol lines to replay (one per line)")
	list := flag.Bool("list", false, "list engines")
	flag.Parse()
	if *list {
		names := []string{}
		for n := range engines {
			names = append(names, n)
		}
		sort.Strings(names)
		fmt.Println(strings.Join(names, "\n"))
		return
	}
	if s := os.Getenv("VERIF_SEED"); s != "" && !isFlagSet("seed") {
		if v, err := strconv.ParseInt(s, 10, 64); err == nil {
			*seed = v
		}
	}
	exit := 0
	for _, name := range strings.Split(*eng, ",") {
		e, ok := engines[name]
		if !ok {
			fmt.Fprintf(os.Stderr, "unknown engine %q\n", name)
			os.Exit(2)
		}
		res := report.New(name, *tier, *seed)
		res.Rule = e.Rule
		ctx := &Ctx{R: rng.New(uint64(*seed)*1000003 + hashName(name)), Tier: *tier, Thor: *tier == "thorough", Res: res}
		if *replay != "" {
			b, err := os.ReadFile(*replay)
			if err != nil {
				fmt.Fprintln(os.Stderr, err)
				os.Exit(2)
			}
			for _, l := range strings.Split(string(b), "\n") {
				if strings.TrimSpace(l) != "" {
					ctx.Replay = append(ctx.Replay, strings.TrimSpace(l))
				}
			}
		}
		stopWatchdog := startWatchdog(ctx, res, func() {
			if *out != "" {
				_ = res.Write(*out + "." + name + ".json")
			}
			fmt.Printf("engine=%s aborted by the watchdog violations=%d\n", name, len(res.Violations))
		})
		done := make(chan struct{})
		go func() {
			defer close(done)
			e.Run(ctx)
		}()
		limit := 20 * time.Minute
		if ctx.Thor {
			limit = 90 * time.Minute
		}
		select {
		case <-done:
		case <-time.After(limit):
			res.Fail("engine did not finish within its time limit (possible hang in the real code at: " + ctx.current + ")")
		}
		stopWatchdog()
		// model side
		lines := make([]string, 0, len(ctx.cases))
		idx := []int{}
		for i, c := range ctx.cases {
			if strings.HasPrefix(c.Line, "#") { // impl-only case (oracle without a model counterpart)
				continue
			}
			lines = append(lines, c.Line)
			idx = append(idx, i)
		}
		if dump := os.Getenv("VERIF_DUMP_LINES"); dump != "" {
			_ = os.WriteFile(dump+"."+name+".txt", []byte(strings.Join(lines, "\n")+"\n"), 0o644)
		}
		if len(lines) > 0 {
			answers, err := model.Run(lines)
			if err != nil {
				res.Fail(err.Error())
			} else {
				for k, a := range answers {
					c := ctx.cases[idx[k]]
					if c.Impl == "?" {
						// model-only question (e.g. do the HYPOTHESES of a theorem hold of this tested input?):
						// nothing to compare, the model's answer is counted into the evidence
						cmd, _, _ := strings.Cut(c.Line, " ")
						res.Count("model." + cmd + ": " + a)
						continue
					}
					if normAnswer(a) != normAnswer(c.Impl) {
						res.Disagree(c.Line, c.Impl, a, c.Props)
					}
				}
			}
		}
		if *out != "" {
			if err := res.Write(*out + "." + name + ".json"); err != nil {
				fmt.Fprintln(os.Stderr, err)
				os.Exit(2)
			}
		}
		fmt.Printf("engine=%s cases=%d disagreements=%d violations=%d harness_errors=%d\n", name, res.Cases, len(res.Disagreements), len(res.Violations), len(res.HarnessErrors))
		if len(res.Disagreements)+len(res.Violations)+len(res.HarnessErrors) > 0 {
			exit = 1
		}
	}
	os.Exit(exit)
}

// normAnswer: panic messages are never compared, only the fact that the call panics.
func normAnswer(s string) string {
	if strings.HasPrefix(s, "panic") {
		return "panic"
	}
	return s
}

func isFlagSet(name string) bool {
	set := false
	flag.Visit(func(f *flag.Flag) {
		if f.Name == name {
			set = true
		}
	})
	return set
}

func hashName(s string) uint64 {
	var h uint64 = 1469598103934665603
	for i := 0; i < len(s); i++ {
		h ^= uint64(s[i])
		h *= 1099511628211
	}
	return h
}
