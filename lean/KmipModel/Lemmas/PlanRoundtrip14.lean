/-
  C01 — stage 3 (continued): KeyBlock, and the assembly of all hand-written decoders (`PCustDec`).
-/
import KmipModel.Lemmas.PlanRoundtrip13
namespace Kmip

/-- `head_req`, also exposing the two equations of the head field. -/
theorem head_req' (S : Schema) (n : Nat) (hK : PK S n) (g : Field) (t : Nat) (hp : g.plainWith t = true)
    (gs : List Field) (vs : List Val) (ver : Option Ver) (r : List Val)
    (w' : Option Ver) (items : List Item) (h : FieldsRT S (n + 1) (g :: gs) vs ver r w' items) :
    ∃ v v' vs1 r1 a b w1, vs = v :: vs1 ∧ r = v' :: r1 ∧ items = a ++ b
      ∧ FieldsRT S n gs vs1 w1 r1 w' b
      ∧ normK S n g.kind t v ver = some (v', w1) ∧ encK S n g.kind t v ver = .ok (a, w1) := by
  obtain ⟨hx, he⟩ := h
  cases vs with
  | nil => rw [normFields_cons_nil] at hx; contradiction
  | cons v vs1 =>
  rw [normFields_plain_cons S n g t hp] at hx
  rw [encFields_plain_cons S n g t hp] at he
  cases hn : normK S n g.kind t v ver with
  | none => simp only [hn] at hx; contradiction
  | some p =>
  obtain ⟨v', w0⟩ := p
  simp only [hn] at hx
  obtain ⟨a, hen, _⟩ := hK g.kind t v ver v' w0 hn
  simp only [hen, Res.ok_bind] at he
  cases hxr : normFields S n gs vs1 w0 with
  | none => simp only [hxr] at hx; contradiction
  | some q =>
  obtain ⟨r1, w1⟩ := q
  simp only [hxr] at hx
  obtain ⟨hr, hw1⟩ := pair_eq (Option.some.inj hx)
  subst hr hw1
  cases hb : encFields S n gs vs1 w0 with
  | ok q =>
    obtain ⟨b, w2⟩ := q
    simp only [hb, Res.ok_bind, Res.pure_eq, Res.ok.injEq, Prod.mk.injEq] at he
    obtain ⟨hi, hw2⟩ := he
    subst hi hw2
    exact ⟨v, v', vs1, r1, a, b, w0, rfl, rfl, rfl, ⟨hxr, hb⟩, hn, hen⟩
  | err e => simp only [hb, Res.err_bind] at he; contradiction
  | panic m => simp only [hb, Res.panic_bind] at he; contradiction

set_option maxHeartbeats 4000000 in
theorem custdec_keyBlock (S : Schema) (n : Nat) (hK : ∀ m, m < n → PK S m)
    (id tag : Nat) (fs : List Val) (ver : Option Ver) (fs' : List Val) (ver' : Option Ver) (items : List Item)
    (g0 g1 g2 g3 g4 g5 : Field) (kv pkv km : Nat) (k5 : Kind) (p0 p1 : Field)
    (hF : (S.structDef id).fields = [g0, g1, g2, g3, g4, g5])
    (h0 : g0.plainWith T.keyFormatType = true) (h0k : g0.kind.isEnum = true)
    (h1 : g1.optWith T.keyCompressionType = true) (h1k : g1.kind.isEnum = true)
    (h2 : g2.plainWith T.keyValue = true) (h2k : g2.kind = .ptr (.struct kv))
    (h3 : g3.optWith T.cryptographicAlgorithm = true) (h3k : g3.kind.isEnum = true)
    (h4 : g4.optWith T.cryptographicLength = true) (h4k : g4.kind = .i32)
    (h5 : g5.plainWith T.keyWrappingData = true) (h5k : g5.kind = .ptr k5) (h5d : k5.definite = true)
    (h5dd : S.decodable k5 = true)
    (hkve : (S.structDef kv).encCustom = true) (hkvc : (S.structDef kv).custom = Cust.keyValue)
    (hkinds : customFieldKinds S Cust.keyValue = [.ptr .bytes, .ptr (.struct pkv)])
    (hec : (S.structDef pkv).encCustom = false) (hdc : (S.structDef pkv).decCustom = false)
    (hFp : (S.structDef pkv).fields = [p0, p1])
    (hp0 : p0.plainWith T.keyMaterial = true) (hp0k : p0.kind = .struct km)
    (hkme : (S.structDef km).encCustom = true) (hkmc : (S.structDef km).custom = Cust.keyMaterial)
    (hkmu : S.unionKindsOK (customFieldKinds S Cust.keyMaterial) = true)
    (hp1 : p1.plainWith T.attr = true) (hp1k : p1.kind = .slice (.struct (attributeId S)))
    (hp1d : S.decodable (.struct (attributeId S)) = true)
    (hx : normFields S n (S.structDef id).fields fs ver = some (fs', ver'))
    (hcok : customOk S Cust.keyBlock (.struct fs') = true)
    (he : encFields S n (S.structDef id).fields fs ver = .ok (items, ver'))
    (hr : (Item.struct tag items).InRange) (fd : Nat) (rs : List RawItem)
    (hfd : (Val.struct fs).depth ≤ fd + 1) :
    decCustom S fd Cust.keyBlock id tag (Cur.of ((Item.struct tag items).raw :: rs)) ver
      = .ok (.struct fs', Cur.of rs, ver') := by
  have hg0 : ((S.structDef id).fields.getD 0 fieldDflt).kind = g0.kind := by rw [hF]; rfl
  have hg1 : ((S.structDef id).fields.getD 1 fieldDflt).kind = g1.kind := by rw [hF]; rfl
  have hg3 : ((S.structDef id).fields.getD 3 fieldDflt).kind = g3.kind := by rw [hF]; rfl
  have hg4 : ((S.structDef id).fields.getD 4 fieldDflt).kind = g4.kind := by rw [hF]; rfl
  have hg5 : ((S.structDef id).fields.getD 5 fieldDflt).kind = g5.kind := by rw [hF]; rfl
  rw [hF] at hx he
  obtain ⟨n1, rfl⟩ := normFields_succ_of_some hx
  obtain ⟨v0, v0', vs1, r1, it0, b0, rfl, rfl, rfl, hrt1, ht0, hd0⟩ :=
    head_req_scalar S n1 g0 _ h0 (enum_scalar h0k) _ fs ver fs' ver' items ⟨hx, he⟩
  obtain ⟨n2, rfl⟩ := normFields_succ_of_some hrt1.1
  obtain ⟨v1, v1', vs2, r2, a1, b1, rfl, rfl, rfl, hrt2, hta1, hd1⟩ :=
    head_opt_scalar S n2 g1 _ h1 (enum_scalar h1k) _ vs1 ver r1 ver' b0 hrt1
  obtain ⟨n3, rfl⟩ := normFields_succ_of_some hrt2.1
  obtain ⟨v2, v2', vs3, r3, a2, b2, w2, rfl, rfl, rfl, hrt3, hn2, he2⟩ :=
    head_req' S n3 (hK n3 (by omega)) g2 _ h2 _ vs2 ver r2 ver' b1 hrt2
  obtain ⟨n4, rfl⟩ := normFields_succ_of_some hrt3.1
  obtain ⟨v3, v3', vs4, r4, a3, b3, rfl, rfl, rfl, hrt4, hta3, hd3⟩ :=
    head_opt_scalar S n4 g3 _ h3 (enum_scalar h3k) _ vs3 w2 r3 ver' b2 hrt3
  obtain ⟨n5, rfl⟩ := normFields_succ_of_some hrt4.1
  obtain ⟨v4, v4', vs5, r5, a4, b4, rfl, rfl, rfl, hrt5, hta4, hd4⟩ :=
    head_opt_scalar S n5 g4 _ h4 (by rw [h4k]; rfl) _ vs4 w2 r4 ver' b3 hrt4
  obtain ⟨n6, rfl⟩ := normFields_succ_of_some hrt5.1
  obtain ⟨v5, v5', vs6, r6, a5, b5, w5, rfl, rfl, rfl, hrt6, hta5, _, hda5⟩ :=
    head_req S n6 (hK n6 (by omega)) g5 _ h5 _ vs5 w2 r5 ver' b4 hrt5
  obtain ⟨rfl, rfl, rfl, rfl⟩ := hrt6.nil
  obtain ⟨fmt, hf0, hok⟩ := customOk_keyBlock_kv hcok
  simp only [Val.field, List.getD_cons_zero, List.getD_cons_succ] at hf0 hok
  subst hf0
  rw [h2k] at hn2 he2
  obtain ⟨hta2, hkvd⟩ := kv_step S (n6 + 1 + 1 + 1) (fun m hm => hK m (by omega)) kv pkv km p0 p1 hkve hkvc hkinds
    hec hdc hFp hp0 hp0k hkme hkmc hkmu hp1 hp1k hp1d v2 ver v2' w2 a2 hn2 he2 fmt.toNat hok
  rw [Item.InRange] at hr
  obtain ⟨_, _, _, hin⟩ := hr
  have hi0 := (Item.allInRange_append [it0] (a1 ++ (a2 ++ (a3 ++ (a4 ++ (a5 ++ [])))))).1 hin
  have hi1 := (Item.allInRange_append a1 (a2 ++ (a3 ++ (a4 ++ (a5 ++ []))))).1 hi0.2
  have hi2 := (Item.allInRange_append a2 (a3 ++ (a4 ++ (a5 ++ [])))).1 hi1.2
  have hi3 := (Item.allInRange_append a3 (a4 ++ (a5 ++ []))).1 hi2.2
  have hi4 := (Item.allInRange_append a4 (a5 ++ [])).1 hi3.2
  have hi5 := (Item.allInRange_append a5 []).1 hi4.2
  simp only [Val.depth, Val.depthList] at hfd
  have hv2d := Val.depth_pos v2
  have hv5d := Val.depth_pos v5
  obtain ⟨f, rfl, hf⟩ := fuel_succ (by omega : 5 + 1 ≤ fd)
  obtain ⟨f1, rfl, hf1⟩ := fuel_succ (by omega : 4 + 1 ≤ f)
  obtain ⟨f2, rfl, hf2⟩ := fuel_succ (by omega : 3 + 1 ≤ f1)
  rw [decCustom_keyBlock]
  have hexp : (Cur.of ((Item.struct tag (it0 :: (a1 ++ (a2 ++ (a3 ++ (a4 ++ (a5 ++ []))))))).raw :: rs)).expect 1 tag
      = .ok (Item.struct tag _).raw := Cur.expect_of (.struct tag _) rs
  have hstart : Cur.start (Item.struct tag (it0 :: (a1 ++ (a2 ++ (a3 ++ (a4 ++ (a5 ++ []))))))).raw.val
      = .ok (Cur.of ((it0 :: (a1 ++ (a2 ++ (a3 ++ (a4 ++ (a5 ++ [])))))).map Item.raw)) :=
    Cur.start_encList _ hin
  have hnext : (Cur.of ((Item.struct tag (it0 :: (a1 ++ (a2 ++ (a3 ++ (a4 ++ (a5 ++ []))))))).raw :: rs)).next
      = .ok (Cur.of rs) := Cur.next_of _ rs
  simp only [hexp, Res.ok_bind, hstart, hnext, hg0, hg1, hg3, hg4, hg5]
  have hl : (it0 :: (a1 ++ (a2 ++ (a3 ++ (a4 ++ (a5 ++ [])))))).map Item.raw
      = it0.raw :: (a1.map Item.raw ++ (a2.map Item.raw ++ (a3.map Item.raw ++ (a4.map Item.raw
          ++ (a5.map Item.raw ++ []))))) := by simp
  -- what can follow each optional item
  have hh5 : HT (a5.map Item.raw ++ []) [T.keyWrappingData] := HT_app hta5 (HT_nil _)
  have hh4 := HT_app hta4 hh5
  have hh3 := HT_app hta3 hh4
  have hh2 := HT_app hta2 hh3
  rw [hl, hd0 ((Item.allInRange_singleton it0).1 hi0.1) (f2 + 1) _ ver]
  simp only [Res.ok_bind]
  rw [hd1 hi1.1 f2 _ ver (HT_ne hh2 (by decide) (by decide))]
  simp only [Res.ok_bind, Val.asInt]
  -- KeyValue
  have hk := hkvd hi2.1 (f2 + 1 + 1) _ (HT_ne hh3 (by decide) (by decide)) (by omega)
  have hfin : ∀ (w : Option Ver),
      (do
        let __x ← decOpt S (f2 + 2) g3.kind T.cryptographicAlgorithm
          (Cur.of (a3.map Item.raw ++ (a4.map Item.raw ++ (a5.map Item.raw ++ [])))) w2
        let __x_1 ← decOpt S (f2 + 2) g4.kind T.cryptographicLength __x.2.1 __x.2.2
        let __x_2 ← decK S (f2 + 2) g5.kind T.keyWrappingData __x_1.2.1 __x_1.2.2
        (pure (Val.struct [Val.int fmt, v1', v2', __x.1, __x_1.1, __x_2.1], __x_2.2.2) : Res (Val × Option Ver)))
      = .ok (Val.struct [Val.int fmt, v1', v2', v3', v4', v5'], ver') := by
    intro _
    rw [hd3 hi3.1 f2 _ w2 (HT_ne hh4 (by decide) (by decide))]
    simp only [Res.ok_bind]
    rw [hd4 hi4.1 f2 _ w2 (HT_ne hh5 (by decide) (by decide))]
    simp only [Res.ok_bind]
    rw [h5k] at hda5
    rw [h5k, hda5 (decodable_ptr_of h5d h5dd) hi5.1 (f2 + 2) [] (by omega) (Or.inr (by decide))]
    simp only [Res.ok_bind, Res.pure_eq]
  split
  · rename_i hc
    rw [if_pos hc] at hk
    cases hdkv : decKeyValue S (f2 + 1 + 1) fmt.toNat
        (Cur.of (a2.map Item.raw ++ (a3.map Item.raw ++ (a4.map Item.raw ++ (a5.map Item.raw ++ []))))) ver with
    | ok p =>
      obtain ⟨x, c3, w3⟩ := p
      simp only [hdkv, Res.ok_bind, Res.pure_eq, Res.ok.injEq, Prod.mk.injEq] at hk
      obtain ⟨rfl, rfl, rfl⟩ := hk
      simp only [Res.ok_bind, Res.pure_eq]
      have := hfin w3
      simp only [Res.pure_eq] at this
      rw [this]
      rfl
    | err e => simp only [hdkv, Res.err_bind] at hk; contradiction
    | panic m => simp only [hdkv, Res.panic_bind] at hk; contradiction
  · rename_i hc
    rw [if_neg hc] at hk
    simp only [Res.ok.injEq, Prod.mk.injEq] at hk
    obtain ⟨rfl, hceq, rfl⟩ := hk
    rw [hceq]
    have := hfin ver
    simp only [Res.pure_eq] at this ⊢
    rw [this]
    rfl


/-! ## All hand-written decoders of reflectively encoded structs -/

theorem getD_of_eq2 {l : List Field} {a b : Field} (h : l = [a, b]) :
    l.getD 0 fieldDflt = a ∧ l.getD 1 fieldDflt = b := by subst h; exact ⟨rfl, rfl⟩

set_option maxHeartbeats 4000000 in
theorem pcustdec (S : Schema) (hU : S.unambiguous = true) (n : Nat) (hK : ∀ m, m < n → PK S m) :
    PCustDec S n := by
  intro id tag fs ver fs' ver' items hdc hec hshape hx hcok he hr fd rs hfd
  unfold Schema.customShapeOK at hshape
  simp only [hec, Bool.false_and, Bool.not_false, Bool.true_and] at hshape
  by_cases c1 : (S.structDef id).custom = Cust.requestBatchItem
  · simp [c1] at hshape
  by_cases c2 : (S.structDef id).custom = Cust.responseBatchItem
  · simp [c1, c2] at hshape
  by_cases c5 : (S.structDef id).custom = Cust.unknownPayload
  · simp [c1, c2, c5] at hshape
  simp only [c1, c2, c5, if_false] at hshape
  by_cases c6 : (S.structDef id).custom = Cust.attr
  · simp only [c6, if_true, beq_iff_eq] at hshape
    rw [c6] at hcok ⊢
    exact custdec_attr S hU n hK id tag fs ver fs' ver' items hshape hx hcok he hr fd rs hfd
  simp only [c6, if_false] at hshape
  by_cases c4 : (S.structDef id).custom = Cust.credential
  · simp only [c4, if_true, Bool.and_eq_true, beq_iff_eq, and_assoc] at hshape
    obtain ⟨hlen, h0, h0k, h1, hm⟩ := hshape
    have hF := list_len2 hlen fieldDflt
    split at hm
    · rename_i cv hk1
      simp only [Bool.and_eq_true, beq_iff_eq, and_assoc] at hm
      obtain ⟨hcve, hcvc, hkeq, hu⟩ := hm
      rw [c4] at hcok ⊢
      exact custdec_credential S n hK id tag fs ver fs' ver' items _ _ cv hF h0 h0k h1 hk1 hcve hcvc
        (by rw [hkeq]; exact hu) hx hcok he hr fd rs hfd
    · contradiction
  simp only [c4, if_false] at hshape
  by_cases c7 : (S.structDef id).custom = Cust.keyBlock
  · simp only [c7, if_true, Bool.and_eq_true, beq_iff_eq, and_assoc] at hshape
    obtain ⟨hlen, h0, h0k, h1, h1k, h2, h3, h3k, h4, h4k, h5, hm5, hm2⟩ := hshape
    have hF := list_len6 hlen fieldDflt
    split at hm5
    · rename_i k5 hk5
      simp only [Bool.and_eq_true] at hm5
      split at hm2
      · rename_i kv hk2
        simp only [Bool.and_eq_true, beq_iff_eq, and_assoc] at hm2
        obtain ⟨hkve, hkvc, hm⟩ := hm2
        split at hm
        · rename_i pkv hkinds
          simp only [Bool.and_eq_true, Bool.not_eq_true', and_assoc] at hm
          obtain ⟨hpe, hpd, hm⟩ := hm
          split at hm
          · rename_i p0 p1 hFp
            simp only [Bool.and_eq_true, beq_iff_eq, and_assoc] at hm
            obtain ⟨hp0, hp1, hp1k, hp1d, hm⟩ := hm
            split at hm
            · rename_i km hp0k
              simp only [Bool.and_eq_true, beq_iff_eq, and_assoc] at hm
              obtain ⟨hkme, hkmc, hkmu⟩ := hm
              rw [c7] at hcok ⊢
              exact custdec_keyBlock S n hK id tag fs ver fs' ver' items _ _ _ _ _ _ kv pkv km k5 p0 p1 hF
                h0 h0k h1 h1k h2 hk2 h3 h3k h4 h4k h5 hk5 hm5.1 hm5.2 hkve hkvc hkinds hpe hpd hFp
                hp0 hp0k hkme hkmc hkmu hp1 hp1k hp1d hx hcok he hr fd rs hfd
            · contradiction
          · contradiction
        · contradiction
      · contradiction
    · contradiction
  simp only [c7, if_false] at hshape
  by_cases c10 : (S.structDef id).custom = Cust.getResponse
  · simp only [c10, if_true, Bool.and_eq_true, beq_iff_eq, and_assoc] at hshape
    obtain ⟨hlen, h0, h0k, h1, h1k, h2⟩ := hshape
    have hF := list_len3 hlen fieldDflt
    rw [c10] at hcok ⊢
    exact custdec_get S hU n hK id tag fs ver fs' ver' items _ _ _ hF h0 h0k h1 h1k h2 hx hcok he hr fd rs hfd
  simp only [c10, if_false] at hshape
  by_cases c11 : (S.structDef id).custom = Cust.registerRequest
  · simp only [c11, if_true, Bool.and_eq_true, beq_iff_eq, and_assoc] at hshape
    obtain ⟨hlen, h0, h0k, h1, h1k, h1d, h2⟩ := hshape
    have hF := list_len3 hlen fieldDflt
    rw [h2] at hF
    rw [c11] at hcok ⊢
    exact custdec_register S hU n hK id tag fs ver fs' ver' items _ _ hF h0 h0k h1 h1k h1d hx hcok he hr
      fd rs hfd
  simp only [c11, if_false] at hshape
  by_cases c13 : (S.structDef id).custom = Cust.exportResponse
  · simp only [c13, if_true, Bool.and_eq_true, beq_iff_eq, and_assoc] at hshape
    obtain ⟨hlen, h0, h0k, h1, h1k, h2, hm2, h3⟩ := hshape
    have hF := list_len4 hlen fieldDflt
    rw [h3] at hF
    split at hm2
    · rename_i k2 hk2
      simp only [Bool.and_eq_true] at hm2
      rw [c13] at hcok ⊢
      exact custdec_export S hU n hK id tag fs ver fs' ver' items _ _ _ k2 hF h0 h0k h1 h1k h2 hk2
        hm2.1 hm2.2 hx hcok he hr fd rs hfd
    · contradiction
  simp only [c13, if_false] at hshape
  by_cases c12 : (S.structDef id).custom = Cust.importRequest
  · simp only [c12, if_true, Bool.and_eq_true, beq_iff_eq, and_assoc] at hshape
    obtain ⟨hlen, h0, h0k, h1, h1k, h2, h2k, h3, hm3, h4⟩ := hshape
    have hF := list_len5 hlen fieldDflt
    rw [h4] at hF
    split at hm3
    · rename_i k3 hk3
      simp only [Bool.and_eq_true] at hm3
      rw [c12] at hcok ⊢
      exact custdec_import S hU n hK id tag fs ver fs' ver' items _ _ _ _ k3 hF h0 h0k h1 h1k h2 h2k h3 hk3
        hm3.1 hm3.2 hx hcok he hr fd rs hfd
    · contradiction
  simp [c12] at hshape

end Kmip
