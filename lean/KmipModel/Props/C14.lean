/-
  C14 — key material survives registration, transport and extraction.

  What is proved here, and at which level:
  * `accessor_total` (= `C14_accessor_total_full`, a theorem): for EVERY `GetResponsePayload` / object / key
    block value (any subset of the optional parts missing, any format, compression, curve and object type
    code) every accessor of objects.go and payloads/get.go returns a value or an error, never a Go panic.
    Repairs this rests on, each with the witness of what the previous code did: /repo 414a481 (nil
    dereferences: `old_accessors_can_panic`), e2e4a08 (range check of a transparent EC scalar: before it
    `Pkcs8Pem` / `PemPrivateKey` handed an oversized scalar to `x509.MarshalPKCS8PrivateKey`, which panics:
    `old_pem_can_panic`), d693174 (multi-prime RSA keys in the transparent format: `old_rsa_multiprime_truncated`,
    `old_register_can_panic`).
  * the lexical transport of big integers for EVERY integer (any sign, any size) in the three encodings
    (`ttlv_big_roundtrip`, `xml_big_roundtrip`, `json_big_roundtrip` — both sides of ±2^52) and of byte
    strings (`hex_roundtrip`), from the Go loops `bigIntToBytes` / `bytesToBigInt`.
  * section 4, for every VALID key of every kind, every format of the kind, every protocol version (1.3 switch
    of the transparent EC representation) and every encoding: ACCEPTANCE (`register_accepts`: the builder
    registers the key unless its length exceeds an int32, its curve is not one of the four, or it is a multi-prime
    RSA key in the transparent format) and SOUNDNESS (`key_roundtripF`: the accessors give the key back), for any
    admissible way of choosing among several requested formats (`key_roundtrip_any_selector`);
    `key_roundtrip_or_refused`: nothing else can happen to a valid key; a builder panic needs a key that is not
    valid and happens inside the standard library on that very key (`register_outcomes`).
  * section 6: the structure-level BINARY transport of the registered object is the C01 round trip
    (`key_wire_roundtrip`), with `Conforms` as a hypothesis discharged on instances.
  LEVEL NOTE.  (1) The standard library (x509 / elliptic / rsa marshal–parse pairs, `Precompute`,
  `ScalarBaseMult`) is a parameter: its laws (Go ≥ 1.24) are the fields of `structure Crypto`, i.e. hypotheses of
  the theorems, never axioms; `Toy.crypto` shows that they are satisfiable.  (2) In sections 4-5 `transport` is the
  VALUE-LEVEL transport: every big integer and byte string of the key material goes through the writer and
  the reader of the chosen encoding.  For the binary encoding the structure-level transport (order / tagging /
  optionality of the fields of KeyBlock, KeyValue, KeyMaterial, the slot chosen by the key format) is composed
  with C01 in section 6; for XML and JSON it is checked on the real code only (engine `key`).
-/
import KmipModel.Lemmas.KeyAccessLemmas
import KmipModel.Lemmas.KeyWire
import KmipModel.Props.C03
import KmipModel.Props.C01
namespace Kmip.C14
open Kmip Kmip.Key Kmip.Key.Wire

/-! ## 1. Accessor totality -/

/-- the full statement: no accessor panics, for every standard library satisfying the laws. -/
def C14_accessor_total_full : Prop :=
  ∀ (C : Crypto) (a : Accessor) (r : GetResp), ∀ msg, run C.toCryptoOps a r ≠ .panic msg

/-- 1. no accessor panics: every accessor, every response payload (object type code and object
    independent, object possibly nil), every key block content.  The only standard library function of
    the accessors that is not total is `x509.MarshalPKCS8PrivateKey`; the laws say where it does not
    panic (RSA keys, keys returned by the parsers, an ecdsa key built from a scalar in `[1, n-1]`), and
    the range check of `PrivateKey.ECDSA` makes these the only keys `Pkcs8Pem` can hand it. -/
theorem accessor_total (C : Crypto) (a : Accessor) (r : GetResp) :
    ∀ msg, run C.toCryptoOps a r ≠ .panic msg :=
  run_noPanic C a r

theorem accessor_total_full : C14_accessor_total_full := accessor_total

/-- 1'. without any law about the standard library: every accessor except the PKCS#8 PEM helpers. -/
theorem accessor_total_except_pem (C : CryptoOps) (a : Accessor) (r : GetResp)
    (ha : a ≠ .privPem ∧ a ≠ .getPemPriv) : ∀ msg, run C a r ≠ .panic msg :=
  run_noPanic_ops C a ha r

/-- 1''. and the PEM helper can panic only inside `MarshalPKCS8PrivateKey`, on the key the accessor built:
    there is no panic in the library's own code. -/
theorem pem_panics_only_in_stdlib (C : CryptoOps) (kb : KeyBlockV) (m : String) :
    privPkcs8Pem C kb = .panic m ↔ ∃ k, privCrypto C kb = .ok k ∧ C.marshalPKCS8 k = .panic m :=
  privPkcs8Pem_panic_iff C kb m

/-- a decodable object: a transparent EC private key whose scalar `D` does not fit the byte size of the
    curve order (here 2^256 on P-256). -/
def oversizedScalar : KeyBlockV :=
  { format := fTransparentECPrivateKey,
    keyValue := some { plain := some { material := { ecPriv := some { curve := 7, d := 2 ^ 256 } } } } }

/-- 2a. before e2e4a08 `PrivateKey.ECDSA` accepted any `D` and `Pkcs8Pem` panicked inside
    `x509.MarshalPKCS8PrivateKey` (`D.FillBytes`; the toy library reproduces that behaviour of the real
    one); HEAD answers with an error on the same object. -/
theorem old_pem_can_panic :
    (∃ m, privPkcs8PemNoRange Toy.ops oversizedScalar = .panic m) ∧
    (∃ e, privPkcs8Pem Toy.ops oversizedScalar = .err e) ∧
    (∃ e, privECDSA Toy.ops oversizedScalar = .err e) :=
  ⟨⟨_, rfl⟩, ⟨_, rfl⟩, ⟨_, rfl⟩⟩

/-- 1a. the key block accessors, for every key block. -/
theorem keyblock_accessors_total (kb : KeyBlockV) :
    (getMaterial kb).NoPanic ∧ (getBytes kb).NoPanic ∧ (getAttributes kb).NoPanic :=
  ⟨getMaterial_noPanic kb, getBytes_noPanic kb, getAttributes_noPanic kb⟩

/-- 1b. the object accessors, for every key block and every standard library (the last one under the laws). -/
theorem object_accessors_total (C : Crypto) (kb : KeyBlockV) :
    (secretData kb).NoPanic ∧ (symKeyMaterial kb).NoPanic ∧
    (pubRSA C.toCryptoOps kb).NoPanic ∧ (pubECDSA C.toCryptoOps kb).NoPanic ∧
    (pubCrypto C.toCryptoOps kb).NoPanic ∧ (pubPkixPem C.toCryptoOps kb).NoPanic ∧
    (privRSA C.toCryptoOps kb).NoPanic ∧ (privECDSA C.toCryptoOps kb).NoPanic ∧
    (privCrypto C.toCryptoOps kb).NoPanic ∧ (privPkcs8Pem C.toCryptoOps kb).NoPanic :=
  ⟨secretData_noPanic kb, symKeyMaterial_noPanic kb, pubRSA_noPanic _ kb, pubECDSA_noPanic _ kb,
    pubCrypto_noPanic _ kb, pubPkixPem_noPanic _ kb, privRSA_noPanic _ kb, privECDSA_noPanic _ kb,
    privCrypto_noPanic _ kb, privPkcs8Pem_noPanic C kb⟩

/-- 1c. a metadata-only object (no KeyValue) and a wrapped one give errors. -/
theorem missing_material_is_error (C : CryptoOps) (f c : Nat) (w : Bytes) :
    (∃ e, getMaterial { format := f, comp := c } = .err e) ∧
    (∃ e, getMaterial { format := f, comp := c, keyValue := some { wrapped := some w } } = .err e) ∧
    (∃ e, privRSA C { format := fTransparentRSAPrivateKey, comp := c } = .err e) ∧
    (∃ e, privECDSA C { format := fTransparentECPrivateKey, comp := c,
                        keyValue := some { plain := some { material := {} } } } = .err e) :=
  ⟨⟨_, rfl⟩, ⟨_, rfl⟩, ⟨_, rfl⟩, ⟨_, rfl⟩⟩

/-- a metadata-only key block (what a server returns when the key value is withheld). -/
def metadataOnly (format : Nat) : KeyBlockV := { format := format }
/-- a transparent EC key block whose KeyMaterial structure is empty. -/
def emptyMaterial (format : Nat) : KeyBlockV :=
  { format := format, keyValue := some { plain := some { material := {} } } }

/-- 2. the accessors as they were before 414a481 panic on decodable objects — and HEAD answers `err`
    on the same ones. -/
theorem old_accessors_can_panic (C : CryptoOps) :
    (∃ m, getMaterialOld (metadataOnly fRaw) = .panic m) ∧
    (∃ m, getAttributesOld (metadataOnly fRaw) = .panic m) ∧
    (∃ m, pubECDSAOld C (emptyMaterial fTransparentECPublicKey) = .panic m) ∧
    (∃ m, privECDSAOld C (emptyMaterial fTransparentECDSAPrivateKey) = .panic m) ∧
    (∃ m, privECDSAOld C (metadataOnly fTransparentECPrivateKey) = .panic m) ∧
    (∃ e, getMaterial (metadataOnly fRaw) = .err e) ∧
    getAttributes (metadataOnly fRaw) = .ok 0 ∧
    (∃ e, pubECDSA C (emptyMaterial fTransparentECPublicKey) = .err e) ∧
    (∃ e, privECDSA C (emptyMaterial fTransparentECDSAPrivateKey) = .err e) :=
  ⟨⟨_, rfl⟩, ⟨_, rfl⟩, ⟨_, rfl⟩, ⟨_, rfl⟩, ⟨_, rfl⟩, ⟨_, rfl⟩, rfl, ⟨_, rfl⟩, ⟨_, rfl⟩⟩

/-- 2'. in terms of the uniform runner: the old code has a panicking (accessor, payload) pair. -/
theorem old_run_can_panic (C : CryptoOps) :
    ∃ a r m, runOld C a r = .panic m ∧ ∀ msg, run C a r ≠ .panic msg :=
  ⟨.kbMaterial, respOf (.privateKey (metadataOnly fPKCS1)), _, rfl,
    accessor_total_except_pem C _ _ (by decide)⟩

/-! ## 2. Big integers and byte strings in the three encodings -/

/-- 3. for every padding, `bigIntToBytes(v, padding)` with its left padding is a two's complement
    encoding of `v` (padding 8: binary and JSON; padding 1: XML). -/
theorem bigBytes_twos (v : Int) (padding : Nat) : twos (bigBytes v padding) = v ∧ bigBytes v padding ≠ [] :=
  ⟨twos_bigBytes v padding, bigBytes_ne_nil v padding⟩

/-- 4. binary: every integer (C03). -/
theorem ttlv_big_roundtrip (v : Int) : ttlvBigRead (encodeBig v) = .ok v :=
  ttlvBigRead_encodeBig v

/-- 5. XML: every integer. -/
theorem xml_big_roundtrip (v : Int) : xmlBigRead (xmlBigWrite v) = .ok v :=
  xmlBig_roundtrip v

/-- 6. JSON: every integer — the number form strictly inside ±2^52, the `0x` form outside. -/
theorem json_big_roundtrip (v : Int) : jsonBigRead (jsonBigWrite v) = .ok v :=
  jsonBig_roundtrip v

/-- 6a. which form is written. -/
theorem json_big_form (v : Int) :
    (-4503599627370496 < v ∧ v < 4503599627370496 → jsonBigWrite v = .num (decText v)) ∧
    (v ≤ -4503599627370496 ∨ 4503599627370496 ≤ v →
      jsonBigWrite v = .str (48 :: 120 :: hexLower (encodeBig v))) := by
  unfold jsonBigWrite maxJsonInt
  constructor
  · intro h
    rw [if_neg (by omega)]
  · intro h
    rw [if_pos (by omega)]
    rfl

/-- both sides of the boundary. -/
example : jsonBigWrite 4503599627370495 = .num (decText 4503599627370495) := (json_big_form _).1 (by decide)
example : jsonBigWrite 4503599627370496 = .str (48 :: 120 :: hexLower (encodeBig 4503599627370496)) :=
  (json_big_form _).2 (by decide)
example : jsonBigWrite (-4503599627370496) = .str (48 :: 120 :: hexLower (encodeBig (-4503599627370496))) :=
  (json_big_form _).2 (by decide)

/-- leading 0x00 / 0x80 patterns in XML: `128 ↦ "0080"`, `-128 ↦ "80"`, `0 ↦ "00"`. -/
example : xmlBigWrite 128 = [48, 48, 56, 48] := by
  rw [xmlBigWrite, bigBytes_pos _ _ (by decide)]
  simp [posPadG, effPad, natToBytesBE, padForLen, hexUpper, nibUp]
example : xmlBigWrite (-128) = [56, 48] := by
  have e : (~~~(128 : UInt8) + 1) = 128 := by decide
  rw [xmlBigWrite, bigBytes_neg _ _ (by decide)]
  simp [negPadG, negBody, effPad, natToBytesBE, negEncLE, padForLen, hexUpper, nibUp, e]
example : xmlBigWrite 0 = [48, 48] := by
  rw [xmlBigWrite, bigBytes_zero]; decide

/-- 7. one statement for the three encodings. -/
theorem big_transport (enc : Enc) (v : Int) : bigTransport enc v = .ok v :=
  bigTransport_ok enc v

/-- 8. byte strings: upper-case (XML, JSON byte strings) and lower-case (JSON big integers) hex are
    read back by `hex.DecodeString`, for every byte list. -/
theorem hex_roundtrip (bs : Bytes) : hexDecode (hexUpper bs) = some bs ∧ hexDecode (hexLower bs) = some bs :=
  ⟨hexDecode_hexUpper bs, hexDecode_hexLower bs⟩

theorem bytes_transport (enc : Enc) (bs : Bytes) : bytesTransport enc bs = .ok bs :=
  bytesTransport_ok enc bs

/-- 9. hence the value-level transport is the identity on every object, whatever it contains
    (including non-minimal material: any integer, any byte string, any missing part). -/
theorem transport_id (enc : Enc) (o : Obj) : transportObj enc o = .ok o :=
  transportObj_ok enc o

/-! ## 3. Format selectors and the version switch -/

/-- 10. every format selector returns a format that exists for its kind of key, for every bit mask:
    the `panic("Unexpected key format")` of the builders is unreachable. -/
theorem selectors_total (kf : Nat) :
    (rsaPrivFormat kf = kfPKCS1 ∨ rsaPrivFormat kf = kfPKCS8 ∨ rsaPrivFormat kf = kfTransparent) ∧
    (rsaPubFormat kf = kfPKCS1 ∨ rsaPubFormat kf = kfX509 ∨ rsaPubFormat kf = kfTransparent) ∧
    (ecdsaPrivFormat kf = kfSEC1 ∨ ecdsaPrivFormat kf = kfPKCS8 ∨ ecdsaPrivFormat kf = kfTransparent) ∧
    (ecdsaPubFormat kf = kfX509 ∨ ecdsaPubFormat kf = kfTransparent) ∧
    (symmetricFormat kf = kfRAW ∨ symmetricFormat kf = kfTransparent) :=
  ⟨rsaPrivFormat_mem kf, rsaPubFormat_mem kf, ecdsaPrivFormat_mem kf, ecdsaPubFormat_mem kf,
    symmetricFormat_mem kf⟩

/-- 10a. a single requested format that exists for the kind is honoured; no request = the default. -/
theorem selectors_honour_request :
    rsaPrivFormat 0 = kfPKCS1 ∧ rsaPrivFormat kfPKCS1 = kfPKCS1 ∧ rsaPrivFormat kfPKCS8 = kfPKCS8 ∧
      rsaPrivFormat kfTransparent = kfTransparent ∧
    rsaPubFormat 0 = kfPKCS1 ∧ rsaPubFormat kfPKCS1 = kfPKCS1 ∧ rsaPubFormat kfX509 = kfX509 ∧
      rsaPubFormat kfTransparent = kfTransparent ∧
    ecdsaPrivFormat 0 = kfSEC1 ∧ ecdsaPrivFormat kfSEC1 = kfSEC1 ∧ ecdsaPrivFormat kfPKCS8 = kfPKCS8 ∧
      ecdsaPrivFormat kfTransparent = kfTransparent ∧
    ecdsaPubFormat 0 = kfX509 ∧ ecdsaPubFormat kfX509 = kfX509 ∧ ecdsaPubFormat kfTransparent = kfTransparent ∧
    symmetricFormat 0 = kfRAW ∧ symmetricFormat kfRAW = kfRAW ∧ symmetricFormat kfTransparent = kfTransparent := by
  decide

/-- 10b. whatever priority a selector gives to several requested formats is irrelevant to C14: the theorems
    of section 4 hold for every `admissible` choice — a requested format that exists for the kind of key, the
    documented default of the kind when none is requested — and the selector of HEAD is admissible for every mask. -/
theorem selectors_admissible (k : KeyKind) (kf : Nat) : admissible k kf (selectFormat k kf) = true :=
  selectFormat_admissible k kf

/-- what `admissible` says on a few masks: a single requested format is the only choice; a format that does
    not exist for the kind is ignored; nothing requested = the default; two requested = either. -/
example : admissible .rsaPriv kfPKCS8 kfPKCS8 = true ∧ admissible .rsaPriv kfPKCS8 kfPKCS1 = false ∧
    admissible .rsaPriv kfSEC1 kfPKCS1 = true ∧ admissible .rsaPriv kfSEC1 kfTransparent = false ∧
    admissible .ecPub 0 kfX509 = true ∧ admissible .ecPub 0 kfTransparent = false ∧
    admissible .ecPriv (kfPKCS8 ||| kfTransparent) kfPKCS8 = true ∧
    admissible .ecPriv (kfPKCS8 ||| kfTransparent) kfTransparent = true ∧
    admissible .ecPriv (kfPKCS8 ||| kfTransparent) kfSEC1 = false := by decide

/-- 10c. the register builders never panic in their own code, in any format of the kind of key: a panic is
    one of `x509.MarshalPKCS1PrivateKey` / `x509.MarshalPKCS8PrivateKey` on the caller's OWN key (no law about
    the standard library is used). -/
theorem register_panic_only (C : CryptoOps) (f : Nat) (ver : Nat × Nat) (key : AnyKey C)
    (hf : f ∈ key.kind.formats) (m : String) (h : registerF C f ver key = .panic m) : StdlibPanicOn C key m :=
  registerF_panic_only C f ver key hf m h

/-- 10d. an RSA private key that has not exactly two primes is refused in the transparent format (d693174). -/
theorem rsa_multiprime_refused (C : CryptoOps) (kf : Nat) (k : C.RsaPriv)
    (hlen : bitLen (C.rsaPrivParts k).n ≤ maxInt32) (hf : rsaPrivFormat kf = kfTransparent)
    (hp : (C.rsaPrivParts k).primes.length ≠ 2) : ∃ e, registerRsaPriv C kf k = .err e :=
  registerRsaPriv_refuses C kf k hlen hf hp

/-- 11. the version switch: `TransparentEC*` from 1.3 on, `TransparentECDSA*` before. -/
theorem version_switch (major minor : Nat) :
    verGE13 (major, minor) = true ↔ (1 < major ∨ (major = 1 ∧ 3 ≤ minor)) := by
  unfold verGE13
  by_cases h : major = 1
  · subst h; simp
  · simp [h]

example : verGE13 (1, 0) = false ∧ verGE13 (1, 1) = false ∧ verGE13 (1, 2) = false ∧
    verGE13 (1, 3) = true ∧ verGE13 (1, 4) = true ∧ verGE13 (2, 0) = true := by decide

/-- 11a. the transparent EC private key the client builds, as a function of the version. -/
theorem ec_priv_transparent_repr (C : CryptoOps) (kf : Nat) (ver : Nat × Nat) (k : C.EcPriv)
    (hc : curveSupported (C.ecPrivCurve k) = true) (hf : ecdsaPrivFormat kf = kfTransparent) :
    registerEcPriv C kf ver k = .ok (.privateKey
      (if verGE13 ver then
        plainKB fTransparentECPrivateKey 0 algECDSA (curveBitlen (C.ecPrivCurve k))
          { ecPriv := some { curve := C.ecPrivCurve k, d := C.ecPrivD k } }
      else
        plainKB fTransparentECDSAPrivateKey 0 algECDSA (curveBitlen (C.ecPrivCurve k))
          { ecdsaPriv := some { curve := C.ecPrivCurve k, d := C.ecPrivD k } })) := by
  unfold registerEcPriv registerEcPrivF
  simp only [hc, hf]
  cases verGE13 ver <;> simp [kfTransparent, kfSEC1, kfPKCS8]

/-- 11b. the transparent EC public key: uncompressed point, compression type 1. -/
theorem ec_pub_transparent_repr (C : CryptoOps) (kf : Nat) (ver : Nat × Nat) (k : C.EcPub)
    (hc : curveSupported (C.ecPubCurve k) = true) (hf : ecdsaPubFormat kf = kfTransparent) :
    registerEcPub C kf ver k = .ok (.publicKey
      (if verGE13 ver then
        plainKB fTransparentECPublicKey 1 algECDSA (curveBitlen (C.ecPubCurve k))
          { ecPub := some { curve := C.ecPubCurve k, q := C.ecMarshal k } }
      else
        plainKB fTransparentECDSAPublicKey 1 algECDSA (curveBitlen (C.ecPubCurve k))
          { ecdsaPub := some { curve := C.ecPubCurve k, q := C.ecMarshal k } })) := by
  unfold registerEcPub registerEcPubF
  simp only [hc, hf]
  cases verGE13 ver <;> simp [kfTransparent, kfX509]

/-! ## 4. Register, transport, extract

`Valid key` (Lemmas): what the standard library itself calls a key — an RSA private key passes `Validate`, an RSA
public key is one the x509 parsers accept, the scalar of an ECDSA private key is in `[1, n-1]`.
`AcceptableF f key`: the three reasons for which a builder may refuse a valid key (a length that does not fit an
int32; a curve other than the four NIST ones; more than two primes in the transparent format).
`StdlibPanicOn C key m`: `MarshalPKCS1PrivateKey` / `MarshalPKCS8PrivateKey` applied to THIS key panicked. -/

/-- 12. extraction from the registered object gives back the key: every kind, every format of the kind,
    every version. -/
theorem extract_register (C : Crypto) (f : Nat) (ver : Nat × Nat) (key : AnyKey C.toCryptoOps)
    (hv : Valid key) (o : Obj) (h : registerF C.toCryptoOps f ver key = .ok o) :
    extract C.toCryptoOps key (respOf o) = .ok key.content := by
  cases key with
  | rsaPriv k => simp [extract, AnyKey.content, rsaPriv_extractF C f k o hv h]
  | rsaPub k => simp [extract, AnyKey.content, rsaPub_extractF C f k o hv h]
  | ecPriv k => simp [extract, AnyKey.content, ecPriv_extractF C f ver k o hv h]
  | ecPub k => simp [extract, AnyKey.content, ecPub_extractF C f ver k o h]
  | sym alg v => simp [extract, AnyKey.content, sym_extractF f alg v o h]
  | secret kind v => simp [extract, AnyKey.content, secret_extract kind v o h]

/-- 13. C14, soundness half: for every valid key of each kind, every format, every version, each of the
    three encodings: whenever the builder accepts the key, the key extracted from the transported object is
    the original. -/
theorem key_roundtripF (C : Crypto) (f : Nat) (ver : Nat × Nat) (enc : Enc) (key : AnyKey C.toCryptoOps)
    (hv : Valid key) (o : Obj) (h : registerF C.toCryptoOps f ver key = .ok o) :
    roundtripF C.toCryptoOps f ver enc key = .ok key.content := by
  unfold roundtripF
  rw [h]
  simp only [transportObj_ok]
  exact extract_register C f ver key hv o h

/-- the same through the selector of HEAD applied to a format mask. -/
theorem key_roundtrip (C : Crypto) (kf : Nat) (ver : Nat × Nat) (enc : Enc) (key : AnyKey C.toCryptoOps)
    (hv : Valid key) (o : Obj) (h : register C.toCryptoOps kf ver key = .ok o) :
    roundtrip C.toCryptoOps kf ver enc key = .ok key.content :=
  key_roundtripF C _ ver enc key hv o h

/-- 13a. C14, ACCEPTANCE half: a valid key is registered in every format of its kind unless one of the three
    reasons of `AcceptableF` applies.  (A model — or a library — whose builders refused P-521, or every RSA
    public key, does not satisfy this.) -/
theorem register_accepts (C : Crypto) (f : Nat) (ver : Nat × Nat) (key : AnyKey C.toCryptoOps)
    (hf : f ∈ key.kind.formats) (hv : Valid key) (ha : AcceptableF f key) :
    ∃ o, registerF C.toCryptoOps f ver key = .ok o :=
  registerF_accepts C f ver key hf hv ha

/-- 13b. C14: for EVERY selector that makes an admissible choice (whatever its priorities), every format mask,
    version and encoding, every valid key that is not refused for one of the three reasons comes back equal. -/
theorem key_roundtrip_any_selector (C : Crypto) (sel : KeyKind → Nat → Nat)
    (hsel : ∀ k kf, admissible k kf (sel k kf) = true)
    (kf : Nat) (ver : Nat × Nat) (enc : Enc) (key : AnyKey C.toCryptoOps)
    (hv : Valid key) (ha : AcceptableF (sel key.kind kf) key) :
    roundtripF C.toCryptoOps (sel key.kind kf) ver enc key = .ok key.content := by
  obtain ⟨o, ho⟩ := registerF_accepts C _ ver key (admissible_mem _ kf _ (hsel key.kind kf)) hv ha
  exact key_roundtripF C _ ver enc key hv o ho

/-- 13c. with the selector of HEAD. -/
theorem key_roundtrip_accepted (C : Crypto) (kf : Nat) (ver : Nat × Nat) (enc : Enc)
    (key : AnyKey C.toCryptoOps) (hv : Valid key) (ha : AcceptableF (selectFormat key.kind kf) key) :
    roundtrip C.toCryptoOps kf ver enc key = .ok key.content :=
  key_roundtrip_any_selector C selectFormat selectFormat_admissible kf ver enc key hv ha

/-- 13d. the builders and a valid key: never a panic. -/
theorem valid_key_never_panics (C : Crypto) (f : Nat) (ver : Nat × Nat) (key : AnyKey C.toCryptoOps)
    (hf : f ∈ key.kind.formats) (hv : Valid key) (m : String) : registerF C.toCryptoOps f ver key ≠ .panic m :=
  fun h => valid_no_stdlib_panic C key hv m (registerF_panic_only _ f ver key hf m h)

/-- 13e. C14 in one statement, for a valid key: the round trip gives the key, or the builder refused it with
    an error AND one of the three reasons applies — never another key, never a panic, never a refusal without
    a reason. -/
theorem key_roundtrip_or_refused (C : Crypto) (kf : Nat) (ver : Nat × Nat) (enc : Enc)
    (key : AnyKey C.toCryptoOps) (hv : Valid key) :
    roundtrip C.toCryptoOps kf ver enc key = .ok key.content ∨
    (¬ AcceptableF (selectFormat key.kind kf) key ∧
      ∃ e, register C.toCryptoOps kf ver key = .err e ∧ roundtrip C.toCryptoOps kf ver enc key = .err e) := by
  cases h : register C.toCryptoOps kf ver key with
  | ok o => exact Or.inl (key_roundtrip C kf ver enc key hv o h)
  | panic m => exact absurd h (valid_key_never_panics C _ ver key (selectFormat_mem _ kf) hv m)
  | err e =>
    refine Or.inr ⟨fun ha => ?_, e, rfl, ?_⟩
    · obtain ⟨o, ho⟩ := registerF_accepts C _ ver key (selectFormat_mem _ kf) hv ha
      have h' : registerF C.toCryptoOps (selectFormat key.kind kf) ver key = .err e := h
      rw [ho] at h'
      cases h'
    · have h' : registerF C.toCryptoOps (selectFormat key.kind kf) ver key = .err e := h
      simp [roundtrip, roundtripF, h']

/-- 13f. and for ANY key (valid or not) the builder returns an object, an error, or — only for a key that is
    not valid — the standard library panicked while marshalling that very key. -/
theorem register_outcomes (C : Crypto) (f : Nat) (ver : Nat × Nat) (key : AnyKey C.toCryptoOps)
    (hf : f ∈ key.kind.formats) :
    (∃ o, registerF C.toCryptoOps f ver key = .ok o) ∨ (∃ e, registerF C.toCryptoOps f ver key = .err e) ∨
    (¬ Valid key ∧ ∃ m, registerF C.toCryptoOps f ver key = .panic m ∧ StdlibPanicOn C.toCryptoOps key m) := by
  cases h : registerF C.toCryptoOps f ver key with
  | ok o => exact Or.inl ⟨o, rfl⟩
  | err e => exact Or.inr (Or.inl ⟨e, rfl⟩)
  | panic m =>
    have hp := registerF_panic_only _ f ver key hf m h
    exact Or.inr (Or.inr ⟨fun hv => valid_no_stdlib_panic C key hv m hp, m, rfl, hp⟩)

/-- 13g. the escape clause is not empty, and it is about the key handed in: an `rsa.PrivateKey` with a single
    prime (`Validate` rejects it) makes the builder panic in the default format (`x509.MarshalPKCS1PrivateKey`
    indexes `Primes[1]`), is an error in the PKCS#8 format (Go ≥ 1.24 validates first) and in the transparent one. -/
def onePrime : Toy.RsaPriv := { n := 35, d := 5, primes := [35] }

theorem invalid_rsa_key_can_panic :
    ¬ Valid (C := Toy.ops) (.rsaPriv onePrime) ∧
    (∃ m, registerF Toy.ops kfPKCS1 (1, 4) (.rsaPriv onePrime) = .panic m) ∧
    (∃ e, registerF Toy.ops kfPKCS8 (1, 4) (.rsaPriv onePrime) = .err e) ∧
    (∃ e, registerF Toy.ops kfTransparent (1, 4) (.rsaPriv onePrime) = .err e) :=
  ⟨by show ¬ (Toy.rsaValidate onePrime = true); decide, ⟨_, rfl⟩, ⟨_, rfl⟩, ⟨_, rfl⟩⟩

/-- 13h. an ECDSA private key whose scalar is not in `[1, n-1]`, registered in the transparent format, is
    refused by the accessor (e2e4a08) — not returned as another key. -/
theorem ec_invalid_scalar_refused (C : Crypto) (ver : Nat × Nat) (enc : Enc) (k : C.EcPriv)
    (hr : ¬ C.toCryptoOps.ScalarIn k) :
    ∃ e, roundtripF C.toCryptoOps kfTransparent ver enc (.ecPriv k) = .err e := by
  cases h : registerF C.toCryptoOps kfTransparent ver (.ecPriv k) with
  | err e => exact ⟨e, by simp [roundtripF, h]⟩
  | panic m =>
    exact absurd (registerF_panic_only _ kfTransparent ver (.ecPriv k) (by simp [AnyKey.kind, KeyKind.formats]) m h) (by
      intro hp
      simp only [registerF, registerEcPrivF, kfTransparent, kfSEC1, kfPKCS8] at h
      split at h
      · cases h
      · simp only [show ¬ (1 : Nat) = 16 by decide, show ¬ (1 : Nat) = 4 by decide, if_false, if_true] at h
        split at h <;> cases h)
  | ok o =>
    have := ecPriv_extract_invalid C ver k o hr h
    exact ⟨.range, by simp [roundtripF, h, transportObj_ok, extract, this]⟩

/-- 13i. the transparent RSA public key format needs nothing of the standard library: ANY modulus and ANY Go `int`
    exponent (also 2^31 and more, which the x509 formats cannot carry) come back equal. -/
theorem rsa_pub_transparent_any_exponent (C : Crypto) (ver : Nat × Nat) (enc : Enc) (k : C.RsaPub)
    (hlen : bitLen (C.rsaPubN k) ≤ maxInt32) :
    roundtripF C.toCryptoOps kfTransparent ver enc (.rsaPub k) = .ok (.rsaPub k) := by
  have h1 : ¬ bitLen (C.rsaPubN k) > maxInt32 := by omega
  have hreg : ∃ o, registerRsaPubF C.toCryptoOps kfTransparent k = .ok o := by
    simp [registerRsaPubF, h1, kfPKCS1, kfX509, kfTransparent]
  obtain ⟨o, ho⟩ := hreg
  have hx := rsaPub_extract_transparent C k o ho
  simp [roundtripF, registerF, ho, transportObj_ok, extract, hx]

/-- 14. the dynamically typed accessors (`CryptoPrivateKey`, `CryptoPublicKey`, `GetResponsePayload.
    PrivateKey/PublicKey`) return the same key as the typed ones, on every key block. -/
theorem crypto_accessors_agree (C : CryptoOps) (kb : KeyBlockV) :
    (∀ k, privRSA C kb = .ok k → privCrypto C kb = .ok (.rsa k)) ∧
    (∀ k, privECDSA C kb = .ok k → privCrypto C kb = .ok (.ecdsa k)) ∧
    (∀ k, pubRSA C kb = .ok k → pubCrypto C kb = .ok (.rsa k)) ∧
    (∀ k, pubECDSA C kb = .ok k → pubCrypto C kb = .ok (.ecdsa k)) :=
  ⟨privCrypto_of_privRSA C kb, privCrypto_of_privECDSA C kb, pubCrypto_of_pubRSA C kb,
    pubCrypto_of_pubECDSA C kb⟩

/-- 15. before d693174, stated exactly: of a key with more than two primes the builder silently kept the
    first two (`key.Primes[0]`, `key.Primes[1]`); what came back was the key rebuilt from those two. -/
theorem old_rsa_multiprime_truncated (C : Crypto) (kf : Nat) (k : C.RsaPriv) (p q : Int) (rest : List Int)
    (hp : (C.rsaPrivParts k).primes = p :: q :: rest) (hlen : bitLen (C.rsaPrivParts k).n ≤ maxInt32)
    (hf : rsaPrivFormat kf = kfTransparent) :
    ∃ o, registerRsaPrivOld C.toCryptoOps kf k = .ok o ∧
      getRsaPrivateKey C.toCryptoOps (respOf o) =
        .ok (C.rsaPrivBuild { C.rsaPrivParts k with primes := [p, q] }) :=
  rsaPriv_transparent_truncates C kf k p q rest hp hlen hf

/-- 15a. and a key with fewer than two primes made the old builder panic on the index. -/
theorem old_register_can_panic (C : CryptoOps) (kf : Nat) (k : C.RsaPriv)
    (hlen : bitLen (C.rsaPrivParts k).n ≤ maxInt32) (hf : rsaPrivFormat kf = kfTransparent)
    (hp : (C.rsaPrivParts k).primes.length < 2) : ∃ m, registerRsaPrivOld C kf k = .panic m :=
  registerRsaPrivOld_panics C kf k hlen hf hp

/-! ## 5. Non-vacuity: the laws of `Crypto` are satisfiable and the hypotheses of the theorems hold -/

/-- the toy standard library satisfies every law; every valid two-prime toy RSA key (modulus below 2^(2^31))
    comes back equal, for every format mask, version and encoding. -/
example (kf : Nat) (ver : Nat × Nat) (enc : Enc) (k : Toy.RsaPriv) (hv : Toy.rsaValidate k = true)
    (h : bitLen k.n ≤ maxInt32) (h2 : k.primes.length = 2) :
    roundtrip Toy.crypto.toCryptoOps kf ver enc (.rsaPriv k) = .ok (.rsaPriv k) := by
  refine key_roundtrip_accepted Toy.crypto kf ver enc (.rsaPriv k) hv ⟨?_, fun _ => ?_⟩
  · show bitLen (k.n : Int) ≤ maxInt32
    exact h
  · show (k.primes.map Int.ofNat).length = 2
    simpa using h2

/-- a three-prime toy key: accepted and returned equal in PKCS#1 and PKCS#8, refused in the transparent format. -/
def threePrimes : Toy.RsaPriv := { n := 105, d := 5, primes := [3, 5, 7] }

example : roundtripF Toy.ops kfPKCS1 (1, 4) .xml (.rsaPriv threePrimes) = .ok (.rsaPriv threePrimes) ∧
    roundtripF Toy.ops kfPKCS8 (1, 0) .json (.rsaPriv threePrimes) = .ok (.rsaPriv threePrimes) ∧
    (∃ e, registerF Toy.ops kfTransparent (1, 4) (.rsaPriv threePrimes) = .err e) ∧
    Valid (C := Toy.ops) (.rsaPriv threePrimes) ∧ ¬ AcceptableF (C := Toy.ops) kfTransparent (.rsaPriv threePrimes) := by
  have hv : Valid (C := Toy.ops) (.rsaPriv threePrimes) := by
    show Toy.rsaValidate threePrimes = true
    decide
  refine ⟨key_roundtripF Toy.crypto _ _ _ _ hv _ rfl, key_roundtripF Toy.crypto _ _ _ _ hv _ rfl,
    ⟨_, rfl⟩, hv, ?_⟩
  intro h
  have := h.2 rfl
  revert this
  decide

/-- concrete instances, evaluated: an RSA key in the transparent format through JSON, an EC private key
    in the transparent format below and above 1.3, an EC public key through XML. -/
example : roundtrip Toy.crypto.toCryptoOps kfTransparent (1, 4) .json (.rsaPriv { n := 35, d := 5, primes := [5, 7] })
    = .ok (.rsaPriv { n := 35, d := 5, primes := [5, 7] }) :=
  key_roundtrip Toy.crypto _ _ _ _ (show Toy.rsaValidate { n := 35, d := 5, primes := [5, 7] } = true by decide) _ rfl

/-- a valid EC private key (scalar 9 on P-256) in the transparent format, through binary. -/
example : roundtrip Toy.crypto.toCryptoOps kfTransparent (1, 3) .ttlv (.ecPriv { crv := 1, d := 9 })
    = .ok (.ecPriv { crv := 1, d := 9 }) :=
  key_roundtrip Toy.crypto _ _ _ _ (show (0 : Int) < 9 ∧ (9 : Int) < Toy.curveOrder 7 by decide) _ rfl

example : ∃ t, register Toy.ops kfTransparent (1, 2) (.ecPriv { crv := 1, d := 9 }) =
    .ok (.privateKey (plainKB fTransparentECDSAPrivateKey 0 algECDSA 256 { ecdsaPriv := some t })) := ⟨_, rfl⟩
example : ∃ t, register Toy.ops kfTransparent (1, 3) (.ecPriv { crv := 1, d := 9 }) =
    .ok (.privateKey (plainKB fTransparentECPrivateKey 0 algECDSA 256 { ecPriv := some t })) := ⟨_, rfl⟩

example : roundtrip Toy.crypto.toCryptoOps kfTransparent (1, 0) .xml (.ecPub { crv := 3, x := 2, y := 3 })
    = .ok (.ecPub { crv := 3, x := 2, y := 3 }) :=
  key_roundtrip Toy.crypto _ _ _ _ trivial _ rfl

/-- every supported curve is accepted in every format of the kind (here: the toy P-521 key in SEC1). -/
example : ∃ o, registerF Toy.crypto.toCryptoOps kfSEC1 (1, 4) (.ecPriv { crv := 3, d := 9 }) = .ok o :=
  register_accepts Toy.crypto _ _ _ (by decide)
    (show (0 : Int) < 9 ∧ (9 : Int) < Toy.curveOrder 13 by decide) (show curveSupported 13 = true by decide)

/-! ## 6. Structure-level binary transport of a key object = the C01 round trip

`objVal o` is the Go object as a value of the generic typed codec of `Model/Plan.lean` over the regenerated schema
(field by field, in declaration order: `Lemmas/KeyWire.lean`); `valObj` reads a decoded value back.  Which TTLV
element each field becomes, the `KeyMaterial` slot chosen BY THE KEY FORMAT on decoding, `omitempty` of the
compression type, the order of P, Q, PrimeExponentP…, are then those of the codec proved in C01 — no longer "taken as
the identity".  `Conforms` (C01: executable well-formedness walk + representable lengths) stays a hypothesis; it is
discharged by kernel evaluation on the instances below, and its failure on an object whose material sits in the slot
of another format is shown too. -/

/-- the dynamic type under which the regenerated schema knows the object type. -/
def objDyn (o : Obj) : Nat := (Gen.schema.objectDyn o.typeCode).getD 0

/-- 16. an object whose image conforms to the schema: `ttlv.MarshalTTLV` succeeds, `ttlv.UnmarshalTTLV` of the
    bytes returns a value that reads back as the SAME object. -/
theorem object_wire_roundtrip (o : Obj) (hw : Wireable o) (v : Val) (hv : objVal o = some v)
    (hc : Conforms Gen.schema (objDyn o) 0 v) :
    ∃ bs v', marshal Gen.schema (objDyn o) 0 v = .ok bs ∧ unmarshal Gen.schema (objDyn o) 0 bs = .ok v' ∧
      valObj o.typeCode v' = some o := by
  obtain ⟨bs, hm, hu, _⟩ := C01.roundtrip Gen.schema C01.gen_unambiguous (objDyn o) 0 v hc
  exact ⟨bs, _, hm, hu, valObj_of_contentEq o hw v _ hv (C01.norm_content _ _ _ _)⟩

/-- 17. C14 through the binary codec: a valid key, registered in a format of its kind; the object encoded and
    decoded by the typed codec of C01; the accessors applied to what was decoded give the key. -/
theorem key_wire_roundtrip (C : Crypto) (f : Nat) (ver : Nat × Nat) (key : AnyKey C.toCryptoOps)
    (hvk : Valid key) (o : Obj) (h : registerF C.toCryptoOps f ver key = .ok o)
    (v : Val) (hv : objVal o = some v) (hc : Conforms Gen.schema (objDyn o) 0 v) :
    ∃ bs v' o', marshal Gen.schema (objDyn o) 0 v = .ok bs ∧ unmarshal Gen.schema (objDyn o) 0 bs = .ok v' ∧
      valObj o.typeCode v' = some o' ∧ extract C.toCryptoOps key (respOf o') = .ok key.content := by
  obtain ⟨bs, v', hm, hu, hr⟩ := object_wire_roundtrip o (registerF_wireable _ f ver key o h) v hv hc
  exact ⟨bs, v', o, hm, hu, hr, extract_register C f ver key hvk o h⟩

/-- every object a builder produces has an image (the builders produce the four key object types). -/
theorem registered_has_image (C : CryptoOps) (f : Nat) (ver : Nat × Nat) (key : AnyKey C) (o : Obj)
    (h : registerF C f ver key = .ok o) : ∃ v, objVal o = some v := by
  cases key with
  | rsaPriv k =>
    simp only [registerF, registerRsaPrivF, rawKeyBytes] at h
    repeat' split at h
    all_goals cases h <;> exact ⟨_, rfl⟩
  | rsaPub k =>
    simp only [registerF, registerRsaPubF, rawKeyBytes] at h
    repeat' split at h
    all_goals cases h <;> exact ⟨_, rfl⟩
  | ecPriv k =>
    simp only [registerF, registerEcPrivF, rawKeyBytes] at h
    repeat' split at h
    all_goals cases h <;> exact ⟨_, rfl⟩
  | ecPub k =>
    simp only [registerF, registerEcPubF, rawKeyBytes] at h
    repeat' split at h
    all_goals cases h <;> exact ⟨_, rfl⟩
  | sym alg v =>
    simp only [registerF, registerSymF] at h
    repeat' split at h
    all_goals cases h <;> exact ⟨_, rfl⟩
  | secret kind v =>
    simp only [registerF, registerSecret, Res.ok.injEq] at h
    subst h
    exact ⟨_, rfl⟩

/-! ### instances: `Conforms` holds on what the builders produce (kernel evaluation over `Gen.schema`)

(`conforms_of_checks_big`: the C01 checker with the lengths of big integers bounded through `Nat.log2`, since the
well-founded `natToBytesBE` does not reduce in the kernel.) -/

def imageOf (r : Res Obj) : Val :=
  match r with
  | .ok o => (objVal o).getD (.ptr none)
  | _ => .ptr none

/-- toy RSA private key, transparent format (P before Q, optional CRT values absent). -/
def exRsaT : Res Obj := registerF Toy.ops kfTransparent (1, 4) (.rsaPriv { n := 35, d := 5, primes := [5, 7] })
/-- EC private key, transparent, below 1.3: format 14, slot TransparentECDSAPrivateKey. -/
def exEc12 : Res Obj := registerF Toy.ops kfTransparent (1, 2) (.ecPriv { crv := 1, d := 9 })
/-- the same from 1.3 on: format 20, slot TransparentECPrivateKey. -/
def exEc13 : Res Obj := registerF Toy.ops kfTransparent (1, 3) (.ecPriv { crv := 1, d := 9 })
/-- EC public key, transparent: compression type 1 and a Q-string. -/
def exEcPub : Res Obj := registerF Toy.ops kfTransparent (1, 4) (.ecPub { crv := 3, x := 2, y := 3 })
/-- a DER blob (PKCS#8) in `KeyMaterial.Bytes`. -/
def exPkcs8 : Res Obj := registerF Toy.ops kfPKCS8 (1, 0) (.rsaPriv { n := 35, d := 5, primes := [5, 7] })
def exSymT : Res Obj := registerF Toy.ops kfTransparent (1, 4) (.sym 3 [0, 0x80, 0xFF, 1])
def exSecret : Res Obj := registerF Toy.ops kfRAW (1, 4) (.secret 1 [0x70, 0x77])

set_option maxRecDepth 100000 in
theorem exRsaT_conforms : Conforms Gen.schema 61 0 (imageOf exRsaT) :=
  conforms_of_checks_big _ _ _ _ (by decide +kernel) (by decide +kernel)
set_option maxRecDepth 100000 in
theorem exEc12_conforms : Conforms Gen.schema 61 0 (imageOf exEc12) :=
  conforms_of_checks_big _ _ _ _ (by decide +kernel) (by decide +kernel)
set_option maxRecDepth 100000 in
theorem exEc13_conforms : Conforms Gen.schema 61 0 (imageOf exEc13) :=
  conforms_of_checks_big _ _ _ _ (by decide +kernel) (by decide +kernel)
set_option maxRecDepth 100000 in
theorem exEcPub_conforms : Conforms Gen.schema 60 0 (imageOf exEcPub) :=
  conforms_of_checks _ _ _ _ (by decide +kernel) (by decide +kernel)
set_option maxRecDepth 100000 in
theorem exPkcs8_conforms : Conforms Gen.schema 61 0 (imageOf exPkcs8) :=
  conforms_of_checks _ _ _ _ (by decide +kernel) (by decide +kernel)
set_option maxRecDepth 100000 in
theorem exSymT_conforms : Conforms Gen.schema 59 0 (imageOf exSymT) :=
  conforms_of_checks _ _ _ _ (by decide +kernel) (by decide +kernel)
set_option maxRecDepth 100000 in
theorem exSecret_conforms : Conforms Gen.schema 64 0 (imageOf exSecret) :=
  conforms_of_checks _ _ _ _ (by decide +kernel) (by decide +kernel)

/-- the composed statement on an instance: the toy RSA key in the transparent format through the binary codec. -/
example : ∃ bs v' o', marshal Gen.schema 61 0 (imageOf exRsaT) = .ok bs ∧ unmarshal Gen.schema 61 0 bs = .ok v' ∧
    valObj 4 v' = some o' ∧
    extract Toy.ops (.rsaPriv { n := 35, d := 5, primes := [5, 7] }) (respOf o') =
      .ok (.rsaPriv { n := 35, d := 5, primes := [5, 7] }) :=
  key_wire_roundtrip Toy.crypto kfTransparent (1, 4) (.rsaPriv { n := 35, d := 5, primes := [5, 7] })
    (show Toy.rsaValidate { n := 35, d := 5, primes := [5, 7] } = true by decide) _ rfl _ rfl exRsaT_conforms

/-- and the EC private key on each side of the 1.3 switch. -/
example : ∃ bs v' o', marshal Gen.schema 61 0 (imageOf exEc12) = .ok bs ∧ unmarshal Gen.schema 61 0 bs = .ok v' ∧
    valObj 4 v' = some o' ∧ extract Toy.ops (.ecPriv { crv := 1, d := 9 }) (respOf o') = .ok (.ecPriv { crv := 1, d := 9 }) :=
  key_wire_roundtrip Toy.crypto kfTransparent (1, 2) (.ecPriv { crv := 1, d := 9 })
    (show (0 : Int) < 9 ∧ (9 : Int) < Toy.curveOrder 7 by decide) _ rfl _ rfl exEc12_conforms
example : ∃ bs v' o', marshal Gen.schema 61 0 (imageOf exEc13) = .ok bs ∧ unmarshal Gen.schema 61 0 bs = .ok v' ∧
    valObj 4 v' = some o' ∧ extract Toy.ops (.ecPriv { crv := 1, d := 9 }) (respOf o') = .ok (.ecPriv { crv := 1, d := 9 }) :=
  key_wire_roundtrip Toy.crypto kfTransparent (1, 3) (.ecPriv { crv := 1, d := 9 })
    (show (0 : Int) < 9 ∧ (9 : Int) < Toy.curveOrder 7 by decide) _ rfl _ rfl exEc13_conforms

/-- `Conforms` is not a formality: a private key object that announces format 20 (TransparentECPrivateKey) but
    carries its material in the slot of format 14 (what a builder getting the 1.3 switch half wrong would produce)
    is NOT a well-formed value — the decoder, which chooses the slot by the format, could not return it. -/
def wrongSlot : Obj :=
  .privateKey (plainKB fTransparentECPrivateKey 0 algECDSA 256 { ecdsaPriv := some { curve := 7, d := 9 } })

set_option maxRecDepth 100000 in
example : (normTop Gen.schema 61 0 ((objVal wrongSlot).getD (.ptr none))).isSome = false := by decide +kernel

end Kmip.C14
