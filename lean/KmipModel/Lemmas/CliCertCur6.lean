/-
  Certificate obligations, parts 12..13 of 16 of the `current` client system (kernel evaluation; 8 modules
  so that lake checks them in parallel). Assembled in `Lemmas/CliCert.lean`.
-/
import KmipModel.Model.CliConn
import KmipModel.Gen.CertCliConn
namespace Kmip.CliCert
open Kmip.CliLts Kmip.CliConn Kmip.Gen.CertCliConn

theorem cuClosed12 : partClosed (sys current) codec certCurrent cuP12 = true := by decide +kernel
theorem cuSafe12 : partSafe codec (bad current) cuP12 = true := by decide +kernel
theorem cuClosed13 : partClosed (sys current) codec certCurrent cuP13 = true := by decide +kernel
theorem cuSafe13 : partSafe codec (bad current) cuP13 = true := by decide +kernel

end Kmip.CliCert
