package main

import (
	"encoding/json"
	"os"

	"verifharness/internal/schema"
)

func main() {
	s := schema.Build()
	e := json.NewEncoder(os.Stdout)
	e.SetIndent("", " ")
	e.Encode(s)
}
