/-
  Certificate obligations, parts 8..9 of 16 of the `current` client system (kernel evaluation; 8 modules
  so that lake checks them in parallel). Assembled in `Lemmas/CliCert.lean`.
-/
import KmipModel.Model.CliConn
import KmipModel.Gen.CertCliConn
namespace Kmip.CliCert
open Kmip.CliLts Kmip.CliConn Kmip.Gen.CertCliConn

theorem cuClosed8 : partClosed (sys current) codec certCurrent cuP8 = true := by decide +kernel
theorem cuSafe8 : partSafe codec (bad current) cuP8 = true := by decide +kernel
theorem cuClosed9 : partClosed (sys current) codec certCurrent cuP9 = true := by decide +kernel
theorem cuSafe9 : partSafe codec (bad current) cuP9 = true := by decide +kernel

end Kmip.CliCert
