package main

// Phase `loop` of the hostile engine (property C02): the two consumers that run the binary decoder on
// untrusted bytes WITHOUT recover — kmipserver's and kmipclient's connection read loops (Stream.Recv into
// their own target type, then a type switch on what was decoded). A panic there is not a recoverable error
// of one call but the end of the process, so the scenarios run in the hostile child process:
//
//   #loop srv <hex>   a real kmipserver on an in-memory listener; a client connection writes <hex> followed
//                     by a well-formed request and half-closes; the answers are drained; then a fresh
//                     connection must still be served.
//   #loop cli <hex>   a real kmipclient whose transport is a scripted peer: the peer reads the client's
//                     request, writes <hex> followed by a well-formed response; the call must return
//                     (with a response or an error) and the process must survive.
//
// Frames: well-formed messages of the WRONG direction (a response sent to a server, a request sent to a
// client), messages with another root tag or a non-structure root, structural mutations and truncations of
// both kinds of messages, populated messages of both kinds, the malformed corpus, random well-framed bytes.

import (
	"bytes"
	"context"
	"fmt"
	"net"
	"os"
	"reflect"
	"strings"
	"sync"
	"time"

	kmip "github.com/ovh/kmip-go"
	"github.com/ovh/kmip-go/kmipclient"
	"github.com/ovh/kmip-go/kmipserver"
	"github.com/ovh/kmip-go/payloads"
	"github.com/ovh/kmip-go/ttlv"
)

func loopValidRequest() []byte {
	return ttlv.MarshalTTLV(&kmip.RequestMessage{
		Header:    kmip.RequestHeader{ProtocolVersion: kmip.V1_4, BatchCount: 1},
		BatchItem: []kmip.RequestBatchItem{{Operation: kmip.OperationDiscoverVersions, RequestPayload: &payloads.DiscoverVersionsRequestPayload{}}},
	})
}

func loopValidResponse() []byte {
	return ttlv.MarshalTTLV(&kmip.ResponseMessage{
		Header: kmip.ResponseHeader{ProtocolVersion: kmip.V1_4, TimeStamp: httpFixedTime, BatchCount: 1},
		BatchItem: []kmip.ResponseBatchItem{{Operation: kmip.OperationDiscoverVersions, ResultStatus: kmip.ResultStatusSuccess,
			ResponsePayload: &payloads.DiscoverVersionsResponsePayload{ProtocolVersion: []kmip.ProtocolVersion{kmip.V1_4}}}},
	})
}

// ---- child side -------------------------------------------------------------------------------------------

var (
	loopSrvOnce sync.Once
	loopSrvL    *memListener
	loopConnID  int
)

func loopServer() *memListener {
	loopSrvOnce.Do(func() {
		loopSrvL = newMemListener()
		srv := kmipserver.NewServer(loopSrvL, kmipserver.NewBatchExecutor())
		go func() { _ = srv.Serve() }()
	})
	return loopSrvL
}

// within runs f with a limit; false = f did not end in time.
func within(limit time.Duration, f func()) bool {
	done := make(chan struct{})
	go func() { defer close(done); f() }()
	select {
	case <-done:
		return true
	case <-time.After(limit):
		return false
	}
}

// loopSrv: the bytes are written on a new connection, which is then half-closed; the answers are drained until
// the server closes its end. The pipe is unbuffered and the read loop is sequential: when the server closes
// after the end of the stream it has finished working on everything written before. Then a fresh connection
// must get an answer to a well-formed request.
func loopSrv(frame []byte) string {
	l := loopServer()
	loopConnID++
	c, err := l.dial(loopConnID, 10*time.Second)
	if err != nil {
		return "dead"
	}
	n := 0
	ok := within(20*time.Second, func() {
		go func() {
			_, _ = c.Write(frame)
			_ = c.CloseWrite()
		}()
		st := ttlv.NewStream(c, 1<<21)
		for {
			var v ttlv.Value
			if err := st.Recv(&v); err != nil {
				return
			}
			n++
		}
	})
	_ = c.Close()
	if !ok {
		return "hang"
	}
	loopConnID++
	c2, err := l.dial(loopConnID, 10*time.Second)
	if err != nil {
		return "dead"
	}
	defer c2.Close()
	alive := false
	if !within(20*time.Second, func() {
		go func() { _, _ = c2.Write(loopValidRequest()) }()
		st := ttlv.NewStream(c2, 1<<21)
		var v kmip.ResponseMessage
		alive = st.Recv(&v) == nil
	}) || !alive {
		return "dead"
	}
	return fmt.Sprintf("ok responses=%d", n)
}

func loopCli(frame []byte) string {
	var mu sync.Mutex
	dials := 0
	dialer := func(ctx context.Context) (net.Conn, error) {
		mu.Lock()
		dials++
		id, hostile := dials, dials == 1
		mu.Unlock()
		c, s := memPair(id)
		go func() {
			defer s.Close()
			st := ttlv.NewStream(s, 1<<21)
			for {
				var req ttlv.Value
				if err := st.Recv(&req); err != nil {
					return
				}
				if hostile {
					// the hostile bytes, a well-formed response, then the end of the stream (a client left in the
					// middle of a frame must not wait for ever); the unbuffered pipe makes each Write return when
					// the client's read loop has taken the bytes
					_, _ = s.Write(frame)
					if whole, _ := loopWalk(frame); whole {
						_, _ = s.Write(loopValidResponse())
					}
					return
				}
				if _, err := s.Write(loopValidResponse()); err != nil {
					return
				}
			}
		}()
		return c, nil
	}
	cl, err := kmipclient.Dial("pipe", kmipclient.WithDialerUnsafe(dialer), kmipclient.EnforceVersion(kmip.V1_4))
	if err != nil {
		return "ok dial-error"
	}
	defer cl.Close()
	out := "ok"
	for k := 0; k < 2; k++ {
		ctx, cancel := context.WithTimeout(context.Background(), 5*time.Second)
		_, err := cl.Request(ctx, &payloads.DiscoverVersionsRequestPayload{})
		cancel()
		if err != nil {
			out += " err"
		} else {
			out += " resp"
		}
	}
	return out
}

// loopChild answers one "loop <side> <hex>" request of the parent (nil = not a loop request).
func loopChild(req string) *string {
	f := strings.Fields(req)
	if len(f) != 3 || f[0] != "loop" {
		return nil
	}
	ans := "bad-spec"
	if b, err := hexDecode(f[2]); err == nil {
		switch f[1] {
		case "srv":
			ans = loopSrv(b)
		case "cli":
			ans = loopCli(b)
		}
	}
	return &ans
}

// loopWalk reads b as a sequence of frames the way a receiver does: whole = it ends at a frame boundary (a
// receiver is not left in the middle of a frame, nor out of step); announced = the largest length field met.
func loopWalk(b []byte) (whole bool, announced uint32) {
	off := 0
	for off+8 <= len(b) {
		l := uint32(b[off+4])<<24 | uint32(b[off+5])<<16 | uint32(b[off+6])<<8 | uint32(b[off+7])
		announced = max(announced, l)
		need := 8 + (uint64(l)+7)/8*8
		if uint64(off)+need > uint64(len(b)) {
			return false, announced
		}
		off += int(need)
	}
	return off == len(b), announced
}

// ---- parent side ------------------------------------------------------------------------------------------

type loopCase struct {
	side   string
	frame  []byte
	origin string
}

func (c loopCase) line() string { return "#loop " + c.side + " " + hexUp(c.frame) }

// framed: b made a complete frame (the header of its first item announces exactly what follows).
func loopFramed(tag int, ty byte, content []byte) []byte {
	pad := (8 - len(content)%8) % 8
	l := len(content)
	out := []byte{byte(tag >> 16), byte(tag >> 8), byte(tag), ty, byte(l >> 24), byte(l >> 16), byte(l >> 8), byte(l)}
	out = append(out, content...)
	return append(out, make([]byte, pad)...)
}

func loopFrames(ctx *Ctx) (out []struct {
	b      []byte
	origin string
}) {
	r := ctx.R
	add := func(origin string, b []byte) {
		out = append(out, struct {
			b      []byte
			origin string
		}{b, origin})
	}
	req, resp := loopValidRequest(), loopValidResponse()
	add("valid-request", req)
	add("valid-response", resp)
	// the other root tags / root types
	add("root-other-tag", loopFramed(kmip.TagBatchItem, 1, req[8:]))
	add("root-other-tag", loopFramed(kmip.TagRequestHeader, 1, nil))
	add("root-other-tag", loopFramed(0x540001, 1, resp[8:]))
	for _, tag := range []int{kmip.TagRequestMessage, kmip.TagResponseMessage} {
		add("root-empty", loopFramed(tag, 1, nil))
		add("root-not-structure", loopFramed(tag, 2, []byte{0, 0, 0, 1}))
		add("root-not-structure", loopFramed(tag, 7, []byte("RequestMessage")))
		add("root-not-structure", loopFramed(tag, 8, req))
		add("root-bad-type", loopFramed(tag, 0, nil))
		add("root-bad-type", loopFramed(tag, 11, req[8:]))
	}
	// a request under the response tag and the reverse
	add("root-swapped", loopFramed(kmip.TagResponseMessage, 1, req[8:]))
	add("root-swapped", loopFramed(kmip.TagRequestMessage, 1, resp[8:]))
	for _, b := range [][]byte{req, resp} {
		for k := 0; k < ctx.N(3, 12); k++ {
			for _, m := range mutate(r, b) {
				add("mutated", m)
			}
		}
	}
	// populated messages of both directions, and their mutations
	s := getSchema()
	for i := 0; i < ctx.N(16, 120); i++ {
		ty := reflect.TypeFor[kmip.RequestMessage]()
		if i%2 == 1 {
			ty = reflect.TypeFor[kmip.ResponseMessage]()
		}
		p := &popCfg{r: r, s: s, fill: i % 3, respectGating: true}
		x := reflect.New(ty)
		p.populate(x.Elem())
		b, pn := guard("MarshalTTLV", func() []byte { return ttlv.MarshalTTLV(x.Interface()) })
		if pn != "" || len(b) > 1<<19 {
			continue
		}
		add("populated", b)
		if i%4 < 2 {
			ms := mutate(r, b)
			add("populated-mutated", ms[r.Intn(len(ms))])
		}
	}
	for _, b := range corpusBinary() {
		add("corpus", b)
		if len(b) > 0 {
			add("corpus-framed", loopFramed(kmip.TagRequestMessage, 1, b))
		}
	}
	for i := 0; i < ctx.N(10, 100); i++ {
		add("random-framed", loopFramed([]int{kmip.TagRequestMessage, kmip.TagResponseMessage}[i%2], 1, r.Bytes(r.Intn(64))))
	}
	return out
}

func runLoops(ctx *Ctx, replay []loopCase) {
	cases := replay
	if cases == nil {
		for _, f := range loopFrames(ctx) {
			cases = append(cases, loopCase{"srv", f.b, f.origin})
			// the client configures no size limit (kmipclient/conn.go): an announcement of gigabytes makes it
			// allocate them, which is C07's subject (and the library's choice), not a decoder failure
			if _, announced := loopWalk(f.b); announced < 1<<24 {
				cases = append(cases, loopCase{"cli", f.b, f.origin})
			}
		}
	}
	limit := 90 * time.Second
	var child *deepChild
	defer func() {
		if child != nil {
			child.stop()
		}
	}()
	for _, c := range cases {
		line := c.line()
		ctx.current = line
		if child == nil {
			ch, err := startDeepChild()
			if err != nil {
				ctx.Res.Fail("hostile/loop: cannot start the child process: " + err.Error())
				return
			}
			child = ch
		}
		t0 := time.Now()
		ans, crashed, hung := child.ask("loop "+c.side+" "+hexUp(c.frame), limit)
		if el := time.Since(t0); el > 500*time.Millisecond {
			ctx.Res.Count("loop.slow>0.5s")
			if os.Getenv("VERIF_PHASE_T") != "" {
				fmt.Fprintf(os.Stderr, "loop slow %.1fs %s %s %s\n", el.Seconds(), c.origin, ans, truncate(line, 60))
			}
		}
		who := map[string]string{"srv": "kmipserver connection read loop", "cli": "kmipclient connection read loop"}[c.side]
		outcome := strings.SplitN(ans, " ", 2)[0]
		switch {
		case crashed:
			outcome = "crash"
			// the library logs to stderr: the crash report starts at the last "panic:" / "fatal error:" line
			msg := child.stderr.String()
			at := max(strings.LastIndex(msg, "\npanic: "), strings.LastIndex(msg, "\nfatal error: "))
			if at >= 0 {
				msg = msg[at+1:]
			}
			first := strings.SplitN(msg, "\n", 3)
			head := strings.Join(first[:min(len(first), 2)], " | ")
			hostileViolate(ctx, "no-crash", "loop:"+c.side+":process-crash:"+panicKey(first[0]), fmt.Sprintf("the process died after these bytes were sent to a %s: %s", who, truncate(head, 300)), line)
			child.stop()
			child = nil
		case hung || outcome == "hang":
			outcome = "hang"
			hostileViolate(ctx, "returns-normally", "loop:"+c.side+":no-answer", "no end of the exchange after these bytes were sent to a "+who, line)
			child.stop()
			child = nil
		case outcome == "dead":
			hostileViolate(ctx, "no-crash", "loop:"+c.side+":stopped-serving", "after these bytes the server no longer answers a well-formed request on a new connection", line)
			child.stop()
			child = nil
		case outcome == "bad-spec":
			ctx.Res.Fail("hostile/loop: child rejected " + truncate(line, 120))
		}
		ctx.Add(line, outcome, true, "")
		ctx.Res.Count("loop." + c.side + "." + outcome)
		if c.origin != "" {
			ctx.Res.Count("loop.origin." + c.origin)
		}
	}
	if replay == nil {
		for _, k := range []string{"loop.srv.ok", "loop.cli.ok"} {
			if ctx.Res.Distribution[k] < 40 {
				ctx.Res.Fail(fmt.Sprintf("hostile/loop: class %s has only %d cases", k, ctx.Res.Distribution[k]))
			}
		}
	}
}

var _ = bytes.Equal
