/-
  PINNED table for property C05: the protocol version that INTRODUCES each version-gated element of a KMIP
  structure (KMIP 1.1 – 1.4 change lists; DESIGN.md Appendix B). TRUSTED, HAND-MAINTAINED DATA — no check
  ever regenerates it. `Kmip.C05.gen_gating_matches` compares the `version=` annotations of the current Go
  tree (KmipModel.Gen.Schema, regenerated on every run) with it, entry for entry and in both directions.

  An entry is (structure key, element tag, occurrence, major, minor). The key does not depend on Go identifiers
  nor on the struct ids of Gen.Schema (which change with the walk order of the extractor):
    * a structure with a default tag is keyed by that tag (tags.go);
    * an operation payload (no tag of its own) is keyed by 1000000 + 2·operation + (1 if response else 0).
  `occurrence` makes the entry POSITION-AWARE: it is the number of earlier elements of the same structure that
  carry the same tag (0 everywhere except Authentication, where the first Credential — occurrence 0 — exists in
  every version and only the additional ones — occurrence 1 — are introduced by KMIP 1.2).

  SINGLE SOURCE: the Go harness does not carry a copy of this table; its `gate` engine asks the compiled
  model for it (driver command `gate.pinned`, lean/Driver/Plan.lean), i.e. it reads this very definition.

  How it was produced: once, on 2026-09-29, from the Go annotations, then REVIEWED entry by entry against
  Appendix B of DESIGN.md (61 elements, 20 structures — identical) and against the KMIP 1.1 / 1.2 / 1.3 / 1.4
  specifications' structure tables as far as the reviewer knows them. Mechanical plausibility check: KMIP
  numbers its tags chronologically (1.0: … 0x4200A1, 1.1: 0x4200A2 … 0x4200B7, 1.2: 0x4200B8 … 0x4200D3,
  1.3: 0x4200D4 … 0x4200F7, 1.4: 0x4200F8 … 0x420124); 57 of the 61 entries gate an element at exactly the
  version that created its tag. The other four re-use an older tag in a new place, as the specifications do:
  Authentication.Credential (repeatable from 1.2), CryptographicParameters.CryptographicAlgorithm (1.2),
  CryptographicParameters.DigitalSignatureAlgorithm (a 1.1 attribute tag, in the structure from 1.2) and
  Digest.KeyFormatType (1.1).
  All element tag numbers were checked against /repo/tags.go.
-/
namespace Kmip.Pinned

/-- message headers and authentication. -/
def introducedHeaders : List (Nat × Nat × Nat × Nat × Nat) := [
  (0x420077, 0x420105, 0, 1, 4) /- RequestHeader . ClientCorrelationValue -/,
  (0x420077, 0x420106, 0, 1, 4) /- RequestHeader . ServerCorrelationValue -/,
  (0x420077, 0x4200D3, 0, 1, 2) /- RequestHeader . AttestationCapableIndicator -/,
  (0x420077, 0x4200C7, 0, 1, 2) /- RequestHeader . AttestationType -/,
  (0x42000C, 0x420023, 1, 1, 2) /- Authentication . AdditionalCredential -/,
  (0x42007A, 0x4200C8, 0, 1, 2) /- ResponseHeader . Nonce -/,
  (0x42007A, 0x4200C7, 0, 1, 2) /- ResponseHeader . AttestationType -/,
  (0x42007A, 0x420105, 0, 1, 4) /- ResponseHeader . ClientCorrelationValue -/,
  (0x42007A, 0x420106, 0, 1, 4) /- ResponseHeader . ServerCorrelationValue -/
]

/-- structures with a tag of their own. -/
def introducedStructs : List (Nat × Nat × Nat × Nat × Nat) := [
  (0x420047, 0x4200A3, 0, 1, 1) /- KeyWrappingSpecification . EncodingOption -/,
  (0x42002B, 0x4200AE, 0, 1, 2) /- CryptographicParameters . DigitalSignatureAlgorithm -/,
  (0x42002B, 0x420028, 0, 1, 2) /- CryptographicParameters . CryptographicAlgorithm -/,
  (0x42002B, 0x4200C5, 0, 1, 2) /- CryptographicParameters . RandomIV -/,
  (0x42002B, 0x4200CD, 0, 1, 2) /- CryptographicParameters . IVLength -/,
  (0x42002B, 0x4200CE, 0, 1, 2) /- CryptographicParameters . TagLength -/,
  (0x42002B, 0x4200CF, 0, 1, 2) /- CryptographicParameters . FixedFieldLength -/,
  (0x42002B, 0x4200D2, 0, 1, 2) /- CryptographicParameters . InvocationFieldLength -/,
  (0x42002B, 0x4200D0, 0, 1, 2) /- CryptographicParameters . CounterLength -/,
  (0x42002B, 0x4200D1, 0, 1, 2) /- CryptographicParameters . InitialCounterValue -/,
  (0x42002B, 0x420100, 0, 1, 4) /- CryptographicParameters . SaltLength -/,
  (0x42002B, 0x420101, 0, 1, 4) /- CryptographicParameters . MaskGenerator -/,
  (0x42002B, 0x420102, 0, 1, 4) /- CryptographicParameters . MaskGeneratorHashingAlgorithm -/,
  (0x42002B, 0x420103, 0, 1, 4) /- CryptographicParameters . PSource -/,
  (0x42002B, 0x420104, 0, 1, 4) /- CryptographicParameters . TrailerField -/,
  (0x4200F7, 0x4200F9, 0, 1, 4) /- CapabilityInformation . BatchUndoCapability -/,
  (0x4200F7, 0x4200FA, 0, 1, 4) /- CapabilityInformation . BatchContinueCapability -/,
  (0x420046, 0x4200A3, 0, 1, 1) /- KeyWrappingData . EncodingOption -/,
  (0x420034, 0x420042, 0, 1, 1) /- Digest . KeyFormatType -/
]

/-- operation payloads: key = 1000000 + 2·op + response. -/
def introducedPayloads : List (Nat × Nat × Nat × Nat × Nat) := [
  (1000016, 0x4200D4, 0, 1, 3) /- Locate request (op 0x8) . OffsetItems -/,
  (1000016, 0x4200AC, 0, 1, 1) /- Locate request (op 0x8) . ObjectGroupMember -/,
  (1000017, 0x4200D5, 0, 1, 3) /- Locate response (op 0x8) . LocatedItems -/,
  (1000020, 0x4200F8, 0, 1, 4) /- Get request (op 0xA) . KeyWrapType -/,
  (1000049, 0x4200A4, 0, 1, 1) /- Query response (op 0x18) . ExtensionInformation -/,
  (1000049, 0x4200C7, 0, 1, 2) /- Query response (op 0x18) . AttestationType -/,
  (1000049, 0x4200D9, 0, 1, 3) /- Query response (op 0x18) . RNGParameters -/,
  (1000049, 0x4200EB, 0, 1, 3) /- Query response (op 0x18) . ProfileInformation -/,
  (1000049, 0x4200DF, 0, 1, 3) /- Query response (op 0x18) . ValidationInformation -/,
  (1000049, 0x4200F7, 0, 1, 3) /- Query response (op 0x18) . CapabilityInformation -/,
  (1000049, 0x4200F6, 0, 1, 3) /- Query response (op 0x18) . ClientRegistrationMethod -/,
  (1000062, 0x4200D6, 0, 1, 3) /- Encrypt request (op 0x1F) . CorrelationValue -/,
  (1000062, 0x4200D7, 0, 1, 3) /- Encrypt request (op 0x1F) . InitIndicator -/,
  (1000062, 0x4200D8, 0, 1, 3) /- Encrypt request (op 0x1F) . FinalIndicator -/,
  (1000062, 0x4200FE, 0, 1, 4) /- Encrypt request (op 0x1F) . AuthenticatedEncryptionAdditionalData -/,
  (1000063, 0x4200D6, 0, 1, 3) /- Encrypt response (op 0x1F) . CorrelationValue -/,
  (1000063, 0x4200FF, 0, 1, 4) /- Encrypt response (op 0x1F) . AuthenticatedEncryptionTag -/,
  (1000064, 0x4200D6, 0, 1, 3) /- Decrypt request (op 0x20) . CorrelationValue -/,
  (1000064, 0x4200D7, 0, 1, 3) /- Decrypt request (op 0x20) . InitIndicator -/,
  (1000064, 0x4200D8, 0, 1, 3) /- Decrypt request (op 0x20) . FinalIndicator -/,
  (1000064, 0x4200FE, 0, 1, 4) /- Decrypt request (op 0x20) . AuthenticatedEncryptionAdditionalData -/,
  (1000064, 0x4200FF, 0, 1, 4) /- Decrypt request (op 0x20) . AuthenticatedEncryptionTag -/,
  (1000065, 0x4200D6, 0, 1, 3) /- Decrypt response (op 0x20) . CorrelationValue -/,
  (1000066, 0x420107, 0, 1, 4) /- Sign request (op 0x21) . DigestedData -/,
  (1000066, 0x4200D6, 0, 1, 3) /- Sign request (op 0x21) . CorrelationValue -/,
  (1000066, 0x4200D7, 0, 1, 3) /- Sign request (op 0x21) . InitIndicator -/,
  (1000066, 0x4200D8, 0, 1, 3) /- Sign request (op 0x21) . FinalIndicator -/,
  (1000067, 0x4200D6, 0, 1, 3) /- Sign response (op 0x21) . CorrelationValue -/,
  (1000068, 0x420107, 0, 1, 4) /- SignatureVerify request (op 0x22) . DigestedData -/,
  (1000068, 0x4200D6, 0, 1, 3) /- SignatureVerify request (op 0x22) . CorrelationValue -/,
  (1000068, 0x4200D7, 0, 1, 3) /- SignatureVerify request (op 0x22) . InitIndicator -/,
  (1000068, 0x4200D8, 0, 1, 3) /- SignatureVerify request (op 0x22) . FinalIndicator -/,
  (1000069, 0x4200D6, 0, 1, 3) /- SignatureVerify response (op 0x22) . CorrelationValue -/
]

/-- (structure key, element tag, occurrence, major, minor): the element exists from protocol version
    major.minor on. -/
def introduced : List (Nat × Nat × Nat × Nat × Nat) :=
  introducedHeaders ++ introducedStructs ++ introducedPayloads

end Kmip.Pinned
