package main

// Engine `mw`, part 3 — two classes of behaviour of the real chains that the Lean model cannot express
// (the model is sequential and its chains are immutable values), checked by impl-side oracles only:
//
//  1. OVERLAPPING invocations of the continuation within ONE request (`# mw.overlap …`). C19: "every
//     invocation of the continuation by a middleware runs the remainder of the chain exactly once" — also
//     when a middleware invokes it again WHILE an earlier invocation is still in flight (hedged request,
//     per-try timeout that runs next in a goroutine and moves on, fan-out), and when the middleware
//     returns before its asynchronous invocation has finished. A scripted "hedging" stage at position h
//     of a chain of n instrumented stages starts an invocation in another goroutine, the scenario holds
//     that invocation at a chosen depth (in an inner stage before it calls next, or in the core), the
//     hedging stage then invokes next again / returns, and only then the first invocation is let go.
//     Every invocation carries its own message token, so its own traversal can be read off the shared
//     log: it must enter stages h+1 … n-1 in order, reach the core once, and every stage must get back
//     what the core answered for THAT token. All (n, h, hold depth, mode) up to a bound, for the client
//     chain, the server message chain, the server item chain and both server chains together.
//
//  2. ALIASING of the registered chain with the caller's slices (`# mw.alias …`). C19: "middlewares run
//     in registration order" — the chain an object runs is what was registered ON IT. Two objects are
//     configured from the same caller-owned list passed variadically (with and without spare capacity)
//     plus stages of their own; afterwards the caller overwrites its lists and fills their spare
//     capacity. Each object must run its own registration, before and after the caller's writes, for
//     kmipclient.WithMiddlewares (two DialContext calls sharing one Option value, and a CloneCtx),
//     BatchExecutor.Use and BatchExecutor.BatchItemUse.

import (
	"context"
	"fmt"
	"net"
	"strconv"
	"strings"
	"sync"
	"sync/atomic"
	"time"

	kmip "github.com/ovh/kmip-go"
	"github.com/ovh/kmip-go/kmipclient"
	"github.com/ovh/kmip-go/kmipserver"

	"verifharness/internal/report"
)

// ---------------------------------------------------------------------------------------------
// 1. overlapping invocations

type ovScenario struct {
	kind  string // client | srvmsg | srvitem | srvboth
	n     int    // number of stages; depth n is the core (scripted transport / operation handler)
	split int    // number of MESSAGE stages (client, srvmsg: n; srvitem: 0; srvboth: 1..n-1)
	h     int    // the hedging stage
	d     int    // where the first invocation is held: h+1..n
	mode  string // hedge | hedge2 | abandon | late
}

var ovModes = []string{"hedge", "hedge2", "abandon", "late"}

func (sc *ovScenario) line() string {
	return fmt.Sprintf("# mw.overlap %s n=%d split=%d hedge=%d hold=%d mode=%s", sc.kind, sc.n, sc.split, sc.h, sc.d, sc.mode)
}

func ovParse(l string) (*ovScenario, error) {
	f := strings.Fields(l)
	if len(f) != 8 || f[0] != "#" || f[1] != "mw.overlap" {
		return nil, fmt.Errorf("not an mw.overlap line")
	}
	sc := &ovScenario{kind: f[2]}
	for i, key := range []string{"n=", "split=", "hedge=", "hold="} {
		if !strings.HasPrefix(f[3+i], key) {
			return nil, fmt.Errorf("bad field %q", f[3+i])
		}
		v, err := mwParseNat(strings.TrimPrefix(f[3+i], key))
		if err != nil {
			return nil, err
		}
		*[]*int{&sc.n, &sc.split, &sc.h, &sc.d}[i] = v
	}
	sc.mode = strings.TrimPrefix(f[7], "mode=")
	okMode := false
	for _, m := range ovModes {
		okMode = okMode || m == sc.mode
	}
	switch sc.kind {
	case "client", "srvmsg":
		okMode = okMode && sc.split == sc.n
	case "srvitem":
		okMode = okMode && sc.split == 0
	case "srvboth":
		okMode = okMode && sc.split >= 1 && sc.split < sc.n
	default:
		okMode = false
	}
	if !okMode || sc.n < 1 || sc.n > 16 || sc.h >= sc.n || sc.d <= sc.h || sc.d > sc.n {
		return nil, fmt.Errorf("bad mw.overlap scenario %q", l)
	}
	return sc, nil
}

type ovGate struct {
	depth    int
	arrived  chan struct{}
	release  chan struct{}
	once     sync.Once
	released sync.Once
}

type ovEv struct {
	tok  int
	what string
}

const (
	ovT0        = 4 // the token of the request the entry point is given
	ovAbandoned = 5 // the error code the hedging stage returns when it gives its invocation up
)

// ovWait: how long a scenario waits for something that, on a correct chain, happens within microseconds.
// After a few waits have run out (a broken chain) the remaining scenarios wait briefly only.
var ovStuck atomic.Int32

func ovWait() <-chan time.Time {
	if ovStuck.Load() >= 3 {
		return time.After(200 * time.Millisecond)
	}
	return time.After(20 * time.Second)
}

type ovRun struct {
	sc       *ovScenario
	mu       sync.Mutex
	ev       []ovEv
	problems []string
	gates    map[int]*ovGate // by invocation token; read-only while the request runs
	pending  []chan int      // invocations the hedging stage left behind
	results  map[int]int     // what each invocation of the hedging stage returned to it
}

func (r *ovRun) log(tok int, what string) {
	r.mu.Lock()
	r.ev = append(r.ev, ovEv{tok, what})
	n := len(r.ev)
	r.mu.Unlock()
	if n > 20000 {
		panic("harness: runaway middleware trace")
	}
}

func (r *ovRun) problem(format string, a ...any) {
	r.mu.Lock()
	if len(r.problems) < 6 {
		r.problems = append(r.problems, fmt.Sprintf(format, a...))
	}
	r.mu.Unlock()
}

// at: an invocation passes depth `depth` (an inner stage about to call next, or the core).
func (r *ovRun) at(tok, depth int) {
	g := r.gates[tok]
	if g == nil || g.depth != depth {
		return
	}
	g.once.Do(func() { close(g.arrived) })
	select {
	case <-g.release:
	case <-ovWait():
		ovStuck.Add(1)
		r.problem("invocation %d held at depth %d was never released (the scenario itself got stuck)", tok, depth)
	}
}

func (r *ovRun) release(tok int) {
	if g := r.gates[tok]; g != nil {
		g.released.Do(func() { close(g.release) })
	}
}

// async starts one invocation of next in another goroutine.
func (r *ovRun) async(tok int, call func(int) int) chan int {
	done := make(chan int, 1)
	go func() {
		res := -999
		defer func() {
			if p := recover(); p != nil {
				r.problem("invocation %d of next panicked: %v", tok, p)
			}
			done <- res
		}()
		res = call(tok)
	}()
	return done
}

// waitHeld waits until invocation tok is held at its gate; false when it finished (or nothing happened)
// without getting there.
func (r *ovRun) waitHeld(tok int, done chan int) bool {
	g := r.gates[tok]
	if g == nil {
		return false
	}
	select {
	case <-g.arrived:
		return true
	case v := <-done:
		done <- v
		return false
	case <-ovWait():
		ovStuck.Add(1)
		return false
	}
}

func (r *ovRun) await(tok int, done chan int) int {
	select {
	case v := <-done:
		return v
	case <-ovWait():
		ovStuck.Add(1)
		r.problem("invocation %d of next did not return", tok)
		return -998
	}
}

func (r *ovRun) setResult(tok, v int) {
	r.mu.Lock()
	r.results[tok] = v
	r.mu.Unlock()
}

// hedge is the program of the hedging stage; call(tok) invokes next with a NEW message carrying tok and
// returns the token of what came back. Returns the token the stage answers with (0: the abandon error).
func (r *ovRun) hedge(call func(int) int) int {
	tokA, tokB, tokC := ovT0*10+1, ovT0*10+2, ovT0*10+3
	doneA := r.async(tokA, call)
	r.waitHeld(tokA, doneA) // whether it got there shows in its trace
	switch r.sc.mode {
	case "hedge": // a second invocation while the first one is in flight
		rB := call(tokB)
		r.setResult(tokB, rB)
		r.release(tokA)
		r.setResult(tokA, r.await(tokA, doneA))
		return rB
	case "hedge2": // two invocations in flight at different depths, the later one finishes first
		doneB := r.async(tokB, call)
		r.waitHeld(tokB, doneB)
		r.release(tokB)
		r.setResult(tokB, r.await(tokB, doneB))
		r.release(tokA)
		rA := r.await(tokA, doneA)
		r.setResult(tokA, rA)
		return rA
	case "late": // two sequential retries while the first invocation is in flight
		r.setResult(tokB, call(tokB))
		rC := call(tokC)
		r.setResult(tokC, rC)
		r.release(tokA)
		r.setResult(tokA, r.await(tokA, doneA))
		return rC
	}
	// abandon: give the invocation up (per-try timeout) and return; it finishes after the request
	r.mu.Lock()
	r.pending = append(r.pending, doneA)
	r.mu.Unlock()
	return 0
}

func ovAnswer(tok int) int { return tok*10 + 7 }

// ovStage is one real middleware of any of the three signatures.
func ovStage[Req, Resp any](r *ovRun, idx int, tokOf func(Req) int, mkReq func(int) Req, respTok func(Resp, error) int, mkErr func() (Resp, error),
	next func(context.Context, Req) (Resp, error), ctx context.Context, req Req) (Resp, error) {
	tok := tokOf(req)
	r.log(tok, "E"+strconv.Itoa(idx))
	var resp Resp
	var err error
	if idx == r.sc.h && tok == ovT0 {
		var mu sync.Mutex
		got := map[int]struct {
			resp Resp
			err  error
		}{}
		res := r.hedge(func(t int) int {
			rs, e := next(ctx, mkReq(t))
			v := respTok(rs, e)
			mu.Lock()
			got[t] = struct {
				resp Resp
				err  error
			}{rs, e}
			mu.Unlock()
			return v
		})
		if res == 0 {
			resp, err = mkErr()
		} else {
			mu.Lock()
			for _, g := range got {
				if respTok(g.resp, g.err) == res {
					resp, err = g.resp, g.err
				}
			}
			mu.Unlock()
		}
	} else {
		r.at(tok, idx)
		resp, err = next(ctx, req)
	}
	r.log(tok, "X"+strconv.Itoa(idx)+":"+strconv.Itoa(respTok(resp, err)))
	return resp, err
}

func ovMsgTok(msg *kmip.RequestMessage) int {
	if msg == nil || len(msg.BatchItem) != 1 {
		return -8
	}
	return mwPayloadMsg(msg.BatchItem[0].RequestPayload).tok
}
func ovItemTok(bi *kmip.RequestBatchItem) int {
	if bi == nil {
		return -8
	}
	return mwPayloadMsg(bi.RequestPayload).tok
}
func ovMkMsg(t int) *kmip.RequestMessage    { return mwMkReq(mwMsg{t, 1}) }
func ovMkItem(t int) *kmip.RequestBatchItem { return mwMkItemReq(mwMsg{t, 1}) }
func ovMsgRespTok(resp *kmip.ResponseMessage, err error) int {
	if err != nil {
		return -100 - mwErrTok(err)
	}
	t, _ := mwRespTok(resp)
	return t
}
func ovItemRespTok(resp *kmip.ResponseBatchItem, err error) int {
	if err != nil {
		return -100 - mwErrTok(err)
	}
	t, _ := mwItemRespTok(resp)
	return t
}
func ovMsgErr() (*kmip.ResponseMessage, error)    { return nil, mwMkErr(ovAbandoned) }
func ovItemErr() (*kmip.ResponseBatchItem, error) { return nil, mwMkErr(ovAbandoned) }

func mwClosedPipeDialer(context.Context) (net.Conn, error) {
	a, b := net.Pipe()
	_ = b.Close()
	return a, nil
}

// ovExecute builds the real chain of the scenario and runs the one request; returns the token of what the
// entry point returned.
func ovExecute(r *ovRun) (final int, err error) {
	sc := r.sc
	msgStage := func(idx int) mwMsgNextMw {
		return func(next mwMsgNext, ctx context.Context, msg *kmip.RequestMessage) (*kmip.ResponseMessage, error) {
			return ovStage(r, idx, ovMsgTok, ovMkMsg, ovMsgRespTok, ovMsgErr, next, ctx, msg)
		}
	}
	core := func(tok int) int {
		r.log(tok, "K")
		r.at(tok, sc.n)
		return ovAnswer(tok)
	}
	if sc.kind == "client" {
		var mws []kmipclient.Middleware
		for i := 0; i < sc.n; i++ {
			st := msgStage(i)
			mws = append(mws, func(next kmipclient.Next, ctx context.Context, msg *kmip.RequestMessage) (*kmip.ResponseMessage, error) {
				return st(next, ctx, msg)
			})
		}
		mws = append(mws, func(_ kmipclient.Next, _ context.Context, msg *kmip.RequestMessage) (*kmip.ResponseMessage, error) {
			return mwMkResp(core(ovMsgTok(msg)), 1), nil
		})
		cl, err := kmipclient.DialContext(context.Background(), "pipe", kmipclient.EnforceVersion(kmip.V1_4),
			kmipclient.WithDialerUnsafe(mwClosedPipeDialer), kmipclient.WithMiddlewares(mws...))
		if err != nil {
			return 0, err
		}
		defer cl.Close()
		return ovMsgRespTok(cl.Roundtrip(context.Background(), ovMkMsg(ovT0))), nil
	}
	exec := kmipserver.NewBatchExecutor()
	for i := 0; i < sc.n; i++ {
		if i < sc.split {
			st := msgStage(i)
			exec.Use(func(next kmipserver.Next, ctx context.Context, msg *kmip.RequestMessage) (*kmip.ResponseMessage, error) {
				return st(next, ctx, msg)
			})
			continue
		}
		idx := i
		exec.BatchItemUse(func(next kmipserver.BatchItemNext, ctx context.Context, bi *kmip.RequestBatchItem) (*kmip.ResponseBatchItem, error) {
			return ovStage(r, idx, ovItemTok, ovMkItem, ovItemRespTok, ovItemErr, next, ctx, bi)
		})
	}
	exec.Route(kmip.OperationActivate, pwFunc(func(_ context.Context, pl kmip.OperationPayload) (kmip.OperationPayload, error) {
		return mwMkItemResp(core(mwPayloadMsg(pl).tok), 1).ResponsePayload, nil
	}))
	resp := exec.HandleRequest(context.Background(), ovMkMsg(ovT0))
	t, _ := mwRespTok(resp)
	return t, nil
}

type mwMsgNextMw = func(mwMsgNext, context.Context, *kmip.RequestMessage) (*kmip.ResponseMessage, error)

// ovExpected: the traversal of one invocation made by the stage at depth `from`-1.
func ovExpected(n, from, tok int) string {
	var p []string
	for i := from; i < n; i++ {
		p = append(p, "E"+strconv.Itoa(i))
	}
	p = append(p, "K")
	for i := n - 1; i >= from; i-- {
		p = append(p, "X"+strconv.Itoa(i)+":"+strconv.Itoa(ovAnswer(tok)))
	}
	return strings.Join(p, " ")
}

func mwOverlapOne(ctx *Ctx, sc *ovScenario) {
	line := sc.line()
	ctx.current = line
	tokA, tokB, tokC := ovT0*10+1, ovT0*10+2, ovT0*10+3
	r := &ovRun{sc: sc, gates: map[int]*ovGate{}, results: map[int]int{}}
	gate := func(tok, depth int) {
		r.gates[tok] = &ovGate{depth: depth, arrived: make(chan struct{}), release: make(chan struct{})}
	}
	gate(tokA, sc.d)
	invs := []int{tokA, tokB}
	switch sc.mode {
	case "hedge2":
		gate(tokB, sc.h+1+(sc.d-sc.h)%(sc.n-sc.h)) // another depth whenever there is one
	case "late":
		invs = append(invs, tokC)
	case "abandon":
		invs = []int{tokA}
	}
	type fin struct {
		v   int
		err error
	}
	f, p := guard("mw-overlap", func() fin {
		v, err := ovExecute(r)
		// the entry point has returned: let go what the hedging stage left behind, and anything still held
		for tok := range r.gates {
			r.release(tok)
		}
		r.mu.Lock()
		pending := r.pending
		r.mu.Unlock()
		for _, d := range pending {
			r.setResult(tokA, r.await(tokA, d))
		}
		return fin{v, err}
	})
	viol := func(key, detail string) {
		ctx.Res.Violate(report.Violation{Property: "C19", Oracle: "overlapping-invocations", Key: "mw:" + sc.kind + ":overlap:" + key, Detail: detail, Line: line})
	}
	ctx.Add(line, "ok", true, "C19")
	ctx.Res.Count("mw.overlap.kind=" + sc.kind)
	ctx.Res.Count("mw.overlap.mode=" + sc.mode)
	if p != "" {
		viol("panic "+panicKey(p), "the chain panicked: "+p)
		return
	}
	if f.err != nil {
		ctx.Res.Fail("mw.overlap: cannot build the chain: " + f.err.Error())
		return
	}
	r.mu.Lock()
	defer r.mu.Unlock()
	byTok := map[int][]string{}
	var all []string
	for _, e := range r.ev {
		byTok[e.tok] = append(byTok[e.tok], e.what)
		all = append(all, fmt.Sprintf("%d:%s", e.tok, e.what))
	}
	whole := mwClip(strings.Join(all, " "))
	for _, pb := range r.problems {
		viol("scenario-stuck", pb+" ; whole log (token:event): "+whole)
	}
	// every invocation made by the hedging stage traverses the whole remainder once, on its own
	for _, tok := range invs {
		want, got := ovExpected(sc.n, sc.h+1, tok), strings.Join(byTok[tok], " ")
		if got != want {
			viol("invocation-does-not-run-the-whole-remainder", fmt.Sprintf("stage %d invoked next with message %d while another invocation of it was in flight (or left one behind): that invocation ran [%s]; the remainder of the chain, once, is [%s] ; whole log (token:event): %s",
				sc.h, tok, got, want, whole))
		}
		delete(byTok, tok)
		if res, ok := r.results[tok]; !ok || res != ovAnswer(tok) {
			viol("invocation-result", fmt.Sprintf("the invocation of next with message %d returned %d to stage %d, the core answered %d to that message ; whole log: %s", tok, res, sc.h, ovAnswer(tok), whole))
		}
	}
	// the outer stages and the hedging stage itself: entered once with the request the entry point was given
	res := map[string]int{"hedge": ovAnswer(tokB), "hedge2": ovAnswer(tokA), "late": ovAnswer(tokC), "abandon": -100 - ovAbandoned}[sc.mode]
	var p0 []string
	for i := 0; i <= sc.h; i++ {
		p0 = append(p0, "E"+strconv.Itoa(i))
	}
	for i := sc.h; i >= 0; i-- {
		v := res
		if sc.mode == "abandon" && i < sc.split && sc.h >= sc.split {
			// an item stage gave up: the core request handler turns its error into a failed item of a
			// well-formed response, which is what the message stages get back
			v = mwFailBase + ovAbandoned
		}
		p0 = append(p0, "X"+strconv.Itoa(i)+":"+strconv.Itoa(v))
	}
	if got, want := strings.Join(byTok[ovT0], " "), strings.Join(p0, " "); got != want {
		viol("outer-stages", fmt.Sprintf("the request itself ran [%s] through stages 0..%d, expected [%s] ; whole log: %s", got, sc.h, want, whole))
	}
	delete(byTok, ovT0)
	for tok, evs := range byTok {
		viol("foreign-message", fmt.Sprintf("events for a message nobody sent (%d): %s", tok, strings.Join(evs, " ")))
		break
	}
	if sc.mode != "abandon" && f.v != res {
		viol("entry-point", fmt.Sprintf("the entry point returned %d, the outermost stage returned %d", f.v, res))
	}
}

func mwOverlapScenarios(maxN int) []*ovScenario {
	var out []*ovScenario
	for n := 1; n <= maxN; n++ {
		for h := 0; h < n; h++ {
			for d := h + 1; d <= n; d++ {
				for _, mode := range ovModes {
					out = append(out, &ovScenario{"client", n, n, h, d, mode}, &ovScenario{"srvmsg", n, n, h, d, mode}, &ovScenario{"srvitem", n, 0, h, d, mode})
					for split := 1; split < n; split++ {
						out = append(out, &ovScenario{"srvboth", n, split, h, d, mode})
					}
				}
			}
		}
	}
	return out
}

func mwOverlap(ctx *Ctx) {
	for _, sc := range mwOverlapScenarios(ctx.N(4, 6)) {
		mwOverlapOne(ctx, sc)
	}
}

// ---------------------------------------------------------------------------------------------
// 2. aliasing of the registered chain with the caller's slices

type alScenario struct {
	api   string // client | use | itemuse
	k     int    // length of the shared list
	spare int    // its spare capacity
	own   int    // stages each object registers after it
}

func (sc *alScenario) line() string {
	return fmt.Sprintf("# mw.alias %s shared=%d spare=%d own=%d", sc.api, sc.k, sc.spare, sc.own)
}

func alParse(l string) (*alScenario, error) {
	f := strings.Fields(l)
	if len(f) != 6 || f[0] != "#" || f[1] != "mw.alias" {
		return nil, fmt.Errorf("not an mw.alias line")
	}
	sc := &alScenario{api: f[2]}
	for i, key := range []string{"shared=", "spare=", "own="} {
		v, err := mwParseNat(strings.TrimPrefix(f[3+i], key))
		if err != nil || !strings.HasPrefix(f[3+i], key) || v > 16 {
			return nil, fmt.Errorf("bad field %q", f[3+i])
		}
		*[]*int{&sc.k, &sc.spare, &sc.own}[i] = v
	}
	if sc.api != "client" && sc.api != "use" && sc.api != "itemuse" {
		return nil, fmt.Errorf("bad mw.alias api %q", sc.api)
	}
	return sc, nil
}

// alObject: one configured object (a client or an executor) and a way to run one request through it.
type alObject struct {
	name string
	want string
	run  func() error
	done func()
}

// alLists builds, for a stage constructor, the caller's lists: the shared one and one per object, all
// with spare capacity, and `scribble`, the caller's later writes: every element overwritten and the
// spare capacity filled with intruder stages.
func alLists[M any](sc *alScenario, stage func(id int) M) (shared, ownA, ownB []M, wantA, wantB string, scribble func()) {
	mk := func(first, n, spare int) ([]M, []int) {
		l := make([]M, 0, n+spare)
		var ids []int
		for i := 0; i < n; i++ {
			l = append(l, stage(first+i))
			ids = append(ids, first+i)
		}
		return l, ids
	}
	shared, sIDs := mk(1, sc.k, sc.spare)
	ownA, aIDs := mk(11, sc.own, 1)
	ownB, bIDs := mk(21, sc.own, 1)
	want := func(ids []int) string {
		var p []string
		for _, id := range ids {
			p = append(p, "E"+strconv.Itoa(id))
		}
		p = append(p, "K")
		for i := len(ids) - 1; i >= 0; i-- {
			p = append(p, "X"+strconv.Itoa(ids[i]))
		}
		return strings.Join(p, " ")
	}
	wantA = want(append(append([]int{}, sIDs...), aIDs...))
	wantB = want(append(append([]int{}, sIDs...), bIDs...))
	scribble = func() {
		for _, l := range [][]M{shared, ownA, ownB} {
			full := l[:cap(l)]
			for i := range full {
				full[i] = stage(90 + i)
			}
		}
	}
	return
}

func mwAliasOne(ctx *Ctx, sc *alScenario) {
	line := sc.line()
	ctx.current = line
	log := &mwEntryLog{}
	viol := func(key, detail string) {
		ctx.Res.Violate(report.Violation{Property: "C19", Oracle: "registration-aliasing", Key: "mw:" + sc.api + ":alias:" + key, Detail: detail, Line: line})
	}
	ctx.Add(line, "ok", true, "C19")
	ctx.Res.Count("mw.alias.api=" + sc.api)
	var objs []*alObject
	var scribble func()
	_, p := guard("mw-alias", func() int {
		switch sc.api {
		case "client":
			stage := func(id int) kmipclient.Middleware {
				return func(next kmipclient.Next, c context.Context, msg *kmip.RequestMessage) (*kmip.ResponseMessage, error) {
					log.add("E" + strconv.Itoa(id))
					resp, err := next(c, msg)
					log.add("X" + strconv.Itoa(id))
					return resp, err
				}
			}
			shared, ownA, ownB, wantA, wantB, scr := alLists(sc, stage)
			scribble = scr
			transport := kmipclient.WithMiddlewares(func(_ kmipclient.Next, _ context.Context, msg *kmip.RequestMessage) (*kmip.ResponseMessage, error) {
				log.add("K")
				return mwMkResp(5, 1), nil
			})
			// ONE option value for the shared list, used by both DialContext calls
			common := kmipclient.WithMiddlewares(shared...)
			dial := func(own []kmipclient.Middleware) *kmipclient.Client {
				cl, err := kmipclient.DialContext(context.Background(), "pipe", kmipclient.EnforceVersion(kmip.V1_4),
					kmipclient.WithDialerUnsafe(mwClosedPipeDialer), common, kmipclient.WithMiddlewares(own...), transport)
				if err != nil {
					panic("harness: cannot dial: " + err.Error())
				}
				return cl
			}
			add := func(name, want string, cl *kmipclient.Client) {
				objs = append(objs, &alObject{name: name, want: want, done: func() { _ = cl.Close() }, run: func() error {
					_, err := cl.Roundtrip(context.Background(), ovMkMsg(1))
					return err
				}})
			}
			a, b := dial(ownA), dial(ownB)
			add("client A (shared list, then its own)", wantA, a)
			add("client B (same option value for the shared list, then its own)", wantB, b)
			if clone, err := a.CloneCtx(context.Background()); err == nil {
				add("a CloneCtx of client A", wantA, clone)
			}
		default:
			msgStage := func(id int) kmipserver.Middleware {
				return func(next kmipserver.Next, c context.Context, msg *kmip.RequestMessage) (*kmip.ResponseMessage, error) {
					log.add("E" + strconv.Itoa(id))
					resp, err := next(c, msg)
					log.add("X" + strconv.Itoa(id))
					return resp, err
				}
			}
			itemStage := func(id int) kmipserver.BatchItemMiddleware {
				return func(next kmipserver.BatchItemNext, c context.Context, bi *kmip.RequestBatchItem) (*kmip.ResponseBatchItem, error) {
					log.add("E" + strconv.Itoa(id))
					resp, err := next(c, bi)
					log.add("X" + strconv.Itoa(id))
					return resp, err
				}
			}
			newExec := func() *kmipserver.BatchExecutor {
				exec := kmipserver.NewBatchExecutor()
				exec.Route(kmip.OperationActivate, pwFunc(func(_ context.Context, pl kmip.OperationPayload) (kmip.OperationPayload, error) {
					log.add("K")
					return mwMkItemResp(5, 1).ResponsePayload, nil
				}))
				return exec
			}
			a, b := newExec(), newExec()
			var wantA, wantB string
			if sc.api == "use" {
				shared, ownA, ownB, wA, wB, scr := alLists(sc, msgStage)
				wantA, wantB, scribble = wA, wB, scr
				a.Use(shared...)
				b.Use(shared...)
				a.Use(ownA...)
				b.Use(ownB...)
			} else {
				shared, ownA, ownB, wA, wB, scr := alLists(sc, itemStage)
				wantA, wantB, scribble = wA, wB, scr
				a.BatchItemUse(shared...)
				b.BatchItemUse(shared...)
				a.BatchItemUse(ownA...)
				b.BatchItemUse(ownB...)
			}
			add := func(name, want string, exec *kmipserver.BatchExecutor) {
				objs = append(objs, &alObject{name: name, want: want, done: func() {}, run: func() error {
					exec.HandleRequest(context.Background(), ovMkMsg(1))
					return nil
				}})
			}
			add("executor A (shared list, then its own)", wantA, a)
			add("executor B (the same shared list, then its own)", wantB, b)
		}
		return 0
	})
	defer func() {
		for _, o := range objs {
			o.done()
		}
	}()
	if p != "" {
		viol("registration-panic "+panicKey(p), "registering the middlewares panicked: "+p)
		return
	}
	check := func(when, key string) {
		for _, o := range objs {
			log.take()
			_, p := guard("mw-alias", func() int {
				if err := o.run(); err != nil {
					log.add("error:" + err.Error())
				}
				return 0
			})
			got := log.take()
			if p != "" {
				got += " panic: " + p
			}
			if got != o.want {
				viol(key, fmt.Sprintf("%s, %s, ran [%s]; what was registered on it, in registration order, is [%s]", o.name, when, got, o.want))
			}
		}
	}
	check("right after registration", "chains-of-two-objects-share-storage")
	scribble()
	check("after the caller overwrote its own lists (ids 90…) and filled their spare capacity", "chain-follows-the-callers-slice")
}

func mwAliasScenarios(thorough bool) []*alScenario {
	var out []*alScenario
	maxK := 3
	if thorough {
		maxK = 5
	}
	for _, api := range []string{"client", "use", "itemuse"} {
		for k := 0; k <= maxK; k++ {
			for _, spare := range []int{0, 1, 3} {
				for own := 0; own <= 2; own++ {
					out = append(out, &alScenario{api, k, spare, own})
				}
			}
		}
	}
	return out
}

func mwAlias(ctx *Ctx) {
	for _, sc := range mwAliasScenarios(ctx.Thor) {
		mwAliasOne(ctx, sc)
	}
	mwLateRegistration(ctx)
}

// mwLateRegistration: registrations INTERLEAVED with traffic on one executor (Use / BatchItemUse called
// after requests have already been served - "middlewares run in registration order" has no "registered
// before the first request" clause). Every pattern over {message stage, item stage, both, none} of length
// 1..4: before request k the k-th registration happens, and request k must run exactly the stages
// registered so far, message stages outermost, each kind in registration order. (A chain built once and
// cached, or a snapshot taken at the first request, shows only here.)
func mwLateRegistration(ctx *Ctx) {
	kinds := []string{"m", "i", "b", "-"}
	var pats [][]string
	var build func(prefix []string, k int)
	build = func(prefix []string, k int) {
		if len(prefix) > 0 {
			pats = append(pats, append([]string{}, prefix...))
		}
		if k == 0 {
			return
		}
		for _, x := range kinds {
			build(append(prefix, x), k-1)
		}
	}
	build(nil, 4)
	for _, pat := range pats {
		line := "# mw.late " + strings.Join(pat, "")
		ctx.current = line
		log := &mwEntryLog{}
		exec := kmipserver.NewBatchExecutor()
		exec.Route(kmip.OperationActivate, pwFunc(func(_ context.Context, pl kmip.OperationPayload) (kmip.OperationPayload, error) {
			log.add("K")
			return mwMkItemResp(5, 1).ResponsePayload, nil
		}))
		var ms, is []int
		bad := false
		for k, x := range pat {
			id := k + 1
			_, p := guard("mw-late", func() int {
				if x == "m" || x == "b" {
					exec.Use(func(next kmipserver.Next, c context.Context, msg *kmip.RequestMessage) (*kmip.ResponseMessage, error) {
						log.add("Em" + strconv.Itoa(id))
						resp, err := next(c, msg)
						log.add("Xm" + strconv.Itoa(id))
						return resp, err
					})
					ms = append(ms, id)
				}
				if x == "i" || x == "b" {
					exec.BatchItemUse(func(next kmipserver.BatchItemNext, c context.Context, bi *kmip.RequestBatchItem) (*kmip.ResponseBatchItem, error) {
						log.add("Ei" + strconv.Itoa(id))
						resp, err := next(c, bi)
						log.add("Xi" + strconv.Itoa(id))
						return resp, err
					})
					is = append(is, id)
				}
				log.take()
				exec.HandleRequest(context.Background(), ovMkMsg(1))
				return 0
			})
			got := log.take()
			var want []string
			for _, m := range ms {
				want = append(want, "Em"+strconv.Itoa(m))
			}
			for _, i := range is {
				want = append(want, "Ei"+strconv.Itoa(i))
			}
			want = append(want, "K")
			for j := len(is) - 1; j >= 0; j-- {
				want = append(want, "Xi"+strconv.Itoa(is[j]))
			}
			for j := len(ms) - 1; j >= 0; j-- {
				want = append(want, "Xm"+strconv.Itoa(ms[j]))
			}
			if p != "" {
				got += " panic: " + p
			}
			if got != strings.Join(want, " ") && !bad {
				bad = true
				ctx.Res.Violate(report.Violation{Property: "C19", Oracle: "registration-order", Key: "mw:late-registration",
					Detail: fmt.Sprintf("registrations interleaved with requests (m = Use, i = BatchItemUse, b = both, - = none; one request after each): request %d ran [%s]; registered so far, in order: [%s]", k+1, got, strings.Join(want, " ")), Line: line})
			}
		}
		ctx.Add(line, "ok", true, "C19")
		ctx.Res.Count("mw.late-registration")
	}
}

// mwReplayExtra: the impl-only lines of this file.
func mwReplayExtra(ctx *Ctx, l string) bool {
	switch {
	case strings.HasPrefix(l, "# mw.late "):
		mwLateRegistration(ctx) // all patterns: cheap, and the line names the pattern
		return true
	case strings.HasPrefix(l, "# mw.overlap "):
		sc, err := ovParse(l)
		if err != nil {
			ctx.Res.Fail("replay: " + err.Error() + ": " + l)
			return true
		}
		mwOverlapOne(ctx, sc)
		return true
	case strings.HasPrefix(l, "# mw.alias "):
		sc, err := alParse(l)
		if err != nil {
			ctx.Res.Fail("replay: " + err.Error() + ": " + l)
			return true
		}
		mwAliasOne(ctx, sc)
		return true
	}
	return false
}
