/-
  Certificate obligations of the let-go connection system `CliDrain` (kernel evaluation).
-/
import KmipModel.Model.CliDrain
import KmipModel.Gen.CertCliConn
namespace Kmip.CliCert
open Kmip.CliLts Kmip.CliConn Kmip.Gen.CertCliConn

theorem drClosed0 : partClosed (CliDrain.sys current) CliDrain.codec certDrain drP0 = true := by decide +kernel
theorem drSafe0 : partSafe CliDrain.codec (CliDrain.bad current) drP0 = true := by decide +kernel

end Kmip.CliCert
