/-
  C20 — codec results do not depend on concurrency or call history.

  What is proved (model: `Model/Cache.lean`; the per-message codec is `Model/Plan.lean`):

    1  `cache_transparent`     every interleaving of any number of goroutines that run `encodeFuncFor` /
                               `decodeFuncFor` (Load · Build with nested calls · Store) on any types, from a
                               cold or a warm cache: every plan anybody obtains for `ty` is `build ty`, the
                               cache only ever holds pairs `(ty, build ty)`; results are those of a
                               sequential run / a fresh process.
    2  `encoder_reuse`         for every history on an encoder — including calls that panicked half-way and were
                               recovered — `…; Clear; encode m` behaves as on a new encoder, on EVERY back end
                               (`C20_reuse_full`). Before /repo 55f108f this was false of the XML writer
                               (`old_xml_clear_after_abort`, `old_xml_reuse_full_false`): the defect this
                               property found.
       `version_leaks_without_clear`   the honest companion: WITHOUT `Clear` the cell left by one message gates
                               the fields of a following header-less value. This is the documented contract of
                               `Clear` ("making the encoder reusable"), not a defect.
       `full_message_ignores_cell`     …but a Request/ResponseMessage sets the cell from its own header before
                               anything reads it: whole messages are immune even without `Clear`.
    3  `decoder_fresh`, `marshal_fresh`   `UnmarshalTTLV` / `MarshalTTLV` build a new Decoder / Encoder: cell `none`.
    4  `nested_shares_cell`    within one message every nested field loop sees the header's version
                               (= C05.message_gated_by_header_version), and `Clear` empties the cell.

  NOT proved here: data-race freedom. The Go memory model is not modelled; the atomicity of `sync.Map.Load` /
  `Store` is an assumption of the step relation (DESIGN §7). That part of C20 is reduced to structural facts
  checked on the Go sources plus race-detector runs by the `cache` engine (go/cmd/harness/cache.go).
-/
import KmipModel.Lemmas.CacheLemmas
import KmipModel.Lemmas.CacheCellLemmas
import KmipModel.Gen.Schema
namespace Kmip.C20
open Kmip Kmip.Cache

/-! ## 1 — the plan cache is transparent under every interleaving -/

/-- 1a. **Every schedule** (a list of thread ids of any length; ids out of range stutter), any number of
    goroutines, each with any list of requests, starting from a cold process:
    * the cache only holds genuine plans;
    * what goroutine `t` has obtained so far is `(ty, build ty)` for the first `n` of its requests, in order;
    * once it has finished, it has obtained `(ty, build ty)` for all of them —
    i.e. exactly what a fresh process running the requests one after the other obtains. -/
theorem cache_transparent {P : Type} (B : Builder P) (build : TypeId → P) (hb : IsBuild B build)
    (reqs : List (List TypeId)) (sched : List Nat) :
    (∀ x ∈ (run B (init reqs) sched).cache, x.2 = build x.1) ∧
    (∀ (t : Nat) (th : Thread P), (run B (init reqs) sched).threads[t]? = some th →
      ∃ r, reqs[t]? = some r ∧
        th.results = (r.take th.results.length).map (fun ty => (ty, build ty)) ∧
        (th.done = true → th.results = r.map fun ty => (ty, build ty))) := by
  rw [init_eq_start]
  exact transparent_from hb [] (fun _ h => nomatch h) reqs sched

/-- 1b. The same from a **warm** cache left by any earlier history (any cache holding genuine plans — by 1a
    and 1c that is every cache the process can ever have): first-use order does not matter. -/
theorem cache_transparent_warm {P : Type} (B : Builder P) (build : TypeId → P) (hb : IsBuild B build)
    (c : List (TypeId × P)) (hc : ∀ x ∈ c, x.2 = build x.1) (reqs : List (List TypeId))
    (sched : List Nat) :
    (∀ x ∈ (run B (start c reqs) sched).cache, x.2 = build x.1) ∧
    (∀ (t : Nat) (th : Thread P), (run B (start c reqs) sched).threads[t]? = some th →
      ∃ r, reqs[t]? = some r ∧
        th.results = (r.take th.results.length).map (fun ty => (ty, build ty)) ∧
        (th.done = true → th.results = r.map fun ty => (ty, build ty))) :=
  transparent_from hb c hc reqs sched

/-- 1c. The inductive invariant itself: preserved by every step of every goroutine (so it holds along every
    schedule). It covers the plans held in local variables and in half-built closures too. -/
theorem cache_invariant {P : Type} (B : Builder P) (build : TypeId → P) (hb : IsBuild B build)
    (s : State P) (h : Inv B build s) (sched : List Nat) : Inv B build (run B s sched) :=
  run_inv hb sched h

/-- 1d. Two processes that serve the same requests under two different schedules (e.g. one of them purely
    sequential) and both finish hand every goroutine the same results. -/
theorem schedule_irrelevant {P : Type} (B : Builder P) (build : TypeId → P) (hb : IsBuild B build)
    (reqs : List (List TypeId)) (s1 s2 : List Nat) (t : Nat) (th1 th2 : Thread P)
    (h1 : (run B (init reqs) s1).threads[t]? = some th1) (d1 : th1.done = true)
    (h2 : (run B (init reqs) s2).threads[t]? = some th2) (d2 : th2.done = true) :
    th1.results = th2.results := by
  obtain ⟨r1, e1, _, f1⟩ := (cache_transparent B build hb reqs s1).2 t th1 h1
  obtain ⟨r2, e2, _, f2⟩ := (cache_transparent B build hb reqs s2).2 t th2 h2
  rw [e1] at e2; cases e2
  rw [f1 d1, f2 d2]

/-- the number of goroutines never changes and their requests are served in order. -/
theorem requests_in_order {P : Type} (B : Builder P) (reqs : List (List TypeId)) (sched : List Nat) :
    (run B (init reqs) sched).threads.map Thread.trace = reqs := by
  rw [init_eq_start, run_traces, start_traces]

/-! ### non-vacuity: a builder with nested dependencies, and contended schedules -/

/-- type `n+1` is built from the plan of type `n` (a pointer to, a slice of, a struct holding …). -/
def chainB : Builder Nat where
  deps ty := match ty with | 0 => [] | n + 1 => [n]
  combine ty subs := ty + 2 * subs.sum

def chainBuild : Nat → Nat
  | 0 => 0
  | n + 1 => (n + 1) + 2 * (chainBuild n + 0)

theorem chain_isBuild : IsBuild chainB chainBuild := by
  intro ty
  cases ty <;> simp [chainB, chainBuild]

/-- two goroutines ask for type 2 at the same time from a cold cache; the schedule makes BOTH miss on 2, on 1
    and on 0, both build all three plans and both store them (six Stores in all): -/
def contended : List Nat :=
  [0, 1, 0, 1,  0, 1, 0, 1,  0, 1, 0, 1,  0, 1, 0, 1,  0, 1, 0, 1,  0, 1, 0, 1,  0, 1, 0, 1,  0, 1, 0, 1,
   0, 1, 0, 1,  0, 1, 0, 1]

example : (run chainB (init [[2, 1], [2]]) contended).done = true := by decide
example : (run chainB (init [[2, 1], [2]]) contended).cache.length = 6 := by decide
example : (run chainB (init [[2, 1], [2]]) contended).threads.map (·.results)
    = [[(2, chainBuild 2), (1, chainBuild 1)], [(2, chainBuild 2)]] := by decide
/-- a sequential schedule (thread 0 completely, then thread 1, which only hits): 3 Stores, same results. -/
example : (run chainB (init [[2, 1], [2]]) (List.replicate 20 0 ++ List.replicate 5 1)).done = true ∧
    (run chainB (init [[2, 1], [2]]) (List.replicate 20 0 ++ List.replicate 5 1)).cache.length = 3 ∧
    (run chainB (init [[2, 1], [2]]) (List.replicate 20 0 ++ List.replicate 5 1)).threads.map (·.results)
      = [[(2, chainBuild 2), (1, chainBuild 1)], [(2, chainBuild 2)]] := by decide
/-- the invariant is not trivially true: a cache holding a foreign plan violates it, and a goroutine that
    hits it obtains that plan. -/
example : ((run chainB (start [(2, 77)] [[2]]) [0, 0]).threads.map (·.results)) = [[(2, 77)]] := by decide

/-- The real types: the dependency graph read off the regenerated schema (`schemaBuilder`) is well founded —
    the plan computed with depth bound 64 is a fixed point on every type id of the schema — so `build` exists
    for it (this is also why `encodeFuncFor` terminates: it would recurse forever on a cyclic type). -/
def genBuild : TypeId → List Nat := buildFuel (schemaBuilder Gen.schema) [] 64

def genBound : Nat := 2 * (max Gen.schema.structs.length Gen.schema.dyns.length)

theorem gen_build_fixpoint_in_range :
    (List.range genBound).all (fun ty =>
      genBuild ty == (schemaBuilder Gen.schema).combine ty (((schemaBuilder Gen.schema).deps ty).map genBuild))
      = true := by decide +kernel

theorem gen_isBuild : IsBuild (schemaBuilder Gen.schema) genBuild := by
  intro ty
  by_cases h : ty < genBound
  · have := List.all_eq_true.1 gen_build_fixpoint_in_range ty (List.mem_range.2 h)
    exact eq_of_beq this
  · -- outside the schema there is nothing to depend on
    have hd : (schemaBuilder Gen.schema).deps ty = [] := by
      have hb : genBound ≤ ty := Nat.le_of_not_lt h
      unfold genBound at hb
      simp only [schemaBuilder]
      split
      · have : Gen.schema.dyns.length ≤ ty / 2 := by omega
        unfold Schema.dyn
        rw [getD_default_of_le _ _ _ this]; rfl
      · have : Gen.schema.structs.length ≤ ty / 2 := by omega
        unfold Schema.structDef
        rw [getD_default_of_le _ _ _ this]; rfl
    show buildFuel (schemaBuilder Gen.schema) [] 64 ty = _
    rw [buildFuel, hd]; simp only [List.map_nil]

/-- 1e. `cache_transparent` for the library's own types: every interleaving of goroutines encoding any of the
    schema's types from a cold process obtains the genuine plans. -/
theorem gen_cache_transparent (reqs : List (List TypeId)) (sched : List Nat) :
    (∀ x ∈ (run (schemaBuilder Gen.schema) (init reqs) sched).cache, x.2 = genBuild x.1) ∧
    (∀ (t : Nat) (th : Thread (List Nat)),
      (run (schemaBuilder Gen.schema) (init reqs) sched).threads[t]? = some th →
      ∃ r, reqs[t]? = some r ∧
        th.results = (r.take th.results.length).map (fun ty => (ty, genBuild ty)) ∧
        (th.done = true → th.results = r.map fun ty => (ty, genBuild ty))) :=
  cache_transparent _ _ gen_isBuild reqs sched

/-- two goroutines encode their first RequestMessage (dyn 0 ↦ type id 0) and ResponseMessage (type id 2)
    simultaneously from a cold process; both build the nested header / ProtocolVersion / … plans. -/
example : (run (schemaBuilder Gen.schema) (init [[0, 2], [2, 0]]) (roundRobin 2 200)).done = true ∧
    (run (schemaBuilder Gen.schema) (init [[0, 2], [2, 0]]) (roundRobin 2 200)).threads.map (·.results)
      = [[(0, genBuild 0), (2, genBuild 2)], [(2, genBuild 2), (0, genBuild 0)]] ∧
    4 < (genBuild 0).length := by decide +kernel

/-! ## 2 — a reused encoder -/

/-- 2a. **Every history** `h` (any calls, any messages, any versions, aborted calls leaving any junk — a cell,
    partial output, open structures), on **every back end** (binary, XML, JSON, text), from any starting state:
    after `Clear` the encoder is the new encoder — whatever is done next (`ops`, e.g. `[encode m]`) produces the
    same state, hence the same `Bytes()`, and the same outcomes as on a new encoder. -/
theorem encoder_reuse (S : Schema) (b : Backend) (st0 : Encoder) (h ops : List Op) :
    runOps S b st0 (h ++ .clear :: ops) =
      ((runOps S b fresh ops).1, (runOps S b st0 h).2 ++ true :: (runOps S b fresh ops).2) :=
  reuse_gen (clearOp b) S st0 h ops (clearOp_fresh b _)

/-- 2b. the full statement, on every back end: `state(h; Clear; ops) = state(new; ops)`. -/
theorem C20_reuse_full (S : Schema) (b : Backend) (h ops : List Op) :
    (runOps S b fresh (h ++ .clear :: ops)).1 = (runOps S b fresh ops).1 := by
  rw [encoder_reuse S b fresh h ops]

/-- 2c. In particular the bytes: `Bytes(h; Clear; encode m) = Bytes(new; encode m) = MarshalTTLV(m)`. -/
theorem encoder_reuse_bytes (S : Schema) (b : Backend) (h : List Op) (m : Msg) (j : Junk)
    (bs : Bytes) (hm : marshal S m.d m.tag m.v = .ok bs) :
    (runOps S b fresh (h ++ [.clear, .encode m j])).1.bytes = bs := by
  rw [encoder_reuse S b fresh h [.encode m j]]
  exact (fresh_encode_bytes S b m j bs hm).1

/-- a two-field struct `{0x540001 int32, 0x540002 interval}`; a negative interval makes the writer panic
    ("interval cannot be negative") after the structure has been opened. -/
def tinySchema : Schema where
  structs := [{ fields := [{ tag := 0x540001, kind := .i32 }, { tag := 0x540002, kind := .interval }],
                defTag := 0x540000 }]
  dyns := [{ defTag := 0x540000, kind := .struct 0 }]
  ops := []
  objects := []
  attrs := []
  unknownPayloadDyn := 0
  valueDyn := 0

def badMsg : Msg := { d := 0, tag := 0, v := .struct [.int 1, .int (-1)] }
def goodMsg : Msg := { d := 0, tag := 0, v := .struct [.int 1, .int 1] }

/-- the history: an encode that panics inside the structure (one element left open), recovered by the caller. -/
def abortedHistory : List Op := [.encode badMsg { opened := 1 }]

/-- 2a is not vacuous on histories with aborted calls: the aborted call fails, `Clear` and the next call succeed,
    on the XML back end as on the binary one. -/
example : (runOps tinySchema .xml fresh (abortedHistory ++ [.clear, .encode goodMsg {}])).2
    = [false, true, true] := by decide +kernel
example : (runOps tinySchema .ttlv fresh (abortedHistory ++ [.clear, .encode goodMsg {}])).2
    = [false, true, true] := by decide +kernel
example : (runOps tinySchema .xml fresh [.encode goodMsg {}]).2 = [true] := by decide +kernel

/-! ### what /repo 55f108f repaired: the OLD `xmlWriter.Clear` -/

/-- 2d. **The old XML writer violated the full statement** (`oldXmlClearOp`: `Clear` began with
    `panicOnErr(w.Close())`): after an aborted call `Clear` itself panicked (`xml.Encoder.Close`: "unclosed
    tag") and left the encoder closed, so the next `encode` panicked ("use of closed Encoder") where a new
    encoder succeeds; only a second `Clear` repaired it. Found by the `cache` engine on the real code as
    `cache:reuse-after-panic:xml`; fixed by dropping the `Close`. -/
theorem old_xml_clear_after_abort :
    (runOpsOldXml tinySchema fresh (abortedHistory ++ [.clear, .encode goodMsg {}])).2 = [false, false, false] ∧
    (runOpsOldXml tinySchema fresh (abortedHistory ++ [.clear, .encode goodMsg {}])).1.closed = true ∧
    (runOpsOldXml tinySchema fresh [.encode goodMsg {}]).2 = [true] ∧
    (runOpsOldXml tinySchema fresh (abortedHistory ++ [.clear, .clear, .encode goodMsg {}])).2
      = [false, false, true, true] := by
  decide +kernel

/-- 2d'. hence the full statement was FALSE of the old XML writer… -/
theorem old_xml_reuse_full_false :
    ¬ (∀ (S : Schema) (h ops : List Op),
        (runOpsOldXml S fresh (h ++ .clear :: ops)).1 = (runOpsOldXml S fresh ops).1) := by
  intro h
  have := congrArg Encoder.closed (h tinySchema abortedHistory [.encode goodMsg {}])
  revert this
  decide +kernel

/-- 2d''. …and held of it only for histories in which no aborted call left an element open. -/
theorem old_xml_reuse_partial (S : Schema) (h ops : List Op) (hj : NoOpenJunk h) :
    runOpsOldXml S fresh (h ++ .clear :: ops) =
      ((runOpsOldXml S fresh ops).1,
       (runOpsOldXml S fresh h).2 ++ true :: (runOpsOldXml S fresh ops).2) :=
  reuse_gen oldXmlClearOp S fresh h ops
    (oldXmlClearOp_ok (Or.inr (runOpsOld_clean S h fresh ⟨rfl, rfl⟩ hj).1))

example : NoOpenJunk [.encode goodMsg {}, .bytes, .clear, .encode goodMsg { items := [.int 1 1] }] := by
  intro op hop
  simp only [List.mem_cons, List.not_mem_nil, or_false] at hop
  rcases hop with rfl | rfl | rfl | rfl <;> trivial

/-- 2e. after every `Clear` the version cell is empty. -/
theorem clear_resets_cell (b : Backend) (st : Encoder) : (clearOp b st).1.cell = none :=
  clearOp_cell b st

/-! ### the negative companion: without `Clear` the version leaks -/

/-- a header-like struct (dyn 0: `{ProtocolVersion set-version}`) and a header-less payload
    (dyn 1: `{0x540001 int32; 0x540002 int32, since 1.4}`). -/
def leakSchema : Schema where
  structs := [
    { fields := [{ tag := 0x420069, kind := .struct 2, setVersion := true }], defTag := 0x420077 },
    { fields := [{ tag := 0x540001, kind := .i32 },
                 { tag := 0x540002, kind := .i32, vrange := some { start := some (1, 4), stop := none } }],
      defTag := 0x540000 },
    { fields := [{ tag := 0x42006A, kind := .i32 }, { tag := 0x42006B, kind := .i32 }], defTag := 0x420069 }]
  dyns := [{ defTag := 0x420077, kind := .struct 0 }, { defTag := 0x540000, kind := .struct 1 }]
  ops := []
  objects := []
  attrs := []
  unknownPayloadDyn := 0
  valueDyn := 0

def header10 : Msg := { d := 0, tag := 0, v := .struct [.struct [.int 1, .int 0]] }
def payload : Msg := { d := 1, tag := 0, v := .struct [.int 7, .int 8] }

/-- bytes appended by a call (for comparing outputs without comparing buffers). -/
def outBytes (r : Res EncSt) : Option Bytes :=
  match r with
  | .ok (its, _) => some (encList its)
  | _ => none

/-- 2f. **WITHOUT `Clear`** the version cell of the previous message leaks: after a 1.0 header the cell is
    `some (1,0)`, and a following payload (no set-version field of its own) is encoded WITHOUT its 1.4 field,
    while a new — or a cleared — encoder writes it. This is what `Clear` is documented to prevent ("making the
    encoder reusable for encoding another value"): the contract, not a defect. -/
theorem version_leaks_without_clear :
    (runOps leakSchema .ttlv fresh [.encode header10 {}]).1.cell = some (1, 0) ∧
    outBytes (encodeFrom leakSchema payload (some (1, 0))) ≠ outBytes (encodeFrom leakSchema payload none) ∧
    (runOps leakSchema .ttlv fresh [.encode header10 {}, .clear]).1.cell = none := by
  decide +kernel

/-- …seen on the item tags: the gated field 0x540002 is dropped under the leaked cell. -/
example : (match encodeFrom leakSchema payload (some (1, 0)) with
    | .ok ([.struct _ cs], _) => cs.map Item.tag | _ => []) = [0x540001] := by decide +kernel
example : (match encodeFrom leakSchema payload none with
    | .ok ([.struct _ cs], _) => cs.map Item.tag | _ => []) = [0x540001, 0x540002] := by decide +kernel

/-- 2g. A value that starts with its own header is immune even without `Clear`: a Request/ResponseMessage
    (`*T` or `T`, header first, ProtocolVersion first in the header, reflective codecs — decidable
    `messageKind`) yields the same items from EVERY incoming cell. -/
theorem message_ignores_cell (S : Schema) (m : Msg) (h : messageKind S (S.dyn m.d).kind = true)
    (c1 c2 : Option Ver) : items (encodeFrom S m c1) = items (encodeFrom S m c2) :=
  encodeFrom_message S m h c1 c2

theorem gen_request_is_message : messageKind Gen.schema (Gen.schema.dyn Gen.requestMessageDyn).kind = true := by
  decide +kernel
theorem gen_response_is_message : messageKind Gen.schema (Gen.schema.dyn Gen.responseMessageDyn).kind = true := by
  decide +kernel

/-- 2h. for the library's messages: whatever message (of whatever version) the encoder processed before, with
    or without `Clear`, a RequestMessage / ResponseMessage is encoded as by a new encoder. -/
theorem full_message_ignores_cell (tag : Nat) (v : Val) (d : Nat)
    (hd : d = Gen.requestMessageDyn ∨ d = Gen.responseMessageDyn) (cell : Option Ver) :
    items (encodeFrom Gen.schema ⟨d, tag, v⟩ cell) = items (encodeFrom Gen.schema ⟨d, tag, v⟩ none) := by
  rcases hd with rfl | rfl
  · exact message_ignores_cell _ _ gen_request_is_message _ _
  · exact message_ignores_cell _ _ gen_response_is_message _ _

/-! ## 3 — `Marshal*` / `Unmarshal*` start from nothing -/

/-- 3a. `UnmarshalTTLV` constructs a new Decoder (`newDecoder`: `new(extension)`): the typed decoder starts
    with the cell `none`; the result is a function of (schema, target type, tag, bytes) and of nothing else —
    no call made before can influence it. -/
theorem decoder_fresh (S : Schema) (d tag : Nat) (bs : Bytes) :
    unmarshal S d tag bs =
      if S.dyns.length ≤ d then .err .other else unmarshalWith S (decFuel bs.length) d tag bs := by
  unfold unmarshal; rfl

/-- 3a'. … and the decoder run itself starts `decK` from the empty cell `none` (for any fuel). -/
theorem decoder_fresh_cell (S : Schema) (fuel d tag : Nat) (bs : Bytes) :
    unmarshalWith S fuel d tag bs = (do
      let c ← Cur.start bs
      let dy := S.dyn d
      let k := match dy.kind with | .ptr k' => k' | k' => k'
      let (x, _, _) ← decK S fuel k (if tag = 0 then dy.defTag else tag) c none
      pure (match dy.kind with | .ptr _ => Val.ptr (some x) | _ => x)) := rfl

/-- 3b. `MarshalTTLV` constructs a new Encoder: it is `encode` from the cell `none` followed by `Bytes`. -/
theorem marshal_fresh (S : Schema) (d tag : Nat) (v : Val) :
    marshal S d tag v =
      (match encodeFrom S ⟨d, tag, v⟩ none with
       | .ok (items, _) => .ok (encList items)
       | .err e => .err e
       | .panic msg => .panic msg) :=
  marshal_eq_encodeFrom S d tag v

/-- 3c. and that is what a new encoder object does: `Bytes(new; encode m) = MarshalTTLV(m)`. -/
theorem fresh_encoder_is_marshal (S : Schema) (b : Backend) (m : Msg) (j : Junk) (bs : Bytes)
    (h : marshal S m.d m.tag m.v = .ok bs) :
    (runOps S b fresh [.encode m j]).1.bytes = bs ∧ (runOps S b fresh [.encode m j]).2 = [true] :=
  fresh_encode_bytes S b m j bs h

/-! ## 4 — the cell is shared inside a message, and only there -/

/-- 4. Encoding the fields `[header (pv :: …), batch items]` of a Request/ResponseMessage from ANY incoming
    cell (whatever an earlier message left): the header sets the cell to its own ProtocolVersion, the batch
    items — and by `C05.version_cell_stable` every field loop nested anywhere below them, all of which share
    the `*extension` through `Encoder.Struct` — are encoded under exactly that cell and hand it back; and after
    the `Clear` that follows, the next message starts from `none`.
    (First part = `C05.message_gated_by_header_version`, `Lemmas/PlanLemmas.message_encode_cell`.) -/
theorem nested_shares_cell (S : Schema) (N : Nat)
    (hH : S.noNestedSetVersion N = true) (hM : S.messageShape N = true)
    (d : StructDef) (hd : d ∈ S.structs)
    (htag : d.defTag = T.requestMessage ∨ d.defTag = T.responseMessage)
    (fuel : Nat) (pv : Val) (hs : List Val) (bv : Val) (cell : Option Ver) (items : List Item)
    (cell' : Option Ver) (hv : Val.dynsOkL (S.svFreeDyn N) [.struct (pv :: hs), bv] = true)
    (h : encFields S (fuel + 2) d.fields [.struct (pv :: hs), bv] cell = .ok (items, cell')) :
    (∃ fh fb hitems b, d.fields = [fh, fb] ∧
      encK S (fuel + 1) fh.kind fh.tag (.struct (pv :: hs)) cell
        = .ok ([.struct fh.tag hitems], some pv.asVer) ∧
      encFields S (fuel + 1) [fb] [bv] (some pv.asVer) = .ok (b, some pv.asVer) ∧
      items = .struct fh.tag hitems :: b ∧ cell' = some pv.asVer) ∧
    (∀ (b : Backend) (st : Encoder), (clearOp b st).1.cell = none) :=
  ⟨message_encode_cell S N hH hM _ (S.svFreeDyn_sound N) d hd htag fuel pv hs bv cell items cell' hv h,
   clearOp_cell⟩

/-- the side conditions of 4 hold of the regenerated schema (same facts as C05 3e). -/
theorem gen_no_nested_set_version : Gen.schema.noNestedSetVersion 128 = true := by decide +kernel
theorem gen_message_shape : Gen.schema.messageShape 128 = true := by decide +kernel

end Kmip.C20
