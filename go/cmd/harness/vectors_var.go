package main

// Variations of the OASIS conformance vectors for the `vectors` engine (C04, converse direction):
//
//   - value variations of every scalar type (enumerations written by another registered name seen in the vectors for
//     the same element, in hexadecimal, with an unregistered value; bit masks; big integers; text; numbers; dates);
//   - optional-element variations DIRECTED BY THE SPECIFICATION: for the structures whose child order is pinned below
//     from the KMIP specification text (not from the Go structs), every single optional element, every pair of them
//     and all of them together are added / removed at their specification position;
//   - optional-element variations learnt from the vectors: a child element is removed where the vectors show its parent
//     without it, or added (a sample seen elsewhere in the vectors under the same parent) where its position relative
//     to every sibling present is known from the vectors or from the pinned specification order.
//
// Every variation the library accepts must be reproduced element for element by re-encoding; a variation directed by
// the specification must be accepted.

import (
	"bytes"
	"fmt"
	"regexp"
	"sort"
	"strconv"
	"strings"

	kmip "github.com/ovh/kmip-go"
	"github.com/ovh/kmip-go/ttlv"

	"verifharness/internal/report"
	"verifharness/internal/rng"
	"verifharness/internal/tree"
)

// ---- specification order ---------------------------------------------------------------------------------------------

type vecSpecChild struct {
	name  string
	since int    // 10*major+minor of the protocol version that introduced the element
	keep  bool   // required, repeatable, or its presence changes how its siblings are read: never added or removed
	xml   string // a specification-conformant sample (enumerations the vectors do not name are written in hexadecimal)
}

// KMIP 1.0–1.4, Objects §2.1 (Key Block, Key Wrapping Data, Key Wrapping Specification), Attributes §3.6
// (Cryptographic Parameters), Message Contents §6 / Message Format §7.2 (headers). Pinned from the specification.
var vecSpec = map[string][]vecSpecChild{
	"KeyWrappingData": {
		{"WrappingMethod", 10, true, ""},
		{"EncryptionKeyInformation", 10, false, `<EncryptionKeyInformation><UniqueIdentifier type="TextString" value="enc-key-1"/><CryptographicParameters><BlockCipherMode type="Enumeration" value="CBC"/></CryptographicParameters></EncryptionKeyInformation>`},
		{"MACSignatureKeyInformation", 10, false, `<MACSignatureKeyInformation><UniqueIdentifier type="TextString" value="mac-key-1"/><CryptographicParameters><HashingAlgorithm type="Enumeration" value="0x00000006"/></CryptographicParameters></MACSignatureKeyInformation>`},
		{"MACSignature", 10, false, `<MACSignature type="ByteString" value="A1B2C3D4E5F60718293A4B5C6D7E8F90"/>`},
		{"IVCounterNonce", 10, false, `<IVCounterNonce type="ByteString" value="000102030405060708090A0B0C0D0E0F"/>`},
		{"EncodingOption", 11, false, `<EncodingOption type="Enumeration" value="0x00000001"/>`},
	},
	"KeyWrappingSpecification": {
		{"WrappingMethod", 10, true, ""},
		{"EncryptionKeyInformation", 10, false, `<EncryptionKeyInformation><UniqueIdentifier type="TextString" value="enc-key-2"/></EncryptionKeyInformation>`},
		{"MACSignatureKeyInformation", 10, false, `<MACSignatureKeyInformation><UniqueIdentifier type="TextString" value="mac-key-2"/></MACSignatureKeyInformation>`},
		{"AttributeName", 10, true, ""},
		{"EncodingOption", 11, false, `<EncodingOption type="Enumeration" value="0x00000002"/>`},
	},
	"EncryptionKeyInformation": {
		{"UniqueIdentifier", 10, true, ""},
		{"CryptographicParameters", 10, false, `<CryptographicParameters><BlockCipherMode type="Enumeration" value="0x00000001"/><PaddingMethod type="Enumeration" value="0x00000003"/></CryptographicParameters>`},
	},
	"MACSignatureKeyInformation": {
		{"UniqueIdentifier", 10, true, ""},
		{"CryptographicParameters", 10, false, `<CryptographicParameters><HashingAlgorithm type="Enumeration" value="0x00000006"/></CryptographicParameters>`},
	},
	"KeyBlock": {
		{"KeyFormatType", 10, true, ""},
		{"KeyCompressionType", 10, false, `<KeyCompressionType type="Enumeration" value="0x00000001"/>`},
		{"KeyValue", 10, true, ""},
		{"CryptographicAlgorithm", 10, false, `<CryptographicAlgorithm type="Enumeration" value="0x00000003"/>`},
		{"CryptographicLength", 10, false, `<CryptographicLength type="Integer" value="256"/>`},
		{"KeyWrappingData", 10, true, ""},
	},
	"CryptographicParameters": {
		{"BlockCipherMode", 10, false, `<BlockCipherMode type="Enumeration" value="0x00000001"/>`},
		{"PaddingMethod", 10, false, `<PaddingMethod type="Enumeration" value="0x00000003"/>`},
		{"HashingAlgorithm", 10, false, `<HashingAlgorithm type="Enumeration" value="0x00000006"/>`},
		{"KeyRoleType", 10, false, `<KeyRoleType type="Enumeration" value="0x0000000B"/>`},
		{"DigitalSignatureAlgorithm", 12, false, `<DigitalSignatureAlgorithm type="Enumeration" value="0x00000005"/>`},
		{"CryptographicAlgorithm", 12, false, `<CryptographicAlgorithm type="Enumeration" value="0x00000004"/>`},
		{"RandomIV", 12, false, `<RandomIV type="Boolean" value="true"/>`},
		{"IVLength", 12, false, `<IVLength type="Integer" value="16"/>`},
		{"TagLength", 12, false, `<TagLength type="Integer" value="12"/>`},
		{"FixedFieldLength", 12, false, `<FixedFieldLength type="Integer" value="4"/>`},
		{"InvocationFieldLength", 12, false, `<InvocationFieldLength type="Integer" value="8"/>`},
		{"CounterLength", 12, false, `<CounterLength type="Integer" value="32"/>`},
		{"InitialCounterValue", 12, false, `<InitialCounterValue type="Integer" value="1"/>`},
		{"SaltLength", 14, false, `<SaltLength type="Integer" value="32"/>`},
		{"MaskGenerator", 14, false, `<MaskGenerator type="Enumeration" value="0x00000001"/>`},
		{"MaskGeneratorHashingAlgorithm", 14, false, `<MaskGeneratorHashingAlgorithm type="Enumeration" value="0x00000006"/>`},
		{"PSource", 14, false, `<PSource type="ByteString" value="0A0B0C"/>`},
		{"TrailerField", 14, false, `<TrailerField type="Integer" value="1"/>`},
	},
	"RequestHeader": {
		{"ProtocolVersion", 10, true, ""},
		{"MaximumResponseSize", 10, false, `<MaximumResponseSize type="Integer" value="65536"/>`},
		{"ClientCorrelationValue", 14, false, `<ClientCorrelationValue type="TextString" value="client-corr-1"/>`},
		{"ServerCorrelationValue", 14, false, `<ServerCorrelationValue type="TextString" value="server-corr-1"/>`},
		{"AsynchronousIndicator", 10, false, `<AsynchronousIndicator type="Boolean" value="true"/>`},
		{"AttestationCapableIndicator", 12, false, `<AttestationCapableIndicator type="Boolean" value="true"/>`},
		{"AttestationType", 12, true, ""},
		{"Authentication", 10, true, ""},
		{"BatchErrorContinuationOption", 10, false, `<BatchErrorContinuationOption type="Enumeration" value="0x00000002"/>`},
		{"BatchOrderOption", 10, false, `<BatchOrderOption type="Boolean" value="true"/>`},
		{"TimeStamp", 10, false, `<TimeStamp type="DateTime" value="2012-04-27T08:12:23+00:00"/>`},
		{"BatchCount", 10, true, ""},
	},
	"ResponseHeader": {
		{"ProtocolVersion", 10, true, ""},
		{"TimeStamp", 10, true, ""},
		{"Nonce", 12, true, ""},
		{"AttestationType", 12, true, ""},
		{"ClientCorrelationValue", 14, false, `<ClientCorrelationValue type="TextString" value="client-corr-2"/>`},
		{"ServerCorrelationValue", 14, false, `<ServerCorrelationValue type="TextString" value="server-corr-2"/>`},
		{"BatchCount", 10, true, ""},
	},
}

// Structures whose content depends on their context are pinned under a context key (vecSpecKey): the batch item of a
// request / of a response (Message Format §7.2), the payloads per operation (Operations §4, request and response
// tables) and the credential value per credential type (Objects §2.1.2). Only operations the vectors exercise are listed: every occurrence in the vectors validates the pin.
// An element that is only conditionally allowed (Asynchronous Correlation Value: pending items) is never removed.
func init() {
	bin := func(name, hexval string) string { return `<` + name + ` type="ByteString" value="` + hexval + `"/>` }
	txt := func(name, v string) string { return `<` + name + ` type="TextString" value="` + v + `"/>` }
	tpl := func(name, attr, ty, v string) string {
		return `<` + name + `><Attribute><AttributeName type="TextString" value="` + attr + `"/><AttributeValue type="` + ty + `" value="` + v + `"/></Attribute></` + name + `>`
	}
	ext := `<MessageExtension><VendorIdentification type="TextString" value="vendor-x"/><CriticalityIndicator type="Boolean" value="false"/><VendorExtension><TTLV tag="0x540001" type="Integer" value="7"/></VendorExtension></MessageExtension>`
	cp := `<CryptographicParameters><BlockCipherMode type="Enumeration" value="CBC"/><PaddingMethod type="Enumeration" value="PKCS5"/></CryptographicParameters>`
	more := map[string][]vecSpecChild{
		"BatchItem@RequestMessage": {
			{"Operation", 10, true, ""},
			{"UniqueBatchItemID", 10, true, ""},
			{"RequestPayload", 10, true, ""},
			{"MessageExtension", 10, false, ext},
		},
		"BatchItem@ResponseMessage": {
			{"Operation", 10, true, ""},
			{"UniqueBatchItemID", 10, true, ""},
			{"ResultStatus", 10, true, ""},
			{"ResultReason", 10, true, ""},
			{"ResultMessage", 10, false, txt("ResultMessage", "a result message")},
			{"AsynchronousCorrelationValue", 10, false, bin("AsynchronousCorrelationValue", "A1B2C3D4")},
			{"ResponsePayload", 10, true, ""},
			{"MessageExtension", 10, false, ext},
		},
		"CredentialValue:UsernameAndPassword": {
			{"Username", 10, true, ""},
			{"Password", 10, false, txt("Password", "secret-2")},
		},
		"CredentialValue:Device": {
			{"DeviceSerialNumber", 11, false, txt("DeviceSerialNumber", "serial-1")},
			{"Password", 11, false, txt("Password", "secret-3")},
			{"DeviceIdentifier", 11, false, txt("DeviceIdentifier", "device-1")},
			{"NetworkIdentifier", 11, false, txt("NetworkIdentifier", "network-1")},
			{"MachineIdentifier", 11, false, txt("MachineIdentifier", "machine-1")},
			{"MediaIdentifier", 11, false, txt("MediaIdentifier", "media-1")},
		},
		"RequestPayload:Locate": {
			{"MaximumItems", 10, false, `<MaximumItems type="Integer" value="5"/>`},
			{"OffsetItems", 13, false, `<OffsetItems type="Integer" value="2"/>`},
			{"StorageStatusMask", 10, false, `<StorageStatusMask type="Integer" value="OnLineStorage ArchivalStorage"/>`},
			{"ObjectGroupMember", 11, false, `<ObjectGroupMember type="Enumeration" value="0x00000001"/>`},
			{"Attribute", 10, true, ""},
		},
		"ResponsePayload:Locate": {
			{"LocatedItems", 13, false, `<LocatedItems type="Integer" value="3"/>`},
			{"UniqueIdentifier", 10, true, ""},
		},
		"RequestPayload:Get": {
			{"UniqueIdentifier", 10, false, txt("UniqueIdentifier", "uid-get-1")},
			{"KeyFormatType", 10, false, `<KeyFormatType type="Enumeration" value="Raw"/>`},
			{"KeyWrapType", 14, false, `<KeyWrapType type="Enumeration" value="0x00000001"/>`},
			{"KeyCompressionType", 10, false, `<KeyCompressionType type="Enumeration" value="0x00000001"/>`},
			{"KeyWrappingSpecification", 10, true, ""},
		},
		"RequestPayload:ReKey": {
			{"UniqueIdentifier", 10, false, txt("UniqueIdentifier", "uid-rekey-1")},
			{"Offset", 10, false, `<Offset type="Interval" value="3600"/>`},
			{"TemplateAttribute", 10, false, tpl("TemplateAttribute", "Cryptographic Length", "Integer", "256")},
		},
		"ResponsePayload:ReKey": {
			{"UniqueIdentifier", 10, true, ""},
			{"TemplateAttribute", 10, false, tpl("TemplateAttribute", "Cryptographic Length", "Integer", "256")},
		},
		"RequestPayload:CreateKeyPair": {
			{"CommonTemplateAttribute", 10, false, tpl("CommonTemplateAttribute", "Cryptographic Length", "Integer", "2048")},
			{"PrivateKeyTemplateAttribute", 10, false, tpl("PrivateKeyTemplateAttribute", "Cryptographic Usage Mask", "Integer", "Sign")},
			{"PublicKeyTemplateAttribute", 10, false, tpl("PublicKeyTemplateAttribute", "Cryptographic Usage Mask", "Integer", "Verify")},
		},
		"ResponsePayload:CreateKeyPair": {
			{"PrivateKeyUniqueIdentifier", 10, true, ""},
			{"PublicKeyUniqueIdentifier", 10, true, ""},
			{"PrivateKeyTemplateAttribute", 10, false, tpl("PrivateKeyTemplateAttribute", "Cryptographic Usage Mask", "Integer", "Sign")},
			{"PublicKeyTemplateAttribute", 10, false, tpl("PublicKeyTemplateAttribute", "Cryptographic Usage Mask", "Integer", "Verify")},
		},
		"RequestPayload:ReKeyKeyPair": {
			{"PrivateKeyUniqueIdentifier", 11, false, txt("PrivateKeyUniqueIdentifier", "uid-priv-1")},
			{"Offset", 11, false, `<Offset type="Interval" value="60"/>`},
			{"CommonTemplateAttribute", 11, false, tpl("CommonTemplateAttribute", "Cryptographic Length", "Integer", "2048")},
			{"PrivateKeyTemplateAttribute", 11, false, tpl("PrivateKeyTemplateAttribute", "Cryptographic Usage Mask", "Integer", "Sign")},
			{"PublicKeyTemplateAttribute", 11, false, tpl("PublicKeyTemplateAttribute", "Cryptographic Usage Mask", "Integer", "Verify")},
		},
		"RequestPayload:Revoke": {
			{"UniqueIdentifier", 10, false, txt("UniqueIdentifier", "uid-revoke-1")},
			{"RevocationReason", 10, true, ""},
			{"CompromiseOccurrenceDate", 10, false, `<CompromiseOccurrenceDate type="DateTime" value="2012-04-27T08:12:23+00:00"/>`},
		},
		"RequestPayload:DeleteAttribute": {
			{"UniqueIdentifier", 10, false, txt("UniqueIdentifier", "uid-delattr-1")},
			{"AttributeName", 10, true, ""},
			{"AttributeIndex", 10, false, `<AttributeIndex type="Integer" value="0"/>`},
		},
		"RequestPayload:Encrypt": {
			{"UniqueIdentifier", 12, false, txt("UniqueIdentifier", "uid-enc-1")},
			{"CryptographicParameters", 12, false, cp},
			{"Data", 12, false, bin("Data", "00112233445566778899AABBCCDDEEFF")},
			{"IVCounterNonce", 12, false, bin("IVCounterNonce", "000102030405060708090A0B0C0D0E0F")},
			{"CorrelationValue", 13, false, bin("CorrelationValue", "C0FFEE01")},
			{"InitIndicator", 13, false, `<InitIndicator type="Boolean" value="true"/>`},
			{"FinalIndicator", 13, false, `<FinalIndicator type="Boolean" value="true"/>`},
			{"AuthenticatedEncryptionAdditionalData", 14, false, bin("AuthenticatedEncryptionAdditionalData", "AAD0AAD1")},
		},
		"ResponsePayload:Encrypt": {
			{"UniqueIdentifier", 12, true, ""},
			{"Data", 12, false, bin("Data", "FFEEDDCCBBAA99887766554433221100")},
			{"IVCounterNonce", 12, false, bin("IVCounterNonce", "0F0E0D0C0B0A09080706050403020100")},
			{"CorrelationValue", 13, false, bin("CorrelationValue", "C0FFEE02")},
			{"AuthenticatedEncryptionTag", 14, false, bin("AuthenticatedEncryptionTag", "7A67A67A")},
		},
		"RequestPayload:Decrypt": {
			{"UniqueIdentifier", 12, false, txt("UniqueIdentifier", "uid-dec-1")},
			{"CryptographicParameters", 12, false, cp},
			{"Data", 12, false, bin("Data", "00112233445566778899AABBCCDDEEFF")},
			{"IVCounterNonce", 12, false, bin("IVCounterNonce", "000102030405060708090A0B0C0D0E0F")},
			{"CorrelationValue", 13, false, bin("CorrelationValue", "C0FFEE03")},
			{"InitIndicator", 13, false, `<InitIndicator type="Boolean" value="true"/>`},
			{"FinalIndicator", 13, false, `<FinalIndicator type="Boolean" value="true"/>`},
			{"AuthenticatedEncryptionAdditionalData", 14, false, bin("AuthenticatedEncryptionAdditionalData", "AAD0AAD1")},
			{"AuthenticatedEncryptionTag", 14, false, bin("AuthenticatedEncryptionTag", "7A67A67A")},
		},
		"ResponsePayload:Decrypt": {
			{"UniqueIdentifier", 12, true, ""},
			{"Data", 12, false, bin("Data", "00112233")},
			{"CorrelationValue", 13, false, bin("CorrelationValue", "C0FFEE04")},
		},
		"RequestPayload:Sign": {
			{"UniqueIdentifier", 12, false, txt("UniqueIdentifier", "uid-sign-1")},
			{"CryptographicParameters", 12, false, cp},
			{"Data", 12, false, bin("Data", "0011223344")},
			{"DigestedData", 14, false, bin("DigestedData", "D16E57ED")},
			{"CorrelationValue", 13, false, bin("CorrelationValue", "C0FFEE05")},
			{"InitIndicator", 13, false, `<InitIndicator type="Boolean" value="true"/>`},
			{"FinalIndicator", 13, false, `<FinalIndicator type="Boolean" value="true"/>`},
		},
		"ResponsePayload:Sign": {
			{"UniqueIdentifier", 12, true, ""},
			{"SignatureData", 12, false, bin("SignatureData", "5167A7E0")},
			{"CorrelationValue", 13, false, bin("CorrelationValue", "C0FFEE06")},
		},
		"RequestPayload:SignatureVerify": {
			{"UniqueIdentifier", 12, false, txt("UniqueIdentifier", "uid-verify-1")},
			{"CryptographicParameters", 12, false, cp},
			{"Data", 12, false, bin("Data", "0011223344")},
			{"DigestedData", 14, false, bin("DigestedData", "D16E57ED")},
			{"SignatureData", 12, false, bin("SignatureData", "5167A7E0")},
			{"CorrelationValue", 13, false, bin("CorrelationValue", "C0FFEE07")},
			{"InitIndicator", 13, false, `<InitIndicator type="Boolean" value="true"/>`},
			{"FinalIndicator", 13, false, `<FinalIndicator type="Boolean" value="true"/>`},
		},
		"ResponsePayload:SignatureVerify": {
			{"UniqueIdentifier", 12, true, ""},
			{"ValidityIndicator", 12, true, ""},
			{"Data", 12, false, bin("Data", "00112233")},
			{"CorrelationValue", 13, false, bin("CorrelationValue", "C0FFEE08")},
		},
	}
	for k, v := range more {
		vecSpec[k] = v
	}
}

// elements of a pinned structure that the specification allows under a condition on their siblings only: added (the
// library's decoder does not judge the condition), never removed.
var vecSpecAddOnly = map[string]bool{
	"BatchItem@ResponseMessage/AsynchronousCorrelationValue": true,
}

// vecSpecKey: the key of vecSpec for a node: its element name, or for context-dependent structures the name and the
// context (the message kind for a batch item, the operation named by the enclosing batch item for a payload).
func vecSpecKey(root, n, parent *xnode) string {
	switch n.Name {
	case "BatchItem":
		return n.Name + "@" + root.Name
	case "RequestPayload", "ResponsePayload":
		if parent != nil {
			for _, c := range parent.Children {
				if c.Name == "Operation" {
					return n.Name + ":" + c.Attrs["value"]
				}
			}
		}
	case "CredentialValue":
		if parent != nil {
			for _, c := range parent.Children {
				if c.Name == "CredentialType" {
					return n.Name + ":" + c.Attrs["value"]
				}
			}
		}
	}
	return n.Name
}

func vecSpecIndex(parent, child string) int {
	for i, c := range vecSpec[parent] {
		if c.name == child {
			return i
		}
	}
	return -1
}

// ---- what the vectors themselves show --------------------------------------------------------------------------------

// parents whose content depends on something outside themselves (the operation, the attribute name, the key format,
// the credential type) or is opaque: no element is added to / removed from them by the learnt variations.
var vecPolymorphic = map[string]bool{
	"RequestPayload": true, "ResponsePayload": true, "AttributeValue": true, "KeyMaterial": true, "KeyValue": true,
	"CredentialValue": true, "MessageExtension": true, "VendorExtension": true, "ServerInformation": true,
	"RequestMessage": true, "ResponseMessage": true, "BatchItem": true, "Credential": true, "DerivationParameters": true,
}

// elements that determine the shape or the version gating of the message: never varied, added or removed.
var vecStructural = map[string]bool{
	"ProtocolVersion": true, "ProtocolVersionMajor": true, "ProtocolVersionMinor": true, "AttributeName": true, "BatchCount": true,
	"Operation": true, "ObjectType": true, "KeyFormatType": true, "CredentialType": true, "ResultStatus": true, "ResultReason": true,
	"WrappingMethod": true, "UniqueBatchItemID": true, "AttributeIndex": true, "SplitKeyMethod": true, "DerivationMethod": true,
	"SecretDataType": true, "OpaqueDataType": true, "CertificateType": true, "QueryFunction": true, "KeyValue": true, "KeyMaterial": true,
	"AsynchronousCorrelationValue": true, "ProfileName": true, "ValidationAuthorityType": true,
}

type vecStats struct {
	before   map[string]map[[2]string]bool // parent → (X, Y): X seen before Y
	donors   map[string]map[string][]*xnode
	without  map[string]map[string]bool // parent → X: some occurrence of the parent has no X
	minVer   map[string]map[string]int
	occurs   map[string]int
	values   map[string][]string // value texts seen per "element name|type" (AttributeValue: per attribute name)
	valSeen  map[string]bool
	specSeen map[string]bool // distinct occurrences of specification-pinned structures already varied
}

func newVecStats() *vecStats {
	return &vecStats{before: map[string]map[[2]string]bool{}, donors: map[string]map[string][]*xnode{}, without: map[string]map[string]bool{},
		minVer: map[string]map[string]int{}, occurs: map[string]int{}, values: map[string][]string{}, valSeen: map[string]bool{}, specSeen: map[string]bool{}}
}

func vecVersion(msg *xnode) int {
	ver := 0
	var walk func(x *xnode)
	walk = func(x *xnode) {
		if ver != 0 {
			return
		}
		if x.Name == "ProtocolVersion" {
			maj, min := 0, 0
			for _, c := range x.Children {
				v, _ := strconv.Atoi(c.Attrs["value"])
				if c.Name == "ProtocolVersionMajor" {
					maj = v
				} else if c.Name == "ProtocolVersionMinor" {
					min = v
				}
			}
			ver = 10*maj + min
			return
		}
		for _, c := range x.Children {
			walk(c)
		}
	}
	walk(msg)
	return ver
}

func vecValueKey(x *xnode, attrName string) string {
	k := x.Name
	if x.Name == "AttributeValue" {
		k += ":" + attrName
	}
	return k + "|" + x.Attrs["type"]
}

// learn records what one (accepted, reproduced) vector message shows.
func (st *vecStats) learn(msg *xnode) {
	ver := vecVersion(msg)
	root := msg.Name
	var walk func(x *xnode, attrName string)
	walk = func(x *xnode, attrName string) {
		if ty := x.Attrs["type"]; ty != "" && ty != "Structure" {
			k := vecValueKey(x, attrName)
			if !st.valSeen[k+"="+x.Attrs["value"]] && len(st.values[k]) < 24 {
				st.valSeen[k+"="+x.Attrs["value"]] = true
				st.values[k] = append(st.values[k], x.Attrs["value"])
			}
			return
		}
		pk := root + "/" + x.Name
		st.occurs[pk]++
		if st.before[pk] == nil {
			st.before[pk], st.donors[pk], st.without[pk], st.minVer[pk] = map[[2]string]bool{}, map[string][]*xnode{}, map[string]bool{}, map[string]int{}
		}
		present := map[string]bool{}
		an := ""
		for i, c := range x.Children {
			present[c.Name] = true
			for _, d := range x.Children[i+1:] {
				st.before[pk][[2]string{c.Name, d.Name}] = true
			}
			if v, ok := st.minVer[pk][c.Name]; !ok || ver < v {
				st.minVer[pk][c.Name] = ver
			}
			if ds := st.donors[pk][c.Name]; len(ds) < 6 {
				dup := false
				cs := c.String()
				for _, d := range ds {
					if d.String() == cs {
						dup = true
					}
				}
				if !dup {
					st.donors[pk][c.Name] = append(ds, c)
				}
			}
			if c.Name == "AttributeName" {
				an = c.Attrs["value"]
			}
			walk(c, an)
		}
		for name := range st.donors[pk] {
			if !present[name] {
				st.without[pk][name] = true
			}
		}
	}
	walk(msg, "")
}

// finish: a child first seen after occurrences of its parent without it is optional there too.
func (st *vecStats) finish(msgs []*xnode) {
	for _, msg := range msgs {
		root := msg.Name
		var walk func(x *xnode)
		walk = func(x *xnode) {
			if ty := x.Attrs["type"]; ty != "" && ty != "Structure" {
				return
			}
			pk := root + "/" + x.Name
			present := map[string]bool{}
			for _, c := range x.Children {
				present[c.Name] = true
				walk(c)
			}
			for name := range st.donors[pk] {
				if !present[name] {
					st.without[pk][name] = true
				}
			}
		}
		walk(msg)
	}
}

// orderKnown: is the relative position of X and Y under the parent known (vectors or specification), and is X first?
func (st *vecStats) orderKnown(root, parent, x, y string) (known, xFirst bool) {
	pk := root + "/" + parent
	xy, yx := st.before[pk][[2]string{x, y}], st.before[pk][[2]string{y, x}]
	if xy != yx {
		return true, xy
	}
	if xy && yx {
		return false, false // interleaved (repeatable elements)
	}
	i, j := vecSpecIndex(parent, x), vecSpecIndex(parent, y)
	if i >= 0 && j >= 0 && i != j {
		return true, i < j
	}
	return false, false
}

// ---- tree surgery ----------------------------------------------------------------------------------------------------

func vecClone(x *xnode) *xnode {
	c := &xnode{Name: x.Name, Attrs: map[string]string{}}
	for k, v := range x.Attrs {
		c.Attrs[k] = v
	}
	for _, ch := range x.Children {
		c.Children = append(c.Children, vecClone(ch))
	}
	return c
}

func vecAt(x *xnode, path []int) *xnode {
	for _, i := range path {
		x = x.Children[i]
	}
	return x
}

type vecLoc struct {
	path     []int
	attrName string
}

// vecWalk visits every node with its path and the value of the AttributeName sibling that precedes it.
func vecWalk(x *xnode, f func(n *xnode, parent *xnode, loc vecLoc)) {
	var walk func(n, parent *xnode, path []int, an string)
	walk = func(n, parent *xnode, path []int, an string) {
		f(n, parent, vecLoc{append([]int{}, path...), an})
		a := ""
		for i, c := range n.Children {
			if c.Name == "AttributeName" {
				a = c.Attrs["value"]
			}
			walk(c, n, append(path, i), a)
		}
	}
	walk(x, nil, nil, "")
}

func vecSample(xmlText string) *xnode {
	nodes, err := parseXMLNodes([]byte(xmlText))
	if err != nil || len(nodes) != 1 {
		panic("harness: bad specification sample " + xmlText)
	}
	return nodes[0]
}

// ---- variations directed by the specification ------------------------------------------------------------------------

// specCheck: an occurrence of a pinned structure in a vector must follow the pinned order (else the pin is wrong).
func vecSpecCheck(key string, n *xnode) string {
	spec := vecSpec[key]
	last := -1
	for _, c := range n.Children {
		i := vecSpecIndex(key, c.Name)
		if i < 0 {
			return fmt.Sprintf("%s has a child %s that the pinned specification order does not list", n.Name, c.Name)
		}
		if i < last || (i == last && !spec[i].keep) {
			return fmt.Sprintf("%s: child %s is out of the pinned specification order", n.Name, c.Name)
		}
		last = i
	}
	return ""
}

// specVariants: the message with the optional children of the structure at `path` toggled (present → removed, absent and
// allowed at the message's version → added at the specification position): singles, pairs, everything.
func vecSpecVariants(key string, msg *xnode, path []int, ver int, maxPairs int, r *rng.R) []*xnode {
	n := vecAt(msg, path)
	spec := vecSpec[key]
	present := map[string]bool{}
	for _, c := range n.Children {
		present[c.Name] = true
	}
	var toggles []int
	for i, sc := range spec {
		if sc.keep || (!present[sc.name] && (sc.since > ver || sc.xml == "")) {
			continue
		}
		if present[sc.name] && vecSpecAddOnly[key+"/"+sc.name] {
			continue
		}
		toggles = append(toggles, i)
	}
	build := func(set map[int]bool) *xnode {
		m := vecClone(msg)
		t := vecAt(m, path)
		var kids []*xnode
		for i, sc := range spec {
			switch {
			case present[sc.name] && !set[i]:
				for _, c := range t.Children {
					if c.Name == sc.name {
						kids = append(kids, c)
					}
				}
			case !present[sc.name] && set[i]:
				kids = append(kids, vecSample(sc.xml))
			}
		}
		t.Children = kids
		return m
	}
	var out []*xnode
	for _, i := range toggles {
		out = append(out, build(map[int]bool{i: true}))
	}
	var pairs [][2]int
	for a := 0; a < len(toggles); a++ {
		for b := a + 1; b < len(toggles); b++ {
			pairs = append(pairs, [2]int{toggles[a], toggles[b]})
		}
	}
	if len(pairs) > maxPairs {
		for i := len(pairs) - 1; i > 0; i-- {
			j := r.Intn(i + 1)
			pairs[i], pairs[j] = pairs[j], pairs[i]
		}
		pairs = pairs[:maxPairs]
	}
	for _, pq := range pairs {
		out = append(out, build(map[int]bool{pq[0]: true, pq[1]: true}))
	}
	if len(toggles) > 2 {
		all := map[int]bool{}
		for _, i := range toggles {
			all[i] = true
		}
		out = append(out, build(all))
		// everything that can be present, present
		full := map[int]bool{}
		for _, i := range toggles {
			if !present[spec[i].name] {
				full[i] = true
			}
		}
		if len(full) > 0 && len(full) < len(toggles) {
			out = append(out, build(full))
		}
	}
	return out
}

// ---- variations learnt from the vectors ------------------------------------------------------------------------------

var vecBigTexts = []string{"00", "01", "7F", "0080", "FF", "FF7F", "80", "00FF", "FFFFFFFFFFFFFF01", "0100000000000000000000000000000001", "FF00000000000000000000000000000000FF"}

// vary produces one variation of a vector message; "" = no applicable variation was found. want: "remove", "add",
// a scalar type name (a value variation of an element of that type) or "" (any).
func (st *vecStats) vary(r *rng.R, msg *xnode, want string) (*xnode, string) {
	c := vecClone(msg)
	ver := vecVersion(c)
	type cand struct {
		n, parent *xnode
		loc       vecLoc
	}
	var all []cand
	vecWalk(c, func(n, parent *xnode, loc vecLoc) { all = append(all, cand{n, parent, loc}) })
	if want != "" && want != "remove" && want != "add" {
		var typed []cand
		for _, x := range all {
			if x.n.Attrs["type"] == want {
				typed = append(typed, x)
			}
		}
		if len(typed) == 0 {
			return nil, ""
		}
		all = typed
	}
	for try := 0; try < 16; try++ {
		x := rng.Pick(r, all)
		kind := r.Intn(5)
		switch want {
		case "":
		case "remove":
			kind = 0
		case "add":
			kind = 1
		default:
			kind = 2
		}
		switch kind {
		case 0: // remove an element its parent is seen without
			if x.parent == nil || vecStructural[x.n.Name] || vecPolymorphic[x.parent.Name] {
				continue
			}
			if !st.without[c.Name+"/"+x.parent.Name][x.n.Name] {
				continue
			}
			if i := vecSpecIndex(x.parent.Name, x.n.Name); i >= 0 && vecSpec[x.parent.Name][i].keep {
				continue
			}
			idx := x.loc.path[len(x.loc.path)-1]
			x.parent.Children = append(x.parent.Children[:idx:idx], x.parent.Children[idx+1:]...)
			return c, "remove"
		case 1: // add an element seen elsewhere under the same parent, where its position is known
			if x.n.Attrs["type"] != "" && x.n.Attrs["type"] != "Structure" || vecPolymorphic[x.n.Name] {
				continue
			}
			pk := c.Name + "/" + x.n.Name
			present := map[string]bool{}
			for _, ch := range x.n.Children {
				present[ch.Name] = true
			}
			var names []string
			for name := range st.donors[pk] {
				if !present[name] && !vecStructural[name] && st.without[pk][name] && st.minVer[pk][name] <= ver {
					names = append(names, name)
				}
			}
			if len(names) == 0 {
				continue
			}
			sort.Strings(names)
			name := rng.Pick(r, names)
			if i := vecSpecIndex(x.n.Name, name); i >= 0 && (vecSpec[x.n.Name][i].keep || vecSpec[x.n.Name][i].since > ver) {
				continue
			}
			pos, ok := 0, true
			for i, ch := range x.n.Children {
				known, newFirst := st.orderKnown(c.Name, x.n.Name, name, ch.Name)
				if !known {
					ok = false
					break
				}
				if !newFirst {
					pos = i + 1
				} else if pos > i {
					ok = false // the children present are not ordered consistently with what is known
					break
				}
			}
			if !ok {
				continue
			}
			d := vecClone(rng.Pick(r, st.donors[pk][name]))
			x.n.Children = append(x.n.Children[:pos:pos], append([]*xnode{d}, x.n.Children[pos:]...)...)
			return c, "add"
		default: // another value
			if vecStructural[x.n.Name] {
				continue
			}
			seen := st.values[vecValueKey(x.n, x.loc.attrName)]
			old := x.n.Attrs["value"]
			switch x.n.Attrs["type"] {
			case "TextString":
				x.n.Attrs["value"] = rng.Pick(r, []string{"a", "x y", "<&>\"'", "é€漢😀", "0x10", "true", "\u007f\u0085  �", " lead and trail ", strings.Repeat("long-", 60)})
			case "Integer":
				if _, err := parseNum(old, 32); err == nil {
					x.n.Attrs["value"] = rng.Pick(r, []string{"-1", "2147483647", "-2147483648", "7", "0x7FFFFFFF", "0x00000010"})
				} else if len(seen) > 1 {
					x.n.Attrs["value"] = rng.Pick(r, seen) // bit mask written by names
				} else {
					x.n.Attrs["value"] = rng.Pick(r, []string{"0x00000001", "3", "0x80000000", old + " 0x40000000"})
				}
			case "LongInteger":
				x.n.Attrs["value"] = rng.Pick(r, []string{"-1", "9223372036854775807", "-9223372036854775808", "4503599627370496", "4503599627370495", "0x0000000000000100"})
			case "BigInteger":
				x.n.Attrs["value"] = rng.Pick(r, vecBigTexts)
			case "Enumeration":
				switch k := r.Intn(4); {
				case k < 2 && len(seen) > 1:
					x.n.Attrs["value"] = rng.Pick(r, seen) // another registered value, as the vectors spell it
				case k == 2:
					et := 0
					if x.n.Name == "AttributeValue" {
						et = vecAttrEnumTag(x.loc.attrName)
					}
					if it, err := x.n.toTree(et); err == nil {
						x.n.Attrs["value"] = fmt.Sprintf("0x%08X", uint32(it.Int)) // the same value in hexadecimal
					}
				default:
					x.n.Attrs["value"] = rng.Pick(r, []string{"0x80000001", "0x8000ABCD", "0xFFFFFFFF"}) // extension values
				}
			case "ByteString":
				x.n.Attrs["value"] = rng.Pick(r, []string{"00", "FF00", "0123456789ABCDEF01", "0123456789abcdef", strings.Repeat("A5", 300)})
			case "Boolean":
				x.n.Attrs["value"] = "true"
			case "DateTime":
				x.n.Attrs["value"] = rng.Pick(r, []string{"1970-01-01T00:00:00Z", "2038-01-19T03:14:08+00:00", "0001-01-01T00:00:00Z", "9999-12-31T23:59:59Z", "2001-02-03T04:05:06-07:00", "1874-12-08T03:58:59+09:18", "9999-12-31T23:59:59+14:00"})
			case "Interval":
				x.n.Attrs["value"] = rng.Pick(r, []string{"1", "4294967295", "0x0000003C"})
			default:
				continue
			}
			if x.n.Attrs["value"] == old {
				continue
			}
			return c, "value." + x.n.Attrs["type"]
		}
	}
	return nil, ""
}

// vecAttrEnumTag: the tag whose enumeration names apply to the value of the attribute with this name (0: none).
func vecAttrEnumTag(attrName string) int {
	name := strings.ReplaceAll(attrName, " ", "")
	name = strings.ReplaceAll(name, ".", "_")
	name = strings.ReplaceAll(name, "#", "_")
	t, _ := vecTagOfName(name)
	return t
}

// ---- lexical oracle --------------------------------------------------------------------------------------------------

func vecIsNumber(s string) bool {
	_, err := parseNum(s, 64)
	return err == nil
}

func vecNameSet(s string) string {
	parts := strings.FieldsFunc(s, func(r rune) bool { return r == ' ' || r == '|' })
	sort.Strings(parts)
	return strings.Join(parts, " ")
}

// vecLexical: where the vector writes an enumeration value or mask bits BY NAME, so must the re-encoding (the two
// element trees are already known to be equal by value, so they have the same shape).
func vecLexical(want, got *xnode) string {
	if want.Name != got.Name && want.Name != "TTLV" && got.Name != "TTLV" {
		return fmt.Sprintf("element <%s> re-encoded as <%s>", want.Name, got.Name)
	}
	wv, gv := want.Attrs["value"], got.Attrs["value"]
	switch want.Attrs["type"] {
	case "Enumeration":
		if !vecIsNumber(wv) && wv != gv {
			return fmt.Sprintf("<%s> Enumeration %q re-encoded as %q", want.Name, wv, gv)
		}
	case "Integer":
		if !vecIsNumber(wv) && strings.TrimSpace(wv) != "" && vecNameSet(wv) != vecNameSet(gv) {
			return fmt.Sprintf("<%s> bit mask %q re-encoded as %q", want.Name, wv, gv)
		}
	}
	if len(want.Children) != len(got.Children) {
		return ""
	}
	for i := range want.Children {
		if m := vecLexical(want.Children[i], got.Children[i]); m != "" {
			return m
		}
	}
	return ""
}

func vecViolate(ctx *Ctx, oracle, key, detail, line string) {
	if len(detail) > 900 {
		detail = detail[:900] + "…"
	}
	ctx.Res.Violate(report.Violation{Property: "C04", Oracle: oracle, Key: key, Detail: detail, Line: line})
}

// ---- alternative lexical forms of numbers --------------------------------------------------------------------------
//
// A conformant producer may spell a number otherwise than the library's writers (and the vectors) do. The varied
// message below differs from the vector ONLY in the spelling of numbers, so it denotes the vector's own tree: the
// typed decoder must give a message whose binary TTLV is byte-identical to that of the vector as shipped — or reject
// the document (a violation only for the forms marked must, which are in the lexical space of the XML schema type:
// leading zeros for xsd:int / xsd:long / xsd:unsignedInt, an explicit + for xsd:int / xsd:long, either case of the
// digits of xsd:hexBinary). Never another value.

type vecForm struct {
	name string
	must bool
	// apply returns the new text of the value of an element of the given type ("" = leave it)
	apply func(typ, val string) string
}

var vecDecRe = regexp.MustCompile(`^(-?)([0-9]+)$`)

func vecDecimal(typ, val string, f func(sign, mag string) string) string {
	if typ != "Integer" && typ != "LongInteger" && typ != "Interval" {
		return ""
	}
	m := vecDecRe.FindStringSubmatch(val)
	if m == nil {
		return ""
	}
	return f(m[1], m[2])
}

func vecSwapHexCase(val string) string {
	if val == strings.ToUpper(val) {
		return strings.ToLower(val)
	}
	return strings.ToUpper(val)
}

var vecForms = []vecForm{
	{"dec-zero1", true, func(typ, val string) string {
		return vecDecimal(typ, val, func(sign, mag string) string { return sign + "0" + mag })
	}},
	{"dec-zero3", true, func(typ, val string) string {
		return vecDecimal(typ, val, func(sign, mag string) string { return sign + "000" + mag })
	}},
	{"dec-zero-pad20", true, func(typ, val string) string {
		return vecDecimal(typ, val, func(sign, mag string) string {
			if len(mag) >= 20 {
				return ""
			}
			return sign + strings.Repeat("0", 20-len(mag)) + mag
		})
	}},
	{"dec-plus", true, func(typ, val string) string {
		if typ == "Interval" {
			return "" // unsigned: whether xsd:unsignedInt admits a sign differs between XSD 1.0 and 1.1
		}
		return vecDecimal(typ, val, func(sign, mag string) string {
			if sign != "" {
				return ""
			}
			return "+" + mag
		})
	}},
	{"dec-plus-zero", true, func(typ, val string) string {
		if typ == "Interval" {
			return ""
		}
		return vecDecimal(typ, val, func(sign, mag string) string {
			if sign != "" {
				return ""
			}
			return "+00" + mag
		})
	}},
	{"dec-plus-unsigned", false, func(typ, val string) string {
		if typ != "Interval" {
			return ""
		}
		return vecDecimal(typ, val, func(sign, mag string) string { return "+" + mag })
	}},
	{"dec-space", false, func(typ, val string) string {
		return vecDecimal(typ, val, func(sign, mag string) string { return " " + sign + mag + " " })
	}},
	{"dec-as-hex", false, func(typ, val string) string {
		return vecDecimal(typ, val, func(sign, mag string) string {
			bits := 32
			if typ == "LongInteger" {
				bits = 64
			}
			v, err := strconv.ParseInt(sign+mag, 10, bits)
			if err != nil {
				return ""
			}
			if bits == 64 {
				return fmt.Sprintf("0x%016x", uint64(v))
			}
			return fmt.Sprintf("0x%08x", uint32(v))
		})
	}},
	{"hex-lower", false, func(typ, val string) string {
		if (typ == "Enumeration" || typ == "Integer" || typ == "LongInteger" || typ == "Interval") && strings.HasPrefix(val, "0x") && !strings.ContainsAny(val, " |") {
			return "0x" + vecSwapHexCase(val[2:])
		}
		return ""
	}},
	{"hexbin-other-case", true, func(typ, val string) string {
		if typ == "ByteString" || typ == "BigInteger" {
			return vecSwapHexCase(val)
		}
		return ""
	}},
}

// vecApplyForm respells every number of the message; nil when the message has none the form applies to.
func vecApplyForm(msg *xnode, f vecForm) *xnode {
	c := vecClone(msg)
	changed := 0
	vecWalk(c, func(n, parent *xnode, loc vecLoc) {
		typ := n.Attrs["type"]
		if typ == "" || typ == "Structure" {
			return
		}
		old, ok := n.Attrs["value"]
		if !ok {
			return
		}
		if nv := f.apply(typ, old); nv != "" && nv != old {
			n.Attrs["value"] = nv
			changed++
		}
	})
	if changed == 0 {
		return nil
	}
	return c
}

// vectorFormCase: `varied` is the vector `orig` (accepted and reproduced as shipped) with numbers respelled.
func vectorFormCase(ctx *Ctx, file string, idx int, orig, varied *xnode, form string, must bool) {
	mode := "may"
	if must {
		mode = "must"
	}
	line := fmt.Sprintf("#vectorform %s %d %s %s %s %s", file, idx, form, mode, hexUp([]byte(orig.String())), hexUp([]byte(varied.String())))
	ctx.current = line
	want, err := orig.toTree(0)
	if err != nil {
		return
	}
	newMsg := func() any {
		if orig.Name == "RequestMessage" {
			return &kmip.RequestMessage{}
		}
		return &kmip.ResponseMessage{}
	}
	m0, m1 := newMsg(), newMsg()
	err0, p0 := guard("UnmarshalXML", func() error { return ttlv.UnmarshalXML([]byte(orig.String()), m0) })
	if err0 != nil || p0 != "" {
		return // not a message the library accepts as shipped: nothing to compare with
	}
	doc := []byte(varied.String())
	derr, p := guard("UnmarshalXML", func() error { return ttlv.UnmarshalXML(doc, m1) })
	key := "vectors:lexical-form:" + form
	outcome := "ok"
	switch {
	case p != "":
		outcome = "panic"
		ctx.Res.Violate(report.Violation{Property: "C02", Oracle: "no-panic", Key: "xml:decode-panic:" + panicKey(p), Detail: "decoder panicked on a conformance vector with numbers respelled: " + p, Line: line})
	case derr != nil:
		outcome = "rejected"
		if must {
			vecViolate(ctx, "vector-lexical-form", key+":rejected", "a conformance vector whose numbers are respelled within the lexical space of their schema type ("+form+") is rejected: "+derr.Error()+"; first respelled value: "+vecFirstDiff(orig, varied), line)
		}
	default:
		b0, q0 := guard("MarshalTTLV", func() []byte { return ttlv.MarshalTTLV(m0) })
		b1, q1 := guard("MarshalTTLV", func() []byte { return ttlv.MarshalTTLV(m1) })
		bt, terr := tree.Decode(b1)
		if q0 != "" || q1 != "" || !bytes.Equal(b0, b1) || terr != nil || !tree.Equal(bt, want) {
			outcome = "different"
			got := "?"
			if terr == nil {
				got = firstDiff(want.Render(), bt.Render())
			}
			vecViolate(ctx, "vector-lexical-form", key+":different-value", "a conformance vector whose numbers are only respelled ("+form+") decodes WITHOUT error to a message with another binary TTLV: "+got+"; first respelled value: "+vecFirstDiff(orig, varied), line)
		}
	}
	ctx.Add(line, outcome, true, "")
	ctx.Res.Count("vector.form." + mode + "." + outcome)
	ctx.Res.Count("vector.form:" + form + "." + outcome)
}

// vecFirstDiff names the first element whose value differs between two messages of the same shape.
func vecFirstDiff(a, b *xnode) string {
	if a.Attrs["value"] != b.Attrs["value"] {
		return fmt.Sprintf("<%s type=%q value=%q> written value=%q", a.Name, a.Attrs["type"], a.Attrs["value"], b.Attrs["value"])
	}
	for i := range a.Children {
		if i < len(b.Children) {
			if m := vecFirstDiff(a.Children[i], b.Children[i]); m != "" {
				return m
			}
		}
	}
	return ""
}
