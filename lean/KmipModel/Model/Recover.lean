/-
  Recover — what becomes of the OUTCOME of an operation handler between the handler's return (or
  panic) and the response item: `kmipserver/router.go` `executeItem` (deferred recover block),
  `executeItemWithMiddleware`, and `errors.go` `handleBatchItemError`.

  The point of this small model: turning an outcome into an item RENDERS it, and rendering runs user
  code again — `err.Error()`, `errors.As` (→ `Unwrap`, `As`), `fmt.Stringer.String()` of a panic value.
  A value whose methods panic (a typed nil pointer with a value-receiver `Error` method is enough: the
  classic "typed nil returned as error") raises a NEW panic:
    * for a returned error, in `handleBatchItemError` called from `executeItemWithMiddleware`: no
      recover is active there;
    * for a panic value, inside the deferred function of `executeItem` (`er.String()`,
      `handleBatchItemError`): a panic in a deferred function is not recovered by that function's own
      `recover()`, it propagates to the caller.
  Before 06bba78 nothing above recovered (`handleRequest`, `Server.handleRequest`, `handleConn`): the
  goroutine of the connection died and with it the process. `Params.guarded` is the repair (06bba78):
  a deferred recover around the whole of `executeItemWithMiddleware`, which fails the item.

  The batch model (`Kmip.Batch`, C09) has outcomes `success | typed error | plain error | panicTyped |
  panicOther`: all of them are BENIGN in the sense of this file (`Render.fine`).
-/
namespace Kmip.Recover

/-- how the value behaves when the server renders it (its Error / String / Unwrap / As methods). -/
inductive Render where
  | fine | panics
  deriving DecidableEq, Repr

/-- what the operation handler did. -/
inductive Outcome where
  | ok                       -- returned a payload
  | err (r : Render)         -- returned an error
  | panic (r : Render)       -- panicked with a value
  deriving DecidableEq, Repr

inductive Result where
  | item (failed : Bool)     -- one response item
  | processDies              -- an unrecovered panic in the connection goroutine
  deriving DecidableEq, Repr

structure Params where
  /-- `executeItemWithMiddleware` has its own deferred recover (since 06bba78). -/
  guarded : Bool
  deriving DecidableEq, Repr

/-- the code at /repo HEAD. -/
def current : Params := { guarded := true }
/-- before 06bba78. -/
def beforeGuard : Params := { guarded := false }

/-- a panic raised while the outcome is rendered. -/
def escaped (p : Params) : Result := bif p.guarded then .item true else .processDies

def run (p : Params) : Outcome → Result
  | .ok => .item false
  | .err .fine => .item true            -- handleBatchItemError: failed item
  | .err .panics => escaped p           -- … its err.Error() / errors.As panics, outside any recover
  | .panic .fine => .item true          -- recover block: failed item
  | .panic .panics => escaped p         -- … panics again inside the deferred function

def Outcome.benign : Outcome → Bool
  | .err .panics | .panic .panics => false
  | _ => true

end Kmip.Recover
